(** C14 — executable correspondence checkers.  The harness (harness/src/bin/c14.rs) runs the
    Rust implementation through the hooks and prints, per case, one application of a checker
    below to the inputs and to the values the Rust code produced.  Result codes (type N):
    0 = agrees / property holds, 1 = violation candidate.

    Two kinds of comparison are made inside Coq (vm_compute):
    (a) model correspondence: the model of Nonsym/Model.v interpreted at binary64 ([TOpsF])
        is evaluated on the same inputs and compared with the Rust output under a relative
        tolerance measured in the local scale  sigma_i = sqrt(H_ii)  of the barrier
        (|grad_i| <= sqrt(3) sigma_i, |H_ij| <= sigma_i sigma_j, |eta_i| <= sigma_i |u| |v|);
    (b) property-level re-checks of the *Rust outputs themselves* in exact dyadic arithmetic
        (Base/Dyadic.v): H z = -grad, <grad,z> = -nu, Hs z = s, Hs zt = st, Hs positive
        definite, and the conjugacy  grad f^*(-g(s)) = -s  (float model of grad f^*, whose
        R-interpretation is proved to be the derivative of f^* ).
    Tolerances and why they cannot fire on a correct tree: design.d/C14.md. *)
From Coq Require Import List ZArith NArith Floats Bool.
Import ListNotations.
Require Import Clarabel.Base.Ops Clarabel.Base.Dyadic Clarabel.Cones.Step Clarabel.Nonsym.Model Clarabel.Nonsym.FloatTrans.

(** result codes: 0 = holds; 3 = a BINDING check failed (a statement of the property evaluated on the
    implementation's outputs, or a tie that does not pass through a dot product / norm / sum whose
    evaluation order is free); 2 = information only: every binding check holds but the output differs
    from the transcribed float model by more than the model tolerance (vp/standard.py reports code 2
    as a note, never as a violation).  Codes are combined with [N.max], so 3 dominates 2. *)
Definition ofb (b : bool) : N := if b then 0%N else 3%N.
Definition lvl (binding model_agrees : bool) : N :=
  if negb binding then 3%N else if model_agrees then 0%N else 2%N.
Definition maxl (l : list N) : N := fold_left N.max l 0%N.
Definition fails (start : N) (l : list N) : list (N * N) :=
  let fix go (k : N) (l : list N) : list (N * N) :=
    match l with
    | [] => []
    | c :: r => if N.eqb c 0 then go (N.succ k) r else (k, c) :: go (N.succ k) r
    end in go start l.

Local Open Scope float_scope.
Definition fabs := PrimFloat.abs.
Definition fmax (a b : float) : float := if PrimFloat.ltb a b then b else a.
(** |a - b| <= tol * scale   (false on NaN) *)
Definition close (tol scale a b : float) : bool := PrimFloat.leb (fabs (a - b)) (tol * scale).
(** relative to the larger magnitude *)
Definition rclose (tol a b : float) : bool := close tol (fmax (fabs a) (fabs b)) a b.
Definition feq (a b : float) : bool := PrimFloat.eqb a b.
Definition v3f := v3 float.
Definition s3f := sym3 float.
Definition all3 (f : float -> float -> bool) (a b : v3f) : bool :=
  let '(a0, a1, a2) := a in let '(b0, b1, b2) := b in f a0 b0 && f a1 b1 && f a2 b2.
Definition all6 (f : float -> float -> bool) (a b : s3f) : bool :=
  f (m00 a) (m00 b) && f (m01 a) (m01 b) && f (m11 a) (m11 b)
  && f (m02 a) (m02 b) && f (m12 a) (m12 b) && f (m22 a) (m22 b).
Definition sig3 (H : s3f) : v3f := (PrimFloat.sqrt (m00 H), PrimFloat.sqrt (m11 H), PrimFloat.sqrt (m22 H)).
Definition close3 (tol : float) (sc a b : v3f) : bool :=
  let '(s0, s1, s2) := sc in let '(a0, a1, a2) := a in let '(b0, b1, b2) := b in
  close tol s0 a0 b0 && close tol s1 a1 b1 && close tol s2 a2 b2.
Definition close6 (tol : float) (sc : v3f) (a b : s3f) : bool :=
  let '(s0, s1, s2) := sc in
  close tol (s0 * s0) (m00 a) (m00 b) && close tol (s0 * s1) (m01 a) (m01 b)
  && close tol (s1 * s1) (m11 a) (m11 b) && close tol (s0 * s2) (m02 a) (m02 b)
  && close tol (s1 * s2) (m12 a) (m12 b) && close tol (s2 * s2) (m22 a) (m22 b).
Definition neg3 (a : v3f) : v3f := let '(a0, a1, a2) := a in (- a0, - a1, - a2).
Definition sqrt3f : float := 0x1.bb67ae8584caap+0.

(** ** exact dyadic re-checks *)
Definition f2d (x : float) : option dy :=
  match Prim2SF x with
  | S754_zero _ => Some (D 0 0)
  | S754_finite s m e => Some (D (if s then Z.neg m else Z.pos m) e)
  | _ => None
  end.
Fixpoint f2dl (l : list float) : option (list dy) :=
  match l with
  | [] => Some []
  | x :: r => match f2d x, f2dl r with Some d, Some dr => Some (d :: dr) | _, _ => None end
  end.
Definition dtol (k : Z) : dy := D 1 (- k).      (* 2^-k *)
(** |sum_i a_i b_i + c| <= 2^-k (sum_i |a_i b_i| + |c|) *)
Definition dlin_ok (k : Z) (a b : list dy) (c : dy) : bool :=
  let prods := map (fun p => dmul (fst p) (snd p)) (combine a b) in
  let res := dadd (dsum prods) c in
  let scale := dadd (dsum (map dabs prods)) (dabs c) in
  dleb (dabs res) (dmul (dtol k) scale).
Definition lin_ok (k : Z) (a b : list float) (c : float) : bool :=
  match f2dl a, f2dl b, f2d c with
  | Some a, Some b, Some c => dlin_ok k a b c
  | _, _, _ => false
  end.
Definition row0 (H : s3f) := [m00 H; m01 H; m02 H].
Definition row1 (H : s3f) := [m01 H; m11 H; m12 H].
Definition row2 (H : s3f) := [m02 H; m12 H; m22 H].
Definition l3 (v : v3f) : list float := let '(a, b, c) := v in [a; b; c].
(** H x + y = 0 and <g, x> + c = 0, exactly evaluated, relative tolerance 2^-k *)
Definition Hx_plus_y_zero (k : Z) (H : s3f) (x y : v3f) : bool :=
  let '(y0, y1, y2) := y in
  lin_ok k (row0 H) (l3 x) y0 && lin_ok k (row1 H) (l3 x) y1 && lin_ok k (row2 H) (l3 x) y2.
(** positive definite up to a relative slack 2^-k on the minors (exact evaluation) *)
Definition spd_ok (k : Z) (H : s3f) : bool :=
  match f2d (m00 H), f2d (m01 H), f2d (m11 H), f2d (m02 H), f2d (m12 H), f2d (m22 H) with
  | Some a, Some b, Some c, Some d, Some e, Some f =>
    let minor2 := dsub (dmul a c) (dmul b b) in
    let det := dadd (dsub (dmul a (dsub (dmul c f) (dmul e e)))
                          (dmul b (dsub (dmul b f) (dmul e d))))
                    (dmul d (dsub (dmul b e) (dmul c d))) in
    let slack2 := dmul (dtol k) (dmul a c) in
    let slack3 := dmul (dtol k) (dmul a (dmul c f)) in
    dltb d0 a && dltb d0 c && dltb d0 f
    && dleb (dneg slack2) minor2 && dleb (dneg slack3) det
  | _, _, _, _, _, _ => false
  end.

(** ** 3x3 symmetric matrices *)
(** exactness domain (small integers): equality *)
Definition c_sym3_mul_exact (H : s3f) (x y : v3f) : N := ofb (all3 feq (sym3_mul TOpsF H x) y).
Definition c_sym3_quad_exact (H : s3f) (y x : v3f) (q : float) : N :=
  ofb (feq (sym3_quad_form TOpsF H y x) q).
Definition c_sym3_norm_fro (H : s3f) (n : float) : N := ofb (rclose 0x1p-48 (sym3_norm_fro TOpsF H) n).
(** entry (r,c) read through the Index impl = dense meaning of the packing *)
Definition c_sym3_get (H : s3f) (r c : N) (v : float) : N :=
  let m := match r, c with
           | 0, 0 => m00 H | 0, 1 | 1, 0 => m01 H | 1, 1 => m11 H
           | 0, 2 | 2, 0 => m02 H | 1, 2 | 2, 1 => m12 H | _, _ => m22 H end%N in
  ofb (feq m v).
(** Cholesky: same success verdict; factor and solution agree with the model; A x = b *)
Definition c_sym3_chol (A : s3f) (b : v3f) (L : option s3f) (x : v3f) : N :=
  match sym3_chol_factor TOpsF A, L with
  | None, None => 0%N
  | Some Lm, Some Lr =>
    let xm := sym3_chol_solve TOpsF Lm b in
    ofb (all6 (rclose 0x1p-40) Lm Lr && all3 (rclose 0x1p-30) xm x
         && Hx_plus_y_zero 30 A x (neg3 b))
  | _, _ => 3%N
  end.

(** ** feasibility predicates (the harness keeps samples away from the boundary by a relative
    margin >= 1e-9, or exactly on it) *)
Definition c_bool (m r : bool) : N := ofb (Bool.eqb m r).
Definition c_exp_feas (s z : v3f) (rp rd : bool) : N :=
  N.max (c_bool (exp_is_primal_feasible TOpsF s) rp) (c_bool (exp_is_dual_feasible TOpsF z) rd).
Definition c_pow_feas (al : float) (s z : v3f) (rp rd : bool) : N :=
  N.max (c_bool (pow_is_primal_feasible TOpsF al s) rp) (c_bool (pow_is_dual_feasible TOpsF al z) rd).
Definition c_gp_feas (al u w zu zw : list float) (rp rd : bool) : N :=
  N.max (c_bool (gp_is_primal_feasible TOpsF al u w) rp) (c_bool (gp_is_dual_feasible TOpsF al zu zw) rd).
(** membership according to the mathematical definition (not the code's test), with float
    exp/pow; only used on samples with relative margin >= 1e-6 *)
Definition exp_primal_def (s : v3f) : bool :=
  let '(x, y, z) := s in PrimFloat.ltb 0 y && PrimFloat.ltb (y * fexp (x / y)) z.
Definition exp_dual_def (zz : v3f) : bool :=
  let '(u, v, w) := zz in PrimFloat.ltb u 0 && PrimFloat.ltb (- u * fexp (v / u)) (fexp 1 * w).
Definition pow_primal_def (a : float) (s : v3f) : bool :=
  let '(s0, s1, s2) := s in
  PrimFloat.ltb 0 s0 && PrimFloat.ltb 0 s1 && PrimFloat.ltb (fabs s2) (fpow s0 a * fpow s1 (1 - a)).
Definition pow_dual_def (a : float) (zz : v3f) : bool :=
  let '(z0, z1, z2) := zz in
  PrimFloat.ltb 0 z0 && PrimFloat.ltb 0 z1
  && PrimFloat.ltb (fabs z2) (fpow (z0 / a) a * fpow (z1 / (1 - a)) (1 - a)).
Definition c_exp_member (s z : v3f) (rp rd : bool) : N :=
  N.max (c_bool (exp_primal_def s) rp) (c_bool (exp_dual_def z) rd).
Definition c_pow_member (a : float) (s z : v3f) (rp rd : bool) : N :=
  N.max (c_bool (pow_primal_def a s) rp) (c_bool (pow_dual_def a z) rd).

(** ** dual barrier value, gradient, Hessian *)
Definition c_scalar (tol m r : float) : N := ofb (close tol (fmax 1 (fmax (fabs m) (fabs r))) m r).
Definition gradH_ok (tol : float) (m : v3f * s3f) (g : v3f) (H : s3f) (z : v3f) : bool :=
  let '(gm, Hm) := m in
  let sc := sig3 Hm in
  let '(s0, s1, s2) := sc in
  close3 tol (s0 * sqrt3f, s1 * sqrt3f, s2 * sqrt3f) gm g && close6 tol sc Hm H
  (* property level, on the Rust outputs, exact: H z = -grad, <grad,z> = -3 *)
  && Hx_plus_y_zero 27 H z g && lin_ok 27 (l3 g) (l3 z) 3.
Definition c_exp_gradH (tol : float) (z g : v3f) (H : s3f) (fval : float) : N :=
  ofb (gradH_ok tol (exp_grad_H TOpsF z) g H z && spd_ok 30 H
       && close tol (fmax 1 (fabs fval)) (exp_barrier_dual TOpsF z) fval).
Definition c_pow_gradH (tol al : float) (z g : v3f) (H : s3f) (fval : float) : N :=
  ofb (gradH_ok tol (pow_grad_H TOpsF al z) g H z && spd_ok 30 H
       && close tol (fmax 1 (fabs fval)) (pow_barrier_dual TOpsF al z) fval).

(** ** third-order correction; H, z are the values stored by the Rust cone *)
Definition hc_ok (tol : float) (H : s3f) (ds v eta_m eta_r : v3f) : bool :=
  match sym3_chol_factor TOpsF H with
  | None => all3 feq eta_r (0, 0, 0)
  | Some L =>
    let u := sym3_chol_solve TOpsF L ds in
    let nu := PrimFloat.sqrt (sym3_quad_form TOpsF H u u) in
    let nv := PrimFloat.sqrt (sym3_quad_form TOpsF H v v) in
    let '(s0, s1, s2) := sig3 H in
    let k := nu * nv in
    close3 tol (s0 * k, s1 * k, s2 * k) eta_m eta_r
  end.
Definition c_exp_hc (tol : float) (H : s3f) (z ds v eta : v3f) : N :=
  ofb (hc_ok tol H ds v (exp_higher_correction TOpsF H z ds v) eta).
Definition c_pow_hc (tol al : float) (H : s3f) (z ds v eta : v3f) : N :=
  ofb (hc_ok tol H ds v (pow_higher_correction TOpsF al H z ds v) eta).

(** ** primal gradient: conjugacy  grad f^*(-g(s)) = -s  and <g,s> = -3 on the Rust output,
    measured in the local scale at -g; the model's own output is held to the same test *)
Definition conj_ok (tol : float) (gH : v3f -> v3f * s3f) (s g : v3f) : bool :=
  let '(gd, Hd) := gH (neg3 g) in
  close3 tol (sig3 Hd) gd (neg3 s) && lin_ok 24 (l3 g) (l3 s) 3.
Definition c_exp_gradp (tol : float) (s g : v3f) (bp : float) : N :=
  let gm := exp_gradient_primal TOpsF s in
  ofb (conj_ok tol (exp_grad_H TOpsF) s g && conj_ok tol (exp_grad_H TOpsF) s gm
       && exp_is_dual_feasible TOpsF (neg3 g)
       && close tol (fmax 1 (fabs bp)) (exp_barrier_primal TOpsF s) bp).
Definition c_pow_gradp (tol al : float) (s g : v3f) (bp : float) : N :=
  let gm := pow_gradient_primal TOpsF al s in
  ofb (conj_ok tol (pow_grad_H TOpsF al) s g && conj_ok tol (pow_grad_H TOpsF al) s gm
       && pow_is_dual_feasible TOpsF al (neg3 g)
       && close tol (fmax 1 (fabs bp)) (pow_barrier_primal TOpsF al s) bp).
Definition c_wright (z w : float) : N :=
  ofb (rclose 0x1p-40 (wright_omega TOpsF z) w && close 0x1p-36 (fmax 1 z) (w + fln w) z).

(** ** update_scaling.  g, H, Hs = stored grad, H_dual, Hs after the call; zt = the value
    of gradient_primal(s) returned by the Rust code (conjugacy-checked by [c_*_gradp]).
    Which branch the model takes is decided with a guard band around the thresholds. *)
Definition abs_dot3 (a b : v3f) : float :=
  let '(a0, a1, a2) := a in let '(b0, b1, b2) := b in fabs (a0 * b0) + fabs (a1 * b1) + fabs (a2 * b2).
(** BINDING (on the Rust outputs): Dual strategy: Hs = mu H entrywise.  PrimalDual strategy: Hs is
    either the fall-back (<s,z>/3) H -- up to the rounding of the dot product <s,z>, whose relative
    error is eps * sum|s_i z_i| / |<s,z>| whatever the summation order -- or satisfies, exactly
    evaluated, Hs z = s and Hs zt = st (relative to sum|terms|) and has non-negative minors; which of
    the two is legitimate is decided by the model's branch quantities with a guard band.
    INFORMATION (code 2): agreement of Hs with the transcribed float model of the primal-dual matrix
    (this is the only place where the coefficient t = mu ||W||_F of the third axis is compared). *)
Definition scaling_lvl (tol : float) (dual : bool) (g : v3f) (H Hs : s3f) (zt s z : v3f) (mu : float) : N :=
  if dual then lvl (all6 (rclose 0x1p-48) (sym3_scaled_from TOpsF mu H) Hs) true
  else
    let t := pd_scaling_terms TOpsF H g zt s z in
    let fallback := sym3_scaled_from TOpsF (pd_mu t) H in
    let cond_sz := abs_dot3 s z / fabs (pd_dot_sz t) in
    let is_fb := all6 (rclose (0x1p-46 * fmax 1 cond_sz)) fallback Hs in
    let pdm := pd_scaling_matrix TOpsF H g zt s z in
    let secant := Hx_plus_y_zero 22 Hs z (neg3 s) && Hx_plus_y_zero 22 Hs zt (neg3 g) && spd_ok 30 Hs in
    let clearly_pd := PrimFloat.ltb 0x1p-20 (fabs (pd_de1 t)) && PrimFloat.ltb 0x1p-40 (fabs (pd_de2 t))
                      && PrimFloat.ltb 0 (pd_dot_sz t) && PrimFloat.ltb 0x1p-30 (pd_dot_dsz t / pd_dot_sz t) in
    let clearly_fb := PrimFloat.ltb (fabs (pd_de1 t)) 0x1p-32 || PrimFloat.leb (pd_dot_sz t) 0
                      || PrimFloat.ltb (pd_dot_dsz t) 0 in
    let binding := if clearly_pd then secant else if clearly_fb then is_fb else secant || is_fb in
    lvl binding (is_fb || close6 tol (sig3 pdm) pdm Hs).
Definition c_exp_scaling (tol : float) (dual : bool) (s z : v3f) (mu : float) (g : v3f) (H Hs : s3f) (zt : v3f) : N :=
  scaling_lvl tol dual g H Hs zt s z mu.
Definition c_pow_scaling (tol al : float) (dual : bool) (s z : v3f) (mu : float) (g : v3f) (H Hs : s3f) (zt : v3f) : N :=
  scaling_lvl tol dual g H Hs zt s z mu.
(** y = Hs x through mul_Hs / get_Hs *)
Definition c_mul_Hs (Hs : s3f) (x y : v3f) (packed : list float) : N :=
  let '(y0, y1, y2) := y in
  ofb (lin_ok 45 (row0 Hs) (l3 x) (- y0) && lin_ok 45 (row1 Hs) (l3 x) (- y1) && lin_ok 45 (row2 Hs) (l3 x) (- y2)
       && match packed with [a; b; c; d; e; f] => all6 feq Hs (S3 a b c d e f) | _ => false end).

(** ** starting points: bit-exact constants, s = z *)
Definition c_exp_unit (z s : v3f) : N :=
  ofb (all3 feq (exp_unit_init TOpsF) z && all3 feq z s).
Definition c_pow_unit (al : float) (z s : v3f) : N :=
  ofb (all3 feq (pow_unit_init TOpsF al) z && all3 feq z s).

(** ** generalised power cone *)
Fixpoint alll (f : float -> float -> bool) (a b : list float) : bool :=
  match a, b with
  | [], [] => true
  | x :: a', y :: b' => f x y && alll f a' b'
  | _, _ => false
  end.
Definition closel (tol : float) (sc a b : list float) : bool :=
  (Nat.eqb (length a) (length b)) && (Nat.eqb (length a) (length sc))
  && forallb (fun p => close tol (fst p) (fst (snd p)) (snd (snd p))) (combine sc (combine a b)).
Definition c_gp_unit (al : list float) (dim2 : N) (z s : list float) : N :=
  let '(u, w) := gp_unit_init TOpsF al (N.to_nat dim2) in
  ofb (alll feq (u ++ w) z && alll feq z s).
(** diagonal of the true Hessian  D + p p' - q q' - r r'  from the stored vectors *)
Definition gp_diag (d : @gp_data float) : list float * list float :=
  (map (fun t => fst t + fst (snd t) * fst (snd t) - snd (snd t) * snd (snd t))
       (combine (gp_d1 d) (combine (gp_p_u d) (gp_q d))),
   map (fun t => gp_d2 d + fst t * fst t - snd t * snd t) (combine (gp_p_w d) (gp_r d))).
Definition c_gp_gradH (tol : float) (al u w : list float) (r : @gp_data float) (fval : float) : N :=
  let m := gp_grad_H TOpsF al u w in
  let '(du, dw) := gp_diag m in
  let su := map PrimFloat.sqrt du in let sw := map PrimFloat.sqrt dw in
  let nu := PrimFloat.sqrt (ofZ OpsF (Z.of_nat (S (length al)))) in
  let sig := su ++ sw in
  ofb (closel tol (map (fun s => s * nu) sig) (gp_grad_u m ++ gp_grad_w m) (gp_grad_u r ++ gp_grad_w r)
       && closel tol sig (gp_p_u m ++ gp_p_w m) (gp_p_u r ++ gp_p_w r)
       && closel tol su (gp_q m) (gp_q r) && closel tol sw (gp_r m) (gp_r r)
       && closel tol (map (fun s => s * s) su) (gp_d1 m) (gp_d1 r)
       && rclose tol (gp_d2 m) (gp_d2 r)
       && close tol (fmax 1 (fabs fval)) (gp_barrier_dual TOpsF al u w) fval
       (* <grad, z> = -(dim1 + 1), exact *)
       && lin_ok 27 (gp_grad_u r ++ gp_grad_w r) (u ++ w) (ofZ OpsF (Z.of_nat (S (length al))))).
(** mul_Hs against the model formula on the stored data, and H z = -mu grad exactly *)
Definition c_gp_mulHs (tol : float) (r : @gp_data float) (mu : float) (xu xw y : list float)
           (zu zw yz : list float) (diag : list float) : N :=
  let '(yu, yw) := gp_mul_Hs TOpsF r mu xu xw in
  let ym := yu ++ yw in
  let sc := fold_left fmax (map fabs (ym ++ y)) 0 in
  let g := gp_grad_u r ++ gp_grad_w r in
  (* binding: H z = -mu grad on the outputs, diagonal block = mu (d1, d2);
     information: mul_Hs on a random x against the model formula (three dot products whose
     rounding depends on the summation order and can cancel) *)
  lvl (closel 0x1p-24 (map (fun p => fmax (fabs (fst p)) (fabs (mu * snd p))) (combine yz g))
                 yz (map (fun gi => - (mu * gi)) g)
       && alll (rclose 0x1p-48) (map (fun d => mu * d) (gp_d1 r) ++ map (fun _ => mu * gp_d2 r) zw) diag)
      (closel tol (map (fun _ => sc) ym) ym y).
(** primal gradient: conjugacy in the local scale at -g, <g,s> = -(dim1+1) *)
Definition gp_conj_ok (tol : float) (al u w gu gw : list float) : bool :=
  let nu := map PrimFloat.opp gu in let nw := map PrimFloat.opp gw in
  let m := gp_grad_H TOpsF al nu nw in
  let '(du, dw) := gp_diag m in
  let sig := map PrimFloat.sqrt du ++ map PrimFloat.sqrt dw in
  closel tol sig (gp_grad_u m ++ gp_grad_w m) (map PrimFloat.opp (u ++ w))
  && lin_ok 24 (gu ++ gw) (u ++ w) (ofZ OpsF (Z.of_nat (S (length al)))).
Definition c_gp_gradp (tol : float) (al u w gu gw : list float) : N :=
  let '(mu_, mw_) := gp_gradient_primal TOpsF al u w in
  ofb (gp_conj_ok tol al u w gu gw && gp_conj_ok tol al u w mu_ mw_
       && gp_is_dual_feasible TOpsF al (map PrimFloat.opp gu) (map PrimFloat.opp gw)).
(** finding F4 (known, not repaired): the code writes a multiple of the *stored* Hessian vector
    into the w-part.  The model of the code as it is ([gp_gradient_primal_F4]) must agree with
    the Rust output; conjugacy ([c_gp_gradp]) fails for dim2 > 0 and is the known finding. *)
Definition c_gp_gradp_model (tol : float) (al u w stored_r gu gw : list float) : N :=
  let '(mu_, mw_) := gp_gradient_primal_F4 TOpsF stored_r al u w in
  ofb (Nat.eqb (length gu) (length mu_) && Nat.eqb (length gw) (length mw_)
       && alll (rclose tol) (mu_ ++ mw_) (gu ++ gw)).

(** ** backtrack_search (model: Cones/Step.v [backtrack]) driven by the cones' own membership
    predicates: the Rust result equals the model's (the sequence alpha *= step is exact in both),
    and is 0 or a feasible step.  kind: 0 exp primal, 1 exp dual, 2 pow primal, 3 pow dual *)
Definition step3f (q dq : v3f) (a : float) : v3f :=
  let '(q0, q1, q2) := q in let '(d0, d1, d2) := dq in (1 * q0 + a * d0, 1 * q1 + a * d1, 1 * q2 + a * d2).
Definition bt_pred3 (kind : N) (al : float) (p : v3f) : bool :=
  match kind with
  | 0%N => exp_is_primal_feasible TOpsF p
  | 1%N => exp_is_dual_feasible TOpsF p
  | 2%N => pow_is_primal_feasible TOpsF al p
  | _ => pow_is_dual_feasible TOpsF al p
  end.
Definition bt_ok (inc : float -> bool) (a0 amin step r : float) : N :=
  match backtrack OpsF 20000 inc a0 amin step with
  | Some m => ofb (feq m r && (feq r 0 || inc r))
  | None => 3%N
  end.
Definition c_bt3 (kind : N) (al : float) (q dq : v3f) (a0 amin step r : float) : N :=
  bt_ok (fun a => bt_pred3 kind al (step3f q dq a)) a0 amin step r.
Definition steplf (q dq : list float) (a : float) : list float :=
  map (fun p => 1 * fst p + a * snd p) (combine q dq).
Definition c_bt_gp (dual : bool) (al u du w dw : list float) (a0 amin step r : float) : N :=
  bt_ok (fun a => if dual then gp_is_dual_feasible TOpsF al (steplf u du a) (steplf w dw a)
                  else gp_is_primal_feasible TOpsF al (steplf u du a) (steplf w dw a)) a0 amin step r.

(** genpow update_scaling verdict: true exactly when the model accepts; on refusal the stored
    state must be unchanged (reported by the harness) *)
Definition c_gp_scaling_verdict (al u w : list float) (mu : float) (ok unchanged : bool) : N :=
  match gp_update_scaling TOpsF al u w mu with
  | Some _ => ofb ok
  | None => ofb (negb ok && unchanged)
  end.

(** ** badly balanced pairs: Hs(lam s, z/lam) = lam^2 Hs(s, z) for lam a power of two (exact
    scaling of the inputs), and strict definiteness of both matrices: the leading minors,
    evaluated exactly, exceed 2^-k times the product of the diagonal entries involved. *)
Definition spd_strict (k : Z) (H : s3f) : bool :=
  match f2d (m00 H), f2d (m01 H), f2d (m11 H), f2d (m02 H), f2d (m12 H), f2d (m22 H) with
  | Some a, Some b, Some c, Some d, Some e, Some f =>
    let minor2 := dsub (dmul a c) (dmul b b) in
    let det := dadd (dsub (dmul a (dsub (dmul c f) (dmul e e)))
                          (dmul b (dsub (dmul b f) (dmul e d))))
                    (dmul d (dsub (dmul b e) (dmul c d))) in
    dltb d0 a && dltb d0 c && dltb d0 f
    && dltb (dmul (dtol k) (dmul a c)) minor2 && dltb (dmul (dtol k) (dmul a (dmul c f))) det
  | _, _, _, _, _, _ => false
  end.
Definition c_scaling_cov (tol lam : float) (k : Z) (Hs1 Hs2 : s3f) : N :=
  let l2 := lam * lam in
  let scaled := S3 (l2 * m00 Hs1) (l2 * m01 Hs1) (l2 * m11 Hs1) (l2 * m02 Hs1) (l2 * m12 Hs1) (l2 * m22 Hs1) in
  (* binding only for moderately conditioned matrices (diagonal spread <= 2^16): beyond that the
     entries are dominated by the conditioning of the Newton-Raphson / cancellation errors and the
     comparison is information only *)
  let '(a, b, c) := sig3 Hs1 in
  let hi := fmax a (fmax b c) in
  let lo := if PrimFloat.ltb a b then (if PrimFloat.ltb a c then a else c) else (if PrimFloat.ltb b c then b else c) in
  let well := PrimFloat.leb hi (0x1p+8 * lo) in
  let ok := close6 tol (sig3 scaled) scaled Hs2 && spd_strict k Hs1 && spd_strict k Hs2 in
  if well then ofb ok else lvl (spd_ok 30 Hs1 && spd_ok 30 Hs2) ok.

(** ** third-order correction under z -> lam z, ds -> ds / lam, v -> lam v (lam a power of two):
    eta -> eta / lam; at interior points the stored Hessian factorises and eta is not the zero
    vector that [higher_correction] returns when the factorisation is reported to fail. *)
Definition c_hc_cov (tol lam : float) (H2 : s3f) (ds2 v2 eta1 eta2 : v3f) : N :=
  match sym3_chol_factor TOpsF H2 with
  | None => 3%N
  | Some L =>
    let u := sym3_chol_solve TOpsF L ds2 in
    let nu := PrimFloat.sqrt (sym3_quad_form TOpsF H2 u u) in
    let nv := PrimFloat.sqrt (sym3_quad_form TOpsF H2 v2 v2) in
    let '(s0, s1, s2) := sig3 H2 in
    let k := nu * nv in
    let '(e0, e1, e2) := eta1 in
    ofb (close3 tol (s0 * k, s1 * k, s2 * k) (e0 / lam, e1 / lam, e2 / lam) eta2
         && negb (all3 feq eta2 (0, 0, 0)) && spd_ok 30 H2)
  end.

(** ** scale covariance of the membership tests: the verdicts at (lam s, lam z), lam = 2^k, equal
    the model's predicate there and the verdicts at (s, z); cone-level step_length from a
    tiny-scale interior point along a zero / inward direction returns alpha_max *)
Definition c_feas_cov (model_p model_d : bool) (rp rd rp0 rd0 : bool) : N :=
  ofb (Bool.eqb model_p rp && Bool.eqb model_d rd && Bool.eqb rp rp0 && Bool.eqb rd rd0).
Definition c_exp_feas_cov (s z : v3f) (rp rd rp0 rd0 : bool) : N :=
  c_feas_cov (exp_is_primal_feasible TOpsF s) (exp_is_dual_feasible TOpsF z) rp rd rp0 rd0.
Definition c_pow_feas_cov (al : float) (s z : v3f) (rp rd rp0 rd0 : bool) : N :=
  c_feas_cov (pow_is_primal_feasible TOpsF al s) (pow_is_dual_feasible TOpsF al z) rp rd rp0 rd0.
Definition c_gp_feas_cov (al u w zu zw : list float) (rp rd rp0 rd0 : bool) : N :=
  c_feas_cov (gp_is_primal_feasible TOpsF al u w) (gp_is_dual_feasible TOpsF al zu zw) rp rd rp0 rd0.
Definition c_step_full (amax az as_ : float) : N := ofb (feq az amax && feq as_ amax).
