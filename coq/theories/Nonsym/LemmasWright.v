(** C14 — enclosure of the Wright-omega iteration (model over R, exact arithmetic): for every
    argument in [0, 1000] (the whole domain on which the Rust function does not panic, up to 1000) the returned value solves  w + ln w = z  to 1e-6.  Arguments of the
    exponential cone's primal gradient are > 1 for interior points; above 1000 and the effect
    of floating-point rounding are not covered. *)
From Coq Require Import Reals Lra.
From Interval Require Import Tactic.
Require Import Clarabel.Base.Ops Clarabel.Nonsym.Model Clarabel.Nonsym.FloatTrans.
Open Scope R_scope.

Definition wright_residual_ok (z : R) : Prop :=
  0 < wright_omega TOpsR z /\ Rabs (wright_omega TOpsR z + ln (wright_omega TOpsR z) - z) <= 1 / 1000000.

Lemma PI_lo : 3.14159 < PI. Proof. interval. Qed.
Lemma PI_hi : PI < 3.1416. Proof. interval. Qed.

Lemma wright_taylor_branch z : 1 <= z <= 4.1417 -> Rltb z (1 + PI) = true -> wright_residual_ok z.
Proof.
  intros hz hb. unfold wright_residual_ok, wright_omega, recip; cbn -[ln PI]. rewrite hb.
  split; interval with (i_bisect z, i_taylor z, i_degree 8, i_depth 24).
Qed.

Lemma wright_taylor_low z : 0 <= z <= 1 -> Rltb z (1 + PI) = true -> wright_residual_ok z.
Proof.
  intros hz hb. unfold wright_residual_ok, wright_omega, recip; cbn -[ln PI]. rewrite hb.
  split; interval with (i_bisect z, i_taylor z, i_degree 8, i_depth 24).
Qed.

Lemma wright_asym_branch z : 4.1415 <= z <= 1000 -> Rltb z (1 + PI) = false -> wright_residual_ok z.
Proof.
  intros hz hb. unfold wright_residual_ok, wright_omega, recip; cbn -[ln PI]. rewrite hb.
  split; interval with (i_bisect z, i_taylor z, i_degree 8, i_depth 30).
Qed.

Theorem wright_omega_enclosure : forall z, 0 <= z <= 1000 -> wright_residual_ok z.
Proof.
  intros z hz. pose proof PI_lo. pose proof PI_hi.
  destruct (Rltb z (1 + PI)) eqn:e.
  - destruct (Rle_dec z 1) as [h1|h1]; [apply wright_taylor_low; auto; lra|].
    apply wright_taylor_branch; auto. apply Rltb_true in e. lra.
  - apply wright_asym_branch; auto. apply Rltb_false in e. lra.
Qed.
