(** C14 — specification side: the cones, their duals and the dual barriers written by hand
    from the mathematical definitions (doc comments of expcone.rs / powcone.rs /
    genpowcone.rs), and the statements ([stmt_...]) proved in Nonsym/Lemmas*.v about the
    model of Nonsym/Model.v interpreted over the reals ([TOpsR]).  Statements only. *)
From Coq Require Import Reals List ZArith.
From Coquelicot Require Import Coquelicot.
Require Import Clarabel.Base.Ops Clarabel.Nonsym.Model Clarabel.Nonsym.FloatTrans.
Import ListNotations.
Open Scope R_scope.

(** ** indexing of 3-vectors and of the packed symmetric matrix *)
Inductive ix := I0 | I1 | I2.
Definition vget {T} (i : ix) (v : v3 T) : T :=
  let '(a, b, c) := v in match i with I0 => a | I1 => b | I2 => c end.
Definition vset {T} (i : ix) (v : v3 T) (t : T) : v3 T :=
  let '(a, b, c) := v in match i with I0 => (t, b, c) | I1 => (a, t, c) | I2 => (a, b, t) end.
(** dense meaning of the packed storage: entry (i,j) of the symmetric matrix *)
Definition sget {T} (i j : ix) (H : sym3 T) : T :=
  match i, j with
  | I0, I0 => m00 H | I0, I1 => m01 H | I0, I2 => m02 H
  | I1, I0 => m01 H | I1, I1 => m11 H | I1, I2 => m12 H
  | I2, I0 => m02 H | I2, I1 => m12 H | I2, I2 => m22 H
  end.
Definition vadd (a b : v3 R) : v3 R :=
  let '(a0, a1, a2) := a in let '(b0, b1, b2) := b in (a0 + b0, a1 + b1, a2 + b2).
Definition vscale (c : R) (a : v3 R) : v3 R := let '(a0, a1, a2) := a in (c * a0, c * a1, c * a2).
Definition vneg (a : v3 R) : v3 R := vscale (-1) a.
Definition vdot (a b : v3 R) : R :=
  let '(a0, a1, a2) := a in let '(b0, b1, b2) := b in a0 * b0 + a1 * b1 + a2 * b2.
(** dense matrix-vector product through [sget] *)
Definition mvec (H : sym3 R) (x : v3 R) : v3 R :=
  (sget I0 I0 H * vget I0 x + sget I0 I1 H * vget I1 x + sget I0 I2 H * vget I2 x,
   sget I1 I0 H * vget I0 x + sget I1 I1 H * vget I1 x + sget I1 I2 H * vget I2 x,
   sget I2 I0 H * vget I0 x + sget I2 I1 H * vget I1 x + sget I2 I2 H * vget I2 x).
(** symmetric positive definite by Sylvester's criterion on the dense meaning *)
Definition det3 (H : sym3 R) : R :=
  m00 H * (m11 H * m22 H - m12 H * m12 H) - m01 H * (m01 H * m22 H - m12 H * m02 H)
  + m02 H * (m01 H * m12 H - m11 H * m02 H).
Definition spd3 (H : sym3 R) : Prop :=
  0 < m00 H /\ 0 < m00 H * m11 H - m01 H * m01 H /\ 0 < det3 H.
Definition quad3 (H : sym3 R) (x : v3 R) : R := vdot x (mvec H x).

(** ** exponential cone:  K_exp = cl { (x,y,z) | y > 0, y e^{x/y} <= z } ;
       K_exp^* = cl { (u,v,w) | u < 0, -u e^{v/u} <= e w } *)
Definition exp_primal_int (s : v3 R) : Prop :=
  let '(x, y, z) := s in 0 < y /\ y * exp (x / y) < z.
Definition exp_dual_int (z : v3 R) : Prop :=
  let '(u, v, w) := z in u < 0 /\ - u * exp (v / u) < exp 1 * w.
(** dual barrier, from the doc comment:
    f*(z) = -log(z2 - z1 - z1*log(z3/-z1)) - log(-z1) - log(z3)   (1-based there) *)
Definition exp_fstar (z : v3 R) : R :=
  let '(z0, z1, z2) := z in
  - ln (z1 - z0 - z0 * ln (z2 / - z0)) - ln (- z0) - ln z2.

(** ** power cone:  K_pow(a) = { s | s0^a s1^(1-a) >= |s2|, s0,s1 >= 0 } ;
       K_pow(a)^* = { z | (z0/a)^a (z1/(1-a))^(1-a) >= |z2|, z0,z1 >= 0 } *)
Definition pow_primal_int (a : R) (s : v3 R) : Prop :=
  let '(s0, s1, s2) := s in 0 < s0 /\ 0 < s1 /\ Rabs s2 < Rpower s0 a * Rpower s1 (1 - a).
Definition pow_dual_int (a : R) (z : v3 R) : Prop :=
  let '(z0, z1, z2) := z in
  0 < z0 /\ 0 < z1 /\ Rabs z2 < Rpower (z0 / a) a * Rpower (z1 / (1 - a)) (1 - a).
(** f*(z) = -log((z1/a)^{2a} (z2/(1-a))^{2(1-a)} - z3^2) - (1-a) log z1 - a log z2 *)
Definition pow_fstar (a : R) (z : v3 R) : R :=
  let '(z0, z1, z2) := z in
  - ln (Rpower (z0 / a) (2 * a) * Rpower (z1 / (1 - a)) (2 * (1 - a)) - z2 * z2)
  - (1 - a) * ln z0 - a * ln z1.

(** ** generalised power cone:  { (u,w) | prod u_i^{a_i} >= ||w||, u >= 0 }, sum a = 1 *)
Definition prod_pow (f : R -> R -> R) (al u : list R) : R :=
  fold_right (fun p acc => f (fst p) (snd p) * acc) 1 (combine al u).
Definition sumsqR (w : list R) : R := fold_right (fun x acc => x * x + acc) 0 w.
Definition gp_primal_int (al u w : list R) : Prop :=
  List.Forall (fun x => 0 < x) u /\ sumsqR w < Rsqr (prod_pow (fun a x => Rpower x a) al u).
Definition gp_dual_int (al u w : list R) : Prop :=
  List.Forall (fun x => 0 < x) u /\ sumsqR w < Rsqr (prod_pow (fun a x => Rpower (x / a) a) al u).
Definition alphas_ok (al : list R) : Prop := List.Forall (fun a => 0 < a < 1) al.

(** ** statements *)
(* membership *)
Definition stmt_exp_primal_feasible_iff : Prop := forall s : v3 R,
  exp_is_primal_feasible TOpsR s = true <-> exp_primal_int s.
Definition stmt_exp_dual_feasible_iff : Prop := forall z : v3 R,
  exp_is_dual_feasible TOpsR z = true <-> exp_dual_int z.
Definition stmt_pow_primal_feasible_iff : Prop := forall a (s : v3 R), 0 < a < 1 ->
  (pow_is_primal_feasible TOpsR a s = true <-> pow_primal_int a s).
Definition stmt_pow_dual_feasible_iff : Prop := forall a (z : v3 R), 0 < a < 1 ->
  (pow_is_dual_feasible TOpsR a z = true <-> pow_dual_int a z).
Definition stmt_gp_primal_feasible_iff : Prop := forall al u w : list R,
  alphas_ok al -> length u = length al ->
  (gp_is_primal_feasible TOpsR al u w = true <-> gp_primal_int al u w).
Definition stmt_gp_dual_feasible_iff : Prop := forall al u w : list R,
  alphas_ok al -> length u = length al ->
  (gp_is_dual_feasible TOpsR al u w = true <-> gp_dual_int al u w).

(* the code's barrier value is the hand-written barrier *)
Definition stmt_exp_barrier_dual_eq : Prop := forall z, exp_dual_int z ->
  exp_barrier_dual TOpsR z = exp_fstar z.
Definition stmt_pow_barrier_dual_eq : Prop := forall a z, 0 < a < 1 -> pow_dual_int a z ->
  pow_barrier_dual TOpsR a z = pow_fstar a z.

(* first and second derivatives: every stored gradient entry is the partial derivative of f*,
   every stored Hessian entry (dense meaning) the partial derivative of the gradient entry *)
Definition grad_is_derivative (fstar : v3 R -> R) (gH : v3 R -> v3 R * sym3 R) (z : v3 R) : Prop :=
  forall i, is_derive (fun t => fstar (vset i z t)) (vget i z) (vget i (fst (gH z))).
Definition hess_is_derivative (gH : v3 R -> v3 R * sym3 R) (z : v3 R) : Prop :=
  forall i j, is_derive (fun t => vget i (fst (gH (vset j z t)))) (vget j z) (sget i j (snd (gH z))).
Definition stmt_exp_grad_is_derivative : Prop := forall z, exp_dual_int z ->
  grad_is_derivative exp_fstar (exp_grad_H TOpsR) z.
Definition stmt_exp_hess_is_derivative : Prop := forall z, exp_dual_int z ->
  hess_is_derivative (exp_grad_H TOpsR) z.
Definition stmt_pow_grad_is_derivative : Prop := forall a z, 0 < a < 1 -> pow_dual_int a z ->
  grad_is_derivative (pow_fstar a) (pow_grad_H TOpsR a) z.
Definition stmt_pow_hess_is_derivative : Prop := forall a z, 0 < a < 1 -> pow_dual_int a z ->
  hess_is_derivative (pow_grad_H TOpsR a) z.

(* logarithmic homogeneity of degree 3 *)
Definition log_homogeneous (gH : v3 R -> v3 R * sym3 R) (z : v3 R) : Prop :=
  vdot (fst (gH z)) z = -3 /\ mvec (snd (gH z)) z = vneg (fst (gH z)).
Definition stmt_exp_log_homogeneous : Prop := forall z, exp_dual_int z ->
  log_homogeneous (exp_grad_H TOpsR) z.
Definition stmt_pow_log_homogeneous : Prop := forall a z, 0 < a < 1 -> pow_dual_int a z ->
  log_homogeneous (pow_grad_H TOpsR a) z.

(* the stored Hessian is symmetric positive definite on the interior *)
Definition stmt_exp_hess_spd : Prop := forall z, exp_dual_int z -> spd3 (snd (exp_grad_H TOpsR z)).
Definition stmt_pow_hess_spd : Prop := forall a z, 0 < a < 1 -> pow_dual_int a z ->
  spd3 (snd (pow_grad_H TOpsR a z)).

(* 3x3 Cholesky: the model's product is the dense product; a factorisation succeeds exactly on
   SPD matrices and the solve returns the solution of H x = b *)
Definition stmt_sym3_mul_dense : Prop := forall H x, sym3_mul TOpsR H x = mvec H x.
Definition stmt_cholesky_3x3 : Prop := forall A : sym3 R,
  (spd3 A <-> exists L, sym3_chol_factor TOpsR A = Some L) /\
  (forall L b, sym3_chol_factor TOpsR A = Some L -> mvec A (sym3_chol_solve TOpsR L b) = b).

(* third-order correction: eta = +1/2 D^3 f*(z)[u, v] with u = H^{-1} ds (one half of the third
   derivative contracted with the Newton-scaled slack direction u and the dual direction v),
   componentwise as the directional derivative of t |-> H(z + t v) u *)
Definition third_order (gH : v3 R -> v3 R * sym3 R) (hc : sym3 R -> v3 R -> v3 R -> v3 R -> v3 R)
           (z ds v : v3 R) : Prop :=
  let H := snd (gH z) in
  exists u, mvec H u = ds /\
    forall i, is_derive (fun t => vget i (mvec (snd (gH (vadd z (vscale t v)))) u)) 0
                        (2 * vget i (hc H z ds v)).
Definition stmt_exp_third_order : Prop := forall z ds v, exp_dual_int z ->
  third_order (exp_grad_H TOpsR) (exp_higher_correction TOpsR) z ds v.
Definition stmt_pow_third_order : Prop := forall a z ds v, 0 < a < 1 -> pow_dual_int a z ->
  third_order (pow_grad_H TOpsR a) (pow_higher_correction TOpsR a) z ds v.

(* primal gradient = conjugate map, given the equation the inner iteration solves *)
Definition stmt_exp_primal_grad_conjugate : Prop := forall s om, exp_primal_int s ->
  1 < om -> om + ln om = exp_omega_arg TOpsR s ->
  let g := exp_gradient_primal_of TOpsR om s in
  exp_dual_int (vneg g) /\ fst (exp_grad_H TOpsR (vneg g)) = vneg s /\ vdot g s = -3.
Definition stmt_pow_primal_grad_conjugate : Prop := forall a s x, 0 < a < 1 -> pow_primal_int a s ->
  vget I2 s <> 0 -> 0 < x ->
  pow_nr_f0 TOpsR (Rabs (vget I2 s)) (Rpower (vget I0 s) (2 * a) * Rpower (vget I1 s) (2 - a * 2)) a x = 0 ->
  let g := pow_gradient_primal_of TOpsR a x s in
  pow_dual_int a (vneg g) /\ fst (pow_grad_H TOpsR a (vneg g)) = vneg s /\ vdot g s = -3.

(* primal-dual scaling *)
Definition stmt_pd_scaling : Prop := forall (H : sym3 R) (st zt s z : v3 R),
  (* homogeneity facts supplied by the theorems above / the conjugacy theorem *)
  vdot st z = -3 -> vdot zt s = -3 ->
  let t := pd_scaling_terms TOpsR H st zt s z in
  let Hs := use_primal_dual_scaling TOpsR H st zt s z in
  (pd_branch TOpsR t = true ->
     mvec Hs z = s /\ mvec Hs (vneg zt) = vneg st /\
     (forall x, 0 <= quad3 Hs x) /\
     (forall x, quad3 Hs x = 0 -> vdot s x = 0 /\ vdot (pd_ds t) x = 0)) /\
  (pd_branch TOpsR t = false -> Hs = sym3_scaled_from TOpsR (vdot s z / 3) H).
(* strict definiteness: t > 0 and z, zt linearly independent *)
Definition stmt_pd_scaling_strict : Prop := forall (H : sym3 R) (st zt s z : v3 R),
  vdot st z = -3 -> vdot zt s = -3 ->
  pd_branch TOpsR (pd_scaling_terms TOpsR H st zt s z) = true ->
  0 < pd_t TOpsR H st zt s z ->
  0 < vdot (cross3 TOpsR z zt) (cross3 TOpsR z zt) ->
  forall x, quad3 (use_primal_dual_scaling TOpsR H st zt s z) x = 0 -> x = (0, 0, 0).

Definition stmt_update_Hs_dual : Prop := forall H st zt s z mu,
  update_Hs TOpsR true H st zt s z mu = sym3_scaled_from TOpsR mu H /\
  update_Hs TOpsR false H st zt s z mu = use_primal_dual_scaling TOpsR H st zt s z.

(* starting points: central with mu = 1, i.e. s = z and s = - grad f*(z) *)
Definition stmt_pow_unit_init_central : Prop := forall a, 0 < a < 1 ->
  let z := pow_unit_init TOpsR a in
  pow_dual_int a z /\ pow_primal_int a z /\ vneg (fst (pow_grad_H TOpsR a z)) = z.
Definition stmt_exp_unit_init_central : Prop :=
  let z := exp_unit_init TOpsR in
  exp_dual_int z /\ exp_primal_int z /\
  forall i, Rabs (- vget i (fst (exp_grad_H TOpsR z)) - vget i z) <= 1 / 10 ^ 8.
Definition stmt_gp_unit_init_central : Prop := forall al dim2, alphas_ok al -> al <> [] ->
  let '(u, w) := gp_unit_init TOpsR al dim2 in
  let d := gp_grad_H TOpsR al u w in
  gp_dual_int al u w /\ map Ropp (gp_grad_u d) = u /\ map Ropp (gp_grad_w d) = w.
