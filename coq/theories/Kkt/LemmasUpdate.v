(** C11 — value updates through the maps: frame lemmas, write-through lemma, re-assembly with
    new data of the same pattern = update through maps P and A; the sign vector of [assemble]. *)
From Coq Require Import List Arith ZArith Lia Bool Permutation Sorted.
Import ListNotations.
Require Import Clarabel.Base.Ops Clarabel.Csc.Model Clarabel.Csc.Spec Clarabel.Csc.LemmasStruct.
Require Import Clarabel.Kkt.Spec Clarabel.Kkt.Model Clarabel.Kkt.Stmts Clarabel.Kkt.LemmasSpec Clarabel.Kkt.LemmasVals.
Require Import Clarabel.Kkt.LemmasDiag Clarabel.Kkt.LemmasWf Clarabel.Kkt.LemmasFill Clarabel.Kkt.LemmasRefine Clarabel.Kkt.LemmasCone Clarabel.Kkt.LemmasCount Clarabel.Kkt.LemmasRaw Clarabel.Kkt.LemmasOrder Clarabel.Kkt.LemmasDiagPos Clarabel.Kkt.LemmasAssemble Clarabel.Kkt.LemmasTril Clarabel.Kkt.LemmasDense.

Lemma update_values_frame_ok : stmt_update_values_frame.
Proof.
  unfold stmt_update_values_frame. intros T a index values d. split; [apply write_vals_length|].
  split; [intros i Hi; now apply write_vals_other|].
  intros Hnd Hall Hlen j Hj. now apply write_vals_nodup.
Qed.

Section Scale.
Context {T : Type} (O : Ops T).
Lemma scale_vals_length idx c : forall a : list T, length (scale_vals O a idx c) = length a.
Proof.
  unfold scale_vals. induction idx as [|k idx IH]; intros a; cbn [fold_left]; [reflexivity|].
  rewrite IH. apply length_set_nth.
Qed.
Lemma scale_vals_other idx c : forall (a : list T) i, ~ In i idx ->
  nth i (scale_vals O a idx c) (zero O) = nth i a (zero O).
Proof.
  unfold scale_vals. induction idx as [|k idx IH]; intros a i Hi; cbn [fold_left]; [reflexivity|].
  rewrite IH by (intro Hc; apply Hi; right; exact Hc).
  destruct (Nat.lt_ge_cases k (length a)) as [Hk|Hk].
  - rewrite nth_set_nth by exact Hk. destruct (Nat.eqb_spec i k) as [->|Hne]; [exfalso; apply Hi; left; reflexivity | reflexivity].
  - now rewrite set_nth_overflow by exact Hk.
Qed.
Lemma scale_vals_in idx c : forall (a : list T) i, NoDup idx -> In i idx -> i < length a ->
  nth i (scale_vals O a idx c) (zero O) = mul O (nth i a (zero O)) c.
Proof.
  unfold scale_vals. induction idx as [|k idx IH]; intros a i Hnd Hin Hi; [contradiction|].
  cbn [fold_left]. inversion Hnd as [|? ? Hk Hnd']; subst.
  destruct Hin as [->|Hin].
  - fold (scale_vals O (set_nth a i (mul O (nth i a (zero O)) c)) idx c).
    rewrite scale_vals_other by exact Hk. rewrite nth_set_nth by exact Hi. now rewrite Nat.eqb_refl.
  - rewrite IH; [| exact Hnd' | exact Hin | now rewrite length_set_nth].
    destruct (Nat.lt_ge_cases k (length a)) as [Hka|Hka].
    + rewrite nth_set_nth by exact Hka.
      destruct (Nat.eqb_spec i k) as [->|Hne]; [contradiction | reflexivity].
    + now rewrite set_nth_overflow by exact Hka.
Qed.
End Scale.

Lemma scale_values_frame_ok : stmt_scale_values_frame.
Proof.
  unfold stmt_scale_values_frame. intros T O a index c. split; [apply scale_vals_length|].
  split; [intros i Hi; now apply scale_vals_other | intros Hnd i Hin Hi; now apply scale_vals_in].
Qed.

(** * writing the values of a family of tags through their positions *)
Lemma tag_eq_dec (a b : tag) : {a = b} + {a <> b}.
Proof. decide equality; apply Nat.eq_dec. Qed.

Lemma map_nth_seq {X} (l : list X) d : map (fun k => nth k l d) (seq 0 (length l)) = l.
Proof.
  apply nth_ext with (d := d) (d' := d); [now rewrite map_length, seq_length|].
  intros k Hk. rewrite map_length, seq_length in Hk. now rewrite nth_map_seq by exact Hk.
Qed.

Lemma write_tags {T} (se : list ent) (v v' v2 : tag -> T) (L : list tag) :
  NoDup (map etag se) -> (forall t, In t L -> In t (map etag se)) ->
  (forall t, In t L -> v2 t = v' t) ->
  (forall e, In e se -> ~ In (etag e) L -> v2 (etag e) = v (etag e)) ->
  write_vals (map (fun e => v (etag e)) se) (map (pos se) L) (map v' L) = map (fun e => v2 (etag e)) se.
Proof.
  intros Hnd Hpres H1 H2. set (d0 := (0, 0, TP 0) : ent).
  assert (Hvals : map v' L = map (fun i => v' (etag (nth i se d0))) (map (pos se) L)).
  { rewrite map_map. apply map_ext_in. intros t Ht.
    destruct (pos_in se t d0 (Hpres t Ht)) as [_ He]. now rewrite He. }
  rewrite Hvals.
  apply nth_ext with (d := v (etag d0)) (d' := v2 (etag d0)).
  - now rewrite write_vals_length, !map_length.
  - intros q Hq. rewrite write_vals_length, map_length in Hq.
    rewrite (nth_map_lt (fun e => v2 (etag e)) se q d0 _ Hq).
    destruct (in_dec tag_eq_dec (etag (nth q se d0)) L) as [Hin|Hnin].
    + rewrite write_vals_fun.
      * symmetry. now apply H1.
      * rewrite <- (pos_nth se d0 Hnd q Hq). now apply in_map.
      * now rewrite map_length.
    + rewrite write_vals_other.
      * rewrite (nth_map_lt (fun e => v (etag e)) se q d0 _ Hq). symmetry. apply H2; [now apply nth_In | exact Hnin].
      * intro Hc. apply in_firstn_in in Hc. apply in_map_iff in Hc. destruct Hc as [t [Hpt Ht]].
        apply Hnin. destruct (pos_in se t d0 (Hpres t Ht)) as [_ He]. rewrite Hpt in He. now rewrite He.
Qed.

Lemma existsb_map' {X Y} (g : Y -> bool) (f : X -> Y) (l : list X) :
  existsb g (map f l) = existsb (fun x => g (f x)) l.
Proof. induction l as [|x l IH]; [reflexivity|]. cbn [map existsb]. now rewrite IH. Qed.

(** * same pattern => same entries *)
Section Pattern.
Context {T : Type}.
Notation csc := (@csc T).
Definition coordsN (rs : list (list nat)) : list (nat * nat) :=
  flat_map (fun jc => map (fun r => (r, fst jc)) (snd jc)) (indexed rs).
Lemma coordsN_snoc rs r : coordsN (rs ++ [r]) = coordsN rs ++ map (fun x => (x, length rs)) r.
Proof. unfold coordsN. rewrite indexed_app, flat_map_app. cbn [length seq combine flat_map fst snd]. now rewrite app_nil_r. Qed.
Lemma coordsL_N (cs : list (@col T)) : coordsL cs = coordsN (map (map fst) cs).
Proof.
  induction cs as [|c cs IH] using rev_ind; [reflexivity|].
  rewrite coordsL_snoc, map_app. cbn [map]. rewrite coordsN_snoc, IH, map_length. now rewrite map_map.
Qed.
Lemma same_pattern_coords (M M' : csc) : same_pattern M M' -> coords M' = coords M.
Proof. intros [_ [_ H]]. now rewrite !coords_coordsL, !coordsL_N, H. Qed.
Lemma same_pattern_has_diag (M M' : csc) i : same_pattern M M' -> has_diag M' i = has_diag M i.
Proof.
  intros [_ [_ H]]. unfold has_diag.
  assert (Hn : forall (N : csc), existsb (fun e : nat * T => fst e =? i) (nth i (cols N) [])
                                 = existsb (fun r => r =? i) (nth i (map (map fst) (cols N)) [])).
  { intros N. rewrite (nth_map_nil (map fst) (cols N) i eq_refl). now rewrite existsb_map'. }
  now rewrite !Hn, H.
Qed.
Lemma same_pattern_entries (P A P' A' : csc) shapes tri : same_pattern P P' -> same_pattern A A' ->
  entries P' A' shapes tri = entries P A shapes tri /\ kdim P' A' shapes = kdim P A shapes.
Proof.
  intros HP HA. pose proof (same_pattern_coords P P' HP) as HcP. pose proof (same_pattern_coords A A' HA) as HcA.
  destruct HP as [HrP [HnP HpP]] eqn:EP. destruct HA as [HrA [HnA HpA]] eqn:EA.
  split; [|unfold kdim; now rewrite HnP, HrA].
  assert (Htriu : entries_triu P' A' shapes = entries_triu P A shapes).
  { unfold entries_triu, eP, eA, eMiss. rewrite HcP, HcA, <- HnP, <- HrA. f_equal. f_equal.
    f_equal. apply filter_ext. intros i. now rewrite (same_pattern_has_diag P P' i (conj HrP (conj HnP HpP))). }
  destruct tri; cbn [entries]; now rewrite Htriu.
Qed.
End Pattern.

Lemma vals_length {T} (M : @csc T) : length (vals M) = length (coords M).
Proof. unfold vals. now rewrite map_length, coords_coordsL, coordsL_length. Qed.

Lemma update_data_through_maps_ok : stmt_update_data_through_maps.
Proof.
  unfold stmt_update_data_through_maps. intros T O P A P' A' shapes tri Hwf HsP HsA. cbv zeta.
  destruct (same_pattern_entries P A P' A' shapes tri HsP HsA) as [He Hk].
  pose proof (same_pattern_coords P P' HsP) as HcP. pose proof (same_pattern_coords A A' HsA) as HcA.
  assert (HnP : nc P' = nc P) by (destruct HsP as [_ [H _]]; now rewrite H).
  set (N := kdim P A shapes) in *. set (es := entries P A shapes tri) in *.
  set (se := sorted_entries N es).
  assert (Hmaps : kkt_maps P' A' shapes tri = kkt_maps P A shapes tri).
  { unfold kkt_maps. rewrite He, Hk, HcP, HcA, HnP. reflexivity. }
  split; [exact Hmaps|].
  unfold encode, kkt_matrix. cbn [rcolptr rrowval rnzval cols]. rewrite He, Hk. fold es N.
  split; [|split].
  - rewrite !colptr_from_psums, !map_map. f_equal. apply map_ext. intros c. now rewrite !map_length.
  - rewrite <- !concat_map, !map_map. reflexivity.
  - rewrite <- !concat_map, !map_map. cbn [snd]. fold (sorted_entries N es). fold se.
    (* tags of se *)
    assert (Hperm : Permutation se es) by (apply sorted_entries_perm_ok; apply (cols_lt_entries P A shapes tri Hwf)).
    assert (Hnd : NoDup (map etag se)).
    { eapply Permutation_NoDup; [symmetry; apply Permutation_map; exact Hperm | apply (tags_nodup_entries P A shapes tri)]. }
    assert (Htags : forall t, In t (map etag es) -> In t (map etag se)).
    { intros t Ht. eapply Permutation_in; [symmetry; apply Permutation_map; exact Hperm | exact Ht]. }
    assert (HtP : forall k, k < length (coords P) -> In (TP k) (map etag es)).
    { intros k Hk'. assert (In (TP k) (map etag (eP P))) by (rewrite eP_tags; apply in_map, in_seq; lia).
      unfold es. destruct tri; cbn [entries]; [|rewrite map_map; cbn [etag eswap snd]; change (fun x : ent => snd x) with etag];
        unfold entries_triu; rewrite !map_app; apply in_or_app; left; exact H. }
    assert (HtA : forall k, k < length (coords A) -> In (TA k) (map etag es)).
    { intros k Hk'. assert (In (TA k) (map etag (eA A (nc P)))) by (rewrite eA_tags; apply in_map, in_seq; lia).
      unfold es. destruct tri; cbn [entries]; [|rewrite map_map; cbn [etag eswap snd]; change (fun x : ent => snd x) with etag];
        unfold entries_triu; rewrite !map_app; apply in_or_app; right; apply in_or_app; right; apply in_or_app; left; exact H. }
    unfold kkt_maps. cbn [mP mA]. fold es N se. unfold tagpos.
    rewrite <- (map_map TP (pos se)), <- (map_map TA (pos se)).
    (* first write: P values *)
    rewrite <- (map_nth_seq (vals P') (zero O)) at 1. rewrite vals_length, HcP.
    rewrite <- (map_map TP (tag_val O P' A)).
    rewrite (write_tags se (tag_val O P A) (tag_val O P' A) (tag_val O P' A) (map TP (seq 0 (length (coords P)))) Hnd).
    2:{ intros t Ht. apply Htags. apply in_map_iff in Ht. destruct Ht as [k [<- Hk']]. apply in_seq in Hk'. apply HtP. lia. }
    2:{ reflexivity. }
    2:{ intros e _ Hn. destruct (etag e) eqn:E; try reflexivity. cbn [tag_val].
        destruct (Nat.lt_ge_cases k (length (coords P))) as [Hlt|Hge].
        - exfalso. apply Hn. apply in_map, in_seq. lia.
        - rewrite !nth_overflow; [reflexivity | rewrite vals_length; lia | rewrite vals_length, HcP; lia]. }
    (* second write: A values *)
    rewrite <- (map_nth_seq (vals A') (zero O)) at 1. rewrite vals_length, HcA.
    rewrite <- (map_map TA (tag_val O P' A')).
    rewrite (write_tags se (tag_val O P' A) (tag_val O P' A') (tag_val O P' A') (map TA (seq 0 (length (coords A)))) Hnd).
    + reflexivity.
    + intros t Ht. apply Htags. apply in_map_iff in Ht. destruct Ht as [k [<- Hk']]. apply in_seq in Hk'. apply HtA. lia.
    + reflexivity.
    + intros e _ Hn. destruct (etag e) eqn:E; try reflexivity. cbn [tag_val].
      destruct (Nat.lt_ge_cases k (length (coords A))) as [Hlt|Hge].
      * exfalso. apply Hn. apply in_map, in_seq. lia.
      * rewrite !nth_overflow; [reflexivity | rewrite vals_length; lia | rewrite vals_length, HcA; lia].
Qed.

Lemma dsigns_of_assemble_ok : stmt_dsigns_of_assemble.
Proof.
  unfold stmt_dsigns_of_assemble. intros T O P A shapes tri Hwf.
  rewrite (assemble_refines_spec_ok T O P A shapes tri Hwf). cbn [snd]. unfold kkt_maps. cbn [mSp].
  apply signs_spec_ok. apply spec_smaps_match_ok.
Qed.
