(** C11 — refinement corollaries: unconditional maps_partition; the Triu script refines the Spec. *)
From Coq Require Import List Arith ZArith Lia Bool Permutation.
Import ListNotations.
Require Import Clarabel.Base.Ops Clarabel.Csc.Model Clarabel.Csc.LemmasStruct.
Require Import Clarabel.Kkt.Spec Clarabel.Kkt.Model Clarabel.Kkt.Stmts Clarabel.Kkt.LemmasSpec.
Require Import Clarabel.Kkt.LemmasFill Clarabel.Kkt.LemmasWf.

Lemma maps_partition_ok : stmt_maps_partition.
Proof.
  unfold stmt_maps_partition. intros T P A shapes tri Hwf.
  apply maps_partition_partial_ok; [now apply cols_lt_entries | apply tags_nodup_entries].
Qed.

Lemma sort_rows_sorted l : rows_sorted l -> sort_rows l = l.
Proof.
  induction l as [|a l IH]; intros Hs; [reflexivity|].
  cbn [sort_rows fold_right]. fold (sort_rows l).
  destruct l as [|b l]; [reflexivity|]. cbn [rows_sorted] in Hs. destruct Hs as [Hab Hs].
  rewrite (IH Hs). cbn [ins_row]. apply Nat.leb_le in Hab. now rewrite Hab.
Qed.
Lemma kcols_buckets N es : buckets_sorted N es -> kcols N es = buckets N es.
Proof.
  intros Hs. unfold kcols, buckets. apply map_ext_in. intros j Hj. apply in_seq in Hj.
  apply sort_rows_sorted. apply Hs. lia.
Qed.
Lemma colptr_from_psums {T} (cs : list (@col T)) : forall a,
  colptr_from a cs = psums a (map (@length _) cs).
Proof. induction cs as [|c cs IH]; intros a; cbn [colptr_from psums map]; [reflexivity | now rewrite IH]. Qed.

Lemma triu_script_refines_spec_ok : stmt_triu_script_refines_spec.
Proof.
  unfold stmt_triu_script_refines_spec. intros T O P A shapes Hwf.
  set (es := entries_triu P A shapes). set (N := kdim P A shapes). intros Hs.
  pose proof (fill_script_ok T O (tag_val O P A) N es
                (cols_lt_entries P A shapes Triu Hwf) (tags_nodup_entries P A shapes Triu)) as HG.
  cbv zeta in HG.
  destruct (run_script (tag_val O P A) (script_init O N es) es) as [s ds].
  destruct HG as [Hcp [Hrv [Hnz Hds]]].
  assert (Hk : kcols N es = buckets N es) by (now apply kcols_buckets).
  split.
  - unfold encode, kkt_matrix. cbn [nr nc cols entries]. fold es. fold N. rewrite Hk.
    f_equal.
    + rewrite Hcp, colptr_from_psums, map_map. f_equal. apply map_ext. intros c. now rewrite map_length.
    + rewrite Hrv, <- concat_map, map_map. reflexivity.
    + rewrite Hnz, <- concat_map, map_map. reflexivity.
  - rewrite Hds. unfold sorted_entries. now rewrite Hk.
Qed.

Lemma rows_sortedb_sound l : rows_sortedb l = true -> rows_sorted l.
Proof.
  induction l as [|a l IH]; intros H; [exact I|]. destruct l as [|b l]; [exact I|].
  cbn [rows_sortedb] in H. apply andb_true_iff in H. destruct H as [H1 H2].
  cbn [rows_sorted]. split; [now apply Nat.leb_le | now apply IH].
Qed.
Lemma buckets_sortedb_sound_ok : stmt_buckets_sortedb_sound.
Proof.
  unfold stmt_buckets_sortedb_sound, buckets_sortedb, buckets_sorted. intros N es H j Hj.
  rewrite forallb_forall in H. apply rows_sortedb_sound. apply H. apply in_seq. lia.
Qed.
