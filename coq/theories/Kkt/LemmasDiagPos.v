(** C11 — where the diagonal entry of each column sits in the sorted (CSC) entry list. *)
From Coq Require Import List Arith ZArith Lia Bool Permutation Sorted.
Import ListNotations.
Require Import Clarabel.Base.Ops Clarabel.Csc.Model Clarabel.Csc.LemmasStruct.
Require Import Clarabel.Kkt.Spec Clarabel.Kkt.Model Clarabel.Kkt.Stmts Clarabel.Kkt.LemmasSpec Clarabel.Kkt.LemmasVals.
Require Import Clarabel.Kkt.LemmasDiag Clarabel.Kkt.LemmasWf Clarabel.Kkt.LemmasFill Clarabel.Kkt.LemmasRefine Clarabel.Kkt.LemmasCone Clarabel.Kkt.LemmasCount Clarabel.Kkt.LemmasRaw Clarabel.Kkt.LemmasOrder.

Lemma firstn_S_nth {X} (l : list X) d : forall j, j < length l -> firstn (S j) l = firstn j l ++ [nth j l d].
Proof.
  induction l as [|x l IH]; intros j Hj; [cbn in Hj; lia|].
  destruct j as [|j]; [reflexivity|]. rewrite !firstn_cons. cbn [app nth]. f_equal. apply IH. cbn in Hj; lia.
Qed.
Lemma concat_split {X} (bs : list (list X)) j : j < length bs ->
  concat bs = concat (firstn j bs) ++ nth j bs [] ++ concat (skipn (S j) bs).
Proof.
  intros Hj. rewrite <- (firstn_skipn (S j) bs) at 1. rewrite concat_app.
  rewrite (firstn_S_nth bs [] j Hj), concat_app. cbn [concat]. now rewrite app_nil_r, <- app_assoc.
Qed.
Lemma index_of_app_first {X} (f : X -> bool) (l1 : list X) x l2 :
  (forall y, In y l1 -> f y = false) -> f x = true -> index_of f (l1 ++ x :: l2) = length l1.
Proof.
  induction l1 as [|y l1 IH]; intros H Hx; cbn [app index_of length].
  - now rewrite Hx.
  - rewrite (H y) by (left; reflexivity). f_equal. apply IH; auto. intros z Hz. apply H. right; exact Hz.
Qed.
Lemma in_concat_firstn_buckets N es : forall j e, j <= N ->
  In e (concat (firstn j (buckets N es))) -> ecol e < j.
Proof.
  induction j as [|j IH]; intros e Hj Hin; [contradiction|].
  assert (Hl : j < length (buckets N es)) by (rewrite bs_length; lia).
  rewrite (firstn_S_nth _ [] j Hl), concat_app in Hin. cbn [concat] in Hin. rewrite app_nil_r in Hin.
  apply in_app_or in Hin. destruct Hin as [Hin|Hin].
  - specialize (IH e ltac:(lia) Hin). lia.
  - rewrite bs_nth in Hin by lia. apply bucket_col in Hin. lia.
Qed.

(** the diagonal entry of column j is the last entry of that column, and the first (only)
    entry of the whole matrix at position (j,j) *)
Lemma diag_pos N es j :
  cols_lt N es -> col_ordered es -> (forall e, In e es -> erow e <= ecol e) ->
  j < N -> (exists e, In e es /\ erow e = j /\ ecol e = j) ->
  let bs := buckets N es in
  1 <= length (bucket es j)
  /\ pos_rc (concat bs) j j = offs bs (S j) - 1
  /\ erow (nth (offs bs (S j) - 1) (concat bs) (0, 0, TP 0)) = j
  /\ ecol (nth (offs bs (S j) - 1) (concat bs) (0, 0, TP 0)) = j.
Proof.
  intros Hc Ho Hup Hj [ed [Hed [Hr Hcd]]]. cbv zeta.
  set (b := bucket es j). set (d0 := (0, 0, TP 0) : ent).
  assert (Hedb : In ed b) by (unfold b, bucket; apply filter_In; split; [exact Hed | now apply Nat.eqb_eq]).
  assert (Hne : b <> []) by (intro Hb; rewrite Hb in Hedb; contradiction).
  assert (Hlen : 1 <= length b) by (destruct b; [contradiction | cbn; lia]).
  pose proof (app_removelast_last d0 Hne) as Hb. set (e0 := last b d0) in *. set (b' := removelast b) in *.
  assert (Hsb : StronglySorted Rcol b) by (unfold b, bucket; now apply SS_filter').
  assert (Hcolb : forall e, In e b -> ecol e = j /\ In e es) by (intros e He; now apply bucket_col).
  assert (He0 : In e0 b) by (rewrite Hb; apply in_or_app; right; left; reflexivity).
  assert (Hb' : forall y, In y b' -> erow y < erow e0).
  { intros y Hy. rewrite Hb in Hsb. apply SS_snoc_inv in Hsb. rewrite Forall_forall in Hsb.
    specialize (Hsb y Hy). unfold Rcol in Hsb. apply Hsb.
    destruct (Hcolb y) as [-> _]; [rewrite Hb; apply in_or_app; left; exact Hy|].
    destruct (Hcolb e0 He0) as [-> _]. reflexivity. }
  assert (Hr0 : erow e0 = j).
  { destruct (Hcolb e0 He0) as [Hc0 Hin0]. pose proof (Hup e0 Hin0) as Hle.
    rewrite Hb in Hedb. apply in_app_or in Hedb. destruct Hedb as [Hedb|[<-|[]]]; [|exact Hr].
    specialize (Hb' ed Hedb). lia. }
  assert (Hsplit : concat (buckets N es)
                   = (concat (firstn j (buckets N es)) ++ b') ++ e0 :: concat (skipn (S j) (buckets N es))).
  { rewrite (concat_split (buckets N es) j) by (rewrite bs_length; exact Hj).
    rewrite bs_nth by exact Hj. fold b. rewrite Hb at 1. now rewrite <- !app_assoc. }
  assert (Hl1 : length (concat (firstn j (buckets N es)) ++ b') = offs (buckets N es) (S j) - 1).
  { rewrite app_length. unfold b'. rewrite length_removelast.
    rewrite offs_S by (rewrite bs_length; exact Hj). rewrite bs_nth by exact Hj. fold b.
    unfold offs. lia. }
  split; [exact Hlen|]. split; [|split].
  - unfold pos_rc. rewrite Hsplit, index_of_app_first; [exact Hl1 | |].
    + intros y Hy. apply in_app_or in Hy. destruct Hy as [Hy|Hy].
      * apply in_concat_firstn_buckets in Hy; [|lia].
        replace (ecol y =? j) with false by (symmetry; apply Nat.eqb_neq; lia). now rewrite andb_false_r.
      * specialize (Hb' y Hy). replace (erow y =? j) with false by (symmetry; apply Nat.eqb_neq; lia). reflexivity.
    + destruct (Hcolb e0 He0) as [Hc0 _]. rewrite Hr0, Hc0, !Nat.eqb_refl. reflexivity.
  - rewrite Hsplit, <- Hl1, nth_app_mid. exact Hr0.
  - rewrite Hsplit, <- Hl1, nth_app_mid. now destruct (Hcolb e0 He0).
Qed.
