(** C11 — the raw-encoding lemmas (colcount_block, colcount_missing_diag, fill_block,
    fill_missing_diag on [encode M]) and the composed Triu refinement of [assemble]. *)
From Coq Require Import List Arith ZArith Lia Bool Permutation Sorted.
Import ListNotations.
Require Import Clarabel.Base.Ops Clarabel.Csc.Model Clarabel.Csc.LemmasStruct.
Require Import Clarabel.Kkt.Spec Clarabel.Kkt.Model Clarabel.Kkt.Stmts Clarabel.Kkt.LemmasSpec Clarabel.Kkt.LemmasVals.
Require Import Clarabel.Kkt.LemmasWf Clarabel.Kkt.LemmasFill Clarabel.Kkt.LemmasCone Clarabel.Kkt.LemmasCount.

(** * generic fold / list lemmas *)
Lemma fold_left_ext_in {A X} (f g : A -> X -> A) (l : list X) : forall a,
  (forall a x, In x l -> f a x = g a x) -> fold_left f l a = fold_left g l a.
Proof.
  induction l as [|x l IH]; intros a H; [reflexivity|]. cbn [fold_left].
  rewrite (H a x) by (left; reflexivity). apply IH. intros a' y Hy. apply H. right; exact Hy.
Qed.
Lemma fold_left_flat_map {A X Y} (f : A -> Y -> A) (g : X -> list Y) (l : list X) : forall a,
  fold_left f (flat_map g l) a = fold_left (fun a x => fold_left f (g x) a) l a.
Proof. induction l as [|x l IH]; intros a; cbn [flat_map fold_left]; [reflexivity|]. now rewrite fold_left_app, IH. Qed.
Lemma fold_left_filter {A X} (f : A -> X -> A) (p : X -> bool) (l : list X) : forall a,
  fold_left (fun a x => if p x then f a x else a) l a = fold_left f (filter p l) a.
Proof. induction l as [|x l IH]; intros a; cbn [filter fold_left]; [reflexivity|]. destruct (p x); cbn [fold_left]; apply IH. Qed.

Lemma flat_map_ext_in0 {X Y} (f g : X -> list Y) (l : list X) :
  (forall x, In x l -> f x = g x) -> flat_map f l = flat_map g l.
Proof.
  induction l as [|x l IH]; intros H; [reflexivity|]. cbn [flat_map].
  rewrite (H x) by (left; reflexivity). f_equal. apply IH. intros y Hy. apply H. right; exact Hy.
Qed.
Lemma combine_seq_app {X} (a b : list X) n0 :
  combine (seq n0 (length (a ++ b))) (a ++ b)
  = combine (seq n0 (length a)) a ++ combine (seq (n0 + length a) (length b)) b.
Proof.
  revert n0. induction a as [|x a IH]; intros n0; cbn [app length seq combine].
  - now rewrite Nat.add_0_r.
  - f_equal. rewrite IH. f_equal. f_equal. f_equal. lia.
Qed.
Lemma indexed_app {X} (a b : list X) :
  indexed (a ++ b) = indexed a ++ combine (seq (length a) (length b)) b.
Proof. unfold indexed. now rewrite combine_seq_app. Qed.
Lemma map_snd_indexed {X} (l : list X) : map snd (indexed l) = l.
Proof.
  unfold indexed. generalize 0. induction l as [|x l IH]; intros n; cbn [length seq combine map]; [reflexivity|].
  now rewrite IH.
Qed.

(** * the loop structure of a raw CSC encoding *)
Section Loop.
Context {T : Type}.
Notation col := (@col T).
Definition coordsL (cs : list col) : list (nat * nat) :=
  flat_map (fun jc => map (fun e => (fst e, fst jc)) (snd jc)) (indexed cs).
(** (global entry index, column) in the order of the loops "for i in cols, for j in colptr[i]..colptr[i+1]" *)
Definition loop_pairs (cs : list col) : list (nat * nat) :=
  flat_map (fun i => map (fun j => (j, i)) (seq (offs cs i) (length (nth i cs [])))) (seq 0 (length cs)).

Lemma coordsL_snoc cs (c : col) :
  coordsL (cs ++ [c]) = coordsL cs ++ map (fun e => (fst e, length cs)) c.
Proof.
  unfold coordsL. rewrite indexed_app, flat_map_app. cbn [length seq combine flat_map fst snd]. now rewrite app_nil_r.
Qed.
Lemma coordsL_length cs : length (coordsL cs) = length (concat cs).
Proof.
  induction cs as [|c cs IH] using rev_ind; [reflexivity|].
  rewrite coordsL_snoc, concat_app, !app_length, IH, map_length. cbn [concat]. now rewrite app_nil_r.
Qed.
Lemma coordsL_fst cs : map fst (coordsL cs) = map fst (concat cs).
Proof.
  induction cs as [|c cs IH] using rev_ind; [reflexivity|].
  rewrite coordsL_snoc, concat_app, !map_app, IH, map_map. cbn [concat fst]. now rewrite app_nil_r.
Qed.

Lemma offs_app_le {X} (a b : list (list X)) i : i <= length a -> offs (a ++ b) i = offs a i.
Proof. intros Hi. unfold offs. rewrite firstn_app. replace (i - length a) with 0 by lia. cbn [firstn]. now rewrite app_nil_r. Qed.

Lemma loop_pairs_indexed cs :
  loop_pairs cs = map (fun krc => (fst krc, snd (snd krc))) (indexed (coordsL cs)).
Proof.
  induction cs as [|c cs IH] using rev_ind; [reflexivity|].
  unfold loop_pairs in *. rewrite app_length. cbn [length]. rewrite Nat.add_1_r, seq_S, flat_map_app.
  cbn [flat_map plus]. rewrite app_nil_r.
  rewrite coordsL_snoc, indexed_app, map_app. f_equal.
  - rewrite <- IH. apply flat_map_ext_in0.
    intros i Hi. apply in_seq in Hi. nrm. rewrite (offs_app_le cs [c] i) by lia. now rewrite app_nth1 by lia.
  - nrm. rewrite (offs_app_le cs [c] (length cs)) by lia. rewrite nth_middle.
    assert (Ho : offs cs (length cs) = length (coordsL cs)) by (rewrite offs_all; symmetry; apply coordsL_length).
    rewrite Ho. rewrite map_length. generalize (length (coordsL cs)). clear.
    induction c as [|e c IHc]; intros n0; cbn [length seq map combine]; [reflexivity|].
    cbn [fst snd]. f_equal. apply IHc.
Qed.
End Loop.

Require Import Clarabel.Kkt.LemmasRefine.

Section Raw2.
Context {T : Type} (O : Ops T).
Notation csc := (@csc T).

Lemma coords_coordsL (M : csc) : coords M = coordsL (cols M).
Proof. reflexivity. Qed.

Lemma colptr_nth (cs : list (@col T)) i : i <= length cs -> nth i (colptr_from 0 cs) 0 = offs cs i.
Proof.
  intros Hi. rewrite colptr_from_psums, psums_offs. nrm.
  rewrite nth_map_seq by lia. reflexivity.
Qed.

(** the double loop over a raw encoding visits (entry index, column) in storage order *)
Lemma raw_loop {A} (M : csc) (g : A -> nat -> nat -> A) (a0 : A) :
  length (cols M) = nc M ->
  let R := encode M in
  fold_left (fun a i => fold_left (fun a j => g a j i)
                          (seq (nth i (rcolptr R) 0) (nth (S i) (rcolptr R) 0 - nth i (rcolptr R) 0)) a)
            (seq 0 (rn R)) a0
  = fold_left (fun a krc => g a (fst krc) (snd (snd krc))) (indexed (coords M)) a0.
Proof.
  intros Hdim. cbv zeta. cbn [encode rcolptr rn].
  transitivity (fold_left (fun a ji => g a (fst ji) (snd ji)) (loop_pairs (cols M)) a0).
  - unfold loop_pairs. rewrite fold_left_flat_map, <- Hdim. apply fold_left_ext_in.
    intros a i Hi. apply in_seq in Hi. nrm.
    rewrite (colptr_nth (cols M) (S i)) by (nrm; lia). rewrite (colptr_nth (cols M) i) by (nrm; lia).
    rewrite (offs_S (cols M) i) by (nrm; lia).
    rewrite (Nat.add_comm (offs _ _)), Nat.add_sub.
    rewrite fold_left_map. reflexivity.
  - rewrite loop_pairs_indexed, fold_left_map. reflexivity.
Qed.

Lemma raw_row (M : csc) k r c : In (k, (r, c)) (indexed (coords M)) -> nth k (rrowval (encode M)) 0 = r.
Proof.
  intros Hin. cbn [encode rrowval]. rewrite <- coordsL_fst.
  destruct (in_indexed_inv (coords M) (0, 0) (k, (r, c)) Hin) as [Hk Hn]. cbn [fst snd] in *.
  rewrite (nth_map_lt fst _ k (0, 0) 0) by exact Hk. rewrite <- coords_coordsL, <- Hn. reflexivity.
Qed.

(** writing the k-th returned slot at index k of a zeroed map array produces the slot list *)
Lemma fold_put_map {Y} (rc : nat * Y -> nat * nat) (v : nat * Y -> T) (ys : list Y) :
  forall (a : nat) (done : list nat) (s : @st T), length done = a ->
  fold_left (fun sm ky => let '(s', d) := put (fst sm) (snd (rc ky)) (fst (rc ky)) (v ky) in
                          (s', set_nth (snd sm) (fst ky) d))
            (combine (seq a (length ys)) ys) (s, done ++ repeat 0 (length ys))
  = fold_left (fun sd ky => let '(s', d) := put (fst sd) (snd (rc ky)) (fst (rc ky)) (v ky) in
                           (s', snd sd ++ [d])) (combine (seq a (length ys)) ys) (s, done).
Proof.
  induction ys as [|y ys IH]; intros a done s Hd; cbn [length seq combine fold_left repeat fst snd].
  - now rewrite app_nil_r.
  - destruct (put s (snd (rc (a, y))) (fst (rc (a, y))) (v (a, y))) as [s1 d] eqn:E.
    cbn [fst snd]. rewrite <- Hd, set_nth_app_mid.
    replace (done ++ d :: repeat 0 (length ys)) with ((done ++ [d]) ++ repeat 0 (length ys)) by (now rewrite <- app_assoc).
    rewrite Hd. apply IH. rewrite app_length. cbn. lia.
Qed.
End Raw2.

Section Raw3.
Context {T : Type} (O : Ops T).
Notation csc := (@csc T).

Lemma run_script_fold_gen (val : tag -> T) es : forall (s : @st T) acc,
  fold_left (fun sd e => let '(s', d) := put (fst sd) (ecol e) (erow e) (val (etag e)) in (s', snd sd ++ [d]))
            es (s, acc)
  = (fst (run_script val s es), acc ++ snd (run_script val s es)).
Proof.
  induction es as [|e es IH]; intros s acc; cbn [fold_left run_script fst snd].
  - now rewrite app_nil_r.
  - destruct (put s (ecol e) (erow e) (val (etag e))) as [s1 d]. rewrite IH.
    destruct (run_script val s1 es) as [s2 ds]. cbn [fst snd]. now rewrite <- app_assoc.
Qed.
Lemma run_script_fold (val : tag -> T) es s :
  run_script val s es
  = fold_left (fun sd e => let '(s', d) := put (fst sd) (ecol e) (erow e) (val (etag e)) in (s', snd sd ++ [d]))
              es (s, []).
Proof. rewrite run_script_fold_gen. cbn [app]. now destruct (run_script val s es). Qed.

(** fill_block on the raw encoding of M = the script run over M's stored entries, placed by
    [place]; the map array it fills is the list of returned slots *)
Definition place (tr : bool) (initrow initcol : nat) (rc : nat * nat) : nat * nat :=
  if tr then (snd rc + initrow, fst rc + initcol) else (fst rc + initrow, snd rc + initcol).

Lemma fill_block_script (M : csc) (s : @st T) initrow initcol tr (mk : nat -> tag) (val : tag -> T) :
  length (cols M) = nc M ->
  (forall k, val (mk k) = nth k (vals M) (zero O)) ->
  fill_block O s (encode M) (repeat 0 (length (coords M))) initrow initcol tr
  = run_script val s (map (fun krc => (place tr initrow initcol (snd krc), mk (fst krc))) (indexed (coords M))).
Proof.
  intros Hdim Hval. unfold fill_block.
  rewrite (raw_loop M (fun (sm : @st T * list nat) j i =>
            let mr := nth j (rrowval (encode M)) 0 in
            let '(col, row) := if tr then (mr + initcol, i + initrow) else (i + initcol, mr + initrow) in
            let '(s', d) := put (fst sm) col row (nth j (rnzval (encode M)) (zero O)) in
            (s', set_nth (snd sm) j d)) _ Hdim).
  rewrite run_script_fold, fold_left_map.
  transitivity (fold_left (fun (sm : @st T * list nat) (krc : nat * (nat * nat)) =>
       let '(s', d) := put (fst sm) (snd (place tr initrow initcol (snd krc)))
                           (fst (place tr initrow initcol (snd krc))) (val (mk (fst krc))) in
       (s', set_nth (snd sm) (fst krc) d)) (indexed (coords M)) (s, repeat 0 (length (coords M)))).
  - apply fold_left_ext_in. intros sm [k [r c]] Hin. cbn [fst snd].
    rewrite (raw_row M k r c Hin). rewrite Hval. unfold place. cbn [encode rnzval fst snd]. unfold vals.
    destruct tr; reflexivity.
  - unfold indexed.
    refine (eq_trans (fold_put_map (fun krc => place tr initrow initcol (snd krc))
                                   (fun krc => val (mk (fst krc))) (coords M) 0 [] s eq_refl) _).
    reflexivity.
Qed.
End Raw3.

Section Raw4.
Context {T : Type} (O : Ops T).
Notation csc := (@csc T).

Lemma eP_place (P : csc) :
  eP P = map (fun krc => (place false 0 0 (snd krc), TP (fst krc))) (indexed (coords P)).
Proof. unfold eP, place. apply map_ext. intros [k [r c]]. cbn [fst snd]. now rewrite !Nat.add_0_r. Qed.
Lemma eA_place (A : csc) n :
  eA A n = map (fun krc => (place true 0 n (snd krc), TA (fst krc))) (indexed (coords A)).
Proof.
  unfold eA, place. apply map_ext. intros [k [r c]]. cbn [fst snd].
  now rewrite Nat.add_0_r, (Nat.add_comm n r).
Qed.

Lemma last_nth {X} (l : list X) d : last l d = nth (length l - 1) l d.
Proof.
  induction l as [|x l IH]; [reflexivity|]. destruct l as [|y l]; [reflexivity|].
  change (last (x :: y :: l) d) with (last (y :: l) d). rewrite IH. cbn [length]. 
  replace (S (S (length l)) - 1) with (S (S (length l) - 1)) by lia. reflexivity.
Qed.
Lemma last_max (c : @col T) d : StronglySorted lt (map fst c) -> forall e, In e c -> fst e <= fst (last c d).
Proof.
  induction c as [|x c IH]; intros Hs e He; [contradiction|].
  cbn [map] in Hs. inversion Hs as [|? ? Hs' Hall]; subst.
  destruct c as [|y c].
  - destruct He as [<-|[]]. cbn. lia.
  - change (last (x :: y :: c) d) with (last (y :: c) d).
    destruct He as [<-|He].
    + rewrite Forall_forall in Hall.
      assert (Hy : fst x < fst y) by (apply Hall; left; reflexivity).
      specialize (IH Hs' y (or_introl eq_refl)). lia.
    + apply IH; assumption.
Qed.

Lemma md_at (P : csc) i : canonicalb P = true -> upper_tri P -> i < nc P ->
  missing_diag_at (encode P) i = negb (has_diag P i).
Proof.
  intros Hc Hup Hi. apply canonical_iff in Hc. destruct Hc as [Hw Hall]. unfold Spec.WellDim in Hw.
  unfold missing_diag_at, has_diag. cbn [encode rcolptr rrowval].
  rewrite (colptr_nth (cols P) (S i)) by (nrm; lia). rewrite (colptr_nth (cols P) i) by (nrm; lia).
  rewrite (offs_S (cols P) i) by (nrm; lia).
  nrm.
  assert (Hnc : nth (offs (cols P) i + (length (nth i (cols P) []) - 1)) (map fst (concat (cols P))) 0
                = fst (nth (length (nth i (cols P) []) - 1) (nth i (cols P) []) (0, zero O))
                \/ length (nth i (cols P) []) = 0).
  { destruct (Nat.eq_dec (length (nth i (cols P) [])) 0) as [H0|H0]; [right; exact H0|left].
    rewrite (nth_map_lt fst _ _ (0, zero O) 0).
    - now rewrite (nth_concat (cols P) (0, zero O) i) by (nrm; lia).
    - pose proof (offs_S (cols P) i ltac:(nrm; lia)) as H1. pose proof (offs_le (cols P) (S i)). nrm; lia. }
  assert (Hcin : In (nth i (cols P) []) (cols P)) by (apply nth_In; nrm; lia).
  rewrite Forall_forall in Hall. destruct (Hall _ Hcin) as [Hss _].
  pose proof (Hup i) as Hupi.
  nrm. remember (@nth (list (nat * T)) i (cols P) []) as c eqn:Ec. clear Ec Hcin.
  destruct Hnc as [Hnc|H0].
  2:{ apply length_zero_iff_nil in H0. subst c. cbn [length existsb]. now rewrite Nat.add_0_r, Nat.eqb_refl. }
  destruct (Nat.eq_dec (length c) 0) as [H0|H0].
  { apply length_zero_iff_nil in H0. subst c. cbn [length existsb]. now rewrite Nat.add_0_r, Nat.eqb_refl. }
  match goal with |- (?a =? ?b) || _ = _ => replace (a =? b) with false by (symmetry; apply Nat.eqb_neq; nrm; lia) end.
  cbn [orb]. f_equal.
  rewrite <- Nat.add_sub_assoc by (nrm; lia).
  rewrite Hnc, <- last_nth.
  assert (Hl : In (last c (0, zero O)) c) by (rewrite last_nth; apply nth_In; nrm; lia).
  destruct (existsb (fun e => fst e =? i) c) eqn:Hex.
  - apply existsb_exists in Hex. destruct Hex as [e [He Hei]]. apply Nat.eqb_eq in Hei.
    apply Nat.eqb_eq.
    pose proof (last_max c (0, zero O) Hss e He) as H1.
    pose proof (Hupi (last c (0, zero O)) Hl) as H2. nrm. lia.
  - apply Nat.eqb_neq. intro Heq.
    assert (existsb (fun e => fst e =? i) c = true); [|congruence].
    apply existsb_exists. exists (last c (0, zero O)). split; [exact Hl | now apply Nat.eqb_eq].
Qed.
End Raw4.

Section Raw5.
Context {T : Type} (O : Ops T).
Notation csc := (@csc T).

Lemma miss_gen (val : tag -> T) (l : list nat) : (forall i, val (TMiss i) = zero O) -> forall s : @st T,
  fold_left (fun s i => let dest := nth (i + 0) (cp s) 0 in
                        mkSt (incr (cp s) i 1) (set_nth (rv s) dest (i + 0)) (set_nth (nz s) dest (zero O)))
            l s
  = fst (run_script val s (map (fun i => (i, i, TMiss i)) l)).
Proof.
  intros Hv. induction l as [|i l IH]; intros s; [reflexivity|].
  cbn [fold_left map run_script]. unfold put at 1. unfold erow, ecol, etag. cbn [fst snd].
  rewrite Hv, Nat.add_0_r. rewrite IH.
  destruct (run_script val _ (map (fun i0 => (i0, i0, TMiss i0)) l)) as [s2 ds]. reflexivity.
Qed.

Lemma fill_missing_diag_script (P : csc) (val : tag -> T) (s : @st T) :
  canonicalb P = true -> upper_tri P -> (forall i, val (TMiss i) = zero O) ->
  fill_missing_diag O s (encode P) 0 = fst (run_script val s (eMiss P (nc P))).
Proof.
  intros Hc Hup Hv. unfold fill_missing_diag, eMiss. cbn [encode rn].
  rewrite <- (miss_gen val _ Hv). rewrite <- fold_left_filter.
  apply fold_left_ext_in. intros a i Hi. apply in_seq in Hi.
  change (rn (encode P)) with (nc P).
  rewrite (md_at O P i Hc Hup) by lia. reflexivity.
Qed.

(** ** count pass on the raw encoding *)
Definition add_cols (cp : list nat) (cs : list nat) : list nat := fold_left (fun cp c => incr cp c 1) cs cp.
Lemma add_counts_cols cp es : add_counts cp es = add_cols cp (map ecol es).
Proof. unfold add_counts, add_cols. now rewrite fold_left_map. Qed.
Lemma add_cols_repeat cp c k : add_cols cp (repeat c k) = incr cp c k.
Proof.
  revert cp. induction k as [|k IH]; intros cp; cbn [repeat]; [unfold add_cols; cbn; now rewrite incr_0|].
  unfold add_cols in *. cbn [fold_left]. rewrite IH, incr_incr. reflexivity.
Qed.

Lemma colcount_missing_diag_script (P : csc) cp :
  canonicalb P = true -> upper_tri P ->
  colcount_missing_diag cp (encode P) 0 = add_counts cp (eMiss P (nc P)).
Proof.
  intros Hc Hup. unfold colcount_missing_diag, add_counts, eMiss. cbn [encode rn].
  rewrite fold_left_map. cbn [ecol fst snd]. rewrite <- fold_left_filter.
  apply fold_left_ext_in. intros a i Hi. apply in_seq in Hi.
  change (rn (encode P)) with (nc P). rewrite (md_at O P i Hc Hup) by lia. now rewrite Nat.add_0_r.
Qed.

Lemma colcount_block_T_script (A : csc) cp n :
  colcount_block cp (encode A) n true = add_counts cp (eA A n).
Proof.
  unfold colcount_block. cbn [encode rrowval]. rewrite add_counts_cols. unfold add_cols, eA.
  rewrite map_map. cbn [ecol fst snd]. 
  rewrite <- coordsL_fst, <- coords_coordsL.
  rewrite <- (map_snd_indexed (coords A)) at 1. rewrite map_map, !fold_left_map. reflexivity.
Qed.

Lemma colcount_block_N_script (P : csc) cp :
  length (cols P) = nc P ->
  colcount_block cp (encode P) 0 false = add_counts cp (eP P).
Proof.
  intros Hdim. unfold colcount_block. cbn [encode rcolptr rn].
  rewrite add_counts_cols. unfold eP. rewrite map_map. cbn [ecol fst snd].
  (* columns of the stored entries, in loop order *)
  assert (Hc : map (fun krc : nat * (nat * nat) => snd (snd krc)) (indexed (coords P))
               = flat_map (fun i => repeat i (length (nth i (cols P) []))) (seq 0 (length (cols P)))).
  { transitivity (map snd (loop_pairs (cols P))).
    - rewrite loop_pairs_indexed, map_map. reflexivity.
    - unfold loop_pairs. rewrite map_flat_map'. apply flat_map_ext_in0. intros i _. rewrite map_map. cbn [snd].
      generalize (offs (cols P) i). induction (length (nth i (cols P) [])) as [|k IHk]; intros a; cbn [seq map repeat]; [reflexivity|].
      now rewrite IHk. }
  rewrite Hc. unfold add_cols. rewrite fold_left_flat_map, <- Hdim.
  apply fold_left_ext_in. intros a i Hi. apply in_seq in Hi.
  rewrite (colptr_nth (cols P) (S i)) by (nrm; lia). rewrite (colptr_nth (cols P) i) by (nrm; lia).
  rewrite (offs_S (cols P) i) by (nrm; lia). rewrite (Nat.add_comm (offs _ _)), Nat.add_sub.
  fold (add_cols a (repeat i (length (nth i (cols P) [])))). now rewrite add_cols_repeat.
Qed.
End Raw5.

(** * the count pass leaves [script_counts] *)
Lemma add_counts_length es : forall cp, length (add_counts cp es) = length cp.
Proof.
  induction es as [|e es IH]; intros cp; [reflexivity|]. unfold add_counts in *. cbn [fold_left].
  rewrite IH. unfold incr. apply length_set_nth.
Qed.
Lemma nth_add_counts es : forall cp j, j < length cp ->
  nth j (add_counts cp es) 0 = nth j cp 0 + length (bucket es j).
Proof.
  induction es as [|e es IH]; intros cp j Hj; [cbn; lia|].
  unfold add_counts in *. cbn [fold_left]. rewrite IH by (unfold incr; now rewrite length_set_nth).
  unfold bucket. cbn [filter]. unfold incr.
  destruct (Nat.lt_ge_cases (ecol e) (length cp)) as [Hc|Hc].
  - rewrite nth_set_nth by exact Hc. rewrite (Nat.eqb_sym j).
    destruct (ecol e =? j) eqn:E; cbn [length].
    + apply Nat.eqb_eq in E. subst j. lia.
    + lia.
  - rewrite set_nth_overflow by exact Hc.
    replace (ecol e =? j) with false by (symmetry; apply Nat.eqb_neq; lia). reflexivity.
Qed.
Lemma add_counts_zero N es : cols_lt N es -> add_counts (repeat 0 (S N)) es = script_counts N es.
Proof.
  intros Hc. apply nth_ext with (d := 0) (d' := 0).
  - rewrite add_counts_length, repeat_length. unfold script_counts.
    rewrite app_length, map_length, seq_length. cbn. lia.
  - intros j Hj. rewrite add_counts_length, repeat_length in Hj.
    rewrite nth_add_counts by (now rewrite repeat_length).
    rewrite nth_repeat. cbn [plus]. unfold script_counts.
    destruct (Nat.lt_ge_cases j N) as [Hlt|Hge].
    + rewrite app_nth1 by (now rewrite map_length, seq_length).
      now rewrite nth_map_seq by exact Hlt.
    + assert (j = N) by lia. subst j.
      rewrite app_nth2 by (rewrite map_length, seq_length; lia).
      rewrite map_length, seq_length, Nat.sub_diag. cbn [nth].
      unfold bucket. unfold cols_lt in Hc. rewrite Forall_forall in Hc.
      induction es as [|e es IHes]; [reflexivity|]. cbn [filter].
      assert (ecol e < N) by (apply Hc; left; reflexivity).
      replace (ecol e =? N) with false by (symmetry; apply Nat.eqb_neq; lia).
      apply IHes. intros x Hx. apply Hc. right; exact Hx.
Qed.

(** * number of entries = the nnz the code allocates *)
Lemma filter_length_compl {X} (p : X -> bool) (l : list X) :
  length (filter p l) + length (filter (fun x => negb (p x)) l) = length l.
Proof. induction l as [|x l IH]; [reflexivity|]. cbn [filter]. destruct (p x); cbn [negb length]; lia. Qed.

Lemma len_eCone c o pcol s : length (eCone c o pcol s) = blocklen s + nnz_vec s + pdim s.
Proof.
  destruct s as [d|d|d|d1 d2]; cbn [blocklen nnz_vec pdim numel].
  - unfold eCone. rewrite len_eDiagBlk. lia.
  - rewrite len_dense. lia.
  - unfold eCone. rewrite !app_length, len_eDiagBlk, !len_eVec, len_eAuxD. lia.
  - unfold eCone. rewrite !app_length, len_eDiagBlk, !len_eVec, len_eAuxD. lia.
Qed.
Lemma len_eCones shapes : forall c o pcol,
  length (eCones c o pcol shapes) = sum_by blocklen shapes + sum_by nnz_vec shapes + sum_by pdim shapes.
Proof.
  induction shapes as [|s shapes IH]; intros c o pcol; [reflexivity|].
  cbn [eCones sum_by fold_right]. rewrite app_length, len_eCone, IH. unfold sum_by. lia.
Qed.

(** * the regrouped slots of the cone loop are the Spec's Hsblocks / sparse maps *)
Lemma regroup1_tags (se : list ent) c s tail :
  regroup1 s (map (pos se) (cone_tags c s) ++ tail)
  = (tagpos se (THs c) (blocklen s),
     match s with
     | SocSparse d => [SocMap (tagpos se (TU c) d) (tagpos se (TV c) d) (tagpos se (TD c) 2)]
     | GenPow d1 d2 => [GpMap (tagpos se (TGp c) (d1 + d2)) (tagpos se (TGq c) d1) (tagpos se (TGr c) d2)
                              (tagpos se (TD c) 3)]
     | _ => []
     end, tail).
Proof.
  unfold regroup1, tagpos.
  destruct s as [d|d|d|d1 d2]; unfold cone_tags; cbn [blocklen numel];
    rewrite ?map_app, ?map_map, <- ?app_assoc;
    repeat (rewrite take_app by (now rewrite map_length, seq_length)); reflexivity.
Qed.
Lemma regroup_tags (se : list ent) shapes : forall c o pcol,
  regroup shapes (map (pos se) (map etag (eCones c o pcol shapes))) = (hs_map se c shapes, sp_maps se c shapes).
Proof.
  induction shapes as [|s shapes IH]; intros c o pcol; [reflexivity|].
  cbn [eCones regroup hs_map sp_maps]. rewrite !map_app, eCone_tags, regroup1_tags, IH.
  destruct s; reflexivity.
Qed.

Section Compose.
Context {T : Type} (O : Ops T) (P A : @csc T) (shapes : list shape).
Hypothesis Hwf : wf_input P A shapes.
Let es := entries_triu P A shapes.
Let N := kdim P A shapes.

Lemma indexed_length {X} (l : list X) : length (indexed l) = length l.
Proof. unfold indexed. rewrite combine_length, seq_length. lia. Qed.

Lemma len_eMiss : count_diagonal_entries (encode P) + length (eMiss P (nc P)) = nc P.
Proof.
  destruct Hwf as [HP [HA [Hsq [HnA [Hup Hm]]]]].
  unfold count_diagonal_entries, eMiss. cbn [encode rn]. rewrite map_length.
  rewrite <- (seq_length (nc P) 0) at 3. rewrite <- (filter_length_compl (has_diag P) (seq 0 (nc P))).
  f_equal. f_equal. apply filter_ext_in. intros i Hi. apply in_seq in Hi.
  change (rn (encode P)) with (nc P).
  rewrite (md_at O P i HP Hup) by lia. now rewrite negb_involutive.
Qed.

Lemma nnz_ok :
  length (rrowval (encode P)) + rn (encode A) - count_diagonal_entries (encode P) + length (rrowval (encode A))
  + sum_by blocklen shapes + sum_by nnz_vec shapes + sum_by pdim shapes = length es.
Proof.
  destruct Hwf as [HP [HA [Hsq [HnA [Hup Hm]]]]].
  pose proof len_eMiss as Hme.
  unfold es, entries_triu. rewrite !app_length, len_eCones.
  unfold eP, eA. rewrite !map_length, !indexed_length.
  cbn [encode rrowval rn]. rewrite !map_length, <- !coordsL_length, <- !coords_coordsL. lia.
Qed.

Lemma counts_ok :
  assemble_colcounts (nr A + nc A + sum_by pdim shapes) (encode P) (encode A) shapes Triu
  = script_counts N es.
Proof.
  destruct Hwf as [HP [HA [Hsq [HnA [Hup Hm]]]]].
  assert (Hdim : length (cols P) = nc P).
  { apply canonical_iff in HP. now destruct HP. }
  unfold assemble_colcounts. cbn [encode rn rm].
  rewrite (colcount_block_N_script P _ Hdim), (colcount_missing_diag_script O P _ HP Hup),
          colcount_block_T_script, (cones_colcounts_ok shapes _ 0).
  rewrite <- !add_counts_app, <- ?app_assoc.
  rewrite HnA, (Nat.add_comm (nr A) (nc P)).
  fold (entries_triu P A shapes). fold es.
  replace (nc P + nr A + sum_by pdim shapes) with N by reflexivity.
  apply add_counts_zero. apply (cols_lt_entries P A shapes Triu Hwf).
Qed.
End Compose.

Lemma app_eq_len {X} (a a' b b' : list X) : length a = length a' -> a ++ b = a' ++ b' -> a = a' /\ b = b'.
Proof.
  revert a'. induction a as [|x a IH]; intros [|y a'] Hl H; cbn in *; try discriminate; [auto|].
  inversion H; subst. destruct (IH a' ltac:(lia) H2) as [-> ->]. auto.
Qed.

Lemma assemble_refines_spec_triu_partial_ok : stmt_assemble_refines_spec_triu_partial.
Proof.
  unfold stmt_assemble_refines_spec_triu_partial. intros T O P A shapes Hwf Hbs.
  pose proof Hwf as [HP [HA [Hsq [HnA [Hup Hm]]]]].
  assert (HdimP : length (cols P) = nc P) by (apply canonical_iff in HP; now destruct HP).
  assert (HdimA : length (cols A) = nc A) by (apply canonical_iff in HA; now destruct HA).
  set (es := entries_triu P A shapes). set (N := kdim P A shapes).
  set (val := tag_val O P A).
  (* the script run and what the generic theorems say about it *)
  pose proof (triu_script_refines_spec_ok T O P A shapes Hwf) as HR. cbv zeta in HR.
  fold es N val in HR. specialize (HR Hbs).
  unfold assemble.
  change (rm (encode A)) with (nr A). change (rn (encode A)) with (nc A).
  rewrite (counts_ok O P A shapes Hwf).
  pose proof (nnz_ok O P A shapes Hwf) as Hnnz. change (rn (encode A)) with (nc A) in Hnnz. rewrite Hnnz. clear Hnnz.
  fold es N. change (mkSt (colcount_to_colptr 0 (script_counts N es)) (repeat 0 (length es))
                         (repeat (zero O) (length es))) with (script_init O N es).
  assert (HlenP : length (map fst (concat (cols P))) = length (coords P))
    by (now rewrite map_length, <- coordsL_length).
  assert (HlenA : length (map fst (concat (cols A))) = length (coords A))
    by (now rewrite map_length, <- coordsL_length).
  change (rrowval (encode P)) with (map fst (concat (cols P))).
  change (rrowval (encode A)) with (map fst (concat (cols A))).
  rewrite HlenP, HlenA.
  (* split the script *)
  set (s0 := script_init O N es) in *.
  rewrite (fill_block_script O P s0 0 0 false TP val HdimP (fun k => eq_refl)).
  rewrite <- eP_place.
  destruct (run_script val s0 (eP P)) as [a dP] eqn:E1.
  rewrite (fill_missing_diag_script O P val a HP Hup (fun i => eq_refl)).
  destruct (run_script val a (eMiss P (nc P))) as [b dM] eqn:E2. cbn [fst].
  rewrite (fill_block_script O A b 0 (nc A) true TA val HdimA (fun k => eq_refl)).
  rewrite <- eA_place. rewrite HnA.
  destruct (run_script val b (eA A (nc P))) as [c dA] eqn:E3.
  pose proof (cones_fill_script_ok T O val c shapes 0 (nc P) (nc P + nr A)) as HC.
  rewrite (Nat.add_comm (nr A) (nc P)).
  destruct (cones_fill O c shapes (nc P) (nc P + nr A) Triu) as [[s2 hs] sps].
  destruct (run_script val c (eCones 0 (nc P) (nc P + nr A) shapes)) as [s2' dC] eqn:E4.
  destruct HC as [Hs Hreg].
  { intros e He. unfold val. apply in_map with (f := etag) in He. apply eCones_tags_cone in He.
    destruct He as [c' [_ Hc']]. destruct (etag e); cbn in Hc'; try discriminate; reflexivity. }
  subst s2'.
  assert (Hrun : run_script val s0 es = (s2, dP ++ dM ++ dA ++ dC)).
  { change es with (eP P ++ eMiss P (nc P) ++ eA A (nc P) ++ eCones 0 (nc P) (nc P + nr A) shapes).
    rewrite run_script_app, E1. cbv beta iota. rewrite run_script_app, E2. cbv beta iota.
    rewrite run_script_app, E3, E4. reflexivity. }
  rewrite Hrun in HR. destruct HR as [HK Hds].
  (* split the slot list according to the four parts of the script *)
  assert (HlP : length dP = length (eP P)) by (pose proof (run_script_length val (eP P) s0) as H; now rewrite E1 in H).
  assert (HlM : length dM = length (eMiss P (nc P))) by (pose proof (run_script_length val (eMiss P (nc P)) a) as H; now rewrite E2 in H).
  assert (HlA : length dA = length (eA A (nc P))) by (pose proof (run_script_length val (eA A (nc P)) b) as H; now rewrite E3 in H).
  assert (Hds' : dP ++ dM ++ dA ++ dC
                 = map (fun e => pos (sorted_entries N es) (etag e))
                       (eP P ++ eMiss P (nc P) ++ eA A (nc P) ++ eCones 0 (nc P) (nc P + nr A) shapes)) by exact Hds.
  clear Hds. rename Hds' into Hds.
  rewrite !map_app in Hds.
  apply app_eq_len in Hds; [|now rewrite map_length]. destruct Hds as [HdP Hds].
  apply app_eq_len in Hds; [|now rewrite map_length]. destruct Hds as [HdM Hds].
  apply app_eq_len in Hds; [|now rewrite map_length]. destruct Hds as [HdA HdC].
  set (se := sorted_entries N es) in *.
  assert (Hhs : (hs, sps) = (hs_map se 0 shapes, sp_maps se 0 shapes)).
  { rewrite Hreg, HdC. rewrite <- (map_map etag (pos se)). apply regroup_tags. }
  inversion Hhs; subst hs sps.
  cbn [mP mA mHs mSp kkt_maps]. unfold kkt_maps. cbn [mP mA mHs mSp entries]. fold es N se.
  split; [|split; [|split; [|split]]].
  - rewrite <- HK. unfold N, kdim. f_equal; lia.
  - rewrite HdP. rewrite <- (map_map etag (pos se)), eP_tags, map_map. reflexivity.
  - rewrite HdA. rewrite <- (map_map etag (pos se)), eA_tags, map_map. reflexivity.
  - reflexivity.
  - reflexivity.
Qed.
