(** C11 — the count/prefix-sum/put/backshift machinery is correct for every fill script. *)
From Coq Require Import List Arith ZArith Lia Bool Permutation.
Import ListNotations.
Require Import Clarabel.Base.Ops Clarabel.Csc.Model Clarabel.Csc.LemmasStruct.
Require Import Clarabel.Kkt.Spec Clarabel.Kkt.Model Clarabel.Kkt.Stmts Clarabel.Kkt.LemmasSpec Clarabel.Kkt.LemmasVals.

Definition offs {X} (bs : list (list X)) (j : nat) : nat := length (concat (firstn j bs)).

Lemma offs_S {X} (bs : list (list X)) : forall j, j < length bs ->
  offs bs (S j) = offs bs j + length (nth j bs []).
Proof.
  unfold offs. induction bs as [|b bs IH]; intros j Hj; [cbn in Hj; lia|].
  destruct j as [|j].
  - cbn. rewrite app_nil_r. lia.
  - rewrite !firstn_cons. cbn [concat nth]. rewrite !app_length.
    rewrite (IH j) by (cbn in Hj; lia). lia.
Qed.
Lemma offs_mono {X} (bs : list (list X)) i j : i <= j -> offs bs i <= offs bs j.
Proof.
  unfold offs. revert i j. induction bs as [|b bs IH]; intros i j Hij.
  - now rewrite !firstn_nil.
  - destruct i as [|i]; [cbn; lia|]. destruct j as [|j]; [lia|].
    cbn [firstn concat]. rewrite !app_length. specialize (IH i j). lia.
Qed.
Lemma offs_le {X} (bs : list (list X)) j : offs bs j <= length (concat bs).
Proof.
  unfold offs. revert j. induction bs as [|b bs IH]; intros j; [now rewrite firstn_nil|].
  destruct j as [|j]; cbn [firstn concat]; [cbn; lia|]. rewrite !app_length. specialize (IH j). lia.
Qed.
Lemma offs_all {X} (bs : list (list X)) : offs bs (length bs) = length (concat bs).
Proof. unfold offs. now rewrite firstn_all. Qed.

Lemma nth_concat {X} (bs : list (list X)) d : forall j k,
  j < length bs -> k < length (nth j bs []) ->
  nth (offs bs j + k) (concat bs) d = nth k (nth j bs []) d.
Proof.
  unfold offs. induction bs as [|b bs IH]; intros j k Hj Hk; [cbn in Hj; lia|].
  destruct j as [|j]; cbn [firstn concat nth length plus] in *.
  - now rewrite app_nth1.
  - rewrite app_length. rewrite app_nth2 by lia.
    replace (length b + length (concat (firstn j bs)) + k - length b)
      with (length (concat (firstn j bs)) + k) by lia.
    apply IH; [lia | exact Hk].
Qed.

(** an array that agrees segment by segment with the buckets is the flattened buckets *)
Lemma segments_eq {X Y} (f : X -> Y) (dx : X) (dy : Y) (bs : list (list X)) : forall (arr : list Y),
  length arr = length (concat bs) ->
  (forall j k, j < length bs -> k < length (nth j bs []) ->
     nth (offs bs j + k) arr dy = f (nth k (nth j bs []) dx)) ->
  arr = map f (concat bs).
Proof.
  intros arr Hlen H. apply nth_ext with (d := dy) (d' := f dx).
  - now rewrite map_length.
  - intros q Hq. rewrite Hlen in Hq.
    (* locate q *)
    assert (Hloc : exists j k, j < length bs /\ k < length (nth j bs []) /\ q = offs bs j + k).
    { clear -Hq. revert q Hq. induction bs as [|b bs IH]; intros q Hq; [cbn in Hq; lia|].
      cbn [concat] in Hq. rewrite app_length in Hq.
      destruct (Nat.lt_ge_cases q (length b)) as [Hlt|Hge].
      - exists 0, q. cbn. repeat split; lia.
      - destruct (IH (q - length b)) as [j [k [Hj [Hk Hq']]]]; [lia|].
        exists (S j), k. cbn [length nth]. repeat split; [lia | exact Hk |].
        unfold offs in *. cbn [firstn concat]. rewrite app_length. lia. }
    destruct Hloc as [j [k [Hj [Hk ->]]]].
    rewrite (H j k Hj Hk). rewrite (nth_map_lt f _ _ dx (f dx)).
    + f_equal. symmetry. now apply nth_concat.
    + pose proof (offs_S bs j Hj). pose proof (offs_mono bs (S j) (length bs) ltac:(lia)).
      rewrite offs_all in *. lia.
Qed.

Lemma ctc_nth (l : list nat) : forall a j, j <= length l ->
  nth j (colcount_to_colptr a (l ++ [0])) 0 = a + fold_right plus 0 (firstn j l).
Proof.
  induction l as [|c l IH]; intros a j Hj.
  - cbn in Hj. assert (j = 0) by lia. subst. cbn. lia.
  - destruct j as [|j]; cbn [app colcount_to_colptr nth firstn fold_right]; [lia|].
    rewrite IH by (cbn in Hj; lia). lia.
Qed.
Lemma ctc_length (l : list nat) a : length (colcount_to_colptr a l) = length l.
Proof. revert a; induction l as [|c l IH]; intros a; cbn; [reflexivity | now rewrite IH]. Qed.
Lemma sum_lengths {X} (bs : list (list X)) j :
  fold_right plus 0 (firstn j (map (@length X) bs)) = offs bs j.
Proof.
  unfold offs. revert j; induction bs as [|b bs IH]; intros j; [now rewrite !firstn_nil|].
  destruct j as [|j]; cbn [map firstn fold_right concat]; [reflexivity|].
  rewrite app_length, IH. reflexivity.
Qed.

Lemma psums_offs {X} (bs : list (list X)) : forall a,
  psums a (map (@length X) bs) = map (fun j => a + offs bs j) (seq 0 (S (length bs))).
Proof.
  induction bs as [|b bs IH]; intros a.
  - cbn. f_equal. unfold offs. cbn. lia.
  - cbn [map psums length]. rewrite IH.
    change (seq 0 (S (S (length bs)))) with (0 :: seq 1 (S (length bs))).
    cbn [map]. f_equal; [unfold offs; cbn; lia|].
    rewrite <- seq_shift, map_map. apply map_ext. intros j.
    unfold offs. cbn [firstn concat]. rewrite app_length. lia.
Qed.

Lemma nth_removelast {X} (l : list X) d : forall j, S j < length l -> nth j (removelast l) d = nth j l d.
Proof.
  induction l as [|x l IH]; intros j Hj; [cbn in Hj; lia|].
  destruct l as [|y l]; [cbn in Hj; lia|].
  change (removelast (x :: y :: l)) with (x :: removelast (y :: l)).
  destruct j as [|j]; [reflexivity|]. cbn [nth]. apply IH. cbn [length] in *. lia.
Qed.
Lemma length_removelast {X} (l : list X) : length (removelast l) = length l - 1.
Proof.
  induction l as [|x l IH]; [reflexivity|]. destruct l as [|y l]; [reflexivity|].
  change (removelast (x :: y :: l)) with (x :: removelast (y :: l)). cbn [length] in *. lia.
Qed.
Lemma filter_all {X} (f : X -> bool) (l : list X) : Forall (fun x => f x = true) l -> filter f l = l.
Proof. induction 1 as [|x l Hx Hl IH]; cbn [filter]; [reflexivity|]. now rewrite Hx, IH. Qed.
Lemma bucket_app a b j : bucket (a ++ b) j = bucket a j ++ bucket b j.
Proof. unfold bucket. apply filter_app. Qed.

Section Run.
Context {T : Type} (O : Ops T) (val : tag -> T) (N : nat) (es : list ent).
Hypothesis Hcols : cols_lt N es.
Let bs := buckets N es.
Let L := length es.
Let d0 : ent := (0, 0, TP 0).

Lemma bs_length : length bs = N.
Proof. unfold bs, buckets. now rewrite map_length, seq_length. Qed.
Lemma bs_nth j : j < N -> nth j bs [] = bucket es j.
Proof. intros Hj. unfold bs, buckets. now rewrite nth_map_seq by exact Hj. Qed.
Lemma concat_bs_perm : Permutation (concat bs) es.
Proof.
  unfold bs, buckets, bucket. rewrite kcols_perm. apply Permutation_refl'. apply filter_all.
  unfold cols_lt in Hcols. rewrite Forall_forall in *. intros e He. apply Nat.ltb_lt. now apply Hcols.
Qed.
Lemma concat_bs_length : length (concat bs) = L.
Proof. apply Permutation_length, concat_bs_perm. Qed.
Lemma offs_N : offs bs N = L.
Proof. rewrite <- bs_length at 1. rewrite offs_all. apply concat_bs_length. Qed.
Lemma offs_S_bs j : j < N -> offs bs (S j) = offs bs j + length (bucket es j).
Proof. intros Hj. rewrite offs_S by (now rewrite bs_length). now rewrite bs_nth. Qed.

Definition Inv (pre : list ent) (s : @st T) : Prop :=
  length (cp s) = S N /\ length (rv s) = L /\ length (nz s) = L /\
  (forall j, j < N -> nth j (cp s) 0 = offs bs j + length (bucket pre j)) /\
  (forall j k, j < N -> k < length (bucket pre j) ->
     nth (offs bs j + k) (rv s) 0 = erow (nth k (bucket pre j) d0) /\
     nth (offs bs j + k) (nz s) (zero O) = val (etag (nth k (bucket pre j) d0))).

Lemma bucket_snoc pre e j :
  bucket (pre ++ [e]) j = if ecol e =? j then bucket pre j ++ [e] else bucket pre j.
Proof.
  rewrite bucket_app. unfold bucket at 2. cbn [filter].
  destruct (ecol e =? j); [reflexivity | now rewrite app_nil_r].
Qed.
Lemma bucket_prefix_le pre post j : es = pre ++ post -> length (bucket pre j) <= length (bucket es j).
Proof. intros ->. rewrite bucket_app, app_length. lia. Qed.

Lemma put_step pre e post s :
  es = pre ++ e :: post -> Inv pre s ->
  let sd := put s (ecol e) (erow e) (val (etag e)) in
  Inv (pre ++ [e]) (fst sd) /\ snd sd = offs bs (ecol e) + length (bucket pre (ecol e)).
Proof.
  intros Hes [Hcp [Hrv [Hnz [Hptr Hseg]]]].
  set (c := ecol e).
  assert (Hc : c < N).
  { unfold cols_lt in Hcols. rewrite Forall_forall in Hcols. apply Hcols. rewrite Hes.
    apply in_or_app; right; left; reflexivity. }
  assert (Hbc : bucket es c = bucket pre c ++ e :: bucket post c).
  { rewrite Hes, bucket_app. f_equal. unfold bucket at 1. cbn [filter]. fold c.
    now rewrite Nat.eqb_refl. }
  set (dest := offs bs c + length (bucket pre c)).
  assert (Hdest : nth c (cp s) 0 = dest) by (now apply Hptr).
  assert (HdL : dest < L).
  { rewrite <- offs_N. pose proof (offs_S_bs c Hc) as H1.
    pose proof (offs_mono bs (S c) N ltac:(lia)) as H2.
    rewrite Hbc, app_length in H1. cbn [length] in H1. unfold dest. lia. }
  cbv zeta. unfold put. fold c. rewrite Hdest. cbn [fst snd cp rv nz].
  split; [|reflexivity].
  unfold Inv. cbn [cp rv nz]. unfold incr.
  split; [|split; [|split; [|split]]].
  - now rewrite length_set_nth.
  - now rewrite length_set_nth.
  - now rewrite length_set_nth.
  - intros j Hj. rewrite nth_set_nth by lia. rewrite bucket_snoc. fold c.
    destruct (Nat.eqb_spec j c) as [->|Hne].
    + rewrite Nat.eqb_refl, app_length. cbn [length]. rewrite Hdest. unfold dest. lia.
    + replace (c =? j) with false by (symmetry; apply Nat.eqb_neq; lia). now apply Hptr.
  - intros j k Hj Hk.
    rewrite bucket_snoc in Hk |- *. fold c in Hk |- *.
    destruct (Nat.eqb_spec c j) as [<-|Hne].
    + rewrite app_length in Hk. cbn [length] in Hk.
      destruct (Nat.eq_dec k (length (bucket pre c))) as [->|Hk'].
      * fold dest. rewrite !nth_set_nth by lia. rewrite Nat.eqb_refl.
        rewrite app_nth2 by lia. rewrite Nat.sub_diag. cbn [nth]. split; reflexivity.
      * rewrite !nth_set_nth by lia.
        replace (offs bs c + k =? dest) with false by (symmetry; apply Nat.eqb_neq; unfold dest; lia).
        rewrite app_nth1 by lia. apply Hseg; lia.
    + assert (Hneq : offs bs j + k <> dest).
      { pose proof (bucket_prefix_le pre (e :: post) j Hes) as Hle.
        pose proof (offs_S_bs j Hj) as HSj. pose proof (offs_S_bs c Hc) as HSc.
        rewrite Hbc, app_length in HSc. cbn [length] in HSc.
        destruct (Nat.lt_ge_cases j c) as [Hlt|Hge].
        - pose proof (offs_mono bs (S j) c ltac:(lia)). unfold dest. lia.
        - pose proof (offs_mono bs (S c) j ltac:(lia)). unfold dest. lia. }
      rewrite !nth_set_nth by lia.
      replace (offs bs j + k =? dest) with false by (symmetry; apply Nat.eqb_neq; exact Hneq).
      apply Hseg; assumption.
Qed.

Fixpoint dests (pre post : list ent) : list nat :=
  match post with
  | [] => []
  | e :: r => (offs bs (ecol e) + length (bucket pre (ecol e))) :: dests (pre ++ [e]) r
  end.

Lemma run_inv : forall post pre s, es = pre ++ post -> Inv pre s ->
  Inv es (fst (run_script val s post)) /\ snd (run_script val s post) = dests pre post.
Proof.
  induction post as [|e post IH]; intros pre s Hes HI.
  - cbn [run_script fst snd dests]. rewrite app_nil_r in Hes. subst pre. split; [exact HI | reflexivity].
  - cbn [run_script dests].
    destruct (put_step pre e post s Hes HI) as [HI' Hd]. cbv zeta in HI', Hd.
    destruct (put s (ecol e) (erow e) (val (etag e))) as [s1 d] eqn:Hput. cbn [fst snd] in HI', Hd.
    assert (Hes' : es = (pre ++ [e]) ++ post) by (now rewrite <- app_assoc).
    destruct (IH (pre ++ [e]) s1 Hes' HI') as [HI2 Hds].
    destruct (run_script val s1 post) as [s2 ds]. cbn [fst snd] in *.
    split; [exact HI2 | now rewrite Hd, Hds].
Qed.

Lemma init_inv : Inv [] (script_init O N es).
Proof.
  unfold Inv, script_init. cbn [cp rv nz].
  assert (Hsc : script_counts N es = map (@length ent) bs ++ [0]).
  { unfold script_counts, bs, buckets. now rewrite map_map. }
  split; [|split; [|split; [|split]]].
  - rewrite ctc_length, Hsc, app_length, map_length, bs_length. cbn. lia.
  - apply repeat_length.
  - apply repeat_length.
  - intros j Hj. rewrite Hsc, ctc_nth by (rewrite map_length, bs_length; lia).
    rewrite sum_lengths. cbn. lia.
  - intros j k Hj Hk. cbn in Hk. lia.
Qed.

Lemma dests_pos : tags_nodup es -> forall post pre, es = pre ++ post ->
  dests pre post = map (fun e => pos (concat bs) (etag e)) post.
Proof.
  intros Hnd. 
  assert (Hnd' : NoDup (map etag (concat bs))).
  { eapply Permutation_NoDup; [symmetry; apply Permutation_map, concat_bs_perm | exact Hnd]. }
  induction post as [|e post IH]; intros pre Hes; [reflexivity|].
  cbn [dests map]. f_equal.
  - set (c := ecol e).
    assert (Hc : c < N).
    { unfold cols_lt in Hcols. rewrite Forall_forall in Hcols. apply Hcols. rewrite Hes.
      apply in_or_app; right; left; reflexivity. }
    assert (Hbc : bucket es c = bucket pre c ++ e :: bucket post c).
    { rewrite Hes, bucket_app. f_equal. unfold bucket at 1. cbn [filter]. fold c.
      now rewrite Nat.eqb_refl. }
    assert (Hn : nth (offs bs c + length (bucket pre c)) (concat bs) d0 = e).
    { rewrite nth_concat; rewrite ?bs_length, ?bs_nth by exact Hc; try exact Hc.
      - rewrite Hbc. now rewrite nth_app_mid.
      - rewrite Hbc, app_length. cbn [length]. lia. }
    rewrite <- Hn at 1. symmetry. apply pos_nth; [exact Hnd'|].
    rewrite concat_bs_length, <- offs_N.
    pose proof (offs_S_bs c Hc) as H1. pose proof (offs_mono bs (S c) N ltac:(lia)) as H2.
    rewrite Hbc, app_length in H1. cbn [length] in H1. lia.
  - apply IH. now rewrite <- app_assoc.
Qed.

Lemma final_colptr s : Inv es s -> backshift_colptrs (cp s) = psums 0 (map (@length ent) bs).
Proof.
  intros [Hcp [_ [_ [Hptr _]]]].
  rewrite psums_offs, bs_length.
  assert (Hrl : length (removelast (cp s)) = N) by (rewrite length_removelast; lia).
  unfold backshift_colptrs. destruct (cp s) as [|x l] eqn:Hl; [cbn in Hcp; lia|]. rewrite <- Hl in *.
  apply nth_ext with (d := 0) (d' := 0).
  - cbn [length]. rewrite map_length, seq_length. lia.
  - intros q Hq. cbn [length] in Hq.
    rewrite (nth_map_seq (fun j => 0 + offs bs j) 0 (S N) q 0) by lia.
    destruct q as [|q]; cbn [nth plus]; [unfold offs; reflexivity|].
    rewrite nth_removelast by lia. rewrite Hptr by lia. now rewrite offs_S_bs by lia.
Qed.
End Run.

Lemma fill_script_ok : stmt_fill_script.
Proof.
  unfold stmt_fill_script. intros T O val N es Hc Hnd. cbv zeta.
  destruct (run_inv O val N es Hc es [] (script_init O N es) eq_refl (init_inv O val N es)) as [HI Hds].
  destruct (run_script val (script_init O N es) es) as [s ds]. cbn [fst snd] in HI, Hds.
  split; [|split; [|split]].
  - now apply (final_colptr O val N es).
  - destruct HI as [_ [Hrv [_ [_ Hseg]]]].
    apply (segments_eq erow (0, 0, TP 0) 0).
    + rewrite Hrv. symmetry. now apply (concat_bs_length N es Hc).
    + intros j k Hj Hk. rewrite (bs_length N es) in Hj. rewrite (bs_nth N es j Hj) in *.
      now apply Hseg.
  - destruct HI as [_ [_ [Hnz [_ Hseg]]]].
    apply (segments_eq (fun e => val (etag e)) (0, 0, TP 0) (zero O)).
    + rewrite Hnz. symmetry. now apply (concat_bs_length N es Hc).
    + intros j k Hj Hk. rewrite (bs_length N es) in Hj. rewrite (bs_nth N es j Hj) in *.
      now apply Hseg.
  - rewrite Hds. now apply (dests_pos N es Hc Hnd es [] eq_refl).
Qed.
