(** C11 — the KKT assembly ALGORITHM as coded
      src/solver/core/kktsolvers/direct/quasidef/kkt_assembly.rs   (assemble_kkt_matrix)
      src/solver/core/kktsolvers/direct/quasidef/datamaps.rs       (sparse expansion count/fill/update)
      src/solver/core/kktsolvers/direct/quasidef/directldlkktsolver.rs (_fill_signs, update,
                                                                     regularize_and_refactor)
      src/algebra/csc/utils.rs                                     (colcount_* / fill_* primitives)
    Arrays are lists, a write is [set_nth]; [K.colptr] first holds per-column counts, then (after
    the prefix sum) the next free slot of every column while the fill passes run, and is shifted
    back at the end — exactly the Rust scheme.  Out-of-range reads return 0 and out-of-range
    writes are dropped (the Rust code would panic; the theorems' hypotheses exclude it).
    No proofs in this file. *)
From Coq Require Import List Arith ZArith Lia Bool.
Import ListNotations.
Require Import Clarabel.Base.Ops Clarabel.Csc.Model Clarabel.Kkt.Spec.

Definition incr (l : list nat) (i d : nat) : list nat := set_nth l i (nth i l 0 + d).

(** ** colcount_* (utils.rs) — all act on K.colptr *)
Definition colcount_dense_triangle (cp : list nat) (initcol blockcols : nat) (tri : triangle)
  : list nat :=
  fold_left (fun cp t => incr cp (initcol + t)
                              (match tri with Triu => t + 1 | Tril => blockcols - t end))
            (seq 0 blockcols) cp.
Definition colcount_diag (cp : list nat) (initcol blockcols : nat) : list nat :=
  fold_left (fun cp t => incr cp (initcol + t) 1) (seq 0 blockcols) cp.

Section Assembly.
Context {T : Type} (O : Ops T).
Notation raw := (@raw T).

(** "column i of M has no entry on the diagonal", as the code decides it: the column is
    empty or its last stored row is not i *)
Definition missing_diag_at (M : raw) (i : nat) : bool :=
  (nth i (rcolptr M) 0 =? nth (S i) (rcolptr M) 0)
  || negb (nth (nth (S i) (rcolptr M) 0 - 1) (rrowval M) 0 =? i).

Definition colcount_missing_diag (cp : list nat) (M : raw) (initcol : nat) : list nat :=
  fold_left (fun cp i => if missing_diag_at M i then incr cp (i + initcol) 1 else cp)
            (seq 0 (rn M)) cp.
Definition colcount_colvec (cp : list nat) (n firstrow firstcol : nat) : list nat :=
  incr cp firstcol n.
Definition colcount_rowvec (cp : list nat) (n firstrow firstcol : nat) : list nat :=
  fold_left (fun cp t => incr cp (firstcol + t) 1) (seq 0 n) cp.
(** [tr = true] is MatrixShape::T *)
Definition colcount_block (cp : list nat) (M : raw) (initcol : nat) (tr : bool) : list nat :=
  if tr then fold_left (fun cp row => incr cp (initcol + row) 1) (rrowval M) cp
  else fold_left (fun cp i => incr cp (initcol + i)
                                   (nth (S i) (rcolptr M) 0 - nth i (rcolptr M) 0))
                 (seq 0 (rn M)) cp.

(** ** fill_* (utils.rs) *)
Record st : Type := mkSt { cp : list nat; rv : list nat; nz : list T }.

(** write (row, v) at the next free slot of column [col]; advance the slot *)
Definition put (s : st) (col row : nat) (v : T) : st * nat :=
  let dest := nth col (cp s) 0 in
  (mkSt (incr (cp s) col 1) (set_nth (rv s) dest row) (set_nth (nz s) dest v), dest).

(** a run of puts at (row t, col t) for t in a list of (row, col); returns the slots used *)
Definition puts (s : st) (rcs : list (nat * nat)) : st * list nat :=
  fold_left (fun sm rc => let '(s', d) := put (fst sm) (snd rc) (fst rc) (zero O) in
                          (s', snd sm ++ [d]))
            rcs (s, []).

Definition fill_colvec (s : st) (len initrow initcol : nat) : st * list nat :=
  puts s (map (fun i => (initrow + i, initcol)) (seq 0 len)).
Definition fill_rowvec (s : st) (len initrow initcol : nat) : st * list nat :=
  puts s (map (fun i => (initrow, initcol + i)) (seq 0 len)).
Definition fill_diag (s : st) (offset blockdim : nat) : st * list nat :=
  puts s (map (fun i => (offset + i, offset + i)) (seq 0 blockdim)).
(** _fill_dense_triangle_triu: for col, for row <= col;  _tril: for row, for col <= row *)
Definition fill_dense_triangle (s : st) (offset blockdim : nat) (tri : triangle)
  : st * list nat :=
  match tri with
  | Triu => puts s (flat_map (fun c => map (fun r => (offset + r, offset + c)) (seq 0 (S c)))
                             (seq 0 blockdim))
  | Tril => puts s (flat_map (fun r => map (fun c => (offset + r, offset + c)) (seq 0 (S r)))
                             (seq 0 blockdim))
  end.

(** fill_block: entry j of M goes to (row, col); MtoKKT[j] := slot *)
Definition fill_block (s : st) (M : raw) (mp : list nat) (initrow initcol : nat) (tr : bool)
  : st * list nat :=
  fold_left
    (fun sm i =>
       let start := nth i (rcolptr M) 0 in
       let stop := nth (S i) (rcolptr M) 0 in
       fold_left
         (fun sm j =>
            let mr := nth j (rrowval M) 0 in
            let '(col, row) := if tr then (mr + initcol, i + initrow)
                               else (i + initcol, mr + initrow) in
            let '(s', d) := put (fst sm) col row (nth j (rnzval M) (zero O)) in
            (s', set_nth (snd sm) j d))
         (seq start (stop - start)) sm)
    (seq 0 (rn M)) (s, mp).

(** fill_missing_diag, as written: the slot is read from colptr[i + initcol] but the
    advance is applied to colptr[i] (identical only for initcol = 0, the only use) *)
Definition fill_missing_diag (s : st) (M : raw) (initcol : nat) : st :=
  fold_left
    (fun s i =>
       if missing_diag_at M i then
         let dest := nth (i + initcol) (cp s) 0 in
         mkSt (incr (cp s) i 1) (set_nth (rv s) dest (i + initcol))
              (set_nth (nz s) dest (zero O))
       else s)
    (seq 0 (rn M)) s.

Fixpoint colcount_to_colptr (cur : nat) (l : list nat) : list nat :=
  match l with
  | [] => []
  | c :: r => cur :: colcount_to_colptr (cur + c) r
  end.
(** rotate_right(1); [0] := 0 *)
Definition backshift_colptrs (l : list nat) : list nat :=
  match l with [] => [] | _ => 0 :: removelast l end.

(** count_diagonal_entries (Triu branch, the one assemble uses) *)
Definition count_diagonal_entries (M : raw) : nat :=
  length (filter (fun i => negb (missing_diag_at M i)) (seq 0 (rn M))).

(** ** what the code asks of a cone *)
Definition hs_is_diagonal (s : shape) : bool := match s with Dense _ => false | _ => true end.
Definition sparse_expandable (s : shape) : bool :=
  match s with SocSparse _ | GenPow _ _ => true | _ => false end.
(** map.sparse_maps.nnz_vec() *)
Definition nnz_vec (s : shape) : nat :=
  match s with SocSparse d => 2 * d | GenPow d1 d2 => (d1 + d2) + d1 + d2 | _ => 0 end.

(** csc_colcount_sparsecone (datamaps.rs) *)
Definition colcount_sparsecone (cp : list nat) (s : shape) (row col : nat) (tri : triangle)
  : list nat :=
  match s with
  | SocSparse d =>
      let cp := match tri with
                | Triu => colcount_colvec (colcount_colvec cp d row col) d row (col + 1)
                | Tril => colcount_rowvec (colcount_rowvec cp d col row) d (col + 1) row
                end in
      colcount_diag cp col 2
  | GenPow d1 d2 =>
      let cp := match tri with
                | Triu => colcount_colvec
                            (colcount_colvec (colcount_colvec cp d1 row col) d2 (row + d1) (col + 1))
                            (d1 + d2) row (col + 2)
                | Tril => colcount_rowvec
                            (colcount_rowvec (colcount_rowvec cp d1 col row) d2 (col + 1) (row + d1))
                            (d1 + d2) (col + 2) row
                end in
      colcount_diag cp col 3
  | _ => cp
  end.

(** csc_fill_sparsecone: for the SOC, v is the first auxiliary column and u the second *)
Definition fill_sparsecone (s0 : st) (s : shape) (row col : nat) (tri : triangle)
  : st * list smap :=
  match s with
  | SocSparse d =>
      let '(s1, v) := match tri with Triu => fill_colvec s0 d row col
                                   | Tril => fill_rowvec s0 d col row end in
      let '(s2, u) := match tri with Triu => fill_colvec s1 d row (col + 1)
                                   | Tril => fill_rowvec s1 d (col + 1) row end in
      let '(s3, D) := fill_diag s2 col 2 in
      (s3, [SocMap u v D])
  | GenPow d1 d2 =>
      let '(s1, q) := match tri with Triu => fill_colvec s0 d1 row col
                                   | Tril => fill_rowvec s0 d1 col row end in
      let '(s2, r) := match tri with Triu => fill_colvec s1 d2 (row + d1) (col + 1)
                                   | Tril => fill_rowvec s1 d2 (col + 1) (row + d1) end in
      let '(s3, p) := match tri with Triu => fill_colvec s2 (d1 + d2) row (col + 2)
                                   | Tril => fill_rowvec s2 (d1 + d2) (col + 2) row end in
      let '(s4, D) := fill_diag s3 col 3 in
      (s4, [GpMap p q r D])
  | _ => (s0, [])
  end.

(** _kkt_assemble_colcounts *)
Fixpoint cones_colcounts (cp : list nat) (shapes : list shape) (row pcol : nat) (tri : triangle)
  : list nat :=
  match shapes with
  | [] => cp
  | s :: r =>
      let d := numel s in
      let cp := if hs_is_diagonal s then colcount_diag cp row d
                else colcount_dense_triangle cp row d tri in
      let cp := if sparse_expandable s then colcount_sparsecone cp s row pcol tri else cp in
      cones_colcounts cp r (row + d) (pcol + pdim s) tri
  end.
Definition assemble_colcounts (N : nat) (P A : raw) (shapes : list shape) (tri : triangle)
  : list nat :=
  let n := rn A in let m := rm A in
  let cp := repeat 0 (S N) in
  let cp := match tri with
            | Triu => colcount_block (colcount_missing_diag (colcount_block cp P 0 false) P 0)
                                     A n true
            | Tril => colcount_block (colcount_block (colcount_missing_diag cp P 0) P 0 true)
                                     A 0 false
            end in
  cones_colcounts cp shapes n (m + n) tri.

(** the cone loop of _kkt_assemble_fill *)
Fixpoint cones_fill (s0 : st) (shapes : list shape) (row pcol : nat) (tri : triangle)
  : st * list nat * list smap :=
  match shapes with
  | [] => (s0, [], [])
  | s :: r =>
      let d := numel s in
      let '(s1, blk) := if hs_is_diagonal s then fill_diag s0 row d
                        else fill_dense_triangle s0 row d tri in
      let '(s2, sm) := if sparse_expandable s then fill_sparsecone s1 s row pcol tri
                       else (s1, []) in
      let '(s3, blks, sms) := cones_fill s2 r (row + d) (pcol + pdim s) tri in
      (s3, blk ++ blks, sm ++ sms)
  end.

(** assemble_kkt_matrix: the matrix (raw CSC) and the LDLDataMap *)
Definition assemble (P A : raw) (shapes : list shape) (tri : triangle) : raw * maps :=
  let n := rn A in let m := rm A in
  let p := sum_by pdim shapes in
  let N := m + n + p in
  let nnzP := length (rrowval P) in
  let nnzA := length (rrowval A) in
  let nnzKKT := nnzP + n - count_diagonal_entries P + nnzA
                + sum_by blocklen shapes + sum_by nnz_vec shapes + p in
  let counts := assemble_colcounts N P A shapes tri in
  let s0 := mkSt (colcount_to_colptr 0 counts) (repeat 0 nnzKKT) (repeat (zero O) nnzKKT) in
  let '(s1, mapP, mapA) :=
    match tri with
    | Triu =>
        let '(a, mp) := fill_block s0 P (repeat 0 nnzP) 0 0 false in
        let b := fill_missing_diag a P 0 in
        let '(c, ma) := fill_block b A (repeat 0 nnzA) 0 n true in
        (c, mp, ma)
    | Tril =>
        let a := fill_missing_diag s0 P 0 in
        let '(b, mp) := fill_block a P (repeat 0 nnzP) 0 0 true in
        let '(c, ma) := fill_block b A (repeat 0 nnzA) n 0 false in
        (c, mp, ma)
    end in
  let '(s2, hs, sps) := cones_fill s1 shapes n (m + n) tri in
  let colptr := backshift_colptrs (cp s2) in
  let '(dfull, dP) :=
    match tri with
    | Triu => (map (fun x => x - 1) (tl colptr), map (fun x => x - 1) (firstn n (tl colptr)))
    | Tril => (removelast colptr, firstn n colptr)
    end in
  (mkRaw N N colptr (rv s2) (nz s2), mkMaps mapP mapA hs sps dP dfull).

End Assembly.

(** ** _fill_signs *)
Fixpoint write_at (l : list Z) (p : nat) (v : list Z) : list Z :=
  match v with [] => l | x :: r => write_at (set_nth l p x) (S p) r end.
Definition smap_dsigns (s : smap) : list Z :=
  match s with SocMap _ _ _ => [-1; 1] | GpMap _ _ _ _ => [-1; -1; 1] end%Z.
Definition smap_pdim (s : smap) : nat := match s with SocMap _ _ _ => 2 | GpMap _ _ _ _ => 3 end.
Definition fill_signs (len m n : nat) (sps : list smap) : list Z :=
  let s0 := repeat 1%Z len in
  let s1 := fold_left (fun s i => set_nth s i (- nth i s 0)%Z) (seq n m) s0 in
  fst (fold_left (fun sp sm => (write_at (fst sp) (snd sp) (smap_dsigns sm), snd sp + smap_pdim sm))
                 sps (s1, m + n)).

(** ** The value pipeline of [update] and [regularize_and_refactor], over any scalar type.
    [kkt] is KKT.nzval; [ldl] the backend's own (permuted) copy of the values, reached through
    [perm] (QDLDL's AtoPAPt). *)
Section Values.
Context {T : Type} (O : Ops T).

Definition write_vals (a : list T) (index : list nat) (values : list T) : list T :=
  fold_left (fun a iv => set_nth a (fst iv) (snd iv)) (combine index values) a.
Definition scale_vals (a : list T) (index : list nat) (c : T) : list T :=
  fold_left (fun a i => set_nth a i (mul O (nth i a (zero O)) c)) index a.
Definition via (perm : list nat) (index : list nat) : list nat :=
  map (fun i => nth i perm 0) index.

(** _update_values / _scale_values: both copies *)
Definition update_values (kl : list T * list T) (perm index : list nat) (values : list T) :=
  (write_vals (fst kl) index values, write_vals (snd kl) (via perm index) values).
Definition scale_values (kl : list T * list T) (perm index : list nat) (c : T) :=
  (scale_vals (fst kl) index c, scale_vals (snd kl) (via perm index) c).

(** DirectLDLSolver::offset_values (QDLDL and faer): on the backend's copy only,
    nzval[perm[idx]] += offset * sign, pairing indices with signs *)
Definition offset_vals (a : list T) (index : list nat) (offset : T) (signs : list Z) : list T :=
  fold_left (fun a is => set_nth a (fst is)
                           (add O (nth (fst is) a (zero O))
                                  (mul O offset (if Z.eqb (snd is) 1 then one O else neg O (one O)))))
            (combine index signs) a.
Definition offset_values (kl : list T * list T) (perm index : list nat) (offset : T) (signs : list Z) :=
  (fst kl, offset_vals (snd kl) (via perm index) offset signs).

(** per-cone data of a sparse expansion at the current scaling point *)
Inductive spdata : Type :=
| SocData (eta : T) (u v : list T)
| GpData (mu : T) (p q r : list T).

(** csc_update_sparsecone *)
Definition update_sparsecone (kl : list T * list T) (perm : list nat) (mp : smap) (d : spdata) :=
  match mp, d with
  | SocMap mu mv mD, SocData eta u v =>
      let eta2 := mul O eta eta in
      let kl := update_values kl perm mu u in
      let kl := update_values kl perm mv v in
      let kl := scale_values kl perm mu (neg O eta2) in
      let kl := scale_values kl perm mv (neg O eta2) in
      update_values kl perm mD [neg O eta2; eta2]
  | GpMap mp' mq mr mD, GpData mu p q r =>
      let sq := sqrt O mu in
      let kl := update_values kl perm mq q in
      let kl := update_values kl perm mr r in
      let kl := update_values kl perm mp' p in
      let kl := scale_values kl perm mq (neg O sq) in
      let kl := scale_values kl perm mr (neg O sq) in
      let kl := scale_values kl perm mp' (neg O sq) in
      update_values kl perm mD [neg O (one O); neg O (one O); one O]
  | _, _ => kl
  end.

Definition norm_inf (l : list T) : T := fold_left (fun m v => omax O m (abs O v)) l (zero O).

(** regularize_and_refactor with static regularisation enabled.  Returns
    (KKT.nzval afterwards, the values the backend factors, eps). *)
Definition regularize_and_refactor (kl : list T * list T) (perm dfull : list nat)
           (dsigns : list Z) (eps_const eps_prop : T) : list T * list T * T :=
  let diag_kkt := map (fun i => nth i (fst kl) (zero O)) dfull in
  let eps := add O eps_const (mul O eps_prop (norm_inf diag_kkt)) in
  let shifted := map (fun ds => if Z.eqb (snd ds) 1 then add O (fst ds) eps else sub O (fst ds) eps)
                     (combine diag_kkt dsigns) in
  let kl1 := update_values kl perm dfull shifted in
  (* refactor: the backend factors [snd kl1] *)
  (write_vals (fst kl1) dfull diag_kkt, snd kl1, eps).

(** KKTSolver::update *)
Definition update (kl : list T * list T) (perm : list nat) (mp : maps) (hs : list T)
           (sp : list spdata) (dsigns : list Z) (eps_const eps_prop : T) :=
  let kl := update_values kl perm (mHs mp) (map (neg O) hs) in
  let kl := fold_left (fun kl md => update_sparsecone kl perm (fst md) (snd md))
                      (combine (mSp mp) sp) kl in
  regularize_and_refactor kl perm (mDiagFull mp) dsigns eps_const eps_prop.

End Values.
