(** C11 — kkt_spec_dense: dense meaning (Csc [get]) of the intended KKT matrix. *)
From Coq Require Import List Arith ZArith Lia Bool Permutation Sorted.
Import ListNotations.
Require Import Clarabel.Base.Ops Clarabel.Csc.Model Clarabel.Csc.Spec Clarabel.Csc.LemmasStruct.
Require Import Clarabel.Kkt.Spec Clarabel.Kkt.Model Clarabel.Kkt.Stmts Clarabel.Kkt.LemmasSpec Clarabel.Kkt.LemmasVals.
Require Import Clarabel.Kkt.LemmasDiag Clarabel.Kkt.LemmasWf Clarabel.Kkt.LemmasFill Clarabel.Kkt.LemmasRefine Clarabel.Kkt.LemmasCone Clarabel.Kkt.LemmasCount Clarabel.Kkt.LemmasRaw Clarabel.Kkt.LemmasOrder Clarabel.Kkt.LemmasDiagPos Clarabel.Kkt.LemmasAssemble Clarabel.Kkt.LemmasTril.

Lemma kcols_script {T} (P A : @csc T) shapes tri : wf_input P A shapes ->
  exists st, Permutation st (entries P A shapes tri) /\ col_ordered st
             /\ kcols (kdim P A shapes) (entries P A shapes tri) = buckets (kdim P A shapes) st.
Proof.
  intros Hwf. destruct tri.
  - exists (entries_triu P A shapes). split; [reflexivity|].
    pose proof (entries_triu_ordered P A shapes Hwf) as Ho. split; [exact Ho|].
    cbn [entries]. apply kcols_buckets. now apply col_ordered_buckets_sorted.
  - exists (tril_script P A shapes). split; [apply tril_script_perm|].
    split; [now apply tril_script_ordered | now apply (kcols_tril P A shapes Hwf)].
Qed.

Lemma rows_strict_of_SS (l : list ent) j :
  StronglySorted Rcol l -> (forall e, In e l -> ecol e = j) -> StronglySorted lt (map erow l).
Proof.
  induction 1 as [|a l Hl IH Ha]; intros Hc; cbn [map]; constructor.
  - apply IH. intros e He. apply Hc. right; exact He.
  - apply Forall_forall. intros r Hr. apply in_map_iff in Hr. destruct Hr as [b [<- Hb]].
    rewrite Forall_forall in Ha. specialize (Ha b Hb). unfold Rcol in Ha. apply Ha.
    rewrite (Hc a), (Hc b); [reflexivity | right; exact Hb | left; reflexivity].
Qed.

Section Get.
Context {T : Type} (O : Ops T) (HL : Laws O).

Lemma colget_sorted (c : @col T) e : SS c -> In e c -> colget O c (fst e) = snd e.
Proof.
  induction c as [|x c IH]; intros Hs He; [contradiction|].
  apply SS_cons in Hs. destruct Hs as [Hs Hx]. rewrite colget_cons.
  destruct He as [<-|He].
  - rewrite Nat.eqb_refl. rewrite (colget_SS_gt O x c (fst x) Hx (Nat.le_refl _)).
    destruct HL as [Rth _]. rewrite (Radd_comm Rth). apply (Radd_0_l Rth).
  - rewrite Forall_forall in Hx. specialize (Hx e He).
    replace (fst x =? fst e) with false by (symmetry; apply Nat.eqb_neq; lia). now apply IH.
Qed.
End Get.

Definition gent {T} (val : tag -> T) (e : ent) : nat * T := (erow e, val (etag e)).
Section Get2.
Context {T : Type} (O : Ops T) (HL : Laws O) (val : tag -> T).
Notation g := (gent val).

Lemma kkt_col (P A : @csc T) shapes tri st j :
  kcols (kdim P A shapes) (entries P A shapes tri) = buckets (kdim P A shapes) st ->
  nth j (cols (kkt_matrix_v val P A shapes tri)) []
  = if j <? kdim P A shapes then map g (bucket st j) else [].
Proof.
  intros Hk. unfold kkt_matrix_v. cbn [cols]. rewrite Hk.
  change (fun e : ent => (erow e, val (etag e))) with (gent val).
  nrm. rewrite nth_map_nil by reflexivity.
  destruct (j <? kdim P A shapes) eqn:E.
  - apply Nat.ltb_lt in E. now rewrite bs_nth by exact E.
  - apply Nat.ltb_ge in E. rewrite nth_overflow; [reflexivity | now rewrite bs_length].
Qed.

Lemma kkt_get_entry_ok' (P A : @csc T) shapes tri : wf_input P A shapes ->
  forall e, In e (entries P A shapes tri) ->
    get O (kkt_matrix_v val P A shapes tri) (erow e) (ecol e) = val (etag e).
Proof.
  intros Hwf e He. destruct (kcols_script P A shapes tri Hwf) as [st [Hp [Ho Hk]]].
  pose proof (cols_lt_entries P A shapes tri Hwf) as Hc. unfold cols_lt in Hc. rewrite Forall_forall in Hc.
  specialize (Hc e He). unfold get. rewrite (kkt_col P A shapes tri st (ecol e) Hk).
  replace (ecol e <? kdim P A shapes) with true by (symmetry; now apply Nat.ltb_lt).
  assert (Hes : In e st) by (eapply Permutation_in; [symmetry; exact Hp | exact He]).
  assert (Heb : In e (bucket st (ecol e))) by (unfold bucket; apply filter_In; split; [exact Hes | apply Nat.eqb_refl]).
  change (val (etag e)) with (snd (g e)). change (erow e) with (fst (g e)) at 1.
  apply (colget_sorted O HL).
  - unfold SS. rewrite map_map. cbn [fst]. apply (rows_strict_of_SS _ (ecol e)).
    + unfold bucket. now apply SS_filter'.
    + intros x Hx. now apply bucket_col in Hx.
  - now apply in_map.
Qed.

Lemma kkt_get_none_ok' (P A : @csc T) shapes tri : wf_input P A shapes ->
  forall i j, (forall e, In e (entries P A shapes tri) -> ~ (erow e = i /\ ecol e = j)) ->
    get O (kkt_matrix_v val P A shapes tri) i j = zero O.
Proof.
  intros Hwf i j Hno. destruct (kcols_script P A shapes tri Hwf) as [st [Hp [Ho Hk]]].
  unfold get. rewrite (kkt_col P A shapes tri st j Hk).
  destruct (j <? kdim P A shapes); [|reflexivity].
  apply (colget_zero O). intros x Hx. apply in_map_iff in Hx. destruct Hx as [e [<- He]].
  apply bucket_col in He. destruct He as [Hc Hin]. cbn [fst]. intro Hr.
  apply (Hno e); [eapply Permutation_in; [exact Hp | exact Hin] | split; assumption].
Qed.
End Get2.

Lemma kkt_get_entry_ok : stmt_kkt_get_entry.
Proof. unfold stmt_kkt_get_entry. intros. now apply kkt_get_entry_ok'. Qed.
Lemma kkt_get_none_ok : stmt_kkt_get_none.
Proof. unfold stmt_kkt_get_none. intros. now apply kkt_get_none_ok'. Qed.

(** * stored entries of a canonical matrix and its dense meaning *)
Section Stored.
Context {T : Type} (O : Ops T) (HL : Laws O).
Notation csc := (@csc T).

Lemma coords_parallel (cs : list (@col T)) d : forall k, k < length (concat cs) ->
  let rc := nth k (coordsL cs) (0, 0) in
  fst rc = fst (nth k (concat cs) d) /\ snd rc < length cs /\ In (nth k (concat cs) d) (nth (snd rc) cs []).
Proof.
  induction cs as [|c cs IH] using rev_ind; intros k Hk; [cbn in Hk; lia|]. cbv zeta.
  rewrite coordsL_snoc, concat_app in *. cbn [concat] in *. rewrite app_nil_r in *.
  rewrite app_length in Hk.
  destruct (Nat.lt_ge_cases k (length (concat cs))) as [Hlt|Hge].
  - rewrite !app_nth1 by (rewrite ?coordsL_length; exact Hlt).
    destruct (IH k Hlt) as [H1 [H2 H3]]. split; [exact H1|]. split; [rewrite app_length; cbn; lia|].
    now rewrite app_nth1 by exact H2.
  - rewrite !app_nth2 by (rewrite ?coordsL_length; exact Hge). rewrite coordsL_length.
    set (k' := k - length (concat cs)). assert (Hk' : k' < length c) by (unfold k'; lia).
    rewrite (nth_map_lt (fun e : nat * T => (fst e, length cs)) c k' d (0, 0) Hk'). cbn [fst snd].
    split; [reflexivity|]. split; [rewrite app_length; cbn; lia|].
    rewrite nth_middle. now apply nth_In.
Qed.

Lemma coords_val (M : csc) k r c : canonicalb M = true ->
  In (k, (r, c)) (indexed (coords M)) -> get O M r c = nth k (vals M) (zero O).
Proof.
  intros HM Hin. pose proof (canonical_SS M HM) as Hss. rewrite Forall_forall in Hss.
  destruct (in_indexed_inv (coords M) (0, 0) (k, (r, c)) Hin) as [Hk Hn]. cbn [fst snd] in Hk, Hn.
  rewrite coords_coordsL, coordsL_length in Hk.
  destruct (coords_parallel (cols M) (0, zero O) k Hk) as [H1 [H2 H3]].
  rewrite <- coords_coordsL, <- Hn in H1, H2, H3. cbn [fst snd] in H1, H2, H3.
  set (x := nth k (concat (cols M)) (0, zero O)) in *.
  unfold get. rewrite H1.
  rewrite (colget_sorted O HL (nth c (cols M) []) x); [| apply Hss; apply nth_In; exact H2 | exact H3].
  unfold vals, x. now rewrite (nth_map_lt snd _ k (0, zero O) (zero O)) by exact Hk.
Qed.

Lemma coords_intro (M : csc) j x : j < length (cols M) -> In x (nth j (cols M) []) -> In (fst x, j) (coords M).
Proof.
  intros Hj Hx. unfold coords. apply in_flat_map. exists (j, nth j (cols M) []). split.
  - apply LemmasDiag.in_indexed. exact Hj.
  - cbn [fst snd]. apply in_map_iff. exists x. split; [reflexivity | exact Hx].
Qed.
Lemma get_not_stored (M : csc) r c : ~ In (r, c) (coords M) -> get O M r c = zero O.
Proof.
  intros Hn. unfold get. apply (colget_zero O). intros x Hx Hr.
  destruct (Nat.lt_ge_cases c (length (cols M))) as [Hc|Hc].
  - apply Hn. rewrite <- Hr. now apply coords_intro.
  - rewrite nth_overflow in Hx by exact Hc. contradiction.
Qed.
End Stored.

Lemma kkt_matrix_as_v {T} (O : Ops T) (P A : @csc T) shapes tri :
  kkt_matrix O P A shapes tri = kkt_matrix_v (tag_val O P A) P A shapes tri.
Proof. reflexivity. Qed.

Lemma find_pos (es : list ent) i j :
  (exists e, In e es /\ erow e = i /\ ecol e = j) \/ (forall e, In e es -> ~ (erow e = i /\ ecol e = j)).
Proof.
  destruct (find (fun e => (erow e =? i) && (ecol e =? j)) es) as [e|] eqn:F.
  - left. apply find_some in F. destruct F as [He Hf]. apply andb_true_iff in Hf. destruct Hf as [H1 H2].
    exists e. split; [exact He|]. split; [now apply Nat.eqb_eq | now apply Nat.eqb_eq].
  - right. intros e He [H1 H2]. pose proof (find_none _ _ F e He) as Hf. cbn beta in Hf.
    rewrite H1, H2, !Nat.eqb_refl in Hf. discriminate.
Qed.

Lemma kkt_spec_dense_tril_ok : stmt_kkt_spec_dense_tril.
Proof.
  unfold stmt_kkt_spec_dense_tril. intros T O val P A shapes HL Hwf i j.
  destruct (find_pos (entries_triu P A shapes) j i) as [[e [He [Hr Hc]]]|Hno].
  - rewrite <- Hr, <- Hc.
    rewrite (kkt_get_entry_ok' O HL val P A shapes Triu Hwf e He).
    change (ecol e) with (erow (eswap e)). change (erow e) with (ecol (eswap e)).
    rewrite (kkt_get_entry_ok' O HL val P A shapes Tril Hwf (eswap e)); [reflexivity|].
    cbn [entries]. now apply in_map.
  - rewrite (kkt_get_none_ok' O val P A shapes Triu Hwf j i Hno).
    apply (kkt_get_none_ok' O val P A shapes Tril Hwf). intros e He [Hr Hc].
    cbn [entries] in He. apply in_map_iff in He. destruct He as [x [<- Hx]].
    apply (Hno x Hx). unfold eswap, erow, ecol in *. cbn [fst snd] in *. split; assumption.
Qed.

Lemma kkt_spec_dense_ok : stmt_kkt_spec_dense.
Proof.
  unfold stmt_kkt_spec_dense. intros T O P A shapes HL Hwf i j.
  pose proof Hwf as [HP [HA [Hsq [HnA [Hup Hm]]]]].
  rewrite kkt_matrix_as_v.
  destruct (find_pos (entries_triu P A shapes) i j) as [[e [He [Hr Hc]]]|Hno].
  - rewrite <- Hr, <- Hc. rewrite (kkt_get_entry_ok' O HL _ P A shapes Triu Hwf e He).
    pose proof (entries_triu_upper P A shapes e Hwf He) as Hle.
    replace (erow e <=? ecol e) with true by (symmetry; now apply Nat.leb_le).
    unfold entries_triu in He. rewrite !in_app_iff in He. destruct He as [He|[He|[He|He]]].
    + (* P entry *)
      pose proof (eP_in P e HP Hup He) as [Hcl _].
      replace (ecol e <? nc P) with true by (symmetry; now apply Nat.ltb_lt).
      unfold eP in He. apply in_map_iff in He. destruct He as [[k [r c]] [<- Hk]].
      unfold erow, ecol, etag. cbn [fst snd tag_val]. symmetry. now apply (coords_val O HL P k r c HP).
    + (* structural diagonal *)
      pose proof (eMiss_in P (nc P) e He) as [Hrc [Hcl Hhd]].
      replace (ecol e <? nc P) with true by (symmetry; now apply Nat.ltb_lt).
      unfold eMiss in He. apply in_map_iff in He. destruct He as [i0 [<- _]].
      unfold erow, ecol, etag in *. cbn [fst snd tag_val] in *. symmetry.
      unfold get. apply (colget_zero O). intros x Hx Hfx. unfold has_diag in Hhd.
      assert (existsb (fun e => fst e =? i0) (nth i0 (cols P) []) = true); [|congruence].
      apply existsb_exists. exists x. split; [exact Hx | now apply Nat.eqb_eq].
    + (* A entry *)
      pose proof (eA_in A (nc P) e HA He) as [Hr' Hc'].
      replace (ecol e <? nc P) with false by (symmetry; apply Nat.ltb_ge; lia).
      replace (erow e <? nc P) with true by (symmetry; apply Nat.ltb_lt; lia).
      replace (ecol e <? nc P + nr A) with true by (symmetry; apply Nat.ltb_lt; lia).
      cbn [andb].
      unfold eA in He. apply in_map_iff in He. destruct He as [[k [r c]] [<- Hk]].
      unfold erow, ecol, etag. cbn [fst snd tag_val].
      replace (nc P + r - nc P) with r by lia. symmetry. now apply (coords_val O HL A k r c HA).
    + (* cone entries: structural zeros *)
      pose proof (eCones_bounds shapes 0 (nc P) (nc P + nr A) e He) as [Hbr Hbc]. unfold inrng in *.
      replace (ecol e <? nc P) with false by (symmetry; apply Nat.ltb_ge; lia).
      replace (erow e <? nc P) with false by (symmetry; apply Nat.ltb_ge; lia). cbn [andb].
      apply in_map with (f := etag) in He. apply eCones_tags_cone in He. destruct He as [c' [_ Hc']].
      destruct (etag e); cbn in Hc'; try discriminate; reflexivity.
  - rewrite (kkt_get_none_ok' O _ P A shapes Triu Hwf i j Hno).
    destruct (i <=? j) eqn:Eij; [|reflexivity]. apply Nat.leb_le in Eij.
    destruct (j <? nc P) eqn:Ej.
    + symmetry. apply (get_not_stored O). intro Hin.
      destruct (in_indexed_ex _ _ Hin) as [k Hk].
      apply (Hno (i, j, TP k)); [|split; reflexivity].
      unfold entries_triu. apply in_or_app; left. unfold eP. apply in_map_iff. exists (k, (i, j)). split; [reflexivity | exact Hk].
    + destruct ((i <? nc P) && (j <? nc P + nr A)) eqn:Eb; [|reflexivity].
      apply andb_true_iff in Eb. destruct Eb as [Ei Ej2]. apply Nat.ltb_lt in Ei, Ej2. apply Nat.ltb_ge in Ej.
      symmetry. apply (get_not_stored O). intro Hin.
      destruct (in_indexed_ex _ _ Hin) as [k Hk].
      apply (Hno (i, nc P + (j - nc P), TA k)).
      * unfold entries_triu. apply in_or_app; right. apply in_or_app; right. apply in_or_app; left.
        unfold eA. apply in_map_iff. exists (k, (j - nc P, i)). split; [reflexivity | exact Hk].
      * unfold erow, ecol. cbn [fst snd]. split; [reflexivity | lia].
Qed.
