(** C11 — the hypotheses of maps_partition hold: tags are pairwise distinct (always) and every
    entry lies inside the matrix (for well-formed inputs). *)
From Coq Require Import List Arith ZArith Lia Bool Permutation.
Import ListNotations.
Require Import Clarabel.Base.Ops Clarabel.Csc.Model Clarabel.Csc.LemmasStruct.
Require Import Clarabel.Kkt.Spec Clarabel.Kkt.LemmasSpec Clarabel.Kkt.LemmasDiag.

(** * tags are pairwise distinct *)
Lemma NoDup_app_intro {X} (a b : list X) :
  NoDup a -> NoDup b -> (forall x, In x a -> In x b -> False) -> NoDup (a ++ b).
Proof.
  induction a as [|x a IH]; intros Ha Hb Hd; [exact Hb|].
  inversion Ha as [|? ? Hx Ha']; subst. cbn [app]. constructor.
  - intro Hin. apply in_app_or in Hin. destruct Hin as [Hin|Hin]; [contradiction|].
    apply (Hd x); [left; reflexivity | exact Hin].
  - apply IH; auto. intros y Hy Hy'. apply (Hd y); [right; exact Hy | exact Hy'].
Qed.
Lemma NoDup_map_inj {X Y} (f : X -> Y) (l : list X) :
  (forall a b, f a = f b -> a = b) -> NoDup l -> NoDup (map f l).
Proof.
  intros Hf. induction 1 as [|x l Hx Hl IH]; cbn [map]; constructor; auto.
  intro Hin. apply in_map_iff in Hin. destruct Hin as [y [Hy Hin]]. apply Hf in Hy. subst. contradiction.
Qed.

Lemma tri_num_S d : tri_num (S d) = tri_num d + S d.
Proof.
  unfold tri_num. replace (S d * (S d + 1)) with (d * (d + 1) + S d * 2) by lia.
  rewrite Nat.div_add by lia. reflexivity.
Qed.
Lemma map_add_seq k n : forall a, map (fun r => k + r) (seq a n) = seq (k + a) n.
Proof.
  induction n as [|n IH]; intros a; cbn [seq map]; [reflexivity|].
  f_equal. rewrite IH. f_equal. lia.
Qed.
Lemma dense_idx_seq d :
  flat_map (fun t => map (fun r => tri_idx r t) (seq 0 (S t))) (seq 0 d) = seq 0 (tri_num d).
Proof.
  induction d as [|d IH]; [reflexivity|].
  rewrite seq_S, flat_map_app, IH. cbn [flat_map plus]. rewrite app_nil_r.
  rewrite tri_num_S, seq_app. f_equal. cbn [plus]. unfold tri_idx.
  rewrite map_add_seq. now rewrite Nat.add_0_r.
Qed.

Definition cone_tags (c : nat) (s : shape) : list tag :=
  match s with
  | Diag d => map (THs c) (seq 0 d)
  | Dense d => map (THs c) (seq 0 (tri_num d))
  | SocSparse d =>
      map (THs c) (seq 0 d) ++ map (TV c) (seq 0 d) ++ map (TU c) (seq 0 d) ++ map (TD c) (seq 0 2)
  | GenPow d1 d2 =>
      map (THs c) (seq 0 (d1 + d2)) ++ map (TGq c) (seq 0 d1) ++ map (TGr c) (seq 0 d2)
      ++ map (TGp c) (seq 0 (d1 + d2)) ++ map (TD c) (seq 0 3)
  end.
Definition tag_cone (t : tag) : option nat :=
  match t with
  | TP _ | TA _ | TMiss _ => None
  | THs c _ | TU c _ | TV c _ | TGp c _ | TGq c _ | TGr c _ | TD c _ => Some c
  end.

Lemma map_flat_map' {X Y Z} (f : Y -> Z) (g : X -> list Y) (l : list X) :
  map f (flat_map g l) = flat_map (fun x => map f (g x)) l.
Proof. induction l as [|x l IH]; cbn [flat_map map]; [reflexivity|]. now rewrite map_app, IH. Qed.

Lemma eCone_tags c o pcol s : map etag (eCone c o pcol s) = cone_tags c s.
Proof.
  destruct s as [d|d|d|d1 d2]; unfold eCone, cone_tags, eDiagBlk, eVec, eAuxD;
    rewrite ?map_app, ?map_map; cbn [etag snd]; try reflexivity.
  rewrite map_flat_map'. rewrite <- dense_idx_seq. rewrite map_flat_map'.
  apply flat_map_ext. intros t. now rewrite !map_map.
Qed.

Ltac split_or := repeat match goal with H : _ \/ _ |- _ => destruct H as [H|H] end.
Ltac tag_disj :=
  let x := fresh "x" in let H1 := fresh "H1" in let H2 := fresh "H2" in
  intros x H1 H2; rewrite ?in_app_iff in H2; apply in_map_iff in H1;
  destruct H1 as [? [<- _]]; split_or; apply in_map_iff in H2; destruct H2 as [? [H2 _]]; discriminate.
Ltac tag_inj := intros ? ? Heq; inversion Heq; reflexivity.

Lemma cone_tags_nodup c s : NoDup (cone_tags c s).
Proof.
  destruct s as [d|d|d|d1 d2]; unfold cone_tags;
    repeat (apply NoDup_app_intro; [| |tag_disj]);
    try (apply NoDup_map_inj; [tag_inj | apply seq_NoDup]).
Qed.
Lemma cone_tags_cone c s t : In t (cone_tags c s) -> tag_cone t = Some c.
Proof.
  destruct s as [d|d|d|d1 d2]; unfold cone_tags; rewrite ?in_app_iff; intros H; split_or;
    apply in_map_iff in H; destruct H as [? [<- _]]; reflexivity.
Qed.

Lemma eCones_tags_cone shapes : forall c o pcol t,
  In t (map etag (eCones c o pcol shapes)) -> exists c', c <= c' /\ tag_cone t = Some c'.
Proof.
  induction shapes as [|s shapes IH]; intros c o pcol t Hin; [contradiction|].
  cbn [eCones] in Hin. rewrite map_app, in_app_iff, eCone_tags in Hin. destruct Hin as [Hin|Hin].
  - exists c. split; [lia | now apply (cone_tags_cone c s)].
  - destruct (IH _ _ _ _ Hin) as [c' [Hle Ht]]. exists c'. split; [lia | exact Ht].
Qed.
Lemma eCones_tags_nodup shapes : forall c o pcol, NoDup (map etag (eCones c o pcol shapes)).
Proof.
  induction shapes as [|s shapes IH]; intros c o pcol; [constructor|].
  cbn [eCones]. rewrite map_app, eCone_tags. apply NoDup_app_intro.
  - apply cone_tags_nodup.
  - apply IH.
  - intros t H1 H2. apply cone_tags_cone in H1. apply eCones_tags_cone in H2.
    destruct H2 as [c' [Hle Ht]]. rewrite H1 in Ht. inversion Ht. lia.
Qed.

Section Top.
Context {T : Type}.
Notation csc := (@csc T).

Lemma map_fst_indexed {X} (l : list X) : map fst (indexed l) = seq 0 (length l).
Proof. unfold indexed. apply map_fst_combine. now rewrite seq_length. Qed.

Lemma eP_tags (P : csc) : map etag (eP P) = map TP (seq 0 (length (coords P))).
Proof. unfold eP. rewrite map_map. cbn [etag snd]. rewrite <- map_fst_indexed, map_map. reflexivity. Qed.
Lemma eA_tags (A : csc) n : map etag (eA A n) = map TA (seq 0 (length (coords A))).
Proof. unfold eA. rewrite map_map. cbn [etag snd]. rewrite <- map_fst_indexed, map_map. reflexivity. Qed.
Lemma eMiss_tags (P : csc) n :
  map etag (eMiss P n) = map TMiss (filter (fun i => negb (has_diag P i)) (seq 0 n)).
Proof. unfold eMiss. rewrite map_map. reflexivity. Qed.

Lemma tags_nodup_triu (P A : csc) shapes : tags_nodup (entries_triu P A shapes).
Proof.
  unfold tags_nodup, entries_triu. rewrite !map_app, eP_tags, eMiss_tags, eA_tags.
  apply NoDup_app_intro; [apply NoDup_map_inj; [tag_inj | apply seq_NoDup] | |].
  2:{ intros x H1 H2. apply in_map_iff in H1. destruct H1 as [k [<- _]].
      rewrite !in_app_iff in H2. split_or.
      - apply in_map_iff in H2. destruct H2 as [? [H2 _]]. discriminate.
      - apply in_map_iff in H2. destruct H2 as [? [H2 _]]. discriminate.
      - apply eCones_tags_cone in H2. destruct H2 as [? [_ H2]]. discriminate. }
  apply NoDup_app_intro; [apply NoDup_map_inj; [tag_inj | apply NoDup_filter, seq_NoDup] | |].
  2:{ intros x H1 H2. apply in_map_iff in H1. destruct H1 as [k [<- _]].
      rewrite !in_app_iff in H2. split_or.
      - apply in_map_iff in H2. destruct H2 as [? [H2 _]]. discriminate.
      - apply eCones_tags_cone in H2. destruct H2 as [? [_ H2]]. discriminate. }
  apply NoDup_app_intro; [apply NoDup_map_inj; [tag_inj | apply seq_NoDup] | apply eCones_tags_nodup |].
  intros x H1 H2. apply in_map_iff in H1. destruct H1 as [k [<- _]].
  apply eCones_tags_cone in H2. destruct H2 as [? [_ H2]]. discriminate.
Qed.

Lemma tags_nodup_entries (P A : csc) shapes tri : tags_nodup (entries P A shapes tri).
Proof.
  destruct tri; cbn [entries]; [apply tags_nodup_triu|].
  unfold tags_nodup. rewrite map_map. cbn [etag eswap snd].
  apply (tags_nodup_triu P A shapes).
Qed.
End Top.

(** * every entry lies inside the matrix *)
Lemma in_combine_seq_inv {X} (l : list X) d : forall a j x,
  In (j, x) (combine (seq a (length l)) l) -> a <= j < a + length l /\ x = nth (j - a) l d.
Proof.
  induction l as [|y l IH]; intros a j x Hin; [contradiction|].
  cbn [length seq combine In] in Hin. destruct Hin as [Heq|Hin].
  - inversion Heq; subst. rewrite Nat.sub_diag. cbn. split; [lia | reflexivity].
  - destruct (IH _ _ _ Hin) as [H1 H2]. split; [cbn [length]; lia|].
    replace (j - a) with (S (j - S a)) by lia. exact H2.
Qed.
Lemma in_indexed_inv {X} (l : list X) d jc :
  In jc (indexed l) -> fst jc < length l /\ snd jc = nth (fst jc) l d.
Proof.
  destruct jc as [j x]. unfold indexed. intros Hin.
  destruct (in_combine_seq_inv l d 0 j x Hin) as [H1 H2]. cbn [fst snd].
  rewrite Nat.sub_0_r in H2. split; [lia | exact H2].
Qed.

Section Bounds.
Context {T : Type}.
Notation csc := (@csc T).

Lemma coords_in (M : csc) i j : In (i, j) (coords M) ->
  j < length (cols M) /\ exists x, In x (nth j (cols M) []) /\ fst x = i.
Proof.
  unfold coords. intros Hin. apply in_flat_map in Hin. destruct Hin as [jc [Hjc Hin]].
  apply in_map_iff in Hin. destruct Hin as [x [Heq Hx]]. inversion Heq; subst.
  destruct (in_indexed_inv (cols M) [] jc Hjc) as [H1 H2].
  split; [exact H1|]. exists x. split; [nrm; now rewrite <- H2 | reflexivity].
Qed.

Lemma coords_bounds (M : csc) i j : canonicalb M = true -> In (i, j) (coords M) -> i < nr M /\ j < nc M.
Proof.
  intros Hc Hin. destruct (coords_in M i j Hin) as [Hj [x [Hx Hi]]].
  apply canonical_iff in Hc. destruct Hc as [Hw Hall]. unfold Spec.WellDim in Hw.
  split; [|lia]. rewrite Forall_forall in Hall.
  assert (Hcol : In (nth j (cols M) []) (cols M)) by (apply nth_In; exact Hj).
  destruct (Hall _ Hcol) as [_ Hb]. rewrite Forall_forall in Hb. rewrite <- Hi. now apply Hb.
Qed.
End Bounds.

Definition inrng (o pcol sn sp x : nat) : Prop := (o <= x < o + sn) \/ (pcol <= x < pcol + sp).

Lemma eCone_bounds c o pcol s e : In e (eCone c o pcol s) ->
  inrng o pcol (numel s) (pdim s) (erow e) /\ inrng o pcol (numel s) (pdim s) (ecol e).
Proof.
  unfold inrng.
  destruct s as [d|d|d|d1 d2]; unfold eCone, eDiagBlk, eVec, eAuxD; rewrite ?in_app_iff; intros H; split_or;
    try (apply in_map_iff in H; destruct H as [t [<- Ht]]; apply in_seq in Ht;
         unfold erow, ecol; cbn [fst snd numel pdim]; lia).
  apply in_flat_map in H. destruct H as [t [Ht H]]. apply in_map_iff in H. destruct H as [r [<- Hr]].
  apply in_seq in Ht. apply in_seq in Hr. unfold erow, ecol; cbn [fst snd numel pdim]. lia.
Qed.

Lemma eCones_bounds shapes : forall c o pcol e, In e (eCones c o pcol shapes) ->
  inrng o pcol (sum_by numel shapes) (sum_by pdim shapes) (erow e)
  /\ inrng o pcol (sum_by numel shapes) (sum_by pdim shapes) (ecol e).
Proof.
  induction shapes as [|s shapes IH]; intros c o pcol e Hin; [contradiction|].
  cbn [eCones] in Hin. apply in_app_or in Hin.
  cbn [sum_by fold_right].
  change (fold_right (fun x a => numel x + a) 0 shapes) with (sum_by numel shapes).
  change (fold_right (fun x a => pdim x + a) 0 shapes) with (sum_by pdim shapes).
  destruct Hin as [Hin|Hin].
  - apply eCone_bounds in Hin. unfold inrng in *. lia.
  - apply IH in Hin. unfold inrng in *. lia.
Qed.

Section Bounds2.
Context {T : Type}.
Notation csc := (@csc T).

Lemma entries_triu_bounds (P A : csc) shapes : wf_input P A shapes ->
  forall e, In e (entries_triu P A shapes) ->
    erow e < kdim P A shapes /\ ecol e < kdim P A shapes.
Proof.
  intros [HP [HA [Hsq [HnA [Hup Hm]]]]] e Hin. unfold kdim.
  unfold entries_triu in Hin. rewrite !in_app_iff in Hin. split_or.
  - unfold eP in Hin. apply in_map_iff in Hin. destruct Hin as [[k [i j]] [<- Hk]].
    apply LemmasStruct.in_indexed in Hk. cbn [snd] in Hk. apply (coords_bounds P i j HP) in Hk.
    unfold erow, ecol; cbn [fst snd]. lia.
  - unfold eMiss in Hin. apply in_map_iff in Hin. destruct Hin as [i [<- Hi]].
    apply filter_In in Hi. destruct Hi as [Hi _]. apply in_seq in Hi.
    unfold erow, ecol; cbn [fst snd]. lia.
  - unfold eA in Hin. apply in_map_iff in Hin. destruct Hin as [[k [i j]] [<- Hk]].
    apply LemmasStruct.in_indexed in Hk. cbn [snd] in Hk. apply (coords_bounds A i j HA) in Hk.
    unfold erow, ecol; cbn [fst snd]. lia.
  - apply eCones_bounds in Hin. unfold inrng in Hin. rewrite Hm in Hin. lia.
Qed.

Lemma cols_lt_entries (P A : csc) shapes tri : wf_input P A shapes ->
  cols_lt (kdim P A shapes) (entries P A shapes tri).
Proof.
  intros Hwf. unfold cols_lt. apply Forall_forall. intros e Hin.
  destruct tri; cbn [entries] in Hin.
  - now apply (entries_triu_bounds P A shapes Hwf).
  - apply in_map_iff in Hin. destruct Hin as [e' [<- Hin]].
    unfold eswap, ecol; cbn [fst snd]. now apply (entries_triu_bounds P A shapes Hwf e').
Qed.
End Bounds2.

Lemma tags_nodup_ok : stmt_tags_nodup.
Proof. unfold stmt_tags_nodup. intros. apply tags_nodup_entries. Qed.
Lemma cols_lt_ok : stmt_cols_lt.
Proof. unfold stmt_cols_lt. intros. now apply cols_lt_entries. Qed.
