(** Executable correspondence checkers for C11.
    Codes: 0 = agrees; 1 = the implementation's output differs from the intended matrix / maps /
    signs / values (violation candidate); 3 = the implementation agrees with the intended
    layout (Spec) but the algorithm model (Model) does not reproduce it (the tie of the
    theorems to the code is broken: reported, never silently accepted). *)
From Coq Require Import List Arith ZArith NArith Lia Bool.
Import ListNotations.
Require Import Clarabel.Base.Ops Clarabel.Base.Dyadic Clarabel.Csc.Model Clarabel.Csc.Check.
Require Import Clarabel.Kkt.Spec Clarabel.Kkt.Model Clarabel.Kkt.Stmts.
Local Open Scope nat_scope.

(** literal helpers (the harness prints N numerals) *)
Definition SOCM (u v dd : list N) : smap := SocMap (nats u) (nats v) (nats dd).
Definition GPM (p q r dd : list N) : smap := GpMap (nats p) (nats q) (nats r) (nats dd).
Definition MP (p a hs : list N) (sp : list smap) (dp df : list N) : maps :=
  mkMaps (nats p) (nats a) (nats hs) sp (nats dp) (nats df).
Definition SH (kind a b : N) : shape :=
  match kind with
  | 0 => Diag (N.to_nat a) | 1 => Dense (N.to_nat a) | 2 => SocSparse (N.to_nat a)
  | _ => GenPow (N.to_nat a) (N.to_nat b)
  end%N.

Definition smap_eqb (a b : smap) : bool :=
  match a, b with
  | SocMap u v dd, SocMap u' v' dd' => nlist_eqb u u' && nlist_eqb v v' && nlist_eqb dd dd'
  | GpMap p q r dd, GpMap p' q' r' dd' =>
      nlist_eqb p p' && nlist_eqb q q' && nlist_eqb r r' && nlist_eqb dd dd'
  | _, _ => false
  end.
Definition maps_eqb (a b : maps) : bool :=
  nlist_eqb (mP a) (mP b) && nlist_eqb (mA a) (mA b) && nlist_eqb (mHs a) (mHs b)
  && list_eqb smap_eqb (mSp a) (mSp b)
  && nlist_eqb (mDiagP a) (mDiagP b) && nlist_eqb (mDiagFull a) (mDiagFull b).
Definition rawZ_eqb (a b : rawZ) : bool :=
  (rm a =? rm b) && (rn a =? rn b) && nlist_eqb (rcolptr a) (rcolptr b)
  && nlist_eqb (rrowval a) (rrowval b) && zlist_eqb (rnzval a) (rnzval b).

(** which part differs (diagnostics): bit k set = part k differs
    1 K.colptr/rowval/nzval, 2 map P, 4 map A, 8 Hsblocks, 16 sparse maps, 32 diagP,
    64 diag_full, 128 dsigns, 256 K not canonical *)
Definition bit (b : bool) (k : N) : N := if b then 0%N else k.
Definition diff_bits (K K' : rawZ) (mp mp' : maps) (ds ds' : list Z) : N :=
  (bit (rawZ_eqb K K') 1 + bit (nlist_eqb (mP mp) (mP mp')) 2
   + bit (nlist_eqb (mA mp) (mA mp')) 4 + bit (nlist_eqb (mHs mp) (mHs mp')) 8
   + bit (list_eqb smap_eqb (mSp mp) (mSp mp')) 16
   + bit (nlist_eqb (mDiagP mp) (mDiagP mp')) 32
   + bit (nlist_eqb (mDiagFull mp) (mDiagFull mp')) 64 + bit (zlist_eqb ds ds') 128)%N.

Definition tri_of (tril : bool) : triangle := if tril then Tril else Triu.

Definition spec_out (P A : rawZ) (shapes : list shape) (tril : bool) : rawZ * maps * list Z :=
  let Pd := decode P in let Ad := decode A in
  (encode (kkt_matrix OpsZ Pd Ad shapes (tri_of tril)), kkt_maps Pd Ad shapes (tri_of tril),
   signs_spec (rn A) (rm A) shapes).
Definition model_out (P A : rawZ) (shapes : list shape) (tril : bool) : rawZ * maps * list Z :=
  let '(K, mp) := assemble OpsZ P A shapes (tri_of tril) in
  (K, mp, fill_signs (rm A + rn A + sum_by pdim shapes) (rm A) (rn A) (mSp mp)).

(** self-check of the intended layout on this input: 512 = a hypothesis of
    [maps_partition_partial] fails (an entry outside the matrix, or two entries with one tag);
    1024 = the entry list is not exactly the block pattern [pattern] (each position once,
    whole diagonal present) *)
Definition spec_selfcheck (P A : rawZ) (shapes : list shape) (tril : bool) (Kspec : rawZ) : N :=
  let Pd := decode P in let Ad := decode A in let tri := tri_of tril in
  let dim := kdim Pd Ad shapes in
  let es := entries Pd Ad shapes tri in
  (* bits 512 / 2048 (entries inside the matrix, tags distinct, columns filled in row order) are no
     longer evaluated: they are theorems now (C11_cols_lt, C11_tags_nodup, LemmasOrder) *)
  let b1 := true in
  let cells := fold_left (fun acc j => fold_left (fun acc i => if pattern Pd Ad shapes tri i j then S acc else acc)
                                                 (seq 0 dim) acc) (seq 0 dim) 0 in
  let b2 := forallb (fun e => pattern Pd Ad shapes tri (erow e) (ecol e)) es
            && N.eqb (fmt_code (check_format Kspec)) 0   (* strictly increasing rows: no position twice *)
            && (cells =? length es) && forallb (fun j => pattern Pd Ad shapes tri j j) (seq 0 dim) in
  (* hypothesis of the Triu refinement step: every column is filled in non-decreasing row order *)
  let b3 := true in
  (bit b1 512 + bit b2 1024 + bit b3 2048)%N.

Definition d_spec (P A : rawZ) (shapes : list shape) (tril : bool)
           (K : rawZ) (mp : maps) (ds : list Z) : N :=
  let '(K', mp', ds') := spec_out P A shapes tril in
  (diff_bits K K' mp mp' ds ds' + bit (N.eqb (fmt_code (check_format K)) 0) 256
   + spec_selfcheck P A shapes tril K')%N.
Definition d_model (P A : rawZ) (shapes : list shape) (tril : bool)
           (K : rawZ) (mp : maps) (ds : list Z) : N :=
  let '(K', mp', ds') := model_out P A shapes tril in diff_bits K K' mp mp' ds ds'.

(** the structural checker: implementation vs Spec, then Model vs implementation *)
Definition c_assemble (P A : rawZ) (shapes : list shape) (tril : bool)
           (K : rawZ) (mp : maps) (ds : list Z) : N :=
  if negb (N.eqb (d_spec P A shapes tril K mp ds) 0) then 1%N
  else if negb (N.eqb (d_model P A shapes tril K mp ds) 0) then 3%N
  else 0%N.

(** Spec vs Model only (no implementation output needed) *)
Definition c_model_spec (P A : rawZ) (shapes : list shape) (tril : bool) : N :=
  let '(K, mp, ds) := spec_out P A shapes tril in
  if N.eqb (d_model P A shapes tril K mp ds) 0 then 0%N else 3%N.

(** ** Value-level checker (exact dyadic arithmetic)
    Inputs: the data (P, A) the KKT matrix was built from, the cones' shapes, the hooked KKT
    matrix of the solver (upper triangle) with its maps and signs, the cones' [get_Hs] output
    [hs], for every cone the columns [H e_j] obtained from the cones' [mul_Hs], the static
    regulariser [eps] of the last update and the LDL backend's own copy of the values with the
    entry map into it.
      V0  structure, maps and signs are the intended ones (Spec);
      V1  K[map.P] = P.nzval, K[map.A] = A.nzval, K[map.Hsblocks] = -hs, structural diagonal
          entries are 0: exactly (so in particular no regularisation is left on them);
      V2  for every cone, eliminating its auxiliary variables from K reproduces -H within
          [tol] relative to the largest entry of that H block; the auxiliary pivots are nonzero
          and have the recorded signs;
      V3  the backend's copy equals K off the diagonal exactly and K + sign*eps on the diagonal
          (to rounding of that one addition). *)
Definition tol : dy := D 1 (-40).        (* 2^-40 ~ 9.1e-13 *)
Definition ulp2 : dy := D 1 (-50).

Section ValueCheck.
Variables (kcp krv : list nat) (knz : list dy).
Definition kget (i j : nat) : dy :=
  let a := nth j kcp 0 in let b := nth (S j) kcp 0 in
  dsum (map snd (filter (fun e => fst e =? i) (combine (slice krv a b) (slice knz a b)))).
Definition ksym (i j : nat) : dy := if i <=? j then kget i j else kget j i.

Definition at_eq (idx : list nat) (vals : list dy) : bool :=
  (length idx =? length vals)
  && forallb (fun iv => (fst iv <? length knz) && deqb (nth (fst iv) knz d0) (snd iv))
             (combine idx vals).

Definition prod_except (C : list dy) (t : nat) : dy :=
  fold_left dmul (map snd (filter (fun kc => negb (fst kc =? t)) (indexed C))) d1.
Definition dsign (a : dy) : Z := Z.sgn (dm a).

Fixpoint chk_cones (ds : list Z) (o pcol : nat) (shapes : list shape) (hb : list (list (list dy)))
  : bool :=
  match shapes, hb with
  | [], [] => true
  | s :: r, H :: hr =>
      let d := numel s in let k := pdim s in
      let C := map (fun t => ksym (pcol + t) (pcol + t)) (seq 0 k) in
      let prodC := fold_left dmul C d1 in
      let hmax := dnorminf (concat H) in
      let bound := dmul (dmul tol (dabs prodC)) hmax in
      (length H =? d) && forallb (fun c => length c =? d) H
      && forallb (fun t => Z.eqb (dsign (nth t C d0)) (nth (pcol + t) ds 0%Z)
                           && negb (Z.eqb (dsign (nth t C d0)) 0)) (seq 0 k)
      && forallb (fun b => forallb (fun a =>
            let corr := dsum (map (fun t => dmul (dmul (ksym (o + a) (pcol + t)) (ksym (o + b) (pcol + t)))
                                                 (prod_except C t)) (seq 0 k)) in
            let lhs := dsub (dmul (ksym (o + a) (o + b)) prodC) corr in
            let rhs := dneg (dmul (nth a (nth b H []) d0) prodC) in
            dleb (dabs (dsub lhs rhs)) bound) (seq 0 d)) (seq 0 d)
      && chk_cones ds (o + d) (pcol + k) r hr
  | _, _ => false
  end.

Definition chk_ldl (dfull : list nat) (ds : list Z) (eps : dy) (static_reg : bool)
           (ldl : list dy) (perm : list nat) : bool :=
  (length perm =? length knz)
  && forallb (fun i => (nth i perm 0 <? length ldl)
                       && (existsb (Nat.eqb i) dfull || deqb (nth (nth i perm 0) ldl d0) (nth i knz d0)))
             (seq 0 (length knz))
  && forallb (fun jd =>
        let idx := snd jd in
        let kv := nth idx knz d0 in
        let lv := nth (nth idx perm 0) ldl d0 in
        if static_reg then
          let want := if Z.eqb (nth (fst jd) ds 0%Z) 1 then dadd kv eps else dsub kv eps in
          dleb (dabs (dsub lv want)) (dmul ulp2 (dadd (dabs kv) eps))
        else deqb lv kv) (indexed dfull).
End ValueCheck.

Definition zero_raw (m n : nat) (cp rv : list nat) : rawZ := mkRaw m n cp rv (map (fun _ => 0%Z) rv).

(** bits: 1 structure/maps/signs differ from Spec, 2 user data or -Hs not at the mapped
    positions / structural diagonal not zero, 4 Schur complement differs from the cones' H or
    auxiliary pivots have the wrong sign, 8 backend copy is not K + sign*eps, 16 eps not positive *)
Definition d_values (n m : N) (pcp prv : list N) (pnz : list dy) (acp arv : list N) (anz : list dy)
           (shapes : list shape) (kcp krv : list N) (knz : list dy) (mp : maps) (ds : list Z)
           (hs : list dy) (hb : list (list (list dy))) (eps : dy) (static_reg : bool)
           (ldl : option (list dy * list N)) : N :=
  let n' := N.to_nat n in let m' := N.to_nat m in
  let P := zero_raw n' n' (nats pcp) (nats prv) in
  let A := zero_raw m' n' (nats acp) (nats arv) in
  let '(K', mp', ds') := spec_out P A shapes false in
  let kcp' := nats kcp in let krv' := nats krv in
  let miss := miss_map (decode P) (decode A) shapes Triu in
  let b1 := nlist_eqb kcp' (rcolptr K') && nlist_eqb krv' (rrowval K') && maps_eqb mp mp'
            && zlist_eqb ds ds' && (length knz =? length krv') in
  let b2 := at_eq knz (mP mp) pnz && at_eq knz (mA mp) anz && at_eq knz (mHs mp) (map dneg hs)
            && at_eq knz miss (map (fun _ => d0) miss) in
  let b4 := chk_cones kcp' krv' knz ds (n' + 0) (n' + m') shapes hb in
  let b8 := match ldl with
            | Some (lv, perm) => chk_ldl knz (mDiagFull mp) ds eps static_reg lv (nats perm)
            | None => true
            end in
  let b16 := negb static_reg || dleb d0 eps in
  (bit b1 1 + bit b2 2 + bit b4 4 + bit b8 8 + bit b16 16)%N.

Definition c_values n m pcp prv pnz acp arv anz shapes kcp krv knz mp ds hs hb eps static_reg ldl : N :=
  if N.eqb (d_values n m pcp prv pnz acp arv anz shapes kcp krv knz mp ds hs hb eps static_reg ldl) 0
  then 0%N else 1%N.

(** right after an identity reset the cones must apply H = I (H = 0 for a zero cone), to [tol]
    (the PSD cone's scaled-vector form multiplies and divides by sqrt 2: one ulp) *)
Definition c_hident (zero_flags : list bool) (hb : list (list (list dy))) : N :=
  ofb ((length zero_flags =? length hb)
       && forallb (fun zb : bool * list (list dy) =>
            forallb (fun jc : nat * list dy => forallb (fun iv : nat * dy =>
                       dleb (dabs (dsub (snd iv) (if fst zb then d0 else if fst iv =? fst jc then d1 else d0))) tol)
                     (indexed (snd jc))) (indexed (snd zb)))
          (combine zero_flags hb)).

(** ** value updates through index sets: the real _update_values / _scale_values / update_P /
    update_A against [Model.update_values] / [Model.scale_values], exact dyadic arithmetic
    (scales are powers of two and values small dyadics, so the f64 products are exact) *)
Definition OpsD : Ops dy := {|
  zero := d0; one := d1; add := dadd; sub := dsub; mul := dmul; div := fun a _ => a;
  neg := dneg; abs := dabs; sqrt := fun a => a; ltb := dltb; leb := dleb; eqb := deqb; ofZ := dofZ |}.
Inductive mapop : Set :=
| OpU (idx : list N) (v : list dy) | OpS (idx : list N) (c : dy) | OpO (idx : list N) (c : dy) (sg : list Z).
Definition apply_mapop (perm : list nat) (kl : list dy * list dy) (op : mapop) : list dy * list dy :=
  match op with
  | OpU idx v => update_values kl perm (nats idx) v
  | OpS idx c => scale_values OpsD kl perm (nats idx) c
  | OpO idx c sg => offset_values OpsD kl perm (nats idx) c sg
  end.
Definition c_mapops (k0 l0 : list dy) (perm : list N) (ops : list mapop) (k1 l1 : list dy) : N :=
  let kl := fold_left (apply_mapop (nats perm)) ops (k0, l0) in
  ofb (list_eqb deqb (fst kl) k1 && list_eqb deqb (snd kl) l1).

(** the static regulariser of the current update is the model's formula for the current settings:
    eps = constant + proportional * max |diag(K)| (K's diagonal read through diag_full, which
    after the update is the unregularised one); compared to 2^-45 relative (one rounded
    multiplication and addition) *)
Definition c_eps (knz : list dy) (dfull : list N) (eps c p : dy) (static_reg : bool) : N :=
  if negb static_reg then 0%N else
  let diag := map (fun i => nth (N.to_nat i) knz d0) dfull in
  let model := dadd c (dmul p (dnorminf diag)) in
  ofb (dleb (dabs (dsub eps model)) (dmul (D 1 (-45)) model)).
