(** C11 — statements about the algorithm model (Kkt/Model.v).  Statements only; proofs in
    Kkt/Lemmas*.v.  (Statements about the intended layout alone are in Kkt/Spec.v.) *)
From Coq Require Import List Arith ZArith Lia Bool Reals.
Import ListNotations.
Require Import Clarabel.Base.Ops Clarabel.Csc.Model Clarabel.Csc.Spec Clarabel.Kkt.Spec Clarabel.Kkt.Model.

(** ** _fill_signs produces the intended sign pattern
    (+1)^n (-1)^m, then (-1,+1) per SOC expansion and (-1,-1,+1) per GenPow expansion, whenever
    the list of sparse maps has one map of the right kind per sparse-expandable cone, in cone
    order (which is how LDLDataMap::new builds it). *)
Definition smaps_match (sps : list smap) (shapes : list shape) : Prop :=
  map smap_pdim sps = map pdim (filter sparse_expandable shapes).
Definition stmt_signs_spec : Prop :=
  forall (n m : nat) (shapes : list shape) (sps : list smap),
    smaps_match sps shapes ->
    fill_signs (m + n + sum_by pdim shapes) m n sps = signs_spec n m shapes.
(** the maps of the intended layout satisfy the hypothesis *)
Definition stmt_spec_smaps_match : Prop :=
  forall se c shapes, smaps_match (sp_maps se c shapes) shapes.

(** ** update_restores_diag: [regularize_and_refactor] leaves KKT.nzval exactly as it was
    (so the matrix used by iterative refinement carries no static regularisation), while the
    values the backend factors are the old ones plus [sign * eps] on the diagonal and
    untouched elsewhere. *)
Definition stmt_update_restores_diag : Prop :=
  forall T (O : Ops T) (kkt ldl : list T) (perm dfull : list nat) (dsigns : list Z) (c p : T),
    Forall (fun i => i < length kkt) dfull ->
    let '(kkt', ldl', eps) := regularize_and_refactor O (kkt, ldl) perm dfull dsigns c p in
    kkt' = kkt
    /\ (forall i, ~ In i (via perm dfull) ->
                  nth i ldl' (zero O) = nth i ldl (zero O))
    /\ (NoDup (via perm dfull) -> Forall (fun i => i < length ldl) (via perm dfull) ->
        length dsigns = length dfull ->
        forall j, j < length dfull ->
          nth (nth (nth j dfull 0) perm 0) ldl' (zero O)
          = let d := nth (nth j dfull 0) kkt (zero O) in
            if Z.eqb (nth j dsigns 0%Z) 1 then add O d eps else sub O d eps).

(** ** The fill machinery, generically: a *script* is the list of tagged entries in the order
    the code performs its [put]s.  [script_counts] is what the count pass must leave in
    K.colptr; [script_init] is the state after [colcount_to_colptr]; [run_script] performs the
    puts.  [stmt_fill_script]: whatever the script, the result is the CSC matrix whose column j
    is the sub-list of the script with column j (in script order), colptr = prefix sums (after
    [backshift_colptrs]), and the slot returned for an entry is the position of its tag. *)
Definition bucket (es : list ent) (j : nat) : list ent := filter (fun e => ecol e =? j) es.
Definition buckets (N : nat) (es : list ent) : list (list ent) := map (bucket es) (seq 0 N).
Definition script_counts (N : nat) (es : list ent) : list nat :=
  map (fun j => length (bucket es j)) (seq 0 N) ++ [0].
Fixpoint psums (acc : nat) (l : list nat) : list nat :=
  match l with [] => [acc] | c :: r => acc :: psums (acc + c) r end.

Section Script.
Context {T : Type} (O : Ops T) (val : tag -> T).
Fixpoint run_script (s : @st T) (es : list ent) : @st T * list nat :=
  match es with
  | [] => (s, [])
  | e :: r =>
      let '(s1, d) := put s (ecol e) (erow e) (val (etag e)) in
      let '(s2, ds) := run_script s1 r in (s2, d :: ds)
  end.
Definition script_init (N : nat) (es : list ent) : @st T :=
  mkSt (colcount_to_colptr 0 (script_counts N es)) (repeat 0 (length es)) (repeat (zero O) (length es)).
End Script.

Definition stmt_fill_script : Prop :=
  forall T (O : Ops T) (val : tag -> T) (N : nat) (es : list ent),
    cols_lt N es -> tags_nodup es ->
    let se := concat (buckets N es) in
    let '(s, ds) := run_script val (script_init O N es) es in
    backshift_colptrs (cp s) = psums 0 (map (@length ent) (buckets N es))
    /\ rv s = map erow se
    /\ nz s = map (fun e => val (etag e)) se
    /\ ds = map (fun e => pos se (etag e)) es.


(** ** Refinement, Triu layout: the Spec's entry list [entries_triu] is already in the order
    in which [assemble] performs its puts (P block, missing diagonal, A', then per cone the Hs
    block and the expansion columns).  Running it as a script reproduces the intended matrix
    and every tag position, provided each column is filled in non-decreasing row order. *)
Fixpoint rows_sorted (l : list ent) : Prop :=
  match l with
  | a :: ((b :: _) as r) => erow a <= erow b /\ rows_sorted r
  | _ => True
  end.
Definition buckets_sorted (N : nat) (es : list ent) : Prop :=
  forall j, j < N -> rows_sorted (bucket es j).

Definition stmt_maps_partition : Prop :=
  forall T (P A : @csc T) (shapes : list shape) (tri : triangle), wf_input P A shapes ->
    let es := entries P A shapes tri in
    let se := sorted_entries (kdim P A shapes) es in
    length se = length es
    /\ (forall t, In t (map etag es) -> pos se t < length se /\ etag (nth (pos se t) se (0, 0, TP 0)) = t)
    /\ (forall t t', In t (map etag es) -> In t' (map etag es) -> pos se t = pos se t' -> t = t')
    /\ (forall q, q < length se -> exists t, In t (map etag es) /\ pos se t = q).

Definition stmt_triu_script_refines_spec : Prop :=
  forall T (O : Ops T) (P A : @csc T) (shapes : list shape), wf_input P A shapes ->
    let es := entries_triu P A shapes in
    let N := kdim P A shapes in
    buckets_sorted N es ->
    let '(s, ds) := run_script (tag_val O P A) (script_init O N es) es in
    mkRaw N N (backshift_colptrs (cp s)) (rv s) (nz s) = encode (kkt_matrix O P A shapes Triu)
    /\ ds = map (fun e => pos (sorted_entries N es) (etag e)) es.


(** ** The cone loop of [_kkt_assemble_fill] (Triu) is a script run: for every shape list (Diag,
    Dense, SocSparse, GenPow) the loop performs exactly the puts of the Spec's [eCones], and the
    Hsblocks / sparse maps it records are the returned slots, regrouped cone by cone. *)
Definition take {X} (n : nat) (l : list X) : list X * list X := (firstn n l, skipn n l).
(** regroup the slots returned by the puts of one cone into its Hs block and sparse map;
    returns also the slots that belong to later cones *)
Definition regroup1 (s : shape) (ds : list nat) : list nat * list smap * list nat :=
  let '(blk, r0) := take (blocklen s) ds in
  match s with
  | SocSparse d =>
      let '(v, r1) := take d r0 in let '(u, r2) := take d r1 in let '(dd, r3) := take 2 r2 in
      (blk, [SocMap u v dd], r3)
  | GenPow d1 d2 =>
      let '(q, r1) := take d1 r0 in let '(r, r2) := take d2 r1 in
      let '(p, r3) := take (d1 + d2) r2 in let '(dd, r4) := take 3 r3 in
      (blk, [GpMap p q r dd], r4)
  | _ => (blk, [], r0)
  end.
Fixpoint regroup (shapes : list shape) (ds : list nat) : list nat * list smap :=
  match shapes with
  | [] => ([], [])
  | s :: r =>
      let '(blk, sm, rest) := regroup1 s ds in
      let '(blks, sms) := regroup r rest in
      (blk ++ blks, sm ++ sms)
  end.
Definition stmt_cones_fill_script : Prop :=
  forall T (O : Ops T) (val : tag -> T) (s : @st T) (shapes : list shape) (c row pcol : nat),
    (forall e, In e (eCones c row pcol shapes) -> val (etag e) = zero O) ->
    let '(s1, hs, sps) := cones_fill O s shapes row pcol Triu in
    let '(s2, ds) := run_script val s (eCones c row pcol shapes) in
    s1 = s2 /\ (hs, sps) = regroup shapes ds.


(** boolean form of [buckets_sorted], evaluated by the correspondence on every Triu layout *)
Fixpoint rows_sortedb (l : list ent) : bool :=
  match l with
  | a :: ((b :: _) as r) => (erow a <=? erow b) && rows_sortedb r
  | _ => true
  end.
Definition buckets_sortedb (N : nat) (es : list ent) : bool :=
  forallb (fun j => rows_sortedb (bucket es j)) (seq 0 N).
Definition stmt_buckets_sortedb_sound : Prop :=
  forall N es, buckets_sortedb N es = true -> buckets_sorted N es.

(** ** count pass, cone loop (Triu): it adds exactly one count per Spec entry of [eCones], in that
    entry's column (all four shapes) *)
(** one count per entry, in its column: what a count pass must do for a list of entries *)
Definition add_counts (cp : list nat) (es : list ent) : list nat :=
  fold_left (fun cp e => incr cp (ecol e) 1) es cp.
Definition stmt_cones_colcounts : Prop :=
  forall (shapes : list shape) (cp : list nat) (c row pcol : nat),
    cones_colcounts cp shapes row pcol Triu = add_counts cp (eCones c row pcol shapes).


(** ** assemble_refines_spec, Triu: the model of [assemble_kkt_matrix] run on the raw encodings of
    P and A returns exactly the intended matrix and the intended maps P, A, Hsblocks and sparse
    expansion maps.  Hypothesis besides [wf_input]: every column of the Spec's Triu entry list is
    in non-decreasing row order ([buckets_sorted]; evaluated as a boolean on every generated
    layout).  The diag_full / diagP extraction is not part of this statement. *)
Definition stmt_assemble_refines_spec_triu_partial : Prop :=
  forall T (O : Ops T) (P A : @csc T) (shapes : list shape), wf_input P A shapes ->
    buckets_sorted (kdim P A shapes) (entries_triu P A shapes) ->
    let '(K, mp) := assemble O (encode P) (encode A) shapes Triu in
    let sp := kkt_maps P A shapes Triu in
    K = encode (kkt_matrix O P A shapes Triu)
    /\ mP mp = mP sp /\ mA mp = mA sp /\ mHs mp = mHs sp /\ mSp mp = mSp sp.


(** ** assemble_refines_spec, Triu, from the well-formedness of the inputs alone: the model of
    [assemble_kkt_matrix] run on the raw encodings of a canonical upper-triangular P (any diagonal
    pattern), a canonical A and a shape list summing to m returns exactly the intended matrix and
    ALL intended maps (P, A, Hsblocks, sparse expansion maps, diagP, diag_full). *)
Definition stmt_assemble_refines_spec_triu : Prop :=
  forall T (O : Ops T) (P A : @csc T) (shapes : list shape), wf_input P A shapes ->
    assemble O (encode P) (encode A) shapes Triu
    = (encode (kkt_matrix O P A shapes Triu), kkt_maps P A shapes Triu).

(** every position of the intended matrix is stored at most once (with [diag_complete]: every
    diagonal position exactly once) *)
Definition stmt_positions_unique : Prop :=
  forall T (P A : @csc T) (shapes : list shape) (tri : triangle), wf_input P A shapes ->
    forall e e', In e (entries P A shapes tri) -> In e' (entries P A shapes tri) ->
      erow e = erow e' -> ecol e = ecol e' -> e = e'.

(** the diagonal maps of the Triu layout point at the diagonal entries, each of which is the last
    stored entry of its column (so colptr[j+1] - 1 is its slot) *)
Definition stmt_diag_maps_triu : Prop :=
  forall T (O : Ops T) (P A : @csc T) (shapes : list shape), wf_input P A shapes ->
    let N := kdim P A shapes in
    let se := sorted_entries N (entries P A shapes Triu) in
    let mp := kkt_maps P A shapes Triu in
    length (mDiagFull mp) = N /\ mDiagP mp = firstn (nc P) (mDiagFull mp) /\
    forall j, j < N ->
      let q := nth j (mDiagFull mp) 0 in
      q < length se
      /\ erow (nth q se (0, 0, TP 0)) = j /\ ecol (nth q se (0, 0, TP 0)) = j
      /\ S q = nth (S j) (rcolptr (encode (kkt_matrix O P A shapes Triu))) 0.

(** ** assemble_refines_spec, Tril (the model's other code path: missing diagonal first, P
    transposed, A as is, dense blocks row by row, expansion vectors as rows), and both triangles *)
Definition stmt_assemble_refines_spec_tril : Prop :=
  forall T (O : Ops T) (P A : @csc T) (shapes : list shape), wf_input P A shapes ->
    assemble O (encode P) (encode A) shapes Tril
    = (encode (kkt_matrix O P A shapes Tril), kkt_maps P A shapes Tril).


(** THE C11 refinement theorem: for both triangles *)
Definition stmt_assemble_refines_spec : Prop :=
  forall T (O : Ops T) (P A : @csc T) (shapes : list shape) (tri : triangle), wf_input P A shapes ->
    assemble O (encode P) (encode A) shapes tri
    = (encode (kkt_matrix O P A shapes tri), kkt_maps P A shapes tri).

(** ** kkt_spec_dense: the dense meaning of the intended matrix *)
(** the intended matrix with arbitrary values on the tags (values after a scaling update) *)
Definition kkt_matrix_v {T} (val : tag -> T) (P A : @csc T) (shapes : list shape) (tri : triangle) : @csc T :=
  let N := kdim P A shapes in
  mkCsc N N (map (map (fun e => (erow e, val (etag e)))) (kcols N (entries P A shapes tri))).

(** dense meaning of the intended matrix: the entry stored at a position is the value of its
    tag; positions without a stored entry read 0 *)
Definition stmt_kkt_get_entry : Prop :=
  forall T (O : Ops T) (val : tag -> T) (P A : @csc T) (shapes : list shape) (tri : triangle),
    Laws O -> wf_input P A shapes ->
    forall e, In e (entries P A shapes tri) ->
      get O (kkt_matrix_v val P A shapes tri) (erow e) (ecol e) = val (etag e).
Definition stmt_kkt_get_none : Prop :=
  forall T (O : Ops T) (val : tag -> T) (P A : @csc T) (shapes : list shape) (tri : triangle),
    Laws O -> wf_input P A shapes ->
    forall i j, (forall e, In e (entries P A shapes tri) -> ~ (erow e = i /\ ecol e = j)) ->
      get O (kkt_matrix_v val P A shapes tri) i j = zero O.


(** kkt_spec_dense: the assembled (Triu) matrix means the upper triangle of [P A'; A 0]; every other
    stored position (structural diagonal, Hs blocks, expansion rows/columns) reads 0 *)
Definition stmt_kkt_spec_dense : Prop :=
  forall T (O : Ops T) (P A : @csc T) (shapes : list shape), Laws O -> wf_input P A shapes ->
    forall i j,
      get O (kkt_matrix O P A shapes Triu) i j
      = if i <=? j then
          if j <? nc P then get O P i j
          else if (i <? nc P) && (j <? nc P + nr A) then get O A (j - nc P) i
          else zero O
        else zero O.
(** the lower-triangular layout is its transpose *)
Definition stmt_kkt_spec_dense_tril : Prop :=
  forall T (O : Ops T) (val : tag -> T) (P A : @csc T) (shapes : list shape), Laws O -> wf_input P A shapes ->
    forall i j, get O (kkt_matrix_v val P A shapes Tril) i j = get O (kkt_matrix_v val P A shapes Triu) j i.


(** ** value updates through the maps *)
(** frame: [write_vals] / [scale_vals] touch exactly the listed positions *)
Definition stmt_update_values_frame : Prop :=
  forall T (a : list T) (index : list nat) (values : list T) (d : T),
    length (write_vals a index values) = length a
    /\ (forall i, ~ In i (firstn (length values) index) -> nth i (write_vals a index values) d = nth i a d)
    /\ (NoDup index -> Forall (fun i => i < length a) index -> length values = length index ->
        forall j, j < length index -> nth (nth j index 0) (write_vals a index values) d = nth j values d).
Definition stmt_scale_values_frame : Prop :=
  forall T (O : Ops T) (a : list T) (index : list nat) (c : T),
    length (scale_vals O a index c) = length a
    /\ (forall i, ~ In i index -> nth i (scale_vals O a index c) (zero O) = nth i a (zero O))
    /\ (NoDup index -> forall i, In i index -> i < length a ->
        nth i (scale_vals O a index c) (zero O) = mul O (nth i a (zero O)) c).

(** same sparsity pattern (sizes and stored rows per column) *)
Definition same_pattern {T} (M M' : @csc T) : Prop :=
  nr M = nr M' /\ nc M = nc M' /\ map (map fst) (cols M) = map (map fst) (cols M').

(** re-assembling with new data of the same pattern = updating the values of the old assembly
    through the maps P and A (what update_P / update_A do); structure and maps do not change *)
Definition stmt_update_data_through_maps : Prop :=
  forall T (O : Ops T) (P A P' A' : @csc T) (shapes : list shape) (tri : triangle),
    wf_input P A shapes -> same_pattern P P' -> same_pattern A A' ->
    let K := encode (kkt_matrix O P A shapes tri) in
    let K' := encode (kkt_matrix O P' A' shapes tri) in
    let mp := kkt_maps P A shapes tri in
    kkt_maps P' A' shapes tri = mp
    /\ rcolptr K' = rcolptr K /\ rrowval K' = rrowval K
    /\ rnzval K' = write_vals (write_vals (rnzval K) (mP mp) (vals P')) (mA mp) (vals A').


(** ** the sign vector recorded at assembly: for well-formed inputs and both triangles, the
    _fill_signs of the maps returned by [assemble] is (+1)^n (-1)^m followed by (-1,+1) per SOC
    expansion and (-1,-1,+1) per generalised-power expansion, in cone order *)
Definition stmt_dsigns_of_assemble : Prop :=
  forall T (O : Ops T) (P A : @csc T) (shapes : list shape) (tri : triangle), wf_input P A shapes ->
    fill_signs (nr A + nc P + sum_by pdim shapes) (nr A) (nc P)
               (mSp (snd (assemble O (encode P) (encode A) shapes tri)))
    = signs_spec (nc P) (nr A) shapes.

(** ** the Schur complement of the sparse SOC expansion, read off the dense meaning of the
    intended matrix *)
(** symmetric read of an upper-triangular stored matrix *)
Definition sym_get (K : @csc R) (i j : nat) : R :=
  if i <=? j then get OpsR K i j else get OpsR K j i.

(** the chain closed for the sparse second-order cone: in the intended (Triu) matrix carrying the
    values that [update] writes for a cone SocSparse d sitting after [pre] and before [post], the
    cone's block is diagonal, its auxiliary 2x2 block is diagonal, and eliminating the two
    auxiliary variables gives -eta^2 (2ww' - J) *)
Definition stmt_soc_schur_dense : Prop :=
  forall (P A : @csc R) (pre post : list shape) (d : nat) (val : tag -> R) (eta w1sq : R) (w : nat -> R),
    let shapes := pre ++ SocSparse d :: post in
    let c := length pre in
    let o := nc P + sum_by numel pre in
    let pcol := nc P + nr A + sum_by pdim pre in
    wf_input P A shapes ->
    eta <> 0%R -> (0 <= w1sq)%R -> w 0 = R_sqrt.sqrt (1 + w1sq) ->
    (forall t, t < d -> val (THs c t) = soc_blockA eta w w1sq t t) ->
    (forall t, t < d -> val (TV c t) = soc_blockB eta w w1sq t 0) ->
    (forall t, t < d -> val (TU c t) = soc_blockB eta w w1sq t 1) ->
    val (TD c 0) = (- (eta * eta))%R -> val (TD c 1) = (eta * eta)%R ->
    let K := kkt_matrix_v val P A shapes Triu in
    sym_get K pcol (pcol + 1) = 0%R
    /\ forall a b, a < d -> b < d ->
         schur_elim (fun x y => sym_get K (o + x) (o + y)) (fun x k => sym_get K (o + x) (pcol + k))
                    [sym_get K pcol pcol; sym_get K (pcol + 1) (pcol + 1)] a b
         = (- (eta * eta * (2 * w a * w b
                            - (if Nat.eqb a b then match a with 0 => 1 | _ => -1 end else 0))))%R.


(** the chain closed for the generalised power cone: in the intended (Triu) matrix carrying the
    values that [update] writes for a cone GenPow d1 d2 (q on its first d1 rows, r on its last d2),
    the cone block is diagonal, the auxiliary 3x3 block is diagonal, and eliminating the three
    auxiliary variables gives -mu (D + pp' - qq' - rr') *)
Definition stmt_genpow_schur_dense : Prop :=
  forall (P A : @csc R) (pre post : list shape) (d1 d2 : nat) (val : tag -> R) (mu : R)
         (dg p qe re : nat -> R),
    let shapes := pre ++ GenPow d1 d2 :: post in
    let c := length pre in
    let o := nc P + sum_by numel pre in
    let pcol := nc P + nr A + sum_by pdim pre in
    wf_input P A shapes -> (0 <= mu)%R ->
    (forall t, d1 <= t -> qe t = 0%R) -> (forall t, t < d1 -> re t = 0%R) ->
    (forall t, t < d1 + d2 -> val (THs c t) = gp_blockA mu dg t t) ->
    (forall t, t < d1 -> val (TGq c t) = gp_blockB mu p qe re t 0) ->
    (forall t, t < d2 -> val (TGr c t) = gp_blockB mu p qe re (d1 + t) 1) ->
    (forall t, t < d1 + d2 -> val (TGp c t) = gp_blockB mu p qe re t 2) ->
    val (TD c 0) = (-1)%R -> val (TD c 1) = (-1)%R -> val (TD c 2) = 1%R ->
    let K := kkt_matrix_v val P A shapes Triu in
    sym_get K pcol (pcol + 1) = 0%R /\ sym_get K pcol (pcol + 2) = 0%R /\ sym_get K (pcol + 1) (pcol + 2) = 0%R
    /\ forall a b, a < d1 + d2 -> b < d1 + d2 ->
         schur_elim (fun x y => sym_get K (o + x) (o + y)) (fun x k => sym_get K (o + x) (pcol + k))
                    [sym_get K pcol pcol; sym_get K (pcol + 1) (pcol + 1); sym_get K (pcol + 2) (pcol + 2)] a b
         = (- (mu * ((if Nat.eqb a b then dg a else 0) + p a * p b - qe a * qe b - re a * re b)))%R.


(** ** quasi-definiteness in the recorded sign pattern *)
Local Open Scope R_scope.
(** finite sums and quadratic forms over index ranges *)
Definition rsum (f : nat -> R) (n : nat) : R := fold_right Rplus 0 (map f (seq 0 n)).
Definition qform (M : nat -> nat -> R) (x : nat -> R) (N : nat) : R :=
  rsum (fun i => rsum (fun j => x i * M i j * x j) N) N.


(** quasi-definiteness, block form, for layouts without sparse expansions.
    [K] is the intended (Triu) matrix with the data values of P, A on their tags and arbitrary
    values on the cone tags; [Kreg = sym K + eps * diag(dsigns)] is what gets factored.
    If P is positive semidefinite and minus the (2,2) block is positive semidefinite (H >= 0), then
    Kreg is positive definite on the coordinates with recorded sign +1 and negative definite on
    those with recorded sign -1.  (By Vanderbei, Symmetric quasidefinite matrices, SIAM J. Optim.
    1995, every symmetric permutation of such a matrix has an LDL' factorisation with D of
    exactly these signs — that last step is cited, not proved here.) *)
Definition sym_of (M : nat -> nat -> R) (i j : nat) : R := if (i <=? j)%nat then M i j else M j i.
Definition kreg (K : @csc R) (signs : list Z) (eps : R) (i j : nat) : R :=
  sym_get K i j + (if Nat.eqb i j then eps * IZR (nth i signs 0%Z) else 0).
Definition stmt_quasidef_blocks : Prop :=
  forall (P A : @csc R) (shapes : list shape) (val : tag -> R) (eps : R),
    wf_input P A shapes -> Forall (fun s => pdim s = 0%nat) shapes -> 0 < eps ->
    (forall k, val (TP k) = nth k (vals P) 0) -> (forall i, val (TMiss i) = 0) ->
    let n := nc P in let m := nr A in
    let K := kkt_matrix_v val P A shapes Triu in
    let Kr := kreg K (signs_spec n m shapes) eps in
    (* P >= 0 *)
    (forall x, 0 <= qform (sym_of (get OpsR P)) x n) ->
    (* minus the (2,2) block >= 0 *)
    (forall z, 0 <= qform (fun a b => - sym_get K (n + a) (n + b)) z m) ->
    (forall x, (forall i, (n <= i)%nat -> x i = 0) -> (exists i, (i < n)%nat /\ x i <> 0) ->
               0 < qform Kr x (n + m))
    /\ (forall z, (forall i, (i < n \/ n + m <= i)%nat -> z i = 0) -> (exists i, (n <= i < n + m)%nat /\ z i <> 0) ->
                  qform Kr z (n + m) < 0).


(** the sign pattern (-,...,-,-,+) of a sparse SOC block: with the values [update] writes
    (D, v, u from the normalised scaling point w) and static regularisation eps >= 0, the principal
    block on the cone rows and the first auxiliary variable is bounded above by -eps * I (negative
    definite for eps > 0, negative semidefinite otherwise), and the pivot of the second auxiliary
    variable, eta^2 + eps, is positive. [z] are the cone-row coordinates, [t] the first auxiliary. *)
Definition stmt_soc_expansion_signs : Prop :=
  forall (eta eps w1sq : R) (w z : nat -> R) (d' : nat) (t : R),
    0 <= eps -> w1sq = rsum (fun a => w (S a) * w (S a)) d' -> w 0%nat = R_sqrt.sqrt (1 + w1sq) ->
    let d := S d' in
    rsum (fun a => (soc_blockA eta w w1sq a a - eps) * (z a * z a)) d
    + 2 * t * rsum (fun a => soc_blockB eta w w1sq a 0 * z a) d
    + (- (eta * eta) - eps) * (t * t)
    <= - eps * (rsum (fun a => z a * z a) d + t * t)
    /\ (eta <> 0 \/ 0 < eps -> 0 < eta * eta + eps).

Local Close Scope R_scope.
