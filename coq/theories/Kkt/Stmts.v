(** C11 — statements about the algorithm model (Kkt/Model.v).  Statements only; proofs in
    Kkt/Lemmas*.v.  (Statements about the intended layout alone are in Kkt/Spec.v.) *)
From Coq Require Import List Arith ZArith Lia Bool.
Import ListNotations.
Require Import Clarabel.Base.Ops Clarabel.Csc.Model Clarabel.Kkt.Spec Clarabel.Kkt.Model.

(** ** _fill_signs produces the intended sign pattern
    (+1)^n (-1)^m, then (-1,+1) per SOC expansion and (-1,-1,+1) per GenPow expansion, whenever
    the list of sparse maps has one map of the right kind per sparse-expandable cone, in cone
    order (which is how LDLDataMap::new builds it). *)
Definition smaps_match (sps : list smap) (shapes : list shape) : Prop :=
  map smap_pdim sps = map pdim (filter sparse_expandable shapes).
Definition stmt_signs_spec : Prop :=
  forall (n m : nat) (shapes : list shape) (sps : list smap),
    smaps_match sps shapes ->
    fill_signs (m + n + sum_by pdim shapes) m n sps = signs_spec n m shapes.
(** the maps of the intended layout satisfy the hypothesis *)
Definition stmt_spec_smaps_match : Prop :=
  forall se c shapes, smaps_match (sp_maps se c shapes) shapes.

(** ** update_restores_diag: [regularize_and_refactor] leaves KKT.nzval exactly as it was
    (so the matrix used by iterative refinement carries no static regularisation), while the
    values the backend factors are the old ones plus [sign * eps] on the diagonal and
    untouched elsewhere. *)
Definition stmt_update_restores_diag : Prop :=
  forall T (O : Ops T) (kkt ldl : list T) (perm dfull : list nat) (dsigns : list Z) (c p : T),
    Forall (fun i => i < length kkt) dfull ->
    let '(kkt', ldl', eps) := regularize_and_refactor O (kkt, ldl) perm dfull dsigns c p in
    kkt' = kkt
    /\ (forall i, ~ In i (via perm dfull) ->
                  nth i ldl' (zero O) = nth i ldl (zero O))
    /\ (NoDup (via perm dfull) -> Forall (fun i => i < length ldl) (via perm dfull) ->
        length dsigns = length dfull ->
        forall j, j < length dfull ->
          nth (nth (nth j dfull 0) perm 0) ldl' (zero O)
          = let d := nth (nth j dfull 0) kkt (zero O) in
            if Z.eqb (nth j dsigns 0%Z) 1 then add O d eps else sub O d eps).
