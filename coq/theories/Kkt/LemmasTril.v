(** C11 — the Tril layout: the model's Tril code path is the script run over the swapped
    entries in the order (missing diagonal, P', A, cones); that order is row-ordered, so each
    column is filled in increasing row order; sorting the Spec's Tril columns gives the same
    lists; diagonal entries are first in their columns. *)
From Coq Require Import List Arith ZArith Lia Bool Permutation Sorted.
Import ListNotations.
Require Import Clarabel.Base.Ops Clarabel.Csc.Model Clarabel.Csc.LemmasStruct.
Require Import Clarabel.Kkt.Spec Clarabel.Kkt.Model Clarabel.Kkt.Stmts Clarabel.Kkt.LemmasSpec Clarabel.Kkt.LemmasVals.
Require Import Clarabel.Kkt.LemmasDiag Clarabel.Kkt.LemmasWf Clarabel.Kkt.LemmasFill Clarabel.Kkt.LemmasRefine Clarabel.Kkt.LemmasCone Clarabel.Kkt.LemmasCount Clarabel.Kkt.LemmasRaw Clarabel.Kkt.LemmasOrder Clarabel.Kkt.LemmasDiagPos Clarabel.Kkt.LemmasAssemble.

(** * Tril: the cone loop is the script run over the swapped cone entries *)
Section TrilCone.
Context {T : Type} (O : Ops T).
Notation zval := (fun _ : tag => zero O).

Lemma eswap_diagblk c o d : map eswap (eDiagBlk c o d) = eDiagBlk c o d.
Proof. unfold eDiagBlk. rewrite map_map. reflexivity. Qed.
Lemma eswap_auxd c p k : map eswap (eAuxD c p k) = eAuxD c p k.
Proof. unfold eAuxD. rewrite map_map. reflexivity. Qed.
Lemma len_map_eswap (l : list ent) : length (map eswap l) = length l.
Proof. apply map_length. Qed.

Lemma fill_dense_tril_script s c o pcol d :
  fill_dense_triangle O s o d Tril = run_script zval s (map eswap (eCone c o pcol (Dense d))).
Proof.
  unfold fill_dense_triangle, eCone. rewrite <- puts_run. f_equal.
  rewrite !map_flat_map'. apply flat_map_ext. intros t. now rewrite !map_map.
Qed.

Ltac run_as s1 ds E HL :=
  match goal with
  | |- context [run_script zval ?s ?es] =>
      destruct (run_script zval s es) as [s1 ds] eqn:E;
      pose proof (run_script_length zval es s) as HL; rewrite E in HL; cbn [snd] in HL;
      cbv beta iota; rewrite ?run_script_app
  end.

Lemma cone_one_tril s0 c row pcol s tail :
  let '(s1, blk) := if hs_is_diagonal s then fill_diag O s0 row (numel s)
                    else fill_dense_triangle O s0 row (numel s) Tril in
  let '(s2, sm) := if sparse_expandable s then fill_sparsecone O s1 s row pcol Tril else (s1, []) in
  fst (run_script zval s0 (map eswap (eCone c row pcol s))) = s2 /\
  regroup1 s (snd (run_script zval s0 (map eswap (eCone c row pcol s))) ++ tail) = (blk, sm, tail).
Proof.
  destruct s as [d|d|d|d1 d2]; cbn [hs_is_diagonal sparse_expandable numel].
  - unfold eCone. rewrite eswap_diagblk. rewrite (fill_diag_script O s0 c row d).
    run_as s1 blk E HL. rewrite len_eDiagBlk in HL. cbn [fst snd].
    split; [reflexivity|]. unfold regroup1. cbn [blocklen numel]. now rewrite take_app.
  - rewrite (fill_dense_tril_script s0 c row pcol d).
    run_as s1 blk E HL. rewrite len_map_eswap, len_dense in HL. cbn [fst snd].
    split; [reflexivity|]. unfold regroup1. cbn [blocklen]. now rewrite take_app.
  - unfold eCone. rewrite !map_app, eswap_diagblk, eswap_auxd, !run_script_app.
    rewrite (fill_diag_script O s0 c row d). run_as s1 blk E1 HL1. rewrite len_eDiagBlk in HL1.
    unfold fill_sparsecone.
    rewrite (fill_rowvec_script O s1 (TV c) row pcol d). run_as s2 v E2 HL2. rewrite len_map_eswap, len_eVec in HL2.
    rewrite (fill_rowvec_script O s2 (TU c) row (pcol + 1) d). run_as s3 u E3 HL3. rewrite len_map_eswap, len_eVec in HL3.
    rewrite (fill_auxdiag_script O s3 c pcol 2). run_as s4 dd E4 HL4. rewrite len_eAuxD in HL4.
    cbn [fst snd]. split; [reflexivity|].
    unfold regroup1. cbn [blocklen numel]. rewrite <- !app_assoc.
    rewrite (take_app blk) by exact HL1. rewrite (take_app v) by exact HL2.
    rewrite (take_app u) by exact HL3. rewrite (take_app dd) by exact HL4. reflexivity.
  - unfold eCone. rewrite !map_app, eswap_diagblk, eswap_auxd, !run_script_app.
    rewrite (fill_diag_script O s0 c row (d1 + d2)). run_as s1 blk E1 HL1. rewrite len_eDiagBlk in HL1.
    unfold fill_sparsecone.
    rewrite (fill_rowvec_script O s1 (TGq c) row pcol d1). run_as s2 q E2 HL2. rewrite len_map_eswap, len_eVec in HL2.
    rewrite (fill_rowvec_script O s2 (TGr c) (row + d1) (pcol + 1) d2). run_as s3 r E3 HL3. rewrite len_map_eswap, len_eVec in HL3.
    rewrite (fill_rowvec_script O s3 (TGp c) row (pcol + 2) (d1 + d2)). run_as s4 p E4 HL4. rewrite len_map_eswap, len_eVec in HL4.
    rewrite (fill_auxdiag_script O s4 c pcol 3). run_as s5 dd E5 HL5. rewrite len_eAuxD in HL5.
    cbn [fst snd]. split; [reflexivity|].
    unfold regroup1. cbn [blocklen numel]. rewrite <- !app_assoc.
    rewrite (take_app blk) by exact HL1. rewrite (take_app q) by exact HL2.
    rewrite (take_app r) by exact HL3. rewrite (take_app p) by exact HL4.
    rewrite (take_app dd) by exact HL5. reflexivity.
Qed.

Lemma cones_fill_tril shapes : forall s c row pcol,
  let '(s1, hs, sps) := cones_fill O s shapes row pcol Tril in
  let '(s2, ds) := run_script zval s (map eswap (eCones c row pcol shapes)) in
  s1 = s2 /\ (hs, sps) = regroup shapes ds.
Proof.
  induction shapes as [|sh shapes IH]; intros s c row pcol.
  - cbn. split; reflexivity.
  - cbn [cones_fill eCones regroup]. rewrite map_app, run_script_app.
    pose proof (cone_one_tril s c row pcol sh) as H1.
    destruct (if hs_is_diagonal sh then fill_diag O s row (numel sh)
              else fill_dense_triangle O s row (numel sh) Tril) as [s1 blk].
    destruct (if sparse_expandable sh then fill_sparsecone O s1 sh row pcol Tril else (s1, [])) as [s2 sm].
    destruct (run_script zval s (map eswap (eCone c row pcol sh))) as [s2' d1]. cbn [fst snd] in H1.
    specialize (IH s2 (S c) (row + numel sh) (pcol + pdim sh)).
    destruct (cones_fill O s2 shapes (row + numel sh) (pcol + pdim sh) Tril) as [[s3 blks] sms].
    destruct (H1 []) as [Hs _]. subst s2'.
    destruct (run_script zval s2 (map eswap (eCones (S c) (row + numel sh) (pcol + pdim sh) shapes))) as [s3' d2].
    destruct IH as [-> Hr]. split; [reflexivity|].
    destruct (H1 d2) as [_ Hg]. rewrite Hg. rewrite <- Hr. reflexivity.
Qed.
End TrilCone.

(** * Tril: count pass of the cone loop *)
Lemma cc_rowvec cp mk n row col :
  colcount_rowvec cp n col row = add_counts cp (map eswap (eVec mk row col n)).
Proof. unfold colcount_rowvec, add_counts, eVec. rewrite !fold_left_map. reflexivity. Qed.

Lemma incr_length cp i a : length (incr cp i a) = length cp.
Proof. unfold incr. apply length_set_nth. Qed.
Lemma nth_incr cp i a j : j < length cp -> nth j (incr cp i a) 0 = nth j cp 0 + (if j =? i then a else 0).
Proof.
  intros Hj. unfold incr. destruct (Nat.lt_ge_cases i (length cp)) as [Hi|Hi].
  - rewrite nth_set_nth by exact Hi. destruct (j =? i) eqn:E; [apply Nat.eqb_eq in E; subst; lia | lia].
  - rewrite set_nth_overflow by exact Hi. replace (j =? i) with false by (symmetry; apply Nat.eqb_neq; lia). lia.
Qed.
Lemma fold_incr_length (a : nat -> nat) o n : forall cp,
  length (fold_left (fun cp t => incr cp (o + t) (a t)) (seq 0 n) cp) = length cp.
Proof.
  induction n as [|n IH]; intros cp; [reflexivity|].
  rewrite seq_S, fold_left_app. cbn [fold_left plus]. now rewrite incr_length, IH.
Qed.
(** a fold of increments at the distinct indices o, o+1, ..., o+n-1 *)
Lemma nth_fold_incr (a : nat -> nat) o n : forall cp j, j < length cp ->
  nth j (fold_left (fun cp t => incr cp (o + t) (a t)) (seq 0 n) cp) 0
  = nth j cp 0 + (if (o <=? j) && (j <? o + n) then a (j - o) else 0).
Proof.
  induction n as [|n IH]; intros cp j Hj.
  - cbn [seq fold_left]. destruct (o <=? j) eqn:E1, (j <? o + 0) eqn:E2; cbn [andb]; try lia.
    apply Nat.leb_le in E1. apply Nat.ltb_lt in E2. lia.
  - rewrite seq_S, fold_left_app. cbn [fold_left plus].
    rewrite nth_incr by (rewrite fold_incr_length; exact Hj). rewrite (IH cp j Hj).
    destruct (Nat.eqb_spec j (o + n)) as [->|Hne].
    + replace (o <=? o + n) with true by (symmetry; apply Nat.leb_le; lia).
      replace (o + n <? o + n) with false by (symmetry; apply Nat.ltb_ge; lia).
      replace (o + n <? o + S n) with true by (symmetry; apply Nat.ltb_lt; lia).
      cbn [andb]. replace (o + n - o) with n by lia. lia.
    + destruct (o <=? j) eqn:E1; cbn [andb]; [|lia].
      destruct (j <? o + n) eqn:E2, (j <? o + S n) eqn:E3; try lia;
        rewrite ?Nat.ltb_lt, ?Nat.ltb_ge in *; apply Nat.leb_le in E1; lia.
Qed.

Lemma len_bucket_row (f : nat -> nat) (mk : nat -> tag) c0 n j :
  length (bucket (map (fun r => (f r, c0 + r, mk r)) (seq 0 n)) j)
  = if (c0 <=? j) && (j <? c0 + n) then 1 else 0.
Proof.
  induction n as [|n IH].
  - cbn [seq map bucket filter length]. destruct (c0 <=? j) eqn:E1, (j <? c0 + 0) eqn:E2; cbn [andb]; try reflexivity; apply Nat.leb_le in E1; apply Nat.ltb_lt in E2; lia.
  - rewrite seq_S, map_app, bucket_app, app_length, IH. cbn [map plus]. unfold bucket at 1. cbn [filter ecol fst snd].
    destruct (Nat.eqb_spec (c0 + n) j) as [<-|Hne]; cbn [length].
    + replace (c0 <=? c0 + n) with true by (symmetry; apply Nat.leb_le; lia).
      replace (c0 + n <? c0 + n) with false by (symmetry; apply Nat.ltb_ge; lia).
      replace (c0 + n <? c0 + S n) with true by (symmetry; apply Nat.ltb_lt; lia). reflexivity.
    + destruct (c0 <=? j) eqn:E1; cbn [andb]; [|reflexivity].
      destruct (j <? c0 + n) eqn:E2, (j <? c0 + S n) eqn:E3; try reflexivity;
        rewrite ?Nat.ltb_lt, ?Nat.ltb_ge in *; apply Nat.leb_le in E1; lia.
Qed.

Lemma len_bucket_dense_tril c o pcol d j :
  length (bucket (map eswap (eCone c o pcol (Dense d))) j)
  = if (o <=? j) && (j <? o + d) then d - (j - o) else 0.
Proof.
  unfold eCone. induction d as [|d IH].
  - cbn [seq flat_map map bucket filter length]. destruct (o <=? j) eqn:E1, (j <? o + 0) eqn:E2; cbn [andb]; try reflexivity; apply Nat.leb_le in E1; apply Nat.ltb_lt in E2; lia.
  - rewrite seq_S, flat_map_app, map_app, bucket_app, app_length.
    match goal with |- ?a + _ = _ => replace a with (if (o <=? j) && (j <? o + d) then d - (j - o) else 0) by (symmetry; exact IH) end.
    cbn [flat_map plus]. rewrite app_nil_r, map_map.
    unfold eswap, erow, ecol, etag. cbn [fst snd].
    match goal with |- _ + ?b = _ => replace b with (if (o <=? j) && (j <? o + S d) then 1 else 0)
      by (symmetry; exact (len_bucket_row (fun _ => o + d) (fun r => THs c (tri_idx r d)) o (S d) j)) end.
    destruct (o <=? j) eqn:E1; cbn [andb]; [|reflexivity]. apply Nat.leb_le in E1.
    destruct (j <? o + d) eqn:E2, (j <? o + S d) eqn:E3;
      rewrite ?Nat.ltb_lt, ?Nat.ltb_ge in *; lia.
Qed.

Lemma cc_dense_tril cp c o pcol d :
  colcount_dense_triangle cp o d Tril = add_counts cp (map eswap (eCone c o pcol (Dense d))).
Proof.
  unfold colcount_dense_triangle.
  apply nth_ext with (d := 0) (d' := 0).
  - now rewrite add_counts_length, (fold_incr_length (fun t => d - t)).
  - intros j Hj. rewrite (fold_incr_length (fun t => d - t)) in Hj.
    rewrite (nth_fold_incr (fun t => d - t) o d cp j Hj), nth_add_counts by exact Hj.
    now rewrite len_bucket_dense_tril.
Qed.

Lemma cones_colcounts_tril shapes : forall cp c row pcol,
  cones_colcounts cp shapes row pcol Tril = add_counts cp (map eswap (eCones c row pcol shapes)).
Proof.
  induction shapes as [|s shapes IH]; intros cp c row pcol; [reflexivity|].
  cbn [cones_colcounts eCones]. rewrite map_app, add_counts_app, (IH _ (S c)). f_equal.
  destruct s as [d|d|d|d1 d2]; cbn [hs_is_diagonal sparse_expandable numel colcount_sparsecone eCone].
  - rewrite eswap_diagblk. apply cc_diag.
  - apply (cc_dense_tril cp c row pcol d).
  - rewrite !map_app, !add_counts_app, eswap_diagblk, eswap_auxd. rewrite (cc_diag cp c row d).
    rewrite (cc_rowvec _ (TV c) d row pcol), (cc_rowvec _ (TU c) d row (pcol + 1)). apply cc_auxdiag.
  - rewrite !map_app, !add_counts_app, eswap_diagblk, eswap_auxd. rewrite (cc_diag cp c row (d1 + d2)).
    rewrite (cc_rowvec _ (TGq c) d1 row pcol), (cc_rowvec _ (TGr c) d2 (row + d1) (pcol + 1)),
      (cc_rowvec _ (TGp c) (d1 + d2) row (pcol + 2)). apply cc_auxdiag.
Qed.

(** * Tril: P transposed / A as is, on the raw encodings *)
Section TrilRaw.
Context {T : Type} (O : Ops T).
Notation csc := (@csc T).

Lemma ePsw_place (P : csc) :
  map eswap (eP P) = map (fun krc => (place true 0 0 (snd krc), TP (fst krc))) (indexed (coords P)).
Proof. unfold eP, place. rewrite map_map. apply map_ext. intros [k [r c]]. unfold eswap, erow, ecol, etag. cbn [fst snd]. now rewrite !Nat.add_0_r. Qed.
Lemma eAsw_place (A : csc) n :
  map eswap (eA A n) = map (fun krc => (place false n 0 (snd krc), TA (fst krc))) (indexed (coords A)).
Proof.
  unfold eA, place. rewrite map_map. apply map_ext. intros [k [r c]]. unfold eswap, erow, ecol, etag. cbn [fst snd].
  now rewrite Nat.add_0_r, (Nat.add_comm n r).
Qed.
Lemma eMiss_sw (P : csc) n : map eswap (eMiss P n) = eMiss P n.
Proof. unfold eMiss. rewrite map_map. reflexivity. Qed.

(** count: P transposed (by stored rows), A by columns *)
Lemma colcount_block_T_P (P : csc) cp :
  colcount_block cp (encode P) 0 true = add_counts cp (map eswap (eP P)).
Proof.
  unfold colcount_block. cbn [encode rrowval]. rewrite add_counts_cols. unfold add_cols, eP.
  rewrite !map_map. unfold eswap, erow, ecol. cbn [fst snd].
  rewrite <- coordsL_fst, <- coords_coordsL.
  rewrite <- (map_snd_indexed (coords P)) at 1. rewrite map_map, !fold_left_map. reflexivity.
Qed.
Lemma colcount_block_N_A (A : csc) cp n :
  length (cols A) = nc A ->
  colcount_block cp (encode A) 0 false = add_counts cp (map eswap (eA A n)).
Proof.
  intros Hdim. unfold colcount_block. cbn [encode rcolptr rn].
  rewrite add_counts_cols. unfold eA. rewrite !map_map. unfold eswap, erow, ecol. cbn [fst snd].
  assert (Hc : map (fun krc : nat * (nat * nat) => snd (snd krc)) (indexed (coords A))
               = flat_map (fun i => repeat i (length (nth i (cols A) []))) (seq 0 (length (cols A)))).
  { transitivity (map snd (loop_pairs (cols A))).
    - rewrite loop_pairs_indexed, map_map. reflexivity.
    - unfold loop_pairs. rewrite map_flat_map'. apply flat_map_ext_in0. intros i _. rewrite map_map. cbn [snd].
      generalize (offs (cols A) i). induction (length (nth i (cols A) [])) as [|k IHk]; intros a; cbn [seq map repeat]; [reflexivity|].
      now rewrite IHk. }
  rewrite Hc. unfold add_cols. rewrite fold_left_flat_map, <- Hdim.
  apply fold_left_ext_in. intros a i Hi. apply in_seq in Hi.
  rewrite (colptr_nth (cols A) (S i)) by (nrm; lia). rewrite (colptr_nth (cols A) i) by (nrm; lia).
  rewrite (offs_S (cols A) i) by (nrm; lia). rewrite (Nat.add_comm (offs _ _)), Nat.add_sub.
  fold (add_cols a (repeat i (length (nth i (cols A) [])))). now rewrite add_cols_repeat.
Qed.
End TrilRaw.

(** * Tril: the put order (missing diagonal, P', A, cones) is row-ordered *)
Definition Rrow (x y : ent) : Prop := erow x = erow y -> ecol x < ecol y.
Ltac rord_cross := intros x y Hx Hy; ord_prep; unfold Rrow, erow, ecol; cbn [fst snd]; lia.
Ltac rord_seq := apply SS_seq_map; intros i j Hi Hij Hj; unfold Rrow, erow, ecol; cbn [fst snd]; lia.

Lemma eCone_rordered c o pcol s : o + numel s <= pcol -> StronglySorted Rrow (eCone c o pcol s).
Proof.
  intros Hle. destruct s as [d|d|d|d1 d2]; cbn [numel] in Hle; unfold eCone.
  - unfold eDiagBlk. rord_seq.
  - apply SS_flat_map_seq.
    + intros t Ht. rord_seq.
    + intros i j x y Hi Hij Hj Hx Hy. ord_prep. unfold Rrow, erow, ecol; cbn [fst snd]. lia.
  - repeat (apply SS_app; [| |rord_cross]); unfold eDiagBlk, eVec, eAuxD; rord_seq.
  - repeat (apply SS_app; [| |rord_cross]); unfold eDiagBlk, eVec, eAuxD; rord_seq.
Qed.
Lemma eCones_rordered shapes : forall c o pcol, o + sum_by numel shapes <= pcol ->
  StronglySorted Rrow (eCones c o pcol shapes).
Proof.
  induction shapes as [|s shapes IH]; intros c o pcol Hle; [constructor|].
  cbn [sum_by fold_right] in Hle.
  change (fold_right (fun x a => numel x + a) 0 shapes) with (sum_by numel shapes) in Hle.
  cbn [eCones]. apply SS_app.
  - apply eCone_rordered. lia.
  - apply IH. lia.
  - intros x y Hx Hy. apply eCone_bounds in Hx. apply eCones_bounds in Hy.
    unfold inrng, Rrow in *. lia.
Qed.

Section TrilOrder.
Context {T : Type}.
Notation csc := (@csc T).

Lemma eP_rordered (P : csc) : canonicalb P = true -> StronglySorted Rrow (eP P).
Proof.
  intros HP. unfold eP. apply SS_map. unfold indexed.
  eapply SS_impl; [|apply (SS_combine_seq QA); apply coordsL_QA, canonical_SS, HP].
  intros x y H. exact H.
Qed.
Lemma eA_rordered (A : csc) n : canonicalb A = true -> StronglySorted Rrow (eA A n).
Proof.
  intros HA. unfold eA. apply SS_map. unfold indexed.
  eapply SS_impl; [|apply (SS_combine_seq QP); apply coordsL_QP, canonical_SS, HA].
  intros x y H. unfold Rrow, QP, erow, ecol in *. cbn [fst snd]. lia.
Qed.
Lemma eMiss_rordered (P : csc) n : StronglySorted Rrow (eMiss P n).
Proof.
  unfold eMiss. apply SS_map. apply SS_filter'. apply SS_seq.
  intros i j Hij. unfold Rrow, erow, ecol. cbn [fst snd]. lia.
Qed.

Definition tril_order (P A : csc) (shapes : list shape) : list ent :=
  eMiss P (nc P) ++ eP P ++ eA A (nc P) ++ eCones 0 (nc P) (nc P + nr A) shapes.

Lemma tril_order_rordered (P A : csc) shapes : wf_input P A shapes ->
  StronglySorted Rrow (tril_order P A shapes).
Proof.
  intros [HP [HA [Hsq [HnA [Hup Hm]]]]]. unfold tril_order.
  apply SS_app; [apply eMiss_rordered | |].
  2:{ intros x y Hx Hy. apply eMiss_in in Hx. destruct Hx as [Hrc [Hc Hhd]].
      unfold Rrow. intros Heq. rewrite !in_app_iff in Hy. destruct Hy as [Hy|[Hy|Hy]].
      - apply (eP_in P y HP Hup) in Hy. destruct Hy as [Hcy [Hle Hd]].
        destruct (Nat.eq_dec (erow y) (ecol y)) as [He|He]; [|lia].
        exfalso. rewrite <- He, <- Heq, Hrc in Hd. specialize (Hd Hhd). lia.
      - apply (eA_in A (nc P) y HA) in Hy. lia.
      - apply eCones_bounds in Hy. unfold inrng in Hy. lia. }
  apply SS_app; [apply eP_rordered; exact HP | |].
  2:{ intros x y Hx Hy. apply (eP_in P x HP Hup) in Hx. destruct Hx as [Hc [Hle _]].
      unfold Rrow. intros Heq. rewrite in_app_iff in Hy. destruct Hy as [Hy|Hy].
      - apply (eA_in A (nc P) y HA) in Hy. lia.
      - apply eCones_bounds in Hy. unfold inrng in Hy. lia. }
  apply SS_app; [apply eA_rordered; exact HA | apply eCones_rordered; lia |].
  intros x y Hx Hy. apply (eA_in A (nc P) x HA) in Hx. apply eCones_bounds in Hy.
  unfold inrng, Rrow in *. lia.
Qed.

(** the Tril script *)
Definition tril_script (P A : csc) shapes : list ent := map eswap (tril_order P A shapes).
Lemma tril_script_ordered (P A : csc) shapes : wf_input P A shapes -> col_ordered (tril_script P A shapes).
Proof.
  intros Hwf. unfold col_ordered, tril_script. apply SS_map.
  eapply SS_impl; [|apply (tril_order_rordered P A shapes Hwf)]. intros x y H. exact H.
Qed.
Lemma tril_script_perm (P A : csc) shapes :
  Permutation (tril_script P A shapes) (entries P A shapes Tril).
Proof.
  unfold tril_script, tril_order. cbn [entries]. unfold entries_triu. apply Permutation_map.
  apply Permutation_app_swap_app.
Qed.
End TrilOrder.

(** * sorting the Spec's Tril column = the script's column *)
Lemma SS_app_inv {X} (R : X -> X -> Prop) (a b : list X) :
  StronglySorted R (a ++ b) ->
  StronglySorted R a /\ StronglySorted R b /\ (forall x y, In x a -> In y b -> R x y).
Proof.
  induction a as [|x a IH]; intros H.
  - split; [constructor|]. split; [exact H|]. intros ? ? [].
  - cbn [app] in H. inversion H as [|? ? H' Hx]; subst. destruct (IH H') as [Ha [Hb Hc]].
    apply Forall_app in Hx. destruct Hx as [Hxa Hxb]. rewrite Forall_forall in Hxb.
    split; [constructor; assumption|]. split; [exact Hb|].
    intros u v [<-|Hu] Hv; [now apply Hxb | now apply Hc].
Qed.
Lemma ins_past (x : ent) (Y V : list ent) :
  (forall y, In y Y -> erow y < erow x) -> ins_row x (Y ++ V) = Y ++ ins_row x V.
Proof.
  induction Y as [|y Y IH]; intros H; [reflexivity|]. cbn [app ins_row].
  assert (Hy : erow y < erow x) by (apply H; left; reflexivity).
  replace (erow x <=? erow y) with false by (symmetry; apply Nat.leb_gt; exact Hy).
  f_equal. apply IH. intros z Hz. apply H. right; exact Hz.
Qed.
Lemma sort_rows_app (X W : list ent) : sort_rows (X ++ W) = fold_right ins_row (sort_rows W) X.
Proof. unfold sort_rows. apply fold_right_app. Qed.

Lemma sort_swap (X Y Z : list ent) j :
  StronglySorted Rcol (Y ++ X ++ Z) -> (forall e, In e (Y ++ X ++ Z) -> ecol e = j) ->
  sort_rows (X ++ Y ++ Z) = Y ++ X ++ Z.
Proof.
  intros Hs Hc.
  destruct (SS_app_inv _ _ _ Hs) as [HY [HXZ HYXZ]].
  destruct (SS_app_inv _ _ _ HXZ) as [HX [HZ HXZc]].
  assert (HsYZ : rows_sorted (Y ++ Z)).
  { apply (rows_sorted_of_SS _ j).
    - apply SS_app; auto. intros y z Hy Hz. apply HYXZ; [exact Hy | apply in_or_app; right; exact Hz].
    - intros e He. apply Hc. apply in_app_or in He. destruct He as [He|He];
        [apply in_or_app; left; exact He | apply in_or_app; right; apply in_or_app; right; exact He]. }
  assert (HsXZ : rows_sorted (X ++ Z)).
  { apply (rows_sorted_of_SS _ j); [exact HXZ|]. intros e He. apply Hc. apply in_or_app; right; exact He. }
  assert (Hyx : forall x, In x X -> forall y, In y Y -> erow y < erow x).
  { intros x Hx y Hy. specialize (HYXZ y x Hy (in_or_app _ _ _ (or_introl Hx))). unfold Rcol in HYXZ.
    apply HYXZ. rewrite (Hc y), (Hc x); [reflexivity | |].
    - apply in_or_app; right; apply in_or_app; left; exact Hx.
    - apply in_or_app; left; exact Hy. }
  rewrite sort_rows_app, (sort_rows_sorted _ HsYZ).
  transitivity (Y ++ fold_right ins_row Z X).
  - clear HsXZ HX HXZ HXZc Hs. induction X as [|x X IH]; [reflexivity|].
    cbn [fold_right]. rewrite IH.
    + apply ins_past. intros y Hy. apply (Hyx x); [left; reflexivity | exact Hy].
    + intros e He. apply Hc. rewrite !in_app_iff in *. cbn [In]. tauto.
    + intros y z Hy Hz. apply HYXZ; [exact Hy|]. rewrite in_app_iff in *. cbn [In]. tauto.
    + intros x' Hx'. apply Hyx. right; exact Hx'.
  - f_equal. rewrite <- (sort_rows_sorted _ HsXZ). rewrite sort_rows_app.
    destruct (SS_app_inv _ _ _ HXZ) as [_ [HZ' _]].
    rewrite (sort_rows_sorted Z); [reflexivity|].
    apply (rows_sorted_of_SS _ j); [exact HZ|]. intros e He. apply Hc. rewrite !in_app_iff. tauto.
Qed.

Lemma kcols_tril {T} (P A : @csc T) shapes : wf_input P A shapes ->
  let N := kdim P A shapes in
  kcols N (entries P A shapes Tril) = buckets N (tril_script P A shapes).
Proof.
  intros Hwf N. pose proof (tril_script_ordered P A shapes Hwf) as Ho.
  unfold kcols, buckets. apply map_ext_in. intros j Hj.
  cbn [entries]. unfold entries_triu. unfold tril_script, tril_order in *.
  rewrite !map_app in *. 
  change (filter (fun e => ecol e =? j) ?l) with (bucket l j).
  rewrite !bucket_app.
  apply (sort_swap _ _ _ j).
  - rewrite <- !bucket_app. unfold bucket. apply SS_filter'. exact Ho.
  - intros e He. rewrite <- !bucket_app in He. now apply bucket_col in He.
Qed.

(** * Tril: composition *)
Section TrilCompose.
Context {T : Type} (O : Ops T) (P A : @csc T) (shapes : list shape).
Hypothesis Hwf : wf_input P A shapes.
Let st := tril_script P A shapes.
Let N := kdim P A shapes.

Lemma tril_cols_lt : cols_lt N st.
Proof.
  unfold cols_lt. apply Forall_forall. intros e He.
  pose proof (cols_lt_entries P A shapes Tril Hwf) as Hc. unfold cols_lt in Hc. rewrite Forall_forall in Hc.
  apply Hc. eapply Permutation_in; [apply tril_script_perm | exact He].
Qed.
Lemma tril_tags_nodup : tags_nodup st.
Proof.
  unfold tags_nodup. eapply Permutation_NoDup; [|apply (tags_nodup_entries P A shapes Tril)].
  symmetry. apply Permutation_map. apply tril_script_perm.
Qed.
Lemma tril_len : length st = length (entries_triu P A shapes).
Proof.
  unfold st. rewrite (Permutation_length (tril_script_perm P A shapes)). cbn [entries]. apply map_length.
Qed.

Lemma counts_ok_tril :
  assemble_colcounts (nr A + nc A + sum_by pdim shapes) (encode P) (encode A) shapes Tril
  = script_counts N st.
Proof.
  pose proof tril_cols_lt as Hc.
  destruct Hwf as [HP [HA [Hsq [HnA [Hup Hm]]]]].
  assert (HdimA : length (cols A) = nc A) by (apply canonical_iff in HA; now destruct HA).
  unfold assemble_colcounts. cbn [encode rn rm].
  rewrite (colcount_missing_diag_script O P _ HP Hup), (colcount_block_T_P P),
          (colcount_block_N_A A _ (nc P) HdimA), (cones_colcounts_tril shapes _ 0).
  rewrite <- !add_counts_app, <- ?app_assoc.
  rewrite HnA, (Nat.add_comm (nr A) (nc P)).
  rewrite <- (eMiss_sw P (nc P)) at 1. rewrite <- !map_app.
  fold (tril_order P A shapes). fold (tril_script P A shapes). fold st.
  replace (nc P + nr A + sum_by pdim shapes) with N by reflexivity.
  now apply add_counts_zero.
Qed.
End TrilCompose.

(** the diagonal entry of column j is the FIRST entry of that column in the lower triangle *)
Lemma diag_pos_tril N es j :
  cols_lt N es -> col_ordered es -> (forall e, In e es -> ecol e <= erow e) ->
  j < N -> (exists e, In e es /\ erow e = j /\ ecol e = j) ->
  pos_rc (concat (buckets N es)) j j = offs (buckets N es) j.
Proof.
  intros Hc Ho Hlo Hj [ed [Hed [Hr Hcd]]].
  set (b := bucket es j).
  assert (Hedb : In ed b) by (unfold b, bucket; apply filter_In; split; [exact Hed | now apply Nat.eqb_eq]).
  assert (Hsb : StronglySorted Rcol b) by (unfold b, bucket; now apply SS_filter').
  assert (Hcolb : forall e, In e b -> ecol e = j /\ In e es) by (intros e He; now apply bucket_col).
  destruct b as [|e0 b'] eqn:Eb; [contradiction|].
  assert (Hr0 : erow e0 = j /\ ecol e0 = j).
  { destruct (Hcolb e0 (or_introl eq_refl)) as [Hc0 Hin0]. split; [|exact Hc0].
    pose proof (Hlo e0 Hin0) as Hle. destruct Hedb as [<-|Hedb]; [exact Hr|].
    inversion Hsb as [|? ? _ Hall]; subst. rewrite Forall_forall in Hall. specialize (Hall ed Hedb).
    unfold Rcol in Hall. destruct (Hcolb ed (or_intror Hedb)) as [Hce _].
    specialize (Hall ltac:(lia)). lia. }
  unfold pos_rc. rewrite (concat_split (buckets N es) j) by (rewrite bs_length; exact Hj).
  rewrite bs_nth by exact Hj. fold (bucket es j). change (bucket es j) with b. rewrite Eb. cbn [app].
  rewrite index_of_app_first; [reflexivity | |].
  - intros y Hy. apply in_concat_firstn_buckets in Hy; [|lia].
    replace (ecol y =? j) with false by (symmetry; apply Nat.eqb_neq; lia). now rewrite andb_false_r.
  - destruct Hr0 as [-> ->]. now rewrite !Nat.eqb_refl.
Qed.

Lemma assemble_diag_tril {T} (O : Ops T) (P' A' : @raw T) shapes :
  let '(K, mp) := assemble O P' A' shapes Tril in
  mDiagFull mp = removelast (rcolptr K) /\ mDiagP mp = firstn (rn A') (rcolptr K).
Proof.
  unfold assemble.
  destruct (fill_block O _ P' _ 0 0 true) as [a mp1].
  destruct (fill_block O _ A' _ (rn A') 0 false) as [c ma].
  destruct (cones_fill O c shapes (rn A') (rm A' + rn A') Tril) as [[s2 hs] sps].
  cbn [mDiagFull mDiagP rcolptr]. split; reflexivity.
Qed.

Lemma map_etag_eswap (l : list ent) : map etag (map eswap l) = map etag l.
Proof. rewrite map_map. reflexivity. Qed.

Lemma tril_partial {T} (O : Ops T) (P A : @csc T) shapes : wf_input P A shapes ->
  let '(K, mp) := assemble O (encode P) (encode A) shapes Tril in
  let sp := kkt_maps P A shapes Tril in
  K = encode (kkt_matrix O P A shapes Tril)
  /\ mP mp = mP sp /\ mA mp = mA sp /\ mHs mp = mHs sp /\ mSp mp = mSp sp.
Proof.
  intros Hwf. pose proof Hwf as [HP [HA [Hsq [HnA [Hup Hm]]]]].
  assert (HdimP : length (cols P) = nc P) by (apply canonical_iff in HP; now destruct HP).
  assert (HdimA : length (cols A) = nc A) by (apply canonical_iff in HA; now destruct HA).
  set (N := kdim P A shapes). set (val := tag_val O P A).
  set (swC := map eswap (eCones 0 (nc P) (nc P + nr A) shapes)).
  set (st := eMiss P (nc P) ++ map eswap (eP P) ++ map eswap (eA A (nc P)) ++ swC).
  assert (Hst : tril_script P A shapes = st).
  { unfold tril_script, tril_order, st, swC. now rewrite !map_app, eMiss_sw. }
  pose proof (fill_script_ok T O val N (tril_script P A shapes)
                (tril_cols_lt P A shapes Hwf) (tril_tags_nodup P A shapes)) as HG.
  cbv zeta in HG. rewrite Hst in HG.
  pose proof (kcols_tril P A shapes Hwf) as Hk. cbv zeta in Hk. fold N in Hk. rewrite Hst in Hk.
  pose proof (counts_ok_tril O P A shapes Hwf) as Hcnt. fold N in Hcnt. rewrite Hst in Hcnt.
  pose proof (tril_len P A shapes) as Hlen. rewrite Hst in Hlen.
  unfold assemble.
  change (rm (encode A)) with (nr A). change (rn (encode A)) with (nc A).
  rewrite Hcnt.
  pose proof (nnz_ok O P A shapes Hwf) as Hnnz. change (rn (encode A)) with (nc A) in Hnnz.
  rewrite Hnnz, <- Hlen. clear Hnnz.
  change (mkSt (colcount_to_colptr 0 (script_counts N st)) (repeat 0 (length st))
               (repeat (zero O) (length st))) with (script_init O N st).
  set (s0 := script_init O N st) in *.
  assert (HlenP : length (map fst (concat (cols P))) = length (coords P))
    by (now rewrite map_length, <- coordsL_length).
  assert (HlenA : length (map fst (concat (cols A))) = length (coords A))
    by (now rewrite map_length, <- coordsL_length).
  change (rrowval (encode P)) with (map fst (concat (cols P))).
  change (rrowval (encode A)) with (map fst (concat (cols A))).
  rewrite HlenP, HlenA.
  rewrite (fill_missing_diag_script O P val s0 HP Hup (fun i => eq_refl)).
  destruct (run_script val s0 (eMiss P (nc P))) as [a dM] eqn:E1. cbn [fst].
  rewrite (fill_block_script O P a 0 0 true TP val HdimP (fun k => eq_refl)).
  rewrite <- ePsw_place.
  destruct (run_script val a (map eswap (eP P))) as [b dP] eqn:E2.
  rewrite (fill_block_script O A b (nc A) 0 false TA val HdimA (fun k => eq_refl)).
  rewrite <- eAsw_place. rewrite HnA.
  destruct (run_script val b (map eswap (eA A (nc P)))) as [c dA] eqn:E3.
  pose proof (cones_fill_tril O shapes c 0 (nc P) (nc P + nr A)) as HC.
  rewrite (Nat.add_comm (nr A) (nc P)).
  destruct (cones_fill O c shapes (nc P) (nc P + nr A) Tril) as [[s2 hs] sps].
  assert (Hext : run_script (fun _ => zero O) c swC = run_script val c swC).
  { symmetry. apply run_script_ext. intros e He. unfold swC in He. apply in_map_iff in He.
    destruct He as [x [<- Hx]]. change (etag (eswap x)) with (etag x).
    apply in_map with (f := etag) in Hx. apply eCones_tags_cone in Hx.
    destruct Hx as [c' [_ Hc']]. unfold val. destruct (etag x); cbn in Hc'; try discriminate; reflexivity. }
  fold swC in HC. rewrite Hext in HC.
  destruct (run_script val c swC) as [s2' dC] eqn:E4.
  destruct HC as [Hs Hreg]. subst s2'.
  assert (Hrun : run_script val s0 st = (s2, dM ++ dP ++ dA ++ dC)).
  { unfold st. rewrite run_script_app, E1. cbv beta iota. rewrite run_script_app, E2. cbv beta iota.
    rewrite run_script_app, E3, E4. reflexivity. }
  rewrite Hrun in HG. destruct HG as [Hcp [Hrv [Hnz Hds]]].
  assert (HlM : length dM = length (eMiss P (nc P))) by (pose proof (run_script_length val (eMiss P (nc P)) s0) as H; now rewrite E1 in H).
  assert (HlP : length dP = length (map eswap (eP P))) by (pose proof (run_script_length val (map eswap (eP P)) a) as H; now rewrite E2 in H).
  assert (HlA : length dA = length (map eswap (eA A (nc P)))) by (pose proof (run_script_length val (map eswap (eA A (nc P))) b) as H; now rewrite E3 in H).
  unfold st in Hds at 2. rewrite !map_app in Hds.
  apply app_eq_len in Hds; [|now rewrite map_length]. destruct Hds as [HdM Hds].
  apply app_eq_len in Hds; [|now rewrite map_length]. destruct Hds as [HdP Hds].
  apply app_eq_len in Hds; [|now rewrite map_length]. destruct Hds as [HdA HdC].
  set (se := concat (buckets N st)) in *.
  assert (Hse : sorted_entries N (entries P A shapes Tril) = se) by (unfold sorted_entries; now rewrite Hk).
  assert (Hhs : (hs, sps) = (hs_map se 0 shapes, sp_maps se 0 shapes)).
  { rewrite Hreg, HdC. unfold swC. rewrite <- (map_map etag (pos se)), map_etag_eswap. apply regroup_tags. }
  inversion Hhs; subst hs sps.
  unfold kkt_maps. cbn [mP mA mHs mSp]. fold N. rewrite Hse.
  split; [|split; [|split; [|split]]].
  - unfold encode, kkt_matrix. cbn [nr nc cols]. fold N. rewrite Hk.
    replace (nr A + nc P + sum_by pdim shapes) with N by (unfold N, kdim; lia).
    f_equal.
    + rewrite Hcp, colptr_from_psums, map_map. f_equal. apply map_ext. intros x. now rewrite map_length.
    + fold se. rewrite Hrv, <- concat_map, map_map. reflexivity.
    + fold se. rewrite Hnz, <- concat_map, map_map. reflexivity.
  - rewrite HdP. rewrite <- (map_map etag (pos se)), map_etag_eswap, eP_tags, map_map. reflexivity.
  - rewrite HdA. rewrite <- (map_map etag (pos se)), map_etag_eswap, eA_tags, map_map. reflexivity.
  - reflexivity.
  - reflexivity.
Qed.

Lemma spec_diag_full_tril {T} (O : Ops T) (P A : @csc T) shapes : wf_input P A shapes ->
  let N := kdim P A shapes in
  removelast (rcolptr (encode (kkt_matrix O P A shapes Tril)))
  = map (fun j => pos_rc (sorted_entries N (entries P A shapes Tril)) j j) (seq 0 N).
Proof.
  intros Hwf N.
  set (st := tril_script P A shapes).
  pose proof (kcols_tril P A shapes Hwf) as Hk. cbv zeta in Hk. fold N st in Hk.
  pose proof (tril_cols_lt P A shapes Hwf) as Hc. fold N st in Hc.
  pose proof (tril_script_ordered P A shapes Hwf) as Ho. fold st in Ho.
  assert (Hlo : forall e, In e st -> ecol e <= erow e).
  { intros e He. apply (Permutation_in _ (tril_script_perm P A shapes)) in He. cbn [entries] in He.
    apply in_map_iff in He. destruct He as [x [<- Hx]]. unfold eswap, erow, ecol. cbn [fst snd].
    apply (entries_triu_upper P A shapes x Hwf Hx). }
  assert (Hdiag : forall j, j < N -> exists e, In e st /\ erow e = j /\ ecol e = j).
  { intros j Hj. destruct Hwf as [HP [HA [Hsq [HnA [Hup Hm]]]]].
    assert (HdimP : length (cols P) = nc P) by (apply canonical_iff in HP; now destruct HP).
    destruct (diag_complete_ok T P A shapes Tril HdimP Hm j Hj) as [e [He Hrc]].
    exists e. split; [|exact Hrc]. eapply Permutation_in; [symmetry; apply tril_script_perm | exact He]. }
  unfold encode, kkt_matrix. cbn [rcolptr cols]. fold N. unfold sorted_entries. rewrite Hk.
  rewrite colptr_from_psums, map_map, (map_ext _ (@length ent) (fun c => map_length _ c)).
  rewrite psums_offs, bs_length. rewrite seq_S, map_app. cbn [map]. rewrite removelast_last.
  apply map_ext_in. intros j Hj. apply in_seq in Hj. cbn [plus].
  symmetry. apply (diag_pos_tril N st j Hc Ho Hlo); [lia | apply Hdiag; lia].
Qed.

Lemma firstn_removelast {X} (l : list X) : forall n, n < length l -> firstn n (removelast l) = firstn n l.
Proof.
  induction l as [|x l IH]; intros n Hn; [cbn in Hn; lia|].
  destruct l as [|y l]; [cbn in Hn; assert (n = 0) by lia; subst; reflexivity|].
  change (removelast (x :: y :: l)) with (x :: removelast (y :: l)).
  destruct n as [|n]; [reflexivity|]. rewrite !firstn_cons. f_equal. apply IH. cbn [length] in *. lia.
Qed.
Lemma psums_length l : forall a, length (psums a l) = S (length l).
Proof. induction l as [|c l IH]; intros a; cbn [psums length]; [reflexivity | now rewrite IH]. Qed.

Lemma assemble_refines_spec_tril_ok : stmt_assemble_refines_spec_tril.
Proof.
  unfold stmt_assemble_refines_spec_tril. intros T O P A shapes Hwf.
  pose proof (tril_partial O P A shapes Hwf) as H1.
  pose proof (assemble_diag_tril O (encode P) (encode A) shapes) as H2.
  pose proof (spec_diag_full_tril O P A shapes Hwf) as H3. cbv zeta in H3.
  destruct (assemble O (encode P) (encode A) shapes Tril) as [K mp].
  destruct H1 as [HK [HP' [HA' [HH HS]]]]. destruct H2 as [HF HD].
  destruct Hwf as [_ [_ [_ [HnA _]]]].
  f_equal; [exact HK|].
  destruct mp as [p a h s dP dF]. cbn [mP mA mHs mSp mDiagP mDiagFull] in *.
  subst p a h s. unfold kkt_maps.
  rewrite HK in HF, HD. rewrite H3 in HF. subst dF.
  f_equal. rewrite HD. change (rn (encode A)) with (nc A). rewrite HnA.
  rewrite <- H3. symmetry. apply firstn_removelast.
  unfold encode, kkt_matrix. cbn [rcolptr cols]. rewrite colptr_from_psums, psums_length, !map_length.
  unfold kcols. rewrite map_length, seq_length. unfold kdim. lia.
Qed.

Lemma assemble_refines_spec_ok : stmt_assemble_refines_spec.
Proof.
  unfold stmt_assemble_refines_spec. intros T O P A shapes tri Hwf. destruct tri.
  - now apply assemble_refines_spec_triu_ok.
  - now apply assemble_refines_spec_tril_ok.
Qed.
