(** C11 — the intended layout has a stored entry on every diagonal position. *)
From Coq Require Import List Arith ZArith Lia Bool Permutation.
Import ListNotations.
Require Import Clarabel.Base.Ops Clarabel.Csc.Model Clarabel.Kkt.Spec.

Lemma in_combine_seq {X} (l : list X) : forall a j d,
  j < length l -> In (a + j, nth j l d) (combine (seq a (length l)) l).
Proof.
  induction l as [|x l IH]; intros a j d Hj; [cbn in Hj; lia|].
  cbn [length seq combine]. destruct j as [|j]; cbn [nth].
  - left. f_equal. lia.
  - right. replace (a + S j) with (S a + j) by lia. apply IH. cbn in Hj; lia.
Qed.
Lemma in_indexed {X} (l : list X) j d : j < length l -> In (j, nth j l d) (indexed l).
Proof. intros Hj. unfold indexed. exact (in_combine_seq l 0 j d Hj). Qed.
Lemma in_indexed_ex {X} (l : list X) x : In x l -> exists k, In (k, x) (indexed l).
Proof.
  intros Hin. destruct (In_nth l x x Hin) as [j [Hj Hn]]. exists j. rewrite <- Hn at 1.
  apply in_indexed. exact Hj.
Qed.

Section Diag.
Context {T : Type}.
Notation csc := (@csc T).

Lemma diag_P (P : csc) j : has_diag P j = true ->
  exists e, In e (eP P) /\ erow e = j /\ ecol e = j.
Proof.
  unfold has_diag. intros H. apply existsb_exists in H. destruct H as [x [Hx Hr]].
  apply Nat.eqb_eq in Hr.
  assert (Hj : j < length (cols P)).
  { destruct (Nat.lt_ge_cases j (length (cols P))) as [?|Hge]; [assumption|].
    rewrite nth_overflow in Hx by exact Hge. contradiction. }
  assert (Hc : In (j, j) (coords P)).
  { unfold coords. apply in_flat_map. exists (j, nth j (cols P) []). split.
    - apply in_indexed. exact Hj.
    - cbn [fst snd]. apply in_map_iff. exists x. split; [now rewrite Hr | exact Hx]. }
  destruct (in_indexed_ex _ _ Hc) as [k Hk].
  exists (j, j, TP k). split; [|split; reflexivity].
  unfold eP. apply in_map_iff. exists (k, (j, j)). split; [reflexivity | exact Hk].
Qed.

Lemma diag_miss (P : csc) n j : j < n -> has_diag P j = false ->
  exists e, In e (eMiss P n) /\ erow e = j /\ ecol e = j.
Proof.
  intros Hj Hd. exists (j, j, TMiss j). split; [|split; reflexivity].
  unfold eMiss. apply in_map_iff. exists j. split; [reflexivity|].
  apply filter_In. split; [apply in_seq; lia | now rewrite Hd].
Qed.
End Diag.

Lemma in_eDiagBlk c o d t : t < d -> In (o + t, o + t, THs c t) (eDiagBlk c o d).
Proof. intros Ht. unfold eDiagBlk. apply in_map_iff. exists t. split; [reflexivity | apply in_seq; lia]. Qed.

Lemma diag_cone c o pcol s t : t < numel s ->
  exists e, In e (eCone c o pcol s) /\ erow e = o + t /\ ecol e = o + t.
Proof.
  intros Ht. destruct s as [d|d|d|d1 d2]; cbn [numel eCone] in *.
  - exists (o + t, o + t, THs c t). split; [now apply in_eDiagBlk | split; reflexivity].
  - exists (o + t, o + t, THs c (tri_idx t t)). split; [|split; reflexivity].
    apply in_flat_map. exists t. split; [apply in_seq; lia|].
    apply in_map_iff. exists t. split; [reflexivity | apply in_seq; lia].
  - exists (o + t, o + t, THs c t). split; [|split; reflexivity].
    apply in_or_app; left. now apply in_eDiagBlk.
  - exists (o + t, o + t, THs c t). split; [|split; reflexivity].
    apply in_or_app; left. now apply in_eDiagBlk.
Qed.

Lemma diag_cones shapes : forall c o pcol j,
  o <= j < o + sum_by numel shapes ->
  exists e, In e (eCones c o pcol shapes) /\ erow e = j /\ ecol e = j.
Proof.
  induction shapes as [|s shapes IH]; intros c o pcol j Hj; cbn [sum_by fold_right] in Hj; [lia|].
  change (fold_right (fun x a => numel x + a) 0 shapes) with (sum_by numel shapes) in Hj.
  cbn [eCones]. destruct (Nat.lt_ge_cases j (o + numel s)) as [Hlt|Hge].
  - destruct (diag_cone c o pcol s (j - o)) as [e [He [Hr Hc]]]; [lia|].
    exists e. split; [apply in_or_app; left; exact He | split; lia].
  - destruct (IH (S c) (o + numel s) (pcol + pdim s) j) as [e [He Hrc]]; [lia|].
    exists e. split; [apply in_or_app; right; exact He | exact Hrc].
Qed.

Lemma in_eAuxD c pcol k t : t < k -> In (pcol + t, pcol + t, TD c t) (eAuxD c pcol k).
Proof. intros Ht. unfold eAuxD. apply in_map_iff. exists t. split; [reflexivity | apply in_seq; lia]. Qed.

Lemma diag_aux_cone c o pcol s t : t < pdim s ->
  exists e, In e (eCone c o pcol s) /\ erow e = pcol + t /\ ecol e = pcol + t.
Proof.
  intros Ht. destruct s as [d|d|d|d1 d2]; cbn [pdim eCone] in *; try lia.
  - exists (pcol + t, pcol + t, TD c t). split; [|split; reflexivity].
    apply in_or_app; right. apply in_or_app; right. apply in_or_app; right. now apply in_eAuxD.
  - exists (pcol + t, pcol + t, TD c t). split; [|split; reflexivity].
    apply in_or_app; right. apply in_or_app; right. apply in_or_app; right. apply in_or_app; right.
    now apply in_eAuxD.
Qed.

Lemma diag_aux shapes : forall c o pcol j,
  pcol <= j < pcol + sum_by pdim shapes ->
  exists e, In e (eCones c o pcol shapes) /\ erow e = j /\ ecol e = j.
Proof.
  induction shapes as [|s shapes IH]; intros c o pcol j Hj; cbn [sum_by fold_right] in Hj; [lia|].
  change (fold_right (fun x a => pdim x + a) 0 shapes) with (sum_by pdim shapes) in Hj.
  cbn [eCones]. destruct (Nat.lt_ge_cases j (pcol + pdim s)) as [Hlt|Hge].
  - destruct (diag_aux_cone c o pcol s (j - pcol)) as [e [He [Hr Hc]]]; [lia|].
    exists e. split; [apply in_or_app; left; exact He | split; lia].
  - destruct (IH (S c) (o + numel s) (pcol + pdim s) j) as [e [He Hrc]]; [lia|].
    exists e. split; [apply in_or_app; right; exact He | exact Hrc].
Qed.

Lemma diag_complete_triu T (P A : @csc T) shapes :
  length (cols P) = nc P -> sum_by numel shapes = nr A ->
  forall j, j < kdim P A shapes ->
    exists e, In e (entries_triu P A shapes) /\ erow e = j /\ ecol e = j.
Proof.
  intros HP Hm j Hj. unfold kdim in Hj. unfold entries_triu.
  destruct (Nat.lt_ge_cases j (nc P)) as [H1|H1].
  - destruct (has_diag P j) eqn:Hd.
    + destruct (diag_P P j Hd) as [e [He Hrc]]. exists e. split; [apply in_or_app; left; exact He | exact Hrc].
    + destruct (diag_miss P (nc P) j H1 Hd) as [e [He Hrc]]. exists e.
      split; [apply in_or_app; right; apply in_or_app; left; exact He | exact Hrc].
  - destruct (Nat.lt_ge_cases j (nc P + nr A)) as [H2|H2].
    + destruct (diag_cones shapes 0 (nc P) (nc P + nr A) j) as [e [He Hrc]]; [lia|].
      exists e. split; [do 3 (apply in_or_app; right); exact He | exact Hrc].
    + destruct (diag_aux shapes 0 (nc P) (nc P + nr A) j) as [e [He Hrc]]; [lia|].
      exists e. split; [do 3 (apply in_or_app; right); exact He | exact Hrc].
Qed.

Lemma diag_complete_ok : stmt_diag_complete.
Proof.
  unfold stmt_diag_complete. intros T P A shapes tri HP Hm j Hj.
  destruct (diag_complete_triu T P A shapes HP Hm j Hj) as [e [He [Hr Hc]]].
  destruct tri; cbn [entries].
  - exists e. auto.
  - exists (eswap e). split; [apply in_map; exact He|].
    unfold eswap, erow, ecol in *. cbn [fst snd]. split; assumption.
Qed.
