(** C11 — colcount lemmas: each colcount primitive used by the cone loop adds one count per Spec
    entry it is responsible for. *)
From Coq Require Import List Arith ZArith Lia Bool Permutation.
Import ListNotations.
Require Import Clarabel.Base.Ops Clarabel.Csc.Model Clarabel.Csc.LemmasStruct.
Require Import Clarabel.Kkt.Spec Clarabel.Kkt.Model Clarabel.Kkt.Stmts Clarabel.Kkt.LemmasSpec Clarabel.Kkt.LemmasWf.

Lemma set_nth_overflow {X} (l : list X) : forall k x, length l <= k -> set_nth l k x = l.
Proof.
  induction l as [|a l IH]; intros [|k] x Hk; cbn [set_nth length] in *; try reflexivity; try lia.
  f_equal. apply IH. lia.
Qed.
Lemma set_nth_idem {X} (l : list X) : forall k x y, set_nth (set_nth l k x) k y = set_nth l k y.
Proof. induction l as [|a l IH]; intros [|k] x y; cbn [set_nth]; try reflexivity. now rewrite IH. Qed.
Lemma incr_incr cp i a b : incr (incr cp i a) i b = incr cp i (a + b).
Proof.
  unfold incr. destruct (Nat.lt_ge_cases i (length cp)) as [Hi|Hi].
  - rewrite nth_set_nth by exact Hi. rewrite Nat.eqb_refl, set_nth_idem. f_equal. lia.
  - now rewrite !(set_nth_overflow cp) by exact Hi.
Qed.
Lemma incr_0 cp i : incr cp i 0 = cp.
Proof.
  unfold incr. rewrite Nat.add_0_r. revert i. induction cp as [|a l IH]; intros [|i]; cbn [set_nth nth]; try reflexivity.
  now rewrite IH.
Qed.
Lemma add_counts_app cp a b : add_counts cp (a ++ b) = add_counts (add_counts cp a) b.
Proof. unfold add_counts. apply fold_left_app. Qed.
Lemma fold_left_map {X Y Z} (f : Z -> Y -> Z) (g : X -> Y) l : forall a,
  fold_left f (map g l) a = fold_left (fun a x => f a (g x)) l a.
Proof. induction l as [|x l IH]; intros a; cbn [map fold_left]; [reflexivity | apply IH]. Qed.
Lemma add_counts_samecol cp col (es : list ent) :
  (forall e, In e es -> ecol e = col) -> add_counts cp es = incr cp col (length es).
Proof.
  revert cp. induction es as [|e es IH]; intros cp H; cbn [length]; [now rewrite incr_0|].
  unfold add_counts in *. cbn [fold_left]. rewrite IH by (intros x Hx; apply H; right; exact Hx).
  rewrite (H e) by (left; reflexivity). now rewrite incr_incr.
Qed.

Lemma cc_diag cp c o d : colcount_diag cp o d = add_counts cp (eDiagBlk c o d).
Proof. unfold colcount_diag, add_counts, eDiagBlk. now rewrite fold_left_map. Qed.
Lemma cc_auxdiag cp c pcol k : colcount_diag cp pcol k = add_counts cp (eAuxD c pcol k).
Proof. unfold colcount_diag, add_counts, eAuxD. now rewrite fold_left_map. Qed.
Lemma cc_colvec cp mk n row col : colcount_colvec cp n row col = add_counts cp (eVec mk row col n).
Proof.
  unfold colcount_colvec. rewrite (add_counts_samecol cp col).
  - unfold eVec. now rewrite map_length, seq_length.
  - intros e He. unfold eVec in He. apply in_map_iff in He. destruct He as [t [<- _]]. reflexivity.
Qed.
Lemma cc_dense cp c o pcol d :
  colcount_dense_triangle cp o d Triu = add_counts cp (eCone c o pcol (Dense d)).
Proof.
  unfold colcount_dense_triangle, eCone. revert cp.
  induction (seq 0 d) as [|t l IH]; intros cp; cbn [fold_left flat_map]; [reflexivity|].
  rewrite add_counts_app, IH. f_equal.
  rewrite (add_counts_samecol cp (o + t)).
  - rewrite map_length, seq_length. f_equal. lia.
  - intros e He. apply in_map_iff in He. destruct He as [r [<- _]]. reflexivity.
Qed.

Lemma cones_colcounts_ok : stmt_cones_colcounts.
Proof.
  unfold stmt_cones_colcounts. induction shapes as [|s shapes IH]; intros cp c row pcol; [reflexivity|].
  cbn [cones_colcounts eCones]. rewrite add_counts_app, (IH _ (S c)). f_equal.
  destruct s as [d|d|d|d1 d2]; cbn [hs_is_diagonal sparse_expandable numel colcount_sparsecone eCone].
  - apply cc_diag.
  - apply (cc_dense cp c row pcol d).
  - rewrite !add_counts_app. rewrite (cc_diag cp c row d).
    rewrite (cc_colvec _ (TV c) d row pcol), (cc_colvec _ (TU c) d row (pcol + 1)). apply cc_auxdiag.
  - rewrite !add_counts_app. rewrite (cc_diag cp c row (d1 + d2)).
    rewrite (cc_colvec _ (TGq c) d1 row pcol), (cc_colvec _ (TGr c) d2 (row + d1) (pcol + 1)),
      (cc_colvec _ (TGp c) (d1 + d2) row (pcol + 2)). apply cc_auxdiag.
Qed.
