(** C11 — the INTENDED KKT matrix, as a clean function of (P, A, cone shapes, triangle).

    The matrix is described by its list of tagged entries [(row, col, tag)]: where every
    user entry of P and A goes, the structural diagonal of the (1,1) block, the Hs block of
    every cone and the auxiliary rows/columns of the sparse cone expansions.  Sorting that
    list into CSC order gives the matrix; the index maps are the positions of the tags.
    Nothing here follows the count/fill algorithm of the Rust code (that is Kkt/Model.v).

    Also in this file: the statements (as [Definition stmt_… : Prop]) proved in
    Kkt/Lemmas*.v.  No proofs here. *)
From Coq Require Import List Arith ZArith Lia Bool Reals Permutation.
Import ListNotations.
Require Import Clarabel.Base.Ops Clarabel.Csc.Model.

(** ** Cone shapes: what a cone contributes to the KKT layout
    Zero/Nonnegative -> Diag; SOC (dim <= 4), Exp, Pow, PSD -> Dense (packed upper triangle);
    SOC (dim > 4) -> SocSparse (diagonal + 2 auxiliary variables);
    GenPow -> GenPow d1 d2 (diagonal + 3 auxiliary variables). *)
Inductive shape : Set :=
| Diag (n : nat) | Dense (n : nat) | SocSparse (n : nat) | GenPow (d1 d2 : nat).
Inductive triangle : Set := Triu | Tril.

Definition numel (s : shape) : nat :=
  match s with Diag n | Dense n | SocSparse n => n | GenPow a b => a + b end.
Definition pdim (s : shape) : nat :=
  match s with SocSparse _ => 2 | GenPow _ _ => 3 | _ => 0 end.
Definition tri_num (n : nat) : nat := n * (n + 1) / 2.
Definition blocklen (s : shape) : nat :=
  match s with Dense n => tri_num n | _ => numel s end.
Definition sum_by {X} (f : X -> nat) (l : list X) : nat := fold_right (fun x a => f x + a) 0 l.

(** ** Tags *)
Inductive tag : Set :=
| TP (k : nat)            (* k-th stored entry of P *)
| TA (k : nat)            (* k-th stored entry of A *)
| TMiss (i : nat)         (* structural diagonal entry (i,i), P has none there *)
| THs (c k : nat)         (* k-th entry of the Hs block of cone c (packed triu, column-major) *)
| TU (c k : nat) | TV (c k : nat)                    (* SOC expansion vectors *)
| TGp (c k : nat) | TGq (c k : nat) | TGr (c k : nat) (* GenPow expansion vectors *)
| TD (c j : nat).         (* j-th auxiliary diagonal entry of cone c *)

Definition tag_eqb (a b : tag) : bool :=
  match a, b with
  | TP k, TP k' | TA k, TA k' | TMiss k, TMiss k' => k =? k'
  | THs c k, THs c' k' | TU c k, TU c' k' | TV c k, TV c' k'
  | TGp c k, TGp c' k' | TGq c k, TGq c' k' | TGr c k, TGr c' k'
  | TD c k, TD c' k' => (c =? c') && (k =? k')
  | _, _ => false
  end.

Definition ent : Set := (nat * nat * tag)%type.   (* (row, col, tag) *)
Definition erow (e : ent) : nat := fst (fst e).
Definition ecol (e : ent) : nat := snd (fst e).
Definition etag (e : ent) : tag := snd e.

Section KktSpec.
Context {T : Type} (O : Ops T).
Notation csc := (@csc T).

(** stored entries of a CSC matrix in storage order: (row, col) *)
Definition coords (M : csc) : list (nat * nat) :=
  flat_map (fun jc => map (fun e => (fst e, fst jc)) (snd jc)) (indexed (cols M)).
Definition vals (M : csc) : list T := map snd (concat (cols M)).
Definition has_diag (P : csc) (i : nat) : bool :=
  existsb (fun e => fst e =? i) (nth i (cols P) []).

(** ** Entries of the upper-triangular layout *)
Definition eP (P : csc) : list ent :=
  map (fun krc => (fst (snd krc), snd (snd krc), TP (fst krc))) (indexed (coords P)).
Definition eMiss (P : csc) (n : nat) : list ent :=
  map (fun i => (i, i, TMiss i)) (filter (fun i => negb (has_diag P i)) (seq 0 n)).
(** A sits transposed in the upper-right block: A(i,j) at row j, column n+i *)
Definition eA (A : csc) (n : nat) : list ent :=
  map (fun krc => (snd (snd krc), n + fst (snd krc), TA (fst krc))) (indexed (coords A)).

(** position of (row s, col t), s <= t, in a packed column-major upper triangle *)
Definition tri_idx (s t : nat) : nat := tri_num t + s.

Definition eDiagBlk (c o d : nat) : list ent := map (fun t => (o + t, o + t, THs c t)) (seq 0 d).
Definition eVec (mk : nat -> tag) (row col len : nat) : list ent :=
  map (fun t => (row + t, col, mk t)) (seq 0 len).
Definition eAuxD (c pcol k : nat) : list ent :=
  map (fun j => (pcol + j, pcol + j, TD c j)) (seq 0 k).

(** cone [c] whose slack block starts at absolute index [o]; its auxiliary variables (if
    any) start at absolute index [pcol] *)
Definition eCone (c o pcol : nat) (s : shape) : list ent :=
  match s with
  | Diag d => eDiagBlk c o d
  | Dense d =>
      flat_map (fun t => map (fun r => (o + r, o + t, THs c (tri_idx r t))) (seq 0 (S t)))
               (seq 0 d)
  | SocSparse d =>
      eDiagBlk c o d ++ eVec (TV c) o pcol d ++ eVec (TU c) o (pcol + 1) d ++ eAuxD c pcol 2
  | GenPow d1 d2 =>
      eDiagBlk c o (d1 + d2) ++ eVec (TGq c) o pcol d1 ++ eVec (TGr c) (o + d1) (pcol + 1) d2
      ++ eVec (TGp c) o (pcol + 2) (d1 + d2) ++ eAuxD c pcol 3
  end.
Fixpoint eCones (c o pcol : nat) (shapes : list shape) : list ent :=
  match shapes with
  | [] => []
  | s :: r => eCone c o pcol s ++ eCones (S c) (o + numel s) (pcol + pdim s) r
  end.

Definition entries_triu (P A : csc) (shapes : list shape) : list ent :=
  let n := nc P in let m := nr A in
  eP P ++ eMiss P n ++ eA A n ++ eCones 0 n (n + m) shapes.
Definition eswap (e : ent) : ent := (ecol e, erow e, etag e).
(** the lower-triangular layout is the entry-wise transpose, tags included *)
Definition entries (P A : csc) (shapes : list shape) (tri : triangle) : list ent :=
  match tri with Triu => entries_triu P A shapes | Tril => map eswap (entries_triu P A shapes) end.

Definition kdim (P A : csc) (shapes : list shape) : nat := nc P + nr A + sum_by pdim shapes.

(** ** Sorting into CSC *)
Fixpoint ins_row (e : ent) (c : list ent) : list ent :=
  match c with
  | [] => [e]
  | x :: r => if erow e <=? erow x then e :: c else x :: ins_row e r
  end.
Definition sort_rows (c : list ent) : list ent := fold_right ins_row [] c.
Definition kcols (N : nat) (es : list ent) : list (list ent) :=
  map (fun j => sort_rows (filter (fun e => ecol e =? j) es)) (seq 0 N).
Definition sorted_entries (N : nat) (es : list ent) : list ent := concat (kcols N es).

Definition tag_val (P A : csc) (t : tag) : T :=
  match t with
  | TP k => nth k (vals P) (zero O)
  | TA k => nth k (vals A) (zero O)
  | _ => zero O
  end.

(** the intended matrix (structural zeros stored as zeros) *)
Definition kkt_matrix (P A : csc) (shapes : list shape) (tri : triangle) : csc :=
  let N := kdim P A shapes in
  mkCsc N N (map (map (fun e => (erow e, tag_val P A (etag e))))
                 (kcols N (entries P A shapes tri))).

(** ** Index maps = positions of the tags *)
Fixpoint index_of {X} (f : X -> bool) (l : list X) : nat :=
  match l with
  | [] => 0
  | x :: r => if f x then 0 else S (index_of f r)
  end.
Definition pos (se : list ent) (t : tag) : nat := index_of (fun e => tag_eqb (etag e) t) se.
Definition pos_rc (se : list ent) (i j : nat) : nat :=
  index_of (fun e => (erow e =? i) && (ecol e =? j)) se.

Inductive smap : Set :=
| SocMap (u v D : list nat)
| GpMap (p q r D : list nat).
Record maps : Set := mkMaps
  { mP : list nat; mA : list nat; mHs : list nat; mSp : list smap;
    mDiagP : list nat; mDiagFull : list nat }.

Definition tagpos (se : list ent) (mk : nat -> tag) (len : nat) : list nat :=
  map (fun k => pos se (mk k)) (seq 0 len).

Fixpoint hs_map (se : list ent) (c : nat) (shapes : list shape) : list nat :=
  match shapes with
  | [] => []
  | s :: r => tagpos se (THs c) (blocklen s) ++ hs_map se (S c) r
  end.
Fixpoint sp_maps (se : list ent) (c : nat) (shapes : list shape) : list smap :=
  match shapes with
  | [] => []
  | s :: r =>
      match s with
      | SocSparse d =>
          [SocMap (tagpos se (TU c) d) (tagpos se (TV c) d) (tagpos se (TD c) 2)]
      | GenPow d1 d2 =>
          [GpMap (tagpos se (TGp c) (d1 + d2)) (tagpos se (TGq c) d1) (tagpos se (TGr c) d2)
                 (tagpos se (TD c) 3)]
      | _ => []
      end ++ sp_maps se (S c) r
  end.

Definition kkt_maps (P A : csc) (shapes : list shape) (tri : triangle) : maps :=
  let N := kdim P A shapes in
  let se := sorted_entries N (entries P A shapes tri) in
  let dfull := map (fun j => pos_rc se j j) (seq 0 N) in
  mkMaps (tagpos se TP (length (coords P))) (tagpos se TA (length (coords A)))
         (hs_map se 0 shapes) (sp_maps se 0 shapes)
         (firstn (nc P) dfull) dfull.

(** positions of the structural diagonal entries that are not user data (no recorded map in
    the Rust code; needed to state that the maps cover everything) *)
Definition miss_map (P A : csc) (shapes : list shape) (tri : triangle) : list nat :=
  let N := kdim P A shapes in
  let se := sorted_entries N (entries P A shapes tri) in
  map (fun i => pos se (TMiss i)) (filter (fun i => negb (has_diag P i)) (seq 0 (nc P))).

Definition smap_all (s : smap) : list nat :=
  match s with SocMap u v D => u ++ v ++ D | GpMap p q r D => p ++ q ++ r ++ D end.
Definition maps_all (mp : maps) (miss : list nat) : list nat :=
  mP mp ++ mA mp ++ miss ++ mHs mp ++ flat_map smap_all (mSp mp).

End KktSpec.

(** ** Expected pivot signs *)
Definition shape_signs (s : shape) : list Z :=
  match s with SocSparse _ => [-1; 1] | GenPow _ _ => [-1; -1; 1] | _ => [] end%Z.
Definition signs_spec (n m : nat) (shapes : list shape) : list Z :=
  repeat 1%Z n ++ repeat (-1)%Z m ++ flat_map shape_signs shapes.

(** ** The pattern the matrix is meant to have, said block by block (for [kkt_spec_dense]) *)
Section Pattern.
Context {T : Type}.
Notation csc := (@csc T).
Definition stored (M : csc) (i j : nat) : bool :=
  existsb (fun e => fst e =? i) (nth j (cols M) []).

(** (i,j) with i <= j is a position of the upper-triangular KKT pattern *)
Fixpoint cone_pat (o pcol : nat) (shapes : list shape) (i j : nat) : bool :=
  match shapes with
  | [] => false
  | s :: r =>
      let d := numel s in
      let inblk x := (o <=? x) && (x <? o + d) in
      match s with
      | Diag _ => inblk i && (i =? j)
      | Dense _ => inblk i && inblk j && (i <=? j)
      | SocSparse _ =>
          (inblk i && (i =? j))
          || (inblk i && ((j =? pcol) || (j =? pcol + 1)))
          || ((i =? j) && ((j =? pcol) || (j =? pcol + 1)))
      | GenPow d1 d2 =>
          (inblk i && (i =? j))
          || ((o <=? i) && (i <? o + d1) && (j =? pcol))
          || ((o + d1 <=? i) && (i <? o + d) && (j =? pcol + 1))
          || (inblk i && (j =? pcol + 2))
          || ((i =? j) && (pcol <=? j) && (j <? pcol + 3))
      end || cone_pat (o + d) (pcol + pdim s) r i j
  end.
Definition pattern_triu (P A : csc) (shapes : list shape) (i j : nat) : bool :=
  let n := nc P in let m := nr A in
  if j <? n then (stored P i j) || ((i =? j) && (i <? n))
  else if (j <? n + m) && (i <? n) then stored A (j - n) i
  else cone_pat n (n + m) shapes i j.
Definition pattern (P A : csc) (shapes : list shape) (tri : triangle) (i j : nat) : bool :=
  match tri with Triu => pattern_triu P A shapes i j | Tril => pattern_triu P A shapes j i end.
End Pattern.

(** ** Well-formed inputs *)
Definition upper_tri {T} (P : @csc T) : Prop :=
  forall j e, In e (nth j (cols P) []) -> fst e <= j.
Definition wf_input {T} (P A : @csc T) (shapes : list shape) : Prop :=
  canonicalb P = true /\ canonicalb A = true /\ nr P = nc P /\ nc A = nc P /\
  upper_tri P /\ sum_by numel shapes = nr A.

(** ** Statements: Schur complements of the sparse expansions (over the reals) *)
Section SchurStatements.
Local Open Scope R_scope.

(** eliminate the auxiliary variables [k < length C] (diagonal pivots [C]) from the symmetric
    block matrix [[A B]; [B' diag C]]: entry (i,j) of [A - B C^-1 B'] *)
Definition schur_elim (A : nat -> nat -> R) (B : nat -> nat -> R) (C : list R) (i j : nat) : R :=
  A i j - fold_right Rplus 0
            (map (fun k => B i k * B j k / nth k C 0) (seq 0 (length C))).

(** *** generalised power cone: the entries [update] writes.
    [dg] is the diagonal D = [d1; d2 ... d2], [qe]/[re] are q and r extended by zeros to
    the whole block (q lives on the first dim1 rows, r on the last dim2), [p] is full. *)
Definition gp_blockA (mu : R) (dg : nat -> R) (a b : nat) : R :=
  if Nat.eqb a b then - (mu * dg a) else 0.
Definition gp_blockB (mu : R) (p qe re : nat -> R) (a k : nat) : R :=
  match k with
  | 0%nat => - R_sqrt.sqrt mu * qe a
  | 1%nat => - R_sqrt.sqrt mu * re a
  | _ => - R_sqrt.sqrt mu * p a
  end.
Definition gp_auxD : list R := [-1; -1; 1].
(** -mu (D + pp' - qq' - rr'): minus the operator of GenPowerCone::mul_Hs *)
Definition stmt_genpow_expansion_schur : Prop :=
  forall (mu : R) (dg p qe re : nat -> R) (i j : nat), 0 <= mu ->
    schur_elim (gp_blockA mu dg) (gp_blockB mu p qe re) gp_auxD i j
    = - (mu * ((if Nat.eqb i j then dg i else 0) + p i * p j - qe i * qe j - re i * re j)).

(** *** second-order cone, with d, u, v as computed by [update_scaling] from the normalised
    scaling point w (w0 = R_sqrt.sqrt (1 + |w1|^2), [w1sq] = |w1|^2) *)
Definition soc_wsq (w0 w1sq : R) : R := w0 * w0 + w1sq.
Definition soc_d (w0 w1sq : R) : R := / 2 * / soc_wsq w0 w1sq.
Definition soc_u0 (w0 w1sq : R) : R := R_sqrt.sqrt (soc_wsq w0 w1sq - soc_d w0 w1sq).
Definition soc_u1 (w0 w1sq : R) : R := 2 * w0 / soc_u0 w0 w1sq.
Definition soc_v1 (w0 w1sq : R) : R :=
  R_sqrt.sqrt (2 * (2 + / soc_wsq w0 w1sq) / (2 * soc_wsq w0 w1sq - / soc_wsq w0 w1sq)).
Definition soc_u (w : nat -> R) (w1sq : R) (a : nat) : R :=
  match a with 0%nat => soc_u0 (w 0%nat) w1sq | _ => soc_u1 (w 0%nat) w1sq * w a end.
Definition soc_v (w : nat -> R) (w1sq : R) (a : nat) : R :=
  match a with 0%nat => 0 | _ => soc_v1 (w 0%nat) w1sq * w a end.
(** -Hs on the block diagonal: -eta^2 * [d, 1, ..., 1] *)
Definition soc_blockA (eta : R) (w : nat -> R) (w1sq : R) (a b : nat) : R :=
  if Nat.eqb a b then - (eta * eta * match a with 0%nat => soc_d (w 0%nat) w1sq | _ => 1 end) else 0.
(** first auxiliary column v, second u, both scaled by -eta^2 *)
Definition soc_blockB (eta : R) (w : nat -> R) (w1sq : R) (a k : nat) : R :=
  match k with
  | 0%nat => soc_v w w1sq a * - (eta * eta)
  | _ => soc_u w w1sq a * - (eta * eta)
  end.
Definition soc_auxD (eta : R) : list R := [- (eta * eta); eta * eta].
(** -eta^2 (2 w w' - J), J = diag(1, -1, ..., -1): minus the operator of
    SecondOrderCone::mul_Hs *)
Definition stmt_soc_expansion_schur : Prop :=
  forall (eta w1sq : R) (w : nat -> R) (i j : nat),
    eta <> 0 -> 0 <= w1sq -> w 0%nat = R_sqrt.sqrt (1 + w1sq) ->
    schur_elim (soc_blockA eta w w1sq) (soc_blockB eta w w1sq) (soc_auxD eta) i j
    = - (eta * eta * (2 * w i * w j
                      - (if Nat.eqb i j then match i with 0%nat => 1 | _ => -1 end else 0))).
End SchurStatements.

(** ** Statements about the intended layout *)
Definition cols_lt (N : nat) (es : list ent) : Prop := Forall (fun e => ecol e < N) es.
Definition tags_nodup (es : list ent) : Prop := NoDup (map etag es).
(** boolean forms, evaluated by the correspondence on every generated layout *)
Definition cols_ltb (N : nat) (es : list ent) : bool := forallb (fun e => ecol e <? N) es.
Fixpoint nodupb_tags (l : list tag) : bool :=
  match l with
  | [] => true
  | t :: r => negb (existsb (tag_eqb t) r) && nodupb_tags r
  end.

(** sorting into CSC neither loses nor duplicates an entry *)
Definition stmt_sorted_entries_perm : Prop :=
  forall (N : nat) (es : list ent), cols_lt N es ->
    Permutation (sorted_entries N es) es.

(** maps_partition (partial: the two hypotheses — every entry lies in a column < N, tags
    pairwise distinct — are evaluated as booleans on every generated layout instead of being
    derived from [wf_input]; see design.d/C11.md):
    the index sets recorded for different tags are pairwise disjoint and together cover
    [0 .. nnz): position q holds exactly the entry whose tag's map is q. *)
Definition stmt_maps_partition_partial : Prop :=
  forall (N : nat) (es : list ent), cols_lt N es -> tags_nodup es ->
    let se := sorted_entries N es in
    length se = length es
    /\ (forall t, In t (map etag es) -> pos se t < length se /\ etag (nth (pos se t) se (0, 0, TP 0)) = t)
    /\ (forall t t', In t (map etag es) -> In t' (map etag es) -> pos se t = pos se t' -> t = t')
    /\ (forall q, q < length se -> exists t, In t (map etag es) /\ pos se t = q).
Definition stmt_boolean_hyps_sound : Prop :=
  forall (N : nat) (es : list ent),
    cols_ltb N es = true -> nodupb_tags (map etag es) = true -> cols_lt N es /\ tags_nodup es.

(** diag_complete: the intended layout stores an entry on every diagonal position (user entry of
    P, structural entry where P has none, diagonal of every Hs block, auxiliary diagonal) *)
Definition stmt_diag_complete : Prop :=
  forall T (P A : @csc T) (shapes : list shape) (tri : triangle),
    length (cols P) = nc P -> sum_by numel shapes = nr A ->
    forall j, j < kdim P A shapes ->
      exists e, In e (entries P A shapes tri) /\ erow e = j /\ ecol e = j.


(** the two hypotheses of [maps_partition_partial], derived *)
Definition stmt_tags_nodup : Prop :=
  forall T (P A : @csc T) (shapes : list shape) (tri : triangle), tags_nodup (entries P A shapes tri).
Definition stmt_cols_lt : Prop :=
  forall T (P A : @csc T) (shapes : list shape) (tri : triangle), wf_input P A shapes ->
    cols_lt (kdim P A shapes) (entries P A shapes tri).
