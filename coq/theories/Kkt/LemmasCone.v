(** C11 — one lemma per zero-filling primitive of csc/utils.rs (each is a script run over the
    Spec entries it is responsible for) and the cone loop of the Triu fill pass. *)
From Coq Require Import List Arith ZArith Lia Bool Permutation.
Import ListNotations.
Require Import Clarabel.Base.Ops Clarabel.Csc.Model Clarabel.Csc.LemmasStruct.
Require Import Clarabel.Kkt.Spec Clarabel.Kkt.Model Clarabel.Kkt.Stmts Clarabel.Kkt.LemmasSpec Clarabel.Kkt.LemmasWf.

Section P.
Context {T : Type} (O : Ops T).
Notation zval := (fun _ : tag => zero O).

Lemma run_script_app (val : tag -> T) a : forall s b,
  run_script val s (a ++ b) =
  let '(s1, d1) := run_script val s a in let '(s2, d2) := run_script val s1 b in (s2, d1 ++ d2).
Proof.
  induction a as [|e a IH]; intros s b; cbn [app run_script].
  - destruct (run_script val s b); reflexivity.
  - destruct (put s (ecol e) (erow e) (val (etag e))) as [s1 d]. rewrite IH.
    destruct (run_script val s1 a) as [s2 d1]. destruct (run_script val s2 b) as [s3 d2]. reflexivity.
Qed.
Lemma run_script_ext (v1 v2 : tag -> T) es : forall s,
  (forall e, In e es -> v1 (etag e) = v2 (etag e)) -> run_script v1 s es = run_script v2 s es.
Proof.
  induction es as [|e es IH]; intros s H; [reflexivity|]. cbn [run_script].
  rewrite (H e) by (left; reflexivity).
  destruct (put s (ecol e) (erow e) (v2 (etag e))) as [s1 d]. rewrite IH; [reflexivity|].
  intros x Hx. apply H. right; exact Hx.
Qed.
Lemma run_script_length (val : tag -> T) es : forall s, length (snd (run_script val s es)) = length es.
Proof.
  induction es as [|e es IH]; intros s; [reflexivity|]. cbn [run_script].
  destruct (put s (ecol e) (erow e) (val (etag e))) as [s1 d]. specialize (IH s1).
  destruct (run_script val s1 es) as [s2 ds]. cbn [snd length] in *. now rewrite IH.
Qed.

Lemma puts_gen es : forall s acc,
  fold_left (fun sm rc => let '(s', d) := put (fst sm) (snd rc) (fst rc) (zero O) in (s', snd sm ++ [d]))
            (map (fun e => (erow e, ecol e)) es) (s, acc)
  = (fst (run_script zval s es), acc ++ snd (run_script zval s es)).
Proof.
  induction es as [|e es IH]; intros s acc; cbn [map fold_left run_script fst snd].
  - now rewrite app_nil_r.
  - destruct (put s (ecol e) (erow e) (zero O)) as [s1 d]. rewrite IH.
    destruct (run_script zval s1 es) as [s2 ds]. cbn [fst snd]. now rewrite <- app_assoc.
Qed.
Lemma puts_run s es : puts O s (map (fun e => (erow e, ecol e)) es) = run_script zval s es.
Proof. unfold puts. rewrite puts_gen. cbn [app]. now destruct (run_script zval s es). Qed.

(** one lemma per zero-filling primitive of csc/utils.rs (Triu use) *)
Lemma fill_diag_script s c o d : fill_diag O s o d = run_script zval s (eDiagBlk c o d).
Proof. unfold fill_diag, eDiagBlk. rewrite <- puts_run, map_map. reflexivity. Qed.
Lemma fill_auxdiag_script s c pcol k : fill_diag O s pcol k = run_script zval s (eAuxD c pcol k).
Proof. unfold fill_diag, eAuxD. rewrite <- puts_run, map_map. reflexivity. Qed.
Lemma fill_colvec_script s mk row col len : fill_colvec O s len row col = run_script zval s (eVec mk row col len).
Proof. unfold fill_colvec, eVec. rewrite <- puts_run, map_map. reflexivity. Qed.
Lemma fill_rowvec_script s mk row col len :
  fill_rowvec O s len col row = run_script zval s (map eswap (eVec mk row col len)).
Proof. unfold fill_rowvec, eVec. rewrite <- puts_run, !map_map. reflexivity. Qed.
Lemma fill_dense_triu_script s c o pcol d :
  fill_dense_triangle O s o d Triu = run_script zval s (eCone c o pcol (Dense d)).
Proof.
  unfold fill_dense_triangle, eCone. rewrite <- puts_run. f_equal.
  rewrite map_flat_map'. apply flat_map_ext. intros t. now rewrite map_map.
Qed.
End P.

Lemma take_app {X} (a b : list X) n : length a = n -> take n (a ++ b) = (a, b).
Proof.
  intros <-. unfold take. f_equal.
  - rewrite firstn_app, Nat.sub_diag, firstn_all. cbn. now rewrite app_nil_r.
  - rewrite skipn_app, Nat.sub_diag, skipn_all. reflexivity.
Qed.

Section Q.
Context {T : Type} (O : Ops T).
Notation zval := (fun _ : tag => zero O).

Lemma len_eDiagBlk c o d : length (eDiagBlk c o d) = d.
Proof. unfold eDiagBlk. now rewrite map_length, seq_length. Qed.
Lemma len_eVec mk r c n : length (eVec mk r c n) = n.
Proof. unfold eVec. now rewrite map_length, seq_length. Qed.
Lemma len_eAuxD c p k : length (eAuxD c p k) = k.
Proof. unfold eAuxD. now rewrite map_length, seq_length. Qed.
Lemma length_flat_map_eq {X Y Z} (f : X -> list Y) (g : X -> list Z) l :
  (forall x, length (f x) = length (g x)) -> length (flat_map f l) = length (flat_map g l).
Proof. intros H. induction l as [|x l IH]; cbn [flat_map]; [reflexivity|]. now rewrite !app_length, H, IH. Qed.
Lemma len_dense c o pcol d : length (eCone c o pcol (Dense d)) = tri_num d.
Proof.
  unfold eCone. rewrite <- (seq_length (tri_num d) 0), <- dense_idx_seq.
  apply length_flat_map_eq. intros t. now rewrite !map_length.
Qed.
End Q.

Section R.
Context {T : Type} (O : Ops T).
Notation zval := (fun _ : tag => zero O).

Ltac run_as s1 ds E HL :=
  match goal with
  | |- context [run_script zval ?s ?es] =>
      destruct (run_script zval s es) as [s1 ds] eqn:E;
      pose proof (run_script_length zval es s) as HL; rewrite E in HL; cbn [snd] in HL;
      cbv beta iota; rewrite ?run_script_app
  end.

Lemma cone_one s0 c row pcol s tail :
  let '(s1, blk) := if hs_is_diagonal s then fill_diag O s0 row (numel s)
                    else fill_dense_triangle O s0 row (numel s) Triu in
  let '(s2, sm) := if sparse_expandable s then fill_sparsecone O s1 s row pcol Triu else (s1, []) in
  fst (run_script zval s0 (eCone c row pcol s)) = s2 /\
  regroup1 s (snd (run_script zval s0 (eCone c row pcol s)) ++ tail) = (blk, sm, tail).
Proof.
  destruct s as [d|d|d|d1 d2]; cbn [hs_is_diagonal sparse_expandable numel].
  - rewrite (fill_diag_script O s0 c row d). unfold eCone.
    run_as s1 blk E HL. rewrite len_eDiagBlk in HL. cbn [fst snd].
    split; [reflexivity|]. unfold regroup1. cbn [blocklen numel]. now rewrite take_app.
  - rewrite (fill_dense_triu_script O s0 c row pcol d).
    run_as s1 blk E HL. rewrite len_dense in HL. cbn [fst snd].
    split; [reflexivity|]. unfold regroup1. cbn [blocklen]. now rewrite take_app.
  - unfold eCone. rewrite !run_script_app.
    rewrite (fill_diag_script O s0 c row d). run_as s1 blk E1 HL1. rewrite len_eDiagBlk in HL1.
    unfold fill_sparsecone.
    rewrite (fill_colvec_script O s1 (TV c) row pcol d). run_as s2 v E2 HL2. rewrite len_eVec in HL2.
    rewrite (fill_colvec_script O s2 (TU c) row (pcol + 1) d). run_as s3 u E3 HL3. rewrite len_eVec in HL3.
    rewrite (fill_auxdiag_script O s3 c pcol 2). run_as s4 dd E4 HL4. rewrite len_eAuxD in HL4.
    cbn [fst snd]. split; [reflexivity|].
    unfold regroup1. cbn [blocklen numel]. rewrite <- !app_assoc.
    rewrite (take_app blk) by exact HL1. rewrite (take_app v) by exact HL2.
    rewrite (take_app u) by exact HL3. rewrite (take_app dd) by exact HL4. reflexivity.
  - unfold eCone. rewrite !run_script_app.
    rewrite (fill_diag_script O s0 c row (d1 + d2)). run_as s1 blk E1 HL1. rewrite len_eDiagBlk in HL1.
    unfold fill_sparsecone.
    rewrite (fill_colvec_script O s1 (TGq c) row pcol d1). run_as s2 q E2 HL2. rewrite len_eVec in HL2.
    rewrite (fill_colvec_script O s2 (TGr c) (row + d1) (pcol + 1) d2). run_as s3 r E3 HL3. rewrite len_eVec in HL3.
    rewrite (fill_colvec_script O s3 (TGp c) row (pcol + 2) (d1 + d2)). run_as s4 p E4 HL4. rewrite len_eVec in HL4.
    rewrite (fill_auxdiag_script O s4 c pcol 3). run_as s5 dd E5 HL5. rewrite len_eAuxD in HL5.
    cbn [fst snd]. split; [reflexivity|].
    unfold regroup1. cbn [blocklen numel]. rewrite <- !app_assoc.
    rewrite (take_app blk) by exact HL1. rewrite (take_app q) by exact HL2.
    rewrite (take_app r) by exact HL3. rewrite (take_app p) by exact HL4.
    rewrite (take_app dd) by exact HL5. reflexivity.
Qed.
End R.

Section S.
Context {T : Type} (O : Ops T).
Notation zval := (fun _ : tag => zero O).

Lemma cones_fill_zval shapes : forall s c row pcol,
  let '(s1, hs, sps) := cones_fill O s shapes row pcol Triu in
  let '(s2, ds) := run_script zval s (eCones c row pcol shapes) in
  s1 = s2 /\ (hs, sps) = regroup shapes ds.
Proof.
  induction shapes as [|sh shapes IH]; intros s c row pcol.
  - cbn. split; reflexivity.
  - cbn [cones_fill eCones regroup]. rewrite run_script_app.
    pose proof (cone_one O s c row pcol sh) as H1.
    destruct (if hs_is_diagonal sh then fill_diag O s row (numel sh)
              else fill_dense_triangle O s row (numel sh) Triu) as [s1 blk].
    destruct (if sparse_expandable sh then fill_sparsecone O s1 sh row pcol Triu else (s1, [])) as [s2 sm].
    destruct (run_script zval s (eCone c row pcol sh)) as [s2' d1]. cbn [fst snd] in H1.
    specialize (IH s2 (S c) (row + numel sh) (pcol + pdim sh)).
    destruct (cones_fill O s2 shapes (row + numel sh) (pcol + pdim sh) Triu) as [[s3 blks] sms].
    destruct (H1 []) as [Hs _]. subst s2'.
    destruct (run_script zval s2 (eCones (S c) (row + numel sh) (pcol + pdim sh) shapes)) as [s3' d2].
    destruct IH as [-> Hr]. split; [reflexivity|].
    destruct (H1 d2) as [_ Hg]. rewrite Hg. rewrite <- Hr. reflexivity.
Qed.

End S.

Lemma cones_fill_script_ok : stmt_cones_fill_script.
Proof.
  unfold stmt_cones_fill_script. intros T O val s shapes c row pcol Hv.
  rewrite (run_script_ext val (fun _ => zero O) _ s Hv).
  apply (cones_fill_zval O).
Qed.
