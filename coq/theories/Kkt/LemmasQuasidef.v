(** C11 — quasi-definiteness of the regularised KKT matrix in the recorded sign pattern: block
    statement for layouts without sparse expansions, and the sign block of the sparse SOC. *)
From Coq Require Import List Arith ZArith Lia Bool Permutation Sorted Reals Lra Psatz.
Import ListNotations.
Require Import Clarabel.Base.Ops Clarabel.Csc.Model Clarabel.Csc.Spec Clarabel.Csc.LemmasStruct.
Require Import Clarabel.Kkt.Spec Clarabel.Kkt.Model Clarabel.Kkt.Stmts Clarabel.Kkt.LemmasSpec Clarabel.Kkt.LemmasVals Clarabel.Kkt.LemmasSchur.
Require Import Clarabel.Kkt.LemmasDiag Clarabel.Kkt.LemmasWf Clarabel.Kkt.LemmasFill Clarabel.Kkt.LemmasRefine Clarabel.Kkt.LemmasCone Clarabel.Kkt.LemmasCount Clarabel.Kkt.LemmasRaw Clarabel.Kkt.LemmasOrder Clarabel.Kkt.LemmasDiagPos Clarabel.Kkt.LemmasAssemble Clarabel.Kkt.LemmasTril Clarabel.Kkt.LemmasDense Clarabel.Kkt.LemmasSchurDense.
Local Open Scope R_scope.

Lemma rsum_S f n : rsum f (S n) = rsum f n + f n.
Proof.
  unfold rsum. rewrite seq_S, map_app. cbn [map plus].
  induction (map f (seq 0 n)) as [|a l IH]; cbn [app fold_right]; [lra | rewrite IH; lra].
Qed.
Lemma rsum_ext f g n : (forall i, (i < n)%nat -> f i = g i) -> rsum f n = rsum g n.
Proof.
  induction n as [|n IH]; intros H; [reflexivity|]. rewrite !rsum_S.
  rewrite IH by (intros i Hi; apply H; lia). rewrite (H n) by lia. reflexivity.
Qed.
Lemma rsum_zero f n : (forall i, (i < n)%nat -> f i = 0) -> rsum f n = 0.
Proof.
  induction n as [|n IH]; intros H; [reflexivity|]. rewrite rsum_S.
  rewrite IH by (intros i Hi; apply H; lia). rewrite (H n) by lia. lra.
Qed.
Lemma rsum_split f a k : rsum f (a + k) = rsum f a + rsum (fun i => f (a + i)%nat) k.
Proof.
  induction k as [|k IH]; [rewrite Nat.add_0_r; unfold rsum at 3; cbn; lra|].
  replace (a + S k)%nat with (S (a + k)) by lia. rewrite !rsum_S, IH. lra.
Qed.
Lemma rsum_plus f g n : rsum (fun i => f i + g i) n = rsum f n + rsum g n.
Proof. induction n as [|n IH]; [unfold rsum; cbn; lra|]. rewrite !rsum_S, IH. lra. Qed.
Lemma rsum_scal c f n : rsum (fun i => c * f i) n = c * rsum f n.
Proof. induction n as [|n IH]; [unfold rsum; cbn; lra|]. rewrite !rsum_S, IH. lra. Qed.
Lemma rsum_nonneg f n : (forall i, (i < n)%nat -> 0 <= f i) -> 0 <= rsum f n.
Proof.
  induction n as [|n IH]; intros H; [unfold rsum; cbn; lra|]. rewrite rsum_S.
  assert (0 <= rsum f n) by (apply IH; intros; apply H; lia). specialize (H n ltac:(lia)). lra.
Qed.
Lemma rsum_pos f n : (forall i, (i < n)%nat -> 0 <= f i) -> (exists i, (i < n)%nat /\ 0 < f i) -> 0 < rsum f n.
Proof.
  induction n as [|n IH]; intros H [i [Hi Hp]]; [lia|]. rewrite rsum_S.
  assert (H0 : 0 <= rsum f n) by (apply rsum_nonneg; intros; apply H; lia).
  pose proof (H n ltac:(lia)) as Hn.
  destruct (Nat.eq_dec i n) as [->|Hne]; [lra|].
  assert (0 < rsum f n); [|lra]. apply IH; [intros; apply H; lia | exists i; split; [lia | exact Hp]].
Qed.
Lemma rsum_delta (c : nat -> R) (x : nat -> R) i n : (i < n)%nat ->
  rsum (fun j => x i * (if Nat.eqb i j then c i else 0) * x j) n = x i * c i * x i.
Proof.
  induction n as [|n IH]; intros Hi; [lia|]. rewrite rsum_S.
  destruct (Nat.eq_dec i n) as [->|Hne].
  - rewrite Nat.eqb_refl. rewrite rsum_zero; [lra|].
    intros j Hj. replace (n =? j)%nat with false by (symmetry; apply Nat.eqb_neq; lia). lra.
  - rewrite IH by lia. replace (i =? n)%nat with false by (symmetry; apply Nat.eqb_neq; lia). lra.
Qed.

(** a vector supported on [a, a+k) sees only that principal block *)
Lemma qform_support M x N a k : (a + k <= N)%nat ->
  (forall i, (i < a \/ a + k <= i)%nat -> x i = 0) ->
  qform M x N = rsum (fun i => rsum (fun j => x (a + i)%nat * M (a + i)%nat (a + j)%nat * x (a + j)%nat) k) k.
Proof.
  intros Hle Hx. unfold qform.
  assert (Hin : forall i, rsum (fun j => x i * M i j * x j) N
                          = rsum (fun j => x i * M i (a + j)%nat * x (a + j)%nat) k).
  { intros i. replace N with (a + (k + (N - a - k)))%nat by lia. rewrite rsum_split, rsum_split.
    rewrite (rsum_zero _ a) by (intros j Hj; rewrite (Hx j) by lia; lra).
    rewrite (rsum_zero _ (N - a - k)) by (intros j Hj; rewrite (Hx (a + (k + j))%nat) by lia; lra). lra. }
  replace N with (a + (k + (N - a - k)))%nat at 1 by lia. rewrite rsum_split, rsum_split.
  rewrite (rsum_zero _ a).
  2:{ intros i Hi. apply rsum_zero. intros j _. rewrite (Hx i) by lia. lra. }
  rewrite (rsum_zero _ (N - a - k)).
  2:{ intros i Hi. apply rsum_zero. intros j _. rewrite (Hx (a + (k + i))%nat) by lia. lra. }
  rewrite Rplus_0_l, Rplus_0_r. apply rsum_ext. intros i Hi.
  replace (a + (k + (N - a - k)))%nat with N by lia. apply Hin.
Qed.

(** the (1,1) block of the intended matrix is the upper triangle of P, whatever values the cone
    tags carry *)
Lemma kkt_P_block {T} (O : Ops T) (val : tag -> T) (P A : @csc T) shapes :
  Laws O -> wf_input P A shapes ->
  (forall k, val (TP k) = nth k (vals P) (zero O)) -> (forall i, val (TMiss i) = zero O) ->
  forall i j, (i <= j)%nat -> (j < nc P)%nat ->
    get O (kkt_matrix_v val P A shapes Triu) i j = get O P i j.
Proof.
  intros HL Hwf HvP HvM i j Hij Hj. pose proof Hwf as [HP [HA [Hsq [HnA [Hup Hm]]]]].
  destruct (find_pos (entries_triu P A shapes) i j) as [[e [He [Hr Hc]]]|Hno].
  - rewrite <- Hr, <- Hc. rewrite (kkt_get_entry_ok' O HL val P A shapes Triu Hwf e He).
    unfold entries_triu in He. rewrite !in_app_iff in He. destruct He as [He|[He|[He|He]]].
    + unfold eP in He. apply in_map_iff in He. destruct He as [[k [r c]] [<- Hk]].
      unfold erow, ecol, etag. cbn [fst snd]. rewrite HvP. symmetry. now apply (coords_val O HL P k r c HP).
    + pose proof (eMiss_in P (nc P) e He) as [Hrc [Hcl Hhd]].
      unfold eMiss in He. apply in_map_iff in He. destruct He as [i0 [<- _]].
      unfold erow, ecol, etag in *. cbn [fst snd] in *. rewrite HvM. symmetry.
      unfold get. apply (colget_zero O). intros x Hx Hfx. unfold has_diag in Hhd.
      assert (existsb (fun e => fst e =? i0)%nat (nth i0 (cols P) []) = true); [|congruence].
      apply existsb_exists. exists x. split; [exact Hx | now apply Nat.eqb_eq].
    + apply (eA_in A (nc P) e HA) in He. lia.
    + apply eCones_bounds in He. unfold inrng in He. lia.
  - rewrite (kkt_get_none_ok' O val P A shapes Triu Hwf i j Hno).
    symmetry. apply (get_not_stored O). intro Hin.
    destruct (in_indexed_ex _ _ Hin) as [k Hk].
    apply (Hno (i, j, TP k)); [|split; reflexivity].
    unfold entries_triu. apply in_or_app; left. unfold eP. apply in_map_iff. exists (k, (i, j)). split; [reflexivity | exact Hk].
Qed.

Lemma signs_spec_nth n m shapes i :
  nth i (signs_spec n m shapes) 0%Z = if (i <? n)%nat then 1%Z else if (i <? n + m)%nat then (-1)%Z else nth (i - n - m) (flat_map shape_signs shapes) 0%Z.
Proof.
  unfold signs_spec. destruct (i <? n)%nat eqn:E1.
  - apply Nat.ltb_lt in E1. rewrite app_nth1 by (now rewrite repeat_length).
    rewrite (nth_indep _ 0%Z 1%Z) by (now rewrite repeat_length). apply nth_repeat.
  - apply Nat.ltb_ge in E1. rewrite app_nth2 by (now rewrite repeat_length). rewrite repeat_length.
    destruct (i <? n + m)%nat eqn:E2.
    + apply Nat.ltb_lt in E2. rewrite app_nth1 by (rewrite repeat_length; lia).
      rewrite (nth_indep _ 0%Z (-1)%Z) by (rewrite repeat_length; lia). apply nth_repeat.
    + apply Nat.ltb_ge in E2. rewrite app_nth2 by (rewrite repeat_length; lia). rewrite repeat_length.
      f_equal; lia.
Qed.

Lemma sq_sum_pos (x : nat -> R) a k : (exists i, (i < k)%nat /\ x (a + i)%nat <> 0) ->
  0 < rsum (fun i => x (a + i)%nat * x (a + i)%nat) k.
Proof.
  intros [i [Hi Hx]]. apply rsum_pos.
  - intros j _. nra.
  - exists i. split; [exact Hi|]. nra.
Qed.

Lemma quasidef_blocks_ok : stmt_quasidef_blocks.
Proof.
  unfold stmt_quasidef_blocks. intros P A shapes val eps Hwf Hnp Heps HvP HvM. cbv zeta.
  set (n := nc P). set (m := nr A). set (K := kkt_matrix_v val P A shapes Triu).
  intros HPpsd HHpsd. pose proof laws_R as HL.
  split.
  - intros x Hx0 Hxne.
    rewrite (qform_support _ x (n + m) 0 n) by (try lia; intros i Hi; apply Hx0; lia).
    cbn [plus].
    assert (Heq : forall i, (i < n)%nat ->
              rsum (fun j => x i * kreg K (signs_spec n m shapes) eps i j * x j) n
              = rsum (fun j => x i * sym_of (get OpsR P) i j * x j) n + eps * (x i * x i)).
    { intros i Hi. unfold kreg.
      rewrite (rsum_ext _ (fun j => x i * sym_of (get OpsR P) i j * x j
                                    + x i * (if Nat.eqb i j then eps * IZR (nth i (signs_spec n m shapes) 0%Z) else 0) * x j)).
      - rewrite rsum_plus. rewrite (rsum_delta (fun i => eps * IZR (nth i (signs_spec n m shapes) 0%Z)) x i n Hi).
        rewrite signs_spec_nth. replace (i <? n)%nat with true by (symmetry; now apply Nat.ltb_lt). lra.
      - intros j Hj. unfold sym_get, sym_of. destruct (i <=? j)%nat eqn:E.
        + apply Nat.leb_le in E. unfold K. rewrite (kkt_P_block OpsR val P A shapes HL Hwf HvP HvM i j E Hj). lra.
        + apply Nat.leb_gt in E. unfold K. rewrite (kkt_P_block OpsR val P A shapes HL Hwf HvP HvM j i ltac:(lia) Hi). lra. }
    rewrite (rsum_ext _ _ n Heq). rewrite rsum_plus, rsum_scal.
    pose proof (HPpsd x) as H1. unfold qform in H1.
    assert (0 < rsum (fun i => x i * x i) n).
    { apply (sq_sum_pos x 0 n). destruct Hxne as [i [Hi Hne]]. exists i. split; assumption. }
    nra.
  - intros z Hz0 Hzne.
    rewrite (qform_support _ z (n + m) n m) by (try lia; intros i Hi; apply Hz0; lia).
    assert (Heq : forall a, (a < m)%nat ->
              rsum (fun b => z (n + a)%nat * kreg K (signs_spec n m shapes) eps (n + a) (n + b) * z (n + b)%nat) m
              = - rsum (fun b => z (n + a)%nat * (- sym_get K (n + a) (n + b)) * z (n + b)%nat) m
                - eps * (z (n + a)%nat * z (n + a)%nat)).
    { intros a Ha. unfold kreg.
      rewrite (rsum_ext _ (fun b => -1 * (z (n + a)%nat * (- sym_get K (n + a) (n + b)) * z (n + b)%nat)
                                    + (fun k => z (n + k)%nat) a * (if Nat.eqb a b then (fun k => eps * IZR (nth (n + k) (signs_spec n m shapes) 0%Z)) a else 0) * (fun k => z (n + k)%nat) b)).
      - rewrite rsum_plus, rsum_scal.
        rewrite (rsum_delta (fun k => eps * IZR (nth (n + k) (signs_spec n m shapes) 0%Z)) (fun k => z (n + k)%nat) a m Ha).
        rewrite signs_spec_nth. replace (n + a <? n)%nat with false by (symmetry; apply Nat.ltb_ge; lia).
        replace (n + a <? n + m)%nat with true by (symmetry; apply Nat.ltb_lt; lia). lra.
      - intros b Hb. replace (n + a =? n + b)%nat with (a =? b)%nat.
        + lra.
        + destruct (Nat.eqb_spec a b) as [->|Hne]; [now rewrite Nat.eqb_refl | symmetry; apply Nat.eqb_neq; lia]. }
    rewrite (rsum_ext _ _ m Heq).
    rewrite (rsum_ext _ (fun a => -1 * rsum (fun b => z (n + a)%nat * - sym_get K (n + a) (n + b) * z (n + b)%nat) m
                                  + (- eps) * (z (n + a)%nat * z (n + a)%nat))) by (intros; lra).
    rewrite rsum_plus, !rsum_scal.
    pose proof (HHpsd (fun a => z (n + a)%nat)) as H1. unfold qform in H1.
    assert (0 < rsum (fun a => z (n + a)%nat * z (n + a)%nat) m).
    { apply (sq_sum_pos z n m). destruct Hzne as [i [Hi Hne]]. exists (i - n)%nat. split; [lia|].
      now replace (n + (i - n))%nat with i by lia. }
    nra.
Qed.

Lemma rsum_S_first f n : rsum f (S n) = f 0%nat + rsum (fun a => f (S a)) n.
Proof.
  induction n as [|n IH]; [unfold rsum; cbn; lra|].
  rewrite rsum_S, IH, rsum_S. lra.
Qed.

Lemma sum_sq_expand (z w : nat -> R) c n :
  rsum (fun a => (z a + c * w a) * (z a + c * w a)) n
  = rsum (fun a => z a * z a) n + 2 * c * rsum (fun a => w a * z a) n + c * c * rsum (fun a => w a * w a) n.
Proof. induction n as [|n IH]; [unfold rsum; cbn; lra|]. rewrite !rsum_S, IH. ring. Qed.

Lemma soc_expansion_signs_ok : stmt_soc_expansion_signs.
Proof.
  unfold stmt_soc_expansion_signs. intros eta eps w1sq w z d' t Heps Hw1 Hw0. cbv zeta.
  assert (Hw1n : 0 <= w1sq) by (rewrite Hw1; apply rsum_nonneg; intros; nra).
  set (w0 := w 0%nat) in *.
  assert (Hw0sq : w0 * w0 = 1 + w1sq) by (rewrite Hw0; apply sqrt_sqrt; lra).
  split.
  2:{ intros [He|He]; nra. }
  rewrite !rsum_S_first.
  unfold soc_blockA, soc_blockB, soc_v, soc_v1, soc_d, soc_wsq. cbn [Nat.eqb]. fold w0.
  set (wsq := w0 * w0 + w1sq).
  assert (Hwsq : wsq = 1 + 2 * w1sq) by (unfold wsq; lra).
  assert (Hwsq1 : 1 <= wsq) by lra.
  assert (Hinv : 0 < / wsq <= 1).
  { split; [apply Rinv_0_lt_compat; lra|]. rewrite <- Rinv_1. apply Rinv_le_contravar; lra. }
  assert (Hden : 0 < 2 * wsq - / wsq) by nra.
  set (v1 := R_sqrt.sqrt (2 * (2 + / wsq) / (2 * wsq - / wsq))).
  assert (Hv1sq : v1 * v1 = 2 * (2 + / wsq) / (2 * wsq - / wsq)).
  { unfold v1. apply sqrt_sqrt. apply Rmult_le_pos; [lra|]. left. apply Rinv_0_lt_compat. lra. }
  (* v1^2 |w1|^2 <= 1 *)
  assert (Hkey : v1 * v1 * w1sq <= 1).
  { assert (Hi : / wsq * wsq = 1) by (apply Rinv_l; lra).
    assert (Hv' : v1 * v1 * (2 * wsq - / wsq) = 2 * (2 + / wsq)).
    { rewrite Hv1sq. unfold Rdiv. rewrite Rmult_assoc, Rinv_l by lra. ring. }
    apply (Rmult_le_reg_r (2 * wsq - / wsq)); [exact Hden|].
    replace (v1 * v1 * w1sq * (2 * wsq - / wsq)) with (v1 * v1 * (2 * wsq - / wsq) * w1sq) by ring.
    rewrite Hv'. nra. }
  set (S1 := rsum (fun a => z (S a) * z (S a)) d').
  set (S2 := rsum (fun a => w (S a) * z (S a)) d').
  assert (Hsq : forall c, 0 <= S1 + 2 * c * S2 + c * c * w1sq).
  { intros c. assert (H : rsum (fun a => (z (S a) + c * w (S a)) * (z (S a) + c * w (S a))) d'
                          = S1 + 2 * c * S2 + c * c * w1sq).
    { unfold S1, S2. rewrite Hw1. apply (sum_sq_expand (fun a => z (S a)) (fun a => w (S a)) c d'). }
    rewrite <- H. apply rsum_nonneg. intros a _. exact (Rle_0_sqr (z (S a) + c * w (S a))). }
  (* rewrite the three sums *)
  assert (HsA : rsum (fun a => ((if (a =? a)%nat then - (eta * eta * 1) else 0) - eps) * (z (S a) * z (S a))) d' = (- (eta * eta) - eps) * S1).
  { unfold S1. rewrite <- rsum_scal. apply rsum_ext. intros a _. rewrite Nat.eqb_refl. ring. }
  assert (HsB : rsum (fun a => v1 * w (S a) * - (eta * eta) * z (S a)) d' = - (eta * eta) * v1 * S2).
  { unfold S2. rewrite <- rsum_scal. apply rsum_ext. intros a _. ring. }
  rewrite HsA, HsB. fold S1.
  assert (Hd : 0 <= / 2 * / wsq) by nra.
  pose proof (Hsq (t * v1)) as Hc.
  assert (He2 : 0 <= eta * eta) by nra.
  assert (Hb : 0 <= / 2 * / wsq * (z 0%nat * z 0%nat) + S1 + 2 * t * v1 * S2 + t * t).
  { assert (0 <= t * t * (1 - v1 * v1 * w1sq)) by (apply Rmult_le_pos; nra).
    assert (0 <= / 2 * / wsq * (z 0%nat * z 0%nat)) by (apply Rmult_le_pos; nra). nra. }
  nra.
Qed.
