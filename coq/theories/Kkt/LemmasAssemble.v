(** C11 — the composed Triu refinement from [wf_input] alone, the diagonal maps, uniqueness of
    positions. *)
From Coq Require Import List Arith ZArith Lia Bool Permutation Sorted.
Import ListNotations.
Require Import Clarabel.Base.Ops Clarabel.Csc.Model Clarabel.Csc.LemmasStruct.
Require Import Clarabel.Kkt.Spec Clarabel.Kkt.Model Clarabel.Kkt.Stmts Clarabel.Kkt.LemmasSpec Clarabel.Kkt.LemmasVals.
Require Import Clarabel.Kkt.LemmasDiag Clarabel.Kkt.LemmasWf Clarabel.Kkt.LemmasFill Clarabel.Kkt.LemmasRefine Clarabel.Kkt.LemmasCone Clarabel.Kkt.LemmasCount Clarabel.Kkt.LemmasRaw Clarabel.Kkt.LemmasOrder Clarabel.Kkt.LemmasDiagPos.

Lemma assemble_diag_triu {T} (O : Ops T) (P' A' : @raw T) shapes :
  let '(K, mp) := assemble O P' A' shapes Triu in
  mDiagFull mp = map (fun x => x - 1) (tl (rcolptr K))
  /\ mDiagP mp = map (fun x => x - 1) (firstn (rn A') (tl (rcolptr K))).
Proof.
  unfold assemble.
  destruct (fill_block O _ P' _ 0 0 false) as [a mp1].
  destruct (fill_block O _ A' _ 0 (rn A') true) as [c ma].
  destruct (cones_fill O c shapes (rn A') (rm A' + rn A') Triu) as [[s2 hs] sps].
  cbn [mDiagFull mDiagP rcolptr]. split; reflexivity.
Qed.

Lemma spec_diag_full {T} (O : Ops T) (P A : @csc T) shapes : wf_input P A shapes ->
  let N := kdim P A shapes in
  let es := entries_triu P A shapes in
  map (fun x => x - 1) (tl (rcolptr (encode (kkt_matrix O P A shapes Triu))))
  = map (fun j => pos_rc (sorted_entries N es) j j) (seq 0 N).
Proof.
  intros Hwf N es.
  pose proof (entries_triu_ordered P A shapes Hwf) as Ho. fold es in Ho.
  pose proof (col_ordered_buckets_sorted N es Ho) as Hbs.
  pose proof (cols_lt_entries P A shapes Triu Hwf) as Hc. cbn [entries] in Hc. fold es N in Hc.
  destruct Hwf as [HP [HA [Hsq [HnA [Hup Hm]]]]].
  assert (HdimP : length (cols P) = nc P) by (apply canonical_iff in HP; now destruct HP).
  unfold encode, kkt_matrix. cbn [rcolptr cols entries]. fold es N.
  rewrite (kcols_buckets N es Hbs). unfold sorted_entries. rewrite (kcols_buckets N es Hbs).
  rewrite colptr_from_psums, map_map.
  rewrite (map_ext _ (@length ent) (fun c => map_length _ c)).
  rewrite psums_offs, bs_length.
  change (seq 0 (S N)) with (0 :: seq 1 N). cbn [map tl]. rewrite <- seq_shift, !map_map.
  apply map_ext_in. intros j Hj. apply in_seq in Hj. cbn [plus].
  assert (Hup' : forall e, In e es -> erow e <= ecol e).
  { intros e He. apply (entries_triu_upper P A shapes e); [repeat split; assumption | exact He]. }
  destruct (diag_pos N es j Hc Ho Hup' ltac:(lia)
              (diag_complete_triu T P A shapes HdimP Hm j ltac:(unfold N in Hj; lia))) as [_ [Hp _]].
  symmetry. exact Hp.
Qed.

Lemma assemble_refines_spec_triu_ok : stmt_assemble_refines_spec_triu.
Proof.
  unfold stmt_assemble_refines_spec_triu. intros T O P A shapes Hwf.
  pose proof (entries_triu_ordered P A shapes Hwf) as Ho.
  pose proof (col_ordered_buckets_sorted (kdim P A shapes) _ Ho) as Hbs.
  pose proof (assemble_refines_spec_triu_partial_ok T O P A shapes Hwf Hbs) as H1.
  pose proof (assemble_diag_triu O (encode P) (encode A) shapes) as H2.
  pose proof (spec_diag_full O P A shapes Hwf) as H3. cbv zeta in H3.
  destruct (assemble O (encode P) (encode A) shapes Triu) as [K mp].
  destruct H1 as [HK [HP' [HA' [HH HS]]]]. destruct H2 as [HF HD].
  destruct Hwf as [_ [_ [_ [HnA _]]]].
  f_equal; [exact HK|].
  destruct mp as [p a h s dP dF]. cbn [mP mA mHs mSp mDiagP mDiagFull] in *.
  subst p a h s. unfold kkt_maps. cbn [entries].
  rewrite HK in HF, HD. rewrite H3 in HF. subst dF.
  f_equal. rewrite HD. change (rn (encode A)) with (nc A). rewrite HnA.
  rewrite <- firstn_map. now rewrite H3.
Qed.


Lemma positions_unique_ok : stmt_positions_unique.
Proof.
  unfold stmt_positions_unique. intros T P A shapes tri Hwf.
  pose proof (entries_triu_ordered P A shapes Hwf) as Ho.
  assert (Htriu : forall x y, In x (entries_triu P A shapes) -> In y (entries_triu P A shapes) ->
                              erow x = erow y -> ecol x = ecol y -> x = y).
  { intros x y Hx Hy Hr Hc. destruct (SS_in Rcol _ Ho x y Hx Hy) as [H|[H|H]]; [exact H| |];
      unfold Rcol in H; [specialize (H Hc) | specialize (H (eq_sym Hc))]; lia. }
  destruct tri; cbn [entries]; [exact Htriu|].
  intros e e' He He' Hr Hc. apply in_map_iff in He. apply in_map_iff in He'.
  destruct He as [x [<- Hx]]. destruct He' as [y [<- Hy]].
  unfold eswap, erow, ecol in Hr, Hc. cbn [fst snd] in Hr, Hc.
  f_equal. apply Htriu; auto.
Qed.

Lemma diag_maps_triu_ok : stmt_diag_maps_triu.
Proof.
  unfold stmt_diag_maps_triu. intros T O P A shapes Hwf. cbv zeta.
  set (N := kdim P A shapes). set (es := entries_triu P A shapes).
  pose proof (entries_triu_ordered P A shapes Hwf) as Ho. fold es in Ho.
  pose proof (col_ordered_buckets_sorted N es Ho) as Hbs.
  pose proof (cols_lt_entries P A shapes Triu Hwf) as Hc. cbn [entries] in Hc. fold es N in Hc.
  pose proof (spec_diag_full O P A shapes Hwf) as H3. cbv zeta in H3. fold es N in H3.
  assert (Hup' : forall e, In e es -> erow e <= ecol e) by (intros e He; now apply (entries_triu_upper P A shapes e)).
  destruct Hwf as [HP [HA [Hsq [HnA [Hup Hm]]]]].
  assert (HdimP : length (cols P) = nc P) by (apply canonical_iff in HP; now destruct HP).
  unfold kkt_maps. cbn [mDiagFull mDiagP entries]. fold es N.
  split; [now rewrite map_length, seq_length|]. split; [reflexivity|].
  intros j Hj. rewrite (nth_map_seq (fun j => pos_rc (sorted_entries N es) j j) 0 N j 0 Hj). cbn [plus].
  unfold sorted_entries. rewrite (kcols_buckets N es Hbs).
  destruct (diag_pos N es j Hc Ho Hup' Hj (diag_complete_triu T P A shapes HdimP Hm j Hj))
    as [Hlen [Hp [Hr Hcj]]].
  rewrite Hp. pose proof (offs_S_bs N es j Hj) as HS. pose proof (offs_mono (buckets N es) (S j) N ltac:(lia)) as Hm'.
  rewrite (offs_N N es Hc) in Hm'. rewrite (concat_bs_length N es Hc).
  split; [lia|]. split; [exact Hr|]. split; [exact Hcj|].
  unfold encode, kkt_matrix. cbn [rcolptr cols entries]. fold es N. rewrite (kcols_buckets N es Hbs).
  rewrite colptr_from_psums, map_map, (map_ext _ (@length ent) (fun c => map_length _ c)).
  rewrite psums_offs, bs_length. rewrite (nth_map_seq (fun j => 0 + offs (buckets N es) j) 0 (S N) (S j) 0) by lia.
  cbn [plus]. lia.
Qed.
