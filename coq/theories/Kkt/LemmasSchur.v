(** C11 — eliminating the auxiliary variables of a sparse cone expansion gives back the
    cone's scaling operator (over the reals).  Statements are in Kkt/Spec.v. *)
From Coq Require Import List Arith Reals Lra Lia Psatz.
Import ListNotations.
Require Import Clarabel.Kkt.Spec.
Local Open Scope R_scope.

Lemma genpow_expansion_schur_ok : stmt_genpow_expansion_schur.
Proof.
  unfold stmt_genpow_expansion_schur, schur_elim, gp_blockA, gp_blockB, gp_auxD.
  intros mu dg p qe re i j Hmu.
  cbn [length seq map fold_right nth].
  assert (Hs : sqrt mu * sqrt mu = mu) by (apply sqrt_sqrt; exact Hmu).
  remember (sqrt mu) as s eqn:Heqs. clear Heqs. subst mu.
  destruct (Nat.eqb i j); field.
Qed.

Lemma soc_expansion_schur_ok : stmt_soc_expansion_schur.
Proof.
  unfold stmt_soc_expansion_schur.
  intros eta w1sq w i j Heta Hw1 Hw0.
  set (w0 := w 0%nat) in *.
  assert (Hw0sq : w0 * w0 = 1 + w1sq) by (rewrite Hw0; apply sqrt_sqrt; lra).
  assert (Hw0pos : 0 < w0) by (rewrite Hw0; apply sqrt_lt_R0; lra).
  unfold schur_elim, soc_blockA, soc_blockB, soc_auxD, soc_u, soc_v, soc_u1, soc_v1, soc_u0, soc_d, soc_wsq.
  fold w0.
  set (wsq := w0 * w0 + w1sq).
  assert (Hwsq : 1 <= wsq) by (unfold wsq; nra).
  assert (Hwsq' : wsq = 2 * (w0 * w0) - 1) by (unfold wsq; lra).
  assert (Hinv : 0 < / wsq <= 1).
  { split. apply Rinv_0_lt_compat; lra.
    rewrite <- Rinv_1. apply Rinv_le_contravar; lra. }
  set (d := / 2 * / wsq).
  assert (Hd : 0 < d <= / 2) by (unfold d; nra).
  set (u0 := sqrt (wsq - d)).
  assert (Hu0sq : u0 * u0 = wsq - d) by (unfold u0; apply sqrt_sqrt; lra).
  assert (Hu0pos : 0 < u0) by (unfold u0; apply sqrt_lt_R0; lra).
  assert (Hden : 0 < 2 * wsq - / wsq) by nra.
  set (v1 := sqrt (2 * (2 + / wsq) / (2 * wsq - / wsq))).
  assert (Hv1sq : v1 * v1 = 2 * (2 + / wsq) / (2 * wsq - / wsq)).
  { unfold v1; apply sqrt_sqrt. apply Rmult_le_pos; [lra|]. left; apply Rinv_0_lt_compat; lra. }
  assert (He2 : eta * eta <> 0) by (apply Rmult_integral_contrapositive_currified; assumption).
  assert (Hwsq0 : wsq <> 0) by lra.
  (* the key scalar identity: u1^2 - v1^2 = 2 *)
  assert (Hkey : (2 * w0 / u0) * (2 * w0 / u0) - v1 * v1 = 2).
  { rewrite Hv1sq.
    replace (2 * w0 / u0 * (2 * w0 / u0)) with (4 * (w0 * w0) / (u0 * u0)) by (field; lra).
    rewrite Hu0sq. unfold d.
    assert (w0 * w0 = (wsq + 1) / 2) by lra.
    rewrite H. field. split; [lra | nra]. }
  set (u1 := 2 * w0 / u0) in *.
  set (e2 := eta * eta) in *.
  assert (Hu01 : u0 * u1 = 2 * w0) by (unfold u1; field; lra).
  cbn [length seq map fold_right nth].
  destruct i as [|i'], j as [|j']; cbn [Nat.eqb]; fold w0; clearbody e2 u1 v1 u0 d wsq w0.
  - transitivity (- (e2 * (d + u0 * u0))).
    { field. exact He2. }
    rewrite Hu0sq, Hwsq'. ring.
  - transitivity (- (e2 * ((u0 * u1) * w (S j')))).
    { field. exact He2. }
    rewrite Hu01. ring.
  - transitivity (- (e2 * ((u0 * u1) * w (S i')))).
    { field. exact He2. }
    rewrite Hu01. ring.
  - destruct (Nat.eqb i' j').
    + transitivity (- (e2 * (1 + (u1 * u1 - v1 * v1) * w (S i') * w (S j')))).
      { field. exact He2. }
      rewrite Hkey. ring.
    + transitivity (- (e2 * ((u1 * u1 - v1 * v1) * w (S i') * w (S j')))).
      { field. exact He2. }
      rewrite Hkey. ring.
Qed.
