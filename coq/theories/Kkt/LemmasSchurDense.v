(** C11 — closing the chain for the sparse second-order cone: assemble = Spec = dense object whose
    Schur complement (auxiliary variables eliminated) is -eta^2 (2ww' - J). *)
From Coq Require Import List Arith ZArith Lia Bool Permutation Sorted Reals Lra.
Import ListNotations.
Require Import Clarabel.Base.Ops Clarabel.Csc.Model Clarabel.Csc.Spec Clarabel.Csc.LemmasStruct.
Require Import Clarabel.Kkt.Spec Clarabel.Kkt.Model Clarabel.Kkt.Stmts Clarabel.Kkt.LemmasSpec Clarabel.Kkt.LemmasVals Clarabel.Kkt.LemmasSchur.
Require Import Clarabel.Kkt.LemmasDiag Clarabel.Kkt.LemmasWf Clarabel.Kkt.LemmasFill Clarabel.Kkt.LemmasRefine Clarabel.Kkt.LemmasCone Clarabel.Kkt.LemmasCount Clarabel.Kkt.LemmasRaw Clarabel.Kkt.LemmasOrder Clarabel.Kkt.LemmasDiagPos Clarabel.Kkt.LemmasAssemble Clarabel.Kkt.LemmasTril Clarabel.Kkt.LemmasDense.

Lemma eCones_app a : forall b c0 o0 p0,
  eCones c0 o0 p0 (a ++ b)
  = eCones c0 o0 p0 a ++ eCones (c0 + length a) (o0 + sum_by numel a) (p0 + sum_by pdim a) b.
Proof.
  induction a as [|s a IH]; intros b c0 o0 p0; cbn [app eCones length sum_by fold_right].
  - now rewrite !Nat.add_0_r.
  - rewrite IH, <- app_assoc. unfold sum_by. f_equal. f_equal. f_equal; lia.
Qed.
Lemma sum_by_app {X} (f : X -> nat) a b : sum_by f (a ++ b) = sum_by f a + sum_by f b.
Proof. unfold sum_by. induction a as [|x a IH]; cbn [app fold_right]; [reflexivity | rewrite IH; lia]. Qed.

(** the entries of the lower-right part whose column lies in the block or auxiliary range of
    one cone are that cone's own entries *)
Lemma cone_pos {T} (P A : @csc T) pre s post e :
  let shapes := pre ++ s :: post in
  let o := nc P + sum_by numel pre in
  let pcol := nc P + nr A + sum_by pdim pre in
  wf_input P A shapes -> In e (entries_triu P A shapes) -> nc P <= erow e ->
  (o <= ecol e < o + numel s \/ pcol <= ecol e < pcol + pdim s) ->
  In e (eCone (length pre) o pcol s).
Proof.
  intros shapes o pcol Hwf He Hrow Hcol.
  pose proof Hwf as [HP [HA [Hsq [HnA [Hup Hm]]]]].
  unfold shapes in Hm. rewrite sum_by_app in Hm. cbn [sum_by fold_right] in Hm.
  change (fold_right (fun x a => numel x + a) 0 post) with (sum_by numel post) in Hm.
  unfold entries_triu, shapes in He. rewrite eCones_app in He. cbn [eCones plus] in He.
  rewrite !in_app_iff in He. destruct He as [He|[He|[He|[He|[He|He]]]]].
  - apply (eP_in P e HP Hup) in He. lia.
  - apply eMiss_in in He. lia.
  - apply (eA_in A (nc P) e HA) in He. lia.
  - apply eCones_bounds in He. unfold inrng in He. unfold o, pcol in *. lia.
  - exact He.
  - apply eCones_bounds in He. unfold inrng in He. unfold o, pcol in *.
    assert (sum_by numel post + sum_by numel pre + numel s = nr A) by lia. lia.
Qed.

Lemma cone_in {T} (P A : @csc T) pre s post e :
  In e (eCone (length pre) (nc P + sum_by numel pre) (nc P + nr A + sum_by pdim pre) s) ->
  In e (entries_triu P A (pre ++ s :: post)).
Proof.
  intros He. unfold entries_triu. rewrite eCones_app. cbn [eCones plus].
  rewrite !in_app_iff. right. right. right. right. left. exact He.
Qed.

Lemma laws_R : Laws OpsR.
Proof. split; [exact RingLawsR | exact Reqb_true]. Qed.

Lemma soc_schur_dense_ok : stmt_soc_schur_dense.
Proof.
  unfold stmt_soc_schur_dense. intros P A pre post d val eta w1sq w. cbv zeta.
  set (shapes := pre ++ SocSparse d :: post). set (c := length pre).
  set (o := nc P + sum_by numel pre). set (pcol := nc P + nr A + sum_by pdim pre).
  intros Hwf Heta Hw1 Hw0 HvH HvV HvU HvD0 HvD1.
  set (K := kkt_matrix_v val P A shapes Triu).
  pose proof laws_R as HL.
  assert (Hgeom : o + d <= pcol /\ nc P <= o).
  { destruct Hwf as [_ [_ [_ [_ [_ Hm]]]]]. unfold shapes in Hm. rewrite sum_by_app in Hm.
    cbn [sum_by fold_right numel] in Hm. unfold o, pcol. lia. }
  destruct Hgeom as [Hgeom Hno].
  (* reading a stored entry / an empty position *)
  assert (Hent : forall e, In e (eCone c o pcol (SocSparse d)) ->
                           get OpsR K (erow e) (ecol e) = val (etag e)).
  { intros e He. apply (kkt_get_entry_ok' OpsR HL val P A shapes Triu Hwf). cbn [entries].
    now apply cone_in. }
  assert (Hent' : forall r cc t, In (r, cc, t) (eCone c o pcol (SocSparse d)) -> get OpsR K r cc = val t).
  { intros r cc t He. exact (Hent (r, cc, t) He). }
  assert (Hnone : forall i j, nc P <= i ->
             (o <= j < o + d \/ pcol <= j < pcol + 2) ->
             (forall e, In e (eCone c o pcol (SocSparse d)) -> ~ (erow e = i /\ ecol e = j)) ->
             get OpsR K i j = 0%R).
  { intros i j Hi Hj Hno'. apply (kkt_get_none_ok' OpsR val P A shapes Triu Hwf). cbn [entries].
    intros e He [Hr Hc]. apply (Hno' e); [|split; assumption].
    apply (cone_pos P A pre (SocSparse d) post e Hwf He); cbn [numel pdim]; fold o pcol; lia. }
  (* the values at the positions that matter *)
  assert (HA : forall a b, a < d -> b < d -> sym_get K (o + a) (o + b) = soc_blockA eta w w1sq a b).
  { intros a b Ha Hb. unfold soc_blockA at 1. destruct (Nat.eqb_spec a b) as [->|Hne].
    - unfold sym_get. rewrite Nat.leb_refl.
      rewrite (Hent' (o + b) (o + b) (THs c b)); [rewrite HvH by exact Hb; unfold soc_blockA; now rewrite Nat.eqb_refl|].
      unfold eCone. apply in_or_app; left. now apply in_eDiagBlk.
    - unfold sym_get. destruct (o + a <=? o + b) eqn:E; apply Hnone; try lia;
        intros e He; unfold eCone in He; ord_prep; unfold erow, ecol; cbn [fst snd]; lia. }
  assert (HB : forall a k, a < d -> k < 2 -> sym_get K (o + a) (pcol + k) = soc_blockB eta w w1sq a k).
  { intros a k Ha Hk. unfold sym_get. replace (o + a <=? pcol + k) with true by (symmetry; apply Nat.leb_le; lia).
    destruct k as [|[|k]]; [| |lia].
    - rewrite Nat.add_0_r. rewrite (Hent' (o + a) pcol (TV c a)); [now apply HvV|].
      unfold eCone. apply in_or_app; right. apply in_or_app; left. unfold eVec. apply in_map_iff. exists a. split; [reflexivity | apply in_seq; lia].
    - rewrite (Hent' (o + a) (pcol + 1) (TU c a)); [now apply HvU|].
      unfold eCone. apply in_or_app; right. apply in_or_app; right. apply in_or_app; left. unfold eVec. apply in_map_iff. exists a. split; [reflexivity | apply in_seq; lia]. }
  assert (HC0 : sym_get K pcol pcol = (- (eta * eta))%R).
  { unfold sym_get. rewrite Nat.leb_refl.
    rewrite (Hent' pcol pcol (TD c 0)); [exact HvD0|].
    unfold eCone. do 3 (apply in_or_app; right).
    replace (pcol, pcol, TD c 0) with (pcol + 0, pcol + 0, TD c 0) by (rewrite !Nat.add_0_r; reflexivity). apply in_eAuxD. lia. }
  assert (HC1 : sym_get K (pcol + 1) (pcol + 1) = (eta * eta)%R).
  { unfold sym_get. rewrite Nat.leb_refl.
    rewrite (Hent' (pcol + 1) (pcol + 1) (TD c 1)); [exact HvD1|].
    unfold eCone. do 3 (apply in_or_app; right). apply in_eAuxD. lia. }
  split.
  - unfold sym_get. replace (pcol <=? pcol + 1) with true by (symmetry; apply Nat.leb_le; lia).
    apply Hnone; try lia. intros e He. unfold eCone in He. ord_prep; unfold erow, ecol; cbn [fst snd]; lia.
  - intros a b Ha Hb.
    rewrite <- (soc_expansion_schur_ok eta w1sq w a b Heta Hw1 Hw0).
    unfold schur_elim, soc_auxD. cbn [length seq map fold_right nth].
    rewrite (HA a b Ha Hb), HC0, HC1.
    rewrite (HB a 0), (HB b 0), (HB a 1), (HB b 1) by lia. reflexivity.
Qed.

Lemma genpow_schur_dense_ok : stmt_genpow_schur_dense.
Proof.
  unfold stmt_genpow_schur_dense. intros P A pre post d1 d2 val mu dg p qe re. cbv zeta.
  set (shapes := pre ++ GenPow d1 d2 :: post). set (c := length pre).
  set (o := nc P + sum_by numel pre). set (pcol := nc P + nr A + sum_by pdim pre).
  intros Hwf Hmu Hq0 Hr0 HvH HvQ HvR HvP HvD0 HvD1 HvD2.
  set (K := kkt_matrix_v val P A shapes Triu). set (d := d1 + d2).
  pose proof laws_R as HL.
  assert (Hgeom : o + d <= pcol /\ nc P <= o).
  { destruct Hwf as [_ [_ [_ [_ [_ Hm]]]]]. unfold shapes in Hm. rewrite sum_by_app in Hm.
    cbn [sum_by fold_right numel] in Hm. unfold o, pcol, d. lia. }
  destruct Hgeom as [Hgeom Hno].
  assert (Hent' : forall r cc t, In (r, cc, t) (eCone c o pcol (GenPow d1 d2)) -> get OpsR K r cc = val t).
  { intros r cc t He. apply (kkt_get_entry_ok' OpsR HL val P A shapes Triu Hwf (r, cc, t)). cbn [entries].
    now apply cone_in. }
  assert (Hnone : forall i j, nc P <= i ->
             (o <= j < o + d \/ pcol <= j < pcol + 3) ->
             (forall e, In e (eCone c o pcol (GenPow d1 d2)) -> ~ (erow e = i /\ ecol e = j)) ->
             get OpsR K i j = 0%R).
  { intros i j Hi Hj Hno'. apply (kkt_get_none_ok' OpsR val P A shapes Triu Hwf). cbn [entries].
    intros e He [Hr Hc]. apply (Hno' e); [|split; assumption].
    apply (cone_pos P A pre (GenPow d1 d2) post e Hwf He); cbn [numel pdim]; fold o pcol; unfold d in *; lia. }
  assert (HA : forall a b, a < d -> b < d -> sym_get K (o + a) (o + b) = gp_blockA mu dg a b).
  { intros a b Ha Hb. unfold gp_blockA at 1. destruct (Nat.eqb_spec a b) as [->|Hne].
    - unfold sym_get. rewrite Nat.leb_refl.
      rewrite (Hent' (o + b) (o + b) (THs c b)); [rewrite HvH by exact Hb; unfold gp_blockA; now rewrite Nat.eqb_refl|].
      unfold eCone. apply in_or_app; left. now apply in_eDiagBlk.
    - unfold sym_get. destruct (o + a <=? o + b) eqn:E; apply Hnone; try lia;
        intros e He; unfold eCone in He; ord_prep; unfold erow, ecol; cbn [fst snd]; unfold d in *; lia. }
  assert (Hsq0 : (- R_sqrt.sqrt mu * 0)%R = 0%R) by ring.
  assert (HB : forall a k, a < d -> k < 3 -> sym_get K (o + a) (pcol + k) = gp_blockB mu p qe re a k).
  { intros a k Ha Hk. unfold sym_get. replace (o + a <=? pcol + k) with true by (symmetry; apply Nat.leb_le; lia).
    destruct k as [|[|[|k]]]; [| | |lia].
    - rewrite Nat.add_0_r. destruct (Nat.lt_ge_cases a d1) as [Hlt|Hge].
      + rewrite (Hent' (o + a) pcol (TGq c a)); [now apply HvQ|].
        unfold eCone. apply in_or_app; right. apply in_or_app; left. unfold eVec. apply in_map_iff. exists a. split; [reflexivity | apply in_seq; lia].
      + unfold gp_blockB. rewrite (Hq0 a Hge), Hsq0.
        apply Hnone; try lia. intros e He; unfold eCone in He; ord_prep; unfold erow, ecol; cbn [fst snd]; unfold d in *; lia.
    - destruct (Nat.lt_ge_cases a d1) as [Hlt|Hge].
      + unfold gp_blockB. rewrite (Hr0 a Hlt), Hsq0.
        apply Hnone; try lia. intros e He; unfold eCone in He; ord_prep; unfold erow, ecol; cbn [fst snd]; unfold d in *; lia.
      + rewrite (Hent' (o + a) (pcol + 1) (TGr c (a - d1))).
        * rewrite HvR by (unfold d in Ha; lia). now replace (d1 + (a - d1)) with a by lia.
        * unfold eCone. do 2 (apply in_or_app; right). apply in_or_app; left. unfold eVec. apply in_map_iff.
          exists (a - d1). split; [f_equal; f_equal; lia | apply in_seq; unfold d in Ha; lia].
    - rewrite (Hent' (o + a) (pcol + 2) (TGp c a)); [now apply HvP|].
      unfold eCone. do 3 (apply in_or_app; right). apply in_or_app; left. unfold eVec. apply in_map_iff. exists a. split; [reflexivity | apply in_seq; unfold d in Ha; lia]. }
  assert (HC : forall k, k < 3 -> sym_get K (pcol + k) (pcol + k) = val (TD c k)).
  { intros k Hk. unfold sym_get. rewrite Nat.leb_refl. apply Hent'.
    unfold eCone. do 4 (apply in_or_app; right). now apply in_eAuxD. }
  assert (Hoff : forall k l, k < l -> l < 3 -> sym_get K (pcol + k) (pcol + l) = 0%R).
  { intros k l Hkl Hl. unfold sym_get. replace (pcol + k <=? pcol + l) with true by (symmetry; apply Nat.leb_le; lia).
    apply Hnone; try lia. intros e He. unfold eCone in He. ord_prep; unfold erow, ecol; cbn [fst snd]; unfold d in *; lia. }
  split; [rewrite <- (Nat.add_0_r pcol) at 1; apply Hoff; lia|].
  split; [rewrite <- (Nat.add_0_r pcol) at 1; apply Hoff; lia|].
  split; [apply Hoff; lia|].
  intros a b Ha Hb.
  rewrite <- (genpow_expansion_schur_ok mu dg p qe re a b Hmu).
  unfold schur_elim, gp_auxD. cbn [length seq map fold_right nth].
  rewrite (HA a b Ha Hb).
  rewrite <- (Nat.add_0_r pcol) at 3 4. rewrite !HC by lia. rewrite HvD0, HvD1, HvD2.
  rewrite (HB a 0), (HB b 0), (HB a 1), (HB b 1), (HB a 2), (HB b 2) by lia. reflexivity.
Qed.
