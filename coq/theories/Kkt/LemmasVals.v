(** C11 — proofs about _fill_signs and the regularise/refactor/restore pipeline. *)
From Coq Require Import List Arith ZArith Lia Bool.
Import ListNotations.
Require Import Clarabel.Base.Ops Clarabel.Csc.Model Clarabel.Csc.LemmasStruct.
Require Import Clarabel.Kkt.Spec Clarabel.Kkt.Model Clarabel.Kkt.Stmts.

(** * list surgery *)
Lemma set_nth_app_mid {X} (pre : list X) x r y :
  set_nth (pre ++ x :: r) (length pre) y = pre ++ y :: r.
Proof. induction pre as [|a pre IH]; cbn [app length set_nth]; [reflexivity | now rewrite IH]. Qed.
Lemma nth_app_mid {X} (pre : list X) x r d : nth (length pre) (pre ++ x :: r) d = x.
Proof. induction pre as [|a pre IH]; cbn [app length nth]; auto. Qed.

Lemma negate_range (k : nat) : forall (pre post : list Z),
  fold_left (fun s i => set_nth s i (- nth i s 0)%Z) (seq (length pre) k)
            (pre ++ repeat 1%Z k ++ post)
  = pre ++ repeat (-1)%Z k ++ post.
Proof.
  induction k as [|k IH]; intros pre post; cbn [seq fold_left repeat app]; [reflexivity|].
  rewrite nth_app_mid, set_nth_app_mid.
  replace (pre ++ (- (1))%Z :: repeat 1%Z k ++ post)
    with ((pre ++ [(-1)%Z]) ++ repeat 1%Z k ++ post) by (now rewrite <- app_assoc).
  replace (S (length pre)) with (length (pre ++ [(-1)%Z])) by (rewrite app_length; cbn; lia).
  rewrite IH. now rewrite <- app_assoc.
Qed.

Lemma write_at_app (v : list Z) : forall (pre post : list Z),
  write_at (pre ++ repeat 1%Z (length v) ++ post) (length pre) v = pre ++ v ++ post.
Proof.
  induction v as [|x v IH]; intros pre post; cbn [write_at length repeat app]; [reflexivity|].
  rewrite set_nth_app_mid.
  replace (pre ++ x :: repeat 1%Z (length v) ++ post)
    with ((pre ++ [x]) ++ repeat 1%Z (length v) ++ post) by (now rewrite <- app_assoc).
  replace (S (length pre)) with (length (pre ++ [x])) by (rewrite app_length; cbn; lia).
  rewrite IH. now rewrite <- app_assoc.
Qed.

Lemma smap_dsigns_length s : length (smap_dsigns s) = smap_pdim s.
Proof. destruct s; reflexivity. Qed.
Lemma shape_signs_length s : length (shape_signs s) = pdim s.
Proof. destruct s; reflexivity. Qed.
Lemma smap_dsigns_by_pdim s sh :
  smap_pdim s = pdim sh -> sparse_expandable sh = true -> smap_dsigns s = shape_signs sh.
Proof. destruct s, sh; cbn; intros H1 H2; try discriminate; reflexivity. Qed.
Lemma shape_signs_nonsparse sh : sparse_expandable sh = false -> shape_signs sh = [] /\ pdim sh = 0.
Proof. destruct sh; cbn; intros H; try discriminate; auto. Qed.

Lemma repeat_app {X} (x : X) a b : repeat x (a + b) = repeat x a ++ repeat x b.
Proof. induction a; cbn; [reflexivity | now f_equal]. Qed.

Lemma signs_fold (shapes : list shape) : forall (sps : list smap) (pre : list Z),
  smaps_match sps shapes ->
  fst (fold_left (fun sp sm => (write_at (fst sp) (snd sp) (smap_dsigns sm), snd sp + smap_pdim sm))
                 sps (pre ++ repeat 1%Z (sum_by pdim shapes), length pre))
  = pre ++ flat_map shape_signs shapes.
Proof.
  unfold smaps_match.
  induction shapes as [|sh shapes IH]; intros sps pre Hm; cbn [filter map] in Hm.
  - destruct sps; [|discriminate]. cbn. reflexivity.
  - cbn [sum_by fold_right flat_map].
    destruct (sparse_expandable sh) eqn:Hsp.
    + destruct sps as [|sm sps]; [discriminate|]. cbn [map] in Hm.
      injection Hm as Hp Hrest.
      cbn [fold_left fst snd].
      change (fold_right (fun x a => pdim x + a) 0 shapes) with (sum_by pdim shapes).
      rewrite repeat_app, <- Hp, <- smap_dsigns_length.
      rewrite write_at_app.
      rewrite (smap_dsigns_by_pdim sm sh Hp Hsp).
      replace (length pre + length (shape_signs sh)) with (length (pre ++ shape_signs sh))
        by (now rewrite app_length).
      rewrite !app_assoc. rewrite IH by exact Hrest. reflexivity.
    + destruct (shape_signs_nonsparse sh Hsp) as [Hs Hp]. rewrite Hs, Hp. cbn [app plus].
      apply IH. exact Hm.
Qed.

Lemma signs_spec_ok : stmt_signs_spec.
Proof.
  unfold stmt_signs_spec, fill_signs, signs_spec. intros n m shapes sps Hm.
  replace (m + n + sum_by pdim shapes) with (n + (m + sum_by pdim shapes)) by lia.
  rewrite repeat_app, repeat_app.
  replace (seq n m) with (seq (length (repeat 1%Z n)) m) by (now rewrite repeat_length).
  rewrite negate_range.
  rewrite app_assoc.
  replace (m + n) with (length (repeat 1%Z n ++ repeat (-1)%Z m))
    by (rewrite app_length, !repeat_length; lia).
  rewrite signs_fold by exact Hm. now rewrite <- app_assoc.
Qed.

Lemma spec_smaps_match_ok : stmt_spec_smaps_match.
Proof.
  unfold stmt_spec_smaps_match, smaps_match. intros se c shapes; revert c.
  induction shapes as [|sh shapes IH]; intros c; cbn [sp_maps filter map]; [reflexivity|].
  destruct sh; cbn [sparse_expandable app map pdim smap_pdim]; rewrite ?IH; reflexivity.
Qed.

Lemma in_firstn_in {X} (x : X) n : forall l, In x (firstn n l) -> In x l.
Proof.
  induction n as [|n IH]; intros l H; [cbn in H; contradiction|].
  destruct l as [|a l]; cbn [firstn In] in *; [contradiction|].
  destruct H as [H|H]; [left; exact H | right; apply IH; exact H].
Qed.

(** * write_vals *)
Section WriteVals.
Context {T : Type}.
Lemma write_vals_length (idx : list nat) : forall (vals a : list T),
  length (write_vals a idx vals) = length a.
Proof.
  unfold write_vals. induction idx as [|k idx IH]; intros vals a; cbn [combine fold_left]; [reflexivity|].
  destruct vals as [|v vals]; cbn [combine fold_left]; [reflexivity|].
  rewrite IH. cbn [fst snd]. apply length_set_nth.
Qed.
Lemma write_vals_cons (a : list T) k idx v vals :
  write_vals a (k :: idx) (v :: vals) = write_vals (set_nth a k v) idx vals.
Proof. reflexivity. Qed.

(** entries whose index is not written keep their value *)
Lemma write_vals_other (idx : list nat) : forall (vals a : list T) i d,
  ~ In i (firstn (length vals) idx) -> nth i (write_vals a idx vals) d = nth i a d.
Proof.
  induction idx as [|k idx IH]; intros vals a i d Hni.
  - reflexivity.
  - destruct vals as [|v vals]; [reflexivity|].
    rewrite write_vals_cons. cbn [length firstn] in Hni.
    rewrite IH by (intro Hc; apply Hni; right; exact Hc).
    destruct (Nat.lt_ge_cases k (length a)) as [Hk|Hk].
    + rewrite nth_set_nth by exact Hk.
      destruct (Nat.eqb_spec i k) as [->|Hne]; [exfalso; apply Hni; left; reflexivity | reflexivity].
    + assert (Hs : set_nth a k v = a).
      { clear -Hk. revert k Hk. induction a as [|x a IHa]; intros [|k] Hk; cbn [set_nth length] in *;
          try reflexivity; try lia. f_equal. apply IHa. lia. }
      now rewrite Hs.
Qed.

(** writing values that are a function of the index: every written index ends with f i *)
Lemma write_vals_fun (f : nat -> T) (idx : list nat) : forall (a : list T) i d,
  In i idx -> i < length a -> nth i (write_vals a idx (map f idx)) d = f i.
Proof.
  induction idx as [|k idx IH]; intros a i d Hin Hi; [contradiction|].
  cbn [map]. rewrite write_vals_cons.
  destruct (in_dec Nat.eq_dec i idx) as [Hin'|Hnin].
  - apply IH; [exact Hin' | rewrite length_set_nth; exact Hi].
  - destruct Hin as [->|Hin]; [|contradiction].
    rewrite write_vals_other by (rewrite map_length, firstn_all; exact Hnin).
    rewrite nth_set_nth by exact Hi. now rewrite Nat.eqb_refl.
Qed.

(** with distinct indices, the j-th written index holds the j-th value *)
Lemma write_vals_nodup (idx : list nat) : forall (vals a : list T) j d,
  NoDup idx -> Forall (fun i => i < length a) idx -> length vals = length idx -> j < length idx ->
  nth (nth j idx 0) (write_vals a idx vals) d = nth j vals d.
Proof.
  induction idx as [|k idx IH]; intros vals a j d Hnd Hall Hlen Hj; [cbn in Hj; lia|].
  destruct vals as [|v vals]; [discriminate|].
  rewrite write_vals_cons. inversion Hnd as [|? ? Hk Hnd']; subst. inversion Hall as [|? ? Hka Hall']; subst.
  destruct j as [|j]; cbn [nth].
  - rewrite write_vals_other.
    + rewrite nth_set_nth by exact Hka. now rewrite Nat.eqb_refl.
    + intro Hc. apply Hk. eapply in_firstn_in; exact Hc.
  - apply IH.
    + exact Hnd'.
    + rewrite Forall_forall in *. intros x Hx. rewrite length_set_nth. apply Hall'. exact Hx.
    + cbn [length] in Hlen. lia.
    + cbn [length] in Hj. lia.
Qed.
End WriteVals.

Lemma nth_map_lt {A B} (f : A -> B) (l : list A) : forall j da db,
  j < length l -> nth j (map f l) db = f (nth j l da).
Proof.
  induction l as [|x l IH]; intros j da db Hj; [cbn in Hj; lia|].
  destruct j as [|j]; cbn [map nth]; [reflexivity|]. apply IH. cbn in Hj; lia.
Qed.

Lemma nth_via perm idx j : j < length idx -> nth j (via perm idx) 0 = nth (nth j idx 0) perm 0.
Proof. intros Hj. unfold via. now rewrite (nth_map_lt _ _ j 0 0) by exact Hj. Qed.

Lemma update_restores_diag_ok : stmt_update_restores_diag.
Proof.
  unfold stmt_update_restores_diag, regularize_and_refactor, update_values.
  intros T O kkt ldl perm dfull dsigns c p Hall. cbn [fst snd].
  set (diag_kkt := map (fun i => nth i kkt (zero O)) dfull).
  set (eps := add O c (mul O p (norm_inf O diag_kkt))).
  set (shifted := map (fun ds => if Z.eqb (snd ds) 1 then add O (fst ds) eps else sub O (fst ds) eps)
                      (combine diag_kkt dsigns)).
  split; [|split].
  - apply nth_ext with (d := zero O) (d' := zero O).
    + now rewrite !write_vals_length.
    + intros i Hi. rewrite !write_vals_length in Hi.
      destruct (in_dec Nat.eq_dec i dfull) as [Hin|Hnin].
      * unfold diag_kkt. rewrite write_vals_fun; [reflexivity | exact Hin |].
        rewrite write_vals_length. exact Hi.
      * rewrite !write_vals_other; [reflexivity | |];
          intro Hc; apply Hnin; eapply in_firstn_in; exact Hc.
  - intros i Hni. apply write_vals_other.
    intro Hc; apply Hni; eapply in_firstn_in; exact Hc.
  - intros Hnd Hlt Hlen j Hj.
    assert (Hld : length diag_kkt = length dfull) by (unfold diag_kkt; now rewrite map_length).
    assert (Hls : length shifted = length (via perm dfull)).
    { unfold shifted, via. rewrite !map_length, combine_length. lia. }
    rewrite <- nth_via by exact Hj.
    rewrite write_vals_nodup; [| exact Hnd | exact Hlt | exact Hls | unfold via; now rewrite map_length].
    unfold shifted.
    rewrite (nth_map_lt _ _ j (zero O, 0%Z) (zero O)) by (rewrite combine_length; lia).
    rewrite combine_nth by lia.
    cbn [fst snd]. unfold diag_kkt.
    rewrite (nth_map_lt _ _ j 0 (zero O)) by exact Hj. reflexivity.
Qed.
