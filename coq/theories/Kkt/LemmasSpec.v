(** C11 — proofs about the intended layout (Kkt/Spec.v). *)
From Coq Require Import List Arith ZArith Lia Bool Permutation.
Import ListNotations.
Require Import Clarabel.Base.Ops Clarabel.Csc.Model Clarabel.Kkt.Spec.

Lemma tag_eqb_eq a b : tag_eqb a b = true <-> a = b.
Proof.
  destruct a, b; cbn [tag_eqb]; rewrite ?andb_true_iff, ?Nat.eqb_eq;
    split; intros H; try discriminate; try (inversion H; subst; auto; fail);
    try (destruct H; subst; reflexivity); try (subst; reflexivity).
Qed.
Lemma tag_eqb_refl a : tag_eqb a a = true.
Proof. now apply tag_eqb_eq. Qed.

(** * sorting into columns is a permutation *)
Lemma ins_row_perm e c : Permutation (ins_row e c) (e :: c).
Proof.
  induction c as [|x c IH]; cbn [ins_row]; [reflexivity|].
  destruct (erow e <=? erow x); [reflexivity|].
  rewrite IH. apply perm_swap.
Qed.
Lemma sort_rows_perm c : Permutation (sort_rows c) c.
Proof.
  induction c as [|x c IH]; cbn [sort_rows fold_right]; [reflexivity|].
  rewrite ins_row_perm. now constructor.
Qed.

Lemma filter_split_perm {X} (f g : X -> bool) (l : list X) :
  (forall x, f x = true -> g x = true -> False) ->
  Permutation (filter (fun x => f x || g x) l) (filter f l ++ filter g l).
Proof.
  intros Hd. induction l as [|x l IH]; cbn [filter app]; [reflexivity|].
  destruct (f x) eqn:Hf, (g x) eqn:Hg; cbn [orb app].
  - exfalso; eauto.
  - now constructor.
  - rewrite IH. apply Permutation_middle.
  - exact IH.
Qed.

Lemma kcols_perm N : forall es,
  Permutation (concat (map (fun j => filter (fun e => ecol e =? j) es) (seq 0 N)))
              (filter (fun e => ecol e <? N) es).
Proof.
  induction N as [|N IH]; intros es.
  - cbn. induction es as [|e es IHes]; cbn [filter]; [reflexivity|].
    replace (ecol e <? 0) with false by (symmetry; apply Nat.ltb_ge; lia). exact IHes.
  - rewrite seq_S, map_app, concat_app. cbn [map concat plus]. rewrite app_nil_r.
    rewrite IH.
    rewrite <- filter_split_perm.
    + apply Permutation_refl'. apply filter_ext. intros e.
      destruct (ecol e <? N) eqn:H1, (ecol e =? N) eqn:H2, (ecol e <? S N) eqn:H3; cbn [orb]; try reflexivity;
        rewrite ?Nat.ltb_lt, ?Nat.ltb_ge, ?Nat.eqb_eq, ?Nat.eqb_neq in *; lia.
    + intros e H1 H2. rewrite Nat.ltb_lt in H1. rewrite Nat.eqb_eq in H2. lia.
Qed.

Lemma concat_perm {X} (a b : list (list X)) :
  Forall2 (@Permutation X) a b -> Permutation (concat a) (concat b).
Proof.
  induction 1 as [|x y a b Hxy Hab IH]; cbn [concat]; [reflexivity|].
  now apply Permutation_app.
Qed.

Lemma sorted_entries_perm_ok : stmt_sorted_entries_perm.
Proof.
  unfold stmt_sorted_entries_perm, sorted_entries, kcols, cols_lt. intros N es Hc.
  transitivity (concat (map (fun j => filter (fun e => ecol e =? j) es) (seq 0 N))).
  - apply concat_perm. induction (seq 0 N) as [|j l IH]; cbn [map]; constructor; auto.
    apply sort_rows_perm.
  - rewrite kcols_perm. apply Permutation_refl'.
    rewrite Forall_forall in Hc.
    induction es as [|e es IH]; cbn [filter]; [reflexivity|].
    assert (He : ecol e <? N = true) by (apply Nat.ltb_lt, Hc; left; reflexivity).
    rewrite He. f_equal. apply IH. intros x Hx. apply Hc. right; exact Hx.
Qed.

(** * positions of distinct tags *)
Lemma pos_cons se e t :
  pos (e :: se) t = if tag_eqb (etag e) t then 0 else S (pos se t).
Proof. reflexivity. Qed.

Lemma pos_in (se : list ent) t d :
  In t (map etag se) -> pos se t < length se /\ etag (nth (pos se t) se d) = t.
Proof.
  induction se as [|e se IH]; intros Hin; [contradiction|].
  rewrite pos_cons. destruct (tag_eqb (etag e) t) eqn:He.
  - cbn [length nth]. split; [lia | now apply tag_eqb_eq].
  - cbn [map In] in Hin. destruct Hin as [Hin|Hin].
    + rewrite Hin, tag_eqb_refl in He. discriminate.
    + destruct (IH Hin) as [H1 H2]. cbn [length nth]. split; [lia | exact H2].
Qed.

Lemma pos_nth (se : list ent) d : NoDup (map etag se) ->
  forall q, q < length se -> pos se (etag (nth q se d)) = q.
Proof.
  induction se as [|e se IH]; intros Hnd q Hq; [cbn in Hq; lia|].
  cbn [map] in Hnd. inversion Hnd as [|? ? Hni Hnd']; subst.
  rewrite pos_cons. destruct q as [|q]; cbn [nth].
  - now rewrite tag_eqb_refl.
  - destruct (tag_eqb (etag e) (etag (nth q se d))) eqn:He.
    + apply tag_eqb_eq in He. exfalso. apply Hni. rewrite He. apply in_map. apply nth_In.
      cbn in Hq; lia.
    + f_equal. apply IH; [exact Hnd' | cbn in Hq; lia].
Qed.

Lemma maps_partition_partial_ok : stmt_maps_partition_partial.
Proof.
  unfold stmt_maps_partition_partial, tags_nodup. intros N es Hc Hnd. set (se := sorted_entries N es).
  assert (Hp : Permutation se es) by (apply sorted_entries_perm_ok; exact Hc).
  assert (Hpt : Permutation (map etag se) (map etag es)) by (now apply Permutation_map).
  assert (Hnd' : NoDup (map etag se)).
  { eapply Permutation_NoDup; [symmetry; exact Hpt | exact Hnd]. }
  split; [now apply Permutation_length|]. split; [|split].
  - intros t Ht. apply pos_in. eapply Permutation_in; [symmetry; exact Hpt | exact Ht].
  - intros t t' Ht Ht' Heq.
    assert (H1 := pos_in se t (0, 0, TP 0) (Permutation_in _ (Permutation_sym Hpt) Ht)).
    assert (H2 := pos_in se t' (0, 0, TP 0) (Permutation_in _ (Permutation_sym Hpt) Ht')).
    destruct H1 as [_ H1], H2 as [_ H2]. rewrite <- H1, <- H2, Heq. reflexivity.
  - intros q Hq. exists (etag (nth q se (0, 0, TP 0))). split.
    + eapply Permutation_in; [exact Hpt|]. apply in_map. now apply nth_In.
    + now apply pos_nth.
Qed.

Lemma nodupb_tags_sound l : nodupb_tags l = true -> NoDup l.
Proof.
  induction l as [|t l IH]; cbn [nodupb_tags]; intros H; [constructor|].
  apply andb_true_iff in H. destruct H as [H1 H2]. constructor; [|now apply IH].
  intro Hin. apply negb_true_iff in H1.
  assert (existsb (tag_eqb t) l = true) by (apply existsb_exists; exists t; split; [exact Hin | apply tag_eqb_refl]).
  congruence.
Qed.
Lemma boolean_hyps_sound_ok : stmt_boolean_hyps_sound.
Proof.
  unfold stmt_boolean_hyps_sound, cols_ltb, cols_lt, tags_nodup. intros N es H1 H2. split.
  - rewrite forallb_forall in H1. apply Forall_forall. intros e He. apply Nat.ltb_lt. now apply H1.
  - now apply nodupb_tags_sound.
Qed.
