(** C11 — the Spec's Triu entry list is column-ordered (each column's entries in strictly
    increasing row order) and upper-triangular, for well-formed inputs; hence [buckets_sorted]. *)
From Coq Require Import List Arith ZArith Lia Bool Permutation Sorted.
Import ListNotations.
Require Import Clarabel.Base.Ops Clarabel.Csc.Model Clarabel.Csc.LemmasStruct.
Require Import Clarabel.Kkt.Spec Clarabel.Kkt.Model Clarabel.Kkt.Stmts Clarabel.Kkt.LemmasSpec Clarabel.Kkt.LemmasVals.
Require Import Clarabel.Kkt.LemmasWf Clarabel.Kkt.LemmasFill Clarabel.Kkt.LemmasCone Clarabel.Kkt.LemmasCount Clarabel.Kkt.LemmasRaw.

(** entries of one column appear in strictly increasing row order *)
Definition Rcol (x y : ent) : Prop := ecol x = ecol y -> erow x < erow y.
Definition col_ordered (es : list ent) : Prop := StronglySorted Rcol es.

Lemma SS_app {X} (R : X -> X -> Prop) (a b : list X) :
  StronglySorted R a -> StronglySorted R b -> (forall x y, In x a -> In y b -> R x y) ->
  StronglySorted R (a ++ b).
Proof.
  induction a as [|x a IH]; intros Ha Hb Hc; [exact Hb|].
  inversion Ha as [|? ? Ha' Hx]; subst. cbn [app]. constructor.
  - apply IH; auto. intros u v Hu Hv. apply Hc; [right; exact Hu | exact Hv].
  - apply Forall_app. split; [exact Hx|]. apply Forall_forall. intros y Hy. apply Hc; [left; reflexivity | exact Hy].
Qed.
Lemma SS_map {X Y} (R : Y -> Y -> Prop) (f : X -> Y) (l : list X) :
  StronglySorted (fun a b => R (f a) (f b)) l -> StronglySorted R (map f l).
Proof.
  induction 1 as [|x l Hl IH Hx]; cbn [map]; constructor; auto.
  apply Forall_forall. intros y Hy. apply in_map_iff in Hy. destruct Hy as [z [<- Hz]].
  rewrite Forall_forall in Hx. now apply Hx.
Qed.
Lemma SS_seq_map {Y} (R : Y -> Y -> Prop) (f : nat -> Y) n : forall a,
  (forall i j, a <= i -> i < j -> j < a + n -> R (f i) (f j)) -> StronglySorted R (map f (seq a n)).
Proof.
  induction n as [|n IH]; intros a H; cbn [seq map]; constructor.
  - apply IH. intros i j Hi Hij Hj. apply H; lia.
  - apply Forall_forall. intros y Hy. apply in_map_iff in Hy. destruct Hy as [j [<- Hj]].
    apply in_seq in Hj. apply H; lia.
Qed.
Lemma SS_flat_map_seq {Y} (R : Y -> Y -> Prop) (g : nat -> list Y) n : forall a,
  (forall i, a <= i < a + n -> StronglySorted R (g i)) ->
  (forall i j x y, a <= i -> i < j -> j < a + n -> In x (g i) -> In y (g j) -> R x y) ->
  StronglySorted R (flat_map g (seq a n)).
Proof.
  induction n as [|n IH]; intros a H1 H2; cbn [seq flat_map]; [constructor|].
  apply SS_app.
  - apply H1. lia.
  - apply IH; [intros i Hi; apply H1; lia | intros i j x y Hi Hij Hj; apply H2; lia].
  - intros x y Hx Hy. apply in_flat_map in Hy. destruct Hy as [j [Hj Hy]]. apply in_seq in Hj.
    apply (H2 a j); auto; lia.
Qed.
Lemma SS_filter' {X} (R : X -> X -> Prop) (p : X -> bool) (l : list X) :
  StronglySorted R l -> StronglySorted R (filter p l).
Proof.
  induction 1 as [|x l Hl IH Hx]; cbn [filter]; [constructor|].
  destruct (p x); [|exact IH]. constructor; [exact IH|].
  apply Forall_forall. intros y Hy. apply filter_In in Hy. rewrite Forall_forall in Hx. apply Hx, Hy.
Qed.
Lemma SS_combine_seq {X} (Q : X -> X -> Prop) (l : list X) : forall a,
  StronglySorted Q l -> StronglySorted (fun x y : nat * X => Q (snd x) (snd y)) (combine (seq a (length l)) l).
Proof.
  induction l as [|x l IH]; intros a Hs; cbn [length seq combine]; [constructor|].
  inversion Hs as [|? ? Hs' Hx]; subst. constructor; [now apply IH|].
  apply Forall_forall. intros [k y] Hy. apply in_combine_r in Hy. cbn [snd].
  rewrite Forall_forall in Hx. now apply Hx.
Qed.
Lemma SS_in {X} (R : X -> X -> Prop) (l : list X) : StronglySorted R l ->
  forall x y, In x l -> In y l -> x = y \/ R x y \/ R y x.
Proof.
  induction 1 as [|a l Hl IH Ha]; intros x y Hx Hy; [contradiction|].
  rewrite Forall_forall in Ha.
  destruct Hx as [<-|Hx], Hy as [<-|Hy]; auto.
Qed.
Lemma SS_snoc_inv {X} (R : X -> X -> Prop) (a : list X) x :
  StronglySorted R (a ++ [x]) -> Forall (fun y => R y x) a.
Proof.
  induction a as [|y a IH]; intros H; [constructor|].
  cbn [app] in H. inversion H as [|? ? H' Hy]; subst. constructor.
  - rewrite Forall_forall in Hy. apply Hy. apply in_or_app; right; left; reflexivity.
  - now apply IH.
Qed.

Ltac ord_prep :=
  unfold eDiagBlk, eVec, eAuxD in *; rewrite ?in_app_iff in *;
  repeat match goal with H : _ \/ _ |- _ => destruct H as [H|H] end;
  repeat match goal with
         | H : In _ (flat_map _ _) |- _ => apply in_flat_map in H; destruct H as [? [? H]]
         | H : In _ (map _ _) |- _ => apply in_map_iff in H; destruct H as [? [<- H]]
         | H : In _ (seq _ _) |- _ => apply in_seq in H
         end.
Ltac ord_cross := intros x y Hx Hy; ord_prep; unfold Rcol, erow, ecol; cbn [fst snd]; lia.
Ltac ord_seq := apply SS_seq_map; intros i j Hi Hij Hj; unfold Rcol, erow, ecol; cbn [fst snd]; lia.

Lemma eCone_ordered c o pcol s : o + numel s <= pcol -> col_ordered (eCone c o pcol s).
Proof.
  unfold col_ordered. intros Hle. destruct s as [d|d|d|d1 d2]; cbn [numel] in Hle; unfold eCone.
  - unfold eDiagBlk. ord_seq.
  - apply SS_flat_map_seq.
    + intros t Ht. ord_seq.
    + intros i j x y Hi Hij Hj Hx Hy. ord_prep. unfold Rcol, erow, ecol; cbn [fst snd]. lia.
  - repeat (apply SS_app; [| |ord_cross]); unfold eDiagBlk, eVec, eAuxD; ord_seq.
  - repeat (apply SS_app; [| |ord_cross]); unfold eDiagBlk, eVec, eAuxD; ord_seq.
Qed.

Lemma eCone_upper c o pcol s e : o + numel s <= pcol -> In e (eCone c o pcol s) -> erow e <= ecol e.
Proof.
  intros Hle He. destruct s as [d|d|d|d1 d2]; cbn [numel] in Hle; unfold eCone in He;
    ord_prep; unfold erow, ecol; cbn [fst snd]; lia.
Qed.

Lemma eCones_ordered shapes : forall c o pcol, o + sum_by numel shapes <= pcol ->
  col_ordered (eCones c o pcol shapes).
Proof.
  unfold col_ordered. induction shapes as [|s shapes IH]; intros c o pcol Hle; [constructor|].
  cbn [sum_by fold_right] in Hle.
  change (fold_right (fun x a => numel x + a) 0 shapes) with (sum_by numel shapes) in Hle.
  cbn [eCones]. apply SS_app.
  - apply eCone_ordered. lia.
  - apply IH. lia.
  - intros x y Hx Hy. apply eCone_bounds in Hx. apply eCones_bounds in Hy.
    unfold inrng, Rcol in *. lia.
Qed.
Lemma eCones_upper shapes : forall c o pcol e, o + sum_by numel shapes <= pcol ->
  In e (eCones c o pcol shapes) -> erow e <= ecol e.
Proof.
  induction shapes as [|s shapes IH]; intros c o pcol e Hle He; [contradiction|].
  cbn [sum_by fold_right] in Hle.
  change (fold_right (fun x a => numel x + a) 0 shapes) with (sum_by numel shapes) in Hle.
  cbn [eCones] in He. apply in_app_or in He. destruct He as [He|He].
  - eapply eCone_upper; [|exact He]. lia.
  - eapply IH; [|exact He]. lia.
Qed.

Lemma SS_impl {X} (R1 R2 : X -> X -> Prop) (l : list X) :
  (forall x y, R1 x y -> R2 x y) -> StronglySorted R1 l -> StronglySorted R2 l.
Proof.
  intros H. induction 1 as [|x l Hl IH Hx]; constructor; auto.
  eapply Forall_impl; [|exact Hx]. intros y. apply H.
Qed.
Lemma SS_seq (R : nat -> nat -> Prop) n a : (forall i j, i < j -> R i j) -> StronglySorted R (seq a n).
Proof. intros H. rewrite <- (map_id (seq a n)). apply SS_seq_map. intros i j _ Hij _. now apply H. Qed.

Definition QP (x y : nat * nat) : Prop := snd x = snd y -> fst x < fst y.
Definition QA (x y : nat * nat) : Prop := fst x = fst y -> snd x < snd y.

Section Coords.
Context {T : Type}.
Notation col := (@col T).
Notation csc := (@csc T).

Lemma coordsL_col_lt (cs : list col) rc : In rc (coordsL cs) -> snd rc < length cs.
Proof.
  destruct rc as [r c]. intros Hin.
  destruct (coords_in (mkCsc 0 0 cs) r c Hin) as [H _]. exact H.
Qed.

Lemma col_rows_sorted (c : col) n (Q : nat * nat -> nat * nat -> Prop) :
  SS c -> (forall e e' : nat * T, fst e < fst e' -> Q (fst e, n) (fst e', n)) ->
  StronglySorted Q (map (fun e : nat * T => (fst e, n)) c).
Proof.
  unfold SS. intros Hs HQ. apply SS_map. induction c as [|e c IH]; [constructor|].
  cbn [map] in Hs. inversion Hs as [|? ? Hs' He]; subst. constructor; [now apply IH|].
  apply Forall_forall. intros e' He'. apply HQ.
  rewrite Forall_forall in He. apply He. now apply in_map.
Qed.

Lemma coordsL_QP (cs : list col) : Forall SS cs -> StronglySorted QP (coordsL cs).
Proof.
  induction cs as [|c cs IH] using rev_ind; intros Hall; [constructor|].
  apply Forall_app in Hall. destruct Hall as [Hcs Hc]. inversion Hc as [|? ? Hc' _]; subst.
  rewrite coordsL_snoc. apply SS_app.
  - now apply IH.
  - apply col_rows_sorted; [exact Hc'|]. intros e e' He. unfold QP. cbn [fst snd]. lia.
  - intros x y Hx Hy. apply coordsL_col_lt in Hx. apply in_map_iff in Hy. destruct Hy as [e [<- _]].
    unfold QP. cbn [fst snd]. lia.
Qed.
Lemma coordsL_QA (cs : list col) : Forall SS cs -> StronglySorted QA (coordsL cs).
Proof.
  induction cs as [|c cs IH] using rev_ind; intros Hall; [constructor|].
  apply Forall_app in Hall. destruct Hall as [Hcs Hc]. inversion Hc as [|? ? Hc' _]; subst.
  rewrite coordsL_snoc. apply SS_app.
  - now apply IH.
  - apply col_rows_sorted; [exact Hc'|]. intros e e' He. unfold QA. cbn [fst snd]. lia.
  - intros x y Hx Hy. apply coordsL_col_lt in Hx. apply in_map_iff in Hy. destruct Hy as [e [<- _]].
    unfold QA. cbn [fst snd]. lia.
Qed.

Lemma canonical_SS (M : csc) : canonicalb M = true -> Forall SS (cols M).
Proof.
  intros H. apply canonical_iff in H. destruct H as [_ H]. eapply Forall_impl; [|exact H].
  intros c [Hc _]. exact Hc.
Qed.

Lemma eP_ordered (P : csc) : canonicalb P = true -> col_ordered (eP P).
Proof.
  intros HP. unfold col_ordered, eP. apply SS_map. unfold indexed.
  eapply SS_impl; [|apply (SS_combine_seq QP); apply coordsL_QP, canonical_SS, HP].
  intros x y H. exact H.
Qed.
Lemma eA_ordered (A : csc) n : canonicalb A = true -> col_ordered (eA A n).
Proof.
  intros HA. unfold col_ordered, eA. apply SS_map. unfold indexed.
  eapply SS_impl; [|apply (SS_combine_seq QA); apply coordsL_QA, canonical_SS, HA].
  intros x y H. unfold Rcol, QA, erow, ecol in *. cbn [fst snd]. lia.
Qed.
Lemma eMiss_ordered (P : csc) n : col_ordered (eMiss P n).
Proof.
  unfold col_ordered, eMiss. apply SS_map. apply SS_filter'. apply SS_seq.
  intros i j Hij. unfold Rcol, erow, ecol. cbn [fst snd]. lia.
Qed.

(** what an entry of the P part looks like *)
Lemma eP_in (P : csc) e : canonicalb P = true -> upper_tri P -> In e (eP P) ->
  ecol e < nc P /\ erow e <= ecol e /\ (has_diag P (ecol e) = false -> erow e < ecol e).
Proof.
  intros HP Hup Hin. unfold eP in Hin. apply in_map_iff in Hin. destruct Hin as [[k [r c]] [<- Hk]].
  apply LemmasStruct.in_indexed in Hk. cbn [snd] in Hk. unfold erow, ecol. cbn [fst snd].
  pose proof (coords_bounds P r c HP Hk) as [_ Hc].
  destruct (coords_in P r c Hk) as [_ [x [Hx Hr]]].
  pose proof (Hup c x Hx) as Hle. rewrite Hr in Hle.
  split; [exact Hc|]. split; [exact Hle|].
  intros Hd. destruct (Nat.eq_dec r c) as [->|Hne]; [|lia].
  exfalso. unfold has_diag in Hd.
  assert (existsb (fun e => fst e =? c) (nth c (cols P) []) = true); [|congruence].
  apply existsb_exists. exists x. split; [exact Hx | now apply Nat.eqb_eq].
Qed.
End Coords.

Section Top.
Context {T : Type}.
Notation csc := (@csc T).

Lemma eA_in (A : csc) n e : canonicalb A = true -> In e (eA A n) ->
  erow e < nc A /\ n <= ecol e < n + nr A.
Proof.
  intros HA Hin. unfold eA in Hin. apply in_map_iff in Hin. destruct Hin as [[k [r c]] [<- Hk]].
  apply LemmasStruct.in_indexed in Hk. cbn [snd] in Hk. unfold erow, ecol. cbn [fst snd].
  pose proof (coords_bounds A r c HA Hk) as [Hr Hc]. lia.
Qed.
Lemma eMiss_in (P : csc) n e : In e (eMiss P n) ->
  erow e = ecol e /\ ecol e < n /\ has_diag P (ecol e) = false.
Proof.
  unfold eMiss. intros Hin. apply in_map_iff in Hin. destruct Hin as [i [<- Hi]].
  apply filter_In in Hi. destruct Hi as [Hi Hd]. apply in_seq in Hi. unfold erow, ecol. cbn [fst snd].
  apply negb_true_iff in Hd. repeat split; [lia | exact Hd].
Qed.

(** entries_triu: every column's entries appear in strictly increasing row order *)
Lemma entries_triu_ordered (P A : csc) shapes : wf_input P A shapes ->
  col_ordered (entries_triu P A shapes).
Proof.
  intros [HP [HA [Hsq [HnA [Hup Hm]]]]]. unfold col_ordered, entries_triu.
  apply SS_app; [apply eP_ordered; exact HP | |].
  2:{ intros x y Hx Hy. apply (eP_in P x HP Hup) in Hx. destruct Hx as [Hc [Hle Hd]].
      unfold Rcol. intros Heq. rewrite !in_app_iff in Hy. destruct Hy as [Hy|[Hy|Hy]].
      - apply eMiss_in in Hy. destruct Hy as [Hrc [_ Hhd]]. rewrite <- Heq in Hhd. specialize (Hd Hhd). lia.
      - apply (eA_in A (nc P) y HA) in Hy. lia.
      - apply eCones_bounds in Hy. unfold inrng in Hy. lia. }
  apply SS_app; [apply eMiss_ordered | |].
  2:{ intros x y Hx Hy. apply eMiss_in in Hx. destruct Hx as [Hrc [Hc _]].
      unfold Rcol. intros Heq. rewrite in_app_iff in Hy. destruct Hy as [Hy|Hy].
      - apply (eA_in A (nc P) y HA) in Hy. lia.
      - apply eCones_bounds in Hy. unfold inrng in Hy. lia. }
  apply SS_app; [apply eA_ordered; exact HA | apply eCones_ordered; lia |].
  intros x y Hx Hy. apply (eA_in A (nc P) x HA) in Hx. apply eCones_bounds in Hy.
  unfold inrng, Rcol in *. lia.
Qed.

Lemma entries_triu_upper (P A : csc) shapes e : wf_input P A shapes ->
  In e (entries_triu P A shapes) -> erow e <= ecol e.
Proof.
  intros [HP [HA [Hsq [HnA [Hup Hm]]]]] Hin. unfold entries_triu in Hin.
  rewrite !in_app_iff in Hin. destruct Hin as [Hin|[Hin|[Hin|Hin]]].
  - apply (eP_in P e HP Hup) in Hin. lia.
  - apply eMiss_in in Hin. lia.
  - apply (eA_in A (nc P) e HA) in Hin. lia.
  - eapply eCones_upper; [|exact Hin]. lia.
Qed.
End Top.

(** * consequences for the buckets *)
Lemma bucket_col es j e : In e (bucket es j) -> ecol e = j /\ In e es.
Proof. unfold bucket. intros H. apply filter_In in H. destruct H as [H1 H2]. apply Nat.eqb_eq in H2. auto. Qed.

Lemma rows_sorted_of_SS (l : list ent) j :
  StronglySorted Rcol l -> (forall e, In e l -> ecol e = j) -> rows_sorted l.
Proof.
  induction 1 as [|a l Hl IH Ha]; intros Hc; [exact I|].
  destruct l as [|b l]; [exact I|]. cbn [rows_sorted]. split.
  - rewrite Forall_forall in Ha. specialize (Ha b (or_introl eq_refl)). unfold Rcol in Ha.
    rewrite (Hc a), (Hc b) in Ha by (cbn; auto). specialize (Ha eq_refl). lia.
  - apply IH. intros e He. apply Hc. right; exact He.
Qed.
Lemma col_ordered_buckets_sorted N es : col_ordered es -> buckets_sorted N es.
Proof.
  intros Ho j Hj. apply (rows_sorted_of_SS _ j).
  - unfold bucket. now apply SS_filter'.
  - intros e He. now apply bucket_col in He.
Qed.
