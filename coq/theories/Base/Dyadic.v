(** Exact dyadic rationals [m * 2^e].  Every finite binary64 value is one, so the outputs of
    the (untrusted) float code can be re-evaluated exactly.  [+ - *] and comparisons are
    exact and closed; square roots are enclosed between certified dyadic bounds.
    The meaning function is [d2Q : dy -> Q]; all lemmas are stated through it. *)
From Coq Require Import ZArith QArith Qpower Qabs Qminmax Lia List Bool.
Import ListNotations.
Open Scope Z_scope.

Record dy : Set := D { dm : Z; de : Z }.

Definition d2Q (a : dy) : Q := inject_Z (dm a) * Qpower 2 (de a).

Definition d0 : dy := D 0 0.
Definition d1 : dy := D 1 0.
Definition dofZ (z : Z) : dy := D z 0.
(** mantissa of [a] at exponent [e] (exact when [e <= de a]) *)
Definition dat (a : dy) (e : Z) : Z := dm a * 2 ^ (de a - e).
Definition dadd (a b : dy) : dy :=
  let e := Z.min (de a) (de b) in D (dat a e + dat b e) e.
Definition dneg (a : dy) : dy := D (- dm a) (de a).
Definition dsub (a b : dy) : dy := dadd a (dneg b).
Definition dmul (a b : dy) : dy := D (dm a * dm b) (de a + de b).
Definition dabs (a : dy) : dy := D (Z.abs (dm a)) (de a).
Definition dcmp (a b : dy) : comparison :=
  let e := Z.min (de a) (de b) in Z.compare (dat a e) (dat b e).
Definition dltb (a b : dy) : bool := match dcmp a b with Lt => true | _ => false end.
Definition dleb (a b : dy) : bool := match dcmp a b with Gt => false | _ => true end.
Definition deqb (a b : dy) : bool := match dcmp a b with Eq => true | _ => false end.
Definition dmax (a b : dy) : dy := if dltb a b then b else a.
Definition dmin (a b : dy) : dy := if dltb b a then b else a.
Definition dsum (l : list dy) : dy := fold_left dadd l d0.
Definition ddot (x y : list dy) : dy := dsum (map (fun p => dmul (fst p) (snd p)) (combine x y)).
Definition dsumsq (x : list dy) : dy := ddot x x.
Definition dnorminf (x : list dy) : dy := fold_left (fun m v => dmax m (dabs v)) x d0.
(** [x * 2^k] *)
Definition dshift (a : dy) (k : Z) : dy := D (dm a) (de a + k).

(** Certified square-root bounds for [a >= 0]: [dsqrt_lo a ^2 <= a <= dsqrt_up a ^2],
    relative width about 2^-64. *)
Definition dsqrt_exp (a : dy) : Z :=
  let e0 := de a - 2 * 70 in (* at least 140 extra bits *)
  if Z.even e0 then e0 else e0 - 1.
Definition dsqrt_lo (a : dy) : dy :=
  if dm a <=? 0 then d0 else
  let e := dsqrt_exp a in D (Z.sqrt (dat a e)) (e / 2).
Definition dsqrt_up (a : dy) : dy :=
  if dm a <=? 0 then d0 else
  let e := dsqrt_exp a in D (Z.sqrt (dat a e) + 1) (e / 2).

(** * Meaning lemmas *)
Local Open Scope Q_scope.

Lemma two_neq0 : ~ 2 == 0. Proof. discriminate. Qed.

Lemma Qpower2_pos e : 0 < Qpower 2 e.
Proof. apply Qpower_0_lt. reflexivity. Qed.

Lemma Qpower2_plus a b : Qpower 2 (a + b) == Qpower 2 a * Qpower 2 b.
Proof. apply Qpower_plus. exact two_neq0. Qed.

Lemma Qpower2_nonneg_Z k : (0 <= k)%Z -> Qpower 2 k == inject_Z (2 ^ k).
Proof.
  intros Hk. rewrite (Zpower_Qpower 2 k Hk). reflexivity.
Qed.

Lemma dat_sem a e : (e <= de a)%Z -> inject_Z (dat a e) * Qpower 2 e == d2Q a.
Proof.
  intros H. unfold dat, d2Q. rewrite inject_Z_mult.
  rewrite <- Qpower2_nonneg_Z by lia.
  rewrite <- Qmult_assoc. rewrite <- Qpower2_plus.
  replace (de a - e + e)%Z with (de a) by lia. reflexivity.
Qed.

Lemma dadd_sem a b : d2Q (dadd a b) == d2Q a + d2Q b.
Proof.
  unfold dadd. set (e := Z.min (de a) (de b)).
  rewrite <- (dat_sem a e) by (unfold e; lia).
  rewrite <- (dat_sem b e) by (unfold e; lia).
  unfold d2Q; cbn [dm de]. rewrite inject_Z_plus. ring.
Qed.

Lemma dneg_sem a : d2Q (dneg a) == - d2Q a.
Proof. unfold dneg, d2Q; cbn [dm de]. rewrite inject_Z_opp. ring. Qed.

Lemma dsub_sem a b : d2Q (dsub a b) == d2Q a - d2Q b.
Proof. unfold dsub. rewrite dadd_sem, dneg_sem. ring. Qed.

Lemma dmul_sem a b : d2Q (dmul a b) == d2Q a * d2Q b.
Proof.
  unfold dmul, d2Q; cbn [dm de]. rewrite inject_Z_mult, Qpower2_plus. ring.
Qed.

Lemma dshift_sem a k : d2Q (dshift a k) == d2Q a * Qpower 2 k.
Proof. unfold dshift, d2Q; cbn [dm de]. rewrite Qpower2_plus. ring. Qed.

Lemma d0_sem : d2Q d0 == 0. Proof. reflexivity. Qed.
Lemma d1_sem : d2Q d1 == 1. Proof. reflexivity. Qed.
Lemma dofZ_sem z : d2Q (dofZ z) == inject_Z z.
Proof. unfold dofZ, d2Q; cbn [dm de]. cbn [Qpower]. ring. Qed.

Lemma dabs_sem a : d2Q (dabs a) == Qabs (d2Q a).
Proof.
  unfold dabs, d2Q; cbn [dm de]. rewrite Qabs_Qmult.
  rewrite (Qabs_pos (Qpower 2 (de a))) by (apply Qlt_le_weak, Qpower2_pos).
  apply Qmult_comp; [|reflexivity].
  unfold Qabs, inject_Z; cbn. reflexivity.
Qed.

Lemma inject_Z_cmp x y : (inject_Z x ?= inject_Z y) = (x ?= y)%Z.
Proof. unfold Qcompare, inject_Z; cbn. rewrite !Z.mul_1_r. reflexivity. Qed.

Lemma dcmp_sem a b : dcmp a b = (d2Q a ?= d2Q b).
Proof.
  unfold dcmp. set (e := Z.min (de a) (de b)).
  rewrite <- (dat_sem a e) by (unfold e; lia).
  rewrite <- (dat_sem b e) by (unfold e; lia).
  rewrite <- inject_Z_cmp.
  pose proof (Qpower2_pos e) as Hp.
  destruct (inject_Z (dat a e) ?= inject_Z (dat b e)) eqn:Hc; symmetry.
  - apply Qeq_alt in Hc. apply Qeq_alt. rewrite Hc. reflexivity.
  - apply Qlt_alt in Hc. apply Qlt_alt. apply Qmult_lt_compat_r; assumption.
  - apply Qgt_alt in Hc. apply Qgt_alt. apply Qmult_lt_compat_r; assumption.
Qed.

Lemma dltb_true a b : dltb a b = true <-> d2Q a < d2Q b.
Proof.
  unfold dltb. rewrite dcmp_sem. rewrite Qlt_alt.
  destruct (d2Q a ?= d2Q b); split; intros; auto; discriminate.
Qed.
Lemma dleb_true a b : dleb a b = true <-> d2Q a <= d2Q b.
Proof.
  unfold dleb. rewrite dcmp_sem. rewrite Qle_alt.
  destruct (d2Q a ?= d2Q b); split; intros H; auto; try discriminate; exfalso; apply H; reflexivity.
Qed.
Lemma deqb_true a b : deqb a b = true <-> d2Q a == d2Q b.
Proof.
  unfold deqb. rewrite dcmp_sem. rewrite Qeq_alt.
  destruct (d2Q a ?= d2Q b); split; intros; auto; discriminate.
Qed.
Lemma dltb_false a b : dltb a b = false <-> d2Q b <= d2Q a.
Proof.
  split; intros H.
  - apply Qnot_lt_le. intros Hl. apply dltb_true in Hl. congruence.
  - destruct (dltb a b) eqn:E; [|reflexivity]. apply dltb_true in E.
    exfalso. apply (Qlt_irrefl (d2Q a)). eapply Qlt_le_trans; eauto.
Qed.
Lemma dleb_false a b : dleb a b = false <-> d2Q b < d2Q a.
Proof.
  split; intros H.
  - apply Qnot_le_lt. intros Hl. apply dleb_true in Hl. congruence.
  - destruct (dleb a b) eqn:E; [|reflexivity]. apply dleb_true in E.
    exfalso. apply (Qlt_irrefl (d2Q b)). eapply Qlt_le_trans; eauto.
Qed.

Lemma dmax_sem a b : d2Q (dmax a b) == Qmax (d2Q a) (d2Q b).
Proof.
  unfold dmax. destruct (dltb a b) eqn:E.
  - apply dltb_true in E. symmetry. apply Q.max_r. apply Qlt_le_weak; exact E.
  - apply dltb_false in E. symmetry. apply Q.max_l. exact E.
Qed.
Lemma dmin_sem a b : d2Q (dmin a b) == Qmin (d2Q a) (d2Q b).
Proof.
  unfold dmin. destruct (dltb b a) eqn:E.
  - apply dltb_true in E. symmetry. apply Q.min_r. apply Qlt_le_weak; exact E.
  - apply dltb_false in E. symmetry. apply Q.min_l. exact E.
Qed.

(** sums and dot products *)
Definition Qsum (l : list Q) : Q := fold_left Qplus l 0.

Lemma fold_dadd_sem l acc :
  d2Q (fold_left dadd l acc) == fold_left Qplus (map d2Q l) (d2Q acc).
Proof.
  revert acc; induction l as [|x l IH]; intros acc; cbn [fold_left map]; [reflexivity|].
  rewrite IH. clear IH.
  assert (H : d2Q (dadd acc x) == d2Q acc + d2Q x) by apply dadd_sem.
  revert H. generalize (d2Q (dadd acc x)) (d2Q acc + d2Q x). clear.
  induction (map d2Q l) as [|y m IH]; intros u v H; cbn [fold_left]; [exact H|].
  apply IH. rewrite H. reflexivity.
Qed.

Lemma dsum_sem l : d2Q (dsum l) == Qsum (map d2Q l).
Proof. unfold dsum, Qsum. rewrite fold_dadd_sem. reflexivity. Qed.

(** square-root bounds *)
Lemma dsqrt_exp_even a : Z.even (dsqrt_exp a) = true /\ (dsqrt_exp a <= de a)%Z.
Proof.
  unfold dsqrt_exp. destruct (Z.even (de a - 2 * 70)) eqn:E.
  - split; [exact E | lia].
  - split; [| lia]. rewrite Z.even_sub, E. reflexivity.
Qed.

Lemma half_exp_sq e : Z.even e = true -> Qpower 2 (e / 2) * Qpower 2 (e / 2) == Qpower 2 e.
Proof.
  intros He. rewrite <- Qpower2_plus.
  apply Z.even_spec in He. destruct He as [k Hk]. subst e.
  replace (2 * k / 2)%Z with k by (rewrite Z.mul_comm, Z.div_mul; lia).
  replace (k + k)%Z with (2 * k)%Z by lia. reflexivity.
Qed.

Lemma dsqrt_lo_sem a : 0 <= d2Q a -> d2Q (dsqrt_lo a) * d2Q (dsqrt_lo a) <= d2Q a.
Proof.
  intros Ha. unfold dsqrt_lo. destruct (dm a <=? 0)%Z eqn:E.
  - rewrite d0_sem. ring_simplify. exact Ha.
  - apply Z.leb_gt in E. destruct (dsqrt_exp_even a) as [Hev Hle].
    set (e := dsqrt_exp a) in *. unfold d2Q at 1 2; cbn [dm de].
    rewrite <- (dat_sem a e Hle).
    set (n := dat a e).
    assert (Hn : (0 <= n)%Z) by (unfold n, dat; apply Z.mul_nonneg_nonneg; [lia | apply Z.pow_nonneg; lia]).
    pose proof (Z.sqrt_spec n Hn) as [Hs _].
    apply Qle_trans with (inject_Z (Z.sqrt n * Z.sqrt n) * Qpower 2 e).
    + rewrite inject_Z_mult. rewrite <- (half_exp_sq e Hev). apply Qle_lteq; right; ring.
    + apply Qmult_le_compat_r; [| apply Qlt_le_weak, Qpower2_pos].
      rewrite <- Zle_Qle. exact Hs.
Qed.

Lemma dsqrt_up_sem a : 0 <= d2Q a -> d2Q a <= d2Q (dsqrt_up a) * d2Q (dsqrt_up a).
Proof.
  intros Ha. unfold dsqrt_up. destruct (dm a <=? 0)%Z eqn:E.
  - apply Z.leb_le in E. rewrite d0_sem. ring_simplify.
    unfold d2Q. setoid_replace 0 with (0 * Qpower 2 (de a)) by ring.
    apply Qmult_le_compat_r; [| apply Qlt_le_weak, Qpower2_pos].
    change (inject_Z (dm a) <= inject_Z 0). rewrite <- Zle_Qle. exact E.
  - apply Z.leb_gt in E. destruct (dsqrt_exp_even a) as [Hev Hle].
    set (e := dsqrt_exp a) in *. unfold d2Q at 2 3; cbn [dm de].
    rewrite <- (dat_sem a e Hle).
    set (n := dat a e).
    assert (Hn : (0 <= n)%Z) by (unfold n, dat; apply Z.mul_nonneg_nonneg; [lia | apply Z.pow_nonneg; lia]).
    pose proof (Z.sqrt_spec n Hn) as [_ Hs].
    apply Qle_trans with (inject_Z ((Z.sqrt n + 1) * (Z.sqrt n + 1)) * Qpower 2 e).
    + apply Qmult_le_compat_r; [| apply Qlt_le_weak, Qpower2_pos].
      rewrite <- Zle_Qle. unfold Z.succ in Hs. lia.
    + rewrite inject_Z_mult. rewrite <- (half_exp_sq e Hev). apply Qle_lteq; right; ring.
Qed.

Lemma dsqrt_lo_nonneg a : 0 <= d2Q (dsqrt_lo a).
Proof.
  unfold dsqrt_lo. destruct (dm a <=? 0)%Z; [rewrite d0_sem; apply Qle_refl|].
  unfold d2Q; cbn [dm de]. apply Qmult_le_0_compat.
  - change 0 with (inject_Z 0). rewrite <- Zle_Qle. apply Z.sqrt_nonneg.
  - apply Qlt_le_weak, Qpower2_pos.
Qed.
Lemma dsqrt_up_nonneg a : 0 <= d2Q (dsqrt_up a).
Proof.
  unfold dsqrt_up. destruct (dm a <=? 0)%Z; [rewrite d0_sem; apply Qle_refl|].
  unfold d2Q; cbn [dm de]. apply Qmult_le_0_compat.
  - change 0 with (inject_Z 0). rewrite <- Zle_Qle. pose proof (Z.sqrt_nonneg (dat a (dsqrt_exp a))). lia.
  - apply Qlt_le_weak, Qpower2_pos.
Qed.
