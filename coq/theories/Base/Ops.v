(** Scalar operations record: every numeric model is one Gallina term over [Ops T],
    interpreted at Z (exactness domains), Q (exact checkers), R (theorems) and
    binary64 primitive floats (execution against the Rust f64 code). *)
From Coq Require Import ZArith QArith Qabs Reals Floats List Lia Ring Bool.
Import ListNotations.

Record Ops (T : Type) := mkOps {
  zero : T; one : T;
  add : T -> T -> T; sub : T -> T -> T; mul : T -> T -> T; div : T -> T -> T;
  neg : T -> T; abs : T -> T; sqrt : T -> T;
  ltb : T -> T -> bool; leb : T -> T -> bool; eqb : T -> T -> bool;
  ofZ : Z -> T }.
Arguments zero {T}. Arguments one {T}. Arguments add {T}. Arguments sub {T}.
Arguments mul {T}. Arguments div {T}. Arguments neg {T}. Arguments abs {T}.
Arguments sqrt {T}. Arguments ltb {T}. Arguments leb {T}. Arguments eqb {T}.
Arguments ofZ {T}.

Definition omax {T} (O : Ops T) (a b : T) : T := if ltb O a b then b else a.
Definition omin {T} (O : Ops T) (a b : T) : T := if ltb O b a then b else a.

(** Z: division is truncated (unused by exact models), sqrt is the integer root. *)
Definition OpsZ : Ops Z := {|
  zero := 0%Z; one := 1%Z; add := Z.add; sub := Z.sub; mul := Z.mul; div := Z.quot;
  neg := Z.opp; abs := Z.abs; sqrt := Z.sqrt;
  ltb := Z.ltb; leb := Z.leb; eqb := Z.eqb; ofZ := fun z => z |}.

Definition Qltb (a b : Q) : bool := negb (Qle_bool b a).
Definition OpsQ : Ops Q := {|
  zero := 0%Q; one := 1%Q; add := Qplus; sub := Qminus; mul := Qmult; div := Qdiv;
  neg := Qopp; abs := Qabs; sqrt := fun x => x (* not available: never used on Q *);
  ltb := Qltb; leb := Qle_bool; eqb := Qeq_bool; ofZ := inject_Z |}.

Definition Rltb (a b : R) : bool := if Rlt_dec a b then true else false.
Definition Rleb (a b : R) : bool := if Rle_dec a b then true else false.
Definition Reqb (a b : R) : bool := if Req_EM_T a b then true else false.
Definition OpsR : Ops R := {|
  zero := 0%R; one := 1%R; add := Rplus; sub := Rminus; mul := Rmult; div := Rdiv;
  neg := Ropp; abs := Rabs; sqrt := R_sqrt.sqrt;
  ltb := Rltb; leb := Rleb; eqb := Reqb; ofZ := IZR |}.

Definition OpsF : Ops float := {|
  zero := 0%float; one := 1%float; add := PrimFloat.add; sub := PrimFloat.sub;
  mul := PrimFloat.mul; div := PrimFloat.div; neg := PrimFloat.opp; abs := PrimFloat.abs;
  sqrt := PrimFloat.sqrt; ltb := PrimFloat.ltb; leb := PrimFloat.leb; eqb := PrimFloat.eqb;
  ofZ := fun z => match z with
                  | Z0 => 0%float
                  | Zpos p => PrimFloat.of_uint63 (Uint63.of_Z (Zpos p))
                  | Zneg p => PrimFloat.opp (PrimFloat.of_uint63 (Uint63.of_Z (Zpos p)))
                  end |}.

Lemma Rltb_true a b : Rltb a b = true <-> (a < b)%R.
Proof. unfold Rltb; destruct (Rlt_dec a b); split; intros; auto; discriminate. Qed.
Lemma Rltb_false a b : Rltb a b = false <-> (b <= a)%R.
Proof. unfold Rltb; destruct (Rlt_dec a b); split; intros; auto; try discriminate.
  - exfalso; apply (Rlt_irrefl a); eapply Rlt_le_trans; eauto.
  - apply Rnot_lt_le; auto. Qed.
Lemma Rleb_true a b : Rleb a b = true <-> (a <= b)%R.
Proof. unfold Rleb; destruct (Rle_dec a b); split; intros; auto; discriminate. Qed.
Lemma Rleb_false a b : Rleb a b = false <-> (b < a)%R.
Proof. unfold Rleb; destruct (Rle_dec a b); split; intros; auto; try discriminate.
  - exfalso; apply (Rlt_irrefl a); eapply Rle_lt_trans; eauto.
  - apply Rnot_le_lt; auto. Qed.
Lemma Reqb_true a b : Reqb a b = true <-> a = b.
Proof. unfold Reqb; destruct (Req_EM_T a b); split; intros; auto; discriminate. Qed.
Lemma Reqb_false a b : Reqb a b = false <-> a <> b.
Proof. unfold Reqb; destruct (Req_EM_T a b); split; intros; auto; try discriminate; contradiction. Qed.

(** Ring laws as a hypothesis bundle, so structural theorems are proved once for any
    commutative ring and instantiated at Z and R. *)
Definition RingLaws {T} (O : Ops T) : Prop :=
  ring_theory (zero O) (one O) (add O) (mul O) (sub O) (neg O) (@eq T).
Lemma RingLawsZ : RingLaws OpsZ. Proof. exact Zth. Qed.
Lemma RingLawsR : RingLaws OpsR. Proof. exact RTheory. Qed.
