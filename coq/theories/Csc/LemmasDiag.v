(** Proofs of three C16 statements of Csc/Spec.v: the unconditional characterisation of
    [is_triu], the missing-diagonal helpers, and the round trips between the full symmetric
    and the upper-triangular representation. *)
From Coq Require Import List Arith Lia Bool Sorted Ring.
Import ListNotations.
Require Import Clarabel.Base.Ops Clarabel.Csc.Model Clarabel.Csc.Spec Clarabel.Csc.LemmasStruct.

(** * Generic list facts *)

Lemma in_combine_seq {X} (l : list X) (d : X) : forall a j x,
  In (j, x) (combine (seq a (length l)) l) <->
  exists k, j = a + k /\ k < length l /\ x = nth k l d.
Proof.
  induction l as [|y l IH]; intros a j x.
  - cbn [length seq combine In]. split; [intros [] | intros (k & _ & Hk & _); lia].
  - cbn [length seq combine In]. rewrite IH. split.
    + intros [Heq | (k & Hj & Hk & Hx)].
      * inversion Heq; subst. exists 0. cbn [nth]. repeat split; lia.
      * exists (S k). cbn [nth]. repeat split; [lia | lia | exact Hx].
    + intros (k & Hj & Hk & Hx). destruct k as [|k].
      * left. cbn [nth] in Hx. subst. f_equal. lia.
      * right. exists k. cbn [nth] in Hx. repeat split; [lia | lia | exact Hx].
Qed.

Lemma in_indexed_iff {X} (l : list X) (d : X) j x :
  In (j, x) (indexed l) <-> j < length l /\ x = nth j l d.
Proof.
  unfold indexed. rewrite (in_combine_seq l d 0 j x). split.
  - intros (k & Hj & Hk & Hx). cbn [plus] in Hj. subst. split; [exact Hk | reflexivity].
  - intros [Hj Hx]. exists j. repeat split; [exact Hj | exact Hx].
Qed.

Lemma length_indexed {X} (l : list X) : length (indexed l) = length l.
Proof. unfold indexed. rewrite combine_length, seq_length. apply Nat.min_id. Qed.

Lemma map_snd_combine_seq {X} (l : list X) a : map snd (combine (seq a (length l)) l) = l.
Proof.
  revert a. induction l as [|x l IH]; intros a; [reflexivity|].
  cbn [length seq combine map snd]. f_equal. apply IH.
Qed.

Lemma map_indexed_id {X} (F : nat * X -> X) (l : list X) :
  (forall jc, In jc (indexed l) -> F jc = snd jc) -> map F (indexed l) = l.
Proof.
  intros H. rewrite (map_ext_in F snd (indexed l) H). unfold indexed.
  apply map_snd_combine_seq.
Qed.

Lemma map_indexed_idem_gen {X} (F : nat * X -> X) (l : list X) :
  (forall j x, In x l -> F (j, F (j, x)) = F (j, x)) ->
  forall a,
    map F (combine (seq a (length (map F (combine (seq a (length l)) l))))
                   (map F (combine (seq a (length l)) l)))
    = map F (combine (seq a (length l)) l).
Proof.
  induction l as [|x l IH]; intros H a; [reflexivity|].
  cbn [length seq combine map]. f_equal.
  - apply H. left. reflexivity.
  - apply IH. intros j y Hy. apply H. right. exact Hy.
Qed.

Lemma filter_forallb {X} (p : X -> bool) (l : list X) :
  forallb p l = true -> filter p l = l.
Proof.
  induction l as [|x l IH]; intros H; [reflexivity|].
  cbn [forallb] in H. apply andb_true_iff in H. destruct H as [H1 H2].
  cbn [filter]. rewrite H1. f_equal. apply IH. exact H2.
Qed.

Lemma forallb_filter_self {X} (p : X -> bool) (l : list X) : forallb p (filter p l) = true.
Proof.
  apply forallb_forall. intros x Hx. apply filter_In in Hx. tauto.
Qed.

Lemma find_none_iff {X} (p : X -> bool) (l : list X) :
  find p l = None <-> forall x, In x l -> p x = false.
Proof.
  induction l as [|y l IH]; cbn [find].
  - split; [intros _ x [] | reflexivity].
  - destruct (p y) eqn:E.
    + split; [discriminate|]. intros H. rewrite (H y) in E by (left; reflexivity).
      discriminate.
    + rewrite IH. split.
      * intros H x [Hx|Hx]; [subst; exact E | apply H; exact Hx].
      * intros H x Hx. apply H. right. exact Hx.
Qed.

Lemma countb_negb {X} (p : X -> bool) (l : list X) :
  countb (fun x => negb (p x)) l + countb p l = length l.
Proof.
  unfold countb. induction l as [|x l IH]; [reflexivity|].
  cbn [filter]. destruct (p x); cbn [negb length]; lia.
Qed.

Lemma option_map_none {X Y} (f : X -> Y) (o : option X) : option_map f o = None <-> o = None.
Proof. destruct o; cbn [option_map]; split; intros H; try discriminate; reflexivity. Qed.

(** * Carrier-only facts *)
Section Carrier.
Context {T : Type}.
Notation entry := (@entry T).
Notation col := (@col T).
Notation csc := (@csc T).

Lemma is_triu_iff_ok' : @stmt_is_triu_iff T.
Proof.
  intros A. unfold is_triu. rewrite forallb_forall. split.
  - intros H j e He. destruct (Nat.lt_ge_cases j (length (cols A))) as [Hj|Hj].
    + assert (Hin : In (j, nth j (cols A) []) (indexed (cols A))).
      { apply (in_indexed_iff (cols A) [] j). split; [exact Hj | reflexivity]. }
      apply H in Hin. cbn [fst snd] in Hin. rewrite forallb_forall in Hin.
      apply Nat.leb_le. apply Hin. exact He.
    + rewrite nth_overflow in He by exact Hj. destruct He.
  - intros H jc Hin. destruct jc as [j c]. cbn [fst snd].
    apply (in_indexed_iff (cols A) [] j c) in Hin. destruct Hin as [Hj Hc]. subst c.
    apply forallb_forall. intros e He. apply Nat.leb_le. apply (H j). exact He.
Qed.

Lemma SS_snoc (c : col) (e : entry) :
  SS (c ++ [e]) <-> SS c /\ Forall (fun x : entry => fst x < fst e) c.
Proof.
  induction c as [|x c IH]; cbn [app].
  - split.
    + intros _. split; [apply SS_nil | constructor].
    + intros _. apply SS_cons. split; [apply SS_nil | constructor].
  - split.
    + intros H. apply SS_cons in H. destruct H as [Hs Hf].
      apply IH in Hs. destruct Hs as [Hs Hlt].
      apply Forall_app in Hf. destruct Hf as [Hf1 Hf2].
      split.
      * apply SS_cons. split; [exact Hs | exact Hf1].
      * constructor; [|exact Hlt]. inversion Hf2 as [|y r Hy _]; subst. exact Hy.
    + intros [H Hlt]. apply SS_cons in H. destruct H as [Hs Hf].
      inversion Hlt as [|y r Hy Hlt']; subst.
      apply SS_cons. split.
      * apply IH. split; [exact Hs | exact Hlt'].
      * apply Forall_app. split; [exact Hf|]. constructor; [exact Hy | constructor].
Qed.

Lemma diag_missing_nil j : diag_missing (@nil entry) j = true.
Proof. reflexivity. Qed.

Lemma diag_missing_snoc (c : col) (e : entry) j :
  diag_missing (c ++ [e]) j = negb (fst e =? j).
Proof. unfold diag_missing. rewrite rev_app_distr. reflexivity. Qed.

(** in a strictly sorted column with no entry below the diagonal, the diagonal is missing
    exactly when every stored row is strictly above it *)
Lemma diag_missing_iff (c : col) j :
  SS c -> (forall e : entry, In e c -> fst e <= j) ->
  (diag_missing c j = true <-> forall e : entry, In e c -> fst e < j).
Proof.
  intros Hs Hle. destruct c as [|e c' _] using rev_ind.
  - split; [intros _ e [] | intros _; reflexivity].
  - rewrite diag_missing_snoc. apply SS_snoc in Hs. destruct Hs as [_ Hlt].
    rewrite Forall_forall in Hlt.
    assert (Hej : fst e <= j). { apply Hle. apply in_or_app. right. left. reflexivity. }
    split.
    + intros H x Hx. apply negb_true_iff in H. apply Nat.eqb_neq in H.
      apply in_app_or in Hx. destruct Hx as [Hx|[Hx|[]]].
      * specialize (Hlt x Hx). lia.
      * subst x. lia.
    + intros H. apply negb_true_iff. apply Nat.eqb_neq.
      assert (Hlt' : fst e < j). { apply H. apply in_or_app. right. left. reflexivity. }
      lia.
Qed.

Lemma diag_missing_find (c : col) j :
  SS c -> (forall e : entry, In e c -> fst e <= j) ->
  (diag_missing c j = true <-> find (fun e : entry => fst e =? j) c = None).
Proof.
  intros Hs Hle. rewrite (diag_missing_iff c j Hs Hle), find_none_iff. split.
  - intros H e He. apply Nat.eqb_neq. specialize (H e He). lia.
  - intros H e He. specialize (H e He). apply Nat.eqb_neq in H. specialize (Hle e He). lia.
Qed.

(** the column function of [to_triu] *)
Definition tcolF (jc : nat * col) : col :=
  firstn (countb (fun e : entry => fst e <=? fst jc) (snd jc)) (snd jc).

Lemma tcolF_idem j (c : col) : SS c -> tcolF (j, tcolF (j, c)) = tcolF (j, c).
Proof.
  intros Hs. unfold tcolF. cbn [fst snd].
  rewrite (firstn_countb_sorted c j Hs).
  rewrite (firstn_countb_sorted _ j (SS_filter _ c Hs)).
  apply filter_forallb. apply forallb_filter_self.
Qed.

Lemma to_triu_idem (P : csc) : Canonical P -> to_triu (to_triu P) = to_triu P.
Proof.
  intros HC. apply canonical_iff in HC. destruct HC as [_ Hc]. rewrite Forall_forall in Hc.
  unfold to_triu. cbn [nr nc cols]. f_equal. unfold indexed.
  apply (map_indexed_idem_gen tcolF (cols P)).
  intros j c Hin. apply tcolF_idem. apply (Hc c Hin).
Qed.

Lemma to_triu_fix (P : csc) : is_triu P = true -> to_triu P = P.
Proof.
  intros Htri. destruct P as [m n l]. unfold to_triu. cbn [nr nc cols]. f_equal.
  unfold is_triu in Htri. cbn [cols] in Htri. rewrite forallb_forall in Htri.
  apply (map_indexed_id tcolF l). intros jc Hjc. specialize (Htri jc Hjc).
  assert (Hlen : countb (fun e : entry => fst e <=? fst jc) (snd jc) = length (snd jc)).
  { unfold countb. f_equal. apply filter_forallb. exact Htri. }
  unfold tcolF.
  exact (eq_trans (f_equal (fun k => firstn k (snd jc)) Hlen) (firstn_all (snd jc))).
Qed.

End Carrier.

Lemma is_triu_iff_ok {T} : stmt_is_triu_iff (T:=T).
Proof. exact is_triu_iff_ok'. Qed.

(** * Facts over a commutative ring *)
Section WithOps.
Context {T : Type} (O : Ops T) (HL : Laws O).
Notation entry := (@entry T).
Notation col := (@col T).
Notation csc := (@csc T).

Let Rth : ring_theory (zero O) (one O) (add O) (mul O) (sub O) (neg O) (@eq T) := proj1 HL.
Add Ring Tring : Rth.

(** ** round trips *)
Lemma triu_roundtrip_ok' : stmt_triu_roundtrip O.
Proof.
  intros _ P HC.
  destruct (to_triu_ok O HL P HC) as (HCt & Htt & Hget).
  split; [apply to_triu_idem; exact HC|].
  split; [apply to_triu_fix|].
  split.
  { intros i j. unfold symget.
    destruct (Nat.leb_spec i j) as [Hij|Hij]; destruct (Nat.leb_spec j i) as [Hji|Hji];
      try reflexivity.
    - assert (i = j) by lia. subst j. reflexivity.
    - lia. }
  split.
  { intros i j. unfold symget. destruct (i <=? j) eqn:E; [reflexivity|].
    rewrite Hget, E. reflexivity. }
  split.
  { intros Hsym i j. unfold symget. rewrite !Hget. destruct (i <=? j) eqn:E; [reflexivity|].
    apply Nat.leb_gt in E. assert (E2 : (j <=? i) = true) by (apply Nat.leb_le; lia).
    rewrite E2. symmetry. apply Hsym. }
  cbv zeta. destruct (is_triu P) eqn:E.
  - split; [exact E|]. split; [exact HC|]. intros i j _. reflexivity.
  - split; [exact Htt|]. split; [exact HCt|]. intros i j Hij. rewrite Hget.
    assert (E2 : (i <=? j) = true) by (apply Nat.leb_le; exact Hij).
    rewrite E2. reflexivity.
Qed.

(** ** the missing-diagonal helpers *)
Definition amdF (jc : nat * col) : col :=
  if diag_missing (snd jc) (fst jc) then snd jc ++ [(fst jc, zero O)] else snd jc.

Lemma cols_amd (M : csc) : cols (add_missing_diag O M) = map amdF (indexed (cols M)).
Proof. reflexivity. Qed.

Lemma nth_cols_amd (M : csc) j :
  nth j (cols (add_missing_diag O M)) [] =
  if j <? length (cols M) then amdF (j, nth j (cols M) []) else [].
Proof. rewrite cols_amd. apply (nth_map_indexed amdF (cols M) j [] []). Qed.

Lemma colget_amdF j (c : col) i : colget O (amdF (j, c)) i = colget O c i.
Proof.
  unfold amdF. cbn [fst snd]. destruct (diag_missing c j); [|reflexivity].
  rewrite (colget_app O HL), (colget_cons O). cbn [fst snd].
  rewrite (colget_nil O). destruct (j =? i); ring.
Qed.

Lemma nnz_amd_gen (l : list col) : forall a,
  length (concat (map amdF (combine (seq a (length l)) l))) =
  length (concat l) +
  countb (fun jc : nat * col => diag_missing (snd jc) (fst jc)) (combine (seq a (length l)) l).
Proof.
  unfold countb. induction l as [|c l IH]; intros a; [reflexivity|].
  cbn [length seq combine map concat filter]. cbn [fst snd].
  rewrite !app_length, IH. unfold amdF at 1. cbn [fst snd].
  destruct (diag_missing c a).
  - rewrite app_length. cbn [length]. lia.
  - lia.
Qed.

Lemma add_missing_diag_ok' : stmt_add_missing_diag O.
Proof.
  intros _ M HC Hsq Htri. cbv zeta.
  pose proof HC as HC0. apply canonical_iff in HC0. destruct HC0 as [Hd Hc].
  unfold WellDim in Hd. rewrite Forall_forall in Hc.
  pose proof (proj1 (is_triu_iff_ok' M) Htri) as Hle.
  (* per-column facts *)
  assert (Hcol : forall j, SS (nth j (cols M) []) /\
                           Forall (fun e : entry => fst e < nr M) (nth j (cols M) [])).
  { intros j. apply canonical_col_nth. exact HC. }
  assert (HK : forall j (e : entry), In e (nth j (cols (add_missing_diag O M)) []) ->
                 In e (nth j (cols M) []) \/
                 (j < length (cols M) /\ e = (j, zero O) /\
                  diag_missing (nth j (cols M) []) j = true)).
  { intros j e He. rewrite nth_cols_amd in He.
    destruct (j <? length (cols M)) eqn:E; [|destruct He].
    apply Nat.ltb_lt in E. unfold amdF in He. cbn [fst snd] in He.
    destruct (diag_missing (nth j (cols M) []) j) eqn:Em; [|left; exact He].
    apply in_app_or in He. destruct He as [He|[He|[]]]; [left; exact He|].
    right. split; [exact E|]. split; [symmetry; exact He | reflexivity]. }
  split.
  { (* Canonical K *)
    apply canonical_iff. split.
    - unfold WellDim. rewrite cols_amd, map_length, length_indexed. exact Hd.
    - rewrite cols_amd. apply Forall_map. apply Forall_forall. intros jc Hjc.
      destruct jc as [j c].
      apply (in_indexed_iff (cols M) [] j c) in Hjc. destruct Hjc as [Hj Hcj].
      destruct (Hcol j) as [Hs Hr]. rewrite <- Hcj in Hs, Hr.
      assert (Hlej : forall e : entry, In e c -> fst e <= j).
      { intros e He. apply (Hle j). rewrite <- Hcj. exact He. }
      change (nr (add_missing_diag O M)) with (nr M).
      unfold amdF. cbn [fst snd]. destruct (diag_missing c j) eqn:Em.
      + split.
        * apply SS_snoc. split; [exact Hs|]. apply Forall_forall. cbn [fst].
          apply (proj1 (diag_missing_iff c j Hs Hlej)). exact Em.
        * apply Forall_app. split; [exact Hr|]. constructor; [|constructor].
          cbn [fst]. lia.
      + split; [exact Hs | exact Hr]. }
  split.
  { (* is_triu K *)
    apply (proj2 (is_triu_iff_ok' (add_missing_diag O M))). intros j e He.
    apply HK in He. destruct He as [He|(_ & He & _)].
    - apply (Hle j). exact He.
    - subst e. cbn [fst]. lia. }
  split.
  { (* dense meaning *)
    intros i j. unfold Model.get. rewrite nth_cols_amd.
    destruct (j <? length (cols M)) eqn:E.
    - apply colget_amdF.
    - apply Nat.ltb_ge in E. rewrite (nth_overflow (cols M) [] E). reflexivity. }
  split.
  { (* the diagonal is stored *)
    intros j Hj. unfold get_entry. rewrite nth_cols_amd.
    assert (E : (j <? length (cols M)) = true) by (apply Nat.ltb_lt; lia).
    rewrite E. intros Hn. apply option_map_none in Hn.
    destruct (Hcol j) as [Hs _].
    unfold amdF in Hn. cbn [fst snd] in Hn.
    destruct (diag_missing (nth j (cols M) []) j) eqn:Em.
    - pose proof (proj1 (find_none_iff _ _) Hn (j, zero O)) as Hf.
      cbn [fst] in Hf. rewrite Nat.eqb_refl in Hf.
      assert (Hin : In (j, zero O) (nth j (cols M) [] ++ [(j, zero O)])).
      { apply in_or_app. right. left. reflexivity. }
      specialize (Hf Hin). discriminate.
    - apply (proj2 (diag_missing_find _ j Hs (Hle j))) in Hn. rewrite Hn in Em.
      discriminate. }
  split.
  { unfold nnz, count_missing_diag. rewrite cols_amd. unfold indexed.
    apply nnz_amd_gen. }
  split.
  { unfold count_diag_triu, count_missing_diag.
    rewrite (countb_negb (fun jc : nat * col => diag_missing (snd jc) (fst jc))).
    rewrite length_indexed. exact Hd. }
  intros j Hj. unfold get_entry. rewrite option_map_none.
  destruct (Hcol j) as [Hs _]. apply (diag_missing_find _ j Hs (Hle j)).
Qed.

End WithOps.

Lemma triu_roundtrip_ok {T} (O : Ops T) : stmt_triu_roundtrip O.
Proof. intros HL. exact (triu_roundtrip_ok' O HL HL). Qed.

Lemma add_missing_diag_ok {T} (O : Ops T) : stmt_add_missing_diag O.
Proof. intros HL. exact (add_missing_diag_ok' O HL HL). Qed.

Print Assumptions is_triu_iff_ok.
Print Assumptions add_missing_diag_ok.
Print Assumptions triu_roundtrip_ok.
