(** Proofs of the structural C16 statements of Csc/Spec.v (constructors, transpose,
    triangular part, row selection, entry access, dropzeros, index_to_coord). *)
From Coq Require Import List Arith Lia Bool Sorted Ring.
Import ListNotations.
Require Import Clarabel.Base.Ops Clarabel.Csc.Model Clarabel.Csc.Spec.

(** * Generic list facts *)

Lemma strict_lt_iff (l : list nat) : strict_lt l = true <-> StronglySorted lt l.
Proof.
  induction l as [|a l IH].
  - split; intros _; [constructor | reflexivity].
  - destruct l as [|b r].
    + split; intros _; [repeat constructor | reflexivity].
    + change (strict_lt (a :: b :: r)) with ((a <? b) && strict_lt (b :: r)).
      rewrite andb_true_iff, IH, Nat.ltb_lt. split.
      * intros [Hab Hs]. constructor; [exact Hs|].
        constructor; [exact Hab|].
        inversion Hs as [|x y Hs' Hf]; subst.
        eapply Forall_impl; [|exact Hf]. cbv beta. intros z Hz. lia.
      * intros Hs. inversion Hs as [|x y Hs' Hf]; subst.
        inversion Hf as [|x y Hab Hf']; subst. split; assumption.
Qed.

Lemma nth_map_seq {X} (f : nat -> X) a n j d :
  j < n -> nth j (map f (seq a n)) d = f (a + j).
Proof.
  intros H. rewrite (nth_indep _ d (f 0)) by (rewrite map_length, seq_length; exact H).
  rewrite map_nth, seq_nth by exact H. reflexivity.
Qed.

Lemma nth_map_nil {X Y} (f : list X -> list Y) (l : list (list X)) j :
  f [] = [] -> nth j (map f l) [] = f (nth j l []).
Proof. intros H. rewrite <- H at 1. apply map_nth. Qed.

Lemma map_fst_combine {X Y} (l : list X) (l' : list Y) :
  length l = length l' -> map fst (combine l l') = l.
Proof.
  revert l'. induction l as [|x l IH]; intros [|y l'] H; cbn in *; try discriminate; auto.
  f_equal. apply IH. lia.
Qed.

Lemma SSorted_seq a n : StronglySorted lt (seq a n).
Proof.
  revert a. induction n as [|n IH]; intros a; cbn [seq]; constructor.
  - apply IH.
  - apply Forall_forall. intros x Hx. apply in_seq in Hx. lia.
Qed.

(** nth through [map f (combine (seq a (length l)) l)] *)
Lemma nth_map_indexed_gen {X Y} (f : nat * X -> Y) (l : list X) a j d d' :
  nth j (map f (combine (seq a (length l)) l)) d =
  if j <? length l then f (a + j, nth j l d') else d.
Proof.
  revert a j. induction l as [|x l IH]; intros a j.
  - cbn. destruct j; reflexivity.
  - cbn [length seq combine map]. destruct j as [|j].
    + cbn. rewrite Nat.add_0_r. reflexivity.
    + cbn [nth]. rewrite IH. change (S j <? S (length l)) with (j <? length l).
      replace (S a + j) with (a + S j) by lia. reflexivity.
Qed.

Lemma nth_map_indexed {X Y} (f : nat * X -> Y) (l : list X) j d d' :
  nth j (map f (indexed l)) d = if j <? length l then f (j, nth j l d') else d.
Proof. unfold indexed. rewrite (nth_map_indexed_gen f l 0 j d d'). reflexivity. Qed.

Lemma in_indexed {X} (l : list X) (jc : nat * X) : In jc (indexed l) -> In (snd jc) l.
Proof. destruct jc as [j c]. unfold indexed. intros H. apply in_combine_r in H. exact H. Qed.

Lemma forallb_indexed_nth {X} (g : nat * X -> bool) (l : list X) a d :
  forallb g (combine (seq a (length l)) l) = true ->
  forall k, k < length l -> g (a + k, nth k l d) = true.
Proof.
  revert a. induction l as [|x l IH]; intros a H k Hk; cbn [length] in *; [lia|].
  cbn [seq combine forallb] in H. apply andb_true_iff in H. destruct H as [H1 H2].
  destruct k as [|k].
  - rewrite Nat.add_0_r. exact H1.
  - cbn [nth]. replace (a + S k) with (S a + k) by lia. apply IH; [exact H2 | lia].
Qed.

Lemma forallb_indexed_map_gen {X Y} (g : nat * Y -> bool) (f : nat * X -> Y) (l : list X) a :
  (forall j x, In x l -> g (j, f (j, x)) = true) ->
  forallb g (combine (seq a (length (map f (combine (seq a (length l)) l))))
                     (map f (combine (seq a (length l)) l))) = true.
Proof.
  revert a. induction l as [|x l IH]; intros a H; [reflexivity|].
  cbn [length seq combine map forallb]. rewrite H by (left; reflexivity). cbn [andb].
  apply IH. intros j y Hy. apply H. right. exact Hy.
Qed.

Lemma length_set_nth {X} (l : list X) k x : length (set_nth l k x) = length l.
Proof.
  revert k. induction l as [|y l IH]; intros [|k]; cbn; auto.
Qed.

Lemma nth_set_nth {X} (l : list X) k x j d :
  k < length l -> nth j (set_nth l k x) d = if j =? k then x else nth j l d.
Proof.
  revert k j. induction l as [|y l IH]; intros k j Hk; cbn [length] in Hk; [lia|].
  destruct k as [|k]; destruct j as [|j]; cbn [set_nth nth Nat.eqb]; auto.
  apply IH. lia.
Qed.

Lemma Forall_set_nth {X} (P : X -> Prop) (l : list X) k x :
  Forall P l -> P x -> Forall P (set_nth l k x).
Proof.
  intros Hl Hx. revert k. induction Hl as [|y l Hy Hl IH]; intros [|k]; cbn; auto.
Qed.

(** [rewrite] does not see through the type abbreviations [col]/[entry] *)
Ltac nrm := unfold Model.col, Model.entry in *.

(** * Facts that only depend on the carrier *)
Section Carrier.
Context {T : Type}.
Notation entry := (@entry T).
Notation col := (@col T).
Notation csc := (@csc T).

Definition SS (c : col) : Prop := StronglySorted lt (map fst c).

Lemma SS_nil : SS [].
Proof. constructor. Qed.

Lemma SS_cons (e : entry) (c : col) :
  SS (e :: c) <-> SS c /\ Forall (fun x : entry => fst e < fst x) c.
Proof.
  unfold SS. cbn [map]. split.
  - intros H. inversion H as [|x y Hs Hf]; subst. split; [exact Hs|].
    exact (proj1 (Forall_map fst (lt (fst e)) c) Hf).
  - intros [Hs Hf]. constructor; [exact Hs|].
    exact (proj2 (Forall_map fst (lt (fst e)) c) Hf).
Qed.

Lemma col_canonb_iff m (c : col) :
  col_canonb m c = true <-> SS c /\ Forall (fun e : entry => fst e < m) c.
Proof.
  unfold col_canonb, SS.
  rewrite andb_true_iff, strict_lt_iff, forallb_forall, Forall_forall.
  split; intros [H1 H2]; (split; [exact H1|]); intros e He; apply Nat.ltb_lt; auto.
Qed.

Lemma canonical_iff (A : csc) :
  Canonical A <-> WellDim A /\ Forall (fun c : col => SS c /\ Forall (fun e : entry => fst e < nr A) c) (cols A).
Proof.
  unfold Canonical, canonicalb, WellDim.
  rewrite andb_true_iff, Nat.eqb_eq, forallb_forall, Forall_forall.
  split; intros [H1 H2]; (split; [exact H1|]); intros c Hc; apply col_canonb_iff; auto.
Qed.

Lemma SS_filter (p : entry -> bool) (c : col) : SS c -> SS (filter p c).
Proof.
  induction c as [|e c IH]; intros H; cbn [filter]; [exact H|].
  apply SS_cons in H. destruct H as [Hs Hf]. destruct (p e).
  - apply SS_cons. split; [apply IH; exact Hs|].
    apply Forall_forall. intros x Hx. apply filter_In in Hx. destruct Hx as [Hx _].
    rewrite Forall_forall in Hf. apply Hf. exact Hx.
  - apply IH. exact Hs.
Qed.

Lemma Forall_filter {X} (P : X -> Prop) (p : X -> bool) (l : list X) :
  Forall P l -> Forall P (filter p l).
Proof.
  rewrite !Forall_forall. intros H x Hx. apply filter_In in Hx. apply H. tauto.
Qed.

Lemma SS_firstn n (c : col) : SS c -> SS (firstn n c).
Proof.
  revert n. induction c as [|e c IH]; intros [|n] H; cbn [firstn]; try exact SS_nil.
  apply SS_cons in H. destruct H as [Hs Hf]. apply SS_cons. split; [apply IH; exact Hs|].
  apply Forall_forall. intros x Hx. rewrite Forall_forall in Hf. apply Hf.
  rewrite <- (firstn_skipn n c). apply in_or_app. left. exact Hx.
Qed.

(** in a strictly sorted column at most one entry sits in a given row *)
Lemma SS_filter_row (c : col) i :
  SS c -> filter (fun e : entry => fst e =? i) c = [] \/
          exists v, filter (fun e : entry => fst e =? i) c = [(i, v)].
Proof.
  induction c as [|e c IH]; intros H; cbn [filter]; [left; reflexivity|].
  apply SS_cons in H. destruct H as [Hs Hf].
  destruct (fst e =? i) eqn:E.
  - apply Nat.eqb_eq in E. right. exists (snd e).
    assert (Hn : filter (fun e0 : entry => fst e0 =? i) c = []).
    { clear IH Hs. induction Hf as [|x c Hx Hf IH]; cbn [filter]; [reflexivity|].
      destruct (fst x =? i) eqn:E2; [apply Nat.eqb_eq in E2; lia | exact IH]. }
    rewrite Hn. destruct e as [r v]. cbn in *. subst. reflexivity.
  - apply IH. exact Hs.
Qed.

Lemma canonical_char_ok' : @stmt_canonical_char T.
Proof. intros A. apply canonical_iff. Qed.

End Carrier.

Lemma canonical_char_ok {T} (O : Ops T) : stmt_canonical_char (T:=T).
Proof. exact canonical_char_ok'. Qed.

(** * Facts about [colget] over a commutative ring *)
Section WithOps.
Context {T : Type} (O : Ops T) (HL : Laws O).
Notation entry := (@entry T).
Notation col := (@col T).
Notation csc := (@csc T).
Notation "0" := (zero O).
Notation colget := (colget O).
Notation get := (get O).
Notation sumT := (sumT O).
Infix "+" := (add O).

Let Rth : ring_theory (zero O) (one O) (add O) (mul O) (sub O) (neg O) (@eq T) := proj1 HL.
Add Ring Tring : Rth.

Lemma eqb_iff a b : eqb O a b = true <-> a = b.
Proof. apply (proj2 HL). Qed.

Lemma nzb_false v : nzb O v = false -> v = 0.
Proof. unfold nzb. intros H. apply negb_false_iff in H. apply eqb_iff. exact H. Qed.

Lemma colget_nil i : colget [] i = 0.
Proof. reflexivity. Qed.

Lemma colget_cons (e : entry) (c : col) i :
  colget (e :: c) i = if fst e =? i then snd e + colget c i else colget c i.
Proof. unfold Model.colget. cbn [filter]. destruct (fst e =? i); reflexivity. Qed.

Lemma colget_app (c1 c2 : col) i : colget (c1 ++ c2) i = colget c1 i + colget c2 i.
Proof.
  induction c1 as [|e c1 IH]; cbn [app].
  - rewrite colget_nil. ring.
  - rewrite !colget_cons, IH. destruct (fst e =? i); ring.
Qed.

Lemma colget_zero (c : col) i : (forall e, In e c -> fst e <> i) -> colget c i = 0.
Proof.
  induction c as [|e c IH]; intros H; [reflexivity|].
  rewrite colget_cons. destruct (fst e =? i) eqn:E.
  - apply Nat.eqb_eq in E. exfalso. apply (H e); [left; reflexivity | exact E].
  - apply IH. intros x Hx. apply H. right. exact Hx.
Qed.

Lemma colget_filter_fst (q : entry -> bool) (q' : nat -> bool) (c : col) i :
  (forall e, q e = q' (fst e)) ->
  colget (filter q c) i = if q' i then colget c i else 0.
Proof.
  intros Hq. induction c as [|e c IH]; cbn [filter].
  - rewrite colget_nil. destruct (q' i); reflexivity.
  - rewrite colget_cons. destruct (q e) eqn:E.
    + rewrite colget_cons, IH. destruct (fst e =? i) eqn:E2; [|reflexivity].
      apply Nat.eqb_eq in E2. rewrite Hq, E2 in E. rewrite E. reflexivity.
    + rewrite IH. destruct (fst e =? i) eqn:E2; [|reflexivity].
      apply Nat.eqb_eq in E2. rewrite Hq, E2 in E. rewrite E. reflexivity.
Qed.

Lemma colget_filter_nz (c : col) i :
  colget (filter (fun e : entry => nzb O (snd e)) c) i = colget c i.
Proof.
  induction c as [|e c IH]; cbn [filter]; [reflexivity|].
  destruct (nzb O (snd e)) eqn:E.
  - rewrite !colget_cons, IH. reflexivity.
  - rewrite colget_cons, IH. apply nzb_false in E. rewrite E.
    destruct (fst e =? i); ring.
Qed.

Lemma colget_SS_gt (e : entry) (c : col) i :
  Forall (fun x : entry => fst e < fst x) c -> i <= fst e -> colget c i = 0.
Proof.
  intros Hf Hi. apply colget_zero. intros x Hx. rewrite Forall_forall in Hf.
  specialize (Hf x Hx). lia.
Qed.

(** ** dropzeros *)
Lemma get_dropzeros (A : csc) i j : get (dropzeros O A) i j = get A i j.
Proof.
  unfold Model.get, dropzeros. cbn [cols]. nrm.
  rewrite nth_map_nil by reflexivity. apply colget_filter_nz.
Qed.

Lemma dropzeros_ok' : stmt_dropzeros O.
Proof.
  intros _ A. split; [|split].
  - intros i j. apply get_dropzeros.
  - intros H. apply canonical_iff in H. destruct H as [Hd Hc]. apply canonical_iff.
    unfold WellDim, dropzeros in *. cbn [cols nc nr]. split.
    + rewrite map_length. exact Hd.
    + apply Forall_map. eapply Forall_impl; [|exact Hc]. cbv beta.
      intros c [Hs Hr]. split; [apply SS_filter; exact Hs | apply Forall_filter; exact Hr].
  - unfold no_stored_zero, dropzeros. cbn [cols].
    apply forallb_forall. intros c Hc. apply in_map_iff in Hc. destruct Hc as [c' [<- _]].
    apply forallb_forall. intros e He. apply filter_In in He. tauto.
Qed.

(** ** from_rows *)
Lemma colget_combine_seq (vals : list T) a i :
  colget (combine (seq a (length vals)) vals) i =
  if a <=? i then nth (i - a) vals 0 else 0.
Proof.
  revert a. induction vals as [|v vals IH]; intros a; cbn [length seq combine].
  - rewrite colget_nil. destruct (a <=? i); [destruct (i - a)|]; reflexivity.
  - rewrite colget_cons, IH. cbn [fst snd].
    destruct (Nat.eqb_spec a i) as [E1|E1]; destruct (Nat.leb_spec (S a) i) as [E2|E2];
      destruct (Nat.leb_spec a i) as [E3|E3]; try lia.
    + replace (i - a) with 0%nat by lia. cbn [nth]. ring.
    + replace (i - a) with (S (i - S a)) by lia. reflexivity.
    + reflexivity.
Qed.

Lemma from_rows_ok' : stmt_from_rows O.
Proof.
  intros _ rows n Hlen Hne A.
  assert (Hn : match rows with [] => 0%nat | r :: _ => length r end = n).
  { destruct rows as [|r rows]; [contradiction|]. apply Hlen. left. reflexivity. }
  assert (HnrA : nr A = length rows) by reflexivity.
  assert (HncA : nc A = n) by exact Hn.
  assert (Hcols : cols A = map (fun c => filter (fun e : entry => nzb O (snd e))
                     (combine (seq 0 (length rows)) (map (fun r => nth c r 0) rows)))
                     (seq 0 n)).
  { unfold A, from_rows. cbn [cols]. rewrite Hn. reflexivity. }
  clearbody A.
  split; [|split; [exact HnrA|split; [exact HncA|split]]].
  - apply canonical_iff. unfold WellDim. rewrite Hcols, HncA, HnrA. split.
    + rewrite map_length, seq_length. reflexivity.
    + apply Forall_map. apply Forall_forall. intros c _. split.
      * apply SS_filter. unfold SS. rewrite map_fst_combine.
        -- apply SSorted_seq.
        -- rewrite seq_length, map_length. reflexivity.
      * apply Forall_filter. apply Forall_forall. intros [r v] Hin.
        apply in_combine_l in Hin. apply in_seq in Hin. cbn [fst]. lia.
  - unfold no_stored_zero. rewrite Hcols.
    apply forallb_forall. intros c Hc. apply in_map_iff in Hc. destruct Hc as [c' [<- _]].
    apply forallb_forall. intros e He. apply filter_In in He. tauto.
  - intros i j Hi Hj. unfold Model.get. rewrite Hcols. nrm.
    rewrite nth_map_seq by exact Hj. cbn [plus].
    rewrite colget_filter_nz.
    rewrite <- (map_length (fun r => nth j r 0) rows) at 1.
    rewrite colget_combine_seq. cbn [Nat.leb]. rewrite Nat.sub_0_r.
    rewrite (nth_indep _ 0 ((fun r => nth j r 0) [])) by (rewrite map_length; exact Hi).
    rewrite (map_nth (fun r => nth j r 0)). reflexivity.
Qed.

(** ** get_entry *)
Lemma get_entry_col (c : col) i :
  SS c ->
  match option_map snd (find (fun e : entry => fst e =? i) c) with
  | Some v => colget c i = v
  | None => colget c i = 0
  end.
Proof.
  induction c as [|e c IH]; intros H; cbn [find option_map]; [reflexivity|].
  apply SS_cons in H. destruct H as [Hs Hf]. rewrite colget_cons.
  destruct (fst e =? i) eqn:E; cbn [option_map].
  - apply Nat.eqb_eq in E. rewrite (colget_SS_gt e c i Hf) by lia. ring.
  - apply IH. exact Hs.
Qed.

Lemma canonical_col_nth (A : csc) j :
  Canonical A -> SS (nth j (cols A) []) /\ Forall (fun e : entry => fst e < nr A) (nth j (cols A) []).
Proof.
  intros H. apply canonical_iff in H. destruct H as [_ Hc].
  destruct (Nat.lt_ge_cases j (length (cols A))) as [Hj|Hj].
  - rewrite Forall_forall in Hc. apply Hc. apply nth_In. exact Hj.
  - rewrite nth_overflow by exact Hj. split; [apply SS_nil | constructor].
Qed.

Lemma get_entry_ok' : stmt_get_entry O.
Proof.
  intros _ A i j H. unfold get_entry, Model.get. apply get_entry_col.
  apply canonical_col_nth. exact H.
Qed.

(** ** is_triu *)
Lemma is_triu_ok' : stmt_is_triu O.
Proof.
  intros _ A _ Htri i j Hji. unfold Model.get.
  destruct (Nat.lt_ge_cases j (length (cols A))) as [Hj|Hj].
  - unfold is_triu, indexed in Htri.
    pose proof (forallb_indexed_nth _ _ 0 [] Htri j Hj) as H. cbn [plus fst snd] in H.
    rewrite forallb_forall in H. apply colget_zero. intros e He.
    specialize (H e He). apply Nat.leb_le in H. lia.
  - rewrite nth_overflow by exact Hj. reflexivity.
Qed.

(** ** to_triu *)
Lemma firstn_countb_sorted (c : col) j :
  SS c ->
  firstn (countb (fun e : entry => fst e <=? j) c) c = filter (fun e : entry => fst e <=? j) c.
Proof.
  unfold countb. induction c as [|e c IH]; intros H; cbn [filter]; [reflexivity|].
  apply SS_cons in H. destruct H as [Hs Hf].
  destruct (fst e <=? j) eqn:E.
  - cbn [length firstn]. rewrite IH by exact Hs. reflexivity.
  - apply Nat.leb_gt in E.
    assert (Hn : filter (fun e0 : entry => fst e0 <=? j) c = []).
    { clear IH Hs. induction Hf as [|x c Hx Hf IH]; cbn [filter]; [reflexivity|].
      destruct (fst x <=? j) eqn:E2; [apply Nat.leb_le in E2; lia | exact IH]. }
    rewrite Hn. reflexivity.
Qed.

Lemma to_triu_ok' : stmt_to_triu O.
Proof.
  intros _ A H. pose proof H as H0. apply canonical_iff in H0. destruct H0 as [Hd Hc].
  assert (Hcols : cols (to_triu A) =
                  map (fun jc : nat * col => filter (fun e : entry => fst e <=? fst jc) (snd jc))
                      (indexed (cols A))).
  { unfold to_triu. cbn [cols]. apply map_ext_in. intros jc Hjc.
    apply firstn_countb_sorted. apply in_indexed in Hjc.
    rewrite Forall_forall in Hc. apply Hc. exact Hjc. }
  split; [|split].
  - apply canonical_iff. unfold WellDim. rewrite Hcols. cbn [to_triu nc nr]. split.
    + rewrite map_length. unfold indexed. rewrite combine_length, seq_length, Nat.min_id.
      exact Hd.
    + apply Forall_map. apply Forall_forall. intros jc Hjc. apply in_indexed in Hjc.
      rewrite Forall_forall in Hc. destruct (Hc _ Hjc) as [Hs Hr].
      split; [apply SS_filter; exact Hs | apply Forall_filter; exact Hr].
  - unfold is_triu. rewrite Hcols. unfold indexed.
    apply forallb_indexed_map_gen. intros j c _. cbn [fst snd].
    apply forallb_forall. intros e He. apply filter_In in He. tauto.
  - intros i j. unfold Model.get. rewrite Hcols. nrm.
    rewrite (nth_map_indexed _ (cols A) j [] []). cbn [fst snd].
    destruct (j <? length (cols A)) eqn:E.
    + apply (colget_filter_fst _ (fun r => r <=? j)). intros e. reflexivity.
    + apply Nat.ltb_ge in E. rewrite nth_overflow by exact E. rewrite colget_nil.
      destruct (i <=? j); reflexivity.
Qed.

(** ** sort_col / dedup / canonicalize *)
Definition LS (c : col) : Prop := StronglySorted le (map fst c).

Lemma LS_cons (e : entry) (c : col) :
  LS (e :: c) <-> LS c /\ Forall (fun x : entry => fst e <= fst x) c.
Proof.
  unfold LS. cbn [map]. split.
  - intros H. inversion H as [|x y Hs Hf]; subst. split; [exact Hs|].
    exact (proj1 (Forall_map fst (le (fst e)) c) Hf).
  - intros [Hs Hf]. constructor; [exact Hs|].
    exact (proj2 (Forall_map fst (le (fst e)) c) Hf).
Qed.

Lemma sort_col_cons (e : entry) (c : col) : sort_col (e :: c) = ins e (sort_col c).
Proof. reflexivity. Qed.

Lemma dedup_cons (e : entry) (r : col) :
  dedup O (e :: r) =
  match dedup O r with
  | [] => [e]
  | x :: r' => if fst e =? fst x then (fst x, snd e + snd x) :: r' else e :: x :: r'
  end.
Proof. reflexivity. Qed.

Lemma Forall_ins (P : entry -> Prop) (e : entry) (c : col) :
  Forall P (ins e c) <-> P e /\ Forall P c.
Proof.
  induction c as [|x c IH]; cbn [ins].
  - apply Forall_cons_iff.
  - destruct (fst e <=? fst x).
    + apply Forall_cons_iff.
    + rewrite !Forall_cons_iff, IH. tauto.
Qed.

Lemma Forall_sort_col (P : entry -> Prop) (c : col) : Forall P c -> Forall P (sort_col c).
Proof.
  induction 1 as [|e c He Hc IH]; [constructor|].
  rewrite sort_col_cons. apply Forall_ins. split; assumption.
Qed.

Lemma LS_ins (e : entry) (c : col) : LS c -> LS (ins e c).
Proof.
  induction c as [|x c IH]; intros H; cbn [ins].
  - apply LS_cons. split; [exact H | constructor].
  - pose proof H as H0. apply LS_cons in H0. destruct H0 as [Hs Hf].
    destruct (Nat.leb_spec (fst e) (fst x)) as [E|E].
    + apply LS_cons. split; [exact H|]. constructor; [exact E|].
      eapply Forall_impl; [|exact Hf]. cbv beta. intros z Hz. lia.
    + apply LS_cons. split; [apply IH; exact Hs|]. apply Forall_ins. split; [lia | exact Hf].
Qed.

Lemma LS_sort_col (c : col) : LS (sort_col c).
Proof.
  induction c as [|e c IH]; [constructor|]. rewrite sort_col_cons. apply LS_ins. exact IH.
Qed.

Lemma colget_ins (e : entry) (c : col) i : colget (ins e c) i = colget (e :: c) i.
Proof.
  induction c as [|x c IH]; cbn [ins]; [reflexivity|].
  destruct (fst e <=? fst x); [reflexivity|].
  rewrite (colget_cons x), IH, !colget_cons.
  destruct (fst x =? i); destruct (fst e =? i); ring.
Qed.

Lemma colget_sort_col (c : col) i : colget (sort_col c) i = colget c i.
Proof.
  induction c as [|e c IH]; [reflexivity|].
  rewrite sort_col_cons, colget_ins, !colget_cons, IH. reflexivity.
Qed.

Lemma colget_dedup (c : col) i : colget (dedup O c) i = colget c i.
Proof.
  induction c as [|e c IH]; [reflexivity|].
  rewrite dedup_cons, (colget_cons e c), <- IH. destruct (dedup O c) as [|x r'].
  - rewrite colget_cons. reflexivity.
  - destruct (Nat.eqb_spec (fst e) (fst x)) as [E|E].
    + rewrite !colget_cons. cbn [fst snd]. rewrite E. destruct (fst x =? i); ring.
    + rewrite (colget_cons e). reflexivity.
Qed.

Lemma Forall_fst_dedup (P : nat -> Prop) (c : col) :
  Forall (fun e : entry => P (fst e)) c -> Forall (fun e : entry => P (fst e)) (dedup O c).
Proof.
  induction 1 as [|e c He Hc IH]; [constructor|].
  rewrite dedup_cons. destruct (dedup O c) as [|x r'].
  - constructor; [exact He | constructor].
  - inversion IH as [|x' r'' Hx Hr]; subst.
    destruct (fst e =? fst x).
    + constructor; [exact Hx | exact Hr].
    + constructor; [exact He | exact IH].
Qed.

Lemma SS_dedup (c : col) : LS c -> SS (dedup O c).
Proof.
  induction c as [|e c IH]; intros H; [apply SS_nil|].
  apply LS_cons in H. destruct H as [Hs Hf]. specialize (IH Hs).
  pose proof (Forall_fst_dedup (fun r => fst e <= r) c Hf) as Hd.
  rewrite dedup_cons. destruct (dedup O c) as [|x r'].
  - apply SS_cons. split; [apply SS_nil | constructor].
  - apply SS_cons in IH. destruct IH as [Hs' Hf'].
    inversion Hd as [|x' r'' Hx Hr]; subst.
    destruct (Nat.eqb_spec (fst e) (fst x)) as [E|E].
    + apply SS_cons. split; [exact Hs' | exact Hf'].
    + apply SS_cons. split; [apply SS_cons; split; assumption|].
      constructor; [lia|]. eapply Forall_impl; [|exact Hf']. cbv beta. intros z Hz. lia.
Qed.

Lemma canonicalize_ok' : stmt_canonicalize O.
Proof.
  intros _ A Hd Hr. split.
  - apply canonical_iff. unfold WellDim, RowsIn, canonicalize in *. cbn [cols nc nr]. split.
    + rewrite map_length. exact Hd.
    + apply Forall_map. eapply Forall_impl; [|exact Hr]. cbv beta. intros c Hc. split.
      * apply SS_dedup. apply LS_sort_col.
      * apply (Forall_fst_dedup (fun r => r < nr A)). apply Forall_sort_col. exact Hc.
  - intros i j. unfold Model.get, canonicalize. cbn [cols]. nrm.
    rewrite (nth_map_nil (fun c => dedup O (sort_col c))) by reflexivity.
    rewrite colget_dedup, colget_sort_col. reflexivity.
Qed.

(** ** from_triplets *)
Lemma sumT_cons a l : sumT (a :: l) = a + sumT l.
Proof. reflexivity. Qed.

Lemma colget_triplets (ts : list (nat * nat * T)) i j :
  colget (map (fun t : nat * nat * T => (fst (fst t), snd t))
              (filter (fun t : nat * nat * T => snd (fst t) =? j) ts)) i =
  sumT (map snd (filter (fun t : nat * nat * T => (fst (fst t) =? i) && (snd (fst t) =? j)) ts)).
Proof.
  induction ts as [|t ts IH]; [reflexivity|].
  cbn [filter]. destruct (snd (fst t) =? j).
  - cbn [map]. rewrite colget_cons. cbn [fst snd]. destruct (fst (fst t) =? i); cbn [andb map].
    + rewrite sumT_cons, IH. reflexivity.
    + exact IH.
  - rewrite andb_false_r. exact IH.
Qed.

Lemma from_triplets_ok' : stmt_from_triplets O.
Proof.
  intros _ m n ts Hts A. unfold A. clear A.
  split; [|split; [reflexivity|split; [reflexivity|]]].
  - apply canonical_iff. unfold WellDim, from_triplets. cbn [cols nc nr]. split.
    + rewrite map_length, seq_length. reflexivity.
    + apply Forall_map. apply Forall_forall. intros j _. split.
      * apply SS_dedup. apply LS_sort_col.
      * apply (Forall_fst_dedup (fun r => r < m)). apply Forall_sort_col.
        apply Forall_map. apply Forall_filter. apply Forall_forall. intros t Ht.
        cbn [fst]. apply Hts. exact Ht.
  - intros i j Hj. unfold Model.get, from_triplets. cbn [cols]. nrm.
    rewrite nth_map_seq by exact Hj. cbn [plus].
    rewrite colget_dedup, colget_sort_col. apply colget_triplets.
Qed.

(** ** transpose *)
Lemma colget_map_const_row (c : col) i j0 j :
  colget (map (fun e : entry => (j0, snd e)) (filter (fun e : entry => fst e =? i) c)) j =
  if j0 =? j then colget c i else 0.
Proof.
  induction c as [|e c IH]; cbn [filter map].
  - rewrite !colget_nil. destruct (j0 =? j); reflexivity.
  - rewrite (colget_cons e c i). destruct (fst e =? i).
    + cbn [map]. rewrite colget_cons. cbn [fst snd]. rewrite IH.
      destruct (j0 =? j); reflexivity.
    + exact IH.
Qed.

Definition tcol (i : nat) (l : list (nat * col)) : col :=
  flat_map (fun jc : nat * col => map (fun e : entry => (fst jc, snd e))
                                    (filter (fun e : entry => fst e =? i) (snd jc))) l.

Lemma colget_tcol (l : list col) a i j :
  colget (tcol i (combine (seq a (length l)) l)) j =
  if a <=? j then colget (nth (j - a) l []) i else 0.
Proof.
  revert a. induction l as [|c l IH]; intros a.
  - cbn. destruct (a <=? j); [destruct (j - a)|]; reflexivity.
  - cbn [length seq combine tcol flat_map]. fold (tcol i (combine (seq (S a) (length l)) l)).
    rewrite colget_app, colget_map_const_row, IH. cbn [fst snd].
    destruct (Nat.eqb_spec a j) as [E1|E1]; destruct (Nat.leb_spec (S a) j) as [E2|E2];
      destruct (Nat.leb_spec a j) as [E3|E3]; try lia.
    + replace (j - a) with 0%nat by lia. cbn [nth]. ring.
    + replace (j - a) with (S (j - S a)) by lia. cbn [nth]. ring.
    + ring.
Qed.

Lemma tcol_SS (l : list col) a i :
  Forall SS l ->
  SS (tcol i (combine (seq a (length l)) l)) /\
  Forall (fun e : entry => a <= fst e < a + length l) (tcol i (combine (seq a (length l)) l)).
Proof.
  intros H. revert a. induction H as [|c l Hc Hl IH]; intros a.
  - cbn. split; [apply SS_nil | constructor].
  - cbn [length seq combine tcol flat_map]. fold (tcol i (combine (seq (S a) (length l)) l)).
    cbn [fst snd]. destruct (IH (S a)) as [IH1 IH2].
    assert (IH2' : Forall (fun e : entry => a <= fst e < a + S (length l))
                          (tcol i (combine (seq (S a) (length l)) l))).
    { eapply Forall_impl; [|exact IH2]. cbv beta. intros z Hz. lia. }
    destruct (SS_filter_row c i Hc) as [E|[v E]]; rewrite E; cbn [map app].
    + split; [exact IH1 | exact IH2'].
    + split.
      * apply SS_cons. split; [exact IH1|]. eapply Forall_impl; [|exact IH2].
        cbv beta. cbn [fst]. intros z Hz. lia.
      * constructor; [cbn [fst]; lia | exact IH2'].
Qed.

Lemma transpose_ok' : stmt_transpose O.
Proof.
  intros _ A Hd. split; [reflexivity|split; [reflexivity|split]].
  - intros i j Hi. unfold Model.get, transpose. cbn [cols]. nrm.
    rewrite nth_map_seq by exact Hi. cbn [plus]. unfold indexed.
    pose proof (colget_tcol (cols A) 0 i j) as H. unfold tcol in H. nrm. rewrite H.
    cbn [Nat.leb]. rewrite Nat.sub_0_r. reflexivity.
  - intros H. apply canonical_iff in H. destruct H as [_ Hc]. apply canonical_iff.
    unfold WellDim in *. unfold transpose. cbn [cols nc nr]. split.
    + rewrite map_length, seq_length. reflexivity.
    + apply Forall_map. apply Forall_forall. intros i _. unfold indexed.
      assert (Hss : Forall SS (cols A)).
      { eapply Forall_impl; [|exact Hc]. cbv beta. tauto. }
      destruct (tcol_SS (cols A) 0 i Hss) as [H1 H2]. unfold tcol in *. split; [exact H1|].
      eapply Forall_impl; [|exact H2]. cbv beta. intros z Hz. lia.
Qed.

(** ** select_rows *)
Lemma rank_0 keep : rank keep 0 = 0%nat.
Proof. reflexivity. Qed.

Lemma rank_S (b : bool) keep i :
  rank (b :: keep) (S i) = ((if b then 1 else 0) + rank keep i)%nat.
Proof. unfold rank, countb. cbn [firstn filter]. destruct b; reflexivity. Qed.

Lemma countb_cons (b : bool) keep :
  countb (fun b : bool => b) (b :: keep) = ((if b then 1 else 0) + countb (fun b : bool => b) keep)%nat.
Proof. unfold countb. cbn [filter]. destruct b; reflexivity. Qed.

Lemma rank_lt keep : forall a b,
  a < b -> nth a keep false = true -> rank keep a < rank keep b.
Proof.
  induction keep as [|k keep IH]; intros a b Hab Ha.
  - destruct a; discriminate.
  - destruct b as [|b]; [lia|]. destruct a as [|a].
    + cbn [nth] in Ha. subst k. rewrite rank_0, rank_S. lia.
    + cbn [nth] in Ha. rewrite !rank_S. assert (Hab' : a < b) by lia. specialize (IH a b Hab' Ha). lia.
Qed.

Lemma rank_lt_count keep : forall a,
  nth a keep false = true -> rank keep a < countb (fun b : bool => b) keep.
Proof.
  induction keep as [|k keep IH]; intros a Ha.
  - destruct a; discriminate.
  - rewrite countb_cons. destruct a as [|a].
    + cbn [nth] in Ha. subst k. rewrite rank_0. lia.
    + cbn [nth] in Ha. rewrite rank_S. specialize (IH a Ha). lia.
Qed.

Lemma rank_inj keep a b :
  nth a keep false = true -> nth b keep false = true -> rank keep a = rank keep b -> a = b.
Proof.
  intros Ha Hb E. destruct (Nat.lt_trichotomy a b) as [H|[H|H]]; [|exact H|].
  - pose proof (rank_lt keep a b H Ha). lia.
  - pose proof (rank_lt keep b a H Hb). lia.
Qed.

Lemma rank_surj keep : forall i',
  i' < countb (fun b : bool => b) keep ->
  exists i, i < length keep /\ nth i keep false = true /\ rank keep i = i'.
Proof.
  induction keep as [|k keep IH]; intros i' Hi'.
  - cbn in Hi'. lia.
  - rewrite countb_cons in Hi'. destruct k.
    + destruct i' as [|i'].
      * exists 0%nat. cbn [length nth]. rewrite rank_0. repeat split. lia.
      * destruct (IH i') as [i [H1 [H2 H3]]]; [lia|]. exists (S i).
        cbn [length nth]. rewrite rank_S. repeat split; [lia | exact H2 | lia].
    + destruct (IH i') as [i [H1 [H2 H3]]]; [lia|]. exists (S i).
      cbn [length nth]. rewrite rank_S. repeat split; [lia | exact H2 | lia].
Qed.

Definition selcol (keep : list bool) (c : col) : col :=
  map (fun e : entry => (rank keep (fst e), snd e))
      (filter (fun e : entry => nth (fst e) keep false) c).

Lemma selcol_SS keep (c : col) : SS c -> SS (selcol keep c).
Proof.
  unfold selcol. induction c as [|e c IH]; intros H; [apply SS_nil|].
  apply SS_cons in H. destruct H as [Hs Hf]. cbn [filter].
  destruct (nth (fst e) keep false) eqn:E; [|apply IH; exact Hs].
  cbn [map]. apply SS_cons. split; [apply IH; exact Hs|].
  apply Forall_map. apply Forall_filter. eapply Forall_impl; [|exact Hf].
  cbv beta. cbn [fst]. intros z Hz. apply rank_lt; assumption.
Qed.

Lemma selcol_rows keep (c : col) :
  Forall (fun e : entry => fst e < countb (fun b : bool => b) keep) (selcol keep c).
Proof.
  unfold selcol. apply Forall_map. apply Forall_forall. intros e He.
  apply filter_In in He. destruct He as [_ He]. cbn [fst]. apply rank_lt_count. exact He.
Qed.

Lemma colget_selcol keep (c : col) i :
  nth i keep false = true -> colget (selcol keep c) (rank keep i) = colget c i.
Proof.
  intros Hi. unfold selcol. induction c as [|e c IH]; [reflexivity|].
  cbn [filter]. rewrite (colget_cons e c i).
  destruct (nth (fst e) keep false) eqn:E.
  - cbn [map]. rewrite colget_cons. cbn [fst snd]. rewrite IH.
    destruct (Nat.eqb_spec (rank keep (fst e)) (rank keep i)) as [E1|E1];
      destruct (Nat.eqb_spec (fst e) i) as [E2|E2]; try reflexivity.
    + exfalso. apply E2. apply (rank_inj keep); assumption.
    + exfalso. apply E1. rewrite E2. reflexivity.
  - rewrite IH. destruct (Nat.eqb_spec (fst e) i) as [E2|E2]; [|reflexivity].
    rewrite E2, Hi in E. discriminate.
Qed.

Lemma select_rows_ok' : stmt_select_rows O.
Proof.
  intros _ A keep H Hk B.
  assert (HB : cols B = map (selcol keep) (cols A)) by reflexivity.
  assert (HnrB : nr B = countb (fun b : bool => b) keep) by reflexivity.
  assert (HncB : nc B = nc A) by reflexivity.
  clearbody B.
  apply canonical_iff in H. destruct H as [Hd Hc].
  split; [|split; [exact HnrB|split; [exact HncB|split]]].
  - apply canonical_iff. unfold WellDim in *. rewrite HB, HnrB, HncB. split.
    + rewrite map_length. exact Hd.
    + apply Forall_map. eapply Forall_impl; [|exact Hc]. cbv beta. intros c [Hs _].
      split; [apply selcol_SS; exact Hs | apply selcol_rows].
  - intros i j Hi. unfold Model.get. rewrite HB. nrm.
    rewrite (nth_map_nil (selcol keep)) by reflexivity.
    apply colget_selcol. exact Hi.
  - intros i' Hi'. rewrite HnrB in Hi'. rewrite <- Hk. apply rank_surj. exact Hi'.
Qed.

(** ** set_entry *)
Lemma col_set_In (c : col) i v (x : entry) : In x (col_set O c i v) -> x = (i, v) \/ In x c.
Proof.
  induction c as [|e c IH]; cbn [col_set].
  - destruct (nzb O v); cbn [In]; [intros [H|[]]; left; symmetry; exact H | intros []].
  - destruct (fst e <? i).
    + cbn [In]. intros [H|H]; [tauto|]. apply IH in H. tauto.
    + destruct (fst e =? i).
      * cbn [In]. intros [H|H]; [left; symmetry; exact H | tauto].
      * destruct (nzb O v); cbn [In]; [|tauto].
        intros [H|H]; [left; symmetry; exact H | tauto].
Qed.

Lemma col_set_SS (c : col) i v : SS c -> SS (col_set O c i v).
Proof.
  induction c as [|e c IH]; intros H; cbn [col_set].
  - destruct (nzb O v); [|apply SS_nil]. apply SS_cons. split; [apply SS_nil | constructor].
  - pose proof H as H0. apply SS_cons in H0. destruct H0 as [Hs Hf].
    destruct (Nat.ltb_spec (fst e) i) as [E1|E1].
    + apply SS_cons. split; [apply IH; exact Hs|].
      apply Forall_forall. intros x Hx. apply col_set_In in Hx. destruct Hx as [Hx|Hx].
      * subst x. cbn [fst]. exact E1.
      * rewrite Forall_forall in Hf. apply Hf. exact Hx.
    + destruct (Nat.eqb_spec (fst e) i) as [E2|E2].
      * apply SS_cons. split; [exact Hs|]. cbn [fst]. rewrite <- E2. exact Hf.
      * destruct (nzb O v); [|exact H]. apply SS_cons. split; [exact H|].
        cbn [fst]. constructor; [lia|]. eapply Forall_impl; [|exact Hf].
        cbv beta. intros z Hz. lia.
Qed.

Lemma col_set_rows (c : col) i v m :
  i < m -> Forall (fun e : entry => fst e < m) c ->
  Forall (fun e : entry => fst e < m) (col_set O c i v).
Proof.
  intros Hi Hc. apply Forall_forall. intros x Hx. apply col_set_In in Hx.
  destruct Hx as [Hx|Hx]; [subst x; exact Hi|]. rewrite Forall_forall in Hc. apply Hc. exact Hx.
Qed.

Lemma colget_col_set (c : col) i v i' :
  SS c -> colget (col_set O c i v) i' = if i' =? i then v else colget c i'.
Proof.
  induction c as [|e c IH]; intros H; cbn [col_set].
  - destruct (nzb O v) eqn:E.
    + rewrite colget_cons, colget_nil. cbn [fst snd]. rewrite (Nat.eqb_sym i' i).
      destruct (i =? i'); [ring | reflexivity].
    + apply nzb_false in E. rewrite colget_nil, E. destruct (i' =? i); reflexivity.
  - apply SS_cons in H. destruct H as [Hs Hf]. rewrite (colget_cons e c i').
    destruct (Nat.ltb_spec (fst e) i) as [E1|E1].
    + rewrite colget_cons, IH by exact Hs.
      destruct (Nat.eqb_spec (fst e) i') as [E2|E2]; destruct (Nat.eqb_spec i' i) as [E3|E3];
        try reflexivity. lia.
    + destruct (Nat.eqb_spec (fst e) i) as [E2|E2].
      * rewrite colget_cons. cbn [fst snd]. rewrite (Nat.eqb_sym i' i), <- E2.
        destruct (Nat.eqb_spec (fst e) i') as [E3|E3]; [|reflexivity].
        rewrite (colget_SS_gt e c i' Hf) by lia. ring.
      * destruct (nzb O v) eqn:E.
        -- rewrite colget_cons. cbn [fst snd]. rewrite (colget_cons e c i'), (Nat.eqb_sym i' i).
           destruct (Nat.eqb_spec i i') as [E3|E3]; [|reflexivity].
           destruct (Nat.eqb_spec (fst e) i') as [E4|E4]; [lia|].
           rewrite (colget_SS_gt e c i' Hf) by lia. ring.
        -- apply nzb_false in E. rewrite (colget_cons e c i').
           destruct (Nat.eqb_spec i' i) as [E3|E3]; [|reflexivity].
           destruct (Nat.eqb_spec (fst e) i') as [E4|E4]; [lia|].
           rewrite (colget_SS_gt e c i' Hf) by lia. symmetry. exact E.
Qed.

Lemma set_entry_ok' : stmt_set_entry O.
Proof.
  intros _ A i j v H Hi Hj.
  pose proof (canonical_col_nth A j H) as [Hs Hr].
  pose proof H as H0. apply canonical_iff in H0. destruct H0 as [Hd Hc].
  unfold WellDim in Hd. split.
  - apply canonical_iff. unfold WellDim, set_entry. cbn [cols nc nr]. split.
    + rewrite length_set_nth. exact Hd.
    + apply Forall_set_nth; [exact Hc|]. split.
      * apply col_set_SS. exact Hs.
      * apply col_set_rows; assumption.
  - intros i' j'. unfold Model.get, set_entry. cbn [cols]. nrm.
    rewrite nth_set_nth by lia.
    destruct (Nat.eqb_spec j' j) as [E|E].
    + subst j'. rewrite colget_col_set by exact Hs. rewrite andb_true_r. reflexivity.
    + rewrite andb_false_r. reflexivity.
Qed.

(** ** index_to_coord *)
Lemma idx2coord_iff (cs : list col) : forall j0 idx i j,
  idx2coord O cs j0 idx = Some (i, j) <->
  exists j', j = (j0 + j')%nat /\ j' < length cs /\
    exists k v, nth_error (nth j' cs []) k = Some (i, v) /\
                idx = (length (concat (firstn j' cs)) + k)%nat.
Proof.
  induction cs as [|c r IH]; intros j0 idx i j; cbn [idx2coord].
  - split; [discriminate|]. intros [j' [_ [H _]]]. cbn in H. lia.
  - destruct (Nat.ltb_spec idx (length c)) as [E|E].
    + split.
      * intros H. injection H as H1 H2. exists 0%nat. cbn [length nth firstn concat].
        split; [lia|]. split; [lia|]. exists idx, (snd (nth idx c (0%nat, 0))).
        split; [|reflexivity]. rewrite (nth_error_nth' c (0%nat, 0) E). f_equal.
        rewrite <- H1. destruct (nth idx c (0%nat, 0)); reflexivity.
      * intros [j' [Hj [Hj' [k [v [Hk Hidx]]]]]]. destruct j' as [|j'].
        -- cbn [nth firstn concat length] in *. cbn [plus] in Hidx. subst k.
           rewrite (nth_error_nth c idx (0%nat, 0) Hk). cbn [fst]. f_equal. f_equal. lia.
        -- exfalso. cbn [firstn concat] in Hidx. rewrite app_length in Hidx. lia.
    + rewrite IH. split.
      * intros [j' [Hj [Hj' [k [v [Hk Hidx]]]]]]. exists (S j').
        cbn [length nth firstn concat]. split; [lia|]. split; [lia|].
        exists k, v. split; [exact Hk|]. rewrite app_length. lia.
      * intros [j' [Hj [Hj' [k [v [Hk Hidx]]]]]]. destruct j' as [|j'].
        -- exfalso. cbn [nth firstn concat length] in *.
           assert (k < length c) by (apply nth_error_Some; rewrite Hk; discriminate). lia.
        -- exists j'. cbn [length nth firstn concat] in *. split; [lia|]. split; [lia|].
           exists k, v. split; [exact Hk|]. rewrite app_length in Hidx. lia.
Qed.

Lemma index_to_coord_ok' : stmt_index_to_coord O.
Proof.
  intros A idx i j. unfold index_to_coord. rewrite idx2coord_iff. split.
  - intros [j' [Hj [Hj' H]]]. cbn [plus] in Hj. subst j'. split; [exact Hj' | exact H].
  - intros [Hj H]. exists j. split; [reflexivity|]. split; [exact Hj | exact H].
Qed.

End WithOps.

Lemma from_rows_ok {T} (O : Ops T) : stmt_from_rows O.
Proof. intros HL. first [exact (from_rows_ok' O HL HL) | exact (from_rows_ok' O HL)]. Qed.
Lemma to_triu_ok {T} (O : Ops T) : stmt_to_triu O.
Proof. intros HL. first [exact (to_triu_ok' O HL HL) | exact (to_triu_ok' O HL)]. Qed.
Lemma is_triu_ok {T} (O : Ops T) : stmt_is_triu O.
Proof. intros HL. first [exact (is_triu_ok' O HL HL) | exact (is_triu_ok' O HL)]. Qed.
Lemma get_entry_ok {T} (O : Ops T) : stmt_get_entry O.
Proof. intros HL. first [exact (get_entry_ok' O HL HL) | exact (get_entry_ok' O HL)]. Qed.
Lemma dropzeros_ok {T} (O : Ops T) : stmt_dropzeros O.
Proof. intros HL. first [exact (dropzeros_ok' O HL HL) | exact (dropzeros_ok' O HL)]. Qed.
Lemma canonicalize_ok {T} (O : Ops T) : stmt_canonicalize O.
Proof. intros HL. first [exact (canonicalize_ok' O HL HL) | exact (canonicalize_ok' O HL)]. Qed.
Lemma from_triplets_ok {T} (O : Ops T) : stmt_from_triplets O.
Proof. intros HL. first [exact (from_triplets_ok' O HL HL) | exact (from_triplets_ok' O HL)]. Qed.
Lemma transpose_ok {T} (O : Ops T) : stmt_transpose O.
Proof. intros HL. first [exact (transpose_ok' O HL HL) | exact (transpose_ok' O HL)]. Qed.
Lemma select_rows_ok {T} (O : Ops T) : stmt_select_rows O.
Proof. intros HL. first [exact (select_rows_ok' O HL HL) | exact (select_rows_ok' O HL)]. Qed.
Lemma set_entry_ok {T} (O : Ops T) : stmt_set_entry O.
Proof. intros HL. first [exact (set_entry_ok' O HL HL) | exact (set_entry_ok' O HL)]. Qed.
Lemma index_to_coord_ok {T} (O : Ops T) : stmt_index_to_coord O.
Proof. exact (index_to_coord_ok' O). Qed.

Print Assumptions canonical_char_ok.
Print Assumptions from_rows_ok.
Print Assumptions canonicalize_ok.
Print Assumptions from_triplets_ok.
Print Assumptions transpose_ok.
Print Assumptions to_triu_ok.
Print Assumptions is_triu_ok.
Print Assumptions select_rows_ok.
Print Assumptions get_entry_ok.
Print Assumptions set_entry_ok.
Print Assumptions dropzeros_ok.
Print Assumptions index_to_coord_ok.
