(** Executable model of clarabel::algebra::CscMatrix (src/algebra/csc/*.rs).

    A matrix is kept as its list of columns, each column the list of stored
    (row, value) entries in storage order.  [raw] is the literal five-field encoding of
    the Rust struct; [decode]/[encode] go between the two.  Every public operation is a
    total function here; the inputs the Rust code rejects by panicking are named in
    Spec.v as hypotheses of the theorems and generated as a separate stream by the
    harness.  No proofs in this file. *)
From Coq Require Import List Arith ZArith Lia Bool.
Import ListNotations.
Require Import Clarabel.Base.Ops.

Section CscModel.
Context {T : Type} (O : Ops T).

Definition entry : Type := (nat * T)%type.
Definition col : Type := list entry.
Record csc : Type := mkCsc { nr : nat; nc : nat; cols : list col }.

(** ** Dense meaning (duplicates add, as the property text says). *)
Definition sumT (l : list T) : T := fold_right (add O) (zero O) l.
Definition colget (c : col) (i : nat) : T :=
  sumT (map snd (filter (fun e => fst e =? i) c)).
Definition get (A : csc) (i j : nat) : T := colget (nth j (cols A) []) i.

Definition nzb (v : T) : bool := negb (eqb O v (zero O)).

(** ** Raw encoding and format checking (core.rs:304-415). *)
Record raw : Type := mkRaw
  { rm : nat; rn : nat; rcolptr : list nat; rrowval : list nat; rnzval : list T }.
Inductive fmt : Set := FmtOk | IncompatibleDimension | BadColptr | BadRowval.

Fixpoint mono_le (l : list nat) : bool :=
  match l with
  | a :: ((b :: _) as r) => (a <=? b) && mono_le r
  | _ => true
  end.
Fixpoint strict_lt (l : list nat) : bool :=
  match l with
  | a :: ((b :: _) as r) => (a <? b) && strict_lt r
  | _ => true
  end.

Definition slice {X} (l : list X) (a b : nat) : list X := firstn (b - a) (skipn a l).

Definition raw_col (r : raw) (j : nat) : col :=
  let a := nth j (rcolptr r) 0 in
  let b := nth (S j) (rcolptr r) 0 in
  combine (slice (rrowval r) a b) (slice (rnzval r) a b).
Definition raw_cols (r : raw) : list col := map (raw_col r) (seq 0 (rn r)).

Definition check_dimensions (r : raw) : fmt :=
  if negb (length (rrowval r) =? length (rnzval r)) then IncompatibleDimension
  else if (length (rcolptr r) =? 0)
          || negb (length (rcolptr r) - 1 =? rn r)
          || negb (nth (rn r) (rcolptr r) 0 =? length (rrowval r))
  then IncompatibleDimension
  else if negb (nth 0 (rcolptr r) 0 =? 0) then BadColptr
  else if negb (mono_le (rcolptr r)) then BadColptr
  else FmtOk.

Definition check_format (r : raw) : fmt :=
  match check_dimensions r with
  | FmtOk =>
      if negb (forallb (fun c => strict_lt (map fst c)) (raw_cols r)) then BadRowval
      else if negb (forallb (fun i => i <? rm r) (rrowval r)) then BadRowval
      else FmtOk
  | e => e
  end.

Definition decode (r : raw) : csc := mkCsc (rm r) (rn r) (raw_cols r).

Fixpoint colptr_from (acc : nat) (cs : list col) : list nat :=
  match cs with
  | [] => [acc]
  | c :: r => acc :: colptr_from (acc + length c) r
  end.
Definition encode (A : csc) : raw :=
  mkRaw (nr A) (nc A) (colptr_from 0 (cols A))
        (map fst (concat (cols A))) (map snd (concat (cols A))).

(** Canonical form, boolean (used by the correspondence) *)
Definition col_canonb (m : nat) (c : col) : bool :=
  strict_lt (map fst c) && forallb (fun e => fst e <? m) c.
Definition canonicalb (A : csc) : bool :=
  (length (cols A) =? nc A) && forallb (col_canonb (nr A)) (cols A).

(** ** Constructors *)
Definition from_rows (rows : list (list T)) : csc :=
  let m := length rows in
  let n := match rows with [] => 0 | r :: _ => length r end in
  mkCsc m n
    (map (fun c => filter (fun e => nzb (snd e))
                     (combine (seq 0 m) (map (fun r => nth c r (zero O)) rows)))
         (seq 0 n)).

(** stable insertion sort by row index *)
Fixpoint ins (e : entry) (c : col) : col :=
  match c with
  | [] => [e]
  | x :: r => if fst e <=? fst x then e :: c else x :: ins e r
  end.
Definition sort_col (c : col) : col := fold_right ins [] c.

(** add together adjacent entries with equal row index *)
Fixpoint dedup (c : col) : col :=
  match c with
  | [] => []
  | e :: r =>
      match dedup r with
      | [] => [e]
      | x :: r' => if fst e =? fst x then (fst x, add O (snd e) (snd x)) :: r'
                   else e :: x :: r'
      end
  end.

Definition canonicalize (A : csc) : csc :=
  mkCsc (nr A) (nc A) (map (fun c => dedup (sort_col c)) (cols A)).

Definition triplet : Type := (nat * nat * T)%type.
Definition from_triplets (m n : nat) (ts : list triplet) : csc :=
  mkCsc m n
    (map (fun j => dedup (sort_col
            (map (fun t => (fst (fst t), snd t))
                 (filter (fun t => snd (fst t) =? j) ts))))
         (seq 0 n)).

Definition zeros (m n : nat) : csc := mkCsc m n (repeat [] n).
Definition identity (n : nat) : csc :=
  mkCsc n n (map (fun j => [(j, one O)]) (seq 0 n)).

(** ** Structural operations *)
Definition indexed {X} (l : list X) : list (nat * X) := combine (seq 0 (length l)) l.

Definition transpose (A : csc) : csc :=
  mkCsc (nc A) (nr A)
    (map (fun i =>
            flat_map (fun jc => map (fun e => (fst jc, snd e))
                                    (filter (fun e => fst e =? i) (snd jc)))
                     (indexed (cols A)))
         (seq 0 (nr A))).

Definition countb {X} (f : X -> bool) (l : list X) : nat := length (filter f l).

(** to_triu keeps the first [k] entries of column [j], [k] the number of entries with
    row <= j: exactly what the Rust code does (it relies on sorted columns). *)
Definition to_triu (A : csc) : csc :=
  mkCsc (nr A) (nc A)
    (map (fun jc => firstn (countb (fun e => fst e <=? fst jc) (snd jc)) (snd jc))
         (indexed (cols A))).
Definition is_triu (A : csc) : bool :=
  forallb (fun jc => forallb (fun e => fst e <=? fst jc) (snd jc)) (indexed (cols A)).

Definition rank (keep : list bool) (i : nat) : nat := countb (fun b => b) (firstn i keep).
Definition select_rows (A : csc) (keep : list bool) : csc :=
  mkCsc (countb (fun b => b) keep) (nc A)
    (map (fun c => map (fun e => (rank keep (fst e), snd e))
                       (filter (fun e => nth (fst e) keep false) c))
         (cols A)).

Definition get_entry (A : csc) (i j : nat) : option T :=
  option_map snd (find (fun e => fst e =? i) (nth j (cols A) [])).

Fixpoint col_set (c : col) (i : nat) (v : T) : col :=
  match c with
  | [] => if nzb v then [(i, v)] else []
  | e :: r =>
      if fst e <? i then e :: col_set r i v
      else if fst e =? i then (i, v) :: r
      else if nzb v then (i, v) :: c else c
  end.
Fixpoint set_nth {X} (l : list X) (k : nat) (x : X) : list X :=
  match l, k with
  | [], _ => []
  | _ :: r, 0 => x :: r
  | y :: r, S k' => y :: set_nth r k' x
  end.
Definition set_entry (A : csc) (i j : nat) (v : T) : csc :=
  mkCsc (nr A) (nc A) (set_nth (cols A) j (col_set (nth j (cols A) []) i v)).

Definition dropzeros (A : csc) : csc :=
  mkCsc (nr A) (nc A) (map (filter (fun e => nzb (snd e))) (cols A)).
Definition no_stored_zero (A : csc) : bool :=
  forallb (forallb (fun e => nzb (snd e))) (cols A).

Fixpoint idx2coord (cs : list col) (j idx : nat) : option (nat * nat) :=
  match cs with
  | [] => None
  | c :: r => if idx <? length c then Some (fst (nth idx c (0, zero O)), j)
              else idx2coord r (S j) (idx - length c)
  end.
Definition index_to_coord (A : csc) (idx : nat) : option (nat * nat) :=
  idx2coord (cols A) 0 idx.
Definition nnz (A : csc) : nat := length (concat (cols A)).

(** ** Concatenation (block_concatenate.rs) *)
Definition shift_rows (k : nat) (c : col) : col := map (fun e => (k + fst e, snd e)) c.

Definition hcat (A B : csc) : option csc :=
  if nr A =? nr B then Some (mkCsc (nr A) (nc A + nc B) (cols A ++ cols B)) else None.

Fixpoint zipcols (a b : list col) (k : nat) : list col :=
  match a, b with
  | ca :: ra, cb :: rb => (ca ++ shift_rows k cb) :: zipcols ra rb k
  | _, _ => []
  end.
Definition vcat (A B : csc) : option csc :=
  if nc A =? nc B then Some (mkCsc (nr A + nr B) (nc A) (zipcols (cols A) (cols B) (nr A)))
  else None.

Definition blockdiag2 (A B : csc) : csc :=
  mkCsc (nr A + nr B) (nc A + nc B) (cols A ++ map (shift_rows (nr A)) (cols B)).
Definition blockdiag (ms : list csc) : option csc :=
  match ms with
  | [] => None
  | _ => Some (fold_left blockdiag2 ms (mkCsc 0 0 []))
  end.

(** hvcat: blocks given row-major.  Dimension check as in matrix_traits.rs:49-88. *)
Definition hvcat_dim_ok (ms : list (list csc)) : bool :=
  match ms with
  | [] => false
  | r0 :: rest =>
      negb (length r0 =? 0)
      && forallb (fun r => length r =? length r0) rest
      && forallb (fun r => match r with
                           | [] => true
                           | b0 :: bs => forallb (fun b => nr b =? nr b0) bs
                           end) ms
      && forallb (fun k => forallb (fun r => nc (nth k r (mkCsc 0 0 [])) =? nc (nth k r0 (mkCsc 0 0 []))) rest)
                 (seq 0 (length r0))
  end.
Definition vcat_list (bs : list csc) : csc :=
  match bs with
  | [] => mkCsc 0 0 []
  | b0 :: r => fold_left (fun acc b => mkCsc (nr acc + nr b) (nc acc)
                                             (zipcols (cols acc) (cols b) (nr acc))) r b0
  end.
Definition hcat_list (bs : list csc) : csc :=
  match bs with
  | [] => mkCsc 0 0 []
  | b0 :: r => fold_left (fun acc b => mkCsc (nr acc) (nc acc + nc b) (cols acc ++ cols b)) r b0
  end.
Definition hvcat (ms : list (list csc)) : option csc :=
  if hvcat_dim_ok ms then
    match ms with
    | [] => None
    | r0 :: _ =>
        Some (hcat_list (map (fun k => vcat_list (map (fun r => nth k r (mkCsc 0 0 [])) ms))
                             (seq 0 (length r0))))
    end
  else None.

(** ** Value operations (matrix_math.rs) *)
Definition map_vals (f : nat -> nat -> T -> T) (A : csc) : csc :=
  mkCsc (nr A) (nc A)
    (map (fun jc => map (fun e => (fst e, f (fst e) (fst jc) (snd e))) (snd jc))
         (indexed (cols A))).
Definition scale (A : csc) (c : T) : csc := map_vals (fun _ _ v => mul O v c) A.
Definition negate (A : csc) : csc := map_vals (fun _ _ v => neg O v) A.
Definition lscale (A : csc) (l : list T) : csc :=
  map_vals (fun i _ v => mul O v (nth i l (zero O))) A.
Definition rscale (A : csc) (r : list T) : csc :=
  map_vals (fun _ j v => mul O v (nth j r (zero O))) A.
Definition lrscale (A : csc) (l r : list T) : csc :=
  map_vals (fun i j v => mul O v (mul O (nth i l (zero O)) (nth j r (zero O)))) A.

Definition upd (l : list T) (i : nat) (f : T -> T) : list T :=
  set_nth l i (f (nth i l (zero O))).

(** y <- a*A*x + b*y *)
Definition gemv (A : csc) (x y : list T) (a b : T) : list T :=
  fold_left
    (fun y jc =>
       fold_left (fun y e => upd y (fst e)
                     (fun t => add O t (mul O (mul O a (snd e)) (nth (fst jc) x (zero O)))))
                 (snd jc) y)
    (indexed (cols A)) (map (fun t => mul O b t) y).

(** y <- a*A'*x + b*y *)
Definition gemv_T (A : csc) (x y : list T) (a b : T) : list T :=
  map (fun jy =>
         fold_left (fun t e => add O t (mul O (mul O a (snd e)) (nth (fst e) x (zero O))))
                   (nth (fst jy) (cols A) []) (mul O b (snd jy)))
      (indexed y).

(** y <- a*(A + A' - diag A)*x + b*y for upper-triangular A (as coded: both updates per
    stored entry, diagonal entries once) *)
Definition symv (A : csc) (x y : list T) (a b : T) : list T :=
  fold_left
    (fun y jc =>
       fold_left (fun y e =>
                    let y1 := upd y (fst e)
                      (fun t => add O t (mul O (mul O a (snd e)) (nth (fst jc) x (zero O)))) in
                    if fst e =? fst jc then y1
                    else upd y1 (fst jc)
                      (fun t => add O t (mul O (mul O a (snd e)) (nth (fst e) x (zero O)))))
                 (snd jc) y)
    (indexed (cols A)) (map (fun t => mul O b t) y).

(** y' * (A + A' - diag A) * x for upper-triangular A; None when a strictly lower entry is met
    (the Rust code panics there) *)
Definition quad_form (A : csc) (y x : list T) : option T :=
  if is_triu A then
    Some (fold_left
      (fun out jc =>
         let j := fst jc in
         let t12 := fold_left (fun acc e =>
                        if fst e <? j then
                          (add O (fst acc) (mul O (snd e) (nth (fst e) x (zero O))),
                           add O (snd acc) (mul O (snd e) (nth (fst e) y (zero O))))
                        else acc) (snd jc) (zero O, zero O) in
         let dg := fold_left (fun acc e =>
                        if fst e =? j then
                          add O acc (mul O (mul O (snd e) (nth j x (zero O))) (nth j y (zero O)))
                        else acc) (snd jc) (zero O) in
         add O (add O out dg)
               (add O (mul O (fst t12) (nth j y (zero O))) (mul O (snd t12) (nth j x (zero O)))))
      (indexed (cols A)) (zero O))
  else None.

Definition col_sums (A : csc) : list T := map (fun c => sumT (map snd c)) (cols A).
Definition row_sums (A : csc) : list T :=
  fold_left (fun s e => upd s (fst e) (fun t => add O t (snd e)))
            (concat (cols A)) (repeat (zero O) (nr A)).
Definition maxabs (m v : T) : T := omax O m (abs O v).
Definition col_norms (A : csc) : list T :=
  map (fun c => fold_left maxabs (map snd c) (zero O)) (cols A).
Definition row_norms (A : csc) : list T :=
  fold_left (fun s e => upd s (fst e) (fun t => maxabs t (snd e)))
            (concat (cols A)) (repeat (zero O) (nr A)).
Definition col_norms_sym (A : csc) : list T :=
  fold_left
    (fun s jc => fold_left (fun s e =>
                    upd (upd s (fst jc) (fun t => maxabs t (snd e)))
                        (fst e) (fun t => maxabs t (snd e))) (snd jc) s)
    (indexed (cols A)) (repeat (zero O) (nc A)).

(** the *_no_reset variants: the running maxima start from the caller's vector *)
Definition col_norms_from (A : csc) (s : list T) : list T :=
  map (fun sc => fold_left maxabs (map snd (snd sc)) (fst sc)) (combine s (cols A)).
Definition row_norms_from (A : csc) (s : list T) : list T :=
  fold_left (fun s e => upd s (fst e) (fun t => maxabs t (snd e))) (concat (cols A)) s.
Definition col_norms_sym_from (A : csc) (s : list T) : list T :=
  fold_left
    (fun s jc => fold_left (fun s e =>
                    upd (upd s (fst jc) (fun t => maxabs t (snd e)))
                        (fst e) (fun t => maxabs t (snd e))) (snd jc) s)
    (indexed (cols A)) s.

(** ** gemv / gemv_T / symv exactly as coded (matrix_math.rs): the [b]-scaling of [y] and the
    accumulation loop each have separate branches for the coefficient values 0, 1, -1 and
    "anything else".  Over a ring all branches equal [gemv]/[gemv_T]/[symv] above (Spec.v,
    [stmt_fast_paths]); over binary64 ([OpsF]) they are what the code computes bit for bit,
    including what happens to signed zeros and non-finite garbage. *)
Inductive coef_class : Set := CZero | COne | CMinusOne | CGeneral.
Definition classify_coef (c : T) : coef_class :=
  if eqb O c (zero O) then CZero
  else if eqb O c (one O) then COne
  else if eqb O c (neg O (one O)) then CMinusOne
  else CGeneral.

(** [y.fill(0)] / nothing / [y.negate()] / [y.scale(b)] *)
Definition scale_fast (b : T) (y : list T) : list T :=
  match classify_coef b with
  | CZero => map (fun _ => zero O) y
  | COne => y
  | CMinusOne => map (neg O) y
  | CGeneral => map (fun t => mul O t b) y
  end.

(** the scatter loop of [_csc_axpby_N] with per-entry update [step v xj t] *)
Definition scatter (step : T -> T -> T -> T) (A : csc) (x y0 : list T) : list T :=
  fold_left
    (fun y jc => fold_left (fun y e => upd y (fst e) (step (snd e) (nth (fst jc) x (zero O))))
                           (snd jc) y)
    (indexed (cols A)) y0.
Definition gemv_fast (A : csc) (x y : list T) (a b : T) : list T :=
  let y0 := scale_fast b y in
  match classify_coef a with
  | CZero => y0                                                        (* early return *)
  | COne => scatter (fun v xj t => add O t (mul O v xj)) A x y0         (* y[r] += v * xj *)
  | CMinusOne => scatter (fun v xj t => sub O t (mul O v xj)) A x y0    (* y[r] -= v * xj *)
  | CGeneral => scatter (fun v xj t => add O t (mul O (mul O a v) xj)) A x y0
  end.

(** the gather loop of [_csc_axpby_T] *)
Definition gather (step : T -> T -> T -> T) (A : csc) (x y0 : list T) : list T :=
  map (fun jy => fold_left (fun t e => step (snd e) (nth (fst e) x (zero O)) t)
                           (nth (fst jy) (cols A) []) (snd jy))
      (indexed y0).
Definition gemv_T_fast (A : csc) (x y : list T) (a b : T) : list T :=
  let y0 := scale_fast b y in
  match classify_coef a with
  | CZero => y0
  | COne => gather (fun v xr t => add O t (mul O v xr)) A x y0
  | CMinusOne => gather (fun v xr t => sub O t (mul O v xr)) A x y0
  | CGeneral => gather (fun v xr t => add O t (mul O (mul O a v) xr)) A x y0
  end.

(** [_csc_symv_unsafe]: [y.scale(b)] always (no fast path), then both updates per stored entry *)
Definition symv_coded (A : csc) (x y : list T) (a b : T) : list T :=
  fold_left
    (fun y jc =>
       fold_left (fun y e =>
                    let y1 := upd y (fst e)
                      (fun t => add O t (mul O (mul O a (snd e)) (nth (fst jc) x (zero O)))) in
                    if fst e =? fst jc then y1
                    else upd y1 (fst jc)
                      (fun t => add O t (mul O (mul O a (snd e)) (nth (fst e) x (zero O)))))
                 (snd jc) y)
    (indexed (cols A)) (map (fun t => mul O t b) y).
(** every index into [x] / [y] that the kernel dereferences without a bounds check *)
Definition symv_trace (A : csc) : list nat :=
  flat_map (fun jc => flat_map (fun e : entry => [fst e; fst jc]) (snd jc)) (indexed (cols A)).

(** ** index_to_coord on the raw encoding, as coded: [rowval[idx]] and
    [colptr.partition_point(|c| idx + 1 > c) - 1].  On a partitioned slice (true prefix, false
    suffix -- which a monotone colptr is) [partition_point] is the length of the true prefix. *)
Fixpoint ppoint (p : nat -> bool) (l : list nat) : nat :=
  match l with
  | [] => 0
  | a :: r => if p a then S (ppoint p r) else 0
  end.
Definition raw_index_to_coord (r : raw) (idx : nat) : option (nat * nat) :=
  if idx <? nth (rn r) (rcolptr r) 0 then
    Some (nth idx (rrowval r) 0, ppoint (fun c => c <=? idx) (rcolptr r) - 1)
  else None.

(** ** the missing-diagonal helpers of utils.rs (used by the KKT assembly on an upper-triangular
    P): a column "misses its diagonal" when it is empty or its LAST stored row is not the
    column index; [add_missing_diag] is the count/fill pipeline (colcount_block +
    colcount_missing_diag, colcount_to_colptr, fill_block, fill_missing_diag, backshift) run on a
    fresh matrix: every column of M followed by a structural zero on the diagonal if missing. *)
Definition diag_missing (c : col) (j : nat) : bool :=
  match rev c with
  | [] => true
  | e :: _ => negb (fst e =? j)
  end.
Definition add_missing_diag (M : csc) : csc :=
  mkCsc (nr M) (nc M)
    (map (fun jc => if diag_missing (snd jc) (fst jc) then snd jc ++ [(fst jc, zero O)] else snd jc)
         (indexed (cols M))).
Definition count_missing_diag (M : csc) : nat :=
  countb (fun jc => diag_missing (snd jc) (fst jc)) (indexed (cols M)).
(** count_diagonal_entries: Triu looks at the last entry of a column, Tril at the first *)
Definition count_diag_triu (M : csc) : nat :=
  countb (fun jc => negb (diag_missing (snd jc) (fst jc))) (indexed (cols M)).
Definition count_diag_tril (M : csc) : nat :=
  countb (fun jc => match snd jc with [] => false | e :: _ => fst e =? fst jc end)
         (indexed (cols M)).

(** the symmetric (full) expansion of an upper-triangular matrix, as a dense function *)
Definition sym_dense (A : csc) : list (list T) :=
  map (fun i => map (fun j => if i <=? j then get A i j else get A j i) (seq 0 (nc A)))
      (seq 0 (nr A)).

(** dense view as a list of rows, for printing and for comparison *)
Definition to_dense (A : csc) : list (list T) :=
  map (fun i => map (fun j => get A i j) (seq 0 (nc A))) (seq 0 (nr A)).

End CscModel.

Arguments mkCsc {T}. Arguments nr {T}. Arguments nc {T}. Arguments cols {T}.
Arguments mkRaw {T}. Arguments rm {T}. Arguments rn {T}. Arguments rcolptr {T}.
Arguments rrowval {T}. Arguments rnzval {T}.
