(** index_to_coord on the raw encoding: characterisation of [raw_index_to_coord] under
    [check_dimensions r = FmtOk] and agreement with the column-list [index_to_coord]. *)
From Coq Require Import List Arith Lia Bool.
Import ListNotations.
Require Import Clarabel.Base.Ops Clarabel.Csc.Model Clarabel.Csc.Spec.
Require Import Clarabel.Csc.LemmasAlgBase Clarabel.Csc.LemmasAlgFmt.
Require Clarabel.Csc.LemmasStruct.

(** * partition point *)
Lemma ppoint_spec (p : nat -> bool) (l : list nat) :
  ppoint p l <= length l /\
  (forall t, t < ppoint p l -> p (nth t l 0) = true) /\
  (ppoint p l < length l -> p (nth (ppoint p l) l 0) = false).
Proof.
  induction l as [|a l IH].
  - cbn [ppoint length]. split; [lia|]. split; intros; lia.
  - cbn [ppoint length]. destruct IH as [IH1 [IH2 IH3]].
    destruct (p a) eqn:Hpa.
    + split; [lia|]. split.
      * intros t Ht. destruct t as [|t]; cbn [nth]; [exact Hpa|]. apply IH2. lia.
      * intros Hk. cbn [nth]. apply IH3. lia.
    + split; [lia|]. split.
      * intros t Ht. lia.
      * intros _. cbn [nth]. exact Hpa.
Qed.

(** * list facts *)
Lemma nth_error_firstn_lt {X} n (l : list X) k :
  k < n -> nth_error (firstn n l) k = nth_error l k.
Proof.
  revert l k. induction n as [|n IH]; intros l k Hk; [lia|].
  destruct l as [|x l]; [reflexivity|].
  destruct k as [|k]; cbn [firstn nth_error]; [reflexivity|]. apply IH. lia.
Qed.

Lemma nth_error_skipn_add {X} a (l : list X) k :
  nth_error (skipn a l) k = nth_error l (a + k).
Proof.
  revert l. induction a as [|a IH]; intros l; [reflexivity|].
  destruct l as [|x l].
  - cbn [skipn plus nth_error]. destruct k; reflexivity.
  - cbn [skipn plus nth_error]. apply IH.
Qed.

Lemma nth_error_Some_lt {X} (l : list X) k x : nth_error l k = Some x -> k < length l.
Proof. intros H. apply nth_error_Some. rewrite H. discriminate. Qed.

Lemma nth_error_slice_lt {X} (l : list X) a b k :
  k < b - a -> nth_error (slice l a b) k = nth_error l (a + k).
Proof.
  intros Hk. unfold slice. rewrite nth_error_firstn_lt by exact Hk.
  apply nth_error_skipn_add.
Qed.

Lemma nth_error_combine_ex {X Y} (l : list X) (l' : list Y) t d :
  t < length l -> t < length l' ->
  exists v, nth_error (combine l l') t = Some (nth t l d, v).
Proof.
  revert l' t. induction l as [|x l IH]; intros l' t Hl Hl'; cbn [length] in Hl; [lia|].
  destruct l' as [|y l']; cbn [length] in Hl'; [lia|].
  destruct t as [|t]; cbn [combine nth_error nth].
  - exists y. reflexivity.
  - apply IH; lia.
Qed.

Section Idx.
Context {T : Type}.

(** * the five facts behind [check_dimensions r = FmtOk] *)
Lemma check_dimensions_facts (r : @raw T) :
  check_dimensions r = FmtOk ->
  length (rrowval r) = length (rnzval r) /\
  length (rcolptr r) = S (rn r) /\
  nth (rn r) (rcolptr r) 0 = length (rrowval r) /\
  nth 0 (rcolptr r) 0 = 0 /\
  mono_le (rcolptr r) = true.
Proof.
  unfold check_dimensions.
  destruct (Nat.eqb_spec (length (rrowval r)) (length (rnzval r))) as [E1|E1];
    cbn [negb]; [|discriminate].
  destruct (Nat.eqb_spec (length (rcolptr r)) 0) as [E2|E2]; cbn [orb negb]; [discriminate|].
  destruct (Nat.eqb_spec (length (rcolptr r) - 1) (rn r)) as [E3|E3];
    cbn [orb negb]; [|discriminate].
  destruct (Nat.eqb_spec (nth (rn r) (rcolptr r) 0) (length (rrowval r))) as [E4|E4];
    cbn [orb negb]; [|discriminate].
  destruct (Nat.eqb_spec (nth 0 (rcolptr r) 0) 0) as [E5|E5]; cbn [negb]; [|discriminate].
  destruct (mono_le (rcolptr r)) eqn:E6; cbn [negb]; [|discriminate].
  intros _.
  split; [exact E1|]. split; [lia|]. split; [exact E4|]. split; [exact E5|reflexivity].
Qed.

(** * (A) the raw index-to-coordinate map *)
Lemma raw_index_to_coord_ok : stmt_raw_index_to_coord (T:=T).
Proof.
  intros r idx Hcd.
  destruct (check_dimensions_facts r Hcd) as [E1 [E2 [E4 [E5 E6]]]].
  pose proof (ppoint_spec (fun c => c <=? idx) (rcolptr r)) as P.
  cbv beta in P.
  unfold raw_index_to_coord.
  revert P. generalize (ppoint (fun c => c <=? idx) (rcolptr r)). intros k [P1 [P2 P3]].
  destruct (Nat.ltb_spec idx (nth (rn r) (rcolptr r) 0)) as [Hlt|Hge].
  - split.
    + split; [discriminate|lia].
    + intros i j Hs. injection Hs as Hi Hj.
      assert (Hk1 : 1 <= k).
      { destruct (Nat.eq_dec k 0) as [Hk0|Hk0]; [|lia].
        assert (Hf : (nth k (rcolptr r) 0 <=? idx) = false) by (apply P3; lia).
        rewrite Hk0, E5 in Hf. cbn [Nat.leb] in Hf. discriminate. }
      assert (Hkn : k <= rn r).
      { destruct (le_lt_dec k (rn r)) as [Hle|Hgt]; [exact Hle|].
        assert (Ht : (nth (rn r) (rcolptr r) 0 <=? idx) = true) by (apply P2; exact Hgt).
        apply Nat.leb_le in Ht. lia. }
      subst i j.
      assert (Hlo : nth (k - 1) (rcolptr r) 0 <= idx).
      { apply Nat.leb_le. apply P2. lia. }
      assert (Hhi : idx < nth (S (k - 1)) (rcolptr r) 0).
      { replace (S (k - 1)) with k by lia. apply Nat.leb_gt. apply P3. lia. }
      split; [reflexivity|]. split; [lia|]. split; [lia|].
      intros j' Hj' [Hlo' Hhi'].
      destruct (lt_eq_lt_dec j' (k - 1)) as [[Hc|Hc]|Hc]; [|exact Hc|]; exfalso.
      * assert (Hm : nth (S j') (rcolptr r) 0 <= nth (k - 1) (rcolptr r) 0)
          by (apply mono_le_nth; [exact E6|lia|lia]).
        lia.
      * assert (Hm : nth (S (k - 1)) (rcolptr r) 0 <= nth j' (rcolptr r) 0)
          by (apply mono_le_nth; [exact E6|lia|lia]).
        lia.
  - split.
    + split; [intros _; lia|intros _; reflexivity].
    + intros i j Hs. discriminate.
Qed.

(** * the decoded columns *)
Lemma raw_cols_length (r : @raw T) : length (raw_cols r) = rn r.
Proof. unfold raw_cols. rewrite map_length, seq_length. reflexivity. Qed.

Lemma raw_cols_nth (r : @raw T) j :
  j < rn r ->
  nth j (raw_cols r) [] =
  slice (combine (rrowval r) (rnzval r)) (nth j (rcolptr r) 0) (nth (S j) (rcolptr r) 0).
Proof.
  intros Hj. rewrite raw_cols_slices. rewrite nth_map_seq by exact Hj. reflexivity.
Qed.

Lemma concat_firstn_raw_cols_length (r : @raw T) j :
  check_dimensions r = FmtOk -> j <= rn r ->
  length (concat (firstn j (raw_cols r))) = nth j (rcolptr r) 0.
Proof.
  intros Hcd Hj.
  destruct (check_dimensions_facts r Hcd) as [E1 [E2 [E4 [E5 E6]]]].
  assert (Hc : concat (firstn j (raw_cols r)) =
               firstn (nth j (rcolptr r) 0) (combine (rrowval r) (rnzval r))).
  { rewrite raw_cols_slices, firstn_map, firstn_seq0 by exact Hj.
    apply slices_concat; [exact E6|exact E5|lia]. }
  rewrite Hc.
  rewrite firstn_length, combine_length.
  assert (Hm : nth j (rcolptr r) 0 <= nth (rn r) (rcolptr r) 0)
    by (apply mono_le_nth; [exact E6|exact Hj|lia]).
  lia.
Qed.

(** * (B) agreement of the raw and the column-list versions *)
Lemma index_to_coord_raw_agree_ok (O : Ops T) : stmt_index_to_coord_raw_agree O.
Proof.
  intros r idx Hcd.
  destruct (check_dimensions_facts r Hcd) as [E1 [E2 [E4 [E5 E6]]]].
  destruct (raw_index_to_coord_ok r idx Hcd) as [HN HS].
  destruct (raw_index_to_coord r idx) as [[i j]|] eqn:Hraw.
  - destruct (HS i j eq_refl) as [Hi [Hj [[Hlo Hhi] _]]].
    apply (LemmasStruct.index_to_coord_ok' O).
    unfold decode; cbn [cols].
    split; [rewrite raw_cols_length; exact Hj|].
    assert (Hlen : nth (S j) (rcolptr r) 0 <= length (rrowval r)).
    { rewrite <- E4. apply mono_le_nth; [exact E6|lia|lia]. }
    destruct (nth_error_combine_ex (rrowval r) (rnzval r) idx 0) as [v Hv]; [lia|lia|].
    exists (idx - nth j (rcolptr r) 0), v. split.
    + rewrite raw_cols_nth by exact Hj. rewrite nth_error_slice_lt by lia.
      replace (nth j (rcolptr r) 0 + (idx - nth j (rcolptr r) 0)) with idx by lia.
      subst i. exact Hv.
    + rewrite (concat_firstn_raw_cols_length r j Hcd) by lia. lia.
  - assert (Hnnz : length (rrowval r) <= idx) by (apply HN; reflexivity).
    destruct (index_to_coord O (decode r) idx) as [[i j]|] eqn:Hic; [exfalso|reflexivity].
    apply (LemmasStruct.index_to_coord_ok' O) in Hic.
    unfold decode in Hic; cbn [cols] in Hic.
    destruct Hic as [Hj [k [v [Hk Hidx]]]].
    rewrite raw_cols_length in Hj.
    rewrite raw_cols_nth in Hk by exact Hj.
    rewrite (concat_firstn_raw_cols_length r j Hcd) in Hidx by lia.
    pose proof (nth_error_Some_lt _ _ _ Hk) as Hkl.
    unfold slice in Hkl. rewrite firstn_length in Hkl.
    assert (Hlen : nth (S j) (rcolptr r) 0 <= length (rrowval r)).
    { rewrite <- E4. apply mono_le_nth; [exact E6|lia|lia]. }
    lia.
Qed.

End Idx.

Print Assumptions raw_index_to_coord_ok.
Print Assumptions index_to_coord_raw_agree_ok.
