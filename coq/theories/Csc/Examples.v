(** Non-vacuity of the C16 theorems added for symv / quad_form / norms / block concatenation:
    the hypotheses are met by concrete non-trivial instances over Z, and the conclusions
    specialise to the expected numbers. *)
From Coq Require Import List Arith ZArith Lia Bool.
Import ListNotations.
Require Import Clarabel.Base.Ops Clarabel.Csc.Model Clarabel.Csc.Spec.
Require Import Clarabel.Csc.LemmasSym Clarabel.Csc.LemmasOrd Clarabel.Csc.LemmasBlock.

Lemma LawsZ : Laws OpsZ.
Proof. split; [exact RingLawsZ | exact Z.eqb_eq]. Qed.

(** upper triangle of the symmetric matrix [[4 -3 0]; [-3 8 -1]; [0 -1 2]] *)
Definition exU : @csc Z :=
  mkCsc 3 3 [[(0, 4%Z)]; [(0, (-3)%Z); (1, 8%Z)]; [(1, (-1)%Z); (2, 2%Z)]].

Example exU_hyps :
  Canonical exU /\ WellDim exU /\ RowsIn exU /\ nr exU = nc exU /\ is_triu exU = true.
Proof.
  repeat split; try reflexivity.
  unfold RowsIn. cbn [cols nr exU]. repeat constructor.
Qed.

Example exU_symv :
  let x := [1; 2; -3]%Z in let y := [1; 1; 1]%Z in
  symv OpsZ exU x y 2%Z (-1)%Z = [-5; 31; -17]%Z /\
  forall i, i < 3 ->
    nth i (symv OpsZ exU x y 2%Z (-1)%Z) 0%Z =
    (-1 * nth i y 0 + 2 * sum_upto OpsZ 3 (fun j => symget OpsZ exU i j * nth j x 0))%Z.
Proof.
  cbv zeta. split; [reflexivity|].
  destruct exU_hyps as [_ [HW [HR [Hsq Htri]]]].
  exact (proj2 (symv_ok OpsZ LawsZ exU [1; 2; -3]%Z [1; 1; 1]%Z 2%Z (-1)%Z HW HR Hsq Htri eq_refl)).
Qed.

Example exU_quad_form :
  quad_form OpsZ exU [1; 1; 1]%Z [1; 2; -3]%Z = Some 6%Z /\
  quad_form OpsZ (transpose exU) [1; 1; 1]%Z [1; 2; -3]%Z = None.
Proof. split; reflexivity. Qed.

Example exU_quad_form_dense :
  forall q, quad_form OpsZ exU [1; 1; 1]%Z [1; 2; -3]%Z = Some q ->
    q = sum_upto OpsZ 3 (fun i => (nth i [1; 1; 1] 0 *
          sum_upto OpsZ 3 (fun j => symget OpsZ exU i j * nth j [1; 2; -3] 0))%Z).
Proof.
  destruct exU_hyps as [_ [HW [HR [Hsq _]]]].
  exact (proj2 (quad_form_ok OpsZ LawsZ exU [1; 2; -3]%Z [1; 1; 1]%Z HW HR Hsq)).
Qed.

Example exU_norms :
  col_norms OpsZ exU = [4; 8; 2]%Z /\ row_norms OpsZ exU = [4; 8; 2]%Z /\
  col_norms_sym OpsZ exU = [4; 8; 2]%Z /\
  col_norms OpsZ (mkCsc 2 3 [[(1, (-5)%Z)]; []; [(0, 2%Z); (1, 1%Z)]]) = [5; 0; 2]%Z /\
  row_norms OpsZ (mkCsc 2 3 [[(1, (-5)%Z)]; []; [(0, 2%Z); (1, 1%Z)]]) = [2; 5]%Z.
Proof. repeat split; reflexivity. Qed.

Example exU_col_norms_sym_max :
  forall j, j < 3 ->
    is_maxabs OpsZ (nth j (col_norms_sym OpsZ exU) 0%Z) 3 (fun i => symget OpsZ exU i j).
Proof.
  destruct exU_hyps as [HC [_ [_ [Hsq Htri]]]].
  exact (proj2 (col_norms_sym_ok OpsZ LawsZ OrdLawsZ exU HC Hsq Htri)).
Qed.

(** a 2 x 3 block layout with block-row heights 1, 2 and block-column widths 1, 0, 2 *)
Definition exB (m n : nat) (v : Z) : @csc Z :=
  mkCsc m n (map (fun j => map (fun i => (i, (v + Z.of_nat (i + 2 * j))%Z)) (seq 0 m)) (seq 0 n)).
Definition exGrid : list (list (@csc Z)) :=
  [[exB 1 1 1; exB 1 0 2; exB 1 2 3]; [exB 2 1 4; exB 2 0 5; exB 2 2 6]].

Example exGrid_shapes : HvShapesOk exGrid.
Proof. apply (proj1 (hvcat_dim_check_ok exGrid)). reflexivity. Qed.

Example exGrid_hvcat :
  option_map (to_dense OpsZ) (hvcat exGrid) = Some [[1; 3; 5]; [4; 6; 8]; [5; 7; 9]]%Z.
Proof. reflexivity. Qed.

Example exGrid_ragged :
  hvcat [[exB 1 1 1; exB 1 2 3]; [exB 2 1 4]] = None /\
  hvcat [[exB 1 1 1; exB 2 2 3]] = None /\
  ~ HvShapesOk [[exB 1 1 1; exB 2 2 3]].
Proof.
  split; [reflexivity|]. split; [reflexivity|].
  apply (proj2 (hvcat_dim_check_ok [[exB 1 1 1; exB 2 2 3]])). reflexivity.
Qed.

Example exBlockdiag :
  option_map (to_dense OpsZ) (blockdiag [exB 1 2 1; exB 0 1 7; exB 2 1 4]) =
  Some [[1; 3; 0; 0]; [0; 0; 0; 4]; [0; 0; 0; 5]]%Z.
Proof. reflexivity. Qed.

(** ** round 3: coded branches, index helpers, missing diagonal, round trips *)
Require Import Clarabel.Csc.LemmasFast Clarabel.Csc.LemmasDiag Clarabel.Csc.LemmasIdx Clarabel.Csc.Check.
From Coq Require Import Floats.

(** every coefficient class occurs, and the coded branches give the one-formula result *)
Example ex_classes :
  classify_coef OpsZ 0%Z = CZero /\ classify_coef OpsZ 1%Z = COne /\
  classify_coef OpsZ (-1)%Z = CMinusOne /\ classify_coef OpsZ 7%Z = CGeneral.
Proof. repeat split; reflexivity. Qed.

Example ex_fast_Z :
  let A := mkCsc 2 3 [[(1, 5%Z)]; []; [(0, 2%Z); (1, (-1)%Z)]] in
  gemv_fast OpsZ A [1; 2; 3]%Z [10; 20]%Z (-1)%Z 0%Z = [-6; -2]%Z /\
  gemv_T_fast OpsZ A [1; 2]%Z [7; 8; 9]%Z 1%Z (-1)%Z = [3; -8; -9]%Z /\
  gemv_fast OpsZ A [1; 2; 3]%Z [10; 20]%Z 0%Z 4%Z = [40; 80]%Z.
Proof. repeat split; reflexivity. Qed.

(** at binary64 the branches are observable: b = 0 overwrites NaN garbage (the general formula
    would give NaN), and with a = 0 the NaN in x is never read; symv has no fast path, so it
    computes 0 * NaN = NaN and 0 * (-5) = -0 *)
Example ex_fast_F :
  let A := mkCsc 2 2 [[(0, 2%float)]; [(0, 1%float); (1, 3%float)]] in
  flist_eqb (gemv_fast OpsF A [1; 1]%float [nan; infinity]%float 1%float 0%float) [3; 3]%float = true /\
  flist_eqb (gemv OpsF A [1; 1]%float [nan; infinity]%float 1%float 0%float) [3; 3]%float = false /\
  flist_eqb (gemv_fast OpsF A [nan; 1]%float [4; -5]%float 0%float (-1)%float) [-4; 5]%float = true /\
  flist_eqb (symv_coded OpsF A [(-0); (-0)]%float [nan; (-5)]%float 1%float 0%float) [nan; (-0)]%float = true.
Proof. repeat split; vm_compute; reflexivity. Qed.

(** index_to_coord with an empty leading column and an unsorted column: stored entry 0 lives in
    column 1 (the C17-4 situation) *)
Definition exR : @raw Z := mkRaw 3 4 [0; 0; 2; 2; 3] [2; 0; 1] [5; 6; 7]%Z.
Example exR_index :
  check_dimensions exR = FmtOk /\
  raw_index_to_coord exR 0 = Some (2, 1) /\ raw_index_to_coord exR 1 = Some (0, 1) /\
  raw_index_to_coord exR 2 = Some (1, 3) /\ raw_index_to_coord exR 3 = None /\
  index_to_coord OpsZ (decode exR) 0 = Some (2, 1).
Proof. repeat split; reflexivity. Qed.

(** is_triu looks at every stored entry: a sub-diagonal entry stored first in its column *)
Example ex_is_triu_unsorted :
  is_triu (mkCsc 2 2 [[(1, 2%Z); (0, 4%Z)]; [(1, 3%Z)]]) = false /\
  is_triu (mkCsc 3 3 [[(0, 4%Z)]; [(1, 5%Z); (0, 1%Z)]; [(2, 6%Z); (0, 2%Z); (1, 3%Z)]]) = true.
Proof. split; reflexivity. Qed.

(** missing diagonal: column 1 stores an entry above the diagonal but no diagonal entry (the
    C11-4 situation), column 2 is empty *)
Definition exM : @csc Z := mkCsc 3 3 [[(0, 4%Z)]; [(0, 7%Z)]; []].
Example exM_missing :
  Canonical exM /\ nr exM = nc exM /\ is_triu exM = true /\
  add_missing_diag OpsZ exM = mkCsc 3 3 [[(0, 4%Z)]; [(0, 7%Z); (1, 0%Z)]; [(2, 0%Z)]] /\
  count_missing_diag exM = 2 /\ count_diag_triu exM = 1.
Proof. repeat split; reflexivity. Qed.

(** round trips on a full symmetric matrix *)
Definition exS : @csc Z :=
  mkCsc 3 3 [[(0, 4%Z); (1, (-3)%Z)]; [(0, (-3)%Z); (1, 8%Z); (2, (-1)%Z)]; [(1, (-1)%Z); (2, 2%Z)]].
Example exS_roundtrip :
  Canonical exS /\ to_triu exS = exU /\ to_triu (to_triu exS) = to_triu exS /\
  sym_dense OpsZ exU = to_dense OpsZ exS /\ is_triu exS = false.
Proof. repeat split; reflexivity. Qed.
