(** Helper facts for the raw-format statements (check_format / decode / encode). *)
From Coq Require Import List Arith Lia Bool.
Import ListNotations.
Require Import Clarabel.Base.Ops Clarabel.Csc.Model Clarabel.Csc.Spec.
Require Import Clarabel.Csc.LemmasAlgBase.

Section ListsF.
Context {X : Type}.

Lemma in_firstn (l : list X) n x : In x (firstn n l) -> In x l.
Proof. intros H. rewrite <- (firstn_skipn n l). apply in_or_app. left; exact H. Qed.

Lemma in_skipn (l : list X) n x : In x (skipn n l) -> In x l.
Proof. intros H. rewrite <- (firstn_skipn n l). apply in_or_app. right; exact H. Qed.

Lemma in_slice (l : list X) a b x : In x (slice l a b) -> In x l.
Proof. unfold slice. intros H. apply in_firstn in H. apply in_skipn in H. exact H. Qed.

Lemma firstn_add_skipn (l : list X) a d :
  firstn a l ++ firstn d (skipn a l) = firstn (a + d) l.
Proof.
  revert l; induction a as [|a IH]; intros l; [reflexivity|].
  destruct l as [|x l].
  - cbn [skipn firstn app plus]. rewrite firstn_nil. reflexivity.
  - cbn [skipn firstn app plus]. f_equal. apply IH.
Qed.

Lemma firstn_slice (l : list X) a b :
  a <= b -> firstn a l ++ slice l a b = firstn b l.
Proof.
  intros Hab. unfold slice. rewrite firstn_add_skipn. f_equal. lia.
Qed.

Lemma slice_length (l : list X) a b :
  b <= length l -> length (slice l a b) = b - a.
Proof.
  intros Hb. unfold slice. rewrite firstn_length, skipn_length. lia.
Qed.

(** the slices cut out by a monotone pointer list starting at 0 tile a prefix *)
Lemma slices_concat (l : list X) (p : list nat) k :
  mono_le p = true -> nth 0 p 0 = 0 -> k < length p ->
  concat (map (fun j => slice l (nth j p 0) (nth (S j) p 0)) (seq 0 k)) =
  firstn (nth k p 0) l.
Proof.
  intros Hm H0. induction k as [|k IH]; intros Hk.
  - rewrite H0. reflexivity.
  - rewrite seq_S, map_app, concat_app. cbn [plus map concat].
    rewrite IH by lia. rewrite app_nil_r. apply firstn_slice.
    apply mono_le_step; auto.
Qed.

End ListsF.

Lemma combine_skipn {X Y} (l : list X) (l' : list Y) n :
  skipn n (combine l l') = combine (skipn n l) (skipn n l').
Proof.
  revert l l'; induction n as [|n IH]; intros l l'; [reflexivity|].
  destruct l as [|x l]; [reflexivity|].
  destruct l' as [|y l'].
  - cbn [combine skipn]. rewrite combine_nil. reflexivity.
  - cbn [combine skipn]. apply IH.
Qed.

Lemma combine_slice {X Y} (l : list X) (l' : list Y) a b :
  combine (slice l a b) (slice l' a b) = slice (combine l l') a b.
Proof. unfold slice. rewrite combine_skipn, combine_firstn. reflexivity. Qed.

Lemma map_fst_combine {X Y} (l : list X) (l' : list Y) :
  length l = length l' -> map fst (combine l l') = l.
Proof.
  revert l'; induction l as [|x l IH]; intros [|y l'] H; cbn [length] in H; try lia; auto.
  cbn [combine map fst]. f_equal. apply IH. lia.
Qed.

Lemma map_snd_combine {X Y} (l : list X) (l' : list Y) :
  length l = length l' -> map snd (combine l l') = l'.
Proof.
  revert l'; induction l as [|x l IH]; intros [|y l'] H; cbn [length] in H; try lia; auto.
  cbn [combine map snd]. f_equal. apply IH. lia.
Qed.

Lemma firstn_seq0 j n : j <= n -> firstn j (seq 0 n) = seq 0 j.
Proof.
  intros H. replace n with (j + (n - j)) by lia. rewrite seq_app.
  rewrite <- (seq_length j 0) at 1. rewrite <- (Nat.add_0_r (length (seq 0 j))).
  rewrite firstn_app_2. cbn [firstn]. apply app_nil_r.
Qed.

Lemma skipn_app_exact {X} (l1 l2 : list X) : skipn (length l1) (l1 ++ l2) = l2.
Proof. induction l1 as [|x l1 IH]; cbn [length skipn app]; auto. Qed.

Lemma combine_fst_snd {X Y} (l : list (X * Y)) : combine (map fst l) (map snd l) = l.
Proof.
  induction l as [|[x y] l IH]; cbn [map combine fst snd]; auto. rewrite IH; reflexivity.
Qed.

Lemma slice_map {X Y} (f : X -> Y) l a b : slice (map f l) a b = map f (slice l a b).
Proof. unfold slice. rewrite skipn_map, firstn_map. reflexivity. Qed.

Section Fmt.
Context {T : Type}.
Notation csc := (@csc T).
Notation col := (@col T).
Notation entry := (@entry T).
Notation raw := (@raw T).

Lemma colptr_from_length acc (cs : list col) : length (colptr_from acc cs) = S (length cs).
Proof.
  revert acc; induction cs as [|c cs IH]; intros acc; cbn [colptr_from length]; auto.
Qed.

Lemma colptr_from_nth acc (cs : list col) j :
  j <= length cs -> nth j (colptr_from acc cs) 0 = acc + length (concat (firstn j cs)).
Proof.
  revert acc j; induction cs as [|c cs IH]; intros acc j Hj; cbn [length] in Hj.
  - replace j with 0 by lia. cbn. lia.
  - destruct j as [|j].
    + cbn. lia.
    + cbn [colptr_from nth firstn concat]. rewrite IH by lia. rewrite app_length. lia.
Qed.

Lemma colptr_from_mono acc (cs : list col) : mono_le (colptr_from acc cs) = true.
Proof.
  revert acc; induction cs as [|c cs IH]; intros acc; [reflexivity|].
  cbn [colptr_from]. specialize (IH (acc + length c)).
  destruct cs as [|c' cs].
  - cbn [colptr_from mono_le]. rewrite andb_true_r. apply Nat.leb_le. lia.
  - cbn [colptr_from] in *.
    change (mono_le (acc :: acc + length c :: colptr_from (acc + length c + length c') cs))
      with ((acc <=? acc + length c)
            && mono_le (acc + length c :: colptr_from (acc + length c + length c') cs)).
    rewrite IH, andb_true_r. apply Nat.leb_le. lia.
Qed.

Lemma colptr_from_eq (cs : list col) acc (p : list nat) :
  length p = S (length cs) ->
  (forall j, j <= length cs -> nth j p 0 = acc + length (concat (firstn j cs))) ->
  colptr_from acc cs = p.
Proof.
  revert acc p; induction cs as [|c cs IH]; intros acc p Hl Hn.
  - destruct p as [|a [|b p]]; cbn [length] in Hl; try lia.
    specialize (Hn 0 (le_n _)). cbn in Hn. cbn. f_equal. lia.
  - destruct p as [|a p]; cbn [length] in Hl; [lia|].
    cbn [colptr_from]. f_equal.
    + specialize (Hn 0 (Nat.le_0_l _)). cbn in Hn. lia.
    + apply IH; [lia|]. intros j Hj.
      specialize (Hn (S j)). cbn [length nth firstn concat] in Hn.
      rewrite Hn by lia. rewrite app_length. lia.
Qed.

(** ** decode (encode A) = A *)
Lemma nth0_colptr_from acc (cs : list col) : nth 0 (colptr_from acc cs) 0 = acc.
Proof. destruct cs; reflexivity. Qed.

Lemma raw_cols_gen (cs : list col) acc (pre : list entry) :
  length pre = acc ->
  map (fun j => slice (pre ++ concat cs) (nth j (colptr_from acc cs) 0)
                      (nth (S j) (colptr_from acc cs) 0))
      (seq 0 (length cs)) = cs.
Proof.
  revert acc pre; induction cs as [|c cs IH]; intros acc pre Hpre; auto.
  cbn [length seq map concat colptr_from]. f_equal.
  - cbn [nth]. rewrite nth0_colptr_from. unfold slice. subst acc.
    rewrite skipn_app_exact.
    replace (length pre + length c - length pre) with (length c + 0) by lia.
    rewrite firstn_app_2. cbn [firstn]. apply app_nil_r.
  - rewrite <- seq_shift, map_map.
    etransitivity; [|apply (IH (acc + length c) (pre ++ c))].
    + apply map_ext. intros j. rewrite <- app_assoc. reflexivity.
    + rewrite app_length. lia.
Qed.

Lemma raw_col_encode (A : csc) j :
  raw_col (encode A) j =
  slice (concat (cols A)) (nth j (colptr_from 0 (cols A)) 0)
        (nth (S j) (colptr_from 0 (cols A)) 0).
Proof.
  unfold raw_col, encode. cbn [rcolptr rrowval rnzval].
  rewrite !slice_map. apply combine_fst_snd.
Qed.

Lemma raw_cols_encode (A : csc) : WellDim A -> raw_cols (encode A) = cols A.
Proof.
  intros HA. unfold raw_cols. change (rn (encode A)) with (nc A). rewrite <- HA.
  etransitivity; [|apply (raw_cols_gen (cols A) 0 [])]; auto.
  apply map_ext. intros j. apply raw_col_encode.
Qed.

(** ** the accepted raw encodings *)
Record RawOk (r : raw) : Prop := mkRawOk {
  ro_len : length (rrowval r) = length (rnzval r);
  ro_ptrlen : length (rcolptr r) = S (rn r);
  ro_last : nth (rn r) (rcolptr r) 0 = length (rrowval r);
  ro_first : nth 0 (rcolptr r) 0 = 0;
  ro_mono : mono_le (rcolptr r) = true;
  ro_sorted : forallb (fun c : list (nat * T) => strict_lt (map fst c)) (raw_cols r) = true;
  ro_rows : forallb (fun i => i <? rm r) (rrowval r) = true }.

Lemma check_format_ok_iff (r : raw) : check_format r = FmtOk <-> RawOk r.
Proof.
  unfold check_format, check_dimensions. split.
  - destruct (Nat.eqb_spec (length (rrowval r)) (length (rnzval r))) as [E1|E1];
      cbn [negb]; [|discriminate].
    destruct (Nat.eqb_spec (length (rcolptr r)) 0) as [E2|E2]; cbn [orb negb]; [discriminate|].
    destruct (Nat.eqb_spec (length (rcolptr r) - 1) (rn r)) as [E3|E3];
      cbn [orb negb]; [|discriminate].
    destruct (Nat.eqb_spec (nth (rn r) (rcolptr r) 0) (length (rrowval r))) as [E4|E4];
      cbn [orb negb]; [|discriminate].
    destruct (Nat.eqb_spec (nth 0 (rcolptr r) 0) 0) as [E5|E5]; cbn [negb]; [|discriminate].
    destruct (mono_le (rcolptr r)) eqn:E6; cbn [negb]; [|discriminate].
    match goal with |- context [forallb ?f (raw_cols r)] =>
      destruct (forallb f (raw_cols r)) eqn:E7 end;
      cbn [negb]; [|discriminate].
    match goal with |- context [forallb ?f (rrowval r)] =>
      destruct (forallb f (rrowval r)) eqn:E8 end; cbn [negb]; [|discriminate].
    intros _. constructor; auto. lia.
  - intros [E1 E2 E4 E5 E6 E7 E8].
    rewrite E1, Nat.eqb_refl. cbn [negb].
    rewrite E2. cbn [Nat.eqb]. replace (S (rn r) - 1) with (rn r) by lia.
    rewrite Nat.eqb_refl. cbn [orb negb].
    rewrite E4, E1, Nat.eqb_refl. cbn [negb].
    rewrite E5. cbn [Nat.eqb negb]. rewrite E6. cbn [negb].
    rewrite E7. cbn [negb]. rewrite E8. reflexivity.
Qed.

Lemma raw_cols_slices (r : raw) :
  raw_cols r =
  map (fun j => slice (combine (rrowval r) (rnzval r))
                      (nth j (rcolptr r) 0) (nth (S j) (rcolptr r) 0))
      (seq 0 (rn r)).
Proof.
  unfold raw_cols. apply map_ext. intros j. unfold raw_col. apply combine_slice.
Qed.

Lemma rawok_concat_firstn (r : raw) j :
  RawOk r -> j <= rn r ->
  concat (firstn j (raw_cols r)) =
  firstn (nth j (rcolptr r) 0) (combine (rrowval r) (rnzval r)).
Proof.
  intros [E1 E2 E4 E5 E6 E7 E8] Hj.
  rewrite raw_cols_slices, firstn_map, firstn_seq0 by exact Hj.
  apply slices_concat; auto. lia.
Qed.

Lemma rawok_concat (r : raw) :
  RawOk r -> concat (raw_cols r) = combine (rrowval r) (rnzval r).
Proof.
  intros H. pose proof (rawok_concat_firstn r (rn r) H (le_n _)) as Hc.
  rewrite firstn_all2 in Hc by (unfold raw_cols; rewrite map_length, seq_length; lia).
  rewrite Hc. destruct H as [E1 E2 E4 E5 E6 E7 E8]. rewrite E4.
  apply firstn_all2. rewrite combine_length. lia.
Qed.

Lemma rawok_encode_decode (r : raw) : RawOk r -> r = encode (decode r).
Proof.
  intros H. pose proof H as [E1 E2 E4 E5 E6 E7 E8].
  unfold encode, decode. cbn [nr nc cols].
  rewrite (rawok_concat r H).
  rewrite map_fst_combine, map_snd_combine by exact E1.
  rewrite (colptr_from_eq (raw_cols r) 0 (rcolptr r)).
  - destruct r; reflexivity.
  - unfold raw_cols. rewrite map_length, seq_length. exact E2.
  - intros j Hj. unfold raw_cols in Hj. rewrite map_length, seq_length in Hj.
    rewrite (rawok_concat_firstn r j H Hj).
    rewrite firstn_length, combine_length, <- E1, Nat.min_id, <- E4.
    pose proof (mono_le_nth (rcolptr r) j (rn r) E6 Hj ltac:(lia)). lia.
Qed.

Lemma rawok_canonical (r : raw) : RawOk r -> canonicalb (decode r) = true.
Proof.
  intros [E1 E2 E4 E5 E6 E7 E8]. unfold canonicalb, decode. cbn [nr nc cols].
  apply andb_true_iff. split.
  - apply Nat.eqb_eq. unfold raw_cols. rewrite map_length, seq_length. reflexivity.
  - apply forallb_forall. intros c Hc. unfold col_canonb. apply andb_true_iff. split.
    + rewrite forallb_forall in E7. auto.
    + apply forallb_forall. intros e He.
      rewrite forallb_forall in E8. apply E8.
      unfold raw_cols in Hc. apply in_map_iff in Hc. destruct Hc as [j [<- _]].
      unfold raw_col in He. destruct e as [i v]. apply in_combine_l in He.
      apply in_slice in He. exact He.
Qed.

Lemma encode_rawok (A : csc) : canonicalb A = true -> RawOk (encode A).
Proof.
  intros Hc. unfold canonicalb in Hc. apply andb_true_iff in Hc. destruct Hc as [Hl Hc].
  apply Nat.eqb_eq in Hl. rewrite forallb_forall in Hc.
  assert (Hcols : raw_cols (encode A) = cols A) by (apply raw_cols_encode; exact Hl).
  constructor.
  - unfold encode. cbn [rrowval rnzval]. rewrite !map_length. reflexivity.
  - unfold encode. cbn [rcolptr rn]. rewrite colptr_from_length. lia.
  - unfold encode. cbn [rcolptr rn rrowval]. rewrite <- Hl.
    rewrite colptr_from_nth by lia. rewrite firstn_all, map_length. reflexivity.
  - unfold encode. cbn [rcolptr]. rewrite colptr_from_nth by lia. reflexivity.
  - unfold encode. cbn [rcolptr]. apply colptr_from_mono.
  - rewrite Hcols. apply forallb_forall. intros c Hin. specialize (Hc c Hin).
    unfold col_canonb in Hc. apply andb_true_iff in Hc. tauto.
  - unfold encode. cbn [rrowval rm]. apply forallb_forall. intros i Hi.
    apply in_map_iff in Hi. destruct Hi as [e [<- He]].
    apply in_concat in He. destruct He as [c [Hin He]]. specialize (Hc c Hin).
    unfold col_canonb in Hc. apply andb_true_iff in Hc. destruct Hc as [_ Hc].
    rewrite forallb_forall in Hc. auto.
Qed.

End Fmt.
