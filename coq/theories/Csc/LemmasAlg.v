(** Proofs of the algebraic / value-level C16 statements of Csc/Spec.v (concatenation,
    value maps, gemv/symv/quad_form, sums) and of the raw-format statements
    (check_format, decode/encode). *)
From Coq Require Import List Arith Lia Bool Sorted Permutation Ring.
Import ListNotations.
Require Import Clarabel.Base.Ops Clarabel.Csc.Model Clarabel.Csc.Spec.
Require Import Clarabel.Csc.LemmasAlgBase Clarabel.Csc.LemmasAlgFmt.

(** * Canonical form helpers (no ring) *)
Section Canon.
Context {T : Type}.
Notation csc := (@csc T).
Notation col := (@col T).
Notation entry := (@entry T).

Lemma canonicalb_iff (A : csc) :
  canonicalb A = true <->
  length (cols A) = nc A /\ forall c, In c (cols A) -> col_canonb (nr A) c = true.
Proof.
  unfold canonicalb. rewrite andb_true_iff, Nat.eqb_eq, forallb_forall. reflexivity.
Qed.

Lemma col_canonb_iff m (c : col) :
  col_canonb m c = true <->
  strict_lt (map fst c) = true /\ forall e, In e c -> fst e < m.
Proof.
  unfold col_canonb. rewrite andb_true_iff, forallb_forall.
  split; intros [H1 H2]; split; auto; intros e He.
  - apply Nat.ltb_lt. auto.
  - apply Nat.ltb_lt. auto.
Qed.

Lemma col_canonb_app_shift m k (ca cb : col) :
  col_canonb m ca = true -> col_canonb k cb = true ->
  col_canonb (m + k) (ca ++ shift_rows m cb) = true.
Proof.
  intros Ha Hb. apply col_canonb_iff in Ha. apply col_canonb_iff in Hb.
  destruct Ha as [Sa Ra], Hb as [Sb Rb]. apply col_canonb_iff. split.
  - rewrite map_app. unfold shift_rows. rewrite map_map. cbn [fst].
    apply (strict_lt_app _ _ m); auto.
    + rewrite <- (map_map fst (fun x => m + x)). rewrite strict_lt_map_add. exact Sb.
    + intros x Hx. apply in_map_iff in Hx. destruct Hx as [e [<- He]]. auto.
    + intros y Hy. apply in_map_iff in Hy. destruct Hy as [e [<- He]]. lia.
  - intros e He. apply in_app_or in He. destruct He as [He|He].
    + specialize (Ra e He). lia.
    + unfold shift_rows in He. apply in_map_iff in He. destruct He as [e' [<- He']].
      cbn [fst]. specialize (Rb e' He'). lia.
Qed.

Lemma col_canonb_weaken m m' (c : col) :
  col_canonb m c = true -> m <= m' -> col_canonb m' c = true.
Proof.
  intros H Hm. apply col_canonb_iff in H. destruct H as [S R]. apply col_canonb_iff.
  split; auto. intros e He. specialize (R e He). lia.
Qed.

Lemma col_canonb_shift m k (cb : col) :
  col_canonb k cb = true -> col_canonb (m + k) (shift_rows m cb) = true.
Proof.
  intros H. apply (col_canonb_app_shift m k [] cb); auto.
Qed.

Lemma nth_zipcols (a b : list col) k j :
  length a = length b ->
  nth j (zipcols a b k) [] = nth j a [] ++ shift_rows k (nth j b []).
Proof.
  revert b j; induction a as [|ca a IH]; intros [|cb b] j Hl; cbn [length] in Hl; try lia.
  - destruct j; reflexivity.
  - cbn [zipcols]. destruct j as [|j]; cbn [nth]; auto.
Qed.

Lemma zipcols_length (a b : list col) k :
  length a = length b -> length (zipcols a b k) = length a.
Proof.
  revert b; induction a as [|ca a IH]; intros [|cb b] Hl; cbn [length] in Hl; try lia; auto.
  cbn [zipcols length]. f_equal. apply IH. lia.
Qed.

Lemma in_zipcols (a b : list col) k c :
  In c (zipcols a b k) ->
  exists ca cb, In ca a /\ In cb b /\ c = ca ++ shift_rows k cb.
Proof.
  revert b; induction a as [|ca a IH]; intros [|cb b] H; cbn [zipcols] in H; try contradiction.
  destruct H as [<-|H].
  - exists ca, cb. repeat split; left; reflexivity.
  - destruct (IH b H) as [ca' [cb' [H1 [H2 H3]]]].
    exists ca', cb'. repeat split; auto; right; auto.
Qed.

Lemma rowsin_nth (A : csc) j e :
  RowsIn A -> In e (nth j (cols A) []) -> fst e < nr A.
Proof.
  intros HR He. unfold RowsIn in HR. rewrite Forall_forall in HR.
  destruct (Nat.lt_ge_cases j (length (cols A))) as [Hj|Hj].
  - specialize (HR _ (nth_In _ [] Hj)). rewrite Forall_forall in HR. auto.
  - rewrite nth_overflow in He by lia. contradiction.
Qed.

Lemma rowsin_in (A : csc) c e : RowsIn A -> In c (cols A) -> In e c -> fst e < nr A.
Proof.
  intros HR Hc He. unfold RowsIn in HR. rewrite Forall_forall in HR.
  specialize (HR c Hc). rewrite Forall_forall in HR. auto.
Qed.

Lemma forallb_map_gen {X Y} (P : Y -> bool) (g : X -> Y) l :
  forallb P (map g l) = forallb (fun x => P (g x)) l.
Proof. induction l as [|x l IH]; cbn [map forallb]; auto. rewrite IH; reflexivity. Qed.

Lemma canonicalb_map_vals (f : nat -> nat -> T -> T) (A : csc) :
  canonicalb (map_vals f A) = canonicalb A.
Proof.
  unfold canonicalb, map_vals. cbn [nr nc cols].
  rewrite map_length, indexed_length. f_equal.
  apply forallb_map_indexed. intros j c. cbn [fst snd].
  unfold col_canonb. rewrite map_map, forallb_map_gen. cbn [fst]. reflexivity.
Qed.

(** ** hvcat special cases *)
Lemma hvcat_special_aux (A B : csc) :
  hvcat [[A; B]] = hcat A B /\ hvcat [[A]; [B]] = vcat A B.
Proof.
  destruct A as [ma na ca], B as [mb nb cb]. split.
  - unfold hvcat, hcat, hvcat_dim_ok. cbn. rewrite (Nat.eqb_sym mb ma).
    destruct (ma =? mb); reflexivity.
  - unfold hvcat, vcat, hvcat_dim_ok. cbn. rewrite (Nat.eqb_sym nb na).
    destruct (na =? nb); reflexivity.
Qed.

Lemma decode_encode_aux (A : csc) : WellDim A -> decode (encode A) = A.
Proof.
  intros HA. unfold decode. rewrite raw_cols_encode by exact HA.
  destruct A; reflexivity.
Qed.

(** ** check_format *)
Lemma check_format_iff_aux (r : @raw T) :
  check_format r = FmtOk <-> exists A : csc, Canonical A /\ r = encode A.
Proof.
  rewrite check_format_ok_iff. split.
  - intros H. exists (decode r). split.
    + apply rawok_canonical; exact H.
    + apply rawok_encode_decode; exact H.
  - intros [A [HA ->]]. apply encode_rawok. exact HA.
Qed.

Lemma check_format_errors_aux (r : @raw T) :
  (check_format r = IncompatibleDimension <->
     (length (rrowval r) <> length (rnzval r) \/ length (rcolptr r) <> S (rn r)
      \/ nth (rn r) (rcolptr r) 0 <> length (rrowval r))) /\
  (check_format r = BadColptr ->
     nth 0 (rcolptr r) 0 <> 0 \/ mono_le (rcolptr r) = false).
Proof.
  unfold check_format, check_dimensions.
  destruct (Nat.eqb_spec (length (rrowval r)) (length (rnzval r))) as [E1|E1]; cbn [negb].
  2:{ split; [split; auto | discriminate]. }
  destruct (Nat.eqb_spec (length (rcolptr r)) 0) as [E2|E2]; cbn [orb negb].
  { split; [split; auto; intros _; right; left; lia | discriminate]. }
  destruct (Nat.eqb_spec (length (rcolptr r) - 1) (rn r)) as [E3|E3]; cbn [orb negb].
  2:{ split; [split; auto; intros _; right; left; lia | discriminate]. }
  destruct (Nat.eqb_spec (nth (rn r) (rcolptr r) 0) (length (rrowval r))) as [E4|E4];
    cbn [orb negb].
  2:{ split; [split; auto | discriminate]. }
  assert (Hno : ~ (length (rrowval r) <> length (rnzval r) \/ length (rcolptr r) <> S (rn r)
      \/ nth (rn r) (rcolptr r) 0 <> length (rrowval r))).
  { intros [H|[H|H]]; try contradiction. lia. }
  destruct (Nat.eqb_spec (nth 0 (rcolptr r) 0) 0) as [E5|E5]; cbn [negb].
  2:{ split; [split; [discriminate | intros H; contradiction] | auto]. }
  destruct (mono_le (rcolptr r)) eqn:E6; cbn [negb].
  2:{ split; [split; [discriminate | intros H; contradiction] | auto]. }
  match goal with |- context [forallb ?f (raw_cols r)] =>
    destruct (forallb f (raw_cols r)) end; cbn [negb].
  2:{ split; [split; [discriminate | intros H; contradiction] | discriminate]. }
  match goal with |- context [forallb ?f (rrowval r)] =>
    destruct (forallb f (rrowval r)) end; cbn [negb].
  - split; [split; [discriminate | intros H; contradiction] | discriminate].
  - split; [split; [discriminate | intros H; contradiction] | discriminate].
Qed.

End Canon.

(** * Ring-dependent statements *)
Section Alg.
Context {T : Type} (O : Ops T).
Hypothesis RT : ring_theory (zero O) (one O) (add O) (mul O) (sub O) (neg O) (@eq T).
Add Ring TringA : RT.

Notation "'oz'" := (zero O).
Notation "a [+] b" := (add O a b) (at level 50, left associativity).
Notation "a [*] b" := (mul O a b) (at level 40, left associativity).
Notation sumT := (sumT O).
Notation colget := (colget O).
Notation get := (get O).
Notation csc := (@csc T).
Notation col := (@col T).
Notation entry := (@entry T).

Lemma hcat_aux (A B : csc) : WellDim A -> WellDim B ->
  (hcat A B = None <-> nr A <> nr B) /\
  forall C, hcat A B = Some C ->
    nr C = nr A /\ nc C = nc A + nc B /\
    (forall i j, get C i j = if j <? nc A then get A i j else get B i (j - nc A)) /\
    (Canonical A -> Canonical B -> Canonical C).
Proof.
  intros HA HB. unfold WellDim in HA, HB. unfold hcat.
  destruct (Nat.eqb_spec (nr A) (nr B)) as [E|E].
  - split. { split; [discriminate | intros; contradiction]. }
    intros C HC. injection HC as <-. cbn [nr nc cols].
    split; [reflexivity|]. split; [reflexivity|]. split.
    + intros i j. unfold Model.get. cbn [cols]. destruct (Nat.ltb_spec j (nc A)) as [Hj|Hj].
      * rewrite app_nth1 by lia. reflexivity.
      * rewrite app_nth2 by lia. rewrite HA. reflexivity.
    + unfold Canonical. intros HcA HcB.
      apply canonicalb_iff in HcA. apply canonicalb_iff in HcB. apply canonicalb_iff.
      cbn [nr nc cols]. destruct HcA as [_ HcA], HcB as [_ HcB]. split.
      * rewrite app_length. lia.
      * intros c Hc. apply in_app_or in Hc. destruct Hc as [Hc|Hc]; auto.
        rewrite E. auto.
  - split. { split; auto. } intros C HC; discriminate.
Qed.

Lemma colget_vstack (ca cb : col) k i :
  (forall e, In e ca -> fst e < k) ->
  colget (ca ++ shift_rows k cb) i = if i <? k then colget ca i else colget cb (i - k).
Proof.
  intros Hk. rewrite colget_app by exact RT. rewrite colget_shift.
  destruct (Nat.ltb_spec i k) as [Hi|Hi].
  - ring.
  - rewrite (colget_zero O ca i).
    + ring.
    + intros e He. specialize (Hk e He). lia.
Qed.

Lemma vcat_aux (A B : csc) : WellDim A -> WellDim B -> RowsIn A ->
  (vcat A B = None <-> nc A <> nc B) /\
  forall C, vcat A B = Some C ->
    nr C = nr A + nr B /\ nc C = nc A /\
    (forall i j, get C i j = if i <? nr A then get A i j else get B (i - nr A) j) /\
    (Canonical A -> Canonical B -> Canonical C).
Proof.
  intros HA HB HR. unfold WellDim in HA, HB. unfold vcat.
  destruct (Nat.eqb_spec (nc A) (nc B)) as [E|E].
  - split. { split; [discriminate | intros; contradiction]. }
    intros C HC. injection HC as <-. cbn [nr nc cols].
    assert (Hl : length (cols A) = length (cols B)) by lia.
    split; [reflexivity|]. split; [reflexivity|]. split.
    + intros i j. unfold Model.get. cbn [cols]. rewrite nth_zipcols by exact Hl.
      apply colget_vstack. intros e He. eapply rowsin_nth; eauto.
    + unfold Canonical. intros HcA HcB.
      apply canonicalb_iff in HcA. apply canonicalb_iff in HcB. apply canonicalb_iff.
      cbn [nr nc cols]. destruct HcA as [_ HcA], HcB as [_ HcB]. split.
      * rewrite zipcols_length by exact Hl. exact HA.
      * intros c Hc. apply in_zipcols in Hc. destruct Hc as [ca [cb [H1 [H2 ->]]]].
        apply col_canonb_app_shift; auto.
  - split. { split; auto. } intros C HC; discriminate.
Qed.

Lemma blockdiag2_aux (A B : csc) : WellDim A -> WellDim B -> RowsIn A ->
  let C := blockdiag2 A B in
  (forall i j, get C i j =
     if j <? nc A then (if i <? nr A then get A i j else oz)
     else (if i <? nr A then oz else get B (i - nr A) (j - nc A))) /\
  (Canonical A -> Canonical B -> Canonical C).
Proof.
  intros HA HB HR C. subst C. unfold WellDim in HA, HB. split.
  - intros i j. unfold Model.get, blockdiag2. cbn [cols].
    destruct (Nat.ltb_spec j (nc A)) as [Hj|Hj].
    + rewrite app_nth1 by lia.
      destruct (Nat.ltb_spec i (nr A)) as [Hi|Hi]; auto.
      apply colget_zero. intros e He.
      pose proof (rowsin_nth A j e HR He). lia.
    + rewrite app_nth2 by lia. rewrite HA.
      change (@nil entry) with (shift_rows (nr A) (@nil entry)) at 1.
      rewrite map_nth. rewrite colget_shift. reflexivity.
  - unfold Canonical. intros HcA HcB.
    apply canonicalb_iff in HcA. apply canonicalb_iff in HcB. apply canonicalb_iff.
    unfold blockdiag2. cbn [nr nc cols]. destruct HcA as [_ HcA], HcB as [_ HcB]. split.
    + rewrite app_length, map_length. lia.
    + intros c Hc. apply in_app_or in Hc. destruct Hc as [Hc|Hc].
      * apply (col_canonb_weaken (nr A)); auto. lia.
      * apply in_map_iff in Hc. destruct Hc as [cb [<- Hcb]].
        apply col_canonb_shift; auto.
Qed.

(** ** map_vals *)
Lemma get_map_vals (f : nat -> nat -> T -> T) (A : csc) i j :
  get (map_vals f A) i j =
  sumT (map (f i j) (map snd (filter (fun e => fst e =? i) (nth j (cols A) [])))).
Proof.
  unfold Model.get, map_vals. cbn [cols].
  destruct (Nat.lt_ge_cases j (length (cols A))) as [Hj|Hj].
  - rewrite (nth_map_indexed _ (cols A) j []) by exact Hj. cbn [fst snd].
    apply (colget_mapv O (fun r v => f r j v)).
  - rewrite nth_map_indexed_over by exact Hj.
    rewrite (nth_overflow (cols A)) by exact Hj. reflexivity.
Qed.

Lemma map_vals_aux (A : csc) (l r : list T) (c : T) : WellDim A ->
  (forall i j, get (scale O A c) i j = get A i j [*] c) /\
  (forall i j, get (negate O A) i j = neg O (get A i j)) /\
  (forall i j, get (lscale O A l) i j = get A i j [*] nth i l oz) /\
  (forall i j, get (rscale O A r) i j = get A i j [*] nth j r oz) /\
  (forall i j, get (lrscale O A l r) i j = get A i j [*] (nth i l oz [*] nth j r oz)) /\
  canonicalb (scale O A c) = canonicalb A /\ canonicalb (negate O A) = canonicalb A /\
  canonicalb (lscale O A l) = canonicalb A /\ canonicalb (rscale O A r) = canonicalb A /\
  canonicalb (lrscale O A l r) = canonicalb A.
Proof.
  intros _. unfold scale, negate, lscale, rscale, lrscale.
  repeat split; try apply canonicalb_map_vals; intros i j; rewrite get_map_vals.
  - rewrite (sumT_map_mul_r O RT c (fun v => v)). rewrite map_id. reflexivity.
  - rewrite (sumT_map_neg O RT (fun v => v)). rewrite map_id. reflexivity.
  - rewrite (sumT_map_mul_r O RT _ (fun v => v)). rewrite map_id. reflexivity.
  - rewrite (sumT_map_mul_r O RT _ (fun v => v)). rewrite map_id. reflexivity.
  - rewrite (sumT_map_mul_r O RT _ (fun v => v)). rewrite map_id. reflexivity.
Qed.

(** ** sums *)
Lemma sumT_cols_get (A : csc) i :
  WellDim A ->
  sumT (map (fun c => colget c i) (cols A)) = sum_upto O (nc A) (fun j => get A i j).
Proof.
  intros HA. unfold WellDim in HA. unfold sum_upto, Model.get. rewrite <- HA.
  rewrite <- (map_nth_seq (cols A) []) at 1. rewrite map_map. reflexivity.
Qed.

Lemma sums_aux (A : csc) : WellDim A -> RowsIn A ->
  (forall j, j < nc A -> nth j (col_sums O A) oz = sum_upto O (nr A) (fun i => get A i j)) /\
  (forall i, i < nr A -> nth i (row_sums O A) oz = sum_upto O (nc A) (fun j => get A i j)).
Proof.
  intros HA HR. split.
  - intros j Hj. unfold col_sums.
    transitivity (sumT (map snd (nth j (cols A) []))).
    { apply (map_nth (fun c : col => sumT (map snd c)) (cols A) [] j). }
    unfold Model.get. apply sumT_colget; [exact RT|].
    intros e He. eapply rowsin_nth; eauto.
  - intros i Hi. unfold row_sums.
    change (fold_left (fun (s : list T) (e : nat * T) => upd O s (fst e) (fun t => t [+] snd e))
              (concat (cols A)) (repeat oz (nr A)))
      with (apply_upds O (concat (cols A)) (repeat oz (nr A))).
    destruct (apply_upds_spec O RT (concat (cols A)) (repeat oz (nr A))) as [_ Hn].
    { intros u Hu. rewrite repeat_length. apply in_concat in Hu.
      destruct Hu as [c [Hc Hu]]. eapply rowsin_in; eauto. }
    rewrite Hn, nth_repeat, colget_concat by exact RT.
    rewrite sumT_cols_get by exact HA. ring.
Qed.

(** ** gemv_T *)
Lemma sumT_map_lin a k (l : list T) :
  sumT (map (fun v => a [*] v [*] k) l) = a [*] (sumT l [*] k).
Proof.
  induction l as [|v l IH]; cbn [map].
  - change (sumT []) with oz. ring.
  - rewrite !sumT_cons, IH. ring.
Qed.

Lemma gemv_T_aux (A : csc) (x y : list T) (a b : T) :
  WellDim A -> RowsIn A -> length y = nc A ->
  length (gemv_T O A x y a b) = nc A /\
  forall j, j < nc A ->
    nth j (gemv_T O A x y a b) oz =
    b [*] nth j y oz [+] a [*] sum_upto O (nr A) (fun i => get A i j [*] nth i x oz).
Proof.
  intros HA HR Hy. unfold gemv_T. split.
  - rewrite map_length, indexed_length. exact Hy.
  - intros j Hj. rewrite (nth_map_indexed _ y j oz) by lia. cbn [fst snd].
    rewrite (fold_left_add O RT (fun e : nat * T => a [*] snd e [*] nth (fst e) x oz)).
    f_equal.
    transitivity (a [*] sumT (map (fun e : nat * T => snd e [*] nth (fst e) x oz)
                                  (nth j (cols A) []))).
    { rewrite <- sumT_map_mul_l by exact RT. apply sumT_map_ext. intros e _. ring. }
    f_equal. unfold Model.get. apply sumT_rowweight; [exact RT|].
    intros e He. eapply rowsin_nth; eauto.
Qed.

(** ** gemv *)
Definition gemv_upds (a : T) (x : list T) (jc : nat * col) : col :=
  map (fun e => (fst e, a [*] snd e [*] nth (fst jc) x oz)) (snd jc).

Lemma gemv_as_upds (A : csc) x y a b :
  gemv O A x y a b =
  apply_upds O (flat_map (gemv_upds a x) (indexed (cols A))) (map (fun t => b [*] t) y).
Proof.
  unfold gemv. rewrite <- apply_upds_flat. apply fold_left_ext. intros y' jc _.
  unfold gemv_upds, apply_upds. rewrite fold_left_map. reflexivity.
Qed.

Lemma colget_gemv_upds a x j (c : col) i :
  colget (gemv_upds a x (j, c)) i = a [*] (colget c i [*] nth j x oz).
Proof.
  unfold gemv_upds. cbn [fst snd].
  rewrite (colget_mapv O (fun _ v => a [*] v [*] nth j x oz)).
  apply sumT_map_lin.
Qed.

Lemma nth_map_scale b (y : list T) i :
  i < length y -> nth i (map (fun t => b [*] t) y) oz = b [*] nth i y oz.
Proof.
  intros Hi. rewrite (nth_indep _ oz (b [*] oz)) by (rewrite map_length; exact Hi).
  apply (map_nth (fun t => b [*] t)).
Qed.

Lemma gemv_aux (A : csc) (x y : list T) (a b : T) :
  WellDim A -> RowsIn A -> length y = nr A ->
  length (gemv O A x y a b) = nr A /\
  forall i, i < nr A ->
    nth i (gemv O A x y a b) oz =
    b [*] nth i y oz [+] a [*] sum_upto O (nc A) (fun j => get A i j [*] nth j x oz).
Proof.
  intros HA HR Hy. rewrite gemv_as_upds.
  destruct (apply_upds_spec O RT (flat_map (gemv_upds a x) (indexed (cols A)))
              (map (fun t => b [*] t) y)) as [Hl Hn].
  { intros u Hu. rewrite map_length, Hy. apply in_flat_map in Hu.
    destruct Hu as [[j c] [Hjc Hu]]. apply in_indexed in Hjc. destruct Hjc as [_ Hc].
    unfold gemv_upds in Hu. cbn [fst snd] in Hu. apply in_map_iff in Hu.
    destruct Hu as [e [<- He]]. cbn [fst]. eapply rowsin_in; eauto. }
  split.
  - rewrite Hl, map_length. exact Hy.
  - intros i Hi. rewrite Hn. rewrite nth_map_scale by lia. f_equal.
    rewrite colget_flat_map by exact RT. rewrite (sumT_indexed O _ (cols A) []).
    unfold WellDim in HA. rewrite HA. rewrite <- sum_upto_mul_l by exact RT.
    apply sum_upto_ext. intros j _. apply colget_gemv_upds.
Qed.

End Alg.

(** * The statements *)
Lemma hcat_ok {T} (O : Ops T) : stmt_hcat O.
Proof. intros [RT _] A B. apply hcat_aux. Qed.

Lemma vcat_ok {T} (O : Ops T) : stmt_vcat O.
Proof. intros [RT _] A B. apply vcat_aux. exact RT. Qed.

Lemma blockdiag2_ok {T} (O : Ops T) : stmt_blockdiag2 O.
Proof. intros [RT _] A B. apply blockdiag2_aux. Qed.

Lemma hvcat_special_ok {T} : stmt_hvcat_special (T:=T).
Proof. intros A B. apply hvcat_special_aux. Qed.

Lemma map_vals_ok {T} (O : Ops T) : stmt_map_vals O.
Proof. intros [RT _] A l r c. apply map_vals_aux. exact RT. Qed.

Lemma decode_encode_ok {T} : stmt_decode_encode (T:=T).
Proof. intros A. apply decode_encode_aux. Qed.

Lemma sums_ok {T} (O : Ops T) : stmt_sums O.
Proof. intros [RT _] A. apply sums_aux; exact RT. Qed.

Lemma gemv_T_ok {T} (O : Ops T) : stmt_gemv_T O.
Proof. intros [RT _] A x y a b. apply gemv_T_aux; exact RT. Qed.

Lemma gemv_ok {T} (O : Ops T) : stmt_gemv O.
Proof. intros [RT _] A x y a b. apply gemv_aux; exact RT. Qed.

Lemma check_format_iff_ok {T} : stmt_check_format_iff (T:=T).
Proof. intros r. apply check_format_iff_aux. Qed.

Lemma check_format_errors_ok {T} : stmt_check_format_errors (T:=T).
Proof. intros r. apply check_format_errors_aux. Qed.

Print Assumptions hcat_ok.
Print Assumptions vcat_ok.
Print Assumptions blockdiag2_ok.
Print Assumptions hvcat_special_ok.
Print Assumptions map_vals_ok.
Print Assumptions decode_encode_ok.
Print Assumptions check_format_iff_ok.
Print Assumptions check_format_errors_ok.
Print Assumptions sums_ok.
Print Assumptions gemv_T_ok.
Print Assumptions gemv_ok.
