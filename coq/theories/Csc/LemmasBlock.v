(** Proofs of the block-construction C16 statements of Csc/Spec.v: zeros, identity, the
    general block-diagonal concatenation, the hvcat dimension check and dense meaning, and
    the offsets-cover fact. *)
From Coq Require Import List Arith Lia Bool Sorted Permutation Ring.
Import ListNotations.
Require Import Clarabel.Base.Ops Clarabel.Csc.Model Clarabel.Csc.Spec.
Require Import Clarabel.Csc.LemmasAlgBase Clarabel.Csc.LemmasAlg.

(** * Pure list facts *)
Lemma list_sum_cons a l : list_sum (a :: l) = a + list_sum l.
Proof. reflexivity. Qed.

Lemma nth_map_lt {X Y} (f : X -> Y) (l : list X) p (dx : X) (dy : Y) :
  p < length l -> nth p (map f l) dy = f (nth p l dx).
Proof.
  intros Hp. rewrite (nth_indep _ dy (f dx)) by (rewrite map_length; exact Hp).
  apply map_nth.
Qed.

Lemma in_firstn {X} (l : list X) p x : In x (firstn p l) -> In x l.
Proof.
  revert p; induction l as [|a l IH]; intros [|p] H; cbn [firstn] in H; try contradiction.
  destruct H as [H|H]; [left; exact H | right; eapply IH; exact H].
Qed.

Lemma hd_in {X} (l : list X) d : l <> [] -> In (hd d l) l.
Proof. destruct l as [|a l]; intros H; [contradiction | left; reflexivity]. Qed.

Lemma nth0_hd {X} (l : list X) d : nth 0 l d = hd d l.
Proof. destruct l; reflexivity. Qed.

Lemma firstn_map_comm {X Y} (f : X -> Y) (l : list X) n :
  firstn n (map f l) = map f (firstn n l).
Proof.
  revert n; induction l as [|a l IH]; intros [|n]; cbn [firstn map]; auto.
  rewrite IH; reflexivity.
Qed.

Lemma offsets_cover_aux (l : list nat) :
  forall i, i < list_sum l ->
    exists p i', p < length l /\ i' < nth p l 0 /\ i = list_sum (firstn p l) + i'.
Proof.
  induction l as [|a l IH]; intros i Hi.
  - cbn in Hi. lia.
  - rewrite list_sum_cons in Hi. destruct (Nat.lt_ge_cases i a) as [Hlt|Hge].
    + exists 0, i. cbn [length nth firstn]. split; [lia|]. split; [exact Hlt|].
      reflexivity.
    + destruct (IH (i - a)) as [p [i' [Hp [Hi' Heq]]]]; [lia|].
      exists (S p), i'. cbn [length nth firstn]. rewrite list_sum_cons.
      split; [lia|]. split; [exact Hi'|]. lia.
Qed.

(** * Ring-independent facts about the model *)
Section Shapes.
Context {T : Type}.
Notation csc := (@csc T).
Notation col := (@col T).
Notation entry := (@entry T).
Notation E := (@mkCsc T 0 0 []).

Lemma canonical_welldim (A : csc) : Canonical A -> WellDim A.
Proof.
  unfold Canonical, WellDim. intros H. apply canonicalb_iff in H. destruct H as [H _]. exact H.
Qed.

Lemma canonical_rowsin (A : csc) : Canonical A -> RowsIn A.
Proof.
  unfold Canonical, RowsIn. intros H. apply canonicalb_iff in H. destruct H as [_ H].
  apply Forall_forall. intros c Hc. specialize (H c Hc). apply col_canonb_iff in H.
  destruct H as [_ H]. apply Forall_forall. exact H.
Qed.

Lemma forall_canonical_welldim (l : list csc) : Forall Canonical l -> Forall WellDim l.
Proof. intros H. eapply Forall_impl; [|exact H]. apply canonical_welldim. Qed.

Lemma forall_canonical_rowsin (l : list csc) : Forall Canonical l -> Forall RowsIn l.
Proof. intros H. eapply Forall_impl; [|exact H]. apply canonical_rowsin. Qed.

Lemma bd2_welldim (A B : csc) : WellDim A -> WellDim B -> WellDim (blockdiag2 A B).
Proof.
  unfold WellDim, blockdiag2. cbn [cols nc]. intros HA HB.
  rewrite app_length, map_length. lia.
Qed.

Lemma shift_rows_bound k m (c : col) :
  Forall (fun e : entry => fst e < m) c ->
  Forall (fun e : entry => fst e < k + m) (shift_rows k c).
Proof.
  intros H. rewrite Forall_forall in H. apply Forall_forall. intros e He.
  unfold shift_rows in He. apply in_map_iff in He. destruct He as [e' [<- He']].
  cbn [fst]. specialize (H e' He'). lia.
Qed.

Lemma col_bound_weaken m m' (c : col) :
  m <= m' -> Forall (fun e : entry => fst e < m) c -> Forall (fun e : entry => fst e < m') c.
Proof.
  intros Hm H. eapply Forall_impl; [|exact H]. intros e He. cbn beta in He. lia.
Qed.

Lemma bd2_rowsin (A B : csc) : RowsIn A -> RowsIn B -> RowsIn (blockdiag2 A B).
Proof.
  unfold RowsIn, blockdiag2. cbn [nr cols]. intros HA HB. apply Forall_app. split.
  - eapply Forall_impl; [|exact HA]. intros c Hc. apply (col_bound_weaken (nr A)); [lia|exact Hc].
  - rewrite Forall_forall in HB. apply Forall_forall. intros c Hc.
    apply in_map_iff in Hc. destruct Hc as [cb [<- Hcb]].
    apply shift_rows_bound. apply HB. exact Hcb.
Qed.

(** ** the hvcat dimension check *)
Definition row_ok (r : list csc) : bool :=
  match r with
  | [] => true
  | b0 :: bs => forallb (fun b => nr b =? nr b0) bs
  end.

Lemma row_ok_iff (r : list csc) :
  row_ok r = true <-> forall q, q < length r -> nr (nth q r E) = nr (nth 0 r E).
Proof.
  destruct r as [|b0 bs]; cbn [row_ok].
  - split; auto. intros _ q Hq. cbn in Hq. lia.
  - rewrite forallb_forall. split.
    + intros H [|q] Hq; [reflexivity|]. cbn [length] in Hq. cbn [nth].
      apply Nat.eqb_eq. apply H. apply nth_In. lia.
    + intros H b Hb. apply Nat.eqb_eq.
      destruct (In_nth bs b E Hb) as [q [Hq <-]].
      apply (H (S q)). cbn [length]. lia.
Qed.

Definition HvIn (r0 : list csc) (rest : list (list csc)) : Prop :=
  r0 <> [] /\
  (forall r, In r rest -> length r = length r0) /\
  (forall r, In r (r0 :: rest) -> forall q, q < length r -> nr (nth q r E) = nr (nth 0 r E)) /\
  (forall k, k < length r0 -> forall r, In r rest -> nc (nth k r E) = nc (nth k r0 E)).

Lemma dim_ok_iff_in (r0 : list csc) (rest : list (list csc)) :
  hvcat_dim_ok (r0 :: rest) = true <-> HvIn r0 rest.
Proof.
  unfold hvcat_dim_ok, HvIn.
  change (fun r : list csc => match r with
                              | [] => true
                              | b0 :: bs => forallb (fun b => nr b =? nr b0) bs
                              end) with row_ok.
  rewrite !andb_true_iff, negb_true_iff, Nat.eqb_neq, !forallb_forall.
  split.
  - intros [[[H1 H2] H3] H4]. split; [|split; [|split]].
    + intros ->. apply H1. reflexivity.
    + intros r Hr. apply Nat.eqb_eq. apply H2. exact Hr.
    + intros r Hr. apply row_ok_iff. apply H3. exact Hr.
    + intros k Hk r Hr. specialize (H4 k). rewrite forallb_forall in H4.
      apply Nat.eqb_eq. apply H4; [apply in_seq; lia | exact Hr].
  - intros [H1 [H2 [H3 H4]]]. split; [split; [split|]|].
    + intros Hl. apply H1. destruct r0; [reflexivity | cbn in Hl; lia].
    + intros r Hr. apply Nat.eqb_eq. apply H2. exact Hr.
    + intros r Hr. apply row_ok_iff. apply H3. exact Hr.
    + intros k Hk. apply in_seq in Hk. apply forallb_forall. intros r Hr.
      apply Nat.eqb_eq. apply H4; [lia | exact Hr].
Qed.

Lemma hvin_iff_shapes (r0 : list csc) (rest : list (list csc)) :
  HvIn r0 rest <-> HvShapesOk (r0 :: rest).
Proof.
  unfold HvIn, HvShapesOk, blk, empty_csc. cbn [hd]. split.
  - intros [H1 [H2 [H3 H4]]].
    assert (HL : forall p, p < length (r0 :: rest) -> length (nth p (r0 :: rest) []) = length r0).
    { intros [|p] Hp; [reflexivity|]. cbn [length] in Hp. cbn [nth].
      apply H2. apply nth_In. lia. }
    split; [discriminate|]. split; [exact H1|]. split; [exact HL|]. split.
    + intros p q Hp Hq. apply H3.
      * apply nth_In. exact Hp.
      * rewrite HL by exact Hp. exact Hq.
    + intros [|p] q Hp Hq; [reflexivity|]. cbn [length] in Hp. cbn [nth].
      apply H4; [exact Hq|]. apply nth_In. lia.
  - intros [_ [H1 [H2 [H3 H4]]]]. split; [exact H1|]. split; [|split].
    + intros r Hr. destruct (In_nth rest r [] Hr) as [p [Hp <-]].
      apply (H2 (S p)). cbn [length]. lia.
    + intros r Hr q Hq. destruct (In_nth (r0 :: rest) r [] Hr) as [p [Hp Heq]].
      subst r. apply H3; [exact Hp|]. rewrite <- (H2 p Hp). exact Hq.
    + intros k Hk r Hr. destruct (In_nth rest r [] Hr) as [p [Hp <-]].
      apply (H4 (S p) k); [cbn [length]; lia | exact Hk].
Qed.

Lemma hvcat_dim_ok_iff (ms : list (list csc)) : hvcat_dim_ok ms = true <-> HvShapesOk ms.
Proof.
  destruct ms as [|r0 rest].
  - cbn [hvcat_dim_ok]. split; [discriminate|]. intros [H _]. contradiction.
  - rewrite dim_ok_iff_in. apply hvin_iff_shapes.
Qed.

Lemma hvcat_dim_check_aux (ms : list (list csc)) :
  (hvcat_dim_ok ms = true <-> HvShapesOk ms) /\ (hvcat ms = None <-> ~ HvShapesOk ms).
Proof.
  split; [apply hvcat_dim_ok_iff|].
  unfold hvcat. destruct (hvcat_dim_ok ms) eqn:Hd.
  - apply hvcat_dim_ok_iff in Hd. destruct ms as [|r0 rest].
    + destruct Hd as [Hd _]. contradiction.
    + split; [discriminate | intros H; contradiction].
  - split; [|reflexivity]. intros _ H. apply hvcat_dim_ok_iff in H. congruence.
Qed.

End Shapes.

(** * Ring-dependent statements *)
Section Block.
Context {T : Type} (O : Ops T).
Hypothesis RT : ring_theory (zero O) (one O) (add O) (mul O) (sub O) (neg O) (@eq T).
Add Ring TringB : RT.

Notation "'oz'" := (zero O).
Notation "a [+] b" := (add O a b) (at level 50, left associativity).
Notation "a [*] b" := (mul O a b) (at level 40, left associativity).
Notation colget := (colget O).
Notation get := (get O).
Notation csc := (@csc T).
Notation col := (@col T).
Notation entry := (@entry T).
Notation E := (@mkCsc T 0 0 []).

Lemma get_col_over (A : csc) i j : WellDim A -> nc A <= j -> get A i j = oz.
Proof.
  unfold WellDim. intros HA Hj. unfold Model.get. rewrite nth_overflow by lia. reflexivity.
Qed.

Lemma get_row_over (A : csc) i j : RowsIn A -> nr A <= i -> get A i j = oz.
Proof.
  intros HR Hi. unfold Model.get. apply colget_zero. intros e He.
  pose proof (rowsin_nth A j e HR He) as Hlt. lia.
Qed.

(** ** zeros / identity *)
Lemma zeros_aux (m n : nat) :
  let Z : csc := zeros m n in
  Canonical Z /\ nr Z = m /\ nc Z = n /\ forall i j, get Z i j = oz.
Proof.
  intros Z. subst Z. unfold zeros. cbn [nr nc]. split; [|split; [reflexivity|split; [reflexivity|]]].
  - unfold Canonical. apply canonicalb_iff. cbn [nr nc cols]. split.
    + apply repeat_length.
    + intros c Hc. apply repeat_spec in Hc. subst c. reflexivity.
  - intros i j. unfold Model.get. cbn [cols]. rewrite nth_repeat. reflexivity.
Qed.

Lemma identity_aux (n : nat) :
  Canonical (identity O n) /\ nr (identity O n) = n /\ nc (identity O n) = n /\
  forall i j, get (identity O n) i j = if (i =? j) && (j <? n) then one O else oz.
Proof.
  unfold identity. cbn [nr nc]. split; [|split; [reflexivity|split; [reflexivity|]]].
  - unfold Canonical. apply canonicalb_iff. cbn [nr nc cols]. split.
    + rewrite map_length, seq_length. reflexivity.
    + intros c Hc. apply in_map_iff in Hc. destruct Hc as [j [<- Hj]]. apply in_seq in Hj.
      apply col_canonb_iff. split; [reflexivity|].
      intros e [<-|[]]. cbn [fst]. lia.
  - intros i j. unfold Model.get. cbn [cols]. destruct (Nat.ltb_spec j n) as [Hj|Hj].
    + rewrite nth_map_seq by exact Hj. rewrite colget_cons, colget_nil. cbn [fst snd].
      destruct (Nat.eqb_spec j i) as [Hji|Hji], (Nat.eqb_spec i j) as [Hij|Hij];
        try lia; cbn [andb]; [ring | reflexivity].
    + rewrite nth_overflow by (rewrite map_length, seq_length; exact Hj).
      rewrite andb_false_r. reflexivity.
Qed.

(** ** blockdiag *)
Lemma bd_get_cons (B : csc) (r : list csc) i j :
  bd_get O (B :: r) i j =
  if j <? nc B then (if i <? nr B then get B i j else oz)
  else (if i <? nr B then oz else bd_get O r (i - nr B) (j - nc B)).
Proof. reflexivity. Qed.

Lemma bd_fold (ms : list csc) :
  forall acc : csc, WellDim acc -> RowsIn acc -> Forall WellDim ms -> Forall RowsIn ms ->
    let C := fold_left blockdiag2 ms acc in
    WellDim C /\ RowsIn C /\
    nr C = nr acc + list_sum (map nr ms) /\ nc C = nc acc + list_sum (map nc ms) /\
    (forall i j, get C i j =
       if j <? nc acc then (if i <? nr acc then get acc i j else oz)
       else (if i <? nr acc then oz else bd_get O ms (i - nr acc) (j - nc acc))) /\
    (Canonical acc -> Forall Canonical ms -> Canonical C).
Proof.
  induction ms as [|B r IH]; intros acc HWa HRa HW HR C; subst C; cbn [fold_left].
  - split; [exact HWa|]. split; [exact HRa|]. cbn [map list_sum fold_right].
    split; [lia|]. split; [lia|]. split.
    + intros i j. cbn [bd_get].
      destruct (Nat.ltb_spec j (nc acc)) as [Hj|Hj], (Nat.ltb_spec i (nr acc)) as [Hi|Hi];
        try reflexivity.
      * apply get_row_over; assumption.
      * apply get_col_over; assumption.
      * apply get_col_over; assumption.
    + intros Hc _. exact Hc.
  - pose proof (Forall_inv HW) as HWB. pose proof (Forall_inv_tail HW) as HWr.
    pose proof (Forall_inv HR) as HRB. pose proof (Forall_inv_tail HR) as HRr.
    destruct (blockdiag2_aux O acc B HWa HWB HRa) as [Hg2 Hc2].
    destruct (IH (blockdiag2 acc B) (bd2_welldim acc B HWa HWB) (bd2_rowsin acc B HRa HRB)
                 HWr HRr) as [IW [IR [Inr [Inc [Ig Ic]]]]].
    change (nr (blockdiag2 acc B)) with (nr acc + nr B) in *.
    change (nc (blockdiag2 acc B)) with (nc acc + nc B) in *.
    split; [exact IW|]. split; [exact IR|]. cbn [map]. rewrite !list_sum_cons.
    split; [lia|]. split; [lia|]. split.
    + intros i j. rewrite Ig, Hg2, bd_get_cons.
      replace (i - (nr acc + nr B)) with (i - nr acc - nr B) by lia.
      replace (j - (nc acc + nc B)) with (j - nc acc - nc B) by lia.
      destruct (Nat.ltb_spec j (nc acc + nc B)), (Nat.ltb_spec i (nr acc + nr B)),
        (Nat.ltb_spec j (nc acc)), (Nat.ltb_spec i (nr acc)),
        (Nat.ltb_spec (j - nc acc) (nc B)), (Nat.ltb_spec (i - nr acc) (nr B));
        try lia; reflexivity.
    + intros Hca Hcm. apply Ic.
      * apply Hc2; [exact Hca | exact (Forall_inv Hcm)].
      * exact (Forall_inv_tail Hcm).
Qed.

Lemma blockdiag_aux (ms : list csc) : Forall WellDim ms -> Forall RowsIn ms ->
  (blockdiag ms = None <-> ms = []) /\
  forall C, blockdiag ms = Some C ->
    nr C = list_sum (map nr ms) /\ nc C = list_sum (map nc ms) /\
    (forall i j, get C i j = bd_get O ms i j) /\
    (Forall Canonical ms -> Canonical C).
Proof.
  intros HW HR. destruct ms as [|B r].
  - split; [split; reflexivity|]. intros C HC. discriminate.
  - split; [split; discriminate|]. intros C HC. unfold blockdiag in HC. injection HC as <-.
    assert (HW0 : WellDim E) by reflexivity.
    assert (HR0 : RowsIn E) by (unfold RowsIn; cbn [cols]; constructor).
    destruct (bd_fold (B :: r) E HW0 HR0 HW HR) as [_ [_ [Inr [Inc [Ig Ic]]]]].
    cbn [nr nc] in Inr, Inc, Ig.
    split; [exact Inr|]. split; [exact Inc|]. split.
    + intros i j. rewrite Ig.
      destruct (Nat.ltb_spec j 0) as [Hj|Hj]; [lia|].
      destruct (Nat.ltb_spec i 0) as [Hi|Hi]; [lia|].
      rewrite !Nat.sub_0_r. reflexivity.
    + intros Hc. apply Ic; [reflexivity | exact Hc].
Qed.

(** ** blockdiag, block by block *)
Lemma bd_roff_S (B : csc) (r : list csc) k : bd_roff (B :: r) (S k) = nr B + bd_roff r k.
Proof. reflexivity. Qed.
Lemma bd_coff_S (B : csc) (r : list csc) k : bd_coff (B :: r) (S k) = nc B + bd_coff r k.
Proof. reflexivity. Qed.
Lemma bd_roff_0 (ms : list csc) : bd_roff ms 0 = 0.
Proof. reflexivity. Qed.
Lemma bd_coff_0 (ms : list csc) : bd_coff ms 0 = 0.
Proof. reflexivity. Qed.

Lemma bd_diag (ms : list csc) :
  forall k i j, k < length ms -> i < nr (nth k ms E) -> j < nc (nth k ms E) ->
    bd_get O ms (bd_roff ms k + i) (bd_coff ms k + j) = get (nth k ms E) i j.
Proof.
  induction ms as [|B r IH]; intros k i j Hk Hi Hj; cbn [length] in Hk; [lia|].
  rewrite bd_get_cons. destruct k as [|k].
  - rewrite bd_roff_0, bd_coff_0. cbn [nth plus] in *.
    destruct (Nat.ltb_spec j (nc B)); [|lia]. destruct (Nat.ltb_spec i (nr B)); [|lia].
    reflexivity.
  - rewrite bd_roff_S, bd_coff_S. cbn [nth] in *.
    destruct (Nat.ltb_spec (nc B + bd_coff r k + j) (nc B)); [lia|].
    destruct (Nat.ltb_spec (nr B + bd_roff r k + i) (nr B)); [lia|].
    replace (nr B + bd_roff r k + i - nr B) with (bd_roff r k + i) by lia.
    replace (nc B + bd_coff r k + j - nc B) with (bd_coff r k + j) by lia.
    apply IH; [lia | exact Hi | exact Hj].
Qed.

Lemma bd_off (ms : list csc) :
  forall k k' i j', k < length ms -> k' < length ms -> k' <> k ->
    i < nr (nth k ms E) -> j' < nc (nth k' ms E) ->
    bd_get O ms (bd_roff ms k + i) (bd_coff ms k' + j') = oz.
Proof.
  induction ms as [|B r IH]; intros k k' i j' Hk Hk' Hne Hi Hj; cbn [length] in Hk, Hk'; [lia|].
  rewrite bd_get_cons. destruct k as [|k]; destruct k' as [|k']; [lia| | |].
  - rewrite bd_roff_0, bd_coff_S. cbn [nth plus] in *.
    destruct (Nat.ltb_spec (nc B + bd_coff r k' + j') (nc B)); [lia|].
    destruct (Nat.ltb_spec i (nr B)); [|lia]. reflexivity.
  - rewrite bd_roff_S, bd_coff_0. cbn [nth plus] in *.
    destruct (Nat.ltb_spec j' (nc B)); [|lia].
    destruct (Nat.ltb_spec (nr B + bd_roff r k + i) (nr B)); [lia|]. reflexivity.
  - rewrite bd_roff_S, bd_coff_S. cbn [nth] in *.
    destruct (Nat.ltb_spec (nc B + bd_coff r k' + j') (nc B)); [lia|].
    destruct (Nat.ltb_spec (nr B + bd_roff r k + i) (nr B)); [lia|].
    replace (nr B + bd_roff r k + i - nr B) with (bd_roff r k + i) by lia.
    replace (nc B + bd_coff r k' + j' - nc B) with (bd_coff r k' + j') by lia.
    apply IH; [lia | lia | lia | exact Hi | exact Hj].
Qed.

(** ** hvcat: folds of vertical / horizontal steps *)
Definition vstep (acc b : csc) : csc :=
  mkCsc (nr acc + nr b) (nc acc) (zipcols (cols acc) (cols b) (nr acc)).
Definition hstep (acc b : csc) : csc :=
  mkCsc (nr acc) (nc acc + nc b) (cols acc ++ cols b).

Fixpoint vget (bs : list csc) (i j : nat) : T :=
  match bs with
  | [] => oz
  | B :: r => if i <? nr B then get B i j else vget r (i - nr B) j
  end.
Fixpoint hget (bs : list csc) (i j : nat) : T :=
  match bs with
  | [] => oz
  | B :: r => if j <? nc B then get B i j else hget r i (j - nc B)
  end.

Lemma vget_cons (B : csc) r i j :
  vget (B :: r) i j = if i <? nr B then get B i j else vget r (i - nr B) j.
Proof. reflexivity. Qed.
Lemma hget_cons (B : csc) r i j :
  hget (B :: r) i j = if j <? nc B then get B i j else hget r i (j - nc B).
Proof. reflexivity. Qed.

Lemma vstep_welldim (A B : csc) : WellDim A -> WellDim B -> nc B = nc A -> WellDim (vstep A B).
Proof.
  unfold WellDim, vstep. cbn [cols nc]. intros HA HB Hn.
  rewrite zipcols_length by lia. exact HA.
Qed.

Lemma vstep_rowsin (A B : csc) : RowsIn A -> RowsIn B -> RowsIn (vstep A B).
Proof.
  unfold RowsIn, vstep. cbn [nr cols]. intros HA HB.
  rewrite Forall_forall in HA, HB. apply Forall_forall. intros c Hc.
  apply in_zipcols in Hc. destruct Hc as [ca [cb [Ha [Hb ->]]]].
  apply Forall_app. split.
  - apply (col_bound_weaken (nr A)); [lia|]. apply HA. exact Ha.
  - apply shift_rows_bound. apply HB. exact Hb.
Qed.

Lemma vcat_vstep (A B : csc) : nc B = nc A -> vcat A B = Some (vstep A B).
Proof. intros Hn. unfold vcat, vstep. rewrite Hn, Nat.eqb_refl. reflexivity. Qed.

Lemma hstep_welldim (A B : csc) : WellDim A -> WellDim B -> WellDim (hstep A B).
Proof.
  unfold WellDim, hstep. cbn [cols nc]. intros HA HB. rewrite app_length. lia.
Qed.

Lemma hstep_rowsin (A B : csc) : RowsIn A -> RowsIn B -> nr B = nr A -> RowsIn (hstep A B).
Proof.
  unfold RowsIn, hstep. cbn [nr cols]. intros HA HB Hn. apply Forall_app. split; [exact HA|].
  rewrite <- Hn. exact HB.
Qed.

Lemma hcat_hstep (A B : csc) : nr B = nr A -> hcat A B = Some (hstep A B).
Proof. intros Hn. unfold hcat, hstep. rewrite Hn, Nat.eqb_refl. reflexivity. Qed.

Lemma vfold (bs : list csc) :
  forall acc : csc, WellDim acc -> RowsIn acc -> Forall WellDim bs -> Forall RowsIn bs ->
    (forall b, In b bs -> nc b = nc acc) ->
    let C := fold_left vstep bs acc in
    WellDim C /\ RowsIn C /\
    nr C = nr acc + list_sum (map nr bs) /\ nc C = nc acc /\
    (forall i j, get C i j = if i <? nr acc then get acc i j else vget bs (i - nr acc) j) /\
    (Canonical acc -> Forall Canonical bs -> Canonical C).
Proof.
  induction bs as [|B r IH]; intros acc HWa HRa HW HR Hnc C; subst C; cbn [fold_left].
  - split; [exact HWa|]. split; [exact HRa|]. cbn [map list_sum fold_right].
    split; [lia|]. split; [reflexivity|]. split.
    + intros i j. cbn [vget]. destruct (Nat.ltb_spec i (nr acc)) as [Hi|Hi]; [reflexivity|].
      apply get_row_over; assumption.
    + intros Hc _. exact Hc.
  - pose proof (Forall_inv HW) as HWB. pose proof (Forall_inv_tail HW) as HWr.
    pose proof (Forall_inv HR) as HRB. pose proof (Forall_inv_tail HR) as HRr.
    assert (HnB : nc B = nc acc) by (apply Hnc; left; reflexivity).
    destruct (vcat_aux O RT acc B HWa HWB HRa) as [_ Hv].
    destruct (Hv (vstep acc B) (vcat_vstep acc B HnB)) as [_ [_ [Hg2 Hc2]]].
    destruct (IH (vstep acc B) (vstep_welldim acc B HWa HWB HnB) (vstep_rowsin acc B HRa HRB)
                 HWr HRr) as [IW [IR [Inr [Inc [Ig Ic]]]]].
    { intros b Hb. change (nc (vstep acc B)) with (nc acc). apply Hnc. right. exact Hb. }
    change (nr (vstep acc B)) with (nr acc + nr B) in *.
    change (nc (vstep acc B)) with (nc acc) in *.
    split; [exact IW|]. split; [exact IR|]. cbn [map]. rewrite !list_sum_cons.
    split; [lia|]. split; [exact Inc|]. split.
    + intros i j. rewrite Ig, Hg2, vget_cons.
      replace (i - (nr acc + nr B)) with (i - nr acc - nr B) by lia.
      destruct (Nat.ltb_spec i (nr acc + nr B)), (Nat.ltb_spec i (nr acc)),
        (Nat.ltb_spec (i - nr acc) (nr B)); try lia; reflexivity.
    + intros Hca Hcm. apply Ic.
      * apply Hc2; [exact Hca | exact (Forall_inv Hcm)].
      * exact (Forall_inv_tail Hcm).
Qed.

Lemma hfold (bs : list csc) :
  forall acc : csc, WellDim acc -> RowsIn acc -> Forall WellDim bs -> Forall RowsIn bs ->
    (forall b, In b bs -> nr b = nr acc) ->
    let C := fold_left hstep bs acc in
    WellDim C /\ RowsIn C /\
    nr C = nr acc /\ nc C = nc acc + list_sum (map nc bs) /\
    (forall i j, get C i j = if j <? nc acc then get acc i j else hget bs i (j - nc acc)) /\
    (Canonical acc -> Forall Canonical bs -> Canonical C).
Proof.
  induction bs as [|B r IH]; intros acc HWa HRa HW HR Hnr C; subst C; cbn [fold_left].
  - split; [exact HWa|]. split; [exact HRa|]. cbn [map list_sum fold_right].
    split; [reflexivity|]. split; [lia|]. split.
    + intros i j. cbn [hget]. destruct (Nat.ltb_spec j (nc acc)) as [Hj|Hj]; [reflexivity|].
      apply get_col_over; assumption.
    + intros Hc _. exact Hc.
  - pose proof (Forall_inv HW) as HWB. pose proof (Forall_inv_tail HW) as HWr.
    pose proof (Forall_inv HR) as HRB. pose proof (Forall_inv_tail HR) as HRr.
    assert (HnB : nr B = nr acc) by (apply Hnr; left; reflexivity).
    destruct (hcat_aux O acc B HWa HWB) as [_ Hh].
    destruct (Hh (hstep acc B) (hcat_hstep acc B HnB)) as [_ [_ [Hg2 Hc2]]].
    destruct (IH (hstep acc B) (hstep_welldim acc B HWa HWB) (hstep_rowsin acc B HRa HRB HnB)
                 HWr HRr) as [IW [IR [Inr [Inc [Ig Ic]]]]].
    { intros b Hb. change (nr (hstep acc B)) with (nr acc). apply Hnr. right. exact Hb. }
    change (nr (hstep acc B)) with (nr acc) in *.
    change (nc (hstep acc B)) with (nc acc + nc B) in *.
    split; [exact IW|]. split; [exact IR|]. cbn [map]. rewrite !list_sum_cons.
    split; [exact Inr|]. split; [lia|]. split.
    + intros i j. rewrite Ig, Hg2, hget_cons.
      replace (j - (nc acc + nc B)) with (j - nc acc - nc B) by lia.
      destruct (Nat.ltb_spec j (nc acc + nc B)), (Nat.ltb_spec j (nc acc)),
        (Nat.ltb_spec (j - nc acc) (nc B)); try lia; reflexivity.
    + intros Hca Hcm. apply Ic.
      * apply Hc2; [exact Hca | exact (Forall_inv Hcm)].
      * exact (Forall_inv_tail Hcm).
Qed.

Lemma vcat_list_spec (bs : list csc) :
  bs <> [] -> Forall WellDim bs -> Forall RowsIn bs ->
  (forall b, In b bs -> nc b = nc (hd E bs)) ->
  let C := vcat_list bs in
  WellDim C /\ RowsIn C /\ nr C = list_sum (map nr bs) /\ nc C = nc (hd E bs) /\
  (forall i j, get C i j = vget bs i j) /\
  (Forall Canonical bs -> Canonical C).
Proof.
  destruct bs as [|b0 r]; intros Hne HW HR Hnc C; [contradiction|]. subst C. cbn [hd] in *.
  change (vcat_list (b0 :: r)) with (fold_left vstep r b0).
  destruct (vfold r b0 (Forall_inv HW) (Forall_inv HR) (Forall_inv_tail HW) (Forall_inv_tail HR))
    as [IW [IR [Inr [Inc [Ig Ic]]]]].
  { intros b Hb. apply Hnc. right. exact Hb. }
  split; [exact IW|]. split; [exact IR|]. cbn [map]. rewrite list_sum_cons.
  split; [exact Inr|]. split; [exact Inc|]. split.
  - intros i j. rewrite Ig, vget_cons. reflexivity.
  - intros Hc. apply Ic; [exact (Forall_inv Hc) | exact (Forall_inv_tail Hc)].
Qed.

Lemma hcat_list_spec (bs : list csc) :
  bs <> [] -> Forall WellDim bs -> Forall RowsIn bs ->
  (forall b, In b bs -> nr b = nr (hd E bs)) ->
  let C := hcat_list bs in
  WellDim C /\ RowsIn C /\ nr C = nr (hd E bs) /\ nc C = list_sum (map nc bs) /\
  (forall i j, get C i j = hget bs i j) /\
  (Forall Canonical bs -> Canonical C).
Proof.
  destruct bs as [|b0 r]; intros Hne HW HR Hnr C; [contradiction|]. subst C. cbn [hd] in *.
  change (hcat_list (b0 :: r)) with (fold_left hstep r b0).
  destruct (hfold r b0 (Forall_inv HW) (Forall_inv HR) (Forall_inv_tail HW) (Forall_inv_tail HR))
    as [IW [IR [Inr [Inc [Ig Ic]]]]].
  { intros b Hb. apply Hnr. right. exact Hb. }
  split; [exact IW|]. split; [exact IR|]. cbn [map]. rewrite list_sum_cons.
  split; [exact Inr|]. split; [exact Inc|]. split.
  - intros i j. rewrite Ig, hget_cons. reflexivity.
  - intros Hc. apply Ic; [exact (Forall_inv Hc) | exact (Forall_inv_tail Hc)].
Qed.

Lemma vget_off (bs : list csc) :
  forall p i j, p < length bs -> i < nr (nth p bs E) ->
    vget bs (list_sum (map nr (firstn p bs)) + i) j = get (nth p bs E) i j.
Proof.
  induction bs as [|B r IH]; intros p i j Hp Hi; cbn [length] in Hp; [lia|].
  rewrite vget_cons. destruct p as [|p]; cbn [firstn map nth] in *.
  - cbn [list_sum fold_right plus]. destruct (Nat.ltb_spec i (nr B)); [reflexivity | lia].
  - rewrite list_sum_cons.
    destruct (Nat.ltb_spec (nr B + list_sum (map nr (firstn p r)) + i) (nr B)); [lia|].
    replace (nr B + list_sum (map nr (firstn p r)) + i - nr B)
      with (list_sum (map nr (firstn p r)) + i) by lia.
    apply IH; [lia | exact Hi].
Qed.

Lemma hget_off (bs : list csc) :
  forall q i j, q < length bs -> j < nc (nth q bs E) ->
    hget bs i (list_sum (map nc (firstn q bs)) + j) = get (nth q bs E) i j.
Proof.
  induction bs as [|B r IH]; intros q i j Hq Hj; cbn [length] in Hq; [lia|].
  rewrite hget_cons. destruct q as [|q]; cbn [firstn map nth] in *.
  - cbn [list_sum fold_right plus]. destruct (Nat.ltb_spec j (nc B)); [reflexivity | lia].
  - rewrite list_sum_cons.
    destruct (Nat.ltb_spec (nc B + list_sum (map nc (firstn q r)) + j) (nc B)); [lia|].
    replace (nc B + list_sum (map nc (firstn q r)) + j - nc B)
      with (list_sum (map nc (firstn q r)) + j) by lia.
    apply IH; [lia | exact Hj].
Qed.

(** ** hvcat: assembling the block columns *)
Lemma hd_map {X Y} (f : X -> Y) (l : list X) dx dy : l <> [] -> hd dy (map f l) = f (hd dx l).
Proof. destruct l as [|a l]; intros H; [contradiction | reflexivity]. Qed.

Lemma col_forall (P : csc -> Prop) (ms : list (list csc)) k w :
  (forall r, In r ms -> length r = w) -> k < w -> Forall (Forall P) ms ->
  Forall P (map (fun r => nth k r E) ms).
Proof.
  intros HL Hk HP. rewrite Forall_forall in HP. apply Forall_forall. intros b Hb.
  apply in_map_iff in Hb. destruct Hb as [r [<- Hr]].
  specialize (HP r Hr). rewrite Forall_forall in HP. apply HP. apply nth_In.
  rewrite (HL r Hr). exact Hk.
Qed.

Lemma hvcat_core (ms : list (list csc)) :
  HvShapesOk ms -> Forall (Forall WellDim) ms -> Forall (Forall RowsIn) ms ->
  forall C : csc,
  C = hcat_list (map (fun k => vcat_list (map (fun r => nth k r E) ms))
                     (seq 0 (length (hd [] ms)))) ->
  nr C = hv_roff ms (length ms) /\ nc C = hv_coff ms (length (hd [] ms)) /\
  (forall p q i j, p < length ms -> q < length (hd [] ms) ->
     i < nr (blk ms p q) -> j < nc (blk ms p q) ->
     get C (hv_roff ms p + i) (hv_coff ms q + j) = get (blk ms p q) i j) /\
  (Forall (Forall Canonical) ms -> Canonical C).
Proof.
  intros [Hne [Hne0 [HL0 [HR0 HC0]]]] HW HR C HCeq.
  unfold blk, empty_csc in *.
  remember (hd [] ms) as r0 eqn:Hr0.
  remember (length r0) as w eqn:Hw.
  assert (Hwpos : 0 < w).
  { subst w. destruct r0; [contradiction | cbn [length]; lia]. }
  assert (HL : forall r, In r ms -> length r = w).
  { intros r Hr. destruct (In_nth ms r [] Hr) as [p [Hp <-]]. apply HL0. exact Hp. }
  assert (HRr : forall r, In r ms -> forall q, q < w -> nr (nth q r E) = nr (hd E r)).
  { intros r Hr q Hq. destruct (In_nth ms r [] Hr) as [p [Hp <-]].
    rewrite <- nth0_hd. apply HR0; assumption. }
  assert (HCc : forall r, In r ms -> forall q, q < w -> nc (nth q r E) = nc (nth q r0 E)).
  { intros r Hr q Hq. destruct (In_nth ms r [] Hr) as [p [Hp <-]].
    rewrite (HC0 p q Hp Hq). rewrite nth0_hd, <- Hr0. reflexivity. }
  clear HL0 HR0 HC0.
  pose (colk := fun k : nat => map (fun r : list csc => nth k r E) ms).
  pose (V := fun k : nat => vcat_list (colk k)).
  pose (R := list_sum (map (fun r : list csc => nr (hd E r)) ms)).
  assert (HV : forall k, k < w ->
            WellDim (V k) /\ RowsIn (V k) /\ nr (V k) = R /\ nc (V k) = nc (nth k r0 E) /\
            (forall i j, get (V k) i j = vget (colk k) i j) /\
            (Forall (Forall Canonical) ms -> Canonical (V k))).
  { intros k Hk.
    assert (Hhd : hd E (colk k) = nth k r0 E).
    { unfold colk. rewrite (hd_map _ ms [] E Hne). rewrite <- Hr0. reflexivity. }
    destruct (vcat_list_spec (colk k)) as [VW [VR [Vnr [Vnc [Vg Vc]]]]].
    - unfold colk. destruct ms; [contradiction | discriminate].
    - apply (col_forall WellDim ms k w HL Hk HW).
    - apply (col_forall RowsIn ms k w HL Hk HR).
    - intros b Hb. rewrite Hhd. unfold colk in Hb. apply in_map_iff in Hb.
      destruct Hb as [r [<- Hr]]. apply HCc; assumption.
    - split; [exact VW|]. split; [exact VR|]. split; [|split; [|split]].
      + fold (V k) in Vnr. rewrite Vnr. unfold colk, R. rewrite map_map. f_equal.
        apply map_ext_in. intros r Hr. apply HRr; assumption.
      + fold (V k) in Vnc. rewrite Vnc, Hhd. reflexivity.
      + exact Vg.
      + intros Hc. apply Vc. apply (col_forall Canonical ms k w HL Hk Hc). }
  pose (Vs := map V (seq 0 w)).
  assert (HVs : forall b, In b Vs -> exists k, k < w /\ b = V k).
  { intros b Hb. unfold Vs in Hb. apply in_map_iff in Hb. destruct Hb as [k [<- Hk]].
    apply in_seq in Hk. exists k. split; [lia | reflexivity]. }
  assert (HVsne : Vs <> []).
  { unfold Vs. destruct w; [lia|]. cbn [seq map]. discriminate. }
  assert (HVslen : length Vs = w).
  { unfold Vs. rewrite map_length, seq_length. reflexivity. }
  assert (HncVs : map nc Vs = map nc r0).
  { unfold Vs. rewrite map_map.
    transitivity (map (fun k => nc (nth k r0 E)) (seq 0 w)).
    - apply map_ext_in. intros k Hk. apply in_seq in Hk. apply HV. lia.
    - rewrite <- (map_map (fun k => nth k r0 E) nc). rewrite Hw, map_nth_seq. reflexivity. }
  assert (HCVs : C = hcat_list Vs) by exact HCeq.
  destruct (hcat_list_spec Vs HVsne) as [CW [CR [Cnr [Cnc [Cg Cc]]]]].
  { apply Forall_forall. intros b Hb. destruct (HVs b Hb) as [k [Hk ->]]. apply HV. exact Hk. }
  { apply Forall_forall. intros b Hb. destruct (HVs b Hb) as [k [Hk ->]]. apply HV. exact Hk. }
  { intros b Hb. destruct (HVs b Hb) as [k [Hk ->]].
    destruct (HVs _ (hd_in Vs E HVsne)) as [k0 [Hk0 ->]].
    destruct (HV k Hk) as [_ [_ [-> _]]]. destruct (HV k0 Hk0) as [_ [_ [-> _]]]. reflexivity. }
  rewrite <- HCVs in *.
  split; [|split; [|split]].
  - rewrite Cnr. destruct (HVs _ (hd_in Vs E HVsne)) as [k0 [Hk0 ->]].
    destruct (HV k0 Hk0) as [_ [_ [-> _]]]. unfold R, hv_roff. rewrite firstn_all. reflexivity.
  - rewrite Cnc, HncVs. unfold hv_coff. rewrite <- Hr0, Hw, firstn_all. reflexivity.
  - intros p q i j Hp Hq Hi Hj.
    assert (Hrin : In (nth p ms []) ms) by (apply nth_In; exact Hp).
    assert (Hco : hv_coff ms q = list_sum (map nc (firstn q Vs))).
    { unfold hv_coff. rewrite <- Hr0. rewrite <- !firstn_map_comm, HncVs. reflexivity. }
    assert (Hro : hv_roff ms p = list_sum (map nr (firstn p (colk q)))).
    { unfold hv_roff, colk. rewrite firstn_map_comm, map_map. f_equal.
      apply map_ext_in. intros r Hr. apply in_firstn in Hr. symmetry. apply HRr; assumption. }
    assert (HnthV : nth q Vs E = V q).
    { unfold Vs. apply nth_map_seq. exact Hq. }
    assert (Hnthc : nth p (colk q) E = nth q (nth p ms []) E).
    { unfold colk. apply (nth_map_lt (fun r : list csc => nth q r E) ms p [] E Hp). }
    rewrite Cg, Hco, hget_off.
    + rewrite HnthV. destruct (HV q Hq) as [_ [_ [_ [_ [Vg _]]]]]. rewrite Vg.
      rewrite Hro, vget_off.
      * rewrite Hnthc. reflexivity.
      * unfold colk. rewrite map_length. exact Hp.
      * rewrite Hnthc. exact Hi.
    + rewrite HVslen. exact Hq.
    + rewrite HnthV. destruct (HV q Hq) as [_ [_ [_ [-> _]]]].
      rewrite <- (HCc _ Hrin q Hq). exact Hj.
  - intros Hc. apply Cc. apply Forall_forall. intros b Hb.
    destruct (HVs b Hb) as [k [Hk ->]]. apply HV; assumption.
Qed.

Lemma hvcat_aux (ms : list (list csc)) :
  Forall (Forall WellDim) ms -> Forall (Forall RowsIn) ms ->
  forall C, hvcat ms = Some C ->
    nr C = hv_roff ms (length ms) /\ nc C = hv_coff ms (length (hd [] ms)) /\
    (forall p q i j, p < length ms -> q < length (hd [] ms) ->
       i < nr (blk ms p q) -> j < nc (blk ms p q) ->
       get C (hv_roff ms p + i) (hv_coff ms q + j) = get (blk ms p q) i j) /\
    (Forall (Forall Canonical) ms -> Canonical C).
Proof.
  intros HW HR C HC. unfold hvcat in HC. destruct (hvcat_dim_ok ms) eqn:Hd; [|discriminate].
  apply hvcat_dim_ok_iff in Hd. destruct ms as [|r0 rest]; [discriminate|].
  injection HC as HC. apply (hvcat_core (r0 :: rest) Hd HW HR). symmetry. exact HC.
Qed.

End Block.

(** * The statements *)
Lemma zeros_ok {T} (O : Ops T) : stmt_zeros O.
Proof. intros [RT _] m n. apply zeros_aux. Qed.

Lemma identity_ok {T} (O : Ops T) : stmt_identity O.
Proof. intros [RT _] n. apply identity_aux. exact RT. Qed.

Lemma blockdiag_ok {T} (O : Ops T) : stmt_blockdiag O.
Proof. intros [RT _] ms. apply blockdiag_aux. Qed.

Lemma blockdiag_blocks_ok {T} (O : Ops T) : stmt_blockdiag_blocks O.
Proof.
  intros ms k i j Hk B. subst B. unfold empty_csc. split.
  - intros Hi Hj. apply bd_diag; assumption.
  - intros k' j' Hk' Hne Hi Hj. apply bd_off; assumption.
Qed.

Lemma hvcat_dim_check_ok {T} : stmt_hvcat_dim_check (T:=T).
Proof. intros ms. apply hvcat_dim_check_aux. Qed.

Lemma hvcat_ok {T} (O : Ops T) : stmt_hvcat O.
Proof. intros [RT _] ms. apply hvcat_aux. exact RT. Qed.

Lemma offsets_cover_ok : stmt_offsets_cover.
Proof. intros l i. apply offsets_cover_aux. Qed.

Print Assumptions zeros_ok.
Print Assumptions identity_ok.
Print Assumptions blockdiag_ok.
Print Assumptions blockdiag_blocks_ok.
Print Assumptions hvcat_dim_check_ok.
Print Assumptions hvcat_ok.
Print Assumptions offsets_cover_ok.
