(** Proofs of [stmt_symv] and [stmt_quad_form] (Csc/Spec.v): the symmetric product and the
    quadratic form computed from the stored upper triangle agree with the dense symmetric
    matrix [symget A].  symv reuses the pending-update-list view of LemmasAlgBase.v (as gemv
    does); quad_form is a re-bracketing of three double sums. *)
From Coq Require Import List Arith Lia Bool Ring.
Import ListNotations.
Require Import Clarabel.Base.Ops Clarabel.Csc.Model Clarabel.Csc.Spec.
Require Import Clarabel.Csc.LemmasAlgBase Clarabel.Csc.LemmasAlg.

Section Sym.
Context {T : Type} (O : Ops T).
Hypothesis RT : ring_theory (zero O) (one O) (add O) (mul O) (sub O) (neg O) (@eq T).
Add Ring TringS : RT.

Notation "'oz'" := (zero O).
Notation "a [+] b" := (add O a b) (at level 50, left associativity).
Notation "a [*] b" := (mul O a b) (at level 40, left associativity).
Notation sumT := (sumT O).
Notation colget := (colget O).
Notation get := (get O).
Notation csc := (@csc T).
Notation col := (@col T).
Notation entry := (@entry T).

(** ** upper-triangular storage *)
Lemma is_triu_in (A : csc) j (e : entry) :
  is_triu A = true -> In e (nth j (cols A) []) -> fst e <= j.
Proof.
  intros Htri He.
  destruct (Nat.lt_ge_cases j (length (cols A))) as [Hj|Hj].
  - unfold is_triu in Htri. rewrite forallb_forall in Htri.
    specialize (Htri (j, nth j (cols A) []) (in_indexed_nth (cols A) [] j Hj)).
    cbn [fst snd] in Htri. rewrite forallb_forall in Htri.
    specialize (Htri e He). apply Nat.leb_le in Htri. exact Htri.
  - rewrite nth_overflow in He by exact Hj. contradiction.
Qed.

Lemma is_triu_get0 (A : csc) i j : is_triu A = true -> j < i -> get A i j = oz.
Proof.
  intros Htri Hji. unfold Model.get. apply colget_zero. intros e He.
  pose proof (is_triu_in A j e Htri He) as Hle. lia.
Qed.

(** ** sums over filtered / partitioned entry lists *)
Lemma sumT_map_filter {X} (p : X -> bool) (h : X -> T) (l : list X) :
  sumT (map h (filter p l)) = sumT (map (fun e => if p e then h e else oz) l).
Proof.
  induction l as [|e l IH]; cbn [filter map]; [reflexivity|].
  rewrite sumT_cons, <- IH. destruct (p e).
  - cbn [map]. rewrite sumT_cons. reflexivity.
  - ring.
Qed.

(** entries weighted by a vector indexed by their row, restricted by a predicate on the row *)
Lemma sumT_rowweight_if (q : nat -> bool) (k : T) (c : col) (x : list T) n :
  (forall e, In e c -> fst e < n) ->
  sumT (map (fun e => if q (fst e) then k [*] snd e [*] nth (fst e) x oz else oz) c) =
  sum_upto O n (fun i => if q i then k [*] (colget c i [*] nth i x oz) else oz).
Proof.
  intros Hn. rewrite (sumT_partition O RT _ c n Hn). apply sum_upto_ext. intros i _.
  destruct (q i) eqn:Hq.
  - unfold Model.colget.
    rewrite <- (sumT_map_lin O RT k (nth i x oz)), map_map.
    apply sumT_map_ext. intros e He. apply filter_In in He. destruct He as [_ He].
    apply Nat.eqb_eq in He. rewrite He, Hq. reflexivity.
  - apply (sumT_map_zero O RT). intros e He. apply filter_In in He. destruct He as [_ He].
    apply Nat.eqb_eq in He. rewrite He, Hq. reflexivity.
Qed.

(** ** symv as a list of pending updates *)
Definition symv_upd1 (a : T) (x : list T) (j : nat) (e : entry) : col :=
  (fst e, a [*] snd e [*] nth j x oz)
  :: (if fst e =? j then [] else [(j, a [*] snd e [*] nth (fst e) x oz)]).
Definition symv_upds (a : T) (x : list T) (jc : nat * col) : col :=
  flat_map (symv_upd1 a x (fst jc)) (snd jc).

Lemma symv_as_upds (A : csc) x y a b :
  symv O A x y a b =
  apply_upds O (flat_map (symv_upds a x) (indexed (cols A))) (map (fun t => b [*] t) y).
Proof.
  unfold symv. rewrite <- apply_upds_flat. apply fold_left_ext. intros y' jc _.
  unfold symv_upds. rewrite <- apply_upds_flat. apply fold_left_ext. intros y'' e _.
  destruct jc as [j c]. cbv beta zeta. unfold symv_upd1. cbn [fst snd].
  destruct (fst e =? j); reflexivity.
Qed.

Lemma colget_symv_upd1 a x j (e : entry) i :
  colget (symv_upd1 a x j e) i =
  (if fst e =? i then a [*] snd e [*] nth j x oz else oz)
  [+] (if j =? i then (if negb (fst e =? j) then a [*] snd e [*] nth (fst e) x oz else oz)
       else oz).
Proof.
  unfold symv_upd1. rewrite colget_cons. cbn [fst snd].
  destruct (Nat.eqb_spec (fst e) j) as [Hej|Hej]; cbn [negb].
  - rewrite colget_nil. destruct (fst e =? i), (j =? i); ring.
  - rewrite colget_cons, colget_nil. cbn [fst snd].
    destruct (fst e =? i), (j =? i); ring.
Qed.

Lemma colget_symv_upds a x j (c : col) i n :
  (forall e, In e c -> fst e < n) ->
  colget (symv_upds a x (j, c)) i =
  a [*] (colget c i [*] nth j x oz)
  [+] (if j =? i
       then sum_upto O n (fun k => if negb (k =? j) then a [*] (colget c k [*] nth k x oz) else oz)
       else oz).
Proof.
  intros Hn. unfold symv_upds. cbn [fst snd].
  rewrite colget_flat_map by exact RT.
  rewrite (sumT_map_ext O _ _ c (fun e _ => colget_symv_upd1 a x j e i)).
  rewrite sumT_map_add by exact RT. f_equal.
  - rewrite <- (sumT_map_filter (fun e : entry => fst e =? i)
                  (fun e : entry => a [*] snd e [*] nth j x oz)).
    unfold Model.colget. rewrite <- (sumT_map_lin O RT a (nth j x oz)), map_map.
    reflexivity.
  - destruct (j =? i).
    + apply (sumT_rowweight_if (fun k => negb (k =? j)) a c x n Hn).
    + apply (sumT_map_zero O RT). reflexivity.
Qed.

Lemma symv_aux (A : csc) (x y : list T) (a b : T) :
  WellDim A -> RowsIn A -> nr A = nc A -> is_triu A = true -> length y = nc A ->
  length (symv O A x y a b) = nc A /\
  forall i, i < nc A ->
    nth i (symv O A x y a b) oz =
    b [*] nth i y oz [+] a [*] sum_upto O (nc A) (fun j => symget O A i j [*] nth j x oz).
Proof.
  intros HA HR Hsq Htri Hy. rewrite symv_as_upds.
  destruct (apply_upds_spec O RT (flat_map (symv_upds a x) (indexed (cols A)))
              (map (fun t => b [*] t) y)) as [Hl Hn].
  { intros u Hu. rewrite map_length, Hy. apply in_flat_map in Hu.
    destruct Hu as [[j c] [Hjc Hu]]. apply in_indexed in Hjc. destruct Hjc as [Hj Hc].
    unfold symv_upds in Hu. cbn [fst snd] in Hu. apply in_flat_map in Hu.
    destruct Hu as [e [He Hu]]. pose proof (rowsin_in A c e HR Hc He) as Hr.
    unfold symv_upd1 in Hu. unfold WellDim in HA.
    destruct Hu as [<-|Hu]; [cbn [fst]; lia|].
    destruct (fst e =? j); [contradiction|]. destruct Hu as [<-|[]]. cbn [fst]. lia. }
  split.
  - rewrite Hl, map_length. exact Hy.
  - intros i Hi. rewrite Hn. rewrite nth_map_scale by lia. f_equal.
    rewrite colget_flat_map by exact RT. rewrite (sumT_indexed O _ (cols A) []).
    unfold WellDim in HA. rewrite HA.
    rewrite (sum_upto_ext O (nc A) _
      (fun j => a [*] (get A i j [*] nth j x oz)
                [+] (if j =? i
                     then sum_upto O (nc A) (fun k =>
                            if negb (k =? j) then a [*] (get A k j [*] nth k x oz) else oz)
                     else oz))).
    2:{ intros j _. apply colget_symv_upds. intros e He. rewrite <- Hsq.
        eapply rowsin_nth; eauto. }
    rewrite sum_upto_add by exact RT.
    rewrite (sum_upto_ext O (nc A)
      (fun j => if j =? i
                then sum_upto O (nc A) (fun k =>
                       if negb (k =? j) then a [*] (get A k j [*] nth k x oz) else oz)
                else oz)
      (fun j => if i =? j
                then sum_upto O (nc A) (fun k =>
                       if negb (k =? i) then a [*] (get A k i [*] nth k x oz) else oz)
                else oz)).
    2:{ intros j _. rewrite (Nat.eqb_sym j i).
        destruct (Nat.eqb_spec i j) as [->|_]; reflexivity. }
    rewrite (sum_upto_indicator O RT) by exact Hi.
    rewrite <- sum_upto_add by exact RT. rewrite <- sum_upto_mul_l by exact RT.
    apply sum_upto_ext. intros j _. unfold symget.
    destruct (Nat.eqb_spec j i) as [->|Hne]; cbn [negb].
    + rewrite Nat.leb_refl. ring.
    + destruct (Nat.leb_spec i j) as [Hij|Hij].
      * rewrite (is_triu_get0 A j i Htri) by lia. ring.
      * rewrite (is_triu_get0 A i j Htri) by lia. ring.
Qed.

(** ** quad_form *)
Lemma fold_left_pair_if {X} (p : X -> bool) (h1 h2 : X -> T) (l : list X) a1 a2 :
  fold_left (fun acc e => if p e then (fst acc [+] h1 e, snd acc [+] h2 e) else acc) l (a1, a2) =
  (a1 [+] sumT (map h1 (filter p l)), a2 [+] sumT (map h2 (filter p l))).
Proof.
  revert a1 a2; induction l as [|e l IH]; intros a1 a2; cbn [fold_left filter map].
  - change (sumT []) with oz. f_equal; ring.
  - destruct (p e); cbn [fst snd map].
    + rewrite IH, !sumT_cons. f_equal; ring.
    + apply IH.
Qed.

(** per-column contribution of the coded loop *)
Definition qf_col (y x : list T) (jc : nat * col) : T :=
  let j := fst jc in
  let t12 := fold_left (fun acc e =>
                 if fst e <? j then
                   (fst acc [+] snd e [*] nth (fst e) x oz,
                    snd acc [+] snd e [*] nth (fst e) y oz)
                 else acc) (snd jc) (oz, oz) in
  let dg := fold_left (fun acc e =>
                 if fst e =? j then acc [+] snd e [*] nth j x oz [*] nth j y oz
                 else acc) (snd jc) oz in
  dg [+] (fst t12 [*] nth j y oz [+] snd t12 [*] nth j x oz).

Lemma quad_form_fold (A : csc) y x :
  quad_form O A y x =
  if is_triu A then Some (sumT (map (qf_col y x) (indexed (cols A)))) else None.
Proof.
  unfold quad_form. destruct (is_triu A); [|reflexivity]. f_equal.
  transitivity (fold_left (fun t e => t [+] qf_col y x e) (indexed (cols A)) oz).
  - apply fold_left_ext. intros out jc _. unfold qf_col. cbv zeta.
    symmetry. apply (Radd_assoc RT).
  - rewrite (fold_left_add O RT). ring.
Qed.

Lemma sumT_lt_weight (c : col) (x : list T) j n :
  (forall e, In e c -> fst e < n) ->
  sumT (map (fun e : entry => snd e [*] nth (fst e) x oz) (filter (fun e => fst e <? j) c)) =
  sum_upto O n (fun k => if k <? j then colget c k [*] nth k x oz else oz).
Proof.
  intros Hn. rewrite sumT_map_filter.
  transitivity (sum_upto O n (fun i => if (fun k => k <? j) i
                                       then one O [*] (colget c i [*] nth i x oz) else oz)).
  - rewrite <- (sumT_rowweight_if (fun k => k <? j) (one O) c x n Hn).
    apply sumT_map_ext. intros e _. cbv beta. destruct (fst e <? j); ring.
  - apply sum_upto_ext. intros k _. cbv beta. destruct (k <? j); ring.
Qed.

Lemma sumT_map_mul2 w1 w2 (l : list T) :
  sumT (map (fun v => v [*] w1 [*] w2) l) = sumT l [*] w1 [*] w2.
Proof.
  induction l as [|v l IH]; cbn [map].
  - change (sumT []) with oz. ring.
  - rewrite !sumT_cons, IH. ring.
Qed.

Lemma qf_col_eq (y x : list T) j (c : col) n :
  (forall e, In e c -> fst e < n) ->
  qf_col y x (j, c) =
  colget c j [*] nth j x oz [*] nth j y oz
  [+] (sum_upto O n (fun k => if k <? j then colget c k [*] nth k x oz else oz) [*] nth j y oz
       [+] sum_upto O n (fun k => if k <? j then colget c k [*] nth k y oz else oz) [*] nth j x oz).
Proof.
  intros Hn. unfold qf_col. cbn [fst snd].
  rewrite (fold_left_pair_if (fun e : entry => fst e <? j)
             (fun e => snd e [*] nth (fst e) x oz) (fun e => snd e [*] nth (fst e) y oz)).
  cbn [fst snd].
  rewrite (fold_left_add_if O RT (fun e : entry => fst e =? j)
             (fun e => snd e [*] nth j x oz [*] nth j y oz)).
  rewrite !(sumT_lt_weight c _ j n Hn).
  replace (sumT (map (fun e : entry => snd e [*] nth j x oz [*] nth j y oz)
                     (filter (fun e : entry => fst e =? j) c)))
    with (colget c j [*] nth j x oz [*] nth j y oz).
  - ring.
  - unfold Model.colget. rewrite <- sumT_map_mul2, map_map. reflexivity.
Qed.

Lemma quad_form_aux (A : csc) (x y : list T) :
  WellDim A -> RowsIn A -> nr A = nc A ->
  (quad_form O A y x = None <-> is_triu A = false) /\
  forall q, quad_form O A y x = Some q ->
    q = sum_upto O (nc A) (fun i =>
          nth i y oz [*] sum_upto O (nc A) (fun j => symget O A i j [*] nth j x oz)).
Proof.
  intros HA HR Hsq. rewrite quad_form_fold. split.
  - destruct (is_triu A); split; intros H; try discriminate; reflexivity.
  - intros q Hq. destruct (is_triu A); [|discriminate]. injection Hq as <-.
    rewrite (sumT_indexed O _ (cols A) []). unfold WellDim in HA. rewrite HA.
    set (n := nc A).
    set (G1 := fun i j => if i <? j then nth i y oz [*] get A i j [*] nth j x oz else oz).
    set (G2 := fun i j => if j <? i then nth i y oz [*] get A j i [*] nth j x oz else oz).
    set (D := fun i => nth i y oz [*] get A i i [*] nth i x oz).
    transitivity (sum_upto O n D
                  [+] sum_upto O n (fun i => sum_upto O n (fun j => G2 i j))
                  [+] sum_upto O n (fun i => sum_upto O n (fun j => G1 i j))).
    + rewrite (sum_upto_swap O RT n n G1).
      rewrite <- !sum_upto_add by exact RT. apply sum_upto_ext. intros j Hj. cbv beta.
      rewrite (qf_col_eq y x j (nth j (cols A) []) n).
      2:{ intros e He. subst n. rewrite <- Hsq. eapply rowsin_nth; eauto. }
      assert (E2 : sum_upto O n (fun k => G2 j k) =
                   sum_upto O n (fun k => if k <? j then colget (nth j (cols A) []) k [*] nth k x oz
                                          else oz) [*] nth j y oz).
      { unfold sum_upto. rewrite <- sumT_map_mul_r by exact RT.
        apply sumT_map_ext. intros k _. unfold G2, Model.get. destruct (k <? j); ring. }
      assert (E1 : sum_upto O n (fun k => G1 k j) =
                   sum_upto O n (fun k => if k <? j then colget (nth j (cols A) []) k [*] nth k y oz
                                          else oz) [*] nth j x oz).
      { unfold sum_upto. rewrite <- sumT_map_mul_r by exact RT.
        apply sumT_map_ext. intros k _. unfold G1, Model.get. destruct (k <? j); ring. }
      rewrite E1, E2. unfold D, Model.get. ring.
    + rewrite <- !sum_upto_add by exact RT. apply sum_upto_ext. intros i Hi.
      rewrite <- sum_upto_mul_l by exact RT.
      rewrite <- (sum_upto_indicator O RT i (D i) n Hi).
      rewrite <- !sum_upto_add by exact RT. apply sum_upto_ext. intros j _.
      unfold G1, G2, D, symget.
      destruct (Nat.eqb_spec i j) as [->|Hne].
      * rewrite Nat.ltb_irrefl, Nat.leb_refl. ring.
      * destruct (Nat.leb_spec i j) as [Hij|Hij].
        -- destruct (Nat.ltb_spec i j); [|lia]. destruct (Nat.ltb_spec j i); [lia|]. ring.
        -- destruct (Nat.ltb_spec i j); [lia|]. destruct (Nat.ltb_spec j i); [|lia]. ring.
Qed.

End Sym.

Lemma symv_ok {T} (O : Ops T) : stmt_symv O.
Proof. intros [RT _] A x y a b. apply symv_aux; exact RT. Qed.

Lemma quad_form_ok {T} (O : Ops T) : stmt_quad_form O.
Proof. intros [RT _] A x y. apply quad_form_aux; exact RT. Qed.

Print Assumptions symv_ok.
Print Assumptions quad_form_ok.
