(** Statements (only) of the C16 theorems: each operation of the CSC model agrees with its
    dense meaning and preserves canonical form.  Proofs live in Csc/Lemmas*.v; Props/C16.v
    closes each statement with [exact].  Statements are over any commutative ring with a
    decidable equality reflected by [eqb] ([Laws]); they are instantiated at Z and R. *)
From Coq Require Import List Arith ZArith Lia Bool Sorted.
Import ListNotations.
Require Import Clarabel.Base.Ops Clarabel.Csc.Model.

Definition Laws {T} (O : Ops T) : Prop :=
  RingLaws O /\ (forall a b : T, eqb O a b = true <-> a = b).

(** Order laws needed by the norms (beyond the ring laws): [leb] is a total order, [ltb] its
    strict part (so [omax] is the maximum), [abs] is non-negative and fixes zero.  Met by the
    integers and the reals (Csc/LemmasOrd.v); not by binary64 with NaNs, which the norms'
    correspondence never feeds. *)
Definition OrdLaws {T} (O : Ops T) : Prop :=
  (forall a : T, Ops.leb O a a = true) /\
  (forall a b c : T, Ops.leb O a b = true -> Ops.leb O b c = true -> Ops.leb O a c = true) /\
  (forall a b : T, Ops.leb O a b = true -> Ops.leb O b a = true -> a = b) /\
  (forall a b : T, Ops.leb O a b = true \/ Ops.leb O b a = true) /\
  (forall a b : T, Ops.ltb O a b = negb (Ops.leb O b a)) /\
  (forall a : T, Ops.leb O (zero O) (abs O a) = true) /\
  abs O (zero O) = zero O.

Section Stmts.
Context {T : Type} (O : Ops T).
Notation csc := (@csc T).
Notation "0" := (zero O).
Notation get := (get O).
Notation sumT := (sumT O).

Definition WellDim (A : csc) : Prop := length (cols A) = nc A.
Definition RowsIn (A : csc) : Prop :=
  Forall (Forall (fun e : entry => fst e < nr A)) (cols A).
Definition Canonical (A : csc) : Prop := canonicalb A = true.

(** sum over an index range *)
Definition sum_upto (n : nat) (f : nat -> T) : T := sumT (map f (seq 0 n)).

(** the symmetric matrix represented by an upper-triangular [A] *)
Definition symget (A : csc) (i j : nat) : T := if i <=? j then get A i j else get A j i.

Definition stmt_canonical_char : Prop :=
  forall A : csc, Canonical A <->
    (WellDim A /\ Forall (fun c : col => StronglySorted lt (map fst c)
                                         /\ Forall (fun e : entry => fst e < nr A) c) (cols A)).

Definition stmt_from_rows : Prop := Laws O ->
  forall (rows : list (list T)) (n : nat),
    (forall r, In r rows -> length r = n) -> rows <> [] ->
    let A := from_rows O rows in
    Canonical A /\ nr A = length rows /\ nc A = n /\ no_stored_zero O A = true /\
    forall i j, i < length rows -> j < n -> get A i j = nth j (nth i rows []) 0.

Definition stmt_canonicalize : Prop := Laws O ->
  forall A : csc, WellDim A -> RowsIn A ->
    Canonical (canonicalize O A) /\ forall i j, get (canonicalize O A) i j = get A i j.

Definition stmt_from_triplets : Prop := Laws O ->
  forall (m n : nat) (ts : list (nat * nat * T)),
    (forall t, In t ts -> fst (fst t) < m /\ snd (fst t) < n) ->
    let A := from_triplets O m n ts in
    Canonical A /\ nr A = m /\ nc A = n /\
    forall i j, j < n ->
      get A i j = sumT (map snd (filter (fun t => (fst (fst t) =? i) && (snd (fst t) =? j)) ts)).

Definition stmt_transpose : Prop := Laws O ->
  forall A : csc, WellDim A ->
    nr (transpose A) = nc A /\ nc (transpose A) = nr A /\
    (forall i j, i < nr A -> get (transpose A) j i = get A i j) /\
    (Canonical A -> Canonical (transpose A)).

Definition stmt_to_triu : Prop := Laws O ->
  forall A : csc, Canonical A ->
    Canonical (to_triu A) /\ is_triu (to_triu A) = true /\
    forall i j, get (to_triu A) i j = if i <=? j then get A i j else 0.

Definition stmt_is_triu : Prop := Laws O ->
  forall A : csc, WellDim A -> is_triu A = true -> forall i j, j < i -> get A i j = 0.

Definition stmt_select_rows : Prop := Laws O ->
  forall (A : csc) (keep : list bool), Canonical A -> length keep = nr A ->
    let B := select_rows A keep in
    Canonical B /\ nr B = countb (fun b => b) keep /\ nc B = nc A /\
    (forall i j, nth i keep false = true -> get B (rank keep i) j = get A i j) /\
    (forall i', i' < nr B -> exists i, i < nr A /\ nth i keep false = true /\ rank keep i = i').

Definition stmt_get_entry : Prop := Laws O ->
  forall (A : csc) (i j : nat), Canonical A ->
    match get_entry A i j with
    | Some v => get A i j = v
    | None => get A i j = 0
    end.

Definition stmt_set_entry : Prop := Laws O ->
  forall (A : csc) (i j : nat) (v : T), Canonical A -> i < nr A -> j < nc A ->
    Canonical (set_entry O A i j v) /\
    forall i' j', get (set_entry O A i j v) i' j' =
                  if (i' =? i) && (j' =? j) then v else get A i' j'.

Definition stmt_dropzeros : Prop := Laws O ->
  forall A : csc,
    (forall i j, get (dropzeros O A) i j = get A i j) /\
    (Canonical A -> Canonical (dropzeros O A)) /\
    no_stored_zero O (dropzeros O A) = true.

Definition stmt_index_to_coord : Prop :=
  forall (A : csc) (idx i j : nat),
    index_to_coord O A idx = Some (i, j) <->
    (j < length (cols A) /\
     exists k v, nth_error (nth j (cols A) []) k = Some (i, v) /\
                 idx = length (concat (firstn j (cols A))) + k).

Definition stmt_hcat : Prop := Laws O ->
  forall A B : csc, WellDim A -> WellDim B ->
    (hcat A B = None <-> nr A <> nr B) /\
    forall C, hcat A B = Some C ->
      nr C = nr A /\ nc C = nc A + nc B /\
      (forall i j, get C i j = if j <? nc A then get A i j else get B i (j - nc A)) /\
      (Canonical A -> Canonical B -> Canonical C).

Definition stmt_vcat : Prop := Laws O ->
  forall A B : csc, WellDim A -> WellDim B -> RowsIn A ->
    (vcat A B = None <-> nc A <> nc B) /\
    forall C, vcat A B = Some C ->
      nr C = nr A + nr B /\ nc C = nc A /\
      (forall i j, get C i j = if i <? nr A then get A i j else get B (i - nr A) j) /\
      (Canonical A -> Canonical B -> Canonical C).

Definition stmt_blockdiag2 : Prop := Laws O ->
  forall A B : csc, WellDim A -> WellDim B -> RowsIn A ->
    let C := blockdiag2 A B in
    (forall i j, get C i j =
       if j <? nc A then (if i <? nr A then get A i j else 0)
       else (if i <? nr A then 0 else get B (i - nr A) (j - nc A))) /\
    (Canonical A -> Canonical B -> Canonical C).

Definition stmt_hvcat_special : Prop :=
  forall A B : csc,
    hvcat [[A; B]] = hcat A B /\ hvcat [[A]; [B]] = vcat A B.

Definition stmt_map_vals : Prop := Laws O ->
  forall (A : csc) (l r : list T) (c : T), WellDim A ->
    (forall i j, get (scale O A c) i j = mul O (get A i j) c) /\
    (forall i j, get (negate O A) i j = neg O (get A i j)) /\
    (forall i j, get (lscale O A l) i j = mul O (get A i j) (nth i l 0)) /\
    (forall i j, get (rscale O A r) i j = mul O (get A i j) (nth j r 0)) /\
    (forall i j, get (lrscale O A l r) i j = mul O (get A i j) (mul O (nth i l 0) (nth j r 0))) /\
    canonicalb (scale O A c) = canonicalb A /\ canonicalb (negate O A) = canonicalb A /\
    canonicalb (lscale O A l) = canonicalb A /\ canonicalb (rscale O A r) = canonicalb A /\
    canonicalb (lrscale O A l r) = canonicalb A.

Definition stmt_gemv : Prop := Laws O ->
  forall (A : csc) (x y : list T) (a b : T), WellDim A -> RowsIn A -> length y = nr A ->
    length (gemv O A x y a b) = nr A /\
    forall i, i < nr A ->
      nth i (gemv O A x y a b) 0 =
      add O (mul O b (nth i y 0))
            (mul O a (sum_upto (nc A) (fun j => mul O (get A i j) (nth j x 0)))).

Definition stmt_gemv_T : Prop := Laws O ->
  forall (A : csc) (x y : list T) (a b : T), WellDim A -> RowsIn A -> length y = nc A ->
    length (gemv_T O A x y a b) = nc A /\
    forall j, j < nc A ->
      nth j (gemv_T O A x y a b) 0 =
      add O (mul O b (nth j y 0))
            (mul O a (sum_upto (nr A) (fun i => mul O (get A i j) (nth i x 0)))).

Definition stmt_symv : Prop := Laws O ->
  forall (A : csc) (x y : list T) (a b : T),
    WellDim A -> RowsIn A -> nr A = nc A -> is_triu A = true -> length y = nc A ->
    length (symv O A x y a b) = nc A /\
    forall i, i < nc A ->
      nth i (symv O A x y a b) 0 =
      add O (mul O b (nth i y 0))
            (mul O a (sum_upto (nc A) (fun j => mul O (symget A i j) (nth j x 0)))).

Definition stmt_quad_form : Prop := Laws O ->
  forall (A : csc) (x y : list T),
    WellDim A -> RowsIn A -> nr A = nc A ->
    (quad_form O A y x = None <-> is_triu A = false) /\
    forall q, quad_form O A y x = Some q ->
      q = sum_upto (nc A) (fun i =>
            mul O (nth i y 0) (sum_upto (nc A) (fun j => mul O (symget A i j) (nth j x 0)))).

Definition stmt_sums : Prop := Laws O ->
  forall A : csc, WellDim A -> RowsIn A ->
    (forall j, j < nc A -> nth j (col_sums O A) 0 = sum_upto (nr A) (fun i => get A i j)) /\
    (forall i, i < nr A -> nth i (row_sums O A) 0 = sum_upto (nc A) (fun j => get A i j)).

(** ** Norms (ordered ring).  [is_maxabs_from m0 v n f]: [v] is the largest of
    [m0, |f 0|, ..., |f (n-1)|]; [is_maxabs v n f]: the same with [m0 = 0]
    (an upper bound that is attained); since [|.| >= 0] this is [max_k |f k|] whenever [n > 0],
    and the value the code returns for an empty row/column ([0]) otherwise.  By
    [stmt_maxabs_unique] the three conditions determine [v]. *)
Definition is_maxabs_from (m0 v : T) (n : nat) (f : nat -> T) : Prop :=
  Ops.leb O m0 v = true /\
  (forall k, k < n -> Ops.leb O (abs O (f k)) v = true) /\
  (v = m0 \/ exists k, k < n /\ v = abs O (f k)).
Definition is_maxabs (v : T) (n : nat) (f : nat -> T) : Prop := is_maxabs_from 0 v n f.

Definition stmt_maxabs_unique : Prop := OrdLaws O ->
  forall (m0 v v' : T) (n : nat) (f : nat -> T),
    is_maxabs_from m0 v n f -> is_maxabs_from m0 v' n f -> v = v'.

Definition stmt_col_norms : Prop := Laws O -> OrdLaws O ->
  forall A : csc, Canonical A ->
    length (col_norms O A) = nc A /\
    forall j, j < nc A -> is_maxabs (nth j (col_norms O A) 0) (nr A) (fun i => get A i j).

Definition stmt_row_norms : Prop := Laws O -> OrdLaws O ->
  forall A : csc, Canonical A ->
    length (row_norms O A) = nr A /\
    forall i, i < nr A -> is_maxabs (nth i (row_norms O A) 0) (nc A) (fun j => get A i j).

(** column norms of the symmetric matrix represented by an upper-triangular [A] *)
Definition stmt_col_norms_sym : Prop := Laws O -> OrdLaws O ->
  forall A : csc, Canonical A -> nr A = nc A -> is_triu A = true ->
    length (col_norms_sym O A) = nc A /\
    forall j, j < nc A ->
      is_maxabs (nth j (col_norms_sym O A) 0) (nc A) (fun i => symget A i j).

(** the [*_no_reset] variants: started from a non-negative vector [s] (as the callers do: a
    previous norm), entry [j] becomes the largest of [s_j] and the dense norm *)
Definition stmt_norms_from : Prop := Laws O -> OrdLaws O ->
  forall (A : csc) (s : list T), Canonical A ->
    (forall k, Ops.leb O 0 (nth k s 0) = true) ->
    (length s = nc A ->
       length (col_norms_from O A s) = nc A /\
       forall j, j < nc A ->
         is_maxabs_from (nth j s 0) (nth j (col_norms_from O A s) 0) (nr A) (fun i => get A i j)) /\
    (length s = nr A ->
       length (row_norms_from O A s) = nr A /\
       forall i, i < nr A ->
         is_maxabs_from (nth i s 0) (nth i (row_norms_from O A s) 0) (nc A) (fun j => get A i j)) /\
    (length s = nc A -> nr A = nc A -> is_triu A = true ->
       length (col_norms_sym_from O A s) = nc A /\
       forall j, j < nc A ->
         is_maxabs_from (nth j s 0) (nth j (col_norms_sym_from O A s) 0) (nc A)
                        (fun i => symget A i j)).

(** ** zeros / identity *)
Definition stmt_zeros : Prop := Laws O ->
  forall m n : nat,
    let Z : csc := zeros m n in
    Canonical Z /\ nr Z = m /\ nc Z = n /\ forall i j, get Z i j = 0.

Definition stmt_identity : Prop := Laws O ->
  forall n : nat,
    Canonical (identity O n) /\ nr (identity O n) = n /\ nc (identity O n) = n /\
    forall i j, get (identity O n) i j = if (i =? j) && (j <? n) then one O else 0.

(** ** General block-diagonal concatenation.  [bd_get] is the dense block-diagonal matrix of a
    list of matrices; [stmt_blockdiag_blocks] restates it block by block (block [k] sits at
    row offset [sum of the earlier nr] and column offset [sum of the earlier nc]). *)
Fixpoint bd_get (ms : list csc) (i j : nat) : T :=
  match ms with
  | [] => 0
  | B :: r => if j <? nc B then (if i <? nr B then get B i j else 0)
              else (if i <? nr B then 0 else bd_get r (i - nr B) (j - nc B))
  end.
Definition empty_csc : csc := mkCsc 0 0 [].
Definition bd_roff (ms : list csc) (k : nat) : nat := list_sum (map nr (firstn k ms)).
Definition bd_coff (ms : list csc) (k : nat) : nat := list_sum (map nc (firstn k ms)).

Definition stmt_blockdiag : Prop := Laws O ->
  forall ms : list csc, Forall WellDim ms -> Forall RowsIn ms ->
    (blockdiag ms = None <-> ms = []) /\
    forall C, blockdiag ms = Some C ->
      nr C = list_sum (map nr ms) /\ nc C = list_sum (map nc ms) /\
      (forall i j, get C i j = bd_get ms i j) /\
      (Forall Canonical ms -> Canonical C).

Definition stmt_blockdiag_blocks : Prop :=
  forall (ms : list csc) (k i j : nat), k < length ms ->
      let B := nth k ms empty_csc in
      (i < nr B -> j < nc B -> bd_get ms (bd_roff ms k + i) (bd_coff ms k + j) = get B i j) /\
      (* off-diagonal blocks are zero *)
      (forall k' j', k' < length ms -> k' <> k -> i < nr B -> j' < nc (nth k' ms empty_csc) ->
         bd_get ms (bd_roff ms k + i) (bd_coff ms k' + j') = 0).

(** ** General block concatenation (blocks given row-major).  [HvShapesOk] is the shape
    consistency the dimension check tests: at least one block, every block row has as many
    blocks as the first, blocks of one block row have equal row counts, blocks of one block
    column have equal column counts. *)
Definition blk (ms : list (list csc)) (p q : nat) : csc := nth q (nth p ms []) empty_csc.
Definition HvShapesOk (ms : list (list csc)) : Prop :=
  ms <> [] /\ hd [] ms <> [] /\
  (forall p, p < length ms -> length (nth p ms []) = length (hd [] ms)) /\
  (forall p q, p < length ms -> q < length (hd [] ms) -> nr (blk ms p q) = nr (blk ms p 0)) /\
  (forall p q, p < length ms -> q < length (hd [] ms) -> nc (blk ms p q) = nc (blk ms 0 q)).
Definition hv_roff (ms : list (list csc)) (p : nat) : nat :=
  list_sum (map (fun r => nr (hd empty_csc r)) (firstn p ms)).
Definition hv_coff (ms : list (list csc)) (q : nat) : nat :=
  list_sum (map nc (firstn q (hd [] ms))).

(** the dimension check: an error exactly when the block shapes are inconsistent *)
Definition stmt_hvcat_dim_check : Prop :=
  forall ms : list (list csc),
    (hvcat_dim_ok ms = true <-> HvShapesOk ms) /\
    (hvcat ms = None <-> ~ HvShapesOk ms).

(** dense meaning by block: block [(p,q)] of the result is the input block *)
Definition stmt_hvcat : Prop := Laws O ->
  forall ms : list (list csc),
    Forall (Forall WellDim) ms -> Forall (Forall RowsIn) ms ->
    forall C, hvcat ms = Some C ->
      nr C = hv_roff ms (length ms) /\ nc C = hv_coff ms (length (hd [] ms)) /\
      (forall p q i j, p < length ms -> q < length (hd [] ms) ->
         i < nr (blk ms p q) -> j < nc (blk ms p q) ->
         get C (hv_roff ms p + i) (hv_coff ms q + j) = get (blk ms p q) i j) /\
      (Forall (Forall Canonical) ms -> Canonical C).

(** the blocks tile the result: every index below the total lies in exactly one block range
    (so the block-wise equations above determine every entry) *)
Definition stmt_offsets_cover : Prop :=
  forall (l : list nat) (i : nat), i < list_sum l ->
    exists p i', p < length l /\ i' < nth p l 0%nat /\ i = (list_sum (firstn p l) + i')%nat.

(** ** The coded (a, b) branches of gemv / gemv_T and the coded symv equal the one-formula
    models, as lists, for every matrix and all vectors (no hypothesis on A): hence they have the
    dense meaning of [stmt_gemv] / [stmt_gemv_T] / [stmt_symv]. *)
Definition stmt_scale_fast : Prop := Laws O ->
  forall (b : T) (y : list T), scale_fast O b y = map (fun t => mul O b t) y.

Definition stmt_fast_paths : Prop := Laws O ->
  forall (A : csc) (x y : list T) (a b : T),
    gemv_fast O A x y a b = gemv O A x y a b /\
    gemv_T_fast O A x y a b = gemv_T O A x y a b /\
    symv_coded O A x y a b = symv O A x y a b.

(** each branch separately: which code path runs for which coefficient *)
Definition stmt_fast_branches : Prop := Laws O ->
  forall (A : csc) (x y : list T) (a b : T),
    (a = 0 -> gemv_fast O A x y a b = scale_fast O b y /\ gemv_T_fast O A x y a b = scale_fast O b y) /\
    (b = 0 -> scale_fast O b y = map (fun _ => 0) y) /\
    (b = one O -> scale_fast O b y = y) /\
    (classify_coef O a = COne ->
       gemv_fast O A x y a b = scatter O (fun v xj t => add O t (mul O v xj)) A x (scale_fast O b y)) /\
    (classify_coef O a = CMinusOne ->
       gemv_fast O A x y a b = scatter O (fun v xj t => sub O t (mul O v xj)) A x (scale_fast O b y)) /\
    (classify_coef O a = CGeneral ->
       gemv_fast O A x y a b =
       scatter O (fun v xj t => add O t (mul O (mul O a v) xj)) A x (scale_fast O b y)).

Definition stmt_gemv_fast_dense : Prop := Laws O ->
  forall (A : csc) (x y : list T) (a b : T), WellDim A -> RowsIn A ->
    (length y = nr A ->
       forall i, i < nr A ->
         nth i (gemv_fast O A x y a b) 0 =
         add O (mul O b (nth i y 0))
               (mul O a (sum_upto (nc A) (fun j => mul O (get A i j) (nth j x 0))))) /\
    (length y = nc A ->
       forall j, j < nc A ->
         nth j (gemv_T_fast O A x y a b) 0 =
         add O (mul O b (nth j y 0))
               (mul O a (sum_upto (nr A) (fun i => mul O (get A i j) (nth i x 0))))) /\
    (length y = nc A -> nr A = nc A -> is_triu A = true ->
       forall i, i < nc A ->
         nth i (symv_coded O A x y a b) 0 =
         add O (mul O b (nth i y 0))
               (mul O a (sum_upto (nc A) (fun j => mul O (symget A i j) (nth j x 0))))).

(** the unchecked indexing of the symv kernel stays in bounds: on any square matrix accepted by
    [check_format] every dereferenced position of [x] / [y] (asserted length n) is below n, and
    colptr has the n + 1 entries the loop reads *)
Definition stmt_symv_in_bounds : Prop :=
  (forall A : csc, RowsIn A -> WellDim A -> nr A = nc A ->
     Forall (fun k => k < nc A) (symv_trace A)) /\
  (forall r : @raw T, check_format r = FmtOk -> rm r = rn r ->
     length (rcolptr r) = S (rn r) /\ Forall (fun i => i < rn r) (rrowval r) /\
     Forall (fun k => k < rn r) (symv_trace (decode r))).

(** ** index_to_coord on the raw arrays: the row is rowval[idx], the column the unique j with
    colptr[j] <= idx < colptr[j+1] (any dimension-consistent encoding: columns may be unsorted,
    duplicated, empty at the front or the back) *)
Definition stmt_raw_index_to_coord : Prop :=
  forall (r : @raw T) (idx : nat), check_dimensions r = FmtOk ->
    (raw_index_to_coord r idx = None <-> length (rrowval r) <= idx) /\
    forall i j, raw_index_to_coord r idx = Some (i, j) ->
      i = nth idx (rrowval r) 0%nat /\ j < rn r /\
      nth j (rcolptr r) 0%nat <= idx < nth (S j) (rcolptr r) 0%nat /\
      (forall j', j' < rn r ->
         nth j' (rcolptr r) 0%nat <= idx < nth (S j') (rcolptr r) 0%nat -> j' = j).
(** the raw version and the column-list version agree *)
Definition stmt_index_to_coord_raw_agree : Prop :=
  forall (r : @raw T) (idx : nat), check_dimensions r = FmtOk ->
    index_to_coord O (decode r) idx = raw_index_to_coord r idx.

(** ** is_triu with no sortedness (or any other) assumption: true iff every stored entry is on
    or above the diagonal *)
Definition stmt_is_triu_iff : Prop :=
  forall A : csc,
    is_triu A = true <->
    (forall j (e : entry), In e (nth j (cols A) []) -> fst e <= j).

(** ** the missing-diagonal helpers *)
Definition stmt_add_missing_diag : Prop := Laws O ->
  forall M : csc, Canonical M -> nr M = nc M -> is_triu M = true ->
    let K := add_missing_diag O M in
    Canonical K /\ is_triu K = true /\
    (forall i j, get K i j = get M i j) /\
    (forall j, j < nc M -> get_entry K j j <> None) /\
    nnz K = nnz M + count_missing_diag M /\
    count_diag_triu M + count_missing_diag M = nc M /\
    (forall j, j < nc M ->
       (diag_missing (nth j (cols M) []) j = true <-> get_entry M j j = None)).

(** ** round trips between the full symmetric and the upper-triangular representation *)
Definition stmt_triu_roundtrip : Prop := Laws O ->
  forall P : csc, Canonical P ->
    to_triu (to_triu P) = to_triu P /\
    (is_triu P = true -> to_triu P = P) /\
    (forall i j, symget (to_triu P) i j = symget (to_triu P) j i) /\
    (* triu(sym(triu P)) = triu P *)
    (forall i j, (if i <=? j then symget (to_triu P) i j else 0) = get (to_triu P) i j) /\
    (* a symmetric P is recovered from its upper triangle *)
    ((forall i j, get P i j = get P j i) -> forall i j, symget (to_triu P) i j = get P i j) /\
    (* what DefaultProblemData::new keeps: P itself if upper triangular, else its upper triangle *)
    (let P' := if is_triu P then P else to_triu P in
     is_triu P' = true /\ Canonical P' /\ forall i j, i <= j -> get P' i j = get P i j).

(** check_format accepts exactly the encodings of canonical matrices *)
Definition stmt_check_format_iff : Prop :=
  forall r : @raw T,
    check_format r = FmtOk <-> exists A : csc, Canonical A /\ r = encode A.
Definition stmt_decode_encode : Prop :=
  forall A : csc, WellDim A -> decode (encode A) = A.
(** error priority: dimension errors first, then colptr, then rowval *)
Definition stmt_check_format_errors : Prop :=
  forall r : @raw T,
    (check_format r = IncompatibleDimension <->
       (length (rrowval r) <> length (rnzval r) \/ length (rcolptr r) <> S (rn r)
        \/ nth (rn r) (rcolptr r) 0%nat <> length (rrowval r))) /\
    (check_format r = BadColptr ->
       nth 0 (rcolptr r) 0%nat <> 0%nat \/ mono_le (rcolptr r) = false).

End Stmts.
