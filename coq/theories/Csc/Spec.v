(** Statements (only) of the C16 theorems: each operation of the CSC model agrees with its
    dense meaning and preserves canonical form.  Proofs live in Csc/Lemmas*.v; Props/C16.v
    closes each statement with [exact].  Statements are over any commutative ring with a
    decidable equality reflected by [eqb] ([Laws]); they are instantiated at Z and R. *)
From Coq Require Import List Arith ZArith Lia Bool Sorted.
Import ListNotations.
Require Import Clarabel.Base.Ops Clarabel.Csc.Model.

Definition Laws {T} (O : Ops T) : Prop :=
  RingLaws O /\ (forall a b : T, eqb O a b = true <-> a = b).

Section Stmts.
Context {T : Type} (O : Ops T).
Notation csc := (@csc T).
Notation "0" := (zero O).
Notation get := (get O).
Notation sumT := (sumT O).

Definition WellDim (A : csc) : Prop := length (cols A) = nc A.
Definition RowsIn (A : csc) : Prop :=
  Forall (Forall (fun e : entry => fst e < nr A)) (cols A).
Definition Canonical (A : csc) : Prop := canonicalb A = true.

(** sum over an index range *)
Definition sum_upto (n : nat) (f : nat -> T) : T := sumT (map f (seq 0 n)).

(** the symmetric matrix represented by an upper-triangular [A] *)
Definition symget (A : csc) (i j : nat) : T := if i <=? j then get A i j else get A j i.

Definition stmt_canonical_char : Prop :=
  forall A : csc, Canonical A <->
    (WellDim A /\ Forall (fun c : col => StronglySorted lt (map fst c)
                                         /\ Forall (fun e : entry => fst e < nr A) c) (cols A)).

Definition stmt_from_rows : Prop := Laws O ->
  forall (rows : list (list T)) (n : nat),
    (forall r, In r rows -> length r = n) -> rows <> [] ->
    let A := from_rows O rows in
    Canonical A /\ nr A = length rows /\ nc A = n /\ no_stored_zero O A = true /\
    forall i j, i < length rows -> j < n -> get A i j = nth j (nth i rows []) 0.

Definition stmt_canonicalize : Prop := Laws O ->
  forall A : csc, WellDim A -> RowsIn A ->
    Canonical (canonicalize O A) /\ forall i j, get (canonicalize O A) i j = get A i j.

Definition stmt_from_triplets : Prop := Laws O ->
  forall (m n : nat) (ts : list (nat * nat * T)),
    (forall t, In t ts -> fst (fst t) < m /\ snd (fst t) < n) ->
    let A := from_triplets O m n ts in
    Canonical A /\ nr A = m /\ nc A = n /\
    forall i j, j < n ->
      get A i j = sumT (map snd (filter (fun t => (fst (fst t) =? i) && (snd (fst t) =? j)) ts)).

Definition stmt_transpose : Prop := Laws O ->
  forall A : csc, WellDim A ->
    nr (transpose A) = nc A /\ nc (transpose A) = nr A /\
    (forall i j, i < nr A -> get (transpose A) j i = get A i j) /\
    (Canonical A -> Canonical (transpose A)).

Definition stmt_to_triu : Prop := Laws O ->
  forall A : csc, Canonical A ->
    Canonical (to_triu A) /\ is_triu (to_triu A) = true /\
    forall i j, get (to_triu A) i j = if i <=? j then get A i j else 0.

Definition stmt_is_triu : Prop := Laws O ->
  forall A : csc, WellDim A -> is_triu A = true -> forall i j, j < i -> get A i j = 0.

Definition stmt_select_rows : Prop := Laws O ->
  forall (A : csc) (keep : list bool), Canonical A -> length keep = nr A ->
    let B := select_rows A keep in
    Canonical B /\ nr B = countb (fun b => b) keep /\ nc B = nc A /\
    (forall i j, nth i keep false = true -> get B (rank keep i) j = get A i j) /\
    (forall i', i' < nr B -> exists i, i < nr A /\ nth i keep false = true /\ rank keep i = i').

Definition stmt_get_entry : Prop := Laws O ->
  forall (A : csc) (i j : nat), Canonical A ->
    match get_entry A i j with
    | Some v => get A i j = v
    | None => get A i j = 0
    end.

Definition stmt_set_entry : Prop := Laws O ->
  forall (A : csc) (i j : nat) (v : T), Canonical A -> i < nr A -> j < nc A ->
    Canonical (set_entry O A i j v) /\
    forall i' j', get (set_entry O A i j v) i' j' =
                  if (i' =? i) && (j' =? j) then v else get A i' j'.

Definition stmt_dropzeros : Prop := Laws O ->
  forall A : csc,
    (forall i j, get (dropzeros O A) i j = get A i j) /\
    (Canonical A -> Canonical (dropzeros O A)) /\
    no_stored_zero O (dropzeros O A) = true.

Definition stmt_index_to_coord : Prop :=
  forall (A : csc) (idx i j : nat),
    index_to_coord O A idx = Some (i, j) <->
    (j < length (cols A) /\
     exists k v, nth_error (nth j (cols A) []) k = Some (i, v) /\
                 idx = length (concat (firstn j (cols A))) + k).

Definition stmt_hcat : Prop := Laws O ->
  forall A B : csc, WellDim A -> WellDim B ->
    (hcat A B = None <-> nr A <> nr B) /\
    forall C, hcat A B = Some C ->
      nr C = nr A /\ nc C = nc A + nc B /\
      (forall i j, get C i j = if j <? nc A then get A i j else get B i (j - nc A)) /\
      (Canonical A -> Canonical B -> Canonical C).

Definition stmt_vcat : Prop := Laws O ->
  forall A B : csc, WellDim A -> WellDim B -> RowsIn A ->
    (vcat A B = None <-> nc A <> nc B) /\
    forall C, vcat A B = Some C ->
      nr C = nr A + nr B /\ nc C = nc A /\
      (forall i j, get C i j = if i <? nr A then get A i j else get B (i - nr A) j) /\
      (Canonical A -> Canonical B -> Canonical C).

Definition stmt_blockdiag2 : Prop := Laws O ->
  forall A B : csc, WellDim A -> WellDim B -> RowsIn A ->
    let C := blockdiag2 A B in
    (forall i j, get C i j =
       if j <? nc A then (if i <? nr A then get A i j else 0)
       else (if i <? nr A then 0 else get B (i - nr A) (j - nc A))) /\
    (Canonical A -> Canonical B -> Canonical C).

Definition stmt_hvcat_special : Prop :=
  forall A B : csc,
    hvcat [[A; B]] = hcat A B /\ hvcat [[A]; [B]] = vcat A B.

Definition stmt_map_vals : Prop := Laws O ->
  forall (A : csc) (l r : list T) (c : T), WellDim A ->
    (forall i j, get (scale O A c) i j = mul O (get A i j) c) /\
    (forall i j, get (negate O A) i j = neg O (get A i j)) /\
    (forall i j, get (lscale O A l) i j = mul O (get A i j) (nth i l 0)) /\
    (forall i j, get (rscale O A r) i j = mul O (get A i j) (nth j r 0)) /\
    (forall i j, get (lrscale O A l r) i j = mul O (get A i j) (mul O (nth i l 0) (nth j r 0))) /\
    canonicalb (scale O A c) = canonicalb A /\ canonicalb (negate O A) = canonicalb A /\
    canonicalb (lscale O A l) = canonicalb A /\ canonicalb (rscale O A r) = canonicalb A /\
    canonicalb (lrscale O A l r) = canonicalb A.

Definition stmt_gemv : Prop := Laws O ->
  forall (A : csc) (x y : list T) (a b : T), WellDim A -> RowsIn A -> length y = nr A ->
    length (gemv O A x y a b) = nr A /\
    forall i, i < nr A ->
      nth i (gemv O A x y a b) 0 =
      add O (mul O b (nth i y 0))
            (mul O a (sum_upto (nc A) (fun j => mul O (get A i j) (nth j x 0)))).

Definition stmt_gemv_T : Prop := Laws O ->
  forall (A : csc) (x y : list T) (a b : T), WellDim A -> RowsIn A -> length y = nc A ->
    length (gemv_T O A x y a b) = nc A /\
    forall j, j < nc A ->
      nth j (gemv_T O A x y a b) 0 =
      add O (mul O b (nth j y 0))
            (mul O a (sum_upto (nr A) (fun i => mul O (get A i j) (nth i x 0)))).

Definition stmt_symv : Prop := Laws O ->
  forall (A : csc) (x y : list T) (a b : T),
    WellDim A -> RowsIn A -> nr A = nc A -> is_triu A = true -> length y = nc A ->
    length (symv O A x y a b) = nc A /\
    forall i, i < nc A ->
      nth i (symv O A x y a b) 0 =
      add O (mul O b (nth i y 0))
            (mul O a (sum_upto (nc A) (fun j => mul O (symget A i j) (nth j x 0)))).

Definition stmt_quad_form : Prop := Laws O ->
  forall (A : csc) (x y : list T),
    WellDim A -> RowsIn A -> nr A = nc A ->
    (quad_form O A y x = None <-> is_triu A = false) /\
    forall q, quad_form O A y x = Some q ->
      q = sum_upto (nc A) (fun i =>
            mul O (nth i y 0) (sum_upto (nc A) (fun j => mul O (symget A i j) (nth j x 0)))).

Definition stmt_sums : Prop := Laws O ->
  forall A : csc, WellDim A -> RowsIn A ->
    (forall j, j < nc A -> nth j (col_sums O A) 0 = sum_upto (nr A) (fun i => get A i j)) /\
    (forall i, i < nr A -> nth i (row_sums O A) 0 = sum_upto (nc A) (fun j => get A i j)).

(** check_format accepts exactly the encodings of canonical matrices *)
Definition stmt_check_format_iff : Prop :=
  forall r : @raw T,
    check_format r = FmtOk <-> exists A : csc, Canonical A /\ r = encode A.
Definition stmt_decode_encode : Prop :=
  forall A : csc, WellDim A -> decode (encode A) = A.
(** error priority: dimension errors first, then colptr, then rowval *)
Definition stmt_check_format_errors : Prop :=
  forall r : @raw T,
    (check_format r = IncompatibleDimension <->
       (length (rrowval r) <> length (rnzval r) \/ length (rcolptr r) <> S (rn r)
        \/ nth (rn r) (rcolptr r) 0%nat <> length (rrowval r))) /\
    (check_format r = BadColptr ->
       nth 0 (rcolptr r) 0%nat <> 0%nat \/ mono_le (rcolptr r) = false).

End Stmts.
