(** Norms over an ordered ring: proofs of [stmt_col_norms], [stmt_row_norms],
    [stmt_col_norms_sym], [stmt_maxabs_unique] (Csc/Spec.v), and inhabitants of [OrdLaws] at
    the integers and the reals.  The scatter loops (row_norms, col_norms_sym) are seen as
    lists of pending updates, as for gemv/symv, but folded with [maxabs] instead of [+]. *)
From Coq Require Import List Arith ZArith Reals Lia Lra Bool Ring.
Import ListNotations.
Require Import Clarabel.Base.Ops Clarabel.Csc.Model Clarabel.Csc.Spec.
Require Import Clarabel.Csc.LemmasAlgBase Clarabel.Csc.LemmasAlg Clarabel.Csc.LemmasSym.

(** * The order laws hold at Z and R *)
Lemma OrdLawsZ : OrdLaws OpsZ.
Proof.
  unfold OrdLaws. cbn [OpsZ Ops.leb Ops.ltb abs zero].
  repeat split.
  - intros a. apply Z.leb_refl.
  - intros a b c H1 H2. apply Z.leb_le in H1, H2. apply Z.leb_le. lia.
  - intros a b H1 H2. apply Z.leb_le in H1, H2. lia.
  - intros a b. destruct (Z.le_ge_cases a b) as [H|H]; [left|right]; apply Z.leb_le; exact H.
  - intros a b. apply Z.ltb_antisym.
  - intros a. apply Z.leb_le. apply Z.abs_nonneg.
Qed.

Lemma OrdLawsR : OrdLaws OpsR.
Proof.
  unfold OrdLaws. cbn [OpsR Ops.leb Ops.ltb abs zero].
  repeat split.
  - intros a. apply Rleb_true. lra.
  - intros a b c H1 H2. apply Rleb_true in H1, H2. apply Rleb_true. lra.
  - intros a b H1 H2. apply Rleb_true in H1, H2. lra.
  - intros a b. destruct (Rle_or_lt a b) as [H|H]; [left|right]; apply Rleb_true; lra.
  - intros a b. destruct (Rleb b a) eqn:E; cbn [negb].
    + apply Rleb_true in E. apply Rltb_false. exact E.
    + apply Rleb_false in E. apply Rltb_true. exact E.
  - intros a. apply Rleb_true. apply Rabs_pos.
  - apply Rabs_R0.
Qed.

(** * Generic pending-update lists (any combining function) *)
Section Gen.
Context {T : Type} (O : Ops T).
Notation "'oz'" := (zero O).
Notation col := (@col T).
Notation entry := (@entry T).

Definition apply_gen (f : T -> T -> T) (us : col) (y : list T) : list T :=
  fold_left (fun y u => upd O y (fst u) (fun t => f t (snd u))) us y.

Lemma apply_gen_flat {X} f (F : X -> col) (L : list X) y0 :
  fold_left (fun y x => apply_gen f (F x) y) L y0 = apply_gen f (flat_map F L) y0.
Proof.
  revert y0; induction L as [|x L IH]; intros y0; cbn [fold_left flat_map]; auto.
  transitivity (apply_gen f (flat_map F L) (apply_gen f (F x) y0)); [apply IH|].
  unfold apply_gen. rewrite fold_left_app. reflexivity.
Qed.

Lemma apply_gen_spec f (us : col) y :
  (forall u, In u us -> fst u < length y) ->
  length (apply_gen f us y) = length y /\
  forall i, nth i (apply_gen f us y) oz =
            fold_left f (map snd (filter (fun u : entry => fst u =? i) us)) (nth i y oz).
Proof.
  revert y; induction us as [|u us IH]; intros y Hin.
  - split; reflexivity.
  - assert (Hu : fst u < length y) by (apply Hin; left; reflexivity).
    change (apply_gen f (u :: us) y)
      with (apply_gen f us (upd O y (fst u) (fun t => f t (snd u)))).
    destruct (IH (upd O y (fst u) (fun t => f t (snd u)))) as [IHl IHn].
    { intros v Hv. rewrite upd_length. apply Hin; right; exact Hv. }
    split.
    + rewrite IHl. apply upd_length.
    + intros i. rewrite IHn, nth_upd by exact Hu. cbn [filter].
      rewrite (Nat.eqb_sym i (fst u)).
      destruct (Nat.eqb_spec (fst u) i) as [He|He].
      * cbn [map fold_left]. rewrite He. reflexivity.
      * reflexivity.
Qed.

End Gen.

(** * Max folds *)
Section Ord.
Context {T : Type} (O : Ops T).
Hypothesis RT : ring_theory (zero O) (one O) (add O) (mul O) (sub O) (neg O) (@eq T).
Hypothesis OL : OrdLaws O.
Add Ring TringO : RT.

Notation "'oz'" := (zero O).
Notation "a [+] b" := (add O a b) (at level 50, left associativity).
Notation "a [<=] b" := (Ops.leb O a b = true) (at level 70).
Notation colget := (colget O).
Notation get := (get O).
Notation csc := (@csc T).
Notation col := (@col T).
Notation entry := (@entry T).
Notation maxabs := (maxabs O).

Let le_refl : forall a, a [<=] a := proj1 OL.
Let le_trans : forall a b c, a [<=] b -> b [<=] c -> a [<=] c := proj1 (proj2 OL).
Let le_antisym : forall a b, a [<=] b -> b [<=] a -> a = b := proj1 (proj2 (proj2 OL)).
Let le_total : forall a b, a [<=] b \/ b [<=] a := proj1 (proj2 (proj2 (proj2 OL))).
Let lt_def : forall a b, Ops.ltb O a b = negb (Ops.leb O b a) :=
  proj1 (proj2 (proj2 (proj2 (proj2 OL)))).
Let abs_nonneg : forall a, oz [<=] abs O a := proj1 (proj2 (proj2 (proj2 (proj2 (proj2 OL))))).
Let abs_zero : abs O oz = oz := proj2 (proj2 (proj2 (proj2 (proj2 (proj2 OL))))).

Lemma omax_cases a b : (omax O a b = a /\ b [<=] a) \/ (omax O a b = b /\ a [<=] b).
Proof.
  unfold omax. rewrite lt_def. destruct (Ops.leb O b a) eqn:E; cbn [negb].
  - left. split; reflexivity.
  - right. split; [reflexivity|]. destruct (le_total a b) as [H|H]; [exact H|].
    rewrite H in E. discriminate.
Qed.

Lemma fold_maxabs_spec (l : list T) m0 :
  let r := fold_left maxabs l m0 in
  m0 [<=] r /\ (forall v, In v l -> abs O v [<=] r) /\
  (r = m0 \/ exists v, In v l /\ r = abs O v).
Proof.
  revert m0; induction l as [|v l IH]; intros m0; cbn [fold_left].
  - split; [apply le_refl|]. split; [intros v []|]. left; reflexivity.
  - destruct (IH (maxabs m0 v)) as [H1 [H2 H3]].
    change (maxabs m0 v) with (omax O m0 (abs O v)) in H1, H2, H3 |- *.
    destruct (omax_cases m0 (abs O v)) as [[E Hle]|[E Hle]].
    + rewrite E in H1, H2, H3 |- *. split; [exact H1|]. split.
      * intros w [<-|Hw]; [eapply le_trans; eauto | apply H2; exact Hw].
      * destruct H3 as [H3|[w [Hw H3]]]; [left; exact H3|].
        right. exists w. split; [right; exact Hw | exact H3].
    + rewrite E in H1, H2, H3 |- *. split; [eapply le_trans; eauto|]. split.
      * intros w [<-|Hw]; [exact H1 | apply H2; exact Hw].
      * right. destruct H3 as [H3|[w [Hw H3]]].
        -- exists v. split; [left; reflexivity | exact H3].
        -- exists w. split; [right; exact Hw | exact H3].
Qed.

Lemma maxabs_unique_aux (m0 v v' : T) n (f : nat -> T) :
  is_maxabs_from O m0 v n f -> is_maxabs_from O m0 v' n f -> v = v'.
Proof.
  intros [H0 [Hub Hat]] [H0' [Hub' Hat']]. apply le_antisym.
  - destruct Hat as [->|[k [Hk ->]]]; [exact H0' | apply Hub'; exact Hk].
  - destruct Hat' as [->|[k [Hk ->]]]; [exact H0 | apply Hub; exact Hk].
Qed.

(** ** stored entries of a sorted column *)
Lemma colget_In (c : col) k v :
  strict_lt (map fst c) = true -> In (k, v) c -> colget c k = v.
Proof.
  induction c as [|e c IH]; intros Hs Hin; [contradiction|].
  cbn [map] in Hs. apply strict_lt_cons in Hs. destruct Hs as [Hlt Hs].
  rewrite colget_cons. destruct Hin as [->|Hin].
  - cbn [fst snd]. rewrite Nat.eqb_refl. rewrite (colget_zero O c k).
    + ring.
    + intros e He Heq. specialize (Hlt (fst e) (in_map fst c e He)). cbn [fst] in Hlt. lia.
  - specialize (Hlt k (in_map fst c (k, v) Hin)).
    destruct (Nat.eqb_spec (fst e) k) as [Heq|_]; [lia|]. apply IH; assumption.
Qed.

Lemma col_row_dec (c : col) k :
  (exists v, In (k, v) c) \/ (forall e, In e c -> fst e <> k).
Proof.
  induction c as [|e c IH].
  - right. intros e [].
  - destruct (Nat.eq_dec (fst e) k) as [Heq|Hne].
    + left. exists (snd e). left. destruct e; cbn [fst snd] in *. subst. reflexivity.
    + destruct IH as [[v Hv]|Hno].
      * left. exists v. right; exact Hv.
      * right. intros x [<-|Hx]; [exact Hne | apply Hno; exact Hx].
Qed.

(** a bound on all stored |values| of a sorted column bounds |colget| everywhere *)
Lemma abs_colget_le (c : col) k r :
  strict_lt (map fst c) = true -> oz [<=] r ->
  (forall v, In (k, v) c -> abs O v [<=] r) -> abs O (colget c k) [<=] r.
Proof.
  intros Hs H0 Hb. destruct (col_row_dec c k) as [[v Hv]|Hno].
  - rewrite (colget_In c k v Hs Hv). apply Hb. exact Hv.
  - rewrite (colget_zero O c k Hno), abs_zero. exact H0.
Qed.

Lemma canon_col (A : csc) j :
  Canonical A ->
  strict_lt (map fst (nth j (cols A) [])) = true /\
  forall e, In e (nth j (cols A) []) -> fst e < nr A.
Proof.
  intros HA. apply canonicalb_iff in HA. destruct HA as [_ HA].
  destruct (Nat.lt_ge_cases j (length (cols A))) as [Hj|Hj].
  - apply col_canonb_iff. apply HA. apply nth_In. exact Hj.
  - rewrite nth_overflow by exact Hj. split; [reflexivity | intros e []].
Qed.

Lemma canon_welldim (A : csc) : Canonical A -> WellDim A.
Proof. intros HA. apply canonicalb_iff in HA. exact (proj1 HA). Qed.

Lemma canon_rowsin (A : csc) : Canonical A -> RowsIn A.
Proof.
  intros HA. apply canonicalb_iff in HA. destruct HA as [_ HA].
  unfold RowsIn. apply Forall_forall. intros c Hc. apply Forall_forall.
  apply col_canonb_iff. apply HA. exact Hc.
Qed.

(** ** col_norms *)
Lemma col_norms_aux (A : csc) : Canonical A ->
  length (col_norms O A) = nc A /\
  forall j, j < nc A -> is_maxabs O (nth j (col_norms O A) oz) (nr A) (fun i => get A i j).
Proof.
  intros HA. pose proof (canon_welldim A HA) as HW. unfold WellDim in HW.
  unfold col_norms. split; [rewrite map_length; exact HW|].
  intros j Hj.
  match goal with |- is_maxabs O ?v0 _ _ => set (v := v0) end.
  assert (Hv : v = fold_left maxabs (map snd (nth j (cols A) [])) oz).
  { subst v. apply (map_nth (fun c : col => fold_left maxabs (map snd c) oz) (cols A) [] j). }
  rewrite Hv. clear Hv v.
  destruct (canon_col A j HA) as [Hs Hr]. set (c := nth j (cols A) []) in *.
  destruct (fold_maxabs_spec (map snd c) oz) as [H0 [Hub Hat]].
  split; [exact H0|]. split.
  - intros k _. unfold Model.get. fold c. apply abs_colget_le; auto.
    intros v Hv. apply Hub. apply (in_map snd c (k, v) Hv).
  - destruct Hat as [Hat|[v [Hv Hat]]]; [left; exact Hat|]. right.
    apply in_map_iff in Hv. destruct Hv as [e [<- He]].
    exists (fst e). split; [apply Hr; exact He|].
    unfold Model.get. fold c. rewrite (colget_In c (fst e) (snd e) Hs); [exact Hat|].
    destruct e; exact He.
Qed.

(** ** row_norms (from any non-negative start vector) *)
Lemma row_norms_from_aux (A : csc) (s : list T) : Canonical A ->
  (forall k, oz [<=] nth k s oz) -> length s = nr A ->
  length (row_norms_from O A s) = nr A /\
  forall i, i < nr A ->
    is_maxabs_from O (nth i s oz) (nth i (row_norms_from O A s) oz) (nc A) (fun j => get A i j).
Proof.
  intros HA Hs0 Hlen. pose proof (canon_welldim A HA) as HW. pose proof (canon_rowsin A HA) as HR.
  unfold WellDim in HW. unfold row_norms_from.
  change (fold_left (fun (s : list T) (e : nat * T) => upd O s (fst e) (fun t => maxabs t (snd e)))
            (concat (cols A)) s)
    with (apply_gen O maxabs (concat (cols A)) s).
  destruct (apply_gen_spec O maxabs (concat (cols A)) s) as [Hl Hn].
  { intros u Hu. rewrite Hlen. apply in_concat in Hu.
    destruct Hu as [c [Hc Hu]]. eapply rowsin_in; eauto. }
  split; [rewrite Hl; exact Hlen|].
  intros i Hi. rewrite Hn.
  set (us := filter (fun u : entry => fst u =? i) (concat (cols A))).
  destruct (fold_maxabs_spec (map snd us) (nth i s oz)) as [H0 [Hub Hat]].
  split; [exact H0|]. split.
  - intros j Hj. destruct (canon_col A j HA) as [Hs _]. unfold Model.get.
    apply abs_colget_le; [exact Hs | eapply le_trans; [apply Hs0 | exact H0] |].
    intros v Hv. apply Hub.
    apply (in_map snd us (i, v)). unfold us. apply filter_In. split.
    + apply in_concat. exists (nth j (cols A) []). split; [|exact Hv].
      apply nth_In. lia.
    + cbn [fst]. apply Nat.eqb_refl.
  - destruct Hat as [Hat|[v [Hv Hat]]]; [left; exact Hat|]. right.
    apply in_map_iff in Hv. destruct Hv as [e [<- He]].
    unfold us in He. apply filter_In in He. destruct He as [He Hei].
    apply Nat.eqb_eq in Hei. apply in_concat in He. destruct He as [c [Hc He]].
    destruct (In_nth (cols A) c [] Hc) as [j [Hj Hcj]].
    exists j. split; [lia|].
    destruct (canon_col A j HA) as [Hs _]. unfold Model.get.
    rewrite (colget_In (nth j (cols A) []) i (snd e) Hs); [exact Hat|].
    rewrite Hcj. destruct e; cbn [fst snd] in *. subst. exact He.
Qed.

Lemma repeat_nonneg n k : oz [<=] nth k (repeat oz n) oz.
Proof. rewrite nth_repeat. apply le_refl. Qed.

Lemma row_norms_aux (A : csc) : Canonical A ->
  length (row_norms O A) = nr A /\
  forall i, i < nr A -> is_maxabs O (nth i (row_norms O A) oz) (nc A) (fun j => get A i j).
Proof.
  intros HA.
  destruct (row_norms_from_aux A (repeat oz (nr A)) HA (repeat_nonneg (nr A)) (repeat_length oz (nr A)))
    as [Hl Hn].
  split; [exact Hl|]. intros i Hi. specialize (Hn i Hi). rewrite nth_repeat in Hn. exact Hn.
Qed.

(** ** col_norms_sym *)
Definition sym_upds (jc : nat * col) : col :=
  flat_map (fun e : entry => [(fst jc, snd e); (fst e, snd e)]) (snd jc).

Lemma col_norms_sym_as_upds (A : csc) (s : list T) :
  col_norms_sym_from O A s = apply_gen O maxabs (flat_map sym_upds (indexed (cols A))) s.
Proof.
  unfold col_norms_sym_from. rewrite <- apply_gen_flat. apply fold_left_ext.
  intros s0 jc _. destruct jc as [j c]. unfold sym_upds. cbn [fst snd].
  rewrite <- apply_gen_flat. apply fold_left_ext. intros s' e _. reflexivity.
Qed.

Lemma in_sym_upds (A : csc) (u : entry) :
  In u (flat_map sym_upds (indexed (cols A))) <->
  exists j e, j < length (cols A) /\ In e (nth j (cols A) []) /\
              (u = (j, snd e) \/ u = (fst e, snd e)).
Proof.
  rewrite in_flat_map. split.
  - intros [[j c] [Hjc Hu]]. unfold sym_upds in Hu. cbn [fst snd] in Hu.
    apply in_flat_map in Hu. destruct Hu as [e [He Hu]].
    rewrite (indexed_eq (cols A) []) in Hjc. apply in_map_iff in Hjc.
    destruct Hjc as [j' [Heq Hj']]. injection Heq as <- <-. apply in_seq in Hj'.
    exists j', e. split; [lia|]. split; [exact He|].
    destruct Hu as [<-|[<-|[]]]; [left | right]; reflexivity.
  - intros [j [e [Hj [He Hu]]]]. exists (j, nth j (cols A) []). split.
    + apply in_indexed_nth. exact Hj.
    + unfold sym_upds. cbn [fst snd]. apply in_flat_map. exists e. split; [exact He|].
      destruct Hu as [->| ->]; [left | right; left]; reflexivity.
Qed.

Lemma col_norms_sym_from_aux (A : csc) (s : list T) :
  Canonical A -> (forall k, oz [<=] nth k s oz) -> length s = nc A ->
  nr A = nc A -> is_triu A = true ->
  length (col_norms_sym_from O A s) = nc A /\
  forall j, j < nc A ->
    is_maxabs_from O (nth j s oz) (nth j (col_norms_sym_from O A s) oz) (nc A)
                   (fun i => symget O A i j).
Proof.
  intros HA Hs0 Hlen Hsq Htri. pose proof (canon_welldim A HA) as HW. unfold WellDim in HW.
  rewrite col_norms_sym_as_upds.
  destruct (apply_gen_spec O maxabs (flat_map sym_upds (indexed (cols A))) s)
    as [Hl Hn].
  { intros u Hu. rewrite Hlen. apply in_sym_upds in Hu.
    destruct Hu as [j [e [Hj [He Hu]]]].
    destruct (canon_col A j HA) as [_ Hr]. specialize (Hr e He).
    destruct Hu as [->| ->]; cbn [fst]; lia. }
  split; [rewrite Hl; exact Hlen|].
  intros i Hi. rewrite Hn.
  set (us := filter (fun u : entry => fst u =? i) (flat_map sym_upds (indexed (cols A)))).
  destruct (fold_maxabs_spec (map snd us) (nth i s oz)) as [H0 [Hub Hat]].
  assert (H00 : oz [<=] fold_left maxabs (map snd us) (nth i s oz)).
  { eapply le_trans; [apply Hs0 | exact H0]. }
  assert (Hin : forall j e, j < nc A -> In e (nth j (cols A) []) ->
                            (j = i \/ fst e = i) ->
                            abs O (snd e) [<=] fold_left maxabs (map snd us) (nth i s oz)).
  { intros j e Hj He Hor. apply Hub.
    destruct Hor as [Hji|Hei].
    - apply (in_map snd us (j, snd e)). unfold us. apply filter_In. split.
      + apply in_sym_upds. exists j, e. split; [lia|]. split; [exact He | left; reflexivity].
      + cbn [fst]. apply Nat.eqb_eq. exact Hji.
    - apply (in_map snd us (fst e, snd e)). unfold us. apply filter_In. split.
      + apply in_sym_upds. exists j, e. split; [lia|]. split; [exact He | right; reflexivity].
      + cbn [fst]. apply Nat.eqb_eq. exact Hei. }
  split; [exact H0|]. split.
  - intros k Hk. unfold symget. destruct (Nat.leb_spec k i) as [Hki|Hki].
    + destruct (canon_col A i HA) as [Hs _]. unfold Model.get.
      apply abs_colget_le; [exact Hs | exact H00 |]. intros v Hv.
      apply (Hin i (k, v) Hi Hv). left; reflexivity.
    + destruct (canon_col A k HA) as [Hs _]. unfold Model.get.
      apply abs_colget_le; [exact Hs | exact H00 |]. intros v Hv.
      apply (Hin k (i, v) Hk Hv). right; reflexivity.
  - destruct Hat as [Hat|[v [Hv Hat]]]; [left; exact Hat|]. right.
    apply in_map_iff in Hv. destruct Hv as [u [<- Hu]].
    unfold us in Hu. apply filter_In in Hu. destruct Hu as [Hu Hui].
    apply Nat.eqb_eq in Hui. apply in_sym_upds in Hu.
    destruct Hu as [j [e [Hj [He Hu]]]].
    destruct (canon_col A j HA) as [Hs Hr]. specialize (Hr e He).
    pose proof (is_triu_in A j e Htri He) as Hle.
    assert (Hget : get A (fst e) j = snd e).
    { unfold Model.get. apply colget_In; [exact Hs|]. destruct e; exact He. }
    destruct Hu as [->| ->]; cbn [fst snd] in Hui, Hat.
    + (* update of norms[col]: entry (fst e, j) with j = i *)
      subst j. exists (fst e). split; [lia|]. unfold symget.
      destruct (Nat.leb_spec (fst e) i) as [_|Hc]; [|lia]. rewrite Hget. exact Hat.
    + (* update of norms[row]: entry (i, j) with i <= j *)
      exists j. split; [lia|]. unfold symget. rewrite Hui in Hget, Hle.
      destruct (Nat.leb_spec j i) as [Hji|_].
      * assert (j = i) by lia. subst j. rewrite Hget. exact Hat.
      * rewrite Hget. exact Hat.
Qed.

Lemma col_norms_sym_aux (A : csc) : Canonical A -> nr A = nc A -> is_triu A = true ->
  length (col_norms_sym O A) = nc A /\
  forall j, j < nc A ->
    is_maxabs O (nth j (col_norms_sym O A) oz) (nc A) (fun i => symget O A i j).
Proof.
  intros HA Hsq Htri.
  destruct (col_norms_sym_from_aux A (repeat oz (nc A)) HA (repeat_nonneg (nc A))
              (repeat_length oz (nc A)) Hsq Htri) as [Hl Hn].
  split; [exact Hl|]. intros j Hj. specialize (Hn j Hj). rewrite nth_repeat in Hn. exact Hn.
Qed.

(** ** col_norms from a start vector *)
Lemma col_norms_from_aux (A : csc) (s : list T) : Canonical A ->
  (forall k, oz [<=] nth k s oz) -> length s = nc A ->
  length (col_norms_from O A s) = nc A /\
  forall j, j < nc A ->
    is_maxabs_from O (nth j s oz) (nth j (col_norms_from O A s) oz) (nr A) (fun i => get A i j).
Proof.
  intros HA Hs0 Hlen. pose proof (canon_welldim A HA) as HW. unfold WellDim in HW.
  unfold col_norms_from. split.
  { rewrite map_length, combine_length. lia. }
  intros j Hj.
  match goal with |- is_maxabs_from O _ ?v0 _ _ => set (v := v0) end.
  assert (Hv : v = fold_left maxabs (map snd (nth j (cols A) [])) (nth j s oz)).
  { subst v.
    rewrite (nth_indep _ oz ((fun sc : T * col => fold_left maxabs (map snd (snd sc)) (fst sc)) (oz, [])))
      by (rewrite map_length, combine_length; lia).
    rewrite (map_nth (fun sc : T * col => fold_left maxabs (map snd (snd sc)) (fst sc))).
    rewrite combine_nth by (transitivity (nc A); [exact Hlen | symmetry; exact HW]).
    reflexivity. }
  rewrite Hv. clear Hv v.
  destruct (canon_col A j HA) as [Hs Hr]. set (c := nth j (cols A) []) in *.
  destruct (fold_maxabs_spec (map snd c) (nth j s oz)) as [H0 [Hub Hat]].
  split; [exact H0|]. split.
  - intros k _. unfold Model.get. fold c.
    apply abs_colget_le; [exact Hs | eapply le_trans; [apply Hs0 | exact H0] |].
    intros v Hv. apply Hub. apply (in_map snd c (k, v) Hv).
  - destruct Hat as [Hat|[v [Hv Hat]]]; [left; exact Hat|]. right.
    apply in_map_iff in Hv. destruct Hv as [e [<- He]].
    exists (fst e). split; [apply Hr; exact He|].
    unfold Model.get. fold c. rewrite (colget_In c (fst e) (snd e) Hs); [exact Hat|].
    destruct e; exact He.
Qed.

End Ord.

(** * The statements *)
Lemma maxabs_unique_ok {T} (O : Ops T) : stmt_maxabs_unique O.
Proof. intros OL m0 v v' n f. apply maxabs_unique_aux. exact OL. Qed.

Lemma norms_from_ok {T} (O : Ops T) : stmt_norms_from O.
Proof.
  intros [RT _] OL A s HA Hs0. split; [|split].
  - intros Hlen. apply col_norms_from_aux; assumption.
  - intros Hlen. apply row_norms_from_aux; assumption.
  - intros Hlen Hsq Htri. apply col_norms_sym_from_aux; assumption.
Qed.

Lemma col_norms_ok {T} (O : Ops T) : stmt_col_norms O.
Proof. intros [RT _] OL A. apply col_norms_aux; assumption. Qed.

Lemma row_norms_ok {T} (O : Ops T) : stmt_row_norms O.
Proof. intros [RT _] OL A. apply row_norms_aux; assumption. Qed.

Lemma col_norms_sym_ok {T} (O : Ops T) : stmt_col_norms_sym O.
Proof. intros [RT _] OL A. apply col_norms_sym_aux; assumption. Qed.

Print Assumptions OrdLawsZ.
Print Assumptions OrdLawsR.
Print Assumptions maxabs_unique_ok.
Print Assumptions col_norms_ok.
Print Assumptions row_norms_ok.
Print Assumptions col_norms_sym_ok.
Print Assumptions norms_from_ok.
