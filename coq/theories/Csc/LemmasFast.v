(** The coded coefficient branches of gemv / gemv_T (a, b in {0, 1, -1, other}) and the coded
    symv equal the one-formula models (Csc/Spec.v: [stmt_scale_fast], [stmt_fast_paths],
    [stmt_fast_branches], [stmt_gemv_fast_dense]); the unchecked indexing of the symv kernel is
    in bounds on every square matrix accepted by check_format ([stmt_symv_in_bounds]). *)
From Coq Require Import List Arith Lia Bool Ring.
Import ListNotations.
Require Import Clarabel.Base.Ops Clarabel.Csc.Model Clarabel.Csc.Spec.
Require Import Clarabel.Csc.LemmasAlgBase Clarabel.Csc.LemmasAlgFmt Clarabel.Csc.LemmasAlg.
Require Import Clarabel.Csc.LemmasSym Clarabel.Csc.LemmasOrd.

(** * list helpers *)
Lemma set_nth_same {X} (l : list X) k d : set_nth l k (nth k l d) = l.
Proof.
  revert k; induction l as [|a l IH]; intros [|k]; cbn [set_nth nth]; try reflexivity.
  rewrite IH. reflexivity.
Qed.

Lemma fold_left_id {A B} (f : A -> B -> A) (l : list B) a :
  (forall a0 x, In x l -> f a0 x = a0) -> fold_left f l a = a.
Proof.
  induction l as [|x l IH]; intros H; cbn [fold_left]; [reflexivity|].
  rewrite H by (left; reflexivity). apply IH. intros a0 y Hy. apply H. right; exact Hy.
Qed.

Lemma indexed_map_gen {X Y} (g : X -> Y) (l : list X) s :
  combine (seq s (length (map g l))) (map g l) =
  map (fun jx => (fst jx, g (snd jx))) (combine (seq s (length l)) l).
Proof.
  revert s; induction l as [|a l IH]; intros s; cbn [map length seq combine]; [reflexivity|].
  cbn [fst snd]. f_equal. apply IH.
Qed.

Lemma indexed_map {X Y} (g : X -> Y) (l : list X) :
  indexed (map g l) = map (fun jx => (fst jx, g (snd jx))) (indexed l).
Proof. unfold indexed. apply indexed_map_gen. Qed.

Lemma map_snd_indexed_gen {X} (l : list X) s : map snd (combine (seq s (length l)) l) = l.
Proof.
  revert s; induction l as [|a l IH]; intros s; cbn [length seq combine map snd]; [reflexivity|].
  rewrite IH. reflexivity.
Qed.

Lemma map_snd_indexed {X} (l : list X) : map snd (indexed l) = l.
Proof. unfold indexed. apply map_snd_indexed_gen. Qed.

Section Fast.
Context {T : Type} (O : Ops T).
Hypothesis RT : ring_theory (zero O) (one O) (add O) (mul O) (sub O) (neg O) (@eq T).
Hypothesis EQ : forall a b : T, eqb O a b = true <-> a = b.
Add Ring TringF : RT.

Notation "'oz'" := (zero O).
Notation "a [+] b" := (add O a b) (at level 50, left associativity).
Notation "a [*] b" := (mul O a b) (at level 40, left associativity).
Notation csc := (@csc T).
Notation col := (@col T).
Notation entry := (@entry T).

Lemma classify_spec (c : T) :
  match classify_coef O c with
  | CZero => c = oz
  | COne => c = one O
  | CMinusOne => c = neg O (one O)
  | CGeneral => True
  end.
Proof.
  unfold classify_coef.
  destruct (eqb O c oz) eqn:E0; [apply EQ; exact E0|].
  destruct (eqb O c (one O)) eqn:E1; [apply EQ; exact E1|].
  destruct (eqb O c (neg O (one O))) eqn:E2; [apply EQ; exact E2|]. exact I.
Qed.

Lemma classify_zero : classify_coef O oz = CZero.
Proof.
  unfold classify_coef. destruct (eqb O oz oz) eqn:E; [reflexivity|].
  assert (H : eqb O oz oz = true) by (apply EQ; reflexivity). rewrite H in E. discriminate.
Qed.

Lemma scale_fast_aux (b : T) (y : list T) : scale_fast O b y = map (fun t => b [*] t) y.
Proof.
  unfold scale_fast. pose proof (classify_spec b) as Hc.
  destruct (classify_coef O b).
  - apply map_ext. intros t. rewrite Hc. ring.
  - rewrite <- (map_id y) at 1. apply map_ext. intros t. rewrite Hc. ring.
  - apply map_ext. intros t. rewrite Hc. ring.
  - apply map_ext. intros t. ring.
Qed.

Lemma upd_ext (y : list T) i (f g : T -> T) :
  f (nth i y oz) = g (nth i y oz) -> upd O y i f = upd O y i g.
Proof. intros H. unfold upd. rewrite H. reflexivity. Qed.

Lemma upd_same (y : list T) i (f : T -> T) : f (nth i y oz) = nth i y oz -> upd O y i f = y.
Proof. intros H. unfold upd. rewrite H. apply set_nth_same. Qed.

Lemma scatter_ext (s1 s2 : T -> T -> T -> T) (A : csc) x y0 :
  (forall v xj t, s1 v xj t = s2 v xj t) -> scatter O s1 A x y0 = scatter O s2 A x y0.
Proof.
  intros H. unfold scatter. apply fold_left_ext. intros y jc _.
  apply fold_left_ext. intros y' e _. apply upd_ext. apply H.
Qed.

Lemma scatter_id (s : T -> T -> T -> T) (A : csc) x y0 :
  (forall v xj t, s v xj t = t) -> scatter O s A x y0 = y0.
Proof.
  intros H. unfold scatter. apply fold_left_id. intros y jc _.
  apply fold_left_id. intros y' e _. apply upd_same. apply H.
Qed.

Lemma gemv_is_scatter (A : csc) x y a b :
  gemv O A x y a b =
  scatter O (fun v xj t => t [+] a [*] v [*] xj) A x (map (fun t => b [*] t) y).
Proof. reflexivity. Qed.

Lemma gemv_fast_aux (A : csc) x y a b : gemv_fast O A x y a b = gemv O A x y a b.
Proof.
  rewrite gemv_is_scatter. unfold gemv_fast. cbv zeta. rewrite scale_fast_aux.
  pose proof (classify_spec a) as Hc. destruct (classify_coef O a).
  - symmetry. apply scatter_id. intros v xj t. rewrite Hc. ring.
  - apply scatter_ext. intros v xj t. rewrite Hc. ring.
  - apply scatter_ext. intros v xj t. rewrite Hc. ring.
  - reflexivity.
Qed.

Lemma gather_ext (s1 s2 : T -> T -> T -> T) (A : csc) x y0 :
  (forall v xr t, s1 v xr t = s2 v xr t) -> gather O s1 A x y0 = gather O s2 A x y0.
Proof.
  intros H. unfold gather. apply map_ext. intros jy.
  apply fold_left_ext. intros t e _. apply H.
Qed.

Lemma gather_id (s : T -> T -> T -> T) (A : csc) x y0 :
  (forall v xr t, s v xr t = t) -> gather O s A x y0 = y0.
Proof.
  intros H. unfold gather. transitivity (map snd (indexed y0)); [|apply map_snd_indexed].
  apply map_ext. intros jy. apply fold_left_id. intros t e _. apply H.
Qed.

Lemma gemv_T_is_gather (A : csc) x y a b :
  gemv_T O A x y a b =
  gather O (fun v xr t => t [+] a [*] v [*] xr) A x (map (fun t => b [*] t) y).
Proof.
  unfold gemv_T, gather. rewrite indexed_map, map_map. reflexivity.
Qed.

Lemma gemv_T_fast_aux (A : csc) x y a b : gemv_T_fast O A x y a b = gemv_T O A x y a b.
Proof.
  rewrite gemv_T_is_gather. unfold gemv_T_fast. cbv zeta. rewrite scale_fast_aux.
  pose proof (classify_spec a) as Hc. destruct (classify_coef O a).
  - symmetry. apply gather_id. intros v xr t. rewrite Hc. ring.
  - apply gather_ext. intros v xr t. rewrite Hc. ring.
  - apply gather_ext. intros v xr t. rewrite Hc. ring.
  - reflexivity.
Qed.

Lemma symv_coded_aux (A : csc) x y a b : symv_coded O A x y a b = symv O A x y a b.
Proof.
  unfold symv_coded, symv.
  replace (map (fun t => t [*] b) y) with (map (fun t => b [*] t) y); [reflexivity|].
  apply map_ext. intros t. ring.
Qed.

Lemma fast_branches_aux (A : csc) (x y : list T) (a b : T) :
  (a = oz -> gemv_fast O A x y a b = scale_fast O b y /\
             gemv_T_fast O A x y a b = scale_fast O b y) /\
  (b = oz -> scale_fast O b y = map (fun _ => oz) y) /\
  (b = one O -> scale_fast O b y = y) /\
  (classify_coef O a = COne ->
     gemv_fast O A x y a b = scatter O (fun v xj t => t [+] v [*] xj) A x (scale_fast O b y)) /\
  (classify_coef O a = CMinusOne ->
     gemv_fast O A x y a b =
     scatter O (fun v xj t => sub O t (v [*] xj)) A x (scale_fast O b y)) /\
  (classify_coef O a = CGeneral ->
     gemv_fast O A x y a b =
     scatter O (fun v xj t => t [+] a [*] v [*] xj) A x (scale_fast O b y)).
Proof.
  split; [|split; [|split; [|split; [|split]]]].
  - intros ->. split.
    + unfold gemv_fast. rewrite classify_zero. reflexivity.
    + unfold gemv_T_fast. rewrite classify_zero. reflexivity.
  - intros ->. unfold scale_fast. rewrite classify_zero. reflexivity.
  - intros ->. rewrite scale_fast_aux. rewrite <- (map_id y) at 2.
    apply map_ext. intros t. ring.
  - intros H. unfold gemv_fast. rewrite H. reflexivity.
  - intros H. unfold gemv_fast. rewrite H. reflexivity.
  - intros H. unfold gemv_fast. rewrite H. reflexivity.
Qed.

(** ** the unchecked accesses of symv *)
Lemma symv_trace_in_bounds (A : csc) :
  RowsIn A -> WellDim A -> nr A = nc A -> Forall (fun k => k < nc A) (symv_trace A).
Proof.
  intros HR HW Hsq. unfold WellDim in HW. apply Forall_forall. intros k Hk.
  unfold symv_trace in Hk. apply in_flat_map in Hk. destruct Hk as [[j c] [Hjc Hk]].
  apply in_indexed in Hjc. destruct Hjc as [Hj Hc]. cbn [fst snd] in Hk.
  apply in_flat_map in Hk. destruct Hk as [e [He Hk]].
  pose proof (rowsin_in A c e HR Hc He) as Hr.
  assert (Hj' : j < nc A) by (rewrite <- HW; exact Hj).
  destruct Hk as [<-|[<-|[]]]; [rewrite <- Hsq; exact Hr | exact Hj'].
Qed.

End Fast.

(** * The statements *)
Lemma scale_fast_ok {T} (O : Ops T) : stmt_scale_fast O.
Proof. intros [RT EQ] b y. apply scale_fast_aux; assumption. Qed.

Lemma fast_paths_ok {T} (O : Ops T) : stmt_fast_paths O.
Proof.
  intros [RT EQ] A x y a b. split; [|split].
  - apply gemv_fast_aux; assumption.
  - apply gemv_T_fast_aux; assumption.
  - apply symv_coded_aux; assumption.
Qed.

Lemma fast_branches_ok {T} (O : Ops T) : stmt_fast_branches O.
Proof. intros [RT EQ] A x y a b. apply fast_branches_aux; assumption. Qed.

Lemma gemv_fast_dense_ok {T} (O : Ops T) : stmt_gemv_fast_dense O.
Proof.
  intros HL A x y a b HW HR. destruct (fast_paths_ok O HL A x y a b) as [E1 [E2 E3]].
  rewrite E1, E2, E3. split; [|split].
  - intros Hy. exact (proj2 (gemv_ok O HL A x y a b HW HR Hy)).
  - intros Hy. exact (proj2 (gemv_T_ok O HL A x y a b HW HR Hy)).
  - intros Hy Hsq Htri. exact (proj2 (symv_ok O HL A x y a b HW HR Hsq Htri Hy)).
Qed.

Lemma symv_in_bounds_ok {T} : stmt_symv_in_bounds (T:=T).
Proof.
  split.
  - intros A HR HW Hsq. apply symv_trace_in_bounds; assumption.
  - intros r Hf Hsq. apply check_format_ok_iff in Hf.
    pose proof (rawok_canonical r Hf) as HC. destruct Hf as [_ Hp _ _ _ _ Hrows].
    split; [exact Hp|]. split.
    + apply Forall_forall. intros i Hi. rewrite forallb_forall in Hrows.
      specialize (Hrows i Hi). apply Nat.ltb_lt in Hrows. lia.
    + apply (symv_trace_in_bounds (decode r)).
      * apply canon_rowsin. exact HC.
      * apply canon_welldim. exact HC.
      * exact Hsq.
Qed.

Print Assumptions scale_fast_ok.
Print Assumptions fast_paths_ok.
Print Assumptions fast_branches_ok.
Print Assumptions gemv_fast_dense_ok.
Print Assumptions symv_in_bounds_ok.
