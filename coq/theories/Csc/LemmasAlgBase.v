(** Helper facts for Csc/LemmasAlg.v: sums over a commutative ring, [colget], list
    indexing, and the "list of pending updates" view of the scatter loops. *)
From Coq Require Import List Arith Lia Bool Sorted Permutation Ring.
Import ListNotations.
Require Import Clarabel.Base.Ops Clarabel.Csc.Model Clarabel.Csc.Spec.

(** * Pure list facts (no ring) *)
Section Lists.
Context {X : Type}.

Lemma set_nth_length (l : list X) k x : length (set_nth l k x) = length l.
Proof.
  revert k; induction l as [|a l IH]; intros [|k]; cbn [set_nth length]; auto.
Qed.

Lemma nth_set_nth (l : list X) k x i d :
  k < length l -> nth i (set_nth l k x) d = if i =? k then x else nth i l d.
Proof.
  revert k i; induction l as [|a l IH]; intros k i Hk; cbn [length] in Hk; [lia|].
  destruct k as [|k]; destruct i as [|i]; cbn [set_nth nth Nat.eqb]; auto.
  apply IH; lia.
Qed.

Lemma indexed_gen (l : list X) (d : X) s :
  combine (seq s (length l)) l = map (fun j => (j, nth (j - s) l d)) (seq s (length l)).
Proof.
  revert s; induction l as [|a l IH]; intros s; cbn [length seq combine map]; auto.
  f_equal.
  - rewrite Nat.sub_diag; reflexivity.
  - rewrite IH. apply map_ext_in. intros j Hj. apply in_seq in Hj.
    replace (j - s) with (S (j - S s)) by lia. reflexivity.
Qed.

Lemma indexed_eq (l : list X) (d : X) :
  indexed l = map (fun j => (j, nth j l d)) (seq 0 (length l)).
Proof.
  unfold indexed. rewrite (indexed_gen l d 0). apply map_ext. intros j.
  rewrite Nat.sub_0_r; reflexivity.
Qed.

Lemma in_indexed (l : list X) j c : In (j, c) (indexed l) -> j < length l /\ In c l.
Proof.
  intros H. split.
  - apply in_combine_l in H. apply in_seq in H. lia.
  - apply in_combine_r in H. exact H.
Qed.

Lemma indexed_length (l : list X) : length (indexed l) = length l.
Proof. unfold indexed. rewrite combine_length, seq_length. lia. Qed.

Lemma fold_left_ext {A B} (f g : A -> B -> A) l a :
  (forall a x, In x l -> f a x = g a x) -> fold_left f l a = fold_left g l a.
Proof.
  revert a; induction l as [|x l IH]; intros a H; cbn [fold_left]; auto.
  rewrite H by (left; reflexivity). apply IH. intros; apply H; right; auto.
Qed.

Lemma fold_left_map {A B C} (f : A -> C -> A) (g : B -> C) l a :
  fold_left f (map g l) a = fold_left (fun a x => f a (g x)) l a.
Proof. revert a; induction l as [|x l IH]; intros a; cbn [map fold_left]; auto. Qed.

Lemma map_nth_seq (l : list X) (d : X) : map (fun j => nth j l d) (seq 0 (length l)) = l.
Proof.
  induction l as [|x l IH]; [reflexivity|].
  cbn [length seq map nth]. f_equal. rewrite <- seq_shift, map_map. exact IH.
Qed.

Lemma in_indexed_nth (l : list X) (d : X) j : j < length l -> In (j, nth j l d) (indexed l).
Proof.
  intros Hj. rewrite (indexed_eq l d).
  apply (in_map (fun j => (j, nth j l d))). apply in_seq. lia.
Qed.

End Lists.

Lemma nth_map_seq {Y} (f : nat -> Y) n j d : j < n -> nth j (map f (seq 0 n)) d = f j.
Proof.
  intros Hj. rewrite (nth_indep _ d (f 0)) by (rewrite map_length, seq_length; lia).
  rewrite map_nth. rewrite seq_nth by lia. reflexivity.
Qed.

Lemma nth_map_indexed {X Y} (F : nat * X -> Y) (l : list X) j (dx : X) (d : Y) :
  j < length l -> nth j (map F (indexed l)) d = F (j, nth j l dx).
Proof.
  intros Hj. rewrite (indexed_eq l dx), map_map. rewrite nth_map_seq by lia. reflexivity.
Qed.

Lemma nth_map_indexed_over {X Y} (F : nat * X -> Y) (l : list X) j (d : Y) :
  length l <= j -> nth j (map F (indexed l)) d = d.
Proof.
  intros Hj. apply nth_overflow. rewrite map_length, indexed_length. lia.
Qed.

Lemma forallb_map_indexed {X Y} (P : Y -> bool) (Q : X -> bool) (F : nat * X -> Y) (l : list X) :
  (forall j c, P (F (j, c)) = Q c) ->
  forallb P (map F (indexed l)) = forallb Q l.
Proof.
  intros H. unfold indexed. generalize 0 as s.
  induction l as [|c l IH]; intros s; cbn [length seq combine map forallb]; auto.
  rewrite H, IH. reflexivity.
Qed.

(** * strict_lt / mono_le *)
Lemma strict_lt_cons a l :
  strict_lt (a :: l) = true <-> (forall x, In x l -> a < x) /\ strict_lt l = true.
Proof.
  revert a; induction l as [|b l IH]; intros a.
  - cbn. split; auto. intros _. split; auto. intros x [].
  - change (strict_lt (a :: b :: l)) with ((a <? b) && strict_lt (b :: l)).
    rewrite andb_true_iff, Nat.ltb_lt. split.
    + intros [Hab Hs]. split; auto. intros x [<-|Hx]; auto.
      apply IH in Hs. destruct Hs as [Hs _]. specialize (Hs x Hx). lia.
    + intros [Hall Hs]. split; auto. apply Hall. left; reflexivity.
Qed.

Lemma strict_lt_app l1 l2 k :
  strict_lt l1 = true -> strict_lt l2 = true ->
  (forall x, In x l1 -> x < k) -> (forall y, In y l2 -> k <= y) ->
  strict_lt (l1 ++ l2) = true.
Proof.
  induction l1 as [|a l1 IH]; intros H1 H2 Hlt Hge; cbn [app]; auto.
  apply strict_lt_cons in H1. destruct H1 as [Ha H1].
  apply strict_lt_cons. split.
  - intros x Hx. apply in_app_or in Hx. destruct Hx as [Hx|Hx]; auto.
    specialize (Hlt a (or_introl eq_refl)). specialize (Hge x Hx). lia.
  - apply IH; auto. intros x Hx. apply Hlt. right; auto.
Qed.

Lemma strict_lt_map_add k l : strict_lt (map (fun x => k + x) l) = strict_lt l.
Proof.
  induction l as [|a l IH]; auto.
  destruct l as [|b l]; auto.
  change (map (fun x => k + x) (a :: b :: l))
    with ((k + a) :: (k + b) :: map (fun x => k + x) l).
  change (strict_lt ((k + a) :: (k + b) :: map (fun x => k + x) l))
    with ((k + a <? k + b) && strict_lt (map (fun x => k + x) (b :: l))).
  rewrite IH. change (strict_lt (a :: b :: l)) with ((a <? b) && strict_lt (b :: l)).
  f_equal. destruct (Nat.ltb_spec a b), (Nat.ltb_spec (k + a) (k + b)); auto; lia.
Qed.

Lemma mono_le_step l i :
  mono_le l = true -> S i < length l -> nth i l 0 <= nth (S i) l 0.
Proof.
  revert i; induction l as [|a l IH]; intros i Hm Hi; cbn [length] in Hi; [lia|].
  destruct l as [|b l]; [cbn in Hi; lia|].
  change (mono_le (a :: b :: l)) with ((a <=? b) && mono_le (b :: l)) in Hm.
  apply andb_true_iff in Hm. destruct Hm as [Hab Hm]. apply Nat.leb_le in Hab.
  destruct i as [|i]; [exact Hab|].
  change (nth (S i) (a :: b :: l) 0) with (nth i (b :: l) 0).
  change (nth (S (S i)) (a :: b :: l) 0) with (nth (S i) (b :: l) 0).
  apply IH; auto. cbn [length] in *. lia.
Qed.

Lemma mono_le_nth l i j :
  mono_le l = true -> i <= j -> j < length l -> nth i l 0 <= nth j l 0.
Proof.
  intros Hm Hij Hj. induction j as [|j IH].
  - replace i with 0 by lia. auto.
  - destruct (Nat.eq_dec i (S j)) as [->|Hne]; auto.
    transitivity (nth j l 0).
    + apply IH; lia.
    + apply mono_le_step; auto.
Qed.

(** * Ring-dependent facts *)
Section Ring.
Context {T : Type} (O : Ops T).
Hypothesis RT : ring_theory (zero O) (one O) (add O) (mul O) (sub O) (neg O) (@eq T).
Add Ring Tring : RT.

Notation "'oz'" := (zero O).
Notation "a [+] b" := (add O a b) (at level 50, left associativity).
Notation "a [*] b" := (mul O a b) (at level 40, left associativity).
Notation sumT := (sumT O).
Notation colget := (colget O).
Notation col := (@col T).
Notation entry := (@entry T).

Lemma sumT_cons a l : sumT (a :: l) = a [+] sumT l.
Proof. reflexivity. Qed.

Lemma sumT_app l1 l2 : sumT (l1 ++ l2) = sumT l1 [+] sumT l2.
Proof.
  induction l1 as [|a l1 IH]; cbn [app].
  - change (sumT []) with oz. ring.
  - rewrite !sumT_cons, IH. ring.
Qed.

Lemma sumT_map_add {X} (f g : X -> T) l :
  sumT (map (fun x => f x [+] g x) l) = sumT (map f l) [+] sumT (map g l).
Proof.
  induction l as [|a l IH]; cbn [map].
  - change (sumT []) with oz. ring.
  - rewrite !sumT_cons, IH. ring.
Qed.

Lemma sumT_map_mul_l {X} k (f : X -> T) l :
  sumT (map (fun x => k [*] f x) l) = k [*] sumT (map f l).
Proof.
  induction l as [|a l IH]; cbn [map].
  - change (sumT []) with oz. ring.
  - rewrite !sumT_cons, IH. ring.
Qed.

Lemma sumT_map_mul_r {X} k (f : X -> T) l :
  sumT (map (fun x => f x [*] k) l) = sumT (map f l) [*] k.
Proof.
  induction l as [|a l IH]; cbn [map].
  - change (sumT []) with oz. ring.
  - rewrite !sumT_cons, IH. ring.
Qed.

Lemma sumT_map_neg {X} (f : X -> T) l :
  sumT (map (fun x => neg O (f x)) l) = neg O (sumT (map f l)).
Proof.
  induction l as [|a l IH]; cbn [map].
  - change (sumT []) with oz. ring.
  - rewrite !sumT_cons, IH. ring.
Qed.

Lemma sumT_map_zero {X} (f : X -> T) l :
  (forall x, In x l -> f x = oz) -> sumT (map f l) = oz.
Proof.
  induction l as [|a l IH]; intros H; cbn [map]; auto.
  rewrite sumT_cons, H by (left; reflexivity). rewrite IH by (intros; apply H; right; auto).
  ring.
Qed.

Lemma sumT_map_ext {X} (f g : X -> T) l :
  (forall x, In x l -> f x = g x) -> sumT (map f l) = sumT (map g l).
Proof. intros H. f_equal. apply map_ext_in. exact H. Qed.

Lemma sumT_swap {X Y} (F : X -> Y -> T) la lb :
  sumT (map (fun a => sumT (map (fun b => F a b) lb)) la) =
  sumT (map (fun b => sumT (map (fun a => F a b) la)) lb).
Proof.
  induction la as [|a la IH]; cbn [map].
  - change (sumT []) with oz. symmetry. apply sumT_map_zero. auto.
  - rewrite sumT_cons, IH.
    rewrite <- sumT_map_add. apply sumT_map_ext. intros b _. reflexivity.
Qed.

Lemma sumT_indicator k (v : T) s n :
  sumT (map (fun i => if k =? i then v else oz) (seq s n)) =
  if (s <=? k) && (k <? s + n) then v else oz.
Proof.
  revert s; induction n as [|n IH]; intros s; cbn [seq map].
  - change (sumT []) with oz.
    destruct (Nat.leb_spec s k), (Nat.ltb_spec k (s + 0)); cbn; auto; lia.
  - rewrite sumT_cons, IH.
    destruct (Nat.eqb_spec k s) as [->|Hne].
    + rewrite Nat.leb_refl.
      destruct (Nat.leb_spec (S s) s); [lia|].
      destruct (Nat.ltb_spec s (s + S n)); [|lia]. cbn. ring.
    + destruct (Nat.leb_spec s k), (Nat.leb_spec (S s) k),
        (Nat.ltb_spec k (S s + n)), (Nat.ltb_spec k (s + S n)); cbn; try lia; ring.
Qed.

Lemma sum_upto_indicator k (v : T) n :
  k < n -> sum_upto O n (fun i => if k =? i then v else oz) = v.
Proof.
  intros Hk. unfold sum_upto. rewrite sumT_indicator.
  destruct (Nat.ltb_spec k (0 + n)); [|lia]. reflexivity.
Qed.

Lemma sum_upto_ext n (f g : nat -> T) :
  (forall i, i < n -> f i = g i) -> sum_upto O n f = sum_upto O n g.
Proof.
  intros H. unfold sum_upto. apply sumT_map_ext. intros i Hi. apply in_seq in Hi.
  apply H. lia.
Qed.

Lemma sum_upto_add n (f g : nat -> T) :
  sum_upto O n (fun i => f i [+] g i) = sum_upto O n f [+] sum_upto O n g.
Proof. unfold sum_upto. apply sumT_map_add. Qed.

Lemma sum_upto_mul_l n k (f : nat -> T) :
  sum_upto O n (fun i => k [*] f i) = k [*] sum_upto O n f.
Proof. unfold sum_upto. apply sumT_map_mul_l. Qed.

Lemma sum_upto_swap n m (F : nat -> nat -> T) :
  sum_upto O n (fun i => sum_upto O m (fun j => F i j)) =
  sum_upto O m (fun j => sum_upto O n (fun i => F i j)).
Proof. unfold sum_upto. apply sumT_swap. Qed.

Lemma sumT_indexed {X} (F : nat * X -> T) (l : list X) (d : X) :
  sumT (map F (indexed l)) = sum_upto O (length l) (fun j => F (j, nth j l d)).
Proof. unfold sum_upto. rewrite (indexed_eq l d), map_map. reflexivity. Qed.

(** ** colget *)
Lemma colget_nil i : colget [] i = oz.
Proof. reflexivity. Qed.

Lemma colget_cons (e : entry) (c : col) i :
  colget (e :: c) i = if fst e =? i then snd e [+] colget c i else colget c i.
Proof.
  unfold Model.colget. cbn [filter]. destruct (fst e =? i); reflexivity.
Qed.

Lemma colget_app (c1 c2 : col) i : colget (c1 ++ c2) i = colget c1 i [+] colget c2 i.
Proof.
  unfold Model.colget. rewrite filter_app, map_app, sumT_app. reflexivity.
Qed.

Lemma colget_zero (c : col) i : (forall e, In e c -> fst e <> i) -> colget c i = oz.
Proof.
  intros H. induction c as [|e c IH]; [reflexivity|].
  rewrite colget_cons. destruct (Nat.eqb_spec (fst e) i) as [He|He].
  - exfalso. apply (H e); auto. left; reflexivity.
  - apply IH. intros; apply H; right; auto.
Qed.

Lemma colget_shift k (c : col) i :
  colget (shift_rows k c) i = if i <? k then oz else colget c (i - k).
Proof.
  induction c as [|e c IH].
  - cbn [shift_rows map]. rewrite !colget_nil. destruct (i <? k); reflexivity.
  - change (shift_rows k (e :: c)) with ((k + fst e, snd e) :: shift_rows k c).
    rewrite !colget_cons, IH. cbn [fst snd].
    destruct (Nat.ltb_spec i k), (Nat.eqb_spec (k + fst e) i), (Nat.eqb_spec (fst e) (i - k));
      try lia; reflexivity.
Qed.

Lemma colget_mapv (h : nat -> T -> T) (c : col) i :
  colget (map (fun e => (fst e, h (fst e) (snd e))) c) i =
  sumT (map (h i) (map snd (filter (fun e => fst e =? i) c))).
Proof.
  induction c as [|e c IH]; auto.
  cbn [map]. rewrite colget_cons. cbn [fst snd filter].
  destruct (Nat.eqb_spec (fst e) i) as [He|He].
  - cbn [map]. rewrite sumT_cons, IH, He. reflexivity.
  - exact IH.
Qed.

Lemma colget_flat_map {X} (F : X -> col) (L : list X) i :
  colget (flat_map F L) i = sumT (map (fun x => colget (F x) i) L).
Proof.
  induction L as [|x L IH]; auto.
  cbn [flat_map map]. rewrite colget_app, sumT_cons, IH. reflexivity.
Qed.

Lemma colget_concat (L : list col) i :
  colget (concat L) i = sumT (map (fun c => colget c i) L).
Proof.
  induction L as [|x L IH]; auto.
  cbn [concat map]. rewrite colget_app, sumT_cons, IH. reflexivity.
Qed.

Lemma colget_filter (p : entry -> bool) (c : col) i :
  (forall e e', fst e = fst e' -> fst e = i -> p e = p e') ->
  forall b, (forall e, fst e = i -> p e = b) ->
  colget (filter p c) i = if b then colget c i else oz.
Proof.
  intros _ b Hb. induction c as [|e c IH].
  - cbn [filter]. rewrite colget_nil. destruct b; reflexivity.
  - cbn [filter]. destruct (p e) eqn:Hp.
    + rewrite !colget_cons, IH.
      destruct (Nat.eqb_spec (fst e) i) as [He|He]; auto.
      rewrite (Hb e He) in Hp. subst b. reflexivity.
    + rewrite colget_cons, IH.
      destruct (Nat.eqb_spec (fst e) i) as [He|He]; auto.
      rewrite (Hb e He) in Hp. subst b. reflexivity.
Qed.

(** sum over the stored entries = sum over rows of the per-row sums *)
Lemma sumT_partition (h : entry -> T) (c : col) n :
  (forall e, In e c -> fst e < n) ->
  sumT (map h c) =
  sum_upto O n (fun i => sumT (map h (filter (fun e => fst e =? i) c))).
Proof.
  induction c as [|e c IH]; intros Hn.
  - cbn [map filter]. unfold sum_upto. symmetry. apply sumT_map_zero. auto.
  - cbn [map]. rewrite sumT_cons, IH by (intros; apply Hn; right; auto).
    rewrite <- (sum_upto_indicator (fst e) (h e) n) at 1 by (apply Hn; left; reflexivity).
    rewrite <- sum_upto_add. apply sum_upto_ext. intros i _.
    cbn [filter]. destruct (fst e =? i).
    + cbn [map]. rewrite sumT_cons. reflexivity.
    + ring.
Qed.

(** entries weighted by a vector indexed by their row *)
Lemma sumT_rowweight (c : col) (x : list T) n :
  (forall e, In e c -> fst e < n) ->
  sumT (map (fun e => snd e [*] nth (fst e) x oz) c) =
  sum_upto O n (fun i => colget c i [*] nth i x oz).
Proof.
  intros Hn. rewrite (sumT_partition _ c n Hn). apply sum_upto_ext. intros i _.
  unfold Model.colget. rewrite <- sumT_map_mul_r.
  apply sumT_map_ext. intros e He. apply filter_In in He. destruct He as [_ He].
  apply Nat.eqb_eq in He. rewrite He. reflexivity.
Qed.

Lemma sumT_colget (c : col) n :
  (forall e, In e c -> fst e < n) ->
  sumT (map snd c) = sum_upto O n (fun i => colget c i).
Proof. intros Hn. apply (sumT_partition snd c n Hn). Qed.

(** ** fold_left accumulating a sum *)
Lemma fold_left_add {X} (h : X -> T) (l : list X) a0 :
  fold_left (fun t e => t [+] h e) l a0 = a0 [+] sumT (map h l).
Proof.
  revert a0; induction l as [|e l IH]; intros a0; cbn [fold_left map].
  - change (sumT []) with oz. ring.
  - rewrite IH, sumT_cons. ring.
Qed.

Lemma fold_left_add_if {X} (p : X -> bool) (h : X -> T) (l : list X) a0 :
  fold_left (fun t e => if p e then t [+] h e else t) l a0 =
  a0 [+] sumT (map h (filter p l)).
Proof.
  revert a0; induction l as [|e l IH]; intros a0; cbn [fold_left map filter].
  - change (sumT []) with oz. ring.
  - rewrite IH. destruct (p e); auto. cbn [map]. rewrite sumT_cons. ring.
Qed.

(** ** Pending-update lists: the scatter loops of gemv/symv/row_sums *)
Definition apply_upds (us : col) (y : list T) : list T :=
  fold_left (fun y u => upd O y (fst u) (fun t => t [+] snd u)) us y.

Lemma apply_upds_cons u us y :
  apply_upds (u :: us) y = apply_upds us (upd O y (fst u) (fun t => t [+] snd u)).
Proof. reflexivity. Qed.

Lemma apply_upds_app u1 u2 y : apply_upds (u1 ++ u2) y = apply_upds u2 (apply_upds u1 y).
Proof. unfold apply_upds. apply fold_left_app. Qed.

Lemma apply_upds_flat {X} (F : X -> col) (L : list X) y0 :
  fold_left (fun y x => apply_upds (F x) y) L y0 = apply_upds (flat_map F L) y0.
Proof.
  revert y0; induction L as [|x L IH]; intros y0; cbn [fold_left flat_map]; auto.
  rewrite apply_upds_app. apply IH.
Qed.

Lemma upd_length y k f : length (upd O y k f) = length y.
Proof. unfold upd. apply set_nth_length. Qed.

Lemma nth_upd y k f i : k < length y ->
  nth i (upd O y k f) oz = if i =? k then f (nth k y oz) else nth i y oz.
Proof. intros Hk. unfold upd. apply nth_set_nth; auto. Qed.

Lemma apply_upds_spec (us : col) y :
  (forall u, In u us -> fst u < length y) ->
  length (apply_upds us y) = length y /\
  forall i, nth i (apply_upds us y) oz = nth i y oz [+] colget us i.
Proof.
  revert y; induction us as [|u us IH]; intros y Hin.
  - split; auto. intros i. unfold apply_upds. cbn [fold_left]. rewrite colget_nil. ring.
  - rewrite apply_upds_cons.
    assert (Hu : fst u < length y) by (apply Hin; left; reflexivity).
    destruct (IH (upd O y (fst u) (fun t => t [+] snd u))) as [IHl IHn].
    { intros v Hv. rewrite upd_length. apply Hin; right; auto. }
    split.
    + rewrite IHl. apply upd_length.
    + intros i. rewrite IHn, nth_upd, colget_cons by auto.
      rewrite (Nat.eqb_sym i (fst u)).
      destruct (Nat.eqb_spec (fst u) i) as [He|He].
      * rewrite He. ring.
      * reflexivity.
Qed.

End Ring.
