(** Executable correspondence checkers for C16 (instantiated at Z: the harness runs the
    Rust code at i64, or at f64 with small integers where every operation is exact).
    Each checker receives the input(s) given to the Rust operation and the output the Rust
    code produced, runs the model, and returns a code:
      0 = agrees (output canonical and equal to the model's result as a dense matrix,
          plus the operation's own post-condition),
      1 = property-level disagreement (violation candidate),
      2 = dense meaning agrees but the stored structure differs from the model's
          (reported in the evidence as information, not a violation). *)
From Coq Require Import List Arith ZArith NArith Lia Bool Floats.
Import ListNotations.
Require Import Clarabel.Base.Ops Clarabel.Base.Dyadic Clarabel.Csc.Model.
Close Scope Z_scope. (* opened by Base/Dyadic.v *)

Definition rawZ := @raw Z.
Definition cscZ := @csc Z.

Definition R (m n : N) (cp rv : list N) (nz : list Z) : rawZ :=
  mkRaw (N.to_nat m) (N.to_nat n) (map N.to_nat cp) (map N.to_nat rv) nz.
Arguments R (m n cp rv)%N nz%Z.

Inductive outcome (X : Type) : Type := Out (x : X) | Panicked | Errored (code : N).
Arguments Out {X}. Arguments Panicked {X}. Arguments Errored {X}.

Fixpoint list_eqb {X} (f : X -> X -> bool) (a b : list X) : bool :=
  match a, b with
  | [], [] => true
  | x :: a', y :: b' => f x y && list_eqb f a' b'
  | _, _ => false
  end.
Definition zlist_eqb := list_eqb Z.eqb.
Definition nlist_eqb := list_eqb Nat.eqb.
Definition dense_eqb (a b : list (list Z)) := list_eqb zlist_eqb a b.

Definition fmt_code (f : fmt) : N :=
  match f with FmtOk => 0 | IncompatibleDimension => 1 | BadColptr => 2 | BadRowval => 3 end%N.

Definition same_dense (a b : cscZ) : bool :=
  (nr a =? nr b) && (nc a =? nc b) && dense_eqb (to_dense OpsZ a) (to_dense OpsZ b).
Definition entry_eqb (a b : nat * Z) : bool := (fst a =? fst b) && Z.eqb (snd a) (snd b).
Definition same_struct (a b : cscZ) : bool :=
  (nr a =? nr b) && (nc a =? nc b) && list_eqb (list_eqb entry_eqb) (cols a) (cols b).

(** the generic output relation *)
Definition rel (out : rawZ) (model : cscZ) : N :=
  if negb (N.eqb (fmt_code (check_format out)) 0) then 1%N
  else if negb (same_dense (decode out) model) then 1%N
  else if same_struct (decode out) model then 0%N else 2%N.
Definition rel_out (out : outcome rawZ) (model : option cscZ) : N :=
  match out, model with
  | Out r, Some A => rel r A
  | Panicked, None => 0%N
  | Errored _, None => 0%N
  | _, _ => 1%N
  end.
Definition andc (a b : N) : N := N.max a b.
Definition ofb (b : bool) : N := if b then 0%N else 1%N.

Definition maxl (l : list N) : N := fold_left N.max l 0%N.
Definition nats (l : list N) : list nat := map N.to_nat l.

(** ** checkers, one per operation *)
Definition c_check_format (inp : rawZ) (code : N) : N :=
  ofb (N.eqb (fmt_code (check_format inp)) code).

Definition c_from_rows (rows : list (list Z)) (out : rawZ) : N :=
  andc (rel out (from_rows OpsZ rows)) (ofb (no_stored_zero OpsZ (decode out))).

Definition c_triplets (m n : N) (I J : list N) (V : list Z) (out : rawZ) : N :=
  rel out (from_triplets OpsZ (N.to_nat m) (N.to_nat n)
                         (combine (combine (nats I) (nats J)) V)).
Arguments c_triplets (m n I J)%N V%Z out.

(** canonicalize: the guard of the theorem is "dimension-consistent and rows in range"; on
    inputs with an out-of-range row the result cannot be canonical and only the stored
    structure is compared. *)
Definition c_canonicalize (inp : rawZ) (code : N) (out : rawZ) : N :=
  let mcode := match check_dimensions inp with FmtOk => 0%N | e => fmt_code e end in
  if negb (N.eqb mcode code) then 1%N
  else if N.eqb code 0 then
    if forallb (fun i => i <? rm inp) (rrowval inp)
    then rel out (canonicalize OpsZ (decode inp))
    else ofb (same_struct (decode out) (canonicalize OpsZ (decode inp)))
  else 0%N.

Definition c_transpose (inp out : rawZ) : N := rel out (transpose (decode inp)).
Definition c_to_triu (inp : rawZ) (out : outcome rawZ) : N :=
  let A := decode inp in
  match out with
  | Out r => if nr A =? nc A
             then andc (rel r (to_triu A)) (ofb (is_triu (decode r)))
             else 1%N
  | Panicked => ofb (negb (nr A =? nc A))
  | Errored _ => 1%N
  end.
Definition c_is_triu (inp : rawZ) (b : bool) : N := ofb (Bool.eqb (is_triu (decode inp)) b).
Definition c_select_rows (inp : rawZ) (keep : list bool) (out : outcome rawZ) : N :=
  let A := decode inp in
  match out with
  | Out r => if length keep =? nr A then rel r (select_rows A keep) else 1%N
  | Panicked => ofb (negb (length keep =? nr A))
  | Errored _ => 1%N
  end.
Definition optz_eqb (a b : option Z) : bool :=
  match a, b with Some x, Some y => Z.eqb x y | None, None => true | _, _ => false end.
Definition c_get_entry (inp : rawZ) (i j : N) (out : outcome (option Z)) : N :=
  let A := decode inp in
  let inb := (N.to_nat i <? nr A) && (N.to_nat j <? nc A) in
  match out with
  | Out v => ofb (inb && optz_eqb v (get_entry A (N.to_nat i) (N.to_nat j)))
  | Panicked => ofb (negb inb)
  | Errored _ => 1%N
  end.
Definition c_set_entry (inp : rawZ) (i j : N) (v : Z) (out : outcome rawZ) : N :=
  let A := decode inp in
  let inb := (N.to_nat i <? nr A) && (N.to_nat j <? nc A) in
  match out with
  | Out r => if inb then rel r (set_entry OpsZ A (N.to_nat i) (N.to_nat j) v) else 1%N
  | Panicked => ofb (negb inb)
  | Errored _ => 1%N
  end.
Definition c_dropzeros (inp out : rawZ) : N :=
  andc (rel out (dropzeros OpsZ (decode inp))) (ofb (no_stored_zero OpsZ (decode out))).
Definition c_index_to_coord (inp : rawZ) (idx : N) (out : outcome (N * N)) : N :=
  let A := decode inp in
  match out, index_to_coord OpsZ A (N.to_nat idx) with
  | Out (i, j), Some (i', j') => ofb ((N.to_nat i =? i') && (N.to_nat j =? j'))
  | Panicked, None => 0%N
  | _, _ => 1%N
  end.

Definition c_hcat (a b : rawZ) (out : outcome rawZ) : N :=
  rel_out out (hcat (decode a) (decode b)).
Definition c_vcat (a b : rawZ) (out : outcome rawZ) : N :=
  rel_out out (vcat (decode a) (decode b)).
Definition c_blockdiag (ms : list rawZ) (out : outcome rawZ) : N :=
  rel_out out (blockdiag (map decode ms)).
Definition c_hvcat (ms : list (list rawZ)) (out : outcome rawZ) : N :=
  rel_out out (hvcat (map (map decode) ms)).
Definition c_identity (n : N) (out : rawZ) : N := rel out (identity OpsZ (N.to_nat n)).
Definition c_zeros (m n : N) (out : rawZ) : N := rel out (zeros (N.to_nat m) (N.to_nat n)).

Definition c_scale (inp : rawZ) (c : Z) (out : rawZ) : N := rel out (scale OpsZ (decode inp) c).
Definition c_negate (inp out : rawZ) : N := rel out (negate OpsZ (decode inp)).
Definition c_lscale (inp : rawZ) (l : list Z) (out : rawZ) : N :=
  rel out (lscale OpsZ (decode inp) l).
Definition c_rscale (inp : rawZ) (r : list Z) (out : rawZ) : N :=
  rel out (rscale OpsZ (decode inp) r).
Definition c_lrscale (inp : rawZ) (l r : list Z) (out : rawZ) : N :=
  rel out (lrscale OpsZ (decode inp) l r).

Definition c_gemv (inp : rawZ) (x y : list Z) (a b : Z) (yout : list Z) : N :=
  ofb (zlist_eqb yout (gemv_fast OpsZ (decode inp) x y a b)).
Definition c_gemv_T (inp : rawZ) (x y : list Z) (a b : Z) (yout : list Z) : N :=
  ofb (zlist_eqb yout (gemv_T_fast OpsZ (decode inp) x y a b)).
Definition c_symv (inp : rawZ) (x y : list Z) (a b : Z) (yout : list Z) : N :=
  ofb (zlist_eqb yout (symv_coded OpsZ (decode inp) x y a b)).
Definition c_quad_form (inp : rawZ) (y x : list Z) (out : outcome Z) : N :=
  match out, quad_form OpsZ (decode inp) y x with
  | Out q, Some q' => ofb (Z.eqb q q')
  | Panicked, None => 0%N
  | _, _ => 1%N
  end.
Definition c_col_sums (inp : rawZ) (out : list Z) : N :=
  ofb (zlist_eqb out (col_sums OpsZ (decode inp))).
Definition c_row_sums (inp : rawZ) (out : list Z) : N :=
  ofb (zlist_eqb out (row_sums OpsZ (decode inp))).
Definition c_col_norms (inp : rawZ) (out : list Z) : N :=
  ofb (zlist_eqb out (col_norms OpsZ (decode inp))).
Definition c_row_norms (inp : rawZ) (out : list Z) : N :=
  ofb (zlist_eqb out (row_norms OpsZ (decode inp))).
Definition c_col_norms_sym (inp : rawZ) (out : list Z) : N :=
  ofb (zlist_eqb out (col_norms_sym OpsZ (decode inp))).

Definition c_col_norms_from (inp : rawZ) (s out : list Z) : N :=
  ofb (zlist_eqb out (col_norms_from OpsZ (decode inp) s)).
Definition c_row_norms_from (inp : rawZ) (s out : list Z) : N :=
  ofb (zlist_eqb out (row_norms_from OpsZ (decode inp) s)).
Definition c_col_norms_sym_from (inp : rawZ) (s out : list Z) : N :=
  ofb (zlist_eqb out (col_norms_sym_from OpsZ (decode inp) s)).

(** ** binary64 level: the coded branches of gemv / gemv_T / symv run on primitive floats and
    are compared with the implementation's output bit for bit (all NaNs identified; the sign
    of zero matters).  This is where the fast paths are observable: [b = 0] overwrites [y]
    (garbage, even non-finite, disappears, and the zeros written are +0), [a = 0] returns
    before [A] and [x] are read, the general path computes [0 * garbage]. *)
Definition rawF := @raw float.
Definition RF (m n : N) (cp rv : list N) (nz : list float) : rawF :=
  mkRaw (N.to_nat m) (N.to_nat n) (map N.to_nat cp) (map N.to_nat rv) nz.
Arguments RF (m n cp rv)%N nz.
Definition fbits_eqb (a b : float) : bool :=
  if PrimFloat.is_nan a then PrimFloat.is_nan b
  else if PrimFloat.is_nan b then false
  else if PrimFloat.is_zero a
       then PrimFloat.is_zero b && Bool.eqb (PrimFloat.get_sign a) (PrimFloat.get_sign b)
       else PrimFloat.eqb a b.
Definition flist_eqb := list_eqb fbits_eqb.
Definition c_gemv_F (inp : rawF) (x y : list float) (a b : float) (yout : list float) : N :=
  ofb (flist_eqb yout (gemv_fast OpsF (decode inp) x y a b)).
Definition c_gemv_T_F (inp : rawF) (x y : list float) (a b : float) (yout : list float) : N :=
  ofb (flist_eqb yout (gemv_T_fast OpsF (decode inp) x y a b)).
Definition c_symv_F (inp : rawF) (x y : list float) (a b : float) (yout : list float) : N :=
  ofb (flist_eqb yout (symv_coded OpsF (decode inp) x y a b)).

(** ** general binary64 inputs (rounding happens): two levels.
    Binding (code 1): every finite output entry is within [2^-45 * S_i] of the exact dense
    meaning [E_i = b*y_i + a * sum_j A_ij x_j], [S_i = |b*y_i| + sum_j |a*A_ij*x_j|], both
    evaluated exactly on dyadic numbers (every finite binary64 is one) -- whatever order and
    association the implementation sums in.  Information only (code 2): the output also has
    the bits of the transcribed summation order.  The [c_*_F] checkers above stay binding
    because the harness feeds them only inputs whose partial sums are all exactly
    representable (few-bit dyadics), so every summation order yields the same bits. *)
Definition OpsDy : Ops dy := {|
  zero := d0; one := d1; add := dadd; sub := dsub; mul := dmul; div := fun a _ => a;
  neg := dneg; abs := dabs; sqrt := fun a => a;
  ltb := dltb; leb := dleb; eqb := deqb; ofZ := dofZ |}.
Definition f2d (x : float) : option dy :=
  match Prim2SF x with
  | S754_zero _ => Some (D 0 0)
  | S754_finite s m e => Some (D (if s then Z.neg m else Z.pos m) e)
  | _ => None
  end.
Fixpoint f2dl (l : list float) : option (list dy) :=
  match l with
  | [] => Some []
  | x :: r => match f2d x, f2dl r with Some d, Some dr => Some (d :: dr) | _, _ => None end
  end.
Definition rawD (r : rawF) (nz : list dy) : @raw dy :=
  mkRaw (rm r) (rn r) (rcolptr r) (rrowval r) nz.
Definition within (k : Z) (r e s : dy) : bool := dleb (dabs (dsub r e)) (dmul (D 1 (- k)) s).
Fixpoint all3 (f : dy -> dy -> dy -> bool) (a b c : list dy) : bool :=
  match a, b, c with
  | [], [], [] => true
  | x :: a', y :: b', z :: c' => f x y z && all3 f a' b' c'
  | _, _, _ => false
  end.
(** [Some true] within tolerance, [Some false] not, [None] some input/output is not finite *)
Definition tol_check (kernel : Ops dy -> @csc dy -> list dy -> list dy -> dy -> dy -> list dy)
    (inp : rawF) (x y : list float) (a b : float) (yout : list float) : option bool :=
  match f2dl (rnzval inp), f2dl x, f2dl y, f2d a, f2d b, f2dl yout with
  | Some nz, Some dx, Some dy0, Some da, Some db, Some dout =>
      let exact := kernel OpsDy (decode (rawD inp nz)) dx dy0 da db in
      let bound := kernel OpsDy (decode (rawD inp (map dabs nz))) (map dabs dx) (map dabs dy0)
                          (dabs da) (dabs db) in
      Some (all3 (within 45) dout exact bound)
  | _, _, _, _, _, _ => None
  end.
Definition two_level (tol : option bool) (bits : bool) : N :=
  match tol with
  | Some false => 1%N
  | Some true => if bits then 0%N else 2%N
  | None => if bits then 0%N else 2%N
  end.
Definition c_gemv_G (inp : rawF) (x y : list float) (a b : float) (yout : list float) : N :=
  two_level (tol_check (@gemv dy) inp x y a b yout)
            (flist_eqb yout (gemv_fast OpsF (decode inp) x y a b)).
Definition c_gemv_T_G (inp : rawF) (x y : list float) (a b : float) (yout : list float) : N :=
  two_level (tol_check (@gemv_T dy) inp x y a b yout)
            (flist_eqb yout (gemv_T_fast OpsF (decode inp) x y a b)).
Definition c_symv_G (inp : rawF) (x y : list float) (a b : float) (yout : list float) : N :=
  two_level (tol_check (@symv dy) inp x y a b yout)
            (flist_eqb yout (symv_coded OpsF (decode inp) x y a b)).

(** ** structural queries on any dimension-consistent encoding (unsorted, duplicated, ...) *)
Definition c_raw_index_to_coord (inp : rawZ) (idx : N) (out : outcome (N * N)) : N :=
  match out, raw_index_to_coord inp (N.to_nat idx) with
  | Out (i, j), Some (i', j') => ofb ((N.to_nat i =? i') && (N.to_nat j =? j'))
  | Panicked, None => 0%N
  | _, _ => 1%N
  end.
Definition c_count_diag (inp : rawZ) (triu tril : N) : N :=
  ofb ((N.to_nat triu =? count_diag_triu (decode inp)) && (N.to_nat tril =? count_diag_tril (decode inp))).
(** the missing-diagonal pipeline: the stored structure matters here (every diagonal position
    must be stored), so a structural difference is a disagreement *)
Definition c_add_missing_diag (inp : rawZ) (out : outcome rawZ) : N :=
  match out with
  | Out r =>
      let K := add_missing_diag OpsZ (decode inp) in
      if N.eqb (rel r K) 0 then
        ofb (forallb (fun j => match get_entry (decode r) j j with Some _ => true | None => false end)
                     (seq 0 (rn r))
             && (length (rrowval r) =? nnz (decode inp) + count_missing_diag (decode inp)))
      else 1%N
  | _ => 1%N
  end.
(** round trips: [t2] is the implementation's to_triu of [t]; [s] the full symmetric matrix the
    harness built from the upper triangle [t]; [ts] the implementation's to_triu of [s] *)
Definition c_triu_idem (t t2 : rawZ) : N := ofb (same_struct (decode t2) (decode t)).
Definition c_sym_roundtrip (t s : rawZ) (ts : outcome rawZ) : N :=
  if negb (dense_eqb (to_dense OpsZ (decode s)) (sym_dense OpsZ (decode t))) then 1%N
  else match ts with
       | Out r => andc (rel r (to_triu (decode s))) (ofb (same_dense (decode r) (decode t)))
       | _ => 1%N
       end.

(** ** independent dense oracles (used by the failing-input search and as a second opinion:
    they do not go through the sparse model at all) *)
Definition dense_of_raw (r : rawZ) : list (list Z) := to_dense OpsZ (decode r).

(** collect (index, code) of the cases whose code is not 0 *)
Fixpoint fails (k : N) (l : list N) : list (N * N) :=
  match l with
  | [] => []
  | c :: r => if N.eqb c 0 then fails (N.succ k) r else (k, c) :: fails (N.succ k) r
  end.
