(** Term/LemmasPsd.v — soundness of the PSD-cone checker [psd_ok] of Term/Check.v:
      psd_ok n v = true  ->  in_psd n (vecR v).
    (A) quadratic form [qform] of an upper-triangular row representation over R and the Schur
        complement identity; (B) soundness of the rational elimination [ldl_pos];
    (C) link between [svec_quad] and the quadratic form of the rational matrix [psd_matrix]
        (Cauchy-Schwarz on the strict upper triangle). *)
From Coq Require Import List ZArith NArith QArith Qreals Reals RMicromega Lia Lra Bool Arith Psatz.
Import ListNotations.
Require Import Clarabel.Base.Ops Clarabel.Base.Dyadic Clarabel.Term.Eval Clarabel.Term.Spec
        Clarabel.Term.Check Clarabel.Term.Hom Clarabel.Term.LemmasCheck Clarabel.Term.Farkas.
Local Open Scope R_scope.

(** * (A) quadratic forms of upper-triangular row representations *)

(** [tri_shape n M]: M has n rows and row i has length n - i. *)
Fixpoint tri_shape {X : Type} (n : nat) (M : list (list X)) : Prop :=
  match n, M with
  | O, [] => True
  | S n', row :: rest => length row = S n' /\ tri_shape n' rest
  | _, _ => False
  end.

Fixpoint qform (M : list (list R)) (y : list R) : R :=
  match M, y with
  | (a :: b) :: rest, y0 :: y' => a * y0 * y0 + 2 * y0 * dot OpsR b y' + qform rest y'
  | _, _ => 0
  end.

Fixpoint schurR (a : R) (b : list R) (rest : list (list R)) : list (list R) :=
  match b, rest with
  | bi :: b', row :: rest' =>
      map (fun pq => fst pq - bi * snd pq / a) (combine row (bi :: b')) :: schurR a b' rest'
  | _, _ => []
  end.

Lemma tri_shape_map {X Y : Type} (f : X -> Y) :
  forall n (M : list (list X)), tri_shape n M -> tri_shape n (map (map f) M).
Proof.
  induction n as [|n IH]; intros M HM; destruct M as [|row rest]; cbn [tri_shape map] in *;
    try exact HM.
  destruct HM as [Hlen Hrest]. split.
  - rewrite map_length. exact Hlen.
  - apply IH. exact Hrest.
Qed.

Lemma dot_schur_row (a bi : R) : forall (rt b' y : list R),
  length rt = length b' ->
  dot OpsR (map (fun pq => fst pq - bi * snd pq / a) (combine rt b')) y
  = dot OpsR rt y - bi / a * dot OpsR b' y.
Proof.
  induction rt as [|r rt IH]; intros b' y Hlen.
  - destruct b' as [|c b']; [|discriminate Hlen].
    cbn [combine map]. rewrite !dot_nil_l. ring.
  - destruct b' as [|c b']; [discriminate Hlen|].
    destruct y as [|y0 y'].
    + rewrite !dot_nil_r. ring.
    + cbn [combine map fst snd]. rewrite !dot_cons.
      rewrite (IH b' y') by (cbn [length] in Hlen; lia).
      unfold Rdiv. ring.
Qed.

(** the Schur complement identity (no hypothesis on [a]: [/ a] is treated as an atom) *)
Lemma qform_schurR (a : R) : forall (b : list R) (rest : list (list R)) (y : list R),
  tri_shape (length b) rest -> length y = length b ->
  qform (schurR a b rest) y = qform rest y - dot OpsR b y * dot OpsR b y / a.
Proof.
  induction b as [|bi b' IH]; intros rest y Hsh Hy.
  - destruct rest as [|row rest']; [|cbn [length tri_shape] in Hsh; contradiction].
    cbn [schurR qform]. rewrite dot_nil_l. unfold Rdiv. ring.
  - destruct rest as [|row rest']; [cbn [length tri_shape] in Hsh; contradiction|].
    cbn [length tri_shape] in Hsh. destruct Hsh as [Hrow Hrest].
    destruct y as [|y0 y']; [discriminate Hy|].
    destruct row as [|r0 rt]; [discriminate Hrow|].
    cbn [length] in Hy, Hrow.
    cbn [schurR combine map fst snd qform].
    rewrite (dot_schur_row a bi rt b' y') by lia.
    rewrite (IH rest' y' Hrest) by lia.
    rewrite dot_cons. unfold Rdiv. ring.
Qed.

(** completing the square *)
Lemma qform_step (a y0 B Qr : R) :
  0 < a -> 0 <= Qr - B * B / a -> 0 <= a * y0 * y0 + 2 * y0 * B + Qr.
Proof.
  intros Ha HQ.
  assert (Hsq : a * y0 * y0 + 2 * y0 * B + B * B / a = a * ((y0 + B / a) * (y0 + B / a))).
  { field. lra. }
  assert (Hnn : 0 <= a * ((y0 + B / a) * (y0 + B / a))).
  { apply Rmult_le_pos; [lra|]. apply Rle_0_sqr. }
  lra.
Qed.

(** * (B) soundness of the rational elimination *)

Lemma Q2R_nonzero (a : Q) : Q2R a <> 0 -> ~ (a == 0)%Q.
Proof.
  intros Hne Heq. apply Hne. rewrite (Qeq_eqR _ _ Heq). apply Q2R_0.
Qed.

Lemma schur_row_R (a bi : Q) : Q2R a <> 0 -> forall (row c : list Q),
  map Q2R (map (fun pq => Qred (fst pq - bi * snd pq / a))%Q (combine row c))
  = map (fun pq => fst pq - Q2R bi * snd pq / Q2R a) (combine (map Q2R row) (map Q2R c)).
Proof.
  intros Hne. induction row as [|r row IH]; intros c; [reflexivity|].
  destruct c as [|c0 c]; [reflexivity|].
  cbn [combine map fst snd]. f_equal; [|apply IH].
  rewrite (Qeq_eqR _ _ (Qred_correct _)).
  rewrite Q2R_minus, Q2R_div by (apply Q2R_nonzero; exact Hne).
  rewrite Q2R_mult. reflexivity.
Qed.

Lemma schur_u_R (a : Q) : Q2R a <> 0 -> forall (b : list Q) (rest : list (list Q)),
  map (map Q2R) (schur_u a b rest) = schurR (Q2R a) (map Q2R b) (map (map Q2R) rest).
Proof.
  intros Hne. induction b as [|bi b' IH]; intros rest; [reflexivity|].
  destruct rest as [|row rest']; [reflexivity|].
  cbn [schur_u schurR map]. f_equal; [|apply IH].
  exact (schur_row_R a bi Hne row (bi :: b')).
Qed.

Lemma tri_shape_schur_u (a : Q) : forall (b : list Q) (rest : list (list Q)),
  tri_shape (length b) rest -> tri_shape (length b) (schur_u a b rest).
Proof.
  induction b as [|bi b' IH]; intros rest Hsh.
  - destruct rest as [|row rest']; cbn [length tri_shape schur_u] in *; exact I.
  - destruct rest as [|row rest']; [cbn [length tri_shape] in Hsh; contradiction|].
    cbn [length tri_shape] in Hsh. destruct Hsh as [Hrow Hrest].
    cbn [schur_u length tri_shape]. split.
    + rewrite map_length, combine_length, Hrow. cbn [length]. lia.
    + apply IH. exact Hrest.
Qed.

Lemma Qle_bool_false_pos (a : Q) : Qle_bool a 0 = false -> 0 < Q2R a.
Proof.
  intros E. rewrite <- Q2R_0. apply Qlt_Rlt.
  destruct (Qlt_le_dec 0 a) as [Hlt|Hle]; [exact Hlt|].
  apply Qle_bool_iff in Hle. rewrite Hle in E. discriminate E.
Qed.

Theorem ldl_pos_sound : forall (fuel n : nat) (M : list (list Q)),
  ldl_pos fuel M = true -> tri_shape n M ->
  forall y : list R, length y = n -> 0 <= qform (map (map Q2R) M) y.
Proof.
  induction fuel as [|f IH]; intros n M Hldl Hsh y Hy; [discriminate Hldl|].
  destruct M as [|row rest]; [cbn [map qform]; lra|].
  destruct row as [|a b]; [discriminate Hldl|].
  cbn [ldl_pos] in Hldl.
  destruct (Qle_bool a 0) eqn:E; [discriminate Hldl|].
  pose proof (Qle_bool_false_pos a E) as Ha.
  destruct n as [|n']; [cbn [tri_shape] in Hsh; contradiction|].
  cbn [tri_shape] in Hsh. destruct Hsh as [Hrow Hrest]. cbn [length] in Hrow.
  assert (Hb : length b = n') by lia.
  destruct y as [|y0 y']; [discriminate Hy|]. cbn [length] in Hy.
  assert (Hy' : length y' = n') by lia.
  rewrite <- Hb in Hrest.
  pose proof (IH n' (schur_u a b rest) Hldl) as IH'.
  rewrite <- Hb in IH'.
  specialize (IH' (tri_shape_schur_u a b rest Hrest) y' (eq_trans Hy' (eq_sym Hb))).
  rewrite (schur_u_R a) in IH' by lra.
  rewrite qform_schurR in IH'.
  - cbn [map qform]. apply qform_step; assumption.
  - rewrite map_length. apply tri_shape_map. exact Hrest.
  - rewrite map_length. lia.
Qed.

(** * (C) link with [svec_quad] *)

(** ** finite sums over lists of indices *)
Definition sumf (f : nat -> R) (l : list nat) : R := vsum OpsR (map f l).

Lemma sumf_nil f : sumf f [] = 0.
Proof. reflexivity. Qed.

Lemma sumf_cons f a l : sumf f (a :: l) = f a + sumf f l.
Proof. unfold sumf. cbn [map]. apply vsum_cons. Qed.

Lemma sumf_app f l1 l2 : sumf f (l1 ++ l2) = sumf f l1 + sumf f l2.
Proof.
  induction l1 as [|a l1 IH]; cbn [app].
  - rewrite sumf_nil. ring.
  - rewrite !sumf_cons, IH. ring.
Qed.

Lemma sumf_ext_in f g l : (forall i, In i l -> f i = g i) -> sumf f l = sumf g l.
Proof.
  intros H. unfold sumf. f_equal. apply map_ext_in. exact H.
Qed.

Lemma sumf_plus f g l : sumf (fun i => f i + g i) l = sumf f l + sumf g l.
Proof.
  induction l as [|a l IH]; [rewrite !sumf_nil; ring|].
  rewrite !sumf_cons, IH. ring.
Qed.

Lemma sumf_scal c f l : sumf (fun i => c * f i) l = c * sumf f l.
Proof.
  induction l as [|a l IH]; [rewrite !sumf_nil; ring|].
  rewrite !sumf_cons, IH. ring.
Qed.

Lemma sumf_seq_S f k n : sumf f (seq k (S n)) = sumf f (seq k n) + f (k + n)%nat.
Proof.
  rewrite seq_S, sumf_app, sumf_cons, sumf_nil. ring.
Qed.

Lemma sumf_sq_nonneg (f : nat -> R) l : 0 <= sumf (fun i => f i * f i) l.
Proof.
  induction l as [|a l IH]; [rewrite sumf_nil; lra|].
  rewrite sumf_cons. nra.
Qed.

Lemma dot_map_map (f g : nat -> R) (l : list nat) :
  dot OpsR (map f l) (map g l) = sumf (fun i => f i * g i) l.
Proof.
  induction l as [|a l IH]; [reflexivity|].
  cbn [map]. rewrite dot_cons, sumf_cons, IH. reflexivity.
Qed.

Lemma dot_flat_map (A B : nat -> list R) (l : list nat) :
  (forall j, length (A j) = length (B j)) ->
  dot OpsR (flat_map A l) (flat_map B l) = sumf (fun j => dot OpsR (A j) (B j)) l.
Proof.
  intros Hlen. induction l as [|a l IH]; [reflexivity|].
  cbn [flat_map]. rewrite dot_app by apply Hlen. rewrite sumf_cons, IH. reflexivity.
Qed.

Lemma list_as_map_seq (y : list R) : forall n k, length y = n ->
  y = map (fun i => nth (i - k) y 0) (seq k n).
Proof.
  induction y as [|a y IH]; intros n k Hn; cbn [length] in Hn; subst n; [reflexivity|].
  cbn [seq map]. rewrite Nat.sub_diag. cbn [nth]. f_equal.
  rewrite (IH (length y) (S k) eq_refl) at 1.
  apply map_ext_in. intros i Hi. apply in_seq in Hi.
  replace (i - k)%nat with (S (i - S k)) by lia. reflexivity.
Qed.

(** ** quadratic form of a dense upper-triangular matrix given by a function *)
Lemma qform_fun (F : nat -> nat -> R) (yf : nat -> R) (n : nat) : forall m k, (k + m = n)%nat ->
  qform (map (fun i => map (F i) (seq i (n - i))) (seq k m)) (map yf (seq k m))
  = sumf (fun i => F i i * yf i * yf i
                   + 2 * yf i * sumf (fun j => F i j * yf j) (seq (S i) (n - S i))) (seq k m).
Proof.
  induction m as [|m IH]; intros k Hk; [reflexivity|].
  change (seq k (S m)) with (k :: seq (S k) m). cbn [map].
  replace (n - k)%nat with (S m) by lia.
  change (seq k (S m)) with (k :: seq (S k) m). cbn [map qform].
  rewrite sumf_cons, (IH (S k)) by lia. rewrite dot_map_map.
  replace (n - S k)%nat with m by lia. reflexivity.
Qed.

Lemma tri_shape_fun {X : Type} (F : nat -> nat -> X) (n : nat) : forall m k, (k + m = n)%nat ->
  tri_shape m (map (fun i => map (F i) (seq i (n - i))) (seq k m)).
Proof.
  induction m as [|m IH]; intros k Hk; [exact I|].
  change (seq k (S m)) with (k :: seq (S k) m). cbn [map tri_shape]. split.
  - rewrite map_length, seq_length. lia.
  - apply IH. lia.
Qed.

(** ** exchanging the two orders of summation over the strict upper triangle *)
Lemma sum_swap (G : nat -> nat -> R) : forall n,
  sumf (fun j => sumf (fun i => G i j) (seq 0 j)) (seq 0 n)
  = sumf (fun i => sumf (fun j => G i j) (seq (S i) (n - S i))) (seq 0 n).
Proof.
  induction n as [|n IH]; [reflexivity|].
  rewrite !sumf_seq_S. cbn [Nat.add]. rewrite IH.
  replace (S n - S n)%nat with 0%nat by lia. cbn [seq]. rewrite sumf_nil.
  rewrite (sumf_ext_in
             (fun i => sumf (fun j => G i j) (seq (S i) (S n - S i)))
             (fun i => sumf (fun j => G i j) (seq (S i) (n - S i)) + G i n)).
  - rewrite sumf_plus. ring.
  - intros i Hi. apply in_seq in Hi.
    replace (S n - S i)%nat with (S (n - S i)) by lia.
    rewrite sumf_seq_S. replace (S i + (n - S i))%nat with n by lia. reflexivity.
Qed.

(** ** 2 sum_{i<j} (y_i y_j)^2 <= (sum y_i^2)^2 *)
Lemma pairs_sq_bound (yf : nat -> R) : forall n,
  2 * sumf (fun j => sumf (fun i => (yf i * yf j) * (yf i * yf j)) (seq 0 j)) (seq 0 n)
  <= sumf (fun j => yf j * yf j) (seq 0 n) * sumf (fun j => yf j * yf j) (seq 0 n).
Proof.
  induction n as [|n IH]; [rewrite !sumf_nil; lra|].
  rewrite !sumf_seq_S. cbn [Nat.add].
  rewrite (sumf_ext_in (fun i => (yf i * yf n) * (yf i * yf n))
                       (fun i => (yf n * yf n) * (yf i * yf i)))
    by (intros i _; ring).
  rewrite sumf_scal.
  pose proof (sumf_sq_nonneg yf (seq 0 n)) as HS.
  set (S := sumf (fun j => yf j * yf j) (seq 0 n)) in *.
  set (P := sumf (fun j => sumf (fun i => (yf i * yf j) * (yf i * yf j)) (seq 0 j)) (seq 0 n)) in *.
  pose proof (Rle_0_sqr (yf n * yf n)) as Hq. unfold Rsqr in Hq.
  nra.
Qed.

(** ** Cauchy-Schwarz on the strict upper triangle *)
Definition flatf (G : nat -> nat -> R) (n : nat) : list R :=
  flat_map (fun j => map (fun i => G i j) (seq 0 j)) (seq 0 n).

Lemma dot_flatf (G G' : nat -> nat -> R) n :
  dot OpsR (flatf G n) (flatf G' n)
  = sumf (fun j => sumf (fun i => G i j * G' i j) (seq 0 j)) (seq 0 n).
Proof.
  unfold flatf. rewrite dot_flat_map by (intros j; rewrite !map_length; reflexivity).
  apply sumf_ext_in. intros j _. apply dot_map_map.
Qed.

Lemma Rabs_le_of_sq (x c : R) : 0 <= c -> x * x <= c * c -> Rabs x <= c.
Proof.
  intros Hc Hsq. rewrite <- (Rabs_pos_eq c Hc). apply Rsqr_le_abs_0. unfold Rsqr. exact Hsq.
Qed.

Lemma cross_bound (h : nat -> nat -> R) (yf : nat -> R) (n : nat) (hF : R) :
  0 <= hF -> 2 * sumsq OpsR (flatf h n) <= hF * hF ->
  Rabs (2 * sumf (fun j => sumf (fun i => h i j * yf i * yf j) (seq 0 j)) (seq 0 n))
  <= hF * sumf (fun j => yf j * yf j) (seq 0 n).
Proof.
  intros HhF Hh.
  pose proof (cauchy_schwarz_sq (flatf h n) (flatf (fun i j => yf i * yf j) n)) as CS.
  rewrite dot_flatf in CS.
  assert (Hps : 2 * sumsq OpsR (flatf (fun i j => yf i * yf j) n)
                <= sumf (fun j => yf j * yf j) (seq 0 n) * sumf (fun j => yf j * yf j) (seq 0 n)).
  { unfold sumsq. rewrite dot_flatf. apply pairs_sq_bound. }
  rewrite (sumf_ext_in (fun j => sumf (fun i => h i j * yf i * yf j) (seq 0 j))
                       (fun j => sumf (fun i => h i j * (yf i * yf j)) (seq 0 j)))
    by (intros j _; apply sumf_ext_in; intros i _; ring).
  pose proof (sumf_sq_nonneg yf (seq 0 n)) as HS.
  pose proof (Farkas.sumsq_nonneg (flatf h n)) as Ha.
  pose proof (Farkas.sumsq_nonneg (flatf (fun i j => yf i * yf j) n)) as Hp.
  set (S := sumf (fun j => yf j * yf j) (seq 0 n)) in *.
  set (T := sumf (fun j => sumf (fun i => h i j * (yf i * yf j)) (seq 0 j)) (seq 0 n)) in *.
  set (sa := sumsq OpsR (flatf h n)) in *.
  set (sp := sumsq OpsR (flatf (fun i j => yf i * yf j) n)) in *.
  apply Rabs_le_of_sq; [apply Rmult_le_pos; assumption|].
  assert (H1 : (2 * sa) * (2 * sp) <= (hF * hF) * (2 * sp)).
  { apply Rmult_le_compat_r; lra. }
  assert (H2 : (hF * hF) * (2 * sp) <= (hF * hF) * (S * S)).
  { apply Rmult_le_compat_l; [nra|lra]. }
  nra.
Qed.

(** ** the two quadratic forms as sums *)
Lemma svec_form (e : nat -> nat -> R) (yf : nat -> R) (c : R) (n : nat) :
  sumf (fun j => e j j * yf j * yf j
                 + c * sumf (fun i => e i j * yf i * yf j) (seq 0 j)) (seq 0 n)
  = sumf (fun j => e j j * yf j * yf j) (seq 0 n)
    + c * (2 * sumf (fun j => sumf (fun i => e i j / 2 * yf i * yf j) (seq 0 j)) (seq 0 n)).
Proof.
  rewrite sumf_plus, sumf_scal. f_equal. f_equal. rewrite <- sumf_scal.
  apply sumf_ext_in. intros j _. rewrite <- sumf_scal.
  apply sumf_ext_in. intros i _. field.
Qed.

Lemma qf_form (d : nat -> R) (h : nat -> nat -> R) (yf : nat -> R) (c : R) (n : nat) :
  sumf (fun i => d i * yf i * yf i
                 + 2 * yf i * sumf (fun j => (c * h i j) * yf j) (seq (S i) (n - S i))) (seq 0 n)
  = sumf (fun i => d i * yf i * yf i) (seq 0 n)
    + c * (2 * sumf (fun j => sumf (fun i => h i j * yf i * yf j) (seq 0 j)) (seq 0 n)).
Proof.
  rewrite (sum_swap (fun i j => h i j * yf i * yf j)).
  rewrite sumf_plus. f_equal. rewrite <- !sumf_scal.
  apply sumf_ext_in. intros i _. rewrite <- !sumf_scal.
  apply sumf_ext_in. intros j _. ring.
Qed.

Lemma final_ineq (D S X sh lo up s2 hF : R) :
  lo <= s2 -> s2 <= up -> 0 <= hF -> 0 <= S -> Rabs X <= hF * S -> sh = (up - lo) * hF ->
  D - sh * S + lo * X <= D + s2 * X.
Proof.
  intros Hlo Hup HhF HS HX Hsh. subst sh.
  assert (HX1 : - (hF * S) <= X).
  { pose proof (Rle_abs (- X)) as Hm. rewrite Rabs_Ropp in Hm. lra. }
  assert (HX2 : X <= hF * S).
  { pose proof (Rle_abs X) as Hm. lra. }
  assert (HhS : 0 <= hF * S) by (apply Rmult_le_pos; assumption).
  assert (H1 : - ((s2 - lo) * (hF * S)) <= (s2 - lo) * X).
  { assert (H : (s2 - lo) * (- (hF * S)) <= (s2 - lo) * X) by (apply Rmult_le_compat_l; lra). lra. }
  assert (H2 : (s2 - lo) * (hF * S) <= (up - lo) * (hF * S)).
  { apply Rmult_le_compat_r; lra. }
  lra.
Qed.

(** ** the checker's data read in R *)
Lemma nth_vecR (v : list dy) (k : nat) : nth k (vecR v) 0 = d2R (nth k v d0).
Proof. unfold vecR. rewrite <- d2R_0. apply map_nth. Qed.

Lemma d2R_dtwo : d2R dtwo = 2.
Proof. unfold dtwo. apply d2R_D1. Qed.

Lemma d2R_psd_half (v : list dy) (i j : nat) :
  d2R (psd_half v i j) = d2R (nth (tri_idx i j) v d0) / 2.
Proof.
  unfold psd_half. rewrite d2R_shift.
  replace (powerRZ 2 (-1)) with (/ 2) by (simpl; field).
  reflexivity.
Qed.

Lemma r2_bounds : d2R r2lo <= R_sqrt.sqrt 2 /\ R_sqrt.sqrt 2 <= d2R r2up.
Proof.
  unfold r2lo, r2up.
  assert (H2 : 0 <= d2R dtwo) by (rewrite d2R_dtwo; lra).
  pose proof (dsqrt_lo_R dtwo H2) as Hlo. pose proof (dsqrt_up_R dtwo H2) as Hup.
  rewrite d2R_dtwo in Hlo, Hup. split; assumption.
Qed.

Lemma vecR_offs (G : nat -> nat -> dy) : forall l : list nat,
  vecR (flat_map (fun j => map (fun i => G i j) (seq 0 j)) l)
  = flat_map (fun j => map (fun i => d2R (G i j)) (seq 0 j)) l.
Proof.
  induction l as [|a l IH]; [reflexivity|].
  cbn [flat_map]. unfold vecR in *. rewrite map_app, map_map, IH. reflexivity.
Qed.

Lemma psd_shift_R (n : nat) (v : list dy) :
  exists hF : R,
    0 <= hF /\
    2 * sumsq OpsR (flatf (fun i j => d2R (psd_half v i j)) n) <= hF * hF /\
    d2R (psd_shift n v) = (d2R r2up - d2R r2lo) * hF.
Proof.
  unfold psd_shift. cbv zeta.
  set (offs := flat_map (fun j => map (fun i => psd_half v i j) (seq 0 j)) (seq 0 n)).
  exists (d2R (nup (dtwo *d ssq offs))). split; [|split].
  - unfold nup. apply dsqrt_up_R_nonneg.
  - assert (HX : d2R (dtwo *d ssq offs)
                 = 2 * sumsq OpsR (flatf (fun i j => d2R (psd_half v i j)) n)).
    { rewrite d2R_mul, d2R_dtwo, d2R_ssq. unfold offs. rewrite vecR_offs. reflexivity. }
    pose proof (Farkas.sumsq_nonneg (flatf (fun i j => d2R (psd_half v i j)) n)) as Hnn.
    assert (HX0 : 0 <= d2R (dtwo *d ssq offs)) by (rewrite HX; lra).
    pose proof (dsqrt_up_R _ HX0) as Hup. fold (nup (dtwo *d ssq offs)) in Hup.
    pose proof (sqrt_pos (d2R (dtwo *d ssq offs))) as Hs0.
    pose proof (sqrt_sqrt _ HX0) as Hss.
    rewrite <- HX. rewrite <- Hss.
    apply Rmult_le_compat; assumption.
  - rewrite d2R_mul, d2R_sub. reflexivity.
Qed.

(** * the PSD checker is sound *)
Theorem psd_ok_sound : forall n v, psd_ok n v = true -> in_psd n (vecR v).
Proof.
  intros n v Hok y Hy. unfold psd_ok in Hok.
  pose (F := fun i j : nat =>
               Q2R (if Nat.eqb i j
                    then d2Q (nth (tri_idx i i) v d0 -d (psd_shift n v -d d0))
                    else d2Q (r2lo *d psd_half v i j))).
  assert (HM : map (map Q2R) (psd_matrix n v d0)
               = map (fun i => map (F i) (seq i (n - i))) (seq 0 n)).
  { unfold psd_matrix. cbv zeta. rewrite map_map. apply map_ext. intros i.
    rewrite map_map. reflexivity. }
  assert (Hshape : tri_shape n (psd_matrix n v d0)).
  { unfold psd_matrix. cbv zeta.
    exact (tri_shape_fun
             (fun i j : nat => if Nat.eqb i j
                               then d2Q (nth (tri_idx i i) v d0 -d (psd_shift n v -d d0))
                               else d2Q (r2lo *d psd_half v i j)) n n 0%nat eq_refl). }
  pose proof (ldl_pos_sound (S n) n (psd_matrix n v d0) Hok Hshape y Hy) as Hq.
  rewrite HM in Hq.
  pose (yf := fun i : nat => nth i y 0).
  assert (Hyy : y = map yf (seq 0 n)).
  { rewrite (list_as_map_seq y n 0 Hy) at 1. apply map_ext. intros i. unfold yf.
    rewrite Nat.sub_0_r. reflexivity. }
  rewrite Hyy in Hq.
  rewrite (qform_fun F yf n n 0%nat eq_refl) in Hq.
  pose (e := fun i j : nat => d2R (nth (tri_idx i j) v d0)).
  pose (h := fun i j : nat => d2R (psd_half v i j)).
  pose (sh := d2R (psd_shift n v)).
  (* the rational matrix side *)
  rewrite (sumf_ext_in _
             (fun i => (e i i - sh) * yf i * yf i
                       + 2 * yf i * sumf (fun j => (d2R r2lo * h i j) * yf j) (seq (S i) (n - S i))))
    in Hq.
  2:{ intros i _. f_equal.
      - unfold F. rewrite Nat.eqb_refl. fold (d2R (nth (tri_idx i i) v d0 -d (psd_shift n v -d d0))).
        rewrite !d2R_sub, d2R_0. unfold e, sh. ring.
      - f_equal. apply sumf_ext_in. intros j Hj. apply in_seq in Hj.
        unfold F. replace (Nat.eqb i j) with false by (symmetry; apply Nat.eqb_neq; lia).
        fold (d2R (r2lo *d psd_half v i j)). rewrite d2R_mul. reflexivity. }
  rewrite qf_form in Hq.
  rewrite (sumf_ext_in (fun i => (e i i - sh) * yf i * yf i)
                       (fun i => e i i * yf i * yf i + (- sh) * (yf i * yf i))) in Hq
    by (intros i _; ring).
  rewrite sumf_plus, sumf_scal in Hq.
  (* the svec_quad side *)
  assert (Hsv : svec_quad n (vecR v) y
                = sumf (fun j => e j j * yf j * yf j
                                 + R_sqrt.sqrt 2 * sumf (fun i => e i j * yf i * yf j) (seq 0 j))
                       (seq 0 n)).
  { unfold svec_quad, sumf. f_equal. apply map_ext. intros j.
    rewrite nth_vecR. f_equal. f_equal. f_equal. apply map_ext. intros i.
    rewrite nth_vecR. reflexivity. }
  rewrite Hsv, svec_form.
  rewrite (sumf_ext_in (fun j => sumf (fun i => e i j / 2 * yf i * yf j) (seq 0 j))
                       (fun j => sumf (fun i => h i j * yf i * yf j) (seq 0 j))).
  2:{ intros j _. apply sumf_ext_in. intros i _. unfold h, e. rewrite d2R_psd_half. reflexivity. }
  (* the bound *)
  destruct (psd_shift_R n v) as [hF [HhF [Hh Hsh]]].
  fold h in Hh. fold sh in Hsh.
  pose proof (cross_bound h yf n hF HhF Hh) as HX.
  pose proof (sumf_sq_nonneg yf (seq 0 n)) as HS.
  destruct r2_bounds as [Hlo Hup].
  pose proof (final_ineq (sumf (fun i => e i i * yf i * yf i) (seq 0 n))
                         (sumf (fun i => yf i * yf i) (seq 0 n))
                         (2 * sumf (fun j => sumf (fun i => h i j * yf i * yf j) (seq 0 j)) (seq 0 n))
                         sh (d2R r2lo) (d2R r2up) (R_sqrt.sqrt 2) hF
                         Hlo Hup HhF HS HX Hsh) as Hfin.
  lra.
Qed.
