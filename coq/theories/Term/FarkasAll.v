(** Term/FarkasAll.v — dual-cone pairing and convexity for EVERY cone kind of the development
    (zero, nonnegative, second-order: Farkas.v; exponential: PairExp.v; power cones with
    any exponent -- short dyadic in algebraic form, otherwise the real-exponent cone -- and generalised
    power cones with dyadic exponents: PairPow.v; PSD triangle: PairPsd.v), hence the Farkas and
    unboundedness theorems for arbitrary products of these cones, with no hypothesis on the
    cone list. *)
From Coq Require Import List ZArith NArith Reals Lra Lia Bool.
Import ListNotations.
Require Import Clarabel.Base.Ops Clarabel.Term.Eval Clarabel.Term.Spec Clarabel.Term.Farkas
        Clarabel.Term.FarkasGen Clarabel.Term.PairExp Clarabel.Term.PairPow Clarabel.Term.PairPsd.
Local Open Scope R_scope.

Theorem pair_kind_all (k : coneD) : pair_kind k.
Proof.
  destruct k as [n|n|n| |a|al d2|n]; try (apply pair_kind_sym; reflexivity); intros s z Hs Hz.
  - apply pair_cone_exp; assumption.
  - apply (pair_cone_pow a); assumption.
  - apply (pair_cone_genpow al d2); assumption.
  - apply (pair_cone_psd n); assumption.
Qed.
Theorem ray_kind_all (k : coneD) : ray_kind k.
Proof.
  destruct k as [n|n|n| |a|al d2|n]; try (apply ray_kind_sym; reflexivity); intros u v t Ht Hu Hv.
  - apply ray_cone_exp; assumption.
  - apply (ray_cone_pow a); assumption.
  - apply (ray_cone_genpow al d2); assumption.
  - apply (ray_cone_psd n); assumption.
Qed.
Lemma Forall_all {X} (P : X -> Prop) (l : list X) : (forall x, P x) -> Forall P l.
Proof. intros H. induction l; constructor; auto. Qed.

(** s in K, z in K*  ==>  <s,z> >= 0 , for any product K of supported cones *)
Theorem pair_K_all (K : list coneD) (s z : list R) :
  InK K s -> InKdual K z -> length s = cones_dim K -> length s = length z -> 0 <= dot OpsR s z.
Proof. apply pair_K_gen. apply Forall_all. exact pair_kind_all. Qed.

(** a + t b in K for a, b in K, t >= 0 *)
Theorem InK_ray_all (K : list coneD) (a b : list R) (t : R) :
  0 <= t -> length a = length b -> InK K a -> InK K b -> InK K (vadd OpsR a (vscale OpsR t b)).
Proof. apply InK_ray_gen. apply Forall_all. exact ray_kind_all. Qed.

Section All.
Variable p : probRr.
Hypothesis Hcols : cols_lt (r_A p) (r_n p).
Hypothesis HlenA : length (r_A p) = r_m p.
Hypothesis Hdim : cones_dim (r_K p) = r_m p.

(** z in K*, A'z = 0, b'z < 0 refutes  exists x s, A x + s = b /\ s in K  on the ORIGINAL data *)
Theorem farkas_sound_all (z : list R) :
  length z = r_m p -> InKdual (r_K p) z ->
  mtv OpsR (r_A p) z (r_n p) = repeat 0 (r_n p) ->
  dot OpsR (r_b p) z < 0 ->
  ~ primal_feasible p.
Proof. apply farkas_sound_gen; try assumption. apply Forall_all. exact pair_kind_all. Qed.

(** ||A'z|| <= delta : every feasible x has  -b'z <= delta ||x|| *)
Theorem farkas_quantitative_all (z : list R) (delta : R) :
  length z = r_m p -> InKdual (r_K p) z ->
  norm2 (mtv OpsR (r_A p) z (r_n p)) <= delta ->
  forall x s : list R,
    length x = r_n p -> length s = r_m p ->
    vadd OpsR (mv OpsR (r_A p) x) s = r_b p -> InK (r_K p) s ->
    - dot OpsR (r_b p) z <= delta * norm2 x.
Proof. apply farkas_quantitative_gen; try assumption. apply Forall_all. exact pair_kind_all. Qed.

Hypothesis HPsym : smat_sym (r_P p) (r_n p).
(** P x = 0, A x + s = 0, s in K, q'x < 0 : the feasible ray x0 + t x has cost  cost(x0) + t q'x *)
Theorem unbounded_sound_all (x s x0 s0 : list R) :
  recession p x s -> dot OpsR (r_q p) x < 0 ->
  length x0 = r_n p -> length s0 = r_m p ->
  vadd OpsR (mv OpsR (r_A p) x0) s0 = r_b p -> InK (r_K p) s0 ->
  forall t : R, 0 <= t ->
    let x1 := vadd OpsR x0 (vscale OpsR t x) in
    let s1 := vadd OpsR s0 (vscale OpsR t s) in
    (length x1 = r_n p /\ length s1 = r_m p /\
     vadd OpsR (mv OpsR (r_A p) x1) s1 = r_b p /\ InK (r_K p) s1) /\
    cost_p p x1 = cost_p p x0 + t * dot OpsR (r_q p) x.
Proof. apply unbounded_sound_gen; try assumption. apply Forall_all. exact ray_kind_all. Qed.
End All.

(** Non-vacuity: an infeasible problem over an exponential cone.  A = 0 (the variable does not
    enter), b = (0, 1, -1): s = b has y = 1 > 0 but z = -1 < y exp(x/y) = 1, so s is outside K_exp;
    the certificate z = (0, 0, 1) lies on the boundary of K_exp* and has b'z = -1 < 0. *)
Definition exA : probRr :=
  mkProbRr 1 3 [] [0] [[]; []; []] [0; 1; -1] [KExp] [true; true; true].
Example exA_infeasible : ~ primal_feasible exA.
Proof.
  apply (farkas_sound_all exA) with (z := [0; 0; 1]).
  - unfold cols_lt; cbn. repeat constructor.
  - reflexivity.
  - reflexivity.
  - reflexivity.
  - unfold InKdual; cbn. constructor; [|constructor]. cbn. split; [reflexivity|].
    right. repeat split; lra.
  - unfold mtv, dot, vsum, rget; cbn. f_equal. lra.
  - unfold dot, vsum; cbn. lra.
Qed.
