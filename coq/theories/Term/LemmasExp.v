(** Term/LemmasExp.v — soundness of the exponential-cone checkers [exp_ok] / [exp_dual_ok] of
    Term/Check.v with respect to [in_exp] / [in_exp_dual] of Term/Spec.v.
    The checker computes a certified upper bound of  y * exp (x / y)  for y > 0 through
      exp t <= (1 / (1 - t / N)) ^ N ,  N = 2 ^ EXPK ,
    evaluated by EXPK squarings, each followed by a rounding UP of the mantissa. *)
From Coq Require Import List ZArith NArith QArith Qreals Reals RMicromega Lia Lra Bool Arith Psatz.
Import ListNotations.
Require Import Clarabel.Base.Ops Clarabel.Base.Dyadic Clarabel.Term.Eval Clarabel.Term.Spec
  Clarabel.Term.Check Clarabel.Term.Hom Clarabel.Term.LemmasCheck.
Local Open Scope R_scope.

(** * Powers of two *)

Lemma d2R_D m e : d2R (D m e) = IZR m * powerRZ 2 e.
Proof.
  unfold d2R, d2Q; cbn [dm de]. rewrite Q2R_mult, Q2R_inject_Z, Q2R_pow2. reflexivity.
Qed.

Lemma powerRZ2_pos e : 0 < powerRZ 2 e.
Proof. apply powerRZ_lt. lra. Qed.

Lemma powerRZ2_IZR s : (0 <= s)%Z -> powerRZ 2 s = IZR (2 ^ s).
Proof.
  intros Hs. rewrite <- (Z2Nat.id s Hs). generalize (Z.to_nat s) as n. intros n.
  rewrite <- pow_powerRZ. rewrite pow_IZR. reflexivity.
Qed.

Lemma powerRZ2_nat k : powerRZ 2 (Z.of_nat k) = INR (2 ^ k).
Proof.
  rewrite <- pow_powerRZ. rewrite pow_INR. change (INR 2) with 2. reflexivity.
Qed.

(** * Rounding up *)

Lemma shiftr_up_Z m s : (0 < m)%Z -> (0 <= s)%Z -> (m <= (Z.shiftr m s + 1) * 2 ^ s)%Z.
Proof.
  intros Hm Hs. rewrite Z.shiftr_div_pow2 by exact Hs.
  assert (Hp : (0 < 2 ^ s)%Z) by (apply Z.pow_pos_nonneg; lia).
  pose proof (Z.div_mod m (2 ^ s)) as Hdm.
  pose proof (Z.mod_pos_bound m (2 ^ s) Hp) as Hb.
  nia.
Qed.

Lemma round_up_ge p a : d2R a <= d2R (round_up p a).
Proof.
  unfold round_up.
  destruct ((dm a <=? 0)%Z || (Z.log2 (dm a) + 1 <=? p)%Z) eqn:E; [lra|].
  apply orb_false_iff in E. destruct E as [E1 E2].
  apply Z.leb_gt in E1. apply Z.leb_gt in E2.
  destruct a as [m e]; cbn [dm de] in *.
  set (s := (Z.log2 m + 1 - p)%Z) in *.
  assert (Hs : (0 <= s)%Z) by (unfold s; lia).
  rewrite !d2R_D. rewrite powerRZ_add by lra. rewrite (powerRZ2_IZR s Hs).
  pose proof (powerRZ2_pos e) as Hpe.
  pose proof (IZR_le _ _ (shiftr_up_Z m s E1 Hs)) as Hz. rewrite mult_IZR in Hz.
  replace (IZR (Z.shiftr m s + 1) * (powerRZ 2 e * IZR (2 ^ s)))
    with ((IZR (Z.shiftr m s + 1) * IZR (2 ^ s)) * powerRZ 2 e) by ring.
  apply Rmult_le_compat_r; [lra | exact Hz].
Qed.

Lemma sq_up_ge k : forall a, 0 <= d2R a -> (d2R a) ^ (2 ^ k) <= d2R (sq_up k a).
Proof.
  induction k as [|k IH]; intros a Ha.
  - rewrite Nat.pow_0_r. rewrite pow_1. cbn [sq_up]. lra.
  - cbn [sq_up]. rewrite Nat.pow_succ_r'. rewrite pow_mult.
    assert (Hsq : d2R a ^ 2 = d2R (a *d a)) by (rewrite d2R_mul; ring).
    rewrite Hsq.
    assert (H0 : 0 <= d2R (a *d a)) by (rewrite d2R_mul; nra).
    pose proof (round_up_ge 160 (a *d a)) as Hr.
    apply Rle_trans with (d2R (round_up 160 (a *d a)) ^ (2 ^ k)).
    + apply pow_incr. split; [exact H0 | exact Hr].
    + apply IH. lra.
Qed.

(** * The quotient bound [rho] *)

Lemma rho_ge_gen p a b :
  (0 <= p)%Z -> (0 < b)%Z -> (0 <= a)%Z ->
  IZR a / IZR b <= d2R (D (a * 2 ^ p / b + 1) (- p)).
Proof.
  intros Hp Hb Ha. rewrite d2R_D. rewrite powerRZ_neg'. rewrite (powerRZ2_IZR p Hp).
  assert (HT : (0 < 2 ^ p)%Z) by (apply Z.pow_pos_nonneg; lia).
  set (T := (2 ^ p)%Z) in *.
  set (q := (a * T / b)%Z).
  assert (Hz : (a * T <= (q + 1) * b)%Z).
  { pose proof (Z.div_mod (a * T) b) as Hdm.
    pose proof (Z.mod_pos_bound (a * T) b Hb) as Hbd. unfold q. nia. }
  apply IZR_le in Hz. rewrite !mult_IZR in Hz.
  assert (HB : 0 < IZR b) by (apply IZR_lt; exact Hb).
  assert (HT' : 0 < IZR T) by (apply IZR_lt; exact HT).
  revert Hz. generalize (IZR (q + 1)) as Q. generalize (IZR a) as A.
  generalize dependent (IZR b). generalize dependent (IZR T). clear.
  intros T' HT' B HB A Q Hz.
  assert (E1 : A / B = A * T' / (B * T')) by (field; lra).
  assert (E2 : Q * / T' = Q * B / (B * T')) by (field; lra).
  rewrite E1, E2. unfold Rdiv. apply Rmult_le_compat_r; [|exact Hz].
  left. apply Rinv_0_lt_compat. nra.
Qed.

Lemma dat_R a e : (e <= de a)%Z -> IZR (dat a e) * powerRZ 2 e = d2R a.
Proof.
  intros H. pose proof (Qeq_eqR _ _ (dat_sem a e H)) as HR.
  rewrite Q2R_mult, Q2R_inject_Z, Q2R_pow2 in HR. exact HR.
Qed.

(** * Real exponential facts *)

Lemma exp_le_inv u : u < 1 -> exp u <= / (1 - u).
Proof.
  intros Hu. pose proof (exp_ineq1_le (- u)) as H. rewrite exp_Ropp in H.
  pose proof (exp_pos u) as He.
  apply Rmult_le_reg_r with (1 - u); [lra|].
  rewrite Rinv_l by lra.
  apply Rle_trans with (exp u * / exp u).
  - apply Rmult_le_compat_l; lra.
  - rewrite Rinv_r by lra. lra.
Qed.

Lemma exp_pow_nat x n : exp x ^ n = exp (INR n * x).
Proof.
  induction n as [|n IH].
  - cbn [pow INR]. rewrite Rmult_0_l, exp_0. reflexivity.
  - rewrite S_INR. cbn [pow]. rewrite IH.
    replace ((INR n + 1) * x) with (x + INR n * x) by ring.
    rewrite exp_plus. reflexivity.
Qed.

Lemma exp_le_mono a b : a <= b -> exp a <= exp b.
Proof.
  intros [H|H]; [left; apply exp_increasing; exact H | subst; lra].
Qed.

(** * The main bound, for an arbitrary number [k] of squarings *)

Lemma yexp_up_gen_sound k x0 y :
  0 < d2R y ->
  0 < d2R (dshift y (Z.of_nat k) -d dmax x0 (dneg (dshift y 11))) ->
  d2R y * exp (d2R x0 / d2R y) <=
  d2R (y *d sq_up k
         (D (dat (dshift y (Z.of_nat k))
                 (Z.min (de (dshift y (Z.of_nat k)))
                        (de (dshift y (Z.of_nat k) -d dmax x0 (dneg (dshift y 11))))) * 2 ^ 170 /
             dat (dshift y (Z.of_nat k) -d dmax x0 (dneg (dshift y 11)))
                 (Z.min (de (dshift y (Z.of_nat k)))
                        (de (dshift y (Z.of_nat k) -d dmax x0 (dneg (dshift y 11))))) + 1)
            (-170))).
Proof.
  intros HY Hden.
  set (x := dmax x0 (dneg (dshift y 11))) in *.
  set (yN := dshift y (Z.of_nat k)) in *.
  set (den := yN -d x) in *.
  set (e := Z.min (de yN) (de den)).
  set (a := dat yN e). set (b := dat den e).
  set (rho := D (a * 2 ^ 170 / b + 1) (-170)).
  remember (INR (2 ^ k)) as N eqn:Hk.
  assert (HX0 : d2R x0 <= d2R x).
  { unfold x. rewrite d2R_max. apply Rmax_l. }
  assert (HyN : d2R yN = d2R y * N).
  { unfold yN. rewrite d2R_shift, powerRZ2_nat, <- Hk. reflexivity. }
  assert (HN : 0 < N).
  { rewrite Hk, <- powerRZ2_nat. apply powerRZ2_pos. }
  assert (Hd : d2R den = d2R y * N - d2R x).
  { unfold den. rewrite d2R_sub, HyN. reflexivity. }
  assert (Ha : IZR a * powerRZ 2 e = d2R yN) by (apply dat_R; unfold e; lia).
  assert (Hb : IZR b * powerRZ 2 e = d2R den) by (apply dat_R; unfold e; lia).
  pose proof (powerRZ2_pos e) as Hpe.
  rewrite Hd in Hden. rewrite d2R_mul.
  revert HX0 HyN Hd Ha Hb Hden HY HN.
  generalize (d2R x0) as X0. generalize (d2R x) as X. generalize (d2R y) as Y.
  generalize (d2R yN) as YN. generalize (d2R den) as DEN.
  intros DEN YN Y X X0 HX0 HyN Hd Ha Hb Hden HY HN.
  subst YN DEN.
  assert (HYN : 0 < Y * N) by (apply Rmult_lt_0_compat; assumption).
  assert (HbR : 0 < IZR b) by nra.
  assert (HaR : 0 < IZR a) by nra.
  assert (Hbz : (0 < b)%Z) by (apply lt_IZR; exact HbR).
  assert (Haz : (0 <= a)%Z) by (apply le_IZR; lra).
  pose proof (rho_ge_gen 170 a b ltac:(lia) Hbz Haz) as Hrho.
  change (- (170))%Z with (-170)%Z in Hrho. fold rho in Hrho.
  assert (Hq : IZR a / IZR b = Y * N / (Y * N - X)).
  { rewrite <- Hb, <- Ha. field. split; lra. }
  rewrite Hq in Hrho.
  set (u := X / (Y * N)).
  assert (Hu1 : / (1 - u) = Y * N / (Y * N - X)).
  { unfold u. field. repeat split; lra. }
  assert (Hu : u < 1).
  { unfold u. apply Rmult_lt_reg_r with (Y * N); [exact HYN|].
    unfold Rdiv. rewrite Rmult_assoc, Rinv_l by lra. lra. }
  pose proof (exp_le_inv u Hu) as Hexp. rewrite Hu1 in Hexp.
  pose proof (exp_pos u) as Hep.
  assert (Hrho0 : 0 <= d2R rho) by lra.
  assert (Hpow : exp (X / Y) = exp u ^ (2 ^ k)).
  { rewrite exp_pow_nat, <- Hk. f_equal. unfold u. field. split; lra. }
  apply Rmult_le_compat_l; [lra|].
  apply Rle_trans with (exp (X / Y)).
  - apply exp_le_mono. unfold Rdiv. apply Rmult_le_compat_r; [|exact HX0].
    left. apply Rinv_0_lt_compat. exact HY.
  - rewrite Hpow.
    apply Rle_trans with (d2R rho ^ (2 ^ k)).
    + apply pow_incr. split; lra.
    + apply sq_up_ge. exact Hrho0.
Qed.

Lemma yexp_up_sound x0 y U :
  dltb d0 y = true -> yexp_up x0 y = Some U ->
  d2R y * exp (d2R x0 / d2R y) <= d2R U.
Proof.
  intros Hy. apply dltb_R in Hy. rewrite d2R_0 in Hy.
  unfold yexp_up. generalize EXPK. intros k.
  destruct (dltb d0 (dshift y (Z.of_nat k) -d dmax x0 (dneg (dshift y 11))) &&
            dleb (dmax x0 (dneg (dshift y 11))) (dshift y 11)) eqn:E; [|discriminate].
  intros HU. injection HU as HU. subst U.
  apply andb_true_iff in E. destruct E as [E1 _].
  apply dltb_R in E1. rewrite d2R_0 in E1.
  apply yexp_up_gen_sound; assumption.
Qed.

(** * Soundness of the cone checkers *)

Theorem exp_ok_sound : forall v, exp_ok v = true -> in_exp (vecR v).
Proof.
  intros v H.
  destruct v as [|x [|y [|z [|w v]]]]; try (cbn [exp_ok] in H; discriminate H).
  unfold exp_ok in H. cbn [vecR map in_exp].
  destruct (dltb d0 y) eqn:Ey.
  - left. destruct (yexp_up x y) as [U|] eqn:EU; [|discriminate H].
    apply dleb_R in H.
    pose proof (yexp_up_sound x y U Ey EU) as Hb.
    apply dltb_R in Ey. rewrite d2R_0 in Ey.
    split; [exact Ey | lra].
  - right. apply andb_true_iff in H. destruct H as [H Hz].
    apply andb_true_iff in H. destruct H as [Hx Hy].
    apply dleb_R in Hx. apply deqb_R in Hy. apply dleb_R in Hz.
    rewrite d2R_0 in Hx, Hy, Hz. repeat split; assumption.
Qed.

Theorem exp_dual_ok_sound : forall v, exp_dual_ok v = true -> in_exp_dual (vecR v).
Proof.
  intros v H.
  destruct v as [|u [|t [|w [|w' v]]]]; try (cbn [exp_dual_ok] in H; discriminate H).
  unfold exp_dual_ok in H. apply exp_ok_sound in H.
  cbn [vecR map in_exp in_exp_dual] in *.
  rewrite d2R_sub, d2R_neg in H.
  revert H. generalize (d2R u) as Ur. generalize (d2R t) as Tr. generalize (d2R w) as Wr.
  intros Wr Tr Ur H.
  destruct H as [[Hy Hb] | [Hx [Hy Hz]]].
  - left. split; [lra|].
    replace (Tr / Ur - 1) with ((Ur - Tr) / - Ur) by (field; lra).
    exact Hb.
  - right. repeat split; lra.
Qed.
