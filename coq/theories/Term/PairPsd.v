(** Term/PairPsd.v — the PSD triangle cone is self-dual (the half needed by the Farkas argument):
      in_psd n s -> in_psd n z -> 0 <= dot s z            ( tr(S Z) >= 0 )
    and it is closed under  a + t b  (t >= 0).

    Method.  All index bookkeeping is done on FUNCTIONS: a symmetric matrix in svec coordinates is
    a pair (d, o) of a diagonal accessor [d j] and a strict-upper accessor [o i j] (i < j); the
    quadratic form [qf2], the trace pairing [trf2] and positive semidefiniteness [psdf2] are finite
    sums over [seq].  The pairing theorem [pair_f] is proved by induction on the order, peeling off
    the last row/column (Schur complement when the corner entry is positive, vanishing last column
    when it is zero).  Lists come in only at the end: [svec_quad] IS [qf2] of the accessors of the
    list (by conversion) and [dot] of two lists of length n(n+1)/2 IS [trf2] ([dot_tri]). *)
From Coq Require Import List ZArith Reals Lra Lia Psatz Bool Arith.
Import ListNotations.
Require Import Clarabel.Base.Ops Clarabel.Term.Eval Clarabel.Term.Spec Clarabel.Term.Farkas
        Clarabel.Term.LemmasPsd.
Local Open Scope R_scope.

(** * sqrt 2 *)
Definition s2 : R := R_sqrt.sqrt 2.

Lemma s2s2 : s2 * s2 = 2.
Proof. unfold s2. apply sqrt_sqrt. lra. Qed.

Lemma s2_pos : 0 < s2.
Proof. unfold s2. apply sqrt_lt_R0. lra. Qed.

(** * more on [sumf] *)
Lemma sumf_0 (l : list nat) : sumf (fun _ => 0) l = 0.
Proof.
  induction l as [|a l IH]; [apply sumf_nil|].
  rewrite sumf_cons, IH. ring.
Qed.

Lemma sumf_all0 (f : nat -> R) (l : list nat) :
  (forall i, In i l -> f i = 0) -> sumf f l = 0.
Proof.
  intros H. rewrite (sumf_ext_in f (fun _ => 0) l H). apply sumf_0.
Qed.

Lemma sumf_sq_zero (g : nat -> R) : forall l : list nat,
  sumf (fun i => g i * g i) l = 0 -> forall i, In i l -> g i = 0.
Proof.
  induction l as [|a l IH]; intros Hs i Hi; [contradiction Hi|].
  rewrite sumf_cons in Hs.
  pose proof (sumf_sq_nonneg g l) as Hnn.
  assert (Ha : g a * g a = 0) by nra.
  assert (Hl : sumf (fun i => g i * g i) l = 0) by nra.
  destruct Hi as [Hi|Hi].
  - subst i. nra.
  - apply IH; assumption.
Qed.

Lemma sumf_seq_shift (g : nat -> R) (k : nat) : forall m,
  sumf g (seq k m) = sumf (fun i => g (k + i)%nat) (seq 0 m).
Proof.
  induction m as [|m IH]; [reflexivity|].
  rewrite !sumf_seq_S, IH. cbn [Nat.add]. reflexivity.
Qed.

(** * matrices in svec coordinates as accessor functions *)
Definition dg (v : list R) (j : nat) : R := nth (tri_idx j j) v 0.
Definition od (v : list R) (i j : nat) : R := nth (tri_idx i j) v 0.

Definition qf2 (n : nat) (d : nat -> R) (o : nat -> nat -> R) (y : nat -> R) : R :=
  sumf (fun j => d j * y j * y j + s2 * sumf (fun i => o i j * y i * y j) (seq 0 j)) (seq 0 n).
(** last column (strict part) against y *)
Definition lin (n : nat) (o : nat -> nat -> R) (y : nat -> R) : R :=
  sumf (fun i => o i n * y i) (seq 0 n).
Definition trf2 (n : nat) (d : nat -> R) (o : nat -> nat -> R) (d' : nat -> R) (o' : nat -> nat -> R) : R :=
  sumf (fun j => d j * d' j + sumf (fun i => o i j * o' i j) (seq 0 j)) (seq 0 n).
Definition psdf2 (n : nat) (d : nat -> R) (o : nat -> nat -> R) : Prop :=
  forall y : nat -> R, 0 <= qf2 n d o y.

Lemma svec_quad_qf2 (n : nat) (v y : list R) :
  svec_quad n v y = qf2 n (dg v) (od v) (fun k => nth k y 0).
Proof. reflexivity. Qed.

Lemma qf2_S n d o y :
  qf2 (S n) d o y = qf2 n d o y + d n * y n * y n + s2 * y n * lin n o y.
Proof.
  unfold qf2, lin. rewrite sumf_seq_S. cbn [Nat.add].
  rewrite (sumf_ext_in (fun i => o i n * y i * y n) (fun i => y n * (o i n * y i)))
    by (intros i _; ring).
  rewrite sumf_scal. ring.
Qed.

Lemma qf2_ext n d d' o o' y y' :
  (forall j, (j < n)%nat -> d j = d' j) ->
  (forall i j, (i < j)%nat -> (j < n)%nat -> o i j = o' i j) ->
  (forall j, (j < n)%nat -> y j = y' j) ->
  qf2 n d o y = qf2 n d' o' y'.
Proof.
  intros Hd Ho Hy. unfold qf2. apply sumf_ext_in. intros j Hj. apply in_seq in Hj.
  assert (Hin : sumf (fun i => o i j * y i * y j) (seq 0 j)
                = sumf (fun i => o' i j * y' i * y' j) (seq 0 j)).
  { apply sumf_ext_in. intros i Hi. apply in_seq in Hi.
    rewrite (Ho i j) by lia. rewrite (Hy i) by lia. rewrite (Hy j) by lia. reflexivity. }
  rewrite Hin. rewrite (Hd j) by lia. rewrite (Hy j) by lia. reflexivity.
Qed.

Lemma qf2_lin n d1 d2 o1 o2 t y :
  qf2 n (fun j => d1 j + t * d2 j) (fun i j => o1 i j + t * o2 i j) y
  = qf2 n d1 o1 y + t * qf2 n d2 o2 y.
Proof.
  unfold qf2. rewrite <- sumf_scal, <- sumf_plus. apply sumf_ext_in. intros j _. cbv beta.
  rewrite (sumf_ext_in (fun i => (o1 i j + t * o2 i j) * y i * y j)
                       (fun i => o1 i j * y i * y j + t * (o2 i j * y i * y j)))
    by (intros i _; ring).
  rewrite sumf_plus, sumf_scal. ring.
Qed.

Lemma qf2_zero n d o : qf2 n d o (fun _ => 0) = 0.
Proof.
  unfold qf2. apply sumf_all0. intros j _.
  rewrite (sumf_all0 (fun i => o i j * 0 * 0)) by (intros i _; ring). ring.
Qed.

Lemma lin_zero n o : lin n o (fun _ => 0) = 0.
Proof. unfold lin. apply sumf_all0. intros i _. ring. Qed.

(** the form of the rank-one matrix c c' is the square of the linear form *)
Lemma qf2_outer (c y : nat -> R) : forall n,
  qf2 n (fun j => c j * c j) (fun i j => s2 * (c i * c j)) y
  = sumf (fun i => c i * y i) (seq 0 n) * sumf (fun i => c i * y i) (seq 0 n).
Proof.
  induction n as [|n IH].
  - unfold qf2. cbn [seq]. rewrite !sumf_nil. ring.
  - rewrite qf2_S, IH. unfold lin. rewrite sumf_seq_S. cbn [Nat.add].
    rewrite (sumf_ext_in (fun i => s2 * (c i * c n) * y i) (fun i => (s2 * c n) * (c i * y i)))
      by (intros i _; ring).
    rewrite sumf_scal.
    set (X := sumf (fun i => c i * y i) (seq 0 n)).
    replace (s2 * y n * (s2 * c n * X)) with ((s2 * s2) * (y n * c n * X)) by ring.
    rewrite s2s2. ring.
Qed.

Lemma trf2_S n D O d o :
  trf2 (S n) D O d o = trf2 n D O d o + D n * d n + sumf (fun i => O i n * o i n) (seq 0 n).
Proof.
  unfold trf2. rewrite sumf_seq_S. cbn [Nat.add]. ring.
Qed.

Lemma trf2_lin n D O d1 d2 o1 o2 t :
  trf2 n D O (fun j => d1 j + t * d2 j) (fun i j => o1 i j + t * o2 i j)
  = trf2 n D O d1 o1 + t * trf2 n D O d2 o2.
Proof.
  unfold trf2. rewrite <- sumf_scal, <- sumf_plus. apply sumf_ext_in. intros j _. cbv beta.
  rewrite (sumf_ext_in (fun i => O i j * (o1 i j + t * o2 i j))
                       (fun i => O i j * o1 i j + t * (O i j * o2 i j)))
    by (intros i _; ring).
  rewrite sumf_plus, sumf_scal. ring.
Qed.

(** tr(S c c') = c' S c *)
Lemma trf2_outer n D O (c : nat -> R) :
  trf2 n D O (fun j => c j * c j) (fun i j => s2 * (c i * c j)) = qf2 n D O c.
Proof.
  unfold trf2, qf2. apply sumf_ext_in. intros j _. f_equal; [ring|].
  rewrite <- sumf_scal. apply sumf_ext_in. intros i _. ring.
Qed.

(** * peeling off the last row/column *)
Lemma psdf2_S_inv n d o :
  psdf2 (S n) d o ->
  forall (y : nat -> R) (t : R), 0 <= qf2 n d o y + d n * t * t + s2 * t * lin n o y.
Proof.
  intros H y t.
  pose (y' := fun i : nat => if Nat.eqb i n then t else y i).
  assert (Hn : y' n = t) by (unfold y'; rewrite Nat.eqb_refl; reflexivity).
  assert (Hlt : forall i, (i < n)%nat -> y' i = y i).
  { intros i Hi. unfold y'. destruct (Nat.eqb_spec i n) as [E|_]; [lia|reflexivity]. }
  pose proof (H y') as Hy'. rewrite qf2_S in Hy'.
  rewrite (qf2_ext n d d o o y' y) in Hy' by (intros; auto).
  assert (Hl : lin n o y' = lin n o y).
  { unfold lin. apply sumf_ext_in. intros i Hi. apply in_seq in Hi. rewrite Hlt by lia. reflexivity. }
  rewrite Hl, Hn in Hy'. exact Hy'.
Qed.

(** * the pairing theorem on accessor functions *)
Theorem pair_f : forall n D O d o,
  psdf2 n D O -> psdf2 n d o -> 0 <= trf2 n D O d o.
Proof.
  induction n as [|n IH]; intros D O d o HS HZ.
  - unfold trf2. cbn [seq]. rewrite sumf_nil. lra.
  - pose proof (psdf2_S_inv n D O HS) as HS'.
    pose proof (psdf2_S_inv n d o HZ) as HZ'.
    assert (HSn : psdf2 n D O).
    { intros y. pose proof (HS' y 0) as H0.
      replace (qf2 n D O y + D n * 0 * 0 + s2 * 0 * lin n O y) with (qf2 n D O y) in H0 by ring.
      exact H0. }
    assert (HZn : psdf2 n d o).
    { intros y. pose proof (HZ' y 0) as H0.
      replace (qf2 n d o y + d n * 0 * 0 + s2 * 0 * lin n o y) with (qf2 n d o y) in H0 by ring.
      exact H0. }
    assert (Ha : 0 <= d n).
    { pose proof (HZ' (fun _ => 0) 1) as H1. rewrite qf2_zero, lin_zero in H1. lra. }
    rewrite trf2_S.
    set (X := sumf (fun i => O i n * o i n) (seq 0 n)).
    destruct (Rle_lt_or_eq_dec 0 (d n) Ha) as [Hpos|Hzero].
    + (* positive corner: Schur complement *)
      pose (c := fun i : nat => o i n).
      pose (k := / (2 * d n)).
      assert (Hk : 0 < k) by (unfold k; apply Rinv_0_lt_compat; lra).
      assert (Hka : k * (2 * d n) = 1) by (unfold k; field; lra).
      pose (d2 := fun j : nat => d j + (- k) * (c j * c j)).
      pose (o2 := fun i j : nat => o i j + (- k) * (s2 * (c i * c j))).
      assert (Hpsd2 : psdf2 n d2 o2).
      { intros y. unfold d2, o2. rewrite qf2_lin, qf2_outer.
        change (sumf (fun i => c i * y i) (seq 0 n)) with (lin n o y).
        set (L := lin n o y). set (q := qf2 n d o y).
        pose proof (HZ' y (- s2 * L / (2 * d n))) as Ht. fold L in Ht. fold q in Ht.
        assert (E : q + d n * (- s2 * L / (2 * d n)) * (- s2 * L / (2 * d n))
                    + s2 * (- s2 * L / (2 * d n)) * L
                    = q - (s2 * s2) * (L * L) / (4 * d n)) by (field; lra).
        rewrite E, s2s2 in Ht.
        replace (q + - k * (L * L)) with (q - 2 * (L * L) / (4 * d n)) by (unfold k; field; lra).
        exact Ht. }
      pose proof (IH D O d2 o2 HSn Hpsd2) as HI.
      unfold d2, o2 in HI. rewrite trf2_lin, trf2_outer in HI.
      pose proof (HS' c (s2 * d n)) as Hc.
      change (lin n O c) with X in Hc.
      set (Q := qf2 n D O c) in *. set (T := trf2 n D O d o) in *.
      replace (Q + D n * (s2 * d n) * (s2 * d n) + s2 * (s2 * d n) * X)
        with (Q + (s2 * s2) * D n * d n * d n + (s2 * s2) * d n * X) in Hc by ring.
      rewrite s2s2 in Hc.
      assert (H2 : 0 <= k * (Q + 2 * D n * d n * d n + 2 * d n * X)).
      { apply Rmult_le_pos; lra. }
      assert (E : k * (Q + 2 * D n * d n * d n + 2 * d n * X)
                  = k * Q + (k * (2 * d n)) * (D n * d n + X)) by ring.
      rewrite Hka in E. lra.
    + (* zero corner: the last column vanishes *)
      assert (HL : forall y, lin n o y = 0).
      { intros y. destruct (Req_dec (lin n o y) 0) as [E|NE]; [exact E|]. exfalso.
        set (L := lin n o y) in *. set (q := qf2 n d o y).
        pose proof s2_pos as Hs2.
        pose proof (HZ' y (- (q + 1) / (s2 * L))) as Ht. fold L in Ht. fold q in Ht.
        rewrite <- Hzero in Ht.
        assert (E : q + 0 * (- (q + 1) / (s2 * L)) * (- (q + 1) / (s2 * L))
                    + s2 * (- (q + 1) / (s2 * L)) * L = -1).
        { field. split; [exact NE|lra]. }
        rewrite E in Ht. lra. }
      assert (Hcol : forall i, In i (seq 0 n) -> o i n = 0).
      { apply sumf_sq_zero. exact (HL (fun i => o i n)). }
      assert (HX : X = 0).
      { unfold X. apply sumf_all0. intros i Hi. rewrite (Hcol i Hi). ring. }
      rewrite HX, <- Hzero.
      pose proof (IH D O d o HSn HZn) as HI. lra.
Qed.

(** * back to lists *)
Lemma nth_map_seq (y : nat -> R) (n j : nat) :
  (j < n)%nat -> nth j (map y (seq 0 n)) 0 = y j.
Proof.
  intros Hj.
  rewrite (nth_indep _ 0 (y 0%nat)) by (rewrite map_length, seq_length; exact Hj).
  rewrite map_nth, seq_nth by exact Hj. reflexivity.
Qed.

Lemma in_psd_psdf2 (n : nat) (v : list R) : in_psd n v -> psdf2 n (dg v) (od v).
Proof.
  intros H y.
  assert (Hlen : length (map y (seq 0 n)) = n) by (rewrite map_length, seq_length; reflexivity).
  pose proof (H (map y (seq 0 n)) Hlen) as Hq.
  rewrite svec_quad_qf2 in Hq.
  rewrite (qf2_ext n (dg v) (dg v) (od v) (od v) _ y) in Hq; auto.
  intros j Hj. apply nth_map_seq. exact Hj.
Qed.

Lemma psdf2_in_psd (n : nat) (v : list R) : psdf2 n (dg v) (od v) -> in_psd n v.
Proof.
  intros H y _. rewrite svec_quad_qf2. apply H.
Qed.

Lemma tri_succ (n : nat) : (S n * (S n + 1) / 2 = n * (n + 1) / 2 + S n)%nat.
Proof.
  replace (S n * (S n + 1))%nat with (n * (n + 1) + S n * 2)%nat by lia.
  apply Nat.div_add. lia.
Qed.

Lemma dot_nth (s z : list R) (m : nat) :
  length s = m -> length z = m ->
  dot OpsR s z = sumf (fun k => nth k s 0 * nth k z 0) (seq 0 m).
Proof.
  intros Hs Hz.
  assert (Es : s = map (fun i => nth i s 0) (seq 0 m)).
  { rewrite (list_as_map_seq s m 0 Hs) at 1. apply map_ext. intros i.
    rewrite Nat.sub_0_r. reflexivity. }
  assert (Ez : z = map (fun i => nth i z 0) (seq 0 m)).
  { rewrite (list_as_map_seq z m 0 Hz) at 1. apply map_ext. intros i.
    rewrite Nat.sub_0_r. reflexivity. }
  transitivity (dot OpsR (map (fun i => nth i s 0) (seq 0 m)) (map (fun i => nth i z 0) (seq 0 m))).
  - rewrite <- Es, <- Ez. reflexivity.
  - apply dot_map_map.
Qed.

(** a sum over the packed triangle, column by column *)
Lemma sum_tri (g : nat -> R) : forall n,
  sumf g (seq 0 (n * (n + 1) / 2))
  = sumf (fun j => g (tri_idx j j) + sumf (fun i => g (tri_idx i j)) (seq 0 j)) (seq 0 n).
Proof.
  induction n as [|n IH]; [reflexivity|].
  rewrite tri_succ, seq_app, sumf_app, IH.
  rewrite (sumf_seq_S _ 0 n). f_equal.
  rewrite sumf_seq_shift, sumf_seq_S.
  unfold tri_idx. cbn [Nat.add]. ring.
Qed.

Lemma dot_tri (n : nat) (s z : list R) :
  length s = (n * (n + 1) / 2)%nat -> length z = (n * (n + 1) / 2)%nat ->
  dot OpsR s z = trf2 n (dg s) (od s) (dg z) (od z).
Proof.
  intros Hs Hz. rewrite (dot_nth s z _ Hs Hz), sum_tri. reflexivity.
Qed.

(** * the pairing theorem *)
Theorem pair_psd : forall n s z,
  length s = (n * (n + 1) / 2)%nat -> length z = (n * (n + 1) / 2)%nat ->
  in_psd n s -> in_psd n z -> 0 <= dot OpsR s z.
Proof.
  intros n s z Hs Hz HS HZ. rewrite (dot_tri n s z Hs Hz).
  apply pair_f; apply in_psd_psdf2; assumption.
Qed.

Theorem pair_cone_psd : forall n s z,
  in_cone (KPSD n) s -> in_dual (KPSD n) z -> 0 <= dot OpsR s z.
Proof.
  intros n s z [Hls HS] [Hlz HZ]. cbn [cone_dim] in Hls, Hlz.
  exact (pair_psd (N.to_nat n) s z Hls Hlz HS HZ).
Qed.

(** * closure under  a + t b *)
Lemma svec_quad_ray (n : nat) (a b : list R) (t : R) (y : list R) :
  length a = length b ->
  svec_quad n (vadd OpsR a (vscale OpsR t b)) y = svec_quad n a y + t * svec_quad n b y.
Proof.
  intros Hlen. rewrite !svec_quad_qf2, <- qf2_lin.
  assert (Hl : length a = length (vscale OpsR t b)) by (rewrite vscale_length; exact Hlen).
  apply qf2_ext.
  - intros j _. unfold dg. rewrite nth_vadd, nth_vscale by exact Hl. reflexivity.
  - intros i j _ _. unfold od. rewrite nth_vadd, nth_vscale by exact Hl. reflexivity.
  - intros j _. reflexivity.
Qed.

Lemma psd_ray (n : nat) (a b : list R) (t : R) :
  0 <= t -> length a = length b -> in_psd n a -> in_psd n b ->
  in_psd n (vadd OpsR a (vscale OpsR t b)).
Proof.
  intros Ht Hlen Ha Hb y Hy. rewrite (svec_quad_ray n a b t y Hlen).
  pose proof (Ha y Hy) as H1. pose proof (Hb y Hy) as H2.
  pose proof (Rmult_le_pos _ _ Ht H2) as H3. lra.
Qed.

Theorem ray_cone_psd : forall n a b t,
  0 <= t -> in_cone (KPSD n) a -> in_cone (KPSD n) b ->
  in_cone (KPSD n) (vadd OpsR a (vscale OpsR t b)).
Proof.
  intros n a b t Ht [Hla Ha] [Hlb Hb].
  assert (Hlen : length a = length b) by (rewrite Hla, Hlb; reflexivity).
  split.
  - rewrite vadd_length by (rewrite vscale_length; exact Hlen). exact Hla.
  - apply psd_ray; assumption.
Qed.

(** * the last-column decomposition on lists (the bookkeeping identity behind [qf2_S]) *)
Lemma tri_mono (j n : nat) : (j <= n)%nat -> (j * (j + 1) / 2 <= n * (n + 1) / 2)%nat.
Proof.
  intros Hj. apply Nat.div_le_mono; [lia|]. apply Nat.mul_le_mono; lia.
Qed.

Lemma tri_idx_lt (i j n : nat) :
  (i <= j)%nat -> (j < n)%nat -> (tri_idx i j < n * (n + 1) / 2)%nat.
Proof.
  intros Hi Hj. unfold tri_idx.
  pose proof (tri_succ j) as Hs. pose proof (tri_mono (S j) n Hj) as Hm. lia.
Qed.

Lemma list_split_last_col (n : nat) (v : list R) :
  length v = (S n * (S n + 1) / 2)%nat ->
  exists v' c a, v = v' ++ c ++ [a] /\ length v' = (n * (n + 1) / 2)%nat /\ length c = n.
Proof.
  intros Hv. rewrite tri_succ in Hv.
  set (T := (n * (n + 1) / 2)%nat) in *.
  assert (Hw : length (skipn T v) = S n) by (rewrite skipn_length; lia).
  assert (Hne : skipn T v <> []).
  { intros E. rewrite E in Hw. discriminate Hw. }
  destruct (exists_last Hne) as [c [a Ew]].
  exists (firstn T v), c, a. split; [|split].
  - rewrite <- Ew. symmetry. apply firstn_skipn.
  - rewrite firstn_length. lia.
  - rewrite Ew, app_length in Hw. cbn [length] in Hw. lia.
Qed.

Lemma svec_quad_snoc (n : nat) (v' c : list R) (a : R) (y : list R) (t : R) :
  length v' = (n * (n + 1) / 2)%nat -> length c = n -> length y = n ->
  svec_quad (S n) (v' ++ c ++ [a]) (y ++ [t])
  = svec_quad n v' y + R_sqrt.sqrt 2 * t * dot OpsR c y + a * t * t.
Proof.
  intros Hv Hc Hy. change (R_sqrt.sqrt 2) with s2.
  rewrite !svec_quad_qf2, qf2_S. cbv beta.
  set (v := v' ++ c ++ [a]).
  set (T := (n * (n + 1) / 2)%nat) in *.
  assert (Hlow : forall k, (k < T)%nat -> nth k v 0 = nth k v' 0).
  { intros k Hk. unfold v. apply app_nth1. lia. }
  assert (Hcol : forall i, (i < n)%nat -> nth (T + i) v 0 = nth i c 0).
  { intros i Hi. unfold v. rewrite app_nth2 by lia.
    replace (T + i - length v')%nat with i by lia. apply app_nth1. lia. }
  assert (Hcor : nth (T + n) v 0 = a).
  { unfold v. rewrite app_nth2 by lia.
    replace (T + n - length v')%nat with n by lia.
    rewrite app_nth2 by lia. replace (n - length c)%nat with 0%nat by lia. reflexivity. }
  assert (Hyl : forall j, (j < n)%nat -> nth j (y ++ [t]) 0 = nth j y 0).
  { intros j Hj. apply app_nth1. lia. }
  assert (Hyn : nth n (y ++ [t]) 0 = t).
  { rewrite app_nth2 by lia. replace (n - length y)%nat with 0%nat by lia. reflexivity. }
  rewrite (qf2_ext n (dg v) (dg v') (od v) (od v')
                   (fun k => nth k (y ++ [t]) 0) (fun k => nth k y 0)).
  - assert (Hd : dg v n = a) by (unfold dg, tri_idx; fold T; exact Hcor).
    assert (Hl : lin n (od v) (fun k => nth k (y ++ [t]) 0) = dot OpsR c y).
    { rewrite (dot_nth c y n Hc Hy). unfold lin. apply sumf_ext_in. intros i Hi.
      apply in_seq in Hi. unfold od, tri_idx. fold T.
      rewrite Hcol, Hyl by lia. reflexivity. }
    rewrite Hd, Hl, Hyn. ring.
  - intros j Hj. unfold dg. apply Hlow. apply tri_idx_lt; lia.
  - intros i j Hi Hj. unfold od. apply Hlow. apply tri_idx_lt; lia.
  - exact Hyl.
Qed.
