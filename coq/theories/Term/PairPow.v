(** Term/PairPow.v — dual-cone pairing and convexity for the power cones of Term/Spec.v
    (rational exponents in algebraic form; arbitrary real exponents through Rpower).
    A. weighted AM-GM with natural weights (through 1 + t <= exp t, no logarithms),
    B. <s, z> >= 0 for s in the 3-d power cone and z in its dual,
    C. the same for the generalised power cone. *)
From Coq Require Import List ZArith Reals Lra Lia Psatz Bool Arith.
Import ListNotations.
Require Import Clarabel.Base.Ops Clarabel.Base.Dyadic Clarabel.Term.Eval Clarabel.Term.Spec
        Clarabel.Term.Farkas.
Local Open Scope R_scope.

(** * Structural forms of the weighted product and the weighted sum *)
Fixpoint pprod (xs : list R) (ps : list nat) : R :=
  match xs, ps with
  | x :: xs', p :: ps' => x ^ p * pprod xs' ps'
  | _, _ => 1
  end.
Fixpoint wsum (xs : list R) (ps : list nat) : R :=
  match xs, ps with
  | x :: xs', p :: ps' => INR p * x + wsum xs' ps'
  | _, _ => 0
  end.

Lemma fold_Rmult_acc (l : list R) (a : R) :
  fold_left Rmult l a = a * fold_left Rmult l 1.
Proof.
  revert a; induction l as [|h l IH]; intro a; simpl.
  - lra.
  - rewrite (IH (a * h)), (IH (1 * h)). ring.
Qed.

Lemma powT_pow (x : R) (k : nat) : powT OpsR x k = x ^ k.
Proof.
  induction k as [|k IH]; cbn [powT pow]; [reflexivity | ]. rewrite IH. reflexivity.
Qed.

Lemma fold_pprod (xs : list R) (ps : list nat) (a : R) :
  fold_left Rmult (map (fun pr : R * nat => powT OpsR (fst pr) (snd pr)) (combine xs ps)) a
  = a * pprod xs ps.
Proof.
  revert ps a; induction xs as [|x xs IH]; intros ps a.
  - simpl. ring.
  - destruct ps as [|p ps]; [simpl; ring | ].
    cbn [combine map fold_left fst snd pprod]. rewrite IH, powT_pow. ring.
Qed.

Lemma prodpowR_pprod (xs : list R) (ps : list nat) : prodpowR xs ps = pprod xs ps.
Proof.
  unfold prodpowR, prodpow. change (mul OpsR) with Rmult. change (one OpsR) with 1.
  rewrite fold_pprod. ring.
Qed.

Lemma pprod_nonneg (xs : list R) (ps : list nat) :
  Forall (fun a => 0 <= a) xs -> 0 <= pprod xs ps.
Proof.
  intros Hnn; revert ps; induction Hnn as [|x xs Hx Hxs IH]; intros ps.
  - simpl. lra.
  - destruct ps as [|p ps]; [simpl; lra | ].
    cbn [pprod]. apply Rmult_le_pos; [apply pow_le; exact Hx | apply IH].
Qed.

Lemma wsum_nonneg (xs : list R) (ps : list nat) :
  Forall (fun a => 0 <= a) xs -> 0 <= wsum xs ps.
Proof.
  intros Hnn; revert ps; induction Hnn as [|x xs Hx Hxs IH]; intros ps.
  - simpl. lra.
  - destruct ps as [|p ps]; [simpl; lra | ].
    cbn [wsum]. pose proof (pos_INR p) as Hp. pose proof (IH ps) as Hr.
    assert (Hpx : 0 <= INR p * x) by (apply Rmult_le_pos; assumption). lra.
Qed.

(** * A. weighted AM-GM *)
Lemma exp_pow (t : R) (n : nat) : (exp t) ^ n = exp (INR n * t).
Proof.
  induction n as [|n IH].
  - simpl. rewrite Rmult_0_l, exp_0. reflexivity.
  - rewrite S_INR. cbn [pow]. rewrite IH, <- exp_plus. f_equal. ring.
Qed.

Lemma pow_lt_strict (a b : R) (n : nat) :
  0 <= b -> b < a -> (0 < n)%nat -> b ^ n < a ^ n.
Proof.
  intros Hb Hba Hn. destruct n as [|n]; [lia | clear Hn].
  induction n as [|n IH].
  - simpl. lra.
  - change (b * b ^ S n < a * a ^ S n).
    assert (Hbn : 0 <= b ^ S n) by (apply pow_le; exact Hb).
    assert (Hstep : b * b ^ S n <= b * a ^ S n).
    { apply Rmult_le_compat_l; [exact Hb | lra]. }
    assert (Hstep2 : b * a ^ S n < a * a ^ S n).
    { apply Rmult_lt_compat_r; [lra | exact Hba]. }
    lra.
Qed.

Lemma pow_le_inv (a b : R) (n : nat) :
  0 <= a -> 0 <= b -> (0 < n)%nat -> a ^ n <= b ^ n -> a <= b.
Proof.
  intros Ha Hb Hn Hpow. destruct (Rle_lt_dec a b) as [Hle | Hlt]; [exact Hle | ].
  pose proof (pow_lt_strict a b n Hb Hlt Hn) as Hs. lra.
Qed.

Lemma pprod_scaled_le_exp (m : R) (xs : list R) (ps : list nat) :
  0 < m -> length xs = length ps -> Forall (fun a => 0 <= a) xs ->
  pprod (map (fun x => x / m) xs) ps <= exp (wsum xs ps / m - INR (list_sum ps)).
Proof.
  intros Hm. revert ps; induction xs as [|x xs IH]; intros ps Hlen Hnn.
  - destruct ps as [|p ps]; [ | discriminate Hlen].
    simpl. replace (0 / m - 0) with 0 by (field; lra). rewrite exp_0. lra.
  - destruct ps as [|p ps]; [discriminate Hlen | ].
    simpl in Hlen. inversion Hnn as [|x' xs' Hx Hxs]; subst x' xs'.
    cbn [map pprod wsum]. change (list_sum (p :: ps)) with (p + list_sum ps)%nat.
    assert (Hxm : 0 <= x / m).
    { unfold Rdiv. apply Rmult_le_pos; [exact Hx | ]. apply Rlt_le, Rinv_0_lt_compat, Hm. }
    assert (Hone : x / m <= exp (x / m - 1)).
    { pose proof (exp_ineq1_le (x / m - 1)) as He. lra. }
    assert (Hpw : (x / m) ^ p <= exp (INR p * (x / m - 1))).
    { rewrite <- exp_pow. apply pow_incr. split; assumption. }
    assert (Hrest : pprod (map (fun x0 => x0 / m) xs) ps <= exp (wsum xs ps / m - INR (list_sum ps))).
    { apply IH; [lia | exact Hxs]. }
    assert (Hrest0 : 0 <= pprod (map (fun x0 => x0 / m) xs) ps).
    { apply pprod_nonneg. apply Forall_forall. intros y Hy. apply in_map_iff in Hy.
      destruct Hy as [y0 [Hy0 Hin]]. subst y. rewrite Forall_forall in Hxs.
      unfold Rdiv. apply Rmult_le_pos; [apply Hxs; exact Hin | ].
      apply Rlt_le, Rinv_0_lt_compat, Hm. }
    assert (Hpw0 : 0 <= (x / m) ^ p) by (apply pow_le; exact Hxm).
    replace ((INR p * x + wsum xs ps) / m - INR (p + list_sum ps))
      with (INR p * (x / m - 1) + (wsum xs ps / m - INR (list_sum ps)))
      by (rewrite plus_INR; field; lra).
    rewrite exp_plus.
    apply Rmult_le_compat; assumption.
Qed.

Lemma pprod_scale (m : R) (xs : list R) (ps : list nat) :
  m <> 0 -> length xs = length ps ->
  pprod xs ps = pprod (map (fun x => x / m) xs) ps * m ^ (list_sum ps).
Proof.
  intros Hm. revert ps; induction xs as [|x xs IH]; intros ps Hlen.
  - destruct ps as [|p ps]; [ | discriminate Hlen]. simpl. ring.
  - destruct ps as [|p ps]; [discriminate Hlen | ]. simpl in Hlen.
    cbn [map pprod]. change (list_sum (p :: ps)) with (p + list_sum ps)%nat. rewrite (IH ps) by lia.
    rewrite pow_add.
    replace (x ^ p) with ((x / m) ^ p * m ^ p).
    + ring.
    + rewrite <- Rpow_mult_distr. f_equal. field. exact Hm.
Qed.

Lemma pprod_zero_of_wsum_zero (xs : list R) (ps : list nat) :
  length xs = length ps -> Forall (fun a => 0 <= a) xs ->
  wsum xs ps = 0 -> (0 < list_sum ps)%nat -> pprod xs ps = 0.
Proof.
  revert ps; induction xs as [|x xs IH]; intros ps Hlen Hnn Hw Hq.
  - destruct ps as [|p ps]; [simpl in Hq; lia | discriminate Hlen].
  - destruct ps as [|p ps]; [discriminate Hlen | ]. simpl in Hlen.
    inversion Hnn as [|x' xs' Hx Hxs]; subst x' xs'.
    cbn [wsum] in Hw. change (list_sum (p :: ps)) with (p + list_sum ps)%nat in Hq. cbn [pprod].
    pose proof (wsum_nonneg xs ps Hxs) as Hr. pose proof (pos_INR p) as Hp.
    assert (Hpx : 0 <= INR p * x) by (apply Rmult_le_pos; assumption).
    assert (Hpx0 : INR p * x = 0) by lra.
    assert (Hr0 : wsum xs ps = 0) by lra.
    destruct p as [|p].
    + rewrite (IH ps); [ring | lia | exact Hxs | exact Hr0 | simpl in Hq; lia].
    + apply Rmult_integral in Hpx0. destruct Hpx0 as [Hbad | Hx0].
      * exfalso. pose proof (lt_0_INR (S p)) as Hlt. assert (Hpos : 0 < INR (S p)) by (apply Hlt; lia). lra.
      * rewrite Hx0. rewrite pow_i by lia. ring.
Qed.

Theorem amgm_pprod (ps : list nat) (xs : list R) (q : nat) :
  length xs = length ps -> Forall (fun a => 0 <= a) xs -> list_sum ps = q -> (0 < q)%nat ->
  pprod xs ps * INR q ^ q <= (wsum xs ps) ^ q.
Proof.
  intros Hlen Hnn Hsum Hq.
  pose proof (wsum_nonneg xs ps Hnn) as HS.
  assert (HQ : 0 < INR q) by (apply lt_0_INR; exact Hq).
  destruct (Req_dec (wsum xs ps) 0) as [HS0 | HSn].
  - rewrite (pprod_zero_of_wsum_zero xs ps Hlen Hnn HS0) by lia.
    rewrite Rmult_0_l. apply pow_le. exact HS.
  - set (m := wsum xs ps / INR q).
    assert (Hm : 0 < m).
    { unfold m, Rdiv. apply Rmult_lt_0_compat; [lra | apply Rinv_0_lt_compat; exact HQ]. }
    pose proof (pprod_scaled_le_exp m xs ps Hm Hlen Hnn) as Hle.
    replace (wsum xs ps / m - INR (list_sum ps)) with 0 in Hle
      by (rewrite Hsum; unfold m; field; split; lra).
    rewrite exp_0 in Hle.
    assert (HSm : wsum xs ps = m * INR q) by (unfold m; field; lra).
    rewrite (pprod_scale m xs ps) by (try lra; exact Hlen).
    rewrite Hsum. clearbody m. rewrite HSm.
    rewrite Rpow_mult_distr.
    assert (Hmq : 0 <= m ^ q * INR q ^ q).
    { apply Rmult_le_pos; apply pow_le; lra. }
    rewrite Rmult_assoc.
    rewrite <- (Rmult_1_l (m ^ q * INR q ^ q)) at 2.
    apply Rmult_le_compat_r; assumption.
Qed.

Theorem amgm_list (ps : list nat) (xs : list R) (q : nat) :
  length xs = length ps -> Forall (fun a => 0 <= a) xs -> list_sum ps = q -> (0 < q)%nat ->
  prodpowR xs ps * INR q ^ q <= (wsum xs ps) ^ q.
Proof.
  intros Hlen Hnn Hsum Hq. rewrite prodpowR_pprod. apply amgm_pprod; assumption.
Qed.

Corollary amgm2 (a b : R) (p q : nat) :
  0 <= a -> 0 <= b -> (0 < p)%nat -> (p < q)%nat ->
  a ^ p * b ^ (q - p) * INR q ^ q <= (INR p * a + INR (q - p) * b) ^ q.
Proof.
  intros Ha Hb Hp Hpq.
  pose proof (amgm_pprod [p; (q - p)%nat] [a; b] q) as H.
  cbn [pprod wsum length] in H. change (list_sum [p; (q - p)%nat]) with (p + ((q - p) + 0))%nat in H.
  assert (Hgoal : a ^ p * (b ^ (q - p) * 1) * INR q ^ q <= (INR p * a + (INR (q - p) * b + 0)) ^ q).
  { apply H; [reflexivity | constructor; [exact Ha | constructor; [exact Hb | constructor]] | lia | lia]. }
  replace (INR p * a + INR (q - p) * b) with (INR p * a + (INR (q - p) * b + 0)) by ring.
  replace (a ^ p * b ^ (q - p)) with (a ^ p * (b ^ (q - p) * 1)) by ring.
  exact Hgoal.
Qed.

(** ** division-free form: the weights moved to the right-hand side.
    [dvw] divides each entry by its weight (0 where the weight is 0, so no positivity of the
    weights is needed). *)
Definition dvw (pr : R * nat) : R :=
  match snd pr with O => 0 | S _ => fst pr / INR (snd pr) end.

Lemma dvw_nonneg (As : list R) (ps : list nat) :
  Forall (fun a => 0 <= a) As -> Forall (fun a => 0 <= a) (map dvw (combine As ps)).
Proof.
  intros Hnn; revert ps; induction Hnn as [|a As Ha HAs IH]; intros ps.
  - constructor.
  - destruct ps as [|p ps]; [constructor | ].
    cbn [combine map]. constructor; [ | apply IH].
    unfold dvw; cbn [fst snd]. destruct p as [|p]; [lra | ].
    unfold Rdiv. apply Rmult_le_pos; [exact Ha | ].
    apply Rlt_le, Rinv_0_lt_compat, lt_0_INR. lia.
Qed.

Lemma pprod_dvw (As : list R) (ps : list nat) :
  length As = length ps ->
  pprod As ps = pprod (map dvw (combine As ps)) ps * pprod (map INR ps) ps.
Proof.
  revert ps; induction As as [|a As IH]; intros ps Hlen.
  - destruct ps as [|p ps]; [simpl; ring | discriminate Hlen].
  - destruct ps as [|p ps]; [discriminate Hlen | ]. simpl in Hlen.
    cbn [combine map pprod]. rewrite (IH ps) by lia.
    assert (Hhead : a ^ p = dvw (a, p) ^ p * INR p ^ p).
    { unfold dvw; cbn [fst snd]. destruct p as [|p]; [simpl; ring | ].
      rewrite <- Rpow_mult_distr. f_equal. field. apply not_0_INR. lia. }
    rewrite Hhead. ring.
Qed.

Lemma vsum_nonneg (l : list R) : Forall (fun a => 0 <= a) l -> 0 <= vsum OpsR l.
Proof.
  intros H; induction H as [|a l Ha Hl IH].
  - rewrite vsum_nil. lra.
  - rewrite vsum_cons. lra.
Qed.

Lemma wsum_dvw_le (As : list R) (ps : list nat) :
  Forall (fun a => 0 <= a) As -> wsum (map dvw (combine As ps)) ps <= vsum OpsR As.
Proof.
  intros Hnn; revert ps; induction Hnn as [|a As Ha HAs IH]; intros ps.
  - simpl. rewrite vsum_nil. lra.
  - rewrite vsum_cons. destruct ps as [|p ps].
    + simpl. pose proof (vsum_nonneg As HAs) as Hr. lra.
    + cbn [combine map wsum]. pose proof (IH ps) as Hr.
      assert (Hhead : INR p * dvw (a, p) <= a).
      { unfold dvw; cbn [fst snd]. destruct p as [|p]; [simpl; lra | ].
        apply Req_le. field. apply not_0_INR. lia. }
      lra.
Qed.

Lemma pprod_weights_pos (ps : list nat) : 0 < pprod (map INR ps) ps.
Proof.
  induction ps as [|p ps IH]; [simpl; lra | ].
  cbn [map pprod]. apply Rmult_lt_0_compat; [ | exact IH].
  destruct p as [|p]; [simpl; lra | ]. apply pow_lt, lt_0_INR. lia.
Qed.

Theorem amgm_div (ps : list nat) (As : list R) (q : nat) :
  length As = length ps -> Forall (fun a => 0 <= a) As -> list_sum ps = q -> (0 < q)%nat ->
  pprod As ps * INR q ^ q <= (vsum OpsR As) ^ q * pprod (map INR ps) ps.
Proof.
  intros Hlen Hnn Hsum Hq.
  pose proof (dvw_nonneg As ps Hnn) as Hdnn.
  assert (Hdlen : length (map dvw (combine As ps)) = length ps).
  { rewrite map_length, combine_length. lia. }
  pose proof (amgm_pprod ps (map dvw (combine As ps)) q Hdlen Hdnn Hsum Hq) as Hamgm.
  pose proof (wsum_dvw_le As ps Hnn) as Hwle.
  pose proof (wsum_nonneg (map dvw (combine As ps)) ps Hdnn) as Hw0.
  assert (Hpow : wsum (map dvw (combine As ps)) ps ^ q <= vsum OpsR As ^ q).
  { apply pow_incr. split; assumption. }
  pose proof (pprod_weights_pos ps) as HN.
  rewrite (pprod_dvw As ps Hlen).
  set (N := pprod (map INR ps) ps) in *.
  set (D := pprod (map dvw (combine As ps)) ps) in *.
  assert (Hstep : D * INR q ^ q * N <= vsum OpsR As ^ q * N).
  { apply Rmult_le_compat_r; lra. }
  lra.
Qed.

Lemma pprod_mul (xs us : list R) (ps : list nat) :
  length xs = length us ->
  pprod (map (fun pr : R * R => fst pr * snd pr) (combine xs us)) ps = pprod xs ps * pprod us ps.
Proof.
  revert us ps; induction xs as [|x xs IH]; intros us ps Hlen.
  - destruct us as [|u us]; [ | discriminate Hlen]. simpl. ring.
  - destruct us as [|u us]; [discriminate Hlen | ]. simpl in Hlen.
    destruct ps as [|p ps]; [simpl; ring | ].
    cbn [combine map pprod fst snd]. rewrite (IH us ps) by lia.
    rewrite Rpow_mult_distr. ring.
Qed.

Lemma mul_nonneg (xs us : list R) :
  Forall (fun a => 0 <= a) xs -> Forall (fun a => 0 <= a) us ->
  Forall (fun a => 0 <= a) (map (fun pr : R * R => fst pr * snd pr) (combine xs us)).
Proof.
  intros Hx; revert us; induction Hx as [|x xs Hx0 Hxs IH]; intros us Hu.
  - constructor.
  - destruct us as [|u us]; [constructor | ].
    inversion Hu as [|u' us' Hu0 Hus]; subst u' us'.
    cbn [combine map fst snd]. constructor; [apply Rmult_le_pos; assumption | apply IH; exact Hus].
Qed.

(** the pairing form of AM-GM:  prod x^p * prod u^p * q^q <= <x,u>^q * prod p^p *)
Lemma amgm_pair (ps : list nat) (xs us : list R) (q : nat) :
  length xs = length ps -> length us = length ps ->
  Forall (fun a => 0 <= a) xs -> Forall (fun a => 0 <= a) us ->
  list_sum ps = q -> (0 < q)%nat ->
  0 <= dot OpsR xs us /\
  pprod xs ps * pprod us ps * INR q ^ q <= (dot OpsR xs us) ^ q * pprod (map INR ps) ps.
Proof.
  intros Hlx Hlu Hx Hu Hsum Hq.
  set (As := map (fun pr : R * R => fst pr * snd pr) (combine xs us)).
  assert (Hdot : dot OpsR xs us = vsum OpsR As) by reflexivity.
  assert (HAnn : Forall (fun a => 0 <= a) As) by (apply mul_nonneg; assumption).
  assert (HAlen : length As = length ps).
  { unfold As. rewrite map_length, combine_length. lia. }
  split.
  - rewrite Hdot. apply vsum_nonneg. exact HAnn.
  - rewrite Hdot. rewrite <- (pprod_mul xs us ps) by lia.
    apply amgm_div; assumption.
Qed.

(** * B. the three-dimensional power cone *)
Lemma neg_le_Rabs (a : R) : - a <= Rabs a.
Proof. unfold Rabs. destruct (Rcase_abs a) as [Hneg | Hpos]; lra. Qed.

Theorem pair_pow (p q : nat) (s z : list R) :
  (0 < p < q)%nat -> in_pow p q s -> in_pow_dual p q z -> 0 <= dot OpsR s z.
Proof.
  intros [Hp Hpq] Hs Hz.
  destruct s as [|x [|y [|z0 [|s3 s]]]]; try (simpl in Hs; contradiction).
  destruct z as [|u [|v [|w [|z3 z]]]]; try (simpl in Hz; contradiction).
  destruct Hs as [Hx [Hy Hs]]. destruct Hz as [Hu [Hv Hz]].
  rewrite !dot_cons, dot_nil_l.
  set (r := (q - p)%nat) in *.
  assert (Hxnn : Forall (fun a => 0 <= a) [x; y]).
  { constructor; [exact Hx | constructor; [exact Hy | constructor]]. }
  assert (Hunn : Forall (fun a => 0 <= a) [u; v]).
  { constructor; [exact Hu | constructor; [exact Hv | constructor]]. }
  assert (Hsum : list_sum [p; r] = q) by (unfold r; simpl; lia).
  destruct (amgm_pair [p; r] [x; y] [u; v] q eq_refl eq_refl Hxnn Hunn Hsum) as [HD0 HAM]; [lia | ].
  rewrite !dot_cons, dot_nil_l in HD0, HAM.
  cbn [pprod map] in HAM.
  replace (x * u + (y * v + 0)) with (x * u + y * v) in HD0, HAM by ring.
  set (D := x * u + y * v) in *.
  assert (HC : 0 < INR p ^ p * INR r ^ r).
  { apply Rmult_lt_0_compat.
    - apply pow_lt, lt_0_INR; lia.
    - destruct r as [|r']; [simpl; lra | apply pow_lt, lt_0_INR; lia]. }
  assert (HZq : 0 <= Rabs z0 ^ q) by (apply pow_le, Rabs_pos).
  assert (HWq : 0 <= Rabs w ^ q) by (apply pow_le, Rabs_pos).
  assert (HXp : 0 <= x ^ p) by (apply pow_le; exact Hx).
  assert (HYr : 0 <= y ^ r) by (apply pow_le; exact Hy).
  assert (HUp : 0 <= u ^ p) by (apply pow_le; exact Hu).
  assert (HVr : 0 <= v ^ r) by (apply pow_le; exact Hv).
  assert (Hpowle : (Rabs z0 * Rabs w) ^ q <= D ^ q).
  { rewrite Rpow_mult_distr.
    set (Zq := Rabs z0 ^ q) in *. set (Wq := Rabs w ^ q) in *.
    set (Xp := x ^ p) in *. set (Yr := y ^ r) in *. set (Up := u ^ p) in *. set (Vr := v ^ r) in *.
    set (Q := INR q ^ q) in *. set (C := INR p ^ p * INR r ^ r) in *. set (Dq := D ^ q) in *.
    assert (HWC : 0 <= Wq * C) by (apply Rmult_le_pos; lra).
    assert (Hprod : Zq * (Wq * C) <= (Xp * Yr) * (Up * Vr * Q)).
    { apply Rmult_le_compat; assumption. }
    assert (HAM' : Xp * Yr * (Up * Vr * Q) <= Dq * C).
    { replace (Xp * Yr * (Up * Vr * Q)) with (Xp * (Yr * 1) * (Up * (Vr * 1)) * Q) by ring.
      replace (Dq * C) with (Dq * (INR p ^ p * (INR r ^ r * 1))) by (unfold C; ring).
      exact HAM. }
    apply (Rmult_le_reg_r C); [exact HC | ]. lra. }
  assert (Hle : Rabs z0 * Rabs w <= D).
  { apply (pow_le_inv _ _ q); [ | exact HD0 | lia | exact Hpowle].
    apply Rmult_le_pos; apply Rabs_pos. }
  rewrite <- Rabs_mult in Hle. pose proof (neg_le_Rabs (z0 * w)) as Habs.
  unfold D in Hle. lra.
Qed.

Lemma alpha_pq_spec (a : dy) (p q : nat) :
  alpha_pq a = Some (p, q) -> (0 < p < q)%nat.
Proof.
  unfold alpha_pq.
  destruct ((de a <=? 0) && (-6 <=? de a) && (0 <? dm a) && (dm a <? 2 ^ (- de a)))%Z eqn:Hc;
    [ | discriminate].
  intros Heq. injection Heq as Hpe Hqe.
  apply andb_prop in Hc. destruct Hc as [Hc Hlt].
  apply andb_prop in Hc. destruct Hc as [Hc Hpos].
  apply Z.ltb_lt in Hlt. apply Z.ltb_lt in Hpos.
  subst p q. split.
  - change 0%nat with (Z.to_nat 0). apply Z2Nat.inj_lt; lia.
  - apply Z2Nat.inj_lt; lia.
Qed.

(** [pair_cone_pow] (every exponent, dyadic or not) is at the end of the file, after the
    real-exponent pairing. *)

(** * C. the generalised power cone *)
Theorem pair_genpow (ps : list nat) (q : nat) (s z : list R) :
  list_sum ps = q -> (0 < q)%nat -> (length ps <= length s)%nat -> length s = length z ->
  in_genpow ps q s -> in_genpow_dual ps q z -> 0 <= dot OpsR s z.
Proof.
  intros Hsum Hq Hlen Hsz [Hxnn Hs] [Hunn Hz].
  rewrite prodpowR_pprod in Hs. rewrite !prodpowR_pprod in Hz.
  set (n := length ps) in *.
  set (xs := firstn n s) in *. set (w := skipn n s) in *.
  set (us := firstn n z) in *. set (w' := skipn n z) in *.
  assert (Hlx : length xs = n) by (unfold xs; rewrite firstn_length; lia).
  assert (Hlu : length us = n) by (unfold us; rewrite firstn_length; lia).
  assert (Hsplit : dot OpsR s z = dot OpsR xs us + dot OpsR w w').
  { rewrite <- (firstn_skipn n s) at 1. rewrite <- (firstn_skipn n z) at 1.
    apply dot_app. fold xs us. lia. }
  rewrite Hsplit.
  destruct (amgm_pair ps xs us q Hlx Hlu Hxnn Hunn Hsum Hq) as [HD0 HAM].
  pose proof (pprod_weights_pos ps) as HN.
  pose proof (pprod_nonneg xs ps Hxnn) as HX.
  pose proof (pprod_nonneg us ps Hunn) as HU.
  pose proof (sumsq_nonneg w) as Ha. pose proof (sumsq_nonneg w') as Hb.
  pose proof (cauchy_schwarz_sq w w') as HCS.
  assert (HQ : 0 < INR q ^ q) by (apply pow_lt, lt_0_INR; exact Hq).
  set (D := dot OpsR xs us) in *. set (c := dot OpsR w w') in *.
  set (a := sumsq OpsR w) in *. set (b := sumsq OpsR w') in *.
  assert (Hpowle : (a * b) ^ q <= (D * D) ^ q).
  { rewrite !Rpow_mult_distr.
    assert (Haq : 0 <= a ^ q) by (apply pow_le; exact Ha).
    assert (Hbq : 0 <= b ^ q) by (apply pow_le; exact Hb).
    assert (HDq : 0 <= D ^ q) by (apply pow_le; exact HD0).
    set (aq := a ^ q) in *. set (bq := b ^ q) in *. set (Dq := D ^ q) in *.
    set (X := pprod xs ps) in *. set (U := pprod us ps) in *.
    set (N := pprod (map INR ps) ps) in *. set (Q := INR q ^ q) in *.
    assert (HbN : 0 <= bq * N ^ 2) by (apply Rmult_le_pos; [exact Hbq | apply pow_le; lra]).
    assert (Hprod : aq * (bq * N ^ 2) <= X ^ 2 * (U ^ 2 * Q ^ 2)).
    { apply Rmult_le_compat; assumption. }
    assert (HXUQ : 0 <= X * U * Q).
    { apply Rmult_le_pos; [apply Rmult_le_pos; assumption | lra]. }
    assert (Hsq : (X * U * Q) ^ 2 <= (Dq * N) ^ 2).
    { apply pow_incr. split; assumption. }
    assert (HN2 : 0 < N ^ 2) by (apply pow_lt; exact HN).
    apply (Rmult_le_reg_r (N ^ 2)); [exact HN2 | ].
    replace (X ^ 2 * (U ^ 2 * Q ^ 2)) with ((X * U * Q) ^ 2) in Hprod by ring.
    replace ((Dq * N) ^ 2) with (Dq * Dq * N ^ 2) in Hsq by ring.
    lra. }
  assert (Hab : a * b <= D * D).
  { apply (pow_le_inv _ _ q); [ | | exact Hq | exact Hpowle].
    - apply Rmult_le_pos; assumption.
    - apply Rmult_le_pos; assumption. }
  assert (Hcc : c * c <= D * D) by lra.
  destruct (Rle_lt_dec 0 (D + c)) as [Hok | Hbad]; [exact Hok | ].
  exfalso. assert (Hneg : 0 < - c - D) by lra.
  assert (Hsq2 : D * D < c * c).
  { replace (c * c) with ((- c) * (- c)) by ring.
    assert (HDc : D < - c) by lra.
    apply Rle_lt_trans with (D * - c).
    - apply Rmult_le_compat_l; lra.
    - apply Rmult_lt_compat_r; lra. }
  lra.
Qed.

Lemma fold_add_list_sum (l : list nat) (a : nat) :
  fold_left Nat.add l a = (a + list_sum l)%nat.
Proof.
  revert a; induction l as [|h l IH]; intro a.
  - simpl. lia.
  - change (list_sum (h :: l)) with (h + list_sum l)%nat. simpl fold_left. rewrite IH. lia.
Qed.

Lemma fold_max_ge_init (l : list Z) (a : Z) : (a <= fold_left Z.max l a)%Z.
Proof.
  revert a; induction l as [|h l IH]; intro a; simpl.
  - lia.
  - pose proof (IH (Z.max a h)) as H. lia.
Qed.

Lemma fold_max_ge_in (l : list Z) (a x : Z) : In x l -> (x <= fold_left Z.max l a)%Z.
Proof.
  revert a; induction l as [|h l IH]; intros a Hin; simpl.
  - contradiction.
  - destruct Hin as [Heq | Hin].
    + subst h. pose proof (fold_max_ge_init l (Z.max a x)) as H. lia.
    + apply IH. exact Hin.
Qed.

Lemma alphas_pq_spec (al : list dy) (ps : list nat) (q : nat) :
  alphas_pq al = Some (ps, q) ->
  length ps = length al /\ Forall (fun p => (0 < p)%nat) ps /\ list_sum ps = q /\ (0 < q)%nat.
Proof.
  unfold alphas_pq.
  set (k := fold_left Z.max (map (fun a => (- de a)%Z) al) 0%Z).
  destruct ((k <=? 6)%Z && forallb (fun a => (0 <? dm a)%Z && (de a <=? 0)%Z) al) eqn:Hc;
    [ | discriminate].
  set (ps0 := map (fun a => Z.to_nat (dm a * 2 ^ (k + de a))) al).
  destruct (Nat.eqb (fold_left Nat.add ps0 0%nat) (Z.to_nat (2 ^ k))) eqn:He; [ | discriminate].
  intros Heq. injection Heq as Hpe Hqe.
  apply andb_prop in Hc. destruct Hc as [Hk6 Hall].
  apply Nat.eqb_eq in He. rewrite fold_add_list_sum in He.
  assert (Hk0 : (0 <= k)%Z) by (unfold k; apply fold_max_ge_init).
  subst ps q. split; [ | split; [ | split]].
  - unfold ps0. apply map_length.
  - apply Forall_forall. intros p Hin. unfold ps0 in Hin. apply in_map_iff in Hin.
    destruct Hin as [a [Hpa Hain]]. rewrite forallb_forall in Hall.
    pose proof (Hall a Hain) as Ha. apply andb_prop in Ha. destruct Ha as [Hdm Hde].
    apply Z.ltb_lt in Hdm. apply Z.leb_le in Hde.
    assert (Hka : (- de a <= k)%Z).
    { unfold k. apply fold_max_ge_in. apply in_map_iff. exists a. split; [reflexivity | exact Hain]. }
    assert (Hpw : (0 < 2 ^ (k + de a))%Z) by (apply Z.pow_pos_nonneg; lia).
    assert (Hprod : (0 < dm a * 2 ^ (k + de a))%Z) by (apply Z.mul_pos_pos; assumption).
    subst p. change 0%nat with (Z.to_nat 0). apply Z2Nat.inj_lt; lia.
  - lia.
  - assert (Hpw : (0 < 2 ^ k)%Z) by (apply Z.pow_pos_nonneg; lia).
    change 0%nat with (Z.to_nat 0). apply Z2Nat.inj_lt; lia.
Qed.

Theorem pair_cone_genpow (al : list dy) (d2 : N) (s z : list R) :
  in_cone (KGenPow al d2) s -> in_dual (KGenPow al d2) z -> 0 <= dot OpsR s z.
Proof.
  intros [Hls Hs] [Hlz Hz]. cbn [cone_dim] in Hls, Hlz.
  destruct (alphas_pq al) as [[ps q] | ] eqn:Ea; [ | contradiction].
  apply alphas_pq_spec in Ea. destruct Ea as [Hl [Hpos [Hsum Hq]]].
  apply (pair_genpow ps q); [exact Hsum | exact Hq | lia | lia | exact Hs | exact Hz].
Qed.

(** * D. the primal power cones are closed under  a + t b,  t >= 0
    (superadditivity of the weighted geometric mean, from AM-GM) *)
Definition le01 (a b : R) : Prop := 0 <= a <= b.
Definition dvl (x X : list R) : list R := map (fun pr : R * R => fst pr / snd pr) (combine x X).

Lemma qroot_exists (T : R) (q : nat) : 0 < T -> (0 < q)%nat -> exists tau, 0 < tau /\ tau ^ q = T.
Proof.
  intros HT Hq. exists (Rpower T (/ INR q)). split.
  - unfold Rpower. apply exp_pos.
  - rewrite <- Rpower_pow by (unfold Rpower; apply exp_pos).
    rewrite Rpower_mult. rewrite Rinv_l by (apply not_0_INR; lia). apply Rpower_1. exact HT.
Qed.

Lemma pow_nonpos_zero (c : R) (q : nat) : 0 <= c -> (0 < q)%nat -> c ^ q <= 0 -> c = 0.
Proof.
  intros Hc Hq Hle. assert (Hc0 : c <= 0).
  { apply (pow_le_inv c 0 q); [exact Hc | lra | exact Hq | ]. rewrite pow_i by exact Hq. exact Hle. }
  lra.
Qed.

Lemma pprod_mono (x X : list R) (ps : list nat) :
  Forall2 le01 x X -> pprod x ps <= pprod X ps.
Proof.
  intros H; revert ps; induction H as [|a b x X Hab Hrest IH]; intros ps.
  - simpl. lra.
  - destruct ps as [|p ps]; [simpl; lra | ]. cbn [pprod]. destruct Hab as [Ha Hab].
    apply Rmult_le_compat.
    + apply pow_le; exact Ha.
    + apply pprod_nonneg. clear IH. induction Hrest as [|a' b' x' X' [Ha' _] _ IH']; constructor; assumption.
    + apply pow_incr. split; assumption.
    + apply IH.
Qed.

Lemma dvl_nonneg (x X : list R) : Forall2 le01 x X -> Forall (fun a => 0 <= a) (dvl x X).
Proof.
  intros H; induction H as [|a b x X [Ha Hab] Hrest IH]; [constructor | ].
  unfold dvl. cbn [combine map fst snd]. constructor; [ | exact IH].
  destruct (Req_dec b 0) as [Hb0 | Hbn].
  - assert (Ha0 : a = 0) by lra. rewrite Ha0. unfold Rdiv. rewrite Rmult_0_l. lra.
  - unfold Rdiv. apply Rmult_le_pos; [exact Ha | ]. apply Rlt_le, Rinv_0_lt_compat. lra.
Qed.

Lemma Forall2_le01_nonneg_r (x X : list R) : Forall2 le01 x X -> Forall (fun a => 0 <= a) X.
Proof.
  intros H; induction H as [|a b x X [Ha Hab] Hrest IH]; constructor; [lra | exact IH].
Qed.

Lemma pos_factor (A B : R) : 0 <= A -> 0 <= B -> 0 < A * B -> 0 < A /\ 0 < B.
Proof.
  intros HA HB HAB. split.
  - destruct (Req_dec A 0) as [H0 | Hn]; [rewrite H0, Rmult_0_l in HAB; lra | lra].
  - destruct (Req_dec B 0) as [H0 | Hn]; [rewrite H0, Rmult_0_r in HAB; lra | lra].
Qed.

Lemma pprod_dvl (x X : list R) (ps : list nat) :
  Forall2 le01 x X -> length x = length ps -> 0 < pprod X ps ->
  pprod x ps = pprod (dvl x X) ps * pprod X ps.
Proof.
  intros H; revert ps; induction H as [|a b x X [Ha Hab] Hrest IH]; intros ps Hlen HT.
  - simpl. destruct ps; simpl; ring.
  - destruct ps as [|p ps]; [discriminate Hlen | ]. simpl in Hlen.
    unfold dvl. cbn [combine map fst snd pprod]. fold (dvl x X). cbn [pprod] in HT.
    assert (Hb : 0 <= b) by lra.
    pose proof (Forall2_le01_nonneg_r x X Hrest) as HXnn.
    destruct (pos_factor (b ^ p) (pprod X ps)) as [Hbp HT'];
      [apply pow_le; exact Hb | apply pprod_nonneg; exact HXnn | exact HT | ].
    rewrite (IH ps) by (try lia; exact HT').
    assert (Hhead : a ^ p = (a / b) ^ p * b ^ p).
    { destruct p as [|p]; [simpl; ring | ].
      assert (Hbn : b <> 0).
      { intro Hb0. rewrite Hb0, pow_i in Hbp by lia. lra. }
      rewrite <- Rpow_mult_distr. f_equal. field. exact Hbn. }
    rewrite Hhead. ring.
Qed.

Lemma Forall2_add_l (x1 x2 : list R) :
  length x1 = length x2 -> Forall (fun a => 0 <= a) x1 -> Forall (fun a => 0 <= a) x2 ->
  Forall2 le01 x1 (vadd OpsR x1 x2).
Proof.
  revert x2; induction x1 as [|a x1 IH]; intros x2 Hlen H1 H2.
  - destruct x2; [constructor | discriminate Hlen].
  - destruct x2 as [|b x2]; [discriminate Hlen | ]. simpl in Hlen.
    inversion H1 as [|a' x1' Ha H1']; subst a' x1'. inversion H2 as [|b' x2' Hb H2']; subst b' x2'.
    rewrite vadd_cons. constructor; [unfold le01; lra | apply IH; [lia | exact H1' | exact H2']].
Qed.

Lemma Forall2_add_r (x1 x2 : list R) :
  length x1 = length x2 -> Forall (fun a => 0 <= a) x1 -> Forall (fun a => 0 <= a) x2 ->
  Forall2 le01 x2 (vadd OpsR x1 x2).
Proof.
  revert x2; induction x1 as [|a x1 IH]; intros x2 Hlen H1 H2.
  - destruct x2; [constructor | discriminate Hlen].
  - destruct x2 as [|b x2]; [discriminate Hlen | ]. simpl in Hlen.
    inversion H1 as [|a' x1' Ha H1']; subst a' x1'. inversion H2 as [|b' x2' Hb H2']; subst b' x2'.
    rewrite vadd_cons. constructor; [unfold le01; lra | apply IH; [lia | exact H1' | exact H2']].
Qed.

Lemma wsum_dvl_add (x1 x2 : list R) (ps : list nat) :
  length x1 = length ps -> length x2 = length ps ->
  Forall (fun a => 0 <= a) x1 -> Forall (fun a => 0 <= a) x2 ->
  0 < pprod (vadd OpsR x1 x2) ps ->
  wsum (dvl x1 (vadd OpsR x1 x2)) ps + wsum (dvl x2 (vadd OpsR x1 x2)) ps = INR (list_sum ps).
Proof.
  revert x2 ps; induction x1 as [|a x1 IH]; intros x2 ps Hl1 Hl2 H1 H2 HT.
  - destruct ps as [|p ps]; [ | discriminate Hl1]. destruct x2; [ | discriminate Hl2]. simpl. ring.
  - destruct ps as [|p ps]; [discriminate Hl1 | ]. destruct x2 as [|b x2]; [discriminate Hl2 | ].
    simpl in Hl1, Hl2.
    inversion H1 as [|a' x1' Ha H1']; subst a' x1'. inversion H2 as [|b' x2' Hb H2']; subst b' x2'.
    rewrite vadd_cons in *. unfold dvl. cbn [combine map fst snd wsum]. fold (dvl x1 (vadd OpsR x1 x2)).
    fold (dvl x2 (vadd OpsR x1 x2)). cbn [pprod] in HT.
    change (list_sum (p :: ps)) with (p + list_sum ps)%nat. rewrite plus_INR.
    assert (HXnn : Forall (fun c => 0 <= c) (vadd OpsR x1 x2)).
    { apply (Forall2_le01_nonneg_r x1). apply Forall2_add_l; [lia | exact H1' | exact H2']. }
    destruct (pos_factor ((a + b) ^ p) (pprod (vadd OpsR x1 x2) ps)) as [Hbp HT'];
      [apply pow_le; lra | apply pprod_nonneg; exact HXnn | exact HT | ].
    pose proof (IH x2 ps ltac:(lia) ltac:(lia) H1' H2' HT') as Hrec.
    assert (Hhead : INR p * (a / (a + b)) + INR p * (b / (a + b)) = INR p).
    { destruct p as [|p]; [simpl; ring | ].
      assert (Hbn : a + b <> 0).
      { intro Hb0. rewrite Hb0, pow_i in Hbp by lia. lra. }
      field. exact Hbn. }
    lra.
Qed.

(** superadditivity of the weighted geometric mean *)
Theorem geomean_superadd (ps : list nat) (q : nat) (x1 x2 : list R) (c1 c2 : R) :
  length x1 = length ps -> length x2 = length ps ->
  Forall (fun a => 0 <= a) x1 -> Forall (fun a => 0 <= a) x2 ->
  list_sum ps = q -> (0 < q)%nat -> 0 <= c1 -> 0 <= c2 ->
  c1 ^ q <= pprod x1 ps -> c2 ^ q <= pprod x2 ps ->
  (c1 + c2) ^ q <= pprod (vadd OpsR x1 x2) ps.
Proof.
  intros Hl1 Hl2 H1 H2 Hsum Hq Hc1 Hc2 Hle1 Hle2.
  set (X := vadd OpsR x1 x2).
  assert (HF1 : Forall2 le01 x1 X) by (apply Forall2_add_l; [lia | exact H1 | exact H2]).
  assert (HF2 : Forall2 le01 x2 X) by (apply Forall2_add_r; [lia | exact H1 | exact H2]).
  pose proof (pprod_mono x1 X ps HF1) as Hm1. pose proof (pprod_mono x2 X ps HF2) as Hm2.
  pose proof (pprod_nonneg X ps (Forall2_le01_nonneg_r x1 X HF1)) as HT0.
  destruct (Rle_lt_dec (pprod X ps) 0) as [HTz | HT].
  - assert (Hc10 : c1 = 0) by (apply (pow_nonpos_zero c1 q); [exact Hc1 | exact Hq | lra]).
    assert (Hc20 : c2 = 0) by (apply (pow_nonpos_zero c2 q); [exact Hc2 | exact Hq | lra]).
    rewrite Hc10, Hc20, Rplus_0_l, pow_i by exact Hq. exact HT0.
  - destruct (qroot_exists (pprod X ps) q HT Hq) as [tau [Htau Htq]].
    assert (HQ : 0 < INR q) by (apply lt_0_INR; exact Hq).
    pose proof (wsum_dvl_add x1 x2 ps Hl1 Hl2 H1 H2 HT) as Hone. fold X in Hone. rewrite Hsum in Hone.
    assert (Hbound : forall x c, Forall2 le01 x X -> length x = length ps -> 0 <= c ->
                       c ^ q <= pprod x ps -> c <= wsum (dvl x X) ps / INR q * tau).
    { intros x c HF Hl Hc Hle.
      pose proof (dvl_nonneg x X HF) as Hdnn.
      assert (Hdl : length (dvl x X) = length ps).
      { unfold dvl. rewrite map_length, combine_length.
        assert (HlX : length X = length ps) by (unfold X; rewrite vadd_length; lia). lia. }
      pose proof (amgm_pprod ps (dvl x X) q Hdl Hdnn Hsum Hq) as Ham.
      pose proof (wsum_nonneg (dvl x X) ps Hdnn) as Hw0.
      set (m := wsum (dvl x X) ps / INR q).
      assert (Hm0 : 0 <= m).
      { unfold m, Rdiv. apply Rmult_le_pos; [exact Hw0 | apply Rlt_le, Rinv_0_lt_compat; exact HQ]. }
      assert (Hwm : wsum (dvl x X) ps = m * INR q) by (unfold m; field; lra).
      rewrite Hwm, Rpow_mult_distr in Ham.
      assert (HQq : 0 < INR q ^ q) by (apply pow_lt; exact HQ).
      assert (Hdm : pprod (dvl x X) ps <= m ^ q).
      { apply (Rmult_le_reg_r (INR q ^ q)); [exact HQq | exact Ham]. }
      apply (pow_le_inv c (m * tau) q); [exact Hc | apply Rmult_le_pos; lra | exact Hq | ].
      rewrite Rpow_mult_distr, Htq. rewrite (pprod_dvl x X ps HF Hl HT) in Hle.
      assert (Hstep : pprod (dvl x X) ps * pprod X ps <= m ^ q * pprod X ps).
      { apply Rmult_le_compat_r; [lra | exact Hdm]. }
      lra. }
    pose proof (Hbound x1 c1 HF1 Hl1 Hc1 Hle1) as Hb1.
    pose proof (Hbound x2 c2 HF2 Hl2 Hc2 Hle2) as Hb2.
    assert (Hsumle : c1 + c2 <= tau).
    { replace tau with ((wsum (dvl x1 X) ps + wsum (dvl x2 X) ps) / INR q * tau)
        by (rewrite Hone; field; lra).
      lra. }
    rewrite <- Htq. apply pow_incr. split; [lra | exact Hsumle].
Qed.

Lemma pprod_vscale (t : R) (x : list R) (ps : list nat) :
  length x = length ps -> pprod (vscale OpsR t x) ps = t ^ (list_sum ps) * pprod x ps.
Proof.
  revert ps; induction x as [|a x IH]; intros ps Hlen.
  - destruct ps; [simpl; ring | discriminate Hlen].
  - destruct ps as [|p ps]; [discriminate Hlen | ]. simpl in Hlen.
    rewrite vscale_cons. cbn [pprod]. rewrite (IH ps) by lia.
    change (list_sum (p :: ps)) with (p + list_sum ps)%nat. rewrite pow_add, Rpow_mult_distr. ring.
Qed.

Lemma vscale_nonneg (t : R) (x : list R) :
  0 <= t -> Forall (fun a => 0 <= a) x -> Forall (fun a => 0 <= a) (vscale OpsR t x).
Proof.
  intros Ht H; induction H as [|a x Ha Hx IH]; [constructor | ].
  rewrite vscale_cons. constructor; [apply Rmult_le_pos; assumption | exact IH].
Qed.

Theorem geomean_ray (ps : list nat) (q : nat) (x1 x2 : list R) (c1 c2 t : R) :
  length x1 = length ps -> length x2 = length ps ->
  Forall (fun a => 0 <= a) x1 -> Forall (fun a => 0 <= a) x2 ->
  list_sum ps = q -> (0 < q)%nat -> 0 <= t -> 0 <= c1 -> 0 <= c2 ->
  c1 ^ q <= pprod x1 ps -> c2 ^ q <= pprod x2 ps ->
  (c1 + t * c2) ^ q <= pprod (vadd OpsR x1 (vscale OpsR t x2)) ps.
Proof.
  intros Hl1 Hl2 H1 H2 Hsum Hq Ht Hc1 Hc2 Hle1 Hle2.
  apply geomean_superadd; try assumption.
  - rewrite vscale_length. exact Hl2.
  - apply vscale_nonneg; assumption.
  - apply Rmult_le_pos; assumption.
  - rewrite pprod_vscale by exact Hl2. rewrite Hsum, Rpow_mult_distr.
    apply Rmult_le_compat_l; [apply pow_le; exact Ht | exact Hle2].
Qed.

Theorem pow_ray (p q : nat) (u v : list R) (t : R) :
  (0 < p < q)%nat -> 0 <= t -> in_pow p q u -> in_pow p q v ->
  in_pow p q (vadd OpsR u (vscale OpsR t v)).
Proof.
  intros [Hp Hpq] Ht Hu Hv.
  destruct u as [|x1 [|y1 [|z1 [|u3 u]]]]; try (simpl in Hu; contradiction).
  destruct v as [|x2 [|y2 [|z2 [|v3 v]]]]; try (simpl in Hv; contradiction).
  destruct Hu as [Hx1 [Hy1 Hu]]. destruct Hv as [Hx2 [Hy2 Hv]].
  rewrite !vscale_cons, !vadd_cons.
  change (vadd OpsR [] (vscale OpsR t [])) with (@nil R).
  cbn [in_pow].
  assert (Htx : 0 <= t * x2) by (apply Rmult_le_pos; assumption).
  assert (Hty : 0 <= t * y2) by (apply Rmult_le_pos; assumption).
  split; [lra | split; [lra | ]].
  set (r := (q - p)%nat) in *.
  assert (Hn1 : Forall (fun a => 0 <= a) [x1; y1]).
  { constructor; [exact Hx1 | constructor; [exact Hy1 | constructor]]. }
  assert (Hn2 : Forall (fun a => 0 <= a) [x2; y2]).
  { constructor; [exact Hx2 | constructor; [exact Hy2 | constructor]]. }
  assert (Hsum : list_sum [p; r] = q) by (unfold r; simpl; lia).
  pose proof (geomean_ray [p; r] q [x1; y1] [x2; y2] (Rabs z1) (Rabs z2) t eq_refl eq_refl Hn1 Hn2
                Hsum ltac:(lia) Ht (Rabs_pos z1) (Rabs_pos z2)) as Hg.
  rewrite !vscale_cons, !vadd_cons in Hg.
  change (vadd OpsR [] (vscale OpsR t [])) with (@nil R) in Hg.
  cbn [pprod] in Hg.
  assert (Hg' : (Rabs z1 + t * Rabs z2) ^ q <= (x1 + t * x2) ^ p * ((y1 + t * y2) ^ r * 1)).
  { apply Hg; lra. }
  apply Rle_trans with ((Rabs z1 + t * Rabs z2) ^ q); [ | lra].
  apply pow_incr. split; [apply Rabs_pos | ].
  apply Rle_trans with (Rabs z1 + Rabs (t * z2)); [apply Rabs_triang | ].
  rewrite Rabs_mult, (Rabs_right t) by lra. lra.
Qed.

(** [ray_cone_pow] (every exponent) is at the end of the file. *)

Lemma pow_swap (A : R) (q : nat) : (A ^ q) ^ 2 = (A ^ 2) ^ q.
Proof. rewrite <- !pow_mult. f_equal. lia. Qed.

Theorem genpow_ray (ps : list nat) (q : nat) (u v : list R) (t : R) :
  list_sum ps = q -> (0 < q)%nat -> (length ps <= length u)%nat -> length u = length v ->
  0 <= t -> in_genpow ps q u -> in_genpow ps q v ->
  in_genpow ps q (vadd OpsR u (vscale OpsR t v)).
Proof.
  intros Hsum Hq Hlen Huv Ht [Hn1 Hu] [Hn2 Hv].
  unfold in_genpow. rewrite firstn_ray, skipn_ray by exact Huv.
  rewrite prodpowR_pprod in Hu, Hv |- *.
  set (n := length ps) in *.
  set (x1 := firstn n u) in *. set (w1 := skipn n u) in *.
  set (x2 := firstn n v) in *. set (w2 := skipn n v) in *.
  assert (Hl1 : length x1 = n) by (unfold x1; rewrite firstn_length; lia).
  assert (Hl2 : length x2 = n) by (unfold x2; rewrite firstn_length; lia).
  assert (Hlw : length w1 = length w2) by (unfold w1, w2; rewrite !skipn_length; lia).
  split; [apply nn_ray; assumption | ].
  rewrite sumsq_ray by exact Hlw.
  pose proof (sumsq_nonneg w1) as Ha1. pose proof (sumsq_nonneg w2) as Ha2.
  pose proof (cauchy_schwarz_norm w1 w2) as HCS. unfold norm2 in HCS.
  set (a1 := sumsq OpsR w1) in *. set (a2 := sumsq OpsR w2) in *.
  set (c1 := R_sqrt.sqrt a1) in *. set (c2 := R_sqrt.sqrt a2) in *.
  assert (Hc1 : 0 <= c1) by apply sqrt_pos. assert (Hc2 : 0 <= c2) by apply sqrt_pos.
  assert (Hcc1 : c1 * c1 = a1) by (apply sqrt_sqrt; exact Ha1).
  assert (Hcc2 : c2 * c2 = a2) by (apply sqrt_sqrt; exact Ha2).
  pose proof (pprod_nonneg x1 ps Hn1) as HP1. pose proof (pprod_nonneg x2 ps Hn2) as HP2.
  assert (Hroot : forall c a P, 0 <= c -> c * c = a -> 0 <= P -> a ^ q <= P ^ 2 -> c ^ q <= P).
  { intros c a P Hc Hca HP Hle. apply (pow_le_inv _ _ 2%nat); [apply pow_le; exact Hc | exact HP | lia | ].
    rewrite pow_swap. replace (c ^ 2) with a by (rewrite <- Hca; ring). exact Hle. }
  pose proof (Hroot c1 a1 _ Hc1 Hcc1 HP1 Hu) as Hr1.
  pose proof (Hroot c2 a2 _ Hc2 Hcc2 HP2 Hv) as Hr2.
  pose proof (geomean_ray ps q x1 x2 c1 c2 t Hl1 Hl2 Hn1 Hn2 Hsum Hq Ht Hc1 Hc2 Hr1 Hr2) as Hg.
  set (P := pprod (vadd OpsR x1 (vscale OpsR t x2)) ps) in *.
  assert (Htc : 0 <= t * c2) by (apply Rmult_le_pos; assumption).
  assert (Hsq : ((c1 + t * c2) ^ q) ^ 2 <= P ^ 2).
  { apply pow_incr. split; [apply pow_le; lra | exact Hg]. }
  rewrite pow_swap in Hsq.
  apply Rle_trans with (((c1 + t * c2) ^ 2) ^ q); [ | exact Hsq].
  set (d := dot OpsR w1 w2) in *.
  assert (Hd : d <= c1 * c2).
  { pose proof (Rle_abs d) as Habs. lra. }
  assert (Htd : t * d <= t * (c1 * c2)) by (apply Rmult_le_compat_l; assumption).
  apply pow_incr. split.
  - unfold d, a1, a2. rewrite <- sumsq_ray by exact Hlw. apply sumsq_nonneg.
  - replace ((c1 + t * c2) ^ 2) with (c1 * c1 + 2 * (t * (c1 * c2)) + t * t * (c2 * c2)) by ring.
    rewrite Hcc1, Hcc2. lra.
Qed.

Theorem ray_cone_genpow (al : list dy) (d2 : N) (u v : list R) (t : R) :
  0 <= t -> in_cone (KGenPow al d2) u -> in_cone (KGenPow al d2) v ->
  in_cone (KGenPow al d2) (vadd OpsR u (vscale OpsR t v)).
Proof.
  intros Ht [Hlu Hu] [Hlv Hv]. split.
  - rewrite vadd_length; [exact Hlu | rewrite vscale_length; lia].
  - cbn [cone_dim] in Hlu, Hlv.
    destruct (alphas_pq al) as [[ps q] | ] eqn:Ea; [ | contradiction].
    apply alphas_pq_spec in Ea. destruct Ea as [Hl [Hpos [Hsum Hq]]].
    apply genpow_ray; [exact Hsum | exact Hq | lia | lia | exact Ht | exact Hu | exact Hv].
Qed.

(** * E. the real-exponent power cone ([in_pow_real] of Term/Spec.v: the power cones whose
    exponent is not a short dyadic).  [pw x a] is x^a for x >= 0, a > 0; it is the same function
    as [Spec.rpow] ([pw_rpow]). *)
Definition pw (x a : R) : R := if Rle_dec x 0 then 0 else Rpower x a.

Lemma ln_le_sub1 (s : R) : 0 < s -> ln s <= s - 1.
Proof.
  intros Hs. destruct (Rle_lt_dec (ln s) (s - 1)) as [Hle | Hlt]; [exact Hle | ].
  exfalso. pose proof (exp_increasing _ _ Hlt) as Hinc. rewrite exp_ln in Hinc by exact Hs.
  pose proof (exp_ineq1_le (s - 1)) as He. lra.
Qed.

Lemma exp_le_compat (a b : R) : a <= b -> exp a <= exp b.
Proof.
  intros [Hlt | Heq]; [apply Rlt_le, exp_increasing; exact Hlt | rewrite Heq; lra].
Qed.

Lemma amgm_real (al a b : R) :
  0 < al < 1 -> 0 < a -> 0 < b ->
  Rpower a al * Rpower b (1 - al) <= al * a + (1 - al) * b.
Proof.
  intros [Hal0 Hal1] Ha Hb.
  set (m := al * a + (1 - al) * b).
  assert (Hm : 0 < m).
  { unfold m. assert (H1 : 0 < al * a) by (apply Rmult_lt_0_compat; lra).
    assert (H2 : 0 < (1 - al) * b) by (apply Rmult_lt_0_compat; lra). lra. }
  assert (Ham : 0 < a / m) by (unfold Rdiv; apply Rmult_lt_0_compat; [lra | apply Rinv_0_lt_compat; lra]).
  assert (Hbm : 0 < b / m) by (unfold Rdiv; apply Rmult_lt_0_compat; [lra | apply Rinv_0_lt_compat; lra]).
  assert (Hlna : ln a = ln m + ln (a / m)).
  { rewrite <- ln_mult by assumption. f_equal. field. lra. }
  assert (Hlnb : ln b = ln m + ln (b / m)).
  { rewrite <- ln_mult by assumption. f_equal. field. lra. }
  pose proof (ln_le_sub1 (a / m) Ham) as Hla. pose proof (ln_le_sub1 (b / m) Hbm) as Hlb.
  unfold Rpower. rewrite <- exp_plus.
  rewrite <- (exp_ln m Hm) at 1. apply exp_le_compat.
  rewrite Hlna, Hlnb.
  assert (H1 : al * ln (a / m) <= al * (a / m - 1)) by (apply Rmult_le_compat_l; lra).
  assert (H2 : (1 - al) * ln (b / m) <= (1 - al) * (b / m - 1)) by (apply Rmult_le_compat_l; lra).
  assert (Hzero : al * (a / m - 1) + (1 - al) * (b / m - 1) = 0).
  { unfold m. field. fold m. lra. }
  lra.
Qed.

Lemma pw_nonneg (x a : R) : 0 <= pw x a.
Proof.
  unfold pw. destruct (Rle_dec x 0) as [Hle | Hgt]; [lra | ]. unfold Rpower. apply Rlt_le, exp_pos.
Qed.

Lemma pw_pos_eq (x a : R) : 0 < x -> pw x a = Rpower x a.
Proof. intros Hx. unfold pw. destruct (Rle_dec x 0) as [Hle | Hgt]; [lra | reflexivity]. Qed.

Lemma pw_zero (a : R) : pw 0 a = 0.
Proof. unfold pw. destruct (Rle_dec 0 0) as [Hle | Hgt]; [reflexivity | lra]. Qed.

Theorem pair_pow_real (al x y z u v w : R) :
  0 < al < 1 -> 0 <= x -> 0 <= y -> 0 <= u -> 0 <= v ->
  Rabs z <= pw x al * pw y (1 - al) ->
  Rabs w <= pw (u / al) al * pw (v / (1 - al)) (1 - al) ->
  0 <= x * u + y * v + z * w.
Proof.
  intros [Hal0 Hal1] Hx Hy Hu Hv Hz Hw.
  assert (Hxu : 0 <= x * u) by (apply Rmult_le_pos; assumption).
  assert (Hyv : 0 <= y * v) by (apply Rmult_le_pos; assumption).
  assert (Hzero : forall c d, Rabs c <= 0 -> 0 <= x * u + y * v + c * d).
  { intros c d Hc. pose proof (Rabs_pos c) as Hc0.
    assert (Hceq : c = 0).
    { destruct (Req_dec c 0) as [H0 | Hn]; [exact H0 | ]. pose proof (Rabs_pos_lt c Hn). lra. }
    rewrite Hceq. lra. }
  destruct (Req_dec x 0) as [Hx0 | Hxn].
  { apply Hzero. rewrite Hx0, pw_zero in Hz. lra. }
  destruct (Req_dec y 0) as [Hy0 | Hyn].
  { apply Hzero. rewrite Hy0, pw_zero in Hz. lra. }
  destruct (Req_dec u 0) as [Hu0 | Hun].
  { rewrite (Rmult_comm z w). apply Hzero. rewrite Hu0 in Hw. unfold Rdiv in Hw.
    rewrite Rmult_0_l, pw_zero in Hw. lra. }
  destruct (Req_dec v 0) as [Hv0 | Hvn].
  { rewrite (Rmult_comm z w). apply Hzero. rewrite Hv0 in Hw. unfold Rdiv in Hw.
    rewrite Rmult_0_l, pw_zero in Hw. lra. }
  assert (Hxp : 0 < x) by lra. assert (Hyp : 0 < y) by lra.
  assert (Hup : 0 < u / al).
  { unfold Rdiv. apply Rmult_lt_0_compat; [lra | apply Rinv_0_lt_compat; lra]. }
  assert (Hvp : 0 < v / (1 - al)).
  { unfold Rdiv. apply Rmult_lt_0_compat; [lra | apply Rinv_0_lt_compat; lra]. }
  rewrite !pw_pos_eq in Hz, Hw by assumption.
  assert (Hprod : Rabs z * Rabs w <=
                  (Rpower x al * Rpower y (1 - al)) * (Rpower (u / al) al * Rpower (v / (1 - al)) (1 - al))).
  { apply Rmult_le_compat; [apply Rabs_pos | apply Rabs_pos | exact Hz | exact Hw]. }
  assert (Hre : (Rpower x al * Rpower y (1 - al)) * (Rpower (u / al) al * Rpower (v / (1 - al)) (1 - al))
                = Rpower (x * (u / al)) al * Rpower (y * (v / (1 - al))) (1 - al)).
  { rewrite <- !Rpower_mult_distr by assumption. ring. }
  rewrite Hre in Hprod.
  assert (Hxup : 0 < x * (u / al)) by (apply Rmult_lt_0_compat; assumption).
  assert (Hyvp : 0 < y * (v / (1 - al))) by (apply Rmult_lt_0_compat; assumption).
  pose proof (amgm_real al _ _ (conj Hal0 Hal1) Hxup Hyvp) as Ham.
  replace (al * (x * (u / al)) + (1 - al) * (y * (v / (1 - al)))) with (x * u + y * v) in Ham
    by (field; lra).
  rewrite <- Rabs_mult in Hprod. pose proof (neg_le_Rabs (z * w)) as Habs. lra.
Qed.

Lemma pw_rpow (x a : R) : pw x a = rpow x a.
Proof. reflexivity. Qed.

(** ** pairing *)
Theorem pair_pow_real_cone (al : R) (s z : list R) :
  in_pow_real al s -> in_pow_real_dual al z -> 0 <= dot OpsR s z.
Proof.
  intros Hs Hz.
  destruct s as [|x [|y [|z0 [|s3 s]]]]; try (simpl in Hs; contradiction).
  destruct z as [|u [|v [|w [|z3 z]]]]; try (simpl in Hz; contradiction).
  destruct Hs as [Hal [Hx [Hy Hs]]]. destruct Hz as [_ [Hu [Hv Hz]]].
  rewrite !dot_cons, dot_nil_l.
  pose proof (pair_pow_real al x y z0 u v w Hal Hx Hy Hu Hv Hs Hz) as Hp.
  change (mul OpsR) with Rmult. change (add OpsR) with Rplus. change (zero OpsR) with 0. lra.
Qed.

Theorem pair_cone_pow (a : dy) (s z : list R) :
  in_cone (KPow a) s -> in_dual (KPow a) z -> 0 <= dot OpsR s z.
Proof.
  intros [Hls Hs] [Hlz Hz].
  destruct (alpha_pq a) as [[p q] | ] eqn:Ea.
  - apply alpha_pq_spec in Ea. apply (pair_pow p q); assumption.
  - apply (pair_pow_real_cone (d2R a)); assumption.
Qed.

(** ** homogeneity and superadditivity of  g (x, y) = x^al y^(1-al)  on the quadrant *)
Lemma pw_mult (t x a : R) : 0 <= t -> 0 <= x -> pw (t * x) a = pw t a * pw x a.
Proof.
  intros Ht Hx.
  destruct (Req_dec t 0) as [Ht0 | Htn]; [rewrite Ht0, Rmult_0_l, pw_zero; ring | ].
  destruct (Req_dec x 0) as [Hx0 | Hxn]; [rewrite Hx0, Rmult_0_r, pw_zero; ring | ].
  assert (Htp : 0 < t) by lra. assert (Hxp : 0 < x) by lra.
  assert (Htx : 0 < t * x) by (apply Rmult_lt_0_compat; assumption).
  rewrite !pw_pos_eq by assumption.
  symmetry. apply Rpower_mult_distr; assumption.
Qed.

Lemma pw_split (t al : R) : 0 <= t -> pw t al * pw t (1 - al) = t.
Proof.
  intros Ht. destruct (Req_dec t 0) as [H0 | Hn]; [rewrite H0, pw_zero; ring | ].
  assert (Htp : 0 < t) by lra.
  rewrite !pw_pos_eq by exact Htp. rewrite <- Rpower_plus.
  replace (al + (1 - al)) with 1 by ring. apply Rpower_1. exact Htp.
Qed.

Definition gmr (al x y : R) : R := pw x al * pw y (1 - al).

Lemma gmr_nonneg (al x y : R) : 0 <= gmr al x y.
Proof. unfold gmr. apply Rmult_le_pos; apply pw_nonneg. Qed.

Lemma gmr_zero_l (al y : R) : gmr al 0 y = 0.
Proof. unfold gmr. rewrite pw_zero. ring. Qed.
Lemma gmr_zero_r (al x : R) : gmr al x 0 = 0.
Proof. unfold gmr. rewrite pw_zero. ring. Qed.

Lemma gmr_scale (al t x y : R) :
  0 <= t -> 0 <= x -> 0 <= y -> gmr al (t * x) (t * y) = t * gmr al x y.
Proof.
  intros Ht Hx Hy. unfold gmr. rewrite !pw_mult by assumption.
  transitivity ((pw t al * pw t (1 - al)) * (pw x al * pw y (1 - al))); [ring | ].
  rewrite pw_split by exact Ht. reflexivity.
Qed.

Lemma div_nonneg (a b : R) : 0 <= a -> 0 < b -> 0 <= a / b.
Proof.
  intros Ha Hb. unfold Rdiv. apply Rmult_le_pos; [exact Ha | ]. apply Rlt_le, Rinv_0_lt_compat, Hb.
Qed.

(** the share of (x, y) in (X, Y), through the real AM-GM inequality *)
Lemma gmr_part (al x y X Y : R) :
  0 < al < 1 -> 0 <= x -> 0 <= y -> 0 < X -> 0 < Y ->
  gmr al x y <= gmr al X Y * (al * (x / X) + (1 - al) * (y / Y)).
Proof.
  intros [Ha0 Ha1] Hx Hy HX HY.
  pose proof (div_nonneg x X Hx HX) as HxX. pose proof (div_nonneg y Y Hy HY) as HyY.
  assert (HS : 0 <= al * (x / X) + (1 - al) * (y / Y)).
  { assert (H1 : 0 <= al * (x / X)) by (apply Rmult_le_pos; lra).
    assert (H2 : 0 <= (1 - al) * (y / Y)) by (apply Rmult_le_pos; lra). lra. }
  pose proof (gmr_nonneg al X Y) as HG.
  destruct (Req_dec x 0) as [Hx0 | Hxn].
  { rewrite Hx0 at 1. rewrite gmr_zero_l. apply Rmult_le_pos; assumption. }
  destruct (Req_dec y 0) as [Hy0 | Hyn].
  { rewrite Hy0 at 1. rewrite gmr_zero_r. apply Rmult_le_pos; assumption. }
  assert (HxXp : 0 < x / X) by (unfold Rdiv; apply Rmult_lt_0_compat; [lra | apply Rinv_0_lt_compat; exact HX]).
  assert (HyYp : 0 < y / Y) by (unfold Rdiv; apply Rmult_lt_0_compat; [lra | apply Rinv_0_lt_compat; exact HY]).
  assert (Ex : pw x al = pw X al * pw (x / X) al).
  { rewrite <- pw_mult by lra. f_equal. field. lra. }
  assert (Ey : pw y (1 - al) = pw Y (1 - al) * pw (y / Y) (1 - al)).
  { rewrite <- pw_mult by lra. f_equal. field. lra. }
  pose proof (amgm_real al (x / X) (y / Y) (conj Ha0 Ha1) HxXp HyYp) as Ham.
  unfold gmr in *. rewrite Ex, Ey. rewrite (pw_pos_eq (x / X)), (pw_pos_eq (y / Y)) by assumption.
  replace (pw X al * Rpower (x / X) al * (pw Y (1 - al) * Rpower (y / Y) (1 - al)))
    with (pw X al * pw Y (1 - al) * (Rpower (x / X) al * Rpower (y / Y) (1 - al))) by ring.
  apply Rmult_le_compat_l; [exact HG | exact Ham].
Qed.

Theorem gmr_superadd (al x1 y1 x2 y2 : R) :
  0 < al < 1 -> 0 <= x1 -> 0 <= y1 -> 0 <= x2 -> 0 <= y2 ->
  gmr al x1 y1 + gmr al x2 y2 <= gmr al (x1 + x2) (y1 + y2).
Proof.
  intros Hal Hx1 Hy1 Hx2 Hy2.
  destruct (Req_dec (x1 + x2) 0) as [HX0 | HXn].
  { assert (E1 : x1 = 0) by lra. assert (E2 : x2 = 0) by lra. rewrite E1, E2, Rplus_0_l, !gmr_zero_l. lra. }
  destruct (Req_dec (y1 + y2) 0) as [HY0 | HYn].
  { assert (E1 : y1 = 0) by lra. assert (E2 : y2 = 0) by lra. rewrite E1, E2, Rplus_0_l, !gmr_zero_r. lra. }
  assert (HX : 0 < x1 + x2) by lra. assert (HY : 0 < y1 + y2) by lra.
  pose proof (gmr_part al x1 y1 _ _ Hal Hx1 Hy1 HX HY) as H1.
  pose proof (gmr_part al x2 y2 _ _ Hal Hx2 Hy2 HX HY) as H2.
  set (G := gmr al (x1 + x2) (y1 + y2)) in *.
  set (S1 := al * (x1 / (x1 + x2)) + (1 - al) * (y1 / (y1 + y2))) in *.
  set (S2 := al * (x2 / (x1 + x2)) + (1 - al) * (y2 / (y1 + y2))) in *.
  assert (Hsum : S1 + S2 = 1) by (unfold S1, S2; field; lra).
  assert (HG : G * S1 + G * S2 = G) by (rewrite <- Rmult_plus_distr_l, Hsum; ring).
  lra.
Qed.

(** ** the real-exponent cone is closed under  a + t b,  t >= 0 *)
Theorem pow_real_ray (al : R) (u v : list R) (t : R) :
  0 <= t -> in_pow_real al u -> in_pow_real al v ->
  in_pow_real al (vadd OpsR u (vscale OpsR t v)).
Proof.
  intros Ht Hu Hv.
  destruct u as [|x1 [|y1 [|z1 [|u3 u]]]]; try (simpl in Hu; contradiction).
  destruct v as [|x2 [|y2 [|z2 [|v3 v]]]]; try (simpl in Hv; contradiction).
  destruct Hu as [Hal [Hx1 [Hy1 Hu]]]. destruct Hv as [_ [Hx2 [Hy2 Hv]]].
  rewrite !vscale_cons, !vadd_cons.
  change (vadd OpsR [] (vscale OpsR t [])) with (@nil R).
  cbn [in_pow_real].
  assert (Htx : 0 <= t * x2) by (apply Rmult_le_pos; assumption).
  assert (Hty : 0 <= t * y2) by (apply Rmult_le_pos; assumption).
  split; [exact Hal | split; [lra | split; [lra | ]]].
  change (Rabs (z1 + t * z2) <= gmr al (x1 + t * x2) (y1 + t * y2)).
  change (Rabs z1 <= gmr al x1 y1) in Hu. change (Rabs z2 <= gmr al x2 y2) in Hv.
  pose proof (gmr_superadd al x1 y1 (t * x2) (t * y2) Hal Hx1 Hy1 Htx Hty) as Hsup.
  rewrite gmr_scale in Hsup by assumption.
  assert (Htz : t * Rabs z2 <= t * gmr al x2 y2) by (apply Rmult_le_compat_l; assumption).
  apply Rle_trans with (Rabs z1 + Rabs (t * z2)); [apply Rabs_triang | ].
  rewrite Rabs_mult, (Rabs_right t) by lra. lra.
Qed.

Theorem ray_cone_pow (a : dy) (u v : list R) (t : R) :
  0 <= t -> in_cone (KPow a) u -> in_cone (KPow a) v ->
  in_cone (KPow a) (vadd OpsR u (vscale OpsR t v)).
Proof.
  intros Ht [Hlu Hu] [Hlv Hv]. split.
  - rewrite vadd_length; [exact Hlu | rewrite vscale_length; lia].
  - destruct (alpha_pq a) as [[p q] | ] eqn:Ea.
    + apply alpha_pq_spec in Ea. apply pow_ray; assumption.
    + apply pow_real_ray; assumption.
Qed.

(** ** the real-exponent dual cone is closed under positive scaling (used by Cross/Cones.v) *)
Theorem in_pow_real_dual_scale (al lam : R) (z : list R) :
  0 < lam -> in_pow_real_dual al z -> in_pow_real_dual al (vscale OpsR lam z).
Proof.
  intros Hl Hz.
  destruct z as [|u [|v [|w [|z3 z]]]]; try (simpl in Hz; contradiction).
  destruct Hz as [Hal [Hu [Hv Hz]]].
  rewrite !vscale_cons. change (vscale OpsR lam []) with (@nil R). cbn [in_pow_real_dual].
  assert (Hlu : 0 <= lam * u) by (apply Rmult_le_pos; lra).
  assert (Hlv : 0 <= lam * v) by (apply Rmult_le_pos; lra).
  split; [exact Hal | split; [exact Hlu | split; [exact Hlv | ]]].
  destruct Hal as [Ha0 Ha1].
  change (Rabs (lam * w) <= gmr al (lam * u / al) (lam * v / (1 - al))).
  change (Rabs w <= gmr al (u / al) (v / (1 - al))) in Hz.
  replace (lam * u / al) with (lam * (u / al)) by (field; lra).
  replace (lam * v / (1 - al)) with (lam * (v / (1 - al))) by (field; lra).
  rewrite gmr_scale; [ | lra | apply div_nonneg; lra | apply div_nonneg; lra].
  rewrite Rabs_mult, (Rabs_right lam) by lra.
  apply Rmult_le_compat_l; [lra | exact Hz].
Qed.
