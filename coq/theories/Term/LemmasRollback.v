(** Term/LemmasRollback.v — the roll-back path of the solver loop.
    When [check_termination] sets InsufficientProgress the solver calls [reset_to_prev_iterate]
    (cost / residuals / gaps := prev_*; ktratio, res_primal_inf, res_dual_inf are NOT restored),
    stops, and [info_post_process] runs [check_convergence_almost] on that record with whatever
    inner products bz, qx it is handed (stale ones).
    Result: no Almost*Infeasible status can come out of that path.  InsufficientProgress out of
    [check_termination] forces ktratio < 1, the infeasibility gate of [check_convergence] needs
    ktratio > 1000 / red_ktratio >= 1.  And an AlmostSolved out of that path was decided on the
    restored (previous-iterate) figures.  Theorems at [OpsR]; the restoration identity for any [Ops T]. *)
From Coq Require Import List ZArith Reals Lra Lia Bool Arith.
Require Import Clarabel.Base.Ops Clarabel.Term.Eval Clarabel.Term.Model Clarabel.Term.LemmasAlg.

(** * 5. Restoration, generic in the scalar type *)
Section Generic.
Context {T : Type} (O : Ops T).

Lemma rollback_restores (i0 : @info T) (d : @data T) (v : @vars T) (r : @resid T) (time bz qx : T)
      (se : @settings T) (iter : nat) :
  let i1 := save_prev_iterate i0 in
  let i2 := info_update O i1 d v r time in
  let i3 := check_termination O i2 bz qx se iter in
  let i4 := reset_to_prev_iterate i3 in
  cost_primal i4 = cost_primal i0 /\ cost_dual i4 = cost_dual i0 /\
  res_primal i4 = res_primal i0 /\ res_dual i4 = res_dual i0 /\
  gap_abs i4 = gap_abs i0 /\ gap_rel i4 = gap_rel i0.
Proof.
  cbv zeta. repeat split; reflexivity.
Qed.

(** fields that the three steps leave alone *)
Lemma check_termination_ktratio_gen (i : @info T) bz qx se iter :
  ktratio (check_termination O i bz qx se iter) = ktratio i.
Proof. reflexivity. Qed.
Lemma reset_ktratio_gen (i : @info T) : ktratio (reset_to_prev_iterate i) = ktratio i.
Proof. reflexivity. Qed.
Lemma reset_st_gen (i : @info T) : st (reset_to_prev_iterate i) = st i.
Proof. reflexivity. Qed.
Lemma reset_res_inf_gen (i : @info T) :
  res_primal_inf (reset_to_prev_iterate i) = res_primal_inf i /\
  res_dual_inf (reset_to_prev_iterate i) = res_dual_inf i.
Proof. split; reflexivity. Qed.
End Generic.

Local Open Scope R_scope.

(** * 2. ktratio and status through check_termination / reset *)
Lemma check_termination_ktratio (i : @info R) bz qx se iter :
  ktratio (check_termination OpsR i bz qx se iter) = ktratio i.
Proof. reflexivity. Qed.
Lemma reset_ktratio (i : @info R) : ktratio (reset_to_prev_iterate i) = ktratio i.
Proof. reflexivity. Qed.
Lemma reset_st (i : @info R) : st (reset_to_prev_iterate i) = st i.
Proof. reflexivity. Qed.
Lemma check_termination_prev (i : @info R) bz qx se iter :
  let j := check_termination OpsR i bz qx se iter in
  prev_res_primal j = prev_res_primal i /\ prev_res_dual j = prev_res_dual i /\
  prev_gap_abs j = prev_gap_abs i /\ prev_gap_rel j = prev_gap_rel i.
Proof. cbv zeta. repeat split; reflexivity. Qed.
Lemma reset_current (i : @info R) :
  let j := reset_to_prev_iterate i in
  res_primal j = prev_res_primal i /\ res_dual j = prev_res_dual i /\
  gap_abs j = prev_gap_abs i /\ gap_rel j = prev_gap_rel i.
Proof. cbv zeta. repeat split; reflexivity. Qed.

(** * 1. InsufficientProgress out of check_termination forces ktratio < 1 *)
Lemma check_termination_ip_ktratio (i : @info R) bz qx se iter :
  st i = St_Unsolved -> eps100 se <= 1 ->
  st (check_termination OpsR i bz qx se iter) = St_InsufficientProgress -> ktratio i < 1.
Proof.
  intros Hu He.
  unfold check_termination. cbv zeta. rewrite set_status_st.
  pose proof (check_convergence_cases i bz qx (tol_gap_abs se) (tol_gap_rel se) (tol_feas se)
    (tol_infeas_abs se) (tol_infeas_rel se) (tol_ktratio se)
    St_Solved St_PrimalInfeasible St_DualInfeasible) as Hc.
  cbv zeta in Hc. fold (check_convergence_full OpsR i bz qx se) in Hc.
  rewrite Hu in Hc.
  set (s1 := check_convergence_full OpsR i bz qx se) in *.
  assert (Hs1 : s1 <> St_InsufficientProgress).
  { destruct Hc as [Hc|[Hc|[Hc|Hc]]]; rewrite Hc; discriminate. }
  clearbody s1. clear Hc.
  intros H.
  destruct (ltb OpsR (ktratio i) (one OpsR)) eqn:Ek1.
  - cbn [ltb one OpsR] in Ek1. apply Rltb_true in Ek1. exact Ek1.
  - cbn [ltb one OpsR] in Ek1. apply Rltb_false in Ek1.
    destruct (ltb OpsR (ktratio i) (eps100 se)) eqn:Ek2.
    + cbn [ltb OpsR] in Ek2. apply Rltb_true in Ek2. lra.
    + exfalso. cbn [andb] in H.
      repeat match type of H with
      | context [if ?c then _ else _] => destruct c
      end; try discriminate H; apply Hs1; exact H.
Qed.

(** * 3. No Almost*Infeasible after a roll-back *)
Lemma rollback_post_process_eq (i : @info R) bz qx bz' qx' se iter :
  st (check_termination OpsR i bz qx se iter) = St_InsufficientProgress ->
  let i2 := reset_to_prev_iterate (check_termination OpsR i bz qx se iter) in
  info_post_process OpsR i2 bz' qx' se = set_status i2 (check_convergence_almost OpsR i2 bz' qx' se).
Proof.
  intros Hip. cbv zeta. unfold info_post_process.
  rewrite reset_st, Hip. reflexivity.
Qed.

Theorem rollback_no_almost_infeasible (i : @info R) bz qx bz' qx' se iter :
  st i = St_Unsolved -> eps100 se <= 1 -> 1 <= 1 / red_ktratio se * 1000 ->
  st (check_termination OpsR i bz qx se iter) = St_InsufficientProgress ->
  let i2 := reset_to_prev_iterate (check_termination OpsR i bz qx se iter) in
  st (info_post_process OpsR i2 bz' qx' se) = St_AlmostSolved \/
  st (info_post_process OpsR i2 bz' qx' se) = St_InsufficientProgress.
Proof.
  intros Hu He Hk Hip.
  pose proof (check_termination_ip_ktratio i bz qx se iter Hu He Hip) as Hkt.
  pose proof (rollback_post_process_eq i bz qx bz' qx' se iter Hip) as Hpp.
  cbv zeta in Hpp. cbv zeta.
  set (i2 := reset_to_prev_iterate (check_termination OpsR i bz qx se iter)) in *.
  rewrite Hpp, set_status_st.
  assert (Hk2 : ktratio i2 = ktratio i) by reflexivity.
  assert (Hs2 : st i2 = St_InsufficientProgress).
  { unfold i2. rewrite reset_st. exact Hip. }
  unfold check_convergence_almost, check_convergence.
  destruct (leb OpsR (ktratio i2) (one OpsR) &&
            is_solved OpsR i2 (red_gap_abs se) (red_gap_rel se) (red_feas se)).
  - left. reflexivity.
  - right.
    destruct (ltb OpsR (mul OpsR (recip OpsR (red_ktratio se)) (ofZ OpsR 1000)) (ktratio i2)) eqn:Eg.
    + exfalso. cbn [ltb mul ofZ OpsR] in Eg. rewrite recip_R in Eg. apply Rltb_true in Eg.
      rewrite Hk2 in Eg. lra.
    + exact Hs2.
Qed.

(** the two Almost*Infeasible statuses, spelled out *)
Corollary rollback_not_almost_pinf_dinf (i : @info R) bz qx bz' qx' se iter :
  st i = St_Unsolved -> eps100 se <= 1 -> 1 <= 1 / red_ktratio se * 1000 ->
  st (check_termination OpsR i bz qx se iter) = St_InsufficientProgress ->
  let i2 := reset_to_prev_iterate (check_termination OpsR i bz qx se iter) in
  st (info_post_process OpsR i2 bz' qx' se) <> St_AlmostPrimalInfeasible /\
  st (info_post_process OpsR i2 bz' qx' se) <> St_AlmostDualInfeasible.
Proof.
  intros Hu He Hk Hip.
  pose proof (rollback_no_almost_infeasible i bz qx bz' qx' se iter Hu He Hk Hip) as H.
  cbv zeta in H. cbv zeta.
  destruct H as [H|H]; rewrite H; split; discriminate.
Qed.

(** * 4. AlmostSolved after a roll-back was decided on the restored figures *)
Theorem rollback_almost_solved_on_restored (i : @info R) bz qx bz' qx' se iter :
  st i = St_Unsolved -> eps100 se <= 1 -> 1 <= 1 / red_ktratio se * 1000 ->
  st (check_termination OpsR i bz qx se iter) = St_InsufficientProgress ->
  let i2 := reset_to_prev_iterate (check_termination OpsR i bz qx se iter) in
  st (info_post_process OpsR i2 bz' qx' se) = St_AlmostSolved ->
  (prev_gap_abs i < red_gap_abs se \/ prev_gap_rel i < red_gap_rel se) /\
  prev_res_primal i < red_feas se /\ prev_res_dual i < red_feas se.
Proof.
  intros Hu He Hk Hip. cbv zeta. intros Ha.
  apply post_process_almost_sound in Ha.
  - destruct Ha as (_ & Hg & Hp & Hd).
    change (gap_abs (reset_to_prev_iterate (check_termination OpsR i bz qx se iter)))
      with (prev_gap_abs i) in Hg.
    change (gap_rel (reset_to_prev_iterate (check_termination OpsR i bz qx se iter)))
      with (prev_gap_rel i) in Hg.
    change (res_primal (reset_to_prev_iterate (check_termination OpsR i bz qx se iter)))
      with (prev_res_primal i) in Hp.
    change (res_dual (reset_to_prev_iterate (check_termination OpsR i bz qx se iter)))
      with (prev_res_dual i) in Hd.
    split; [exact Hg|]. split; [exact Hp|exact Hd].
  - rewrite reset_st, Hip. discriminate.
Qed.

(** * 6. Non-vacuity *)
Ltac decide_Rb :=
  repeat match goal with
  | |- context [Rltb ?a ?b] =>
      first [ replace (Rltb a b) with true by (symmetry; apply Rltb_true; lra)
            | replace (Rltb a b) with false by (symmetry; apply Rltb_false; lra) ]
  | |- context [Rleb ?a ?b] =>
      first [ replace (Rleb a b) with true by (symmetry; apply Rleb_true; lra)
            | replace (Rleb a b) with false by (symmetry; apply Rleb_false; lra) ]
  end.

Definition rb_se : @settings R :=
  mkSettings (1 / 100000000) (1 / 100000000) (1 / 100000000) (1 / 100000000) (1 / 100000000)
             (1 / 1000000)
             (1 / 10000) (1 / 10000) (1 / 10000) (1 / 10000) (1 / 10000) (1 / 10000)
             200%nat 1000000 (1 / 1000000000000).

(** current figures bad (residuals jumped from 1/100000 to 1), ktratio tiny,
    previous figures inside the reduced tolerances *)
Definition rb_i : @info R :=
  mkInfo 0 0 1 1 1 1 1 1 (1 / 10000000000000)
         0 0 (1 / 100000) (1 / 100000) (1 / 100000) (1 / 100000)
         5%nat 1 St_Unsolved.

Example rb_hyps :
  st rb_i = St_Unsolved /\ eps100 rb_se <= 1 /\ 1 <= 1 / red_ktratio rb_se * 1000.
Proof.
  split; [reflexivity|]. cbn [eps100 red_ktratio rb_se]. split; lra.
Qed.

Example rb_insufficient_progress (bz qx : R) :
  st (check_termination OpsR rb_i bz qx rb_se 5) = St_InsufficientProgress.
Proof.
  unfold check_termination, check_convergence_full, check_convergence, is_solved,
    is_primal_infeasible, is_dual_infeasible, recip.
  cbv zeta. rewrite set_status_st.
  unfold rb_i, rb_se.
  cbn [cost_primal cost_dual res_primal res_dual res_primal_inf res_dual_inf gap_abs gap_rel ktratio
       prev_cost_primal prev_cost_dual prev_res_primal prev_res_dual prev_gap_abs prev_gap_rel
       iterations solve_time st
       tol_gap_abs tol_gap_rel tol_feas tol_infeas_abs tol_infeas_rel tol_ktratio
       red_gap_abs red_gap_rel red_feas red_infeas_abs red_infeas_rel red_ktratio
       max_iter time_limit eps100
       ltb leb one mul div neg ofZ OpsR].
  decide_Rb.
  reflexivity.
Qed.

(** the roll-back then reports AlmostSolved, whatever the stale inner products are *)
Example rb_rollback_almost_solved (bz qx bz' qx' : R) :
  st (info_post_process OpsR
        (reset_to_prev_iterate (check_termination OpsR rb_i bz qx rb_se 5)) bz' qx' rb_se)
  = St_AlmostSolved.
Proof.
  pose proof (rollback_post_process_eq rb_i bz qx bz' qx' rb_se 5%nat
                (rb_insufficient_progress bz qx)) as Hpp.
  cbv zeta in Hpp. rewrite Hpp, set_status_st.
  unfold check_convergence_almost, check_convergence, is_solved.
  cbn [res_primal res_dual gap_abs gap_rel ktratio reset_to_prev_iterate].
  cbn [prev_res_primal prev_res_dual prev_gap_abs prev_gap_rel ktratio check_termination set_status].
  unfold rb_i, rb_se.
  cbn [prev_res_primal prev_res_dual prev_gap_abs prev_gap_rel ktratio
       red_gap_abs red_gap_rel red_feas ltb leb one OpsR].
  decide_Rb.
  reflexivity.
Qed.

(** a second instance where the restored figures are bad too: the status stays
    InsufficientProgress *)
Definition rb_j : @info R :=
  mkInfo 0 0 1 1 1 1 1 1 (1 / 10000000000000)
         0 0 (1 / 1000) (1 / 1000) (1 / 1000) (1 / 1000)
         5%nat 1 St_Unsolved.

Example rb_j_insufficient_progress (bz qx : R) :
  st (check_termination OpsR rb_j bz qx rb_se 5) = St_InsufficientProgress.
Proof.
  unfold check_termination, check_convergence_full, check_convergence, is_solved,
    is_primal_infeasible, is_dual_infeasible, recip.
  cbv zeta. rewrite set_status_st.
  unfold rb_j, rb_se.
  cbn [cost_primal cost_dual res_primal res_dual res_primal_inf res_dual_inf gap_abs gap_rel ktratio
       prev_cost_primal prev_cost_dual prev_res_primal prev_res_dual prev_gap_abs prev_gap_rel
       iterations solve_time st
       tol_gap_abs tol_gap_rel tol_feas tol_infeas_abs tol_infeas_rel tol_ktratio
       red_gap_abs red_gap_rel red_feas red_infeas_abs red_infeas_rel red_ktratio
       max_iter time_limit eps100
       ltb leb one mul div neg ofZ OpsR].
  decide_Rb.
  reflexivity.
Qed.

Example rb_j_rollback_stays (bz qx bz' qx' : R) :
  st (info_post_process OpsR
        (reset_to_prev_iterate (check_termination OpsR rb_j bz qx rb_se 5)) bz' qx' rb_se)
  = St_InsufficientProgress.
Proof.
  pose proof (rollback_no_almost_infeasible rb_j bz qx bz' qx' rb_se 5%nat) as H.
  cbv zeta in H.
  destruct H as [H|H].
  - reflexivity.
  - cbn [eps100 rb_se]. lra.
  - cbn [red_ktratio rb_se]. lra.
  - apply rb_j_insufficient_progress.
  - exfalso.
    apply rollback_almost_solved_on_restored in H.
    + destruct H as (_ & Hp & _). cbn [prev_res_primal rb_j red_feas rb_se] in Hp. lra.
    + reflexivity.
    + cbn [eps100 rb_se]. lra.
    + cbn [red_ktratio rb_se]. lra.
    + apply rb_j_insufficient_progress.
  - exact H.
Qed.
