(** Term/Hom.v — [d2R] is a homomorphism from the dyadic instance [OpsD] to the real instance
    [OpsR] for every function of Term/Eval.v.  All equalities are Leibniz equalities in R. *)
From Coq Require Import List ZArith QArith Qabs Qminmax Qpower Qreals Reals RMicromega Lia Lra Bool.
Import ListNotations.
Require Import Clarabel.Base.Ops Clarabel.Base.Dyadic Clarabel.Term.Eval.
Local Open Scope R_scope.

(** * Scalars *)

Lemma d2R_eq a q : (d2Q a == q)%Q -> d2R a = Q2R q.
Proof. intros H. unfold d2R. apply Qeq_eqR. exact H. Qed.

Lemma Q2R_two : Q2R 2 = 2.
Proof. unfold Q2R; cbn [Qnum Qden]. lra. Qed.

Lemma Q2R_inject_Z z : Q2R (inject_Z z) = IZR z.
Proof. unfold Q2R, inject_Z; cbn [Qnum Qden]. rewrite Rinv_1. ring. Qed.

Lemma Q2R_abs q : Q2R (Qabs q) = Rabs (Q2R q).
Proof.
  destruct (Qlt_le_dec q 0) as [Hn|Hp].
  - assert (Hle : (q <= 0)%Q) by (apply Qlt_le_weak; exact Hn).
    rewrite (Qeq_eqR _ _ (Qabs_neg q Hle)). rewrite Q2R_opp.
    apply Qle_Rle in Hle. rewrite Q2R_0 in Hle.
    symmetry. apply Rabs_left1. exact Hle.
  - rewrite (Qeq_eqR _ _ (Qabs_pos q Hp)).
    apply Qle_Rle in Hp. rewrite Q2R_0 in Hp.
    symmetry. apply Rabs_pos_eq. exact Hp.
Qed.

Lemma Q2R_pow2 k : Q2R (Qpower 2 k) = powerRZ 2 k.
Proof.
  rewrite Q2RpowerRZ by (left; exact two_neq0). rewrite Q2R_two. reflexivity.
Qed.

Lemma d2R_0 : d2R d0 = 0.
Proof. rewrite (d2R_eq _ _ d0_sem). apply Q2R_0. Qed.

Lemma d2R_1 : d2R d1 = 1.
Proof. rewrite (d2R_eq _ _ d1_sem). apply Q2R_1. Qed.

Lemma d2R_add a b : d2R (dadd a b) = d2R a + d2R b.
Proof. rewrite (d2R_eq _ _ (dadd_sem a b)). apply Q2R_plus. Qed.

Lemma d2R_sub a b : d2R (dsub a b) = d2R a - d2R b.
Proof. rewrite (d2R_eq _ _ (dsub_sem a b)). apply Q2R_minus. Qed.

Lemma d2R_mul a b : d2R (dmul a b) = d2R a * d2R b.
Proof. rewrite (d2R_eq _ _ (dmul_sem a b)). apply Q2R_mult. Qed.

Lemma d2R_neg a : d2R (dneg a) = - d2R a.
Proof. rewrite (d2R_eq _ _ (dneg_sem a)). apply Q2R_opp. Qed.

Lemma d2R_abs a : d2R (dabs a) = Rabs (d2R a).
Proof. rewrite (d2R_eq _ _ (dabs_sem a)). apply Q2R_abs. Qed.

Lemma d2R_shift a k : d2R (dshift a k) = d2R a * powerRZ 2 k.
Proof.
  rewrite (d2R_eq _ _ (dshift_sem a k)). rewrite Q2R_mult, Q2R_pow2. reflexivity.
Qed.

Lemma d2R_ofZ z : d2R (dofZ z) = IZR z.
Proof. rewrite (d2R_eq _ _ (dofZ_sem z)). apply Q2R_inject_Z. Qed.

Lemma d2R_D1 : forall m, d2R (D m 0) = IZR m.
Proof. intros m. exact (d2R_ofZ m). Qed.

Lemma dltb_R a b : dltb a b = true <-> d2R a < d2R b.
Proof.
  rewrite dltb_true. unfold d2R. split; intros H; [apply Qlt_Rlt | apply Rlt_Qlt]; exact H.
Qed.

Lemma dleb_R a b : dleb a b = true <-> d2R a <= d2R b.
Proof.
  rewrite dleb_true. unfold d2R. split; intros H; [apply Qle_Rle | apply Rle_Qle]; exact H.
Qed.

Lemma deqb_R a b : deqb a b = true <-> d2R a = d2R b.
Proof.
  rewrite deqb_true. unfold d2R. split; intros H; [apply Qeq_eqR | apply eqR_Qeq]; exact H.
Qed.

Lemma dltb_R_false a b : dltb a b = false <-> d2R b <= d2R a.
Proof.
  rewrite dltb_false. unfold d2R. split; intros H; [apply Qle_Rle | apply Rle_Qle]; exact H.
Qed.

Lemma d2R_max a b : d2R (dmax a b) = Rmax (d2R a) (d2R b).
Proof.
  unfold dmax. destruct (dltb a b) eqn:E.
  - apply dltb_R in E. symmetry. apply Rmax_right. lra.
  - apply dltb_R_false in E. symmetry. apply Rmax_left. exact E.
Qed.

Lemma d2R_min a b : d2R (dmin a b) = Rmin (d2R a) (d2R b).
Proof.
  unfold dmin. destruct (dltb b a) eqn:E.
  - apply dltb_R in E. symmetry. apply Rmin_right. lra.
  - apply dltb_R_false in E. symmetry. apply Rmin_left. exact E.
Qed.

Lemma omax_R x y : omax OpsR x y = Rmax x y.
Proof.
  unfold omax; cbn [ltb OpsR]. destruct (Rltb x y) eqn:E.
  - apply Rltb_true in E. symmetry. apply Rmax_right. lra.
  - apply Rltb_false in E. symmetry. apply Rmax_left. exact E.
Qed.

Lemma omin_R x y : omin OpsR x y = Rmin x y.
Proof.
  unfold omin; cbn [ltb OpsR]. destruct (Rltb y x) eqn:E.
  - apply Rltb_true in E. symmetry. apply Rmin_right. lra.
  - apply Rltb_false in E. symmetry. apply Rmin_left. exact E.
Qed.

Lemma d2R_omax a b : d2R (omax OpsD a b) = omax OpsR (d2R a) (d2R b).
Proof.
  rewrite omax_R. change (omax OpsD a b) with (dmax a b). apply d2R_max.
Qed.

Lemma d2R_omin a b : d2R (omin OpsD a b) = omin OpsR (d2R a) (d2R b).
Proof.
  rewrite omin_R. change (omin OpsD a b) with (dmin a b). apply d2R_min.
Qed.

Lemma d2Q_nonneg_of_R a : 0 <= d2R a -> (0 <= d2Q a)%Q.
Proof. intros H. apply Rle_Qle. rewrite Q2R_0. exact H. Qed.

Lemma dsqrt_lo_R_nonneg a : 0 <= d2R (dsqrt_lo a).
Proof.
  pose proof (Qle_Rle _ _ (dsqrt_lo_nonneg a)) as H. rewrite Q2R_0 in H. exact H.
Qed.

Lemma dsqrt_up_R_nonneg a : 0 <= d2R (dsqrt_up a).
Proof.
  pose proof (Qle_Rle _ _ (dsqrt_up_nonneg a)) as H. rewrite Q2R_0 in H. exact H.
Qed.

Lemma dsqrt_lo_R a : 0 <= d2R a -> d2R (dsqrt_lo a) <= R_sqrt.sqrt (d2R a).
Proof.
  intros Ha.
  pose proof (Qle_Rle _ _ (dsqrt_lo_sem a (d2Q_nonneg_of_R a Ha))) as H.
  rewrite Q2R_mult in H. fold (d2R (dsqrt_lo a)) in H. fold (d2R a) in H.
  pose proof (dsqrt_lo_R_nonneg a) as Hl.
  rewrite <- (R_sqrt.sqrt_square (d2R (dsqrt_lo a)) Hl) at 1.
  apply R_sqrt.sqrt_le_1_alt. exact H.
Qed.

Lemma dsqrt_up_R a : 0 <= d2R a -> R_sqrt.sqrt (d2R a) <= d2R (dsqrt_up a).
Proof.
  intros Ha.
  pose proof (Qle_Rle _ _ (dsqrt_up_sem a (d2Q_nonneg_of_R a Ha))) as H.
  rewrite Q2R_mult in H. fold (d2R (dsqrt_up a)) in H. fold (d2R a) in H.
  pose proof (dsqrt_up_R_nonneg a) as Hu.
  rewrite <- (R_sqrt.sqrt_square (d2R (dsqrt_up a)) Hu) at 1.
  apply R_sqrt.sqrt_le_1_alt. exact H.
Qed.

(** * Vectors *)

Lemma length_vecR v : length (vecR v) = length v.
Proof. unfold vecR. apply map_length. Qed.

Lemma length_matR A : length (matR A) = length A.
Proof. unfold matR. apply map_length. Qed.

Lemma fold_add_hom l acc :
  d2R (fold_left dadd l acc) = fold_left Rplus (vecR l) (d2R acc).
Proof.
  revert acc; induction l as [|x l IH]; intros acc; cbn [fold_left vecR map]; [reflexivity|].
  rewrite IH, d2R_add. reflexivity.
Qed.

Lemma fold_mul_hom l acc :
  d2R (fold_left dmul l acc) = fold_left Rmult (vecR l) (d2R acc).
Proof.
  revert acc; induction l as [|x l IH]; intros acc; cbn [fold_left vecR map]; [reflexivity|].
  rewrite IH, d2R_mul. reflexivity.
Qed.

Lemma vecR_map2 (f : dy -> dy -> dy) (g : R -> R -> R) :
  (forall a b, d2R (f a b) = g (d2R a) (d2R b)) ->
  forall x y, vecR (map (fun p => f (fst p) (snd p)) (combine x y)) =
              map (fun p => g (fst p) (snd p)) (combine (vecR x) (vecR y)).
Proof.
  intros Hfg x. induction x as [|a x IH]; intros y; [reflexivity|].
  destruct y as [|b y]; [reflexivity|].
  cbn [vecR map combine fst snd]. rewrite Hfg. f_equal. apply IH.
Qed.

Lemma d2R_vsum l : d2R (vsum OpsD l) = vsum OpsR (vecR l).
Proof.
  change (d2R (fold_left dadd l d0) = fold_left Rplus (vecR l) 0).
  rewrite fold_add_hom, d2R_0. reflexivity.
Qed.

Lemma d2R_dot x y : d2R (dot OpsD x y) = dot OpsR (vecR x) (vecR y).
Proof.
  unfold dot. rewrite d2R_vsum. f_equal. exact (vecR_map2 dmul Rmult d2R_mul x y).
Qed.

Lemma d2R_sumsq x : d2R (sumsq OpsD x) = sumsq OpsR (vecR x).
Proof. unfold sumsq. apply d2R_dot. Qed.

Lemma vecR_vabs x : vecR (vabs OpsD x) = vabs OpsR (vecR x).
Proof.
  unfold vabs, vecR. rewrite !map_map. apply map_ext. intros a. exact (d2R_abs a).
Qed.

Lemma vecR_vadd x y : vecR (vadd OpsD x y) = vadd OpsR (vecR x) (vecR y).
Proof. exact (vecR_map2 dadd Rplus d2R_add x y). Qed.

Lemma vecR_vsub x y : vecR (vsub OpsD x y) = vsub OpsR (vecR x) (vecR y).
Proof. exact (vecR_map2 dsub Rminus d2R_sub x y). Qed.

Lemma vecR_vscale a x : vecR (vscale OpsD a x) = vscale OpsR (d2R a) (vecR x).
Proof.
  unfold vscale, vecR. rewrite !map_map. apply map_ext. intros b. exact (d2R_mul a b).
Qed.

Lemma fold_norminf_hom x acc :
  d2R (fold_left (fun m v => omax OpsD m (abs OpsD v)) x acc) =
  fold_left (fun m v => omax OpsR m (abs OpsR v)) (vecR x) (d2R acc).
Proof.
  revert acc; induction x as [|a x IH]; intros acc; cbn [fold_left vecR map]; [reflexivity|].
  rewrite IH, d2R_omax. change (abs OpsD a) with (dabs a). rewrite d2R_abs. reflexivity.
Qed.

Lemma d2R_norminf x : d2R (norminf OpsD x) = norminf OpsR (vecR x).
Proof.
  unfold norminf. rewrite fold_norminf_hom. change (zero OpsD) with d0. rewrite d2R_0. reflexivity.
Qed.

Lemma d2R_vnth x j : d2R (vnth OpsD x j) = vnth OpsR (vecR x) j.
Proof.
  unfold vnth, vecR. change (zero OpsD) with d0. change (zero OpsR) with 0.
  rewrite <- d2R_0. symmetry. apply map_nth.
Qed.

Lemma d2R_rdot r x : d2R (rdot OpsD r x) = rdot OpsR (rowR r) (vecR x).
Proof.
  unfold rdot. rewrite d2R_vsum. f_equal. unfold vecR at 1. unfold rowR.
  rewrite !map_map. apply map_ext. intros e. cbn [fst snd].
  change (mul OpsD) with dmul. rewrite d2R_mul, d2R_vnth. reflexivity.
Qed.

Lemma d2R_rget r j : d2R (rget OpsD r j) = rget OpsR (rowR r) j.
Proof.
  unfold rget. rewrite d2R_vsum. f_equal. unfold vecR, rowR.
  rewrite !map_map. apply map_ext. intros e. cbn [fst snd].
  destruct (Nat.eqb (fst e) j); [reflexivity|]. exact d2R_0.
Qed.

Lemma rowR_rowabs r : rowR (rowabs OpsD r) = rowabs OpsR (rowR r).
Proof.
  unfold rowabs, rowR. rewrite !map_map. apply map_ext. intros e. cbn [fst snd].
  f_equal. exact (d2R_abs (snd e)).
Qed.

Lemma matR_mabs A : matR (mabs OpsD A) = mabs OpsR (matR A).
Proof.
  unfold mabs, matR. rewrite !map_map. apply map_ext. intros r. apply rowR_rowabs.
Qed.

Lemma vecR_mv A x : vecR (mv OpsD A x) = mv OpsR (matR A) (vecR x).
Proof.
  unfold mv, matR. unfold vecR at 1. rewrite !map_map. apply map_ext. intros r. apply d2R_rdot.
Qed.

Lemma vecR_mtv A z n : vecR (mtv OpsD A z n) = mtv OpsR (matR A) (vecR z) n.
Proof.
  unfold mtv. unfold vecR at 1. rewrite map_map. apply map_ext. intros j.
  rewrite d2R_dot. f_equal. unfold vecR, matR. rewrite !map_map. apply map_ext.
  intros r. apply d2R_rget.
Qed.

Lemma sel_map {X Y} (f : X -> Y) keep v : sel keep (map f v) = map f (sel keep v).
Proof.
  unfold sel. revert v. induction keep as [|b keep IH]; intros v; [reflexivity|].
  destruct v as [|a v]; [reflexivity|].
  cbn [map combine filter fst]. destruct b; cbn [map snd]; rewrite IH; reflexivity.
Qed.

Lemma vecR_sel keep v : vecR (sel keep v) = sel keep (vecR v).
Proof. unfold vecR. symmetry. apply sel_map. Qed.

Lemma matR_sel keep A : matR (sel keep A) = sel keep (matR A).
Proof. unfold matR. symmetry. apply sel_map. Qed.

Lemma vecR_res_p Ak bk x sk :
  vecR (res_p OpsD Ak bk x sk) = res_p OpsR (matR Ak) (vecR bk) (vecR x) (vecR sk).
Proof. unfold res_p. rewrite vecR_vsub, vecR_vadd, vecR_mv. reflexivity. Qed.

Lemma vecR_res_d P Ak q x zk :
  vecR (res_d OpsD P Ak q x zk) = res_d OpsR (matR P) (matR Ak) (vecR q) (vecR x) (vecR zk).
Proof.
  unfold res_d. rewrite !vecR_vadd, vecR_mv, vecR_mtv, length_vecR. reflexivity.
Qed.

Lemma d2R_xPx P x : d2R (xPx OpsD P x) = xPx OpsR (matR P) (vecR x).
Proof. unfold xPx. rewrite d2R_dot, vecR_mv. reflexivity. Qed.

Lemma d2R_two : d2R (two OpsD) = two OpsR.
Proof.
  change (d2R (dadd d1 d1) = 1 + 1). rewrite d2R_add, d2R_1. reflexivity.
Qed.

Lemma two_R : two OpsR = 2.
Proof. change (1 + 1 = 2). lra. Qed.

Lemma d2R_cost_p2 P q x :
  d2R (cost_p2 OpsD P q x) = cost_p2 OpsR (matR P) (vecR q) (vecR x).
Proof.
  unfold cost_p2. change (add OpsD) with dadd. change (mul OpsD) with dmul.
  rewrite d2R_add, d2R_mul, d2R_xPx, d2R_two, d2R_dot. reflexivity.
Qed.

Lemma d2R_cost_d2 P bk x zk :
  d2R (cost_d2 OpsD P bk x zk) = cost_d2 OpsR (matR P) (vecR bk) (vecR x) (vecR zk).
Proof.
  unfold cost_d2. change (sub OpsD) with dsub. change (mul OpsD) with dmul.
  change (neg OpsD) with dneg.
  rewrite d2R_sub, d2R_neg, d2R_mul, d2R_xPx, d2R_two, d2R_dot. reflexivity.
Qed.

Lemma vecR_scale_p Ak bk x sk :
  vecR (scale_p OpsD Ak bk x sk) = scale_p OpsR (matR Ak) (vecR bk) (vecR x) (vecR sk).
Proof.
  unfold scale_p. rewrite !vecR_vadd, vecR_mv, matR_mabs, !vecR_vabs. reflexivity.
Qed.

Lemma vecR_scale_d P Ak q x zk :
  vecR (scale_d OpsD P Ak q x zk) = scale_d OpsR (matR P) (matR Ak) (vecR q) (vecR x) (vecR zk).
Proof.
  unfold scale_d.
  rewrite !vecR_vadd, vecR_mv, vecR_mtv, !matR_mabs, !vecR_vabs, length_vecR. reflexivity.
Qed.

Lemma d2R_scale_cp P q x :
  d2R (scale_cp OpsD P q x) = scale_cp OpsR (matR P) (vecR q) (vecR x).
Proof.
  unfold scale_cp. change (add OpsD) with dadd. change (mul OpsD) with dmul.
  rewrite d2R_add, d2R_mul, d2R_xPx, d2R_two, d2R_dot, matR_mabs, !vecR_vabs. reflexivity.
Qed.

Lemma d2R_scale_cd P bk x zk :
  d2R (scale_cd OpsD P bk x zk) = scale_cd OpsR (matR P) (vecR bk) (vecR x) (vecR zk).
Proof.
  unfold scale_cd. change (add OpsD) with dadd. change (mul OpsD) with dmul.
  rewrite d2R_add, d2R_mul, d2R_xPx, d2R_two, d2R_dot, matR_mabs, !vecR_vabs. reflexivity.
Qed.

Lemma d2R_powT a k : d2R (powT OpsD a k) = powT OpsR (d2R a) k.
Proof.
  induction k as [|k IH]; cbn [powT].
  - exact d2R_1.
  - change (mul OpsD) with dmul. rewrite d2R_mul, IH. reflexivity.
Qed.

Lemma powT_R x k : powT OpsR x k = x ^ k.
Proof.
  induction k as [|k IH]; cbn [powT pow]; [reflexivity|]. rewrite IH. reflexivity.
Qed.

Lemma vecR_powmap xs (ps : list nat) :
  vecR (map (fun p => powT OpsD (fst p) (snd p)) (combine xs ps)) =
  map (fun p => powT OpsR (fst p) (snd p)) (combine (vecR xs) ps).
Proof.
  revert ps; induction xs as [|a xs IH]; intros ps; [reflexivity|].
  destruct ps as [|k ps]; [reflexivity|].
  cbn [vecR map combine fst snd]. rewrite d2R_powT. f_equal. apply IH.
Qed.

Lemma d2R_prodpow xs ps : d2R (prodpow OpsD xs ps) = prodpow OpsR (vecR xs) ps.
Proof.
  unfold prodpow. change (mul OpsD) with dmul. change (one OpsD) with d1.
  rewrite fold_mul_hom, vecR_powmap, d2R_1. reflexivity.
Qed.

Lemma fold_sq_nonneg (v : list R) acc :
  0 <= acc ->
  0 <= fold_left Rplus (map (fun p => fst p * snd p) (combine v v)) acc.
Proof.
  revert acc; induction v as [|a v IH]; intros acc Hacc; cbn [combine map fold_left fst snd];
    [exact Hacc|].
  apply IH. nra.
Qed.

Lemma sumsq_nonneg (v : list R) : 0 <= sumsq OpsR v.
Proof.
  change (0 <= fold_left Rplus (map (fun p => fst p * snd p) (combine v v)) 0).
  apply fold_sq_nonneg. lra.
Qed.
