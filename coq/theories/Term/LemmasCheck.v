(** Term/LemmasCheck.v — soundness of the per-run checkers of Term/Check.v:
      a [Holds] verdict implies the exact real-number statement of Term/Spec.v
    for the user's original data and the returned vectors, both read through [d2R]. *)
From Coq Require Import List ZArith NArith QArith Qreals Reals RMicromega Lia Lra Bool Arith Psatz.
Import ListNotations.
Require Import Clarabel.Base.Ops Clarabel.Base.Dyadic Clarabel.Term.Eval Clarabel.Term.Model
        Clarabel.Term.Spec Clarabel.Term.Check Clarabel.Term.Hom Clarabel.Term.LemmasVerdict.
Local Open Scope R_scope.

(** * real-number helpers *)
Lemma Rmax_mono_r a b : a <= b -> Rmax 1 a <= Rmax 1 b.
Proof. intros H. apply Rle_max_compat_l. exact H. Qed.
Lemma Rmax_ge1 a : 1 <= Rmax 1 a.
Proof. apply Rmax_l. Qed.

(** sqrt r2 <= Ru < tol * Rmax 1 (lower bounds)  ==>  sqrt r2 < tol * Rmax 1 (true norms) *)
Lemma lt_norm_R r2 Ru tol M' M :
  R_sqrt.sqrt r2 <= Ru -> Ru < tol * M' -> 1 <= M' -> M' <= M -> R_sqrt.sqrt r2 < tol * M.
Proof.
  intros H1 H2 H3 H4.
  pose proof (sqrt_pos r2) as Hs.
  assert (Ht : 0 < tol).
  { destruct (Rlt_dec 0 tol) as [Hp|Hn]; [exact Hp|]. exfalso.
    assert (tol * M' <= 0) by (apply Rnot_lt_le in Hn; nra). lra. }
  assert (tol * M' <= tol * M) by (apply Rmult_le_compat_l; lra).
  lra.
Qed.

Lemma d2R_ssq v : d2R (ssq v) = sumsq OpsR (vecR v).
Proof. unfold ssq. apply d2R_sumsq. Qed.
Lemma ssq_nonneg v : 0 <= d2R (ssq v).
Proof. rewrite d2R_ssq. apply sumsq_nonneg. Qed.
Lemma nlo_le v : d2R (nlo (ssq v)) <= norm2 (vecR v).
Proof. unfold nlo, norm2. rewrite <- d2R_ssq. apply dsqrt_lo_R, ssq_nonneg. Qed.
Lemma nup_ge v : norm2 (vecR v) <= d2R (nup (ssq v)).
Proof. unfold nup, norm2. rewrite <- d2R_ssq. apply dsqrt_up_R, ssq_nonneg. Qed.
Lemma d2R_dninf v : d2R (dninf v) = ninf (vecR v).
Proof. unfold dninf, ninf. apply d2R_norminf. Qed.
Lemma norm2_nonneg v : 0 <= norm2 v.
Proof. unfold norm2. apply sqrt_pos. Qed.

Lemma d2R_D_nonneg m e : (0 <= m)%Z -> 0 <= d2R (D m e).
Proof.
  intros Hm. unfold d2R. replace 0 with (Q2R 0) by apply Q2R_0.
  apply Qle_Rle. unfold d2Q; cbn [dm de].
  apply Qmult_le_0_compat.
  - change 0%Q with (inject_Z 0). rewrite <- Zle_Qle. exact Hm.
  - apply Qlt_le_weak, Qpower2_pos.
Qed.
Lemma gamma_nonneg n : 0 <= d2R (gamma n).
Proof. unfold gamma. apply d2R_D_nonneg. lia. Qed.

Lemma forallb_Forall_R0 v :
  forallb (fun a => deqb a d0) v = true -> Forall (fun a : R => a = 0) (vecR v).
Proof.
  induction v as [|a v IH]; cbn [forallb vecR map]; intros H; [constructor|].
  apply andb_prop in H. destruct H as [Ha Hv]. constructor; [|apply IH; exact Hv].
  apply deqb_R in Ha. rewrite d2R_0 in Ha. exact Ha.
Qed.

(** * C01 parts *)
Section Sound.
Variable p : prob.
Let pr := probR_of p.
Let keep := p_keep p.

Lemma dropped_zero_ok_sound z :
  dropped_zero_ok p z = true -> dropped_zero pr (vecR z).
Proof.
  unfold dropped_zero_ok, dropped_zero. cbn [r_keep pr probR_of]. rewrite <- vecR_sel.
  apply forallb_Forall_R0.
Qed.

Lemma chk_lengths_sound x s z :
  chk_lengths p x s z = Holds -> lengths_ok pr (vecR x) (vecR s) (vecR z).
Proof.
  unfold chk_lengths, lengths_ok. intros H. apply ofb_holds in H.
  apply andb_prop in H. destruct H as [H Hd].
  apply andb_prop in H. destruct H as [H Hz]. apply andb_prop in H. destruct H as [Hx Hs].
  apply Nat.eqb_eq in Hx, Hs, Hz. rewrite !length_vecR. cbn [r_n r_m pr probR_of].
  repeat split; auto. apply dropped_zero_ok_sound; exact Hd.
Qed.

Lemma chk_lt_norm_sound r a tol nb u w :
  chk_lt_norm p (ssq r) a tol nb (ssq u) (ssq w) = Holds ->
  norm2 (vecR r) < d2R tol * Rmax 1 (d2R nb + norm2 (vecR u) + norm2 (vecR w)).
Proof.
  unfold chk_lt_norm. intros H. apply tri_holds in H. apply dltb_R in H.
  rewrite d2R_mul, d2R_max, d2R_1, !d2R_add in H.
  eapply lt_norm_R; [apply nup_ge | exact H | apply Rmax_ge1 |].
  apply Rmax_mono_r. pose proof (nlo_le u). pose proof (nlo_le w). lra.
Qed.

Lemma chk_feas_p_sound tf x sk :
  chk_feas_p p tf x sk = Holds -> feas_p pr (d2R tf) (vecR x) (vecR sk).
Proof.
  unfold chk_feas_p, feas_p. intros H. apply chk_lt_norm_sound in H.
  rewrite vecR_res_p, d2R_dninf, matR_sel, vecR_sel in H. exact H.
Qed.
Lemma chk_feas_d_sound tf x zk :
  chk_feas_d p tf x zk = Holds -> feas_d pr (d2R tf) (vecR x) (vecR zk).
Proof.
  unfold chk_feas_d, feas_d. intros H. apply chk_lt_norm_sound in H.
  rewrite vecR_res_d, d2R_dninf, matR_sel in H. exact H.
Qed.

Lemma Rmax2_half a b : Rmax 2 (Rmin (Rabs a) (Rabs b)) = 2 * Rmax 1 (Rmin (Rabs (a / 2)) (Rabs (b / 2))).
Proof.
  assert (Ha : Rabs (a / 2) = Rabs a / 2) by (unfold Rdiv; rewrite Rabs_mult, (Rabs_pos_eq (/ 2)); lra).
  assert (Hb : Rabs (b / 2) = Rabs b / 2) by (unfold Rdiv; rewrite Rabs_mult, (Rabs_pos_eq (/ 2)); lra).
  rewrite Ha, Hb. unfold Rmax, Rmin.
  repeat destruct (Rle_dec _ _); lra.
Qed.
Lemma Rabs_half a b : Rabs (a / 2 - b / 2) = Rabs (a - b) / 2.
Proof. replace (a / 2 - b / 2) with ((a - b) / 2) by lra. unfold Rdiv. rewrite Rabs_mult, (Rabs_pos_eq (/ 2)); lra. Qed.

Lemma chk_gap_sound tga tgr x zk :
  chk_gap p tga tgr x zk = Holds -> gap_ok pr (d2R tga) (d2R tgr) (vecR x) (vecR zk).
Proof.
  unfold chk_gap, gap_ok. intros H. apply tri_holds in H.
  unfold cost_p, cost_d. cbn [r_P r_q r_keep r_b pr probR_of].
  rewrite Rabs_half.
  apply orb_prop in H. destruct H as [H|H]; apply dltb_R in H;
    rewrite d2R_abs, d2R_sub, d2R_cost_p2, d2R_cost_d2, ?vecR_sel in H.
  - left. rewrite d2R_mul in H. unfold dtwo in H. rewrite d2R_D1 in H. lra.
  - right. rewrite d2R_mul, d2R_max, d2R_min, !d2R_abs, d2R_cost_p2, d2R_cost_d2, ?vecR_sel in H.
    unfold dtwo in H. rewrite d2R_D1 in H. rewrite Rmax2_half in H. lra.
Qed.

(** * cone membership *)
Lemma forallb_Forall_R (f : dy -> bool) (Pr : R -> Prop) v :
  (forall a, f a = true -> Pr (d2R a)) -> forallb f v = true -> Forall Pr (vecR v).
Proof.
  intros Hf. induction v as [|a v IH]; cbn [forallb vecR map]; intros H; [constructor|].
  apply andb_prop in H. destruct H as [Ha Hv]. constructor; auto.
Qed.
Lemma nn_ok_sound v : nn_ok v = true -> in_nn (vecR v).
Proof.
  apply forallb_Forall_R. intros a Ha. apply dleb_R in Ha. rewrite d2R_0 in Ha. exact Ha.
Qed.
Lemma zero_ok_sound v : zero_ok v = true -> in_zero (vecR v).
Proof.
  apply forallb_Forall_R. intros a Ha. apply deqb_R in Ha. rewrite d2R_0 in Ha. exact Ha.
Qed.
Lemma soc_ok_sound v : soc_ok v = true -> in_soc (vecR v).
Proof.
  destruct v as [|t w]; cbn [soc_ok vecR map in_soc]; [auto|].
  intros H. apply andb_prop in H. destruct H as [H1 H2].
  apply dleb_R in H1, H2. rewrite d2R_0 in H1. rewrite d2R_ssq, d2R_mul in H2. split; assumption.
Qed.

Lemma d2R_dpow a k : d2R (dpow a k) = d2R a ^ k.
Proof. unfold dpow. rewrite d2R_powT. apply powT_R. Qed.
Lemma d2R_dnat n : d2R (dnat n) = INR n.
Proof. unfold dnat. rewrite d2R_ofZ. symmetry. apply INR_IZR_INZ. Qed.

Lemma pow_ok_sound pp q v : pow_ok pp q v = true -> in_pow pp q (vecR v).
Proof.
  destruct v as [|x [|y [|z [|? ?]]]]; cbn [pow_ok]; try discriminate.
  intros H. apply andb_prop in H. destruct H as [H H3]. apply andb_prop in H. destruct H as [H1 H2].
  apply dleb_R in H1, H2, H3. rewrite d2R_0 in H1, H2.
  rewrite d2R_dpow, d2R_abs, d2R_mul, !d2R_dpow in H3.
  cbn [vecR map in_pow]. auto.
Qed.
Lemma pow_dual_ok_sound pp q v : pow_dual_ok pp q v = true -> in_pow_dual pp q (vecR v).
Proof.
  destruct v as [|x [|y [|z [|? ?]]]]; cbn [pow_dual_ok]; try discriminate.
  intros H. apply andb_prop in H. destruct H as [H H3]. apply andb_prop in H. destruct H as [H1 H2].
  apply dleb_R in H1, H2, H3. rewrite d2R_0 in H1, H2.
  rewrite !d2R_mul, !d2R_dpow, d2R_abs, !d2R_dnat in H3.
  cbn [vecR map in_pow_dual]. auto.
Qed.
Lemma vecR_firstn k v : vecR (firstn k v) = firstn k (vecR v).
Proof. unfold vecR. symmetry. apply firstn_map. Qed.
Lemma vecR_skipn k v : vecR (skipn k v) = skipn k (vecR v).
Proof. unfold vecR. symmetry. apply skipn_map. Qed.
Lemma d2R_dprodpow xs ps : d2R (dprodpow xs ps) = prodpowR (vecR xs) ps.
Proof. unfold dprodpow, prodpowR. apply d2R_prodpow. Qed.
Lemma genpow_ok_sound ps q v : genpow_ok ps q v = true -> in_genpow ps q (vecR v).
Proof.
  unfold genpow_ok, in_genpow. intros H. apply andb_prop in H. destruct H as [H1 H2].
  apply nn_ok_sound in H1. apply dleb_R in H2.
  rewrite !d2R_dpow, d2R_ssq, d2R_dprodpow, vecR_skipn, vecR_firstn in H2.
  rewrite vecR_firstn in H1. split; assumption.
Qed.
Lemma vecR_dnat ps : vecR (map dnat ps) = map INR ps.
Proof. unfold vecR. rewrite map_map. apply map_ext. apply d2R_dnat. Qed.
Lemma genpow_dual_ok_sound ps q v : genpow_dual_ok ps q v = true -> in_genpow_dual ps q (vecR v).
Proof.
  unfold genpow_dual_ok, in_genpow_dual. intros H. apply andb_prop in H. destruct H as [H1 H2].
  apply nn_ok_sound in H1. apply dleb_R in H2.
  rewrite !d2R_mul, !d2R_dpow, d2R_ssq, !d2R_dprodpow, vecR_skipn, vecR_firstn, vecR_dnat, d2R_dnat in H2.
  rewrite vecR_firstn in H1. split; assumption.
Qed.

(** cone kinds whose membership check is proved sound: Zero/NN/SOC/Pow/GenPow here, the
    exponential cone in LemmasExp.v, the PSD triangle cone in LemmasPsd.v, the power cone with a
    general dyadic exponent ([alpha_pq a = None], real-exponent spec) in LemmasPowReal.v (these
    files import this one, so their results enter as section hypotheses guarded by a flag and are
    discharged in LemmasFinal.v with all flags true) *)
Definition certified_kind (exp_ok_proved psd_ok_proved powr_ok_proved : bool) (k : coneD) : bool :=
  match k with
  | KExp => exp_ok_proved
  | KPSD _ => psd_ok_proved
  | KPow a => match alpha_pq a with Some _ => true | None => powr_ok_proved end
  | _ => true end.

Section Cones.
(** soundness of the exponential-cone enclosure, supplied by LemmasExp.v *)
Variable exp_proved : bool.
Hypothesis exp_sound : exp_proved = true -> forall v, exp_ok v = true -> in_exp (vecR v).
Hypothesis exp_dual_sound : exp_proved = true -> forall v, exp_dual_ok v = true -> in_exp_dual (vecR v).
Variable psd_proved : bool.
Hypothesis psd_sound : psd_proved = true -> forall n v, psd_ok n v = true -> in_psd n (vecR v).
(** soundness of the real-exponent power-cone enclosure, supplied by LemmasPowReal.v *)
Variable powr_proved : bool.
Hypothesis powr_sound :
  powr_proved = true -> forall a v, pow_real_ok a v = true -> in_pow_real (d2R a) (vecR v).
Hypothesis powr_dual_sound :
  powr_proved = true -> forall a v, pow_real_dual_ok a v = true -> in_pow_real_dual (d2R a) (vecR v).

Lemma chk_cone_sound (dual : bool) k v :
  certified_kind exp_proved psd_proved powr_proved k = true -> chk_cone dual k v = Holds ->
  if dual then in_dual k (vecR v) else in_cone k (vecR v).
Proof.
  intros Hk H. unfold chk_cone in H.
  destruct (Nat.eqb (length v) (cone_dim k)) eqn:Hl; cbn [negb] in H; [|discriminate].
  apply Nat.eqb_eq in Hl.
  assert (HL : length (vecR v) = cone_dim k) by (rewrite length_vecR; exact Hl).
  destruct k as [n|n|n| |a|al d2|n]; cbn [certified_kind] in Hk.
  - destruct dual; unfold in_dual, in_cone; split; auto.
    apply tri_holds in H. apply zero_ok_sound; exact H.
  - apply tri_holds in H. apply nn_ok_sound in H. destruct dual; unfold in_dual, in_cone; split; auto.
  - apply tri_holds in H. apply soc_ok_sound in H. destruct dual; unfold in_dual, in_cone; split; auto.
  - apply tri_holds in H. destruct dual; unfold in_dual, in_cone; split; auto.
  - unfold in_dual, in_cone. destruct (alpha_pq a) as [[pp q]|].
    + apply tri_holds in H. destruct dual; split; auto.
      * apply pow_dual_ok_sound; exact H.
      * apply pow_ok_sound; exact H.
    + cbv zeta in H. destruct dual; split; auto.
      * destruct (pow_real_dual_ok a v) eqn:E; [|apply tri_holds in H; discriminate H].
        apply powr_dual_sound; assumption.
      * destruct (pow_real_ok a v) eqn:E; [|apply tri_holds in H; discriminate H].
        apply powr_sound; assumption.
  - unfold in_dual, in_cone. destruct (alphas_pq al) as [[ps q]|]; [|destruct dual; discriminate].
    apply tri_holds in H. destruct dual; split; auto.
    + apply genpow_dual_ok_sound; exact H.
    + apply genpow_ok_sound; exact H.
  - apply tri_holds in H. destruct dual; unfold in_dual, in_cone; split; auto.
Qed.

Lemma chunks_vecR K v :
  chunks K (vecR v) = map (fun kc => (fst kc, vecR (snd kc))) (chunks K v).
Proof.
  revert v. induction K as [|k K IH]; intros v; cbn [chunks map]; [reflexivity|].
  rewrite <- vecR_firstn, <- vecR_skipn, IH. reflexivity.
Qed.
Lemma chunks_kinds {X} K (v : list X) : map fst (chunks K v) = K.
Proof. revert v. induction K as [|k K IH]; intros v; cbn [chunks map fst]; [reflexivity|]. rewrite IH. reflexivity. Qed.

Lemma chk_InK_sound (dual : bool) K v :
  forallb (certified_kind exp_proved psd_proved powr_proved) K = true -> chk_InK dual K v = Holds ->
  if dual then InKdual K (vecR v) else InK K (vecR v).
Proof.
  intros HK H. unfold chk_InK in H. apply vall_holds in H.
  assert (G : Forall (fun kc => if dual then in_dual (fst kc) (vecR (snd kc)) else in_cone (fst kc) (vecR (snd kc))) (chunks K v)).
  { revert v H. induction K as [|k K IH]; intros v H; cbn [chunks] in *; [constructor|].
    cbn [forallb] in HK. apply andb_prop in HK. destruct HK as [Hk HK'].
    cbn [map] in H. inversion H as [|? ? Hh Ht]; subst.
    constructor; [|apply IH; assumption].
    cbn [fst snd] in *. pose proof (chk_cone_sound dual k _ Hk Hh) as G. exact G. }
  destruct dual; unfold InKdual, InK; rewrite chunks_vecR; rewrite Forall_map; cbn [fst snd];
    eapply Forall_impl; [|exact G| |exact G]; intros kc Hkc; exact Hkc.
Qed.

(** * C01: the per-run certificate theorem *)
Theorem chk_termtest_sound_gen tf tga tgr x s z :
  forallb (certified_kind exp_proved psd_proved powr_proved) (p_K p) = true ->
  chk_termtest p tf tga tgr x s z = Holds ->
  TermTest pr (d2R tf) (d2R tga) (d2R tgr) (vecR x) (vecR s) (vecR z).
Proof.
  intros HK H. unfold chk_termtest, termtest_parts in H. apply vall_holds in H.
  inversion H as [|? ? H1 H']; subst. inversion H' as [|? ? H2 H'']; subst.
  inversion H'' as [|? ? H3 H3']; subst. inversion H3' as [|? ? H4 H4']; subst.
  inversion H4' as [|? ? H5 H5']; subst. inversion H5' as [|? ? H6 _]; subst.
  unfold TermTest. cbn [r_keep r_K pr probR_of].
  rewrite <- !vecR_sel.
  split; [apply chk_lengths_sound; exact H1|].
  split; [apply chk_feas_p_sound; exact H2|].
  split; [apply chk_feas_d_sound; exact H3|].
  split; [apply chk_gap_sound; exact H4|].
  split.
  - apply (chk_InK_sound false); assumption.
  - apply (chk_InK_sound true); assumption.
Qed.
End Cones.
End Sound.
