(** Term/Cover.v — (1) branch identifiers of the decision code of info.rs as transcribed in
    Term/Model.v: every correspondence case (synthetic info state or real solver run) reports the
    list of model branches it drives the decision through, the orchestrator histograms them and
    lists unreached branches in the evidence; (2) the FULL-CHAIN tie for real runs:
    final status = info_post_process (check_termination info0) on binary64, with the previous
    iterate's figures read through the hook.  Executable definitions only.

    Branch ids.  check_convergence, phase base b = 0 (full tolerances) / 20 (reduced):
      b+0 solved via gap_abs      b+1 solved via gap_rel     b+2 not solved: ktratio > 1
      b+3 not solved: both gap tests fail   b+4 not solved: res_primal   b+5 not solved: res_dual
      b+6 infeasibility gate closed (ktratio <= 1000/tol_ktratio)
      b+7 primal infeasible       b+8 dual infeasible        b+9 gate open, neither
      b+10 pinf fails on dot_bz   b+11 pinf fails on res_primal_inf
      b+12 dinf fails on dot_qx   b+13 dinf fails on res_dual_inf
    check_termination:
      40 poor-progress block skipped: status already set   41 skipped: iter <= 1
      42 skipped: no residual increase                      43 block entered
      44 InsufficientProgress: ktratio < 100 eps, prev gap_abs ok   45 same via prev gap_rel
      46 ktratio < 100 eps but previous gaps not met        47 ktratio >= 100 eps
      48 ktratio >= 1 (divergence test skipped)   49 dual residual diverged   50 primal residual diverged
      51 divergence test: neither
      52 limits skipped: status already set   53 MaxIterations   54 MaxTime   55 no limit hit
    post_process:
      56/57 previous-gap test: gap_abs member only / both members (45 = gap_rel only)
      58/59/65 residual increase: dual only / primal only / both
      b+14 / b+15 gap test: gap_abs member only / both members (b+1 = gap_rel only)
      60 status not eligible (untouched)   61 from NumericalError   62 from InsufficientProgress
      63 from MaxIterations   64 from MaxTime *)
From Coq Require Import List ZArith NArith Bool Arith Floats.
Import ListNotations.
Require Import Clarabel.Base.Ops Clarabel.Term.Eval Clarabel.Term.Model Clarabel.Term.Check.
Local Open Scope N_scope.

Section Cov.
Let O := OpsF.
Definition cov_conv (b : N) (i : info (T:=float)) (bz qx tga tgr tf ta tr tk : float) : list N :=
  let rp := ltb O (res_primal i) tf in
  let rd := ltb O (res_dual i) tf in
  let tail := if rp then (if rd then None else Some 5) else Some 4 in
  let sp :=
    if negb (leb O (ktratio i) (one O)) then 2
    else if ltb O (gap_abs i) tga then match tail with None => 0 | Some k => k end
    else if ltb O (gap_rel i) tgr then match tail with None => 1 | Some k => k end
    else 3 in
  if (sp <? 2) then
    (* which member(s) of the gap disjunction hold: 14 abs only, 15 both (b+1 = rel only) *)
    (if sp =? 0 then [b + 0; (if ltb O (gap_rel i) tgr then b + 15 else b + 14)] else [b + 1])
  else
    (b + sp) ::
    (if negb (ltb O (mul O (recip O tk) (ofZ O 1000)) (ktratio i)) then [b + 6]
     else
       let p1 := ltb O bz (neg O ta) in
       let p2 := ltb O (res_primal_inf i) (mul O (neg O tr) bz) in
       if p1 && p2 then [b + 7]
       else
         (if p1 then b + 11 else b + 10) ::
         (let d1 := ltb O qx (neg O ta) in
          let d2 := ltb O (res_dual_inf i) (mul O (neg O tr) qx) in
          if d1 && d2 then [b + 8] else [(if d1 then b + 13 else b + 12); b + 9])).

Definition cov_full (i : info (T:=float)) (bz qx : float) (se : settings (T:=float)) : list N :=
  cov_conv 0 i bz qx (tol_gap_abs se) (tol_gap_rel se) (tol_feas se) (tol_infeas_abs se) (tol_infeas_rel se) (tol_ktratio se).
Definition cov_almost (i : info (T:=float)) (bz qx : float) (se : settings (T:=float)) : list N :=
  cov_conv 20 i bz qx (red_gap_abs se) (red_gap_rel se) (red_feas se) (red_infeas_abs se) (red_infeas_rel se) (red_ktratio se).

Definition cov_term (i : info (T:=float)) (bz qx : float) (se : settings (T:=float)) (iter : nat) : list N :=
  let s1 := check_convergence_full O i bz qx se in
  let hundred := ofZ O 100 in
  let inc := ltb O (prev_res_dual i) (res_dual i) || ltb O (prev_res_primal i) (res_primal i) in
  let pp :=
    if negb (status_eqb s1 St_Unsolved) then [40]
    else if negb (Nat.ltb 1 iter) then [41]
    else if negb inc then [42]
    else
      43 ::
      (* residual-increase disjunction: 58 dual only, 59 primal only, 65 both *)
      (if ltb O (prev_res_dual i) (res_dual i)
       then (if ltb O (prev_res_primal i) (res_primal i) then 65 else 58) else 59) ::
      (* previous-gap disjunction (evaluated when ktratio < 100 eps): 56 abs only, 57 both (45 = rel only) *)
      (if ltb O (ktratio i) (eps100 se) && ltb O (prev_gap_abs i) (tol_gap_abs se)
       then [if ltb O (prev_gap_rel i) (tol_gap_rel se) then 57 else 56] else []) ++
      (if ltb O (ktratio i) (eps100 se)
       then (if ltb O (prev_gap_abs i) (tol_gap_abs se) then 44
             else if ltb O (prev_gap_rel i) (tol_gap_rel se) then 45 else 46)
       else 47) ::
      (if negb (ltb O (ktratio i) (one O)) then [48]
       else if ltb O (mul O (tol_feas se) hundred) (res_dual i) && ltb O (mul O (prev_res_dual i) hundred) (res_dual i) then [49]
       else if ltb O (mul O (tol_feas se) hundred) (res_primal i) && ltb O (mul O (prev_res_primal i) hundred) (res_primal i) then [50]
       else [51]) in
  let i2 := check_termination O i bz qx se iter in
  (* status before the limit test = status after it unless a limit fired *)
  let lim :=
    match st i2 with
    | St_MaxIterations => [53]
    | St_MaxTime => [54]
    | St_Unsolved => [55]
    | _ => [52]
    end in
  cov_full i bz qx se ++ pp ++ lim.

Definition cov_post (i : info (T:=float)) (bz qx : float) (se : settings (T:=float)) : list N :=
  match st i with
  | St_NumericalError => 61 :: cov_almost i bz qx se
  | St_InsufficientProgress => 62 :: cov_almost i bz qx se
  | St_MaxIterations => 63 :: cov_almost i bz qx se
  | St_MaxTime => 64 :: cov_almost i bz qx se
  | _ => [60]
  end.
End Cov.

(** coverage of one synthetic state *)
Definition cov_synth (post : bool) (f : setF) (y : synthF) : list N :=
  let g := y_info y in
  let i := synth_info y in
  let se := synth_settings f y in
  if post then cov_post i (g_dot_bz g) (g_dot_qx g) se
  else cov_term i (g_dot_bz g) (g_dot_qx g) se (N.to_nat (y_iter y)).

(** ** full chain on a real run (no roll-back): [y] carries the final info figures, the previous
    iterate's figures (hook), iterations = iter, the limits, status0 = Unsolved. *)
Definition chain_status (f : setF) (y : synthF) : status :=
  let g := y_info y in
  let se := synth_settings f y in
  let i1 := check_termination OpsF (synth_info y) (g_dot_bz g) (g_dot_qx g) se (N.to_nat (y_iter y)) in
  st (info_post_process OpsF i1 (g_dot_bz g) (g_dot_qx g) se).
(** 0 = the model chain reproduces the final status (or the status is one the chain cannot decide:
    set by a strategy checkpoint outside check_termination); 1 = mismatch *)
Definition c_chain (f : setF) (y : synthF) (final : status) : N :=
  match final with
  | St_Solved | St_PrimalInfeasible | St_DualInfeasible | St_MaxIterations | St_MaxTime =>
      if status_eqb (chain_status f y) final then 0 else 1
  | _ => 0
  end.
Definition cov_chain (f : setF) (y : synthF) (final : status) : list N :=
  let g := y_info y in
  let se := synth_settings f y in
  match final with
  | St_Solved | St_PrimalInfeasible | St_DualInfeasible | St_MaxIterations | St_MaxTime =>
      let i1 := check_termination OpsF (synth_info y) (g_dot_bz g) (g_dot_qx g) se (N.to_nat (y_iter y)) in
      cov_term (synth_info y) (g_dot_bz g) (g_dot_qx g) se (N.to_nat (y_iter y))
      ++ cov_post i1 (g_dot_bz g) (g_dot_qx g) se
  | St_AlmostSolved | St_AlmostPrimalInfeasible | St_AlmostDualInfeasible =>
      cov_almost (synth_info y) (g_dot_bz g) (g_dot_qx g) se
  | _ => []
  end.

(** merge the chain verdict into the packed code of a run (digit 3 = decision tie) *)
Definition with_chain (code ch : N) : N :=
  if N.eqb ch 0 then code
  else if N.eqb (N.land (N.shiftr code 9) 7) 0 then code + 512 else code.

(** histogram over ids 0..69 *)
Definition bump (h : list N) (k : N) : list N :=
  let fix go (h : list N) (n : nat) : list N :=
    match h with
    | [] => []
    | c :: h' => match n with O => (c + 1) :: h' | S n' => c :: go h' n' end
    end in go h (N.to_nat k).
Definition cov_hist (cs : list (list N)) : list N :=
  fold_left (fun h c => fold_left bump c h) cs (repeat 0 70).
