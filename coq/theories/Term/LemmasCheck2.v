(** Term/LemmasCheck2.v — soundness of the certificate checkers (C02) and of the report
    checkers (C03): a [Holds] verdict implies the real-number statement of Term/Spec.v. *)
From Coq Require Import List ZArith NArith QArith Qreals Reals RMicromega Lia Lra Bool Arith Psatz.
Import ListNotations.
Require Import Clarabel.Base.Ops Clarabel.Base.Dyadic Clarabel.Term.Eval Clarabel.Term.Model
        Clarabel.Term.Spec Clarabel.Term.Check Clarabel.Term.Hom Clarabel.Term.LemmasVerdict
        Clarabel.Term.LemmasCheck.
Local Open Scope R_scope.

Lemma d2R_pos a : dltb d0 a = true -> 0 < d2R a.
Proof. intros H. apply dltb_R in H. rewrite d2R_0 in H. exact H. Qed.
Lemma d2R_ddotv u v : d2R (ddotv u v) = dot OpsR (vecR u) (vecR v).
Proof. unfold ddotv. apply d2R_dot. Qed.

Section Sound2.
Variable p : prob.
Let pr := probR_of p.
Variable exp_proved : bool.
Hypothesis exp_sound : exp_proved = true -> forall v, exp_ok v = true -> in_exp (vecR v).
Hypothesis exp_dual_sound : exp_proved = true -> forall v, exp_dual_ok v = true -> in_exp_dual (vecR v).
Variable psd_proved : bool.
Hypothesis psd_sound : psd_proved = true -> forall n v, psd_ok n v = true -> in_psd n (vecR v).
Variable powr_proved : bool.
Hypothesis powr_sound :
  powr_proved = true -> forall a v, pow_real_ok a v = true -> in_pow_real (d2R a) (vecR v).
Hypothesis powr_dual_sound :
  powr_proved = true -> forall a v, pow_real_dual_ok a v = true -> in_pow_real_dual (d2R a) (vecR v).
Hypothesis HK : forallb (certified_kind exp_proved psd_proved powr_proved) (p_K p) = true.

(** ** C02 *)
Theorem chk_farkas_p_sound ta tr c kap z :
  chk_farkas_p p ta tr c kap z = Holds ->
  length z = p_m p /\ dropped_zero pr (vecR z) /\ 0 < d2R c /\ 0 < d2R kap /\
  FarkasP pr (d2R ta) (d2R tr) (d2R c) (d2R kap) (vecR z).
Proof.
  unfold chk_farkas_p, farkas_p_parts. intros H. apply vall_holds in H.
  inversion H as [|? ? H1 H']; subst. inversion H' as [|? ? H2 H'']; subst.
  inversion H'' as [|? ? H3 H3']; subst. inversion H3' as [|? ? H4 _]; subst.
  apply ofb_holds in H1. apply andb_prop in H1. destruct H1 as [H1 Hk]. apply andb_prop in H1. destruct H1 as [H1 Hc].
  apply andb_prop in H1. destruct H1 as [Hl Hdz].
  apply Nat.eqb_eq in Hl. apply d2R_pos in Hc, Hk. apply dropped_zero_ok_sound in Hdz.
  repeat split; try assumption.
  - apply (chk_InK_sound exp_proved exp_sound exp_dual_sound psd_proved psd_sound powr_proved powr_sound powr_dual_sound true); assumption.
  - cbn [r_keep r_b pr probR_of]. apply tri_holds in H3. apply dltb_R in H3.
    rewrite !d2R_mul, d2R_neg, d2R_ddotv, !vecR_sel in H3. exact H3.
  - cbn [r_keep r_b r_A r_n pr probR_of]. apply tri_holds in H4. apply dltb_R in H4.
    rewrite !d2R_mul, d2R_max, d2R_1, d2R_mul, d2R_neg, d2R_ddotv in H4.
    rewrite <- !vecR_sel, <- matR_sel, <- vecR_mtv.
    eapply lt_norm_R; [apply nup_ge | exact H4 | apply Rmax_ge1 |].
    apply Rmax_mono_r. apply Rmult_le_compat_l; [lra | apply nlo_le].
Qed.

Theorem chk_farkas_d_sound ta tr c kap x s :
  chk_farkas_d p ta tr c kap x s = Holds ->
  length x = p_n p /\ length s = p_m p /\ 0 < d2R c /\ 0 < d2R kap /\
  FarkasD pr (d2R ta) (d2R tr) (d2R c) (d2R kap) (vecR x) (vecR s).
Proof.
  unfold chk_farkas_d, farkas_d_parts. intros H. apply vall_holds in H.
  inversion H as [|? ? H1 H']; subst. inversion H' as [|? ? H2 H'']; subst.
  inversion H'' as [|? ? H3 H3']; subst. inversion H3' as [|? ? H4 H4']; subst.
  inversion H4' as [|? ? H5 _]; subst.
  apply ofb_holds in H1. apply andb_prop in H1. destruct H1 as [H1 Hk]. apply andb_prop in H1. destruct H1 as [H1 Hc].
  apply andb_prop in H1. destruct H1 as [Hlx Hls].
  apply Nat.eqb_eq in Hlx, Hls. apply d2R_pos in Hc, Hk.
  repeat split; try assumption.
  - apply (chk_InK_sound exp_proved exp_sound exp_dual_sound psd_proved psd_sound powr_proved powr_sound powr_dual_sound false); assumption.
  - cbn [r_q pr probR_of]. apply tri_holds in H3. apply dltb_R in H3.
    rewrite !d2R_mul, d2R_neg, d2R_ddotv in H3. exact H3.
  - cbn [r_q r_P pr probR_of]. apply tri_holds in H4. apply dltb_R in H4.
    rewrite !d2R_mul, d2R_max, d2R_1, d2R_mul, d2R_neg, d2R_ddotv in H4.
    rewrite <- vecR_mv.
    eapply lt_norm_R; [apply nup_ge | exact H4 | apply Rmax_ge1 |].
    apply Rmax_mono_r. apply Rmult_le_compat_l; [lra | apply nlo_le].
  - cbn [r_q r_A r_keep pr probR_of]. apply tri_holds in H5. apply dltb_R in H5.
    rewrite !d2R_mul, d2R_max, d2R_1, d2R_mul, d2R_add, d2R_neg, d2R_ddotv in H5.
    rewrite <- !vecR_sel, <- matR_sel, <- vecR_mv, <- vecR_vadd.
    eapply lt_norm_R; [apply nup_ge | exact H5 | apply Rmax_ge1 |].
    apply Rmax_mono_r. apply Rmult_le_compat_l; [lra|].
    pose proof (nlo_le x). pose proof (nlo_le (sel (p_keep p) s)). lra.
Qed.

(** a certificate accepted by the checker has  b'z < 0  (resp. q'x < 0)  for nonnegative tolerance *)
Corollary chk_farkas_p_negative ta tr c kap z :
  0 <= d2R ta -> chk_farkas_p p ta tr c kap z = Holds ->
  dot OpsR (sel (p_keep p) (vecR (p_b p))) (sel (p_keep p) (vecR z)) < 0.
Proof.
  intros Hta H. apply chk_farkas_p_sound in H. destruct H as (_ & _ & Hc & Hk & (_ & H & _)).
  cbn [r_keep r_b pr probR_of] in H.
  set (bz := dot OpsR _ _) in *. assert (0 < d2R c * d2R kap) by nra. nra.
Qed.

(** ** C03 *)
Lemma close_R rho gam rep Mlo M Mup Rlo Rn Rup Alo An :
  0 <= rho <= 1 -> 0 <= gam -> 0 <= rep ->
  Mlo <= M <= Mup -> Rlo <= Rn <= Rup -> Alo <= An ->
  rep * Mup <= (1 + rho) * Rlo + gam * Alo ->
  (1 - rho) * Rup - gam * Alo <= rep * Mlo ->
  close_to rho gam rep M Rn An.
Proof.
  intros Hr Hg Hrep HM HR HA H1 H2. unfold close_to. split.
  - assert (rep * M <= rep * Mup) by (apply Rmult_le_compat_l; lra).
    assert ((1 + rho) * Rlo <= (1 + rho) * Rn) by (apply Rmult_le_compat_l; lra).
    assert (gam * Alo <= gam * An) by (apply Rmult_le_compat_l; lra). lra.
  - assert (rep * Mlo <= rep * M) by (apply Rmult_le_compat_l; lra).
    assert ((1 - rho) * Rn <= (1 - rho) * Rup) by (apply Rmult_le_compat_l; lra).
    assert (gam * Alo <= gam * An) by (apply Rmult_le_compat_l; lra). lra.
Qed.
Lemma rho30_range : 0 <= d2R rho30 <= 1.
Proof.
  split.
  - unfold rho30. apply d2R_D_nonneg. lia.
  - rewrite <- d2R_1. apply dleb_R. vm_compute. reflexivity.
Qed.
Lemma d2R_one_plus a : d2R (d1 +d a) = 1 + d2R a.
Proof. rewrite d2R_add, d2R_1. reflexivity. Qed.
Lemma d2R_one_minus a : d2R (d1 -d a) = 1 - d2R a.
Proof. rewrite d2R_sub, d2R_1. reflexivity. Qed.

Lemma chk_close_sound nu tau rep Mlo Mup Rlo Rup Alo M Rn An :
  chk_close p nu tau rep Mlo Mup Rlo Rup Alo = Holds ->
  (0 < d2R nu -> d2R Mlo <= M <= d2R Mup) -> d2R Rlo <= Rn <= d2R Rup -> d2R Alo <= An ->
  0 < d2R nu /\ 0 < d2R tau /\ close_to (d2R rho30) (d2R (gamma (p_n p))) (d2R rep) M Rn An.
Proof.
  unfold chk_close. intros H HM HR HA. apply ofb_holds in H.
  apply andb_prop in H. destruct H as [H H5]. apply andb_prop in H. destruct H as [H H4].
  apply andb_prop in H. destruct H as [H H3]. apply andb_prop in H. destruct H as [H1 H2].
  apply d2R_pos in H1, H2. apply dleb_R in H3, H4, H5. rewrite d2R_0 in H3.
  rewrite d2R_mul, d2R_add, !d2R_mul, d2R_one_plus in H4.
  rewrite d2R_mul, d2R_sub, !d2R_mul, d2R_one_minus in H5.
  split; [exact H1|]. split; [exact H2|].
  eapply close_R; try eassumption; auto using rho30_range, gamma_nonneg.
Qed.

Lemma Rmax_mono a b c : b <= c -> Rmax a b <= Rmax a c.
Proof. intros H. apply Rle_max_compat_l. exact H. Qed.

Theorem chk_res_p_sound nu tau rprim x sk :
  chk_res_p p nu tau rprim x sk = Holds ->
  0 < d2R nu /\ 0 < d2R tau /\
  ReportResP pr (d2R rho30) (d2R (gamma (p_n p))) (d2R nu) (d2R tau) (d2R rprim) (vecR x) (vecR sk).
Proof.
  unfold chk_res_p, ReportResP. intros H.
  eapply chk_close_sound in H.
  - exact H.
  - intros Hnu. rewrite !d2R_max, !d2R_add, !d2R_mul, d2R_dninf.
    cbn [r_keep r_b pr probR_of]. rewrite <- vecR_sel.
    pose proof (nlo_le x). pose proof (nup_ge x). pose proof (nlo_le sk). pose proof (nup_ge sk).
    split; apply Rmax_mono; nra.
  - unfold resv_p. cbn [r_keep r_b r_A pr probR_of].
    rewrite <- !vecR_sel, <- matR_sel, <- vecR_mv, <- vecR_vadd, <- !vecR_vscale, <- vecR_vsub.
    split; [apply nlo_le | apply nup_ge].
  - unfold scalev_p. cbn [r_keep r_b r_A pr probR_of].
    rewrite <- !vecR_sel, <- matR_sel, <- !vecR_vabs, <- matR_mabs, <- vecR_mv, <- vecR_vadd, <- !vecR_vscale, <- vecR_vadd.
    apply nlo_le.
Qed.

Theorem chk_res_d_sound nu tau rdual x zk :
  chk_res_d p nu tau rdual x zk = Holds ->
  0 < d2R nu /\ 0 < d2R tau /\
  ReportResD pr (d2R rho30) (d2R (gamma (p_n p))) (d2R nu) (d2R tau) (d2R rdual) (vecR x) (vecR zk).
Proof.
  unfold chk_res_d, ReportResD. intros H.
  eapply chk_close_sound in H.
  - exact H.
  - intros Hnu. rewrite !d2R_max, !d2R_add, !d2R_mul, d2R_dninf.
    cbn [r_q pr probR_of].
    pose proof (nlo_le x). pose proof (nup_ge x). pose proof (nlo_le zk). pose proof (nup_ge zk).
    split; apply Rmax_mono; nra.
  - unfold resv_d. cbn [r_keep r_q r_P r_A pr probR_of]. rewrite length_vecR.
    rewrite <- matR_sel, <- vecR_mv, <- vecR_mtv, <- vecR_vadd, <- !vecR_vscale, <- vecR_vadd.
    split; [apply nlo_le | apply nup_ge].
  - unfold scalev_d. cbn [r_keep r_q r_P r_A pr probR_of]. rewrite length_vecR.
    rewrite <- matR_sel, <- !vecR_vabs, <- !matR_mabs, <- vecR_mv, <- vecR_mtv, <- vecR_vadd, <- !vecR_vscale, <- vecR_vadd.
    apply nlo_le.
Qed.

Theorem chk_obj_p_sound objp x :
  chk_obj_p p objp x = Holds -> ReportObjP pr (d2R rho30) (d2R objp) (vecR x).
Proof.
  unfold chk_obj_p, ReportObjP. intros H. apply ofb_holds in H. apply dleb_R in H.
  rewrite d2R_abs, d2R_sub, !d2R_mul, d2R_cost_p2, d2R_scale_cp in H.
  unfold dtwo in H. rewrite d2R_D1 in H. exact H.
Qed.
Theorem chk_obj_d_sound objd x zk :
  chk_obj_d p objd x zk = Holds -> ReportObjD pr (d2R rho30) (d2R objd) (vecR x) (vecR zk).
Proof.
  unfold chk_obj_d, ReportObjD. intros H. apply ofb_holds in H. apply dleb_R in H.
  rewrite d2R_abs, d2R_sub, !d2R_mul, d2R_cost_d2, d2R_scale_cd in H.
  unfold dtwo in H. rewrite d2R_D1 in H.
  cbn [r_keep r_b r_P pr probR_of]. rewrite <- vecR_sel. exact H.
Qed.

(** the whole report of a run that did not end in an infeasibility status *)
Definition ReportNonInf (se : setD) (o : outD) : Prop :=
  exists objp objd rp rd,
    o_objp o = Fin objp /\ o_objd o = Fin objd /\ o_rprim o = Fin rp /\ o_rdual o = Fin rd /\
    lengths_ok pr (vecR (o_x o)) (vecR (o_s o)) (vecR (o_z o)) /\
    (o_iter o <= s_maxit se)%N /\
    let sk := vecR (sel (p_keep p) (o_s o)) in let zk := vecR (sel (p_keep p) (o_z o)) in
    let rho := d2R rho30 in let gam := d2R (gamma (p_n p)) in
    ReportObjP pr rho (d2R objp) (vecR (o_x o)) /\ ReportObjD pr rho (d2R objd) (vecR (o_x o)) zk /\
    ReportResP pr rho gam 1 1 (d2R rp) (vecR (o_x o)) sk /\
    ReportResD pr rho gam 1 1 (d2R rd) (vecR (o_x o)) zk /\
    (o_st o = St_AlmostSolved ->
       TermTest pr (d2R (s_rf se)) (d2R (s_rga se)) (d2R (s_rgr se)) (vecR (o_x o)) (vecR (o_s o)) (vecR (o_z o))).

Theorem case_report_sound_noninf se o :
  is_infeasible (o_st o) = false -> case_report p se o = Holds -> ReportNonInf se o.
Proof.
  intros Hinf H. unfold case_report, case_report_parts in H. rewrite Hinf in H.
  apply vall_holds in H.
  inversion H as [|? ? H1 H']; subst. inversion H' as [|? ? H2 H'']; subst.
  inversion H'' as [|? ? H3 H3']; subst. inversion H3' as [|? ? H4 H4']; subst.
  inversion H4' as [|? ? H5 _]; subst.
  apply vand_holds in H3. destruct H3 as [H3a H3b].
  cbn [andb] in H4. apply vand_holds in H4. destruct H4 as [H4a H4b].
  destruct (o_objp o) as [objp| |] eqn:E1; cbn [is_fin fin] in H3a; try discriminate.
  destruct (o_objd o) as [objd| |] eqn:E2; cbn [is_fin fin] in H3b; try discriminate.
  destruct (o_rprim o) as [rp| |] eqn:E3; cbn [is_fin fin] in H4a; try discriminate.
  destruct (o_rdual o) as [rd| |] eqn:E4; cbn [is_fin fin] in H4b; try discriminate.
  apply chk_lengths_sound in H1.
  apply ofb_holds in H2. apply N.leb_le in H2.
  apply chk_obj_p_sound in H3a. apply chk_obj_d_sound in H3b.
  apply chk_res_p_sound in H4a. apply chk_res_d_sound in H4b. rewrite d2R_1 in H4a, H4b.
  destruct H4a as (_ & _ & H4a). destruct H4b as (_ & _ & H4b).
  exists objp, objd, rp, rd.
  split; [exact E1|]. split; [exact E2|]. split; [exact E3|]. split; [exact E4|].
  split; [exact H1|]. split; [exact H2|].
  cbn zeta.
  split; [exact H3a|]. split; [exact H3b|]. split; [exact H4a|]. split; [exact H4b|].
  intros Hst. rewrite Hst in H5.
  apply (chk_termtest_sound_gen p exp_proved exp_sound exp_dual_sound psd_proved psd_sound powr_proved powr_sound powr_dual_sound); assumption.
Qed.
End Sound2.
