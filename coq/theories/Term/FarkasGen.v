(** Term/FarkasGen.v — the Farkas / unboundedness theorems of Farkas.v for ARBITRARY products of
    cones, parametrised by two per-kind facts:
      [pair_kind k] : s in k -> z in k* -> 0 <= <s,z>          (dual-cone pairing)
      [ray_kind k]  : a, b in k, t >= 0 -> a + t b in k          (convex cone)
    FarkasAll.v discharges them for every cone kind of the development. *)
From Coq Require Import List ZArith Reals Lra Lia Bool.
Import ListNotations.
Require Import Clarabel.Base.Ops Clarabel.Term.Eval Clarabel.Term.Spec Clarabel.Term.Farkas.
Local Open Scope R_scope.

Definition pair_kind (k : coneD) : Prop :=
  forall s z : list R, in_cone k s -> in_dual k z -> 0 <= dot OpsR s z.
Definition ray_kind (k : coneD) : Prop :=
  forall (a b : list R) (t : R), 0 <= t -> in_cone k a -> in_cone k b ->
    in_cone k (vadd OpsR a (vscale OpsR t b)).

Lemma pair_kind_sym k : sym_cone k = true -> pair_kind k.
Proof. intros Hk s z Hs Hz. apply (pair_cone k); assumption. Qed.
Lemma ray_kind_sym k : sym_cone k = true -> ray_kind k.
Proof. intros Hk a b t Ht Ha Hb. apply cone_ray; assumption. Qed.

Lemma pair_K_gen (K : list coneD) (s z : list R) :
  Forall pair_kind K -> InK K s -> InKdual K z ->
  length s = cones_dim K -> length s = length z ->
  0 <= dot OpsR s z.
Proof.
  unfold InK, InKdual, cones_dim.
  revert s z; induction K as [|k K IH]; intros s z HP Hs Hz Hdim Hlen.
  - simpl in Hdim. destruct s; simpl in Hdim; try discriminate. rewrite dot_nil_l; lra.
  - inversion HP as [|? ? Hk HK]; subst.
    simpl in Hs, Hz, Hdim.
    inversion Hs as [|? ? Hs1 Hs2]; subst. inversion Hz as [|? ? Hz1 Hz2]; subst.
    simpl in Hs1, Hz1.
    rewrite <- (firstn_skipn (cone_dim k) s), <- (firstn_skipn (cone_dim k) z).
    assert (Hl1 : length (firstn (cone_dim k) s) = length (firstn (cone_dim k) z)).
    { destruct Hs1 as [E1 _]. destruct Hz1 as [E2 _]. congruence. }
    rewrite dot_app by exact Hl1.
    apply Rplus_le_le_0_compat.
    + apply Hk; assumption.
    + apply IH; try assumption.
      * rewrite skipn_length. lia.
      * rewrite !skipn_length. lia.
Qed.

Lemma InK_ray_gen (K : list coneD) (a b : list R) (t : R) :
  Forall ray_kind K -> 0 <= t -> length a = length b ->
  InK K a -> InK K b -> InK K (vadd OpsR a (vscale OpsR t b)).
Proof.
  unfold InK. intros HK Ht.
  revert a b; induction K as [|k K IH]; intros a b Hlen Ha Hb.
  - apply Forall_nil.
  - inversion HK as [|? ? Hk HK']; subst.
    simpl in Ha, Hb. simpl chunks.
    inversion Ha as [|? ? Ha1 Ha2]; subst. inversion Hb as [|? ? Hb1 Hb2]; subst.
    simpl in Ha1, Hb1.
    apply Forall_cons.
    + simpl. rewrite firstn_ray. apply Hk; assumption.
    + rewrite skipn_ray by exact Hlen. apply IH; try assumption.
      rewrite !skipn_length. lia.
Qed.

Section FarkasGen.
Variable p : probRr.
Hypothesis Hpair : Forall pair_kind (r_K p).
Hypothesis Hcols : cols_lt (r_A p) (r_n p).
Hypothesis HlenA : length (r_A p) = r_m p.
Hypothesis Hdim : cones_dim (r_K p) = r_m p.

Lemma farkas_identity_gen (x s z : list R) :
  length x = r_n p -> length s = r_m p -> length z = r_m p ->
  vadd OpsR (mv OpsR (r_A p) x) s = r_b p ->
  dot OpsR (r_b p) z = dot OpsR x (mtv OpsR (r_A p) z (r_n p)) + dot OpsR s z.
Proof.
  intros Hx Hs Hz Hb.
  rewrite <- Hb.
  rewrite dot_vadd_l by (rewrite mv_length; lia).
  rewrite (mv_mtv_adjoint (r_A p) x z (r_n p)) by (try assumption; lia).
  reflexivity.
Qed.

Theorem farkas_sound_gen (z : list R) :
  length z = r_m p -> InKdual (r_K p) z ->
  mtv OpsR (r_A p) z (r_n p) = repeat 0 (r_n p) ->
  dot OpsR (r_b p) z < 0 ->
  ~ primal_feasible p.
Proof.
  intros Hz HzK HAtz Hbz [x [s [Hx [Hs [Hb HsK]]]]].
  pose proof (farkas_identity_gen x s z Hx Hs Hz Hb) as E.
  rewrite HAtz, dot_repeat0_r in E.
  assert (Hp : 0 <= dot OpsR s z) by (apply (pair_K_gen (r_K p)); try assumption; lia).
  lra.
Qed.

Theorem farkas_quantitative_gen (z : list R) (delta : R) :
  length z = r_m p -> InKdual (r_K p) z ->
  norm2 (mtv OpsR (r_A p) z (r_n p)) <= delta ->
  forall x s : list R,
    length x = r_n p -> length s = r_m p ->
    vadd OpsR (mv OpsR (r_A p) x) s = r_b p -> InK (r_K p) s ->
    - dot OpsR (r_b p) z <= delta * norm2 x.
Proof.
  intros Hz HzK Hdelta x s Hx Hs Hb HsK.
  pose proof (farkas_identity_gen x s z Hx Hs Hz Hb) as E.
  assert (Hp : 0 <= dot OpsR s z) by (apply (pair_K_gen (r_K p)); try assumption; lia).
  pose proof (cauchy_schwarz_norm x (mtv OpsR (r_A p) z (r_n p))) as CS.
  pose proof (norm2_nonneg x) as Hnx.
  pose proof (norm2_nonneg (mtv OpsR (r_A p) z (r_n p))) as Hnz.
  set (d := dot OpsR x (mtv OpsR (r_A p) z (r_n p))) in *.
  set (nz := norm2 (mtv OpsR (r_A p) z (r_n p))) in *.
  assert (Habs : - d <= Rabs d) by (rewrite <- Rabs_Ropp; apply Rle_abs).
  assert (Hmul : norm2 x * nz <= norm2 x * delta) by (apply Rmult_le_compat_l; assumption).
  lra.
Qed.
End FarkasGen.

Section UnboundedGen.
Variable p : probRr.
Hypothesis Hray : Forall ray_kind (r_K p).
Hypothesis HlenA : length (r_A p) = r_m p.
Hypothesis HPsym : smat_sym (r_P p) (r_n p).

Lemma ray_feasible_gen (x s x0 s0 : list R) (t : R) :
  recession p x s -> 0 <= t ->
  length x0 = r_n p -> length s0 = r_m p ->
  vadd OpsR (mv OpsR (r_A p) x0) s0 = r_b p -> InK (r_K p) s0 ->
  let x1 := vadd OpsR x0 (vscale OpsR t x) in
  let s1 := vadd OpsR s0 (vscale OpsR t s) in
  length x1 = r_n p /\ length s1 = r_m p /\
  vadd OpsR (mv OpsR (r_A p) x1) s1 = r_b p /\ InK (r_K p) s1.
Proof.
  intros [Hx [Hs [HPx [HAx HsK]]]] Ht Hx0 Hs0 Hb0 Hs0K x1 s1. subst x1 s1.
  split; [ | split; [ | split]].
  - rewrite vadd_length by (rewrite vscale_length; lia). exact Hx0.
  - rewrite vadd_length by (rewrite vscale_length; lia). exact Hs0.
  - rewrite mv_ray by lia.
    rewrite vadd_ray4 by (rewrite ?mv_length; lia).
    rewrite HAx, Hb0.
    assert (Hlb : length (r_b p) = r_m p).
    { rewrite <- Hb0. rewrite vadd_length by (rewrite mv_length; lia).
      rewrite mv_length. exact HlenA. }
    rewrite <- Hlb. apply vadd_scaled_zeros.
  - apply InK_ray_gen; try assumption. lia.
Qed.

Theorem unbounded_sound_gen (x s x0 s0 : list R) :
  recession p x s -> dot OpsR (r_q p) x < 0 ->
  length x0 = r_n p -> length s0 = r_m p ->
  vadd OpsR (mv OpsR (r_A p) x0) s0 = r_b p -> InK (r_K p) s0 ->
  forall t : R, 0 <= t ->
    let x1 := vadd OpsR x0 (vscale OpsR t x) in
    let s1 := vadd OpsR s0 (vscale OpsR t s) in
    (length x1 = r_n p /\ length s1 = r_m p /\
     vadd OpsR (mv OpsR (r_A p) x1) s1 = r_b p /\ InK (r_K p) s1) /\
    cost_p p x1 = cost_p p x0 + t * dot OpsR (r_q p) x.
Proof.
  intros Hrec Hq Hx0 Hs0 Hb0 Hs0K t Ht x1 s1. split.
  - apply ray_feasible_gen; assumption.
  - destruct Hrec as [Hx [_ [HPx _]]]. apply (ray_cost p HlenA HPsym); assumption.
Qed.
End UnboundedGen.
