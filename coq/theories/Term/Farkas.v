(** Term/Farkas.v — soundness of the infeasibility certificates over the reals.
    Dual-cone pairing for the self-dual cones (zero/nonnegative/second-order), the adjoint
    identity (A x).z = x.(A'z) for sparse-row matrices, and from these: a Farkas certificate
    refutes primal feasibility (exactly, and quantitatively when A'z is only small). *)
From Coq Require Import List ZArith NArith Bool Arith Reals Lra Lia Psatz.
Import ListNotations.
Require Import Clarabel.Base.Ops Clarabel.Term.Eval Clarabel.Term.Spec.
Local Open Scope R_scope.

(** * Sums and dot products at [OpsR] *)
Lemma fold_Rplus_acc (l : list R) (a : R) :
  fold_left Rplus l a = a + fold_left Rplus l 0.
Proof.
  revert a; induction l as [|h l IH]; intro a; simpl.
  - lra.
  - rewrite (IH (a + h)), (IH (0 + h)). lra.
Qed.

Lemma vsum_nil : vsum OpsR [] = 0.
Proof. reflexivity. Qed.

Lemma vsum_cons (a : R) (l : list R) : vsum OpsR (a :: l) = a + vsum OpsR l.
Proof.
  unfold vsum; simpl. rewrite fold_Rplus_acc. lra.
Qed.

Lemma dot_nil_l (y : list R) : dot OpsR [] y = 0.
Proof. reflexivity. Qed.

Lemma dot_nil_r (x : list R) : dot OpsR x [] = 0.
Proof. destruct x; reflexivity. Qed.

Lemma dot_cons (a b : R) (x y : list R) :
  dot OpsR (a :: x) (b :: y) = a * b + dot OpsR x y.
Proof.
  unfold dot; simpl combine; simpl map. apply vsum_cons.
Qed.

Lemma sumsq_nil : sumsq OpsR [] = 0.
Proof. reflexivity. Qed.

Lemma sumsq_cons (a : R) (x : list R) : sumsq OpsR (a :: x) = a * a + sumsq OpsR x.
Proof. unfold sumsq; apply dot_cons. Qed.

Lemma sumsq_nonneg (x : list R) : 0 <= sumsq OpsR x.
Proof.
  induction x as [|a x IH].
  - rewrite sumsq_nil; lra.
  - rewrite sumsq_cons. nra.
Qed.

Lemma dot_comm (x y : list R) : dot OpsR x y = dot OpsR y x.
Proof.
  revert y; induction x as [|a x IH]; intros [|b y].
  - reflexivity.
  - reflexivity.
  - reflexivity.
  - rewrite !dot_cons, (IH y). ring.
Qed.

Lemma dot_app (a b c d : list R) :
  length a = length c ->
  dot OpsR (a ++ b) (c ++ d) = dot OpsR a c + dot OpsR b d.
Proof.
  revert c; induction a as [|h a IH]; intros [|k c] Hlen; simpl in Hlen; try discriminate.
  - simpl. rewrite dot_nil_l. lra.
  - simpl app. rewrite !dot_cons, IH by lia. lra.
Qed.

Lemma dot_vadd_l (u v z : list R) :
  length u = length v ->
  dot OpsR (vadd OpsR u v) z = dot OpsR u z + dot OpsR v z.
Proof.
  revert v z; induction u as [|a u IH]; intros [|b v] z Hlen; simpl in Hlen; try discriminate.
  - unfold vadd; simpl. rewrite !dot_nil_l. lra.
  - destruct z as [|c z].
    + rewrite !dot_nil_r. lra.
    + change (vadd OpsR (a :: u) (b :: v)) with ((a + b) :: vadd OpsR u v).
      rewrite !dot_cons, IH by lia. lra.
Qed.

Lemma dot_repeat0_r (x : list R) (n : nat) : dot OpsR x (repeat 0 n) = 0.
Proof.
  revert n; induction x as [|a x IH]; intros [|n]; simpl repeat.
  - reflexivity.
  - reflexivity.
  - apply dot_nil_r.
  - rewrite dot_cons, IH. lra.
Qed.

(** * Cauchy-Schwarz *)
Lemma quad_nonneg (a b : R) (w v : list R) :
  0 <= a * a * sumsq OpsR w + 2 * a * b * dot OpsR w v + b * b * sumsq OpsR v.
Proof.
  revert v; induction w as [|h w IH]; intros v.
  - rewrite dot_nil_l, sumsq_nil. pose proof (sumsq_nonneg v) as Hv. nra.
  - destruct v as [|k v].
    + rewrite dot_nil_r, sumsq_nil. pose proof (sumsq_nonneg (h :: w)) as Hw. nra.
    + rewrite !sumsq_cons, dot_cons. pose proof (IH v) as Hq.
      pose proof (Rle_0_sqr (a * h + b * k)) as Hsq. unfold Rsqr in Hsq.
      match goal with |- 0 <= ?g =>
        replace g with ((a * a * sumsq OpsR w + 2 * a * b * dot OpsR w v + b * b * sumsq OpsR v)
                        + (a * h + b * k) * (a * h + b * k)) by ring end.
      lra.
Qed.

Lemma cauchy_schwarz_sq (w v : list R) :
  dot OpsR w v * dot OpsR w v <= sumsq OpsR w * sumsq OpsR v.
Proof.
  pose proof (quad_nonneg) as Q. specialize (fun a b => Q a b w v).
  pose proof (sumsq_nonneg w) as Hw. pose proof (sumsq_nonneg v) as Hv.
  set (d := dot OpsR w v) in *. set (sw := sumsq OpsR w) in *. set (sv := sumsq OpsR v) in *.
  destruct (Req_dec sv 0) as [Hsv0 | Hsv0].
  - destruct (Req_dec d 0) as [Hd0 | Hd0].
    + rewrite Hd0. nra.
    + exfalso. pose proof (Q 1 (- (sw + 1) / (2 * d))) as Q1.
      assert (E : 2 * 1 * (- (sw + 1) / (2 * d)) * d = - (sw + 1)) by (field; exact Hd0).
      rewrite E, Hsv0 in Q1. lra.
  - assert (Hsvp : 0 < sv) by lra.
    pose proof (Q sv (- d)) as Q1.
    assert (E : sv * sv * sw + 2 * sv * - d * d + - d * - d * sv = sv * (sw * sv - d * d)) by ring.
    rewrite E in Q1.
    destruct (Rle_dec (d * d) (sw * sv)) as [Hle | Hnle]; [exact Hle | exfalso].
    assert (Hneg : sw * sv - d * d < 0) by lra.
    assert (Hprod : sv * (sw * sv - d * d) < 0).
    { replace 0 with (sv * 0) by ring. apply Rmult_lt_compat_l; assumption. }
    lra.
Qed.

Lemma cauchy_schwarz_norm (x y : list R) : Rabs (dot OpsR x y) <= norm2 x * norm2 y.
Proof.
  unfold norm2.
  rewrite <- sqrt_mult by apply sumsq_nonneg.
  rewrite <- sqrt_Rsqr_abs.
  apply sqrt_le_1_alt. unfold Rsqr. apply cauchy_schwarz_sq.
Qed.

Lemma norm2_nonneg (x : list R) : 0 <= norm2 x.
Proof. unfold norm2. apply sqrt_pos. Qed.

(** bound on the cross term of two second-order-cone points *)
Lemma soc_cross_bound (t u : R) (w v : list R) :
  0 <= t -> sumsq OpsR w <= t * t -> 0 <= u -> sumsq OpsR v <= u * u ->
  - (t * u) <= dot OpsR w v <= t * u.
Proof.
  intros Ht Hw Hu Hv.
  pose proof (cauchy_schwarz_sq w v) as CS.
  pose proof (sumsq_nonneg w) as Hw0. pose proof (sumsq_nonneg v) as Hv0.
  set (d := dot OpsR w v) in *. set (sw := sumsq OpsR w) in *. set (sv := sumsq OpsR v) in *.
  assert (H1 : sw * sv <= (t * t) * (u * u)).
  { apply Rmult_le_compat; assumption. }
  assert (H2 : d * d <= (t * u) * (t * u)) by nra.
  assert (Htu : 0 <= t * u) by (apply Rmult_le_pos; assumption).
  split.
  - destruct (Rle_dec (- (t * u)) d) as [Hle | Hnle]; [exact Hle | exfalso].
    assert (Hlt : t * u < - d) by lra.
    assert (Hsq : (t * u) * (t * u) < (- d) * (- d)).
    { apply Rmult_le_0_lt_compat; assumption. }
    nra.
  - destruct (Rle_dec d (t * u)) as [Hle | Hnle]; [exact Hle | exfalso].
    assert (Hlt : t * u < d) by lra.
    assert (Hsq : (t * u) * (t * u) < d * d).
    { apply Rmult_le_0_lt_compat; assumption. }
    nra.
Qed.

(** * Dual-cone pairings *)
Lemma pair_nn (s z : list R) :
  in_nn s -> in_nn z -> length s = length z -> 0 <= dot OpsR s z.
Proof.
  unfold in_nn. revert z; induction s as [|a s IH]; intros [|b z] Hs Hz Hlen;
    simpl in Hlen; try discriminate.
  - rewrite dot_nil_l; lra.
  - inversion Hs as [|? ? Ha Hs']; subst. inversion Hz as [|? ? Hb Hz']; subst.
    rewrite dot_cons. assert (IH' : 0 <= dot OpsR s z) by (apply IH; auto).
    nra.
Qed.

Lemma pair_zero (s z : list R) : in_zero s -> dot OpsR s z = 0.
Proof.
  unfold in_zero. revert z; induction s as [|a s IH]; intros [|b z] Hs.
  - reflexivity.
  - reflexivity.
  - apply dot_nil_r.
  - inversion Hs as [|? ? Ha Hs']; subst. rewrite dot_cons, (IH z Hs'). ring.
Qed.

Lemma pair_soc (s z : list R) :
  in_soc s -> in_soc z -> length s = length z -> 0 <= dot OpsR s z.
Proof.
  intros Hs Hz Hlen.
  destruct s as [|t w]; destruct z as [|u v]; simpl in Hlen; try discriminate.
  - rewrite dot_nil_l; lra.
  - simpl in Hs, Hz. destruct Hs as [Ht Hw]. destruct Hz as [Hu Hv].
    rewrite dot_cons.
    pose proof (soc_cross_bound t u w v Ht Hw Hu Hv) as [Hlo Hhi]. lra.
Qed.

(** cones whose dual pairing is proved here *)
Definition sym_cone (k : coneD) : bool :=
  match k with KZero _ | KNN _ | KSOC _ => true | _ => false end.
Definition sym_only (K : list coneD) : Prop := forallb sym_cone K = true.
(** total dimension of a cone list *)
Definition cones_dim (K : list coneD) : nat := list_sum (map cone_dim K).

Lemma pair_cone (k : coneD) (s z : list R) :
  sym_cone k = true -> in_cone k s -> in_dual k z -> 0 <= dot OpsR s z.
Proof.
  intros Hk [Hls Hs] [Hlz Hz].
  assert (Hlen : length s = length z) by congruence.
  destruct k; simpl in Hk; try discriminate.
  - rewrite (pair_zero s z Hs). lra.
  - apply pair_nn; assumption.
  - apply pair_soc; assumption.
Qed.

(** NOTE: [InK K s] says nothing about the entries of [s] beyond the total cone dimension, so
    the length of [s] has to be tied to [cones_dim K]. *)
Lemma pair_K (K : list coneD) (s z : list R) :
  sym_only K -> InK K s -> InKdual K z ->
  length s = cones_dim K -> length s = length z ->
  0 <= dot OpsR s z.
Proof.
  unfold sym_only, InK, InKdual, cones_dim.
  revert s z; induction K as [|k K IH]; intros s z Hsym Hs Hz Hdim Hlen.
  - simpl in Hdim. destruct s; simpl in Hdim; try discriminate. rewrite dot_nil_l; lra.
  - simpl in Hsym. apply andb_prop in Hsym. destruct Hsym as [Hk HK].
    simpl in Hs, Hz, Hdim.
    inversion Hs as [|? ? Hs1 Hs2]; subst. inversion Hz as [|? ? Hz1 Hz2]; subst.
    simpl in Hs1, Hz1.
    rewrite <- (firstn_skipn (cone_dim k) s), <- (firstn_skipn (cone_dim k) z).
    assert (Hl1 : length (firstn (cone_dim k) s) = length (firstn (cone_dim k) z)).
    { destruct Hs1 as [E1 _]. destruct Hz1 as [E2 _]. congruence. }
    rewrite dot_app by exact Hl1.
    apply Rplus_le_le_0_compat.
    + apply (pair_cone k); assumption.
    + apply IH; try assumption.
      * rewrite skipn_length. lia.
      * rewrite !skipn_length. lia.
Qed.

(** * Adjoint identity for sparse-row matrices *)
Definition cols_lt (A : smat R) (n : nat) : Prop :=
  Forall (fun r => Forall (fun e => (fst e < n)%nat) r) A.

Lemma rdot_nil (x : list R) : rdot OpsR [] x = 0.
Proof. reflexivity. Qed.

Lemma rdot_cons (j : nat) (a : R) (r : srow R) (x : list R) :
  rdot OpsR ((j, a) :: r) x = a * nth j x 0 + rdot OpsR r x.
Proof. unfold rdot; simpl map. apply vsum_cons. Qed.

Lemma rget_nil (j : nat) : rget OpsR [] j = 0.
Proof. reflexivity. Qed.

Lemma rget_cons (j0 : nat) (a : R) (r : srow R) (j : nat) :
  rget OpsR ((j0, a) :: r) j = (if Nat.eqb j0 j then a else 0) + rget OpsR r j.
Proof. unfold rget; simpl map. apply vsum_cons. Qed.

Lemma dot_map_add (x : list R) (l : list nat) (f g : nat -> R) :
  dot OpsR x (map (fun j => f j + g j) l) = dot OpsR x (map f l) + dot OpsR x (map g l).
Proof.
  revert l; induction x as [|a x IH]; intros [|j l]; simpl map.
  - rewrite !dot_nil_l; lra.
  - rewrite !dot_nil_l; lra.
  - rewrite !dot_nil_r; lra.
  - rewrite !dot_cons, IH. ring.
Qed.

Lemma dot_map_scale (x : list R) (l : list nat) (f : nat -> R) (c : R) :
  dot OpsR x (map (fun j => f j * c) l) = dot OpsR x (map f l) * c.
Proof.
  revert l; induction x as [|a x IH]; intros [|j l]; simpl map.
  - rewrite !dot_nil_l; lra.
  - rewrite !dot_nil_l; lra.
  - rewrite !dot_nil_r; lra.
  - rewrite !dot_cons, IH. ring.
Qed.

Lemma dot_map_zero (x : list R) (l : list nat) :
  dot OpsR x (map (fun _ => 0) l) = 0.
Proof.
  revert l; induction x as [|a x IH]; intros [|j l]; simpl map.
  - reflexivity.
  - reflexivity.
  - apply dot_nil_r.
  - rewrite dot_cons, IH. ring.
Qed.

Lemma dot_unit_out (j0 : nat) (a : R) (x : list R) (s k : nat) :
  (j0 < s)%nat ->
  dot OpsR x (map (fun j => if Nat.eqb j0 j then a else 0) (seq s k)) = 0.
Proof.
  revert s k; induction x as [|h x IH]; intros s [|k] Hlt; simpl seq; simpl map.
  - reflexivity.
  - reflexivity.
  - apply dot_nil_r.
  - rewrite dot_cons, IH by lia.
    assert (E : Nat.eqb j0 s = false) by (apply Nat.eqb_neq; lia).
    rewrite E. ring.
Qed.

Lemma dot_unit_in (j0 : nat) (a : R) (x : list R) (s : nat) :
  (s <= j0)%nat -> (j0 < s + length x)%nat ->
  dot OpsR x (map (fun j => if Nat.eqb j0 j then a else 0) (seq s (length x)))
  = a * nth (j0 - s) x 0.
Proof.
  revert s; induction x as [|h x IH]; intros s Hle Hlt; simpl length in *.
  - lia.
  - simpl seq; simpl map. rewrite dot_cons.
    destruct (Nat.eqb j0 s) eqn:E.
    + apply Nat.eqb_eq in E. subst s.
      rewrite dot_unit_out by lia. rewrite Nat.sub_diag. simpl. ring.
    + apply Nat.eqb_neq in E.
      rewrite IH by lia.
      replace (j0 - s)%nat with (S (j0 - S s)) by lia. simpl. ring.
Qed.

(** sparse row . x  =  sum_j (entry j) * x_j *)
Lemma rdot_as_dot (r : srow R) (x : list R) :
  Forall (fun e => (fst e < length x)%nat) r ->
  rdot OpsR r x = dot OpsR x (map (rget OpsR r) (seq 0 (length x))).
Proof.
  induction r as [|[j0 a] r IH]; intros Hr.
  - rewrite rdot_nil.
    rewrite (map_ext (rget OpsR []) (fun _ => 0) rget_nil), dot_map_zero. reflexivity.
  - inversion Hr as [|? ? Hj Hr']; subst. simpl in Hj.
    rewrite rdot_cons, (IH Hr').
    rewrite (map_ext (rget OpsR ((j0, a) :: r))
                     (fun j => (if Nat.eqb j0 j then a else 0) + rget OpsR r j)
                     (rget_cons j0 a r)).
    rewrite dot_map_add, (dot_unit_in j0 a x 0) by lia.
    rewrite Nat.sub_0_r. reflexivity.
Qed.

Lemma mv_length (A : smat R) (x : list R) : length (mv OpsR A x) = length A.
Proof. unfold mv; apply map_length. Qed.

Lemma mtv_length (A : smat R) (z : list R) (n : nat) : length (mtv OpsR A z n) = n.
Proof. unfold mtv; rewrite map_length; apply seq_length. Qed.

Lemma mv_mtv_adjoint (A : smat R) (x z : list R) (n : nat) :
  cols_lt A n -> length x = n -> length z = length A ->
  dot OpsR (mv OpsR A x) z = dot OpsR x (mtv OpsR A z n).
Proof.
  unfold cols_lt. intros HA Hx. subst n.
  revert z; induction A as [|r A IH]; intros z Hz.
  - unfold mv, mtv; simpl map at 1. rewrite dot_nil_l.
    rewrite (map_ext (fun j => dot OpsR (map (fun r0 : srow R => rget OpsR r0 j) []) z)
                     (fun _ => 0)) by (intro j; reflexivity).
    rewrite dot_map_zero. reflexivity.
  - destruct z as [|c z]; simpl in Hz; try discriminate.
    inversion HA as [|? ? Hr HA']; subst.
    unfold mv; simpl map. fold (mv OpsR A x). rewrite dot_cons.
    rewrite (IH HA' z) by lia.
    unfold mtv.
    rewrite (map_ext (fun j => dot OpsR (map (fun r0 : srow R => rget OpsR r0 j) (r :: A)) (c :: z))
                     (fun j => rget OpsR r j * c
                               + dot OpsR (map (fun r0 : srow R => rget OpsR r0 j) A) z))
      by (intro j; simpl map; apply dot_cons).
    rewrite dot_map_add, dot_map_scale.
    rewrite (rdot_as_dot r x Hr). reflexivity.
Qed.

(** * Farkas certificates refute primal feasibility *)
Section Farkas.
Variable p : probRr.
Hypothesis Hsym : sym_only (r_K p).
Hypothesis Hcols : cols_lt (r_A p) (r_n p).
Hypothesis HlenA : length (r_A p) = r_m p.
Hypothesis Hdim : cones_dim (r_K p) = r_m p.

(** b.z = x.(A'z) + s.z  at every feasible (x, s) *)
Lemma farkas_identity (x s z : list R) :
  length x = r_n p -> length s = r_m p -> length z = r_m p ->
  vadd OpsR (mv OpsR (r_A p) x) s = r_b p ->
  dot OpsR (r_b p) z = dot OpsR x (mtv OpsR (r_A p) z (r_n p)) + dot OpsR s z.
Proof.
  intros Hx Hs Hz Hb.
  rewrite <- Hb.
  rewrite dot_vadd_l by (rewrite mv_length; lia).
  rewrite (mv_mtv_adjoint (r_A p) x z (r_n p)) by (try assumption; lia).
  reflexivity.
Qed.

Lemma farkas_pair_nonneg (s z : list R) :
  length s = r_m p -> length z = r_m p ->
  InK (r_K p) s -> InKdual (r_K p) z -> 0 <= dot OpsR s z.
Proof.
  intros Hs Hz HsK HzK.
  apply (pair_K (r_K p)); try assumption; lia.
Qed.

Theorem farkas_sound (z : list R) :
  length z = r_m p -> InKdual (r_K p) z ->
  mtv OpsR (r_A p) z (r_n p) = repeat 0 (r_n p) ->
  dot OpsR (r_b p) z < 0 ->
  ~ primal_feasible p.
Proof.
  intros Hz HzK HAtz Hbz [x [s [Hx [Hs [Hb HsK]]]]].
  pose proof (farkas_identity x s z Hx Hs Hz Hb) as E.
  rewrite HAtz, dot_repeat0_r in E.
  pose proof (farkas_pair_nonneg s z Hs Hz HsK HzK) as Hp.
  lra.
Qed.

Theorem farkas_quantitative (z : list R) (delta : R) :
  length z = r_m p -> InKdual (r_K p) z ->
  norm2 (mtv OpsR (r_A p) z (r_n p)) <= delta ->
  forall x s : list R,
    length x = r_n p -> length s = r_m p ->
    vadd OpsR (mv OpsR (r_A p) x) s = r_b p -> InK (r_K p) s ->
    - dot OpsR (r_b p) z <= delta * norm2 x.
Proof.
  intros Hz HzK Hdelta x s Hx Hs Hb HsK.
  pose proof (farkas_identity x s z Hx Hs Hz Hb) as E.
  pose proof (farkas_pair_nonneg s z Hs Hz HsK HzK) as Hp.
  pose proof (cauchy_schwarz_norm x (mtv OpsR (r_A p) z (r_n p))) as CS.
  pose proof (norm2_nonneg x) as Hnx.
  pose proof (norm2_nonneg (mtv OpsR (r_A p) z (r_n p))) as Hnz.
  set (d := dot OpsR x (mtv OpsR (r_A p) z (r_n p))) in *.
  set (nz := norm2 (mtv OpsR (r_A p) z (r_n p))) in *.
  assert (Habs : - d <= Rabs d).
  { rewrite <- Rabs_Ropp. apply Rle_abs. }
  assert (Hmul : norm2 x * nz <= norm2 x * delta).
  { apply Rmult_le_compat_l; assumption. }
  lra.
Qed.
End Farkas.

(** * Unboundedness certificates: a recession direction keeps feasibility and lowers the cost *)
Lemma vadd_cons (a b : R) (u v : list R) :
  vadd OpsR (a :: u) (b :: v) = (a + b) :: vadd OpsR u v.
Proof. reflexivity. Qed.

Lemma vscale_cons (t a : R) (u : list R) :
  vscale OpsR t (a :: u) = (t * a) :: vscale OpsR t u.
Proof. reflexivity. Qed.

Lemma vadd_length (u v : list R) :
  length u = length v -> length (vadd OpsR u v) = length u.
Proof.
  intros Hlen. unfold vadd. rewrite map_length, combine_length. lia.
Qed.

Lemma vscale_length (t : R) (u : list R) : length (vscale OpsR t u) = length u.
Proof. unfold vscale; apply map_length. Qed.

Lemma nth_vadd (u v : list R) (j : nat) :
  length u = length v -> nth j (vadd OpsR u v) 0 = nth j u 0 + nth j v 0.
Proof.
  revert v j; induction u as [|a u IH]; intros [|b v] j Hlen; simpl in Hlen; try discriminate.
  - destruct j; simpl; lra.
  - rewrite vadd_cons. destruct j as [|j]; simpl.
    + reflexivity.
    + apply IH. lia.
Qed.

Lemma nth_vscale (t : R) (u : list R) (j : nat) :
  nth j (vscale OpsR t u) 0 = t * nth j u 0.
Proof.
  revert j; induction u as [|a u IH]; intros j.
  - destruct j; simpl; lra.
  - rewrite vscale_cons. destruct j as [|j]; simpl.
    + reflexivity.
    + apply IH.
Qed.

Lemma rdot_vadd (r : srow R) (u v : list R) :
  length u = length v ->
  rdot OpsR r (vadd OpsR u v) = rdot OpsR r u + rdot OpsR r v.
Proof.
  intros Hlen. induction r as [|[j a] r IH].
  - rewrite !rdot_nil. lra.
  - rewrite !rdot_cons, IH, nth_vadd by exact Hlen. ring.
Qed.

Lemma rdot_vscale (r : srow R) (t : R) (u : list R) :
  rdot OpsR r (vscale OpsR t u) = t * rdot OpsR r u.
Proof.
  induction r as [|[j a] r IH].
  - rewrite !rdot_nil. lra.
  - rewrite !rdot_cons, IH, nth_vscale. ring.
Qed.

Lemma mv_ray (A : smat R) (u v : list R) (t : R) :
  length u = length v ->
  mv OpsR A (vadd OpsR u (vscale OpsR t v))
  = vadd OpsR (mv OpsR A u) (vscale OpsR t (mv OpsR A v)).
Proof.
  intros Hlen. induction A as [|r A IH].
  - reflexivity.
  - change (mv OpsR (r :: A) (vadd OpsR u (vscale OpsR t v)))
      with (rdot OpsR r (vadd OpsR u (vscale OpsR t v))
            :: mv OpsR A (vadd OpsR u (vscale OpsR t v))).
    change (mv OpsR (r :: A) u) with (rdot OpsR r u :: mv OpsR A u).
    change (mv OpsR (r :: A) v) with (rdot OpsR r v :: mv OpsR A v).
    rewrite vscale_cons, vadd_cons, IH.
    rewrite rdot_vadd by (rewrite vscale_length; exact Hlen).
    rewrite rdot_vscale. reflexivity.
Qed.

Lemma vadd_ray4 (a c b d : list R) (t : R) :
  length a = length c -> length a = length b -> length a = length d ->
  vadd OpsR (vadd OpsR a (vscale OpsR t c)) (vadd OpsR b (vscale OpsR t d))
  = vadd OpsR (vadd OpsR a b) (vscale OpsR t (vadd OpsR c d)).
Proof.
  revert c b d; induction a as [|a0 a IH]; intros [|c0 c] [|b0 b] [|d0 d] H1 H2 H3;
    simpl in H1, H2, H3; try discriminate.
  - reflexivity.
  - rewrite !vscale_cons, !vadd_cons, !vscale_cons, !vadd_cons.
    rewrite IH by lia. f_equal. ring.
Qed.

Lemma vadd_scaled_zeros (u : list R) (t : R) :
  vadd OpsR u (vscale OpsR t (repeat 0 (length u))) = u.
Proof.
  induction u as [|a u IH].
  - reflexivity.
  - simpl length; simpl repeat. rewrite vscale_cons, vadd_cons, IH. f_equal. ring.
Qed.

Lemma dot_vscale_r (x y : list R) (t : R) :
  dot OpsR x (vscale OpsR t y) = t * dot OpsR x y.
Proof.
  revert y; induction x as [|a x IH]; intros [|b y].
  - rewrite !dot_nil_l; lra.
  - rewrite !dot_nil_l; lra.
  - change (vscale OpsR t []) with (@nil R). rewrite !dot_nil_r; lra.
  - rewrite vscale_cons, !dot_cons, IH. ring.
Qed.

Lemma dot_vadd_r (x u v : list R) :
  length u = length v ->
  dot OpsR x (vadd OpsR u v) = dot OpsR x u + dot OpsR x v.
Proof.
  intros Hlen. rewrite (dot_comm x (vadd OpsR u v)), dot_vadd_l by exact Hlen.
  rewrite (dot_comm u x), (dot_comm v x). reflexivity.
Qed.

Lemma sumsq_ray (w v : list R) (t : R) :
  length w = length v ->
  sumsq OpsR (vadd OpsR w (vscale OpsR t v))
  = sumsq OpsR w + 2 * t * dot OpsR w v + t * t * sumsq OpsR v.
Proof.
  revert v; induction w as [|a w IH]; intros [|b v] Hlen; simpl in Hlen; try discriminate.
  - change (vadd OpsR [] (vscale OpsR t [])) with (@nil R).
    rewrite sumsq_nil, dot_nil_l. ring.
  - rewrite vscale_cons, vadd_cons, !sumsq_cons, dot_cons, IH by lia. ring.
Qed.

(** the three cones are closed under  a + t b,  t >= 0 *)
Lemma nn_ray (a b : list R) (t : R) :
  0 <= t -> in_nn a -> in_nn b -> in_nn (vadd OpsR a (vscale OpsR t b)).
Proof.
  unfold in_nn. intros Ht. revert b; induction a as [|a0 a IH]; intros [|b0 b] Ha Hb;
    try (apply Forall_nil).
  inversion Ha as [|? ? Ha0 Ha']; subst. inversion Hb as [|? ? Hb0 Hb']; subst.
  rewrite vscale_cons, vadd_cons. apply Forall_cons.
  - assert (0 <= t * b0) by (apply Rmult_le_pos; assumption). lra.
  - apply IH; assumption.
Qed.

Lemma zero_ray (a b : list R) (t : R) :
  in_zero a -> in_zero b -> in_zero (vadd OpsR a (vscale OpsR t b)).
Proof.
  unfold in_zero. revert b; induction a as [|a0 a IH]; intros [|b0 b] Ha Hb;
    try (apply Forall_nil).
  inversion Ha as [|? ? Ha0 Ha']; subst. inversion Hb as [|? ? Hb0 Hb']; subst.
  rewrite vscale_cons, vadd_cons. apply Forall_cons.
  - ring.
  - apply IH; assumption.
Qed.

Lemma soc_ray (a b : list R) (t : R) :
  0 <= t -> length a = length b ->
  in_soc a -> in_soc b -> in_soc (vadd OpsR a (vscale OpsR t b)).
Proof.
  intros Ht Hlen Ha Hb.
  destruct a as [|t1 w1]; destruct b as [|t2 w2]; simpl in Hlen; try discriminate.
  - exact I.
  - simpl in Ha, Hb. destruct Ha as [Ht1 Hw1]. destruct Hb as [Ht2 Hw2].
    rewrite vscale_cons, vadd_cons. simpl.
    assert (Htt2 : 0 <= t * t2) by (apply Rmult_le_pos; assumption).
    split; [lra | ].
    rewrite sumsq_ray by lia.
    pose proof (soc_cross_bound t1 t2 w1 w2 Ht1 Hw1 Ht2 Hw2) as [_ Hhi].
    assert (H1 : t * dot OpsR w1 w2 <= t * (t1 * t2)) by (apply Rmult_le_compat_l; assumption).
    assert (Htt : 0 <= t * t) by (apply Rmult_le_pos; assumption).
    assert (H2 : t * t * sumsq OpsR w2 <= t * t * (t2 * t2)) by (apply Rmult_le_compat_l; assumption).
    replace ((t1 + t * t2) * (t1 + t * t2))
      with (t1 * t1 + 2 * (t * (t1 * t2)) + t * t * (t2 * t2)) by ring.
    lra.
Qed.

Lemma cone_ray (k : coneD) (a b : list R) (t : R) :
  sym_cone k = true -> 0 <= t ->
  in_cone k a -> in_cone k b -> in_cone k (vadd OpsR a (vscale OpsR t b)).
Proof.
  intros Hk Ht [Hla Ha] [Hlb Hb].
  assert (Hlen : length a = length b) by congruence.
  split.
  - rewrite vadd_length by (rewrite vscale_length; exact Hlen). exact Hla.
  - destruct k; simpl in Hk; try discriminate.
    + apply zero_ray; assumption.
    + apply nn_ray; assumption.
    + apply soc_ray; assumption.
Qed.

Lemma firstn_ray (d : nat) (a b : list R) (t : R) :
  firstn d (vadd OpsR a (vscale OpsR t b))
  = vadd OpsR (firstn d a) (vscale OpsR t (firstn d b)).
Proof.
  revert a b; induction d as [|d IH]; intros a b.
  - reflexivity.
  - destruct a as [|a0 a]; [reflexivity | ].
    destruct b as [|b0 b]; [reflexivity | ].
    rewrite vscale_cons, vadd_cons. simpl firstn. rewrite vscale_cons, vadd_cons, IH.
    reflexivity.
Qed.

Lemma skipn_ray (d : nat) (a b : list R) (t : R) :
  length a = length b ->
  skipn d (vadd OpsR a (vscale OpsR t b))
  = vadd OpsR (skipn d a) (vscale OpsR t (skipn d b)).
Proof.
  revert a b; induction d as [|d IH]; intros a b Hlen.
  - reflexivity.
  - destruct a as [|a0 a]; destruct b as [|b0 b]; simpl in Hlen; try discriminate.
    + reflexivity.
    + rewrite vscale_cons, vadd_cons. simpl skipn. apply IH. lia.
Qed.

Lemma InK_ray (K : list coneD) (a b : list R) (t : R) :
  sym_only K -> 0 <= t -> length a = length b ->
  InK K a -> InK K b -> InK K (vadd OpsR a (vscale OpsR t b)).
Proof.
  unfold sym_only, InK. intros HK Ht.
  revert a b; induction K as [|k K IH]; intros a b Hlen Ha Hb.
  - apply Forall_nil.
  - simpl in HK. apply andb_prop in HK. destruct HK as [Hk HK].
    simpl in Ha, Hb. simpl chunks.
    inversion Ha as [|? ? Ha1 Ha2]; subst. inversion Hb as [|? ? Hb1 Hb2]; subst.
    simpl in Ha1, Hb1.
    apply Forall_cons.
    + simpl. rewrite firstn_ray. apply cone_ray; assumption.
    + rewrite skipn_ray by exact Hlen. apply IH; try assumption.
      rewrite !skipn_length. lia.
Qed.

(** symmetric matrices (as entry tables):  P'x = P x *)
Definition smat_sym (P : smat R) (n : nat) : Prop :=
  length P = n /\ cols_lt P n /\
  forall i j, (i < n)%nat -> (j < n)%nat ->
    rget OpsR (nth i P []) j = rget OpsR (nth j P []) i.

Lemma list_as_map_nth {X} (l : list X) (d : X) :
  l = map (fun i => nth i l d) (seq 0 (length l)).
Proof.
  induction l as [|a l IH].
  - reflexivity.
  - simpl length. simpl seq. simpl map. f_equal.
    rewrite <- seq_shift, map_map. simpl. exact IH.
Qed.

Lemma mtv_sym (P : smat R) (x : list R) (n : nat) :
  smat_sym P n -> length x = n -> mtv OpsR P x n = mv OpsR P x.
Proof.
  intros [HlP [Hcols Hsym]] Hx.
  unfold mv. rewrite (list_as_map_nth P []) at 2. rewrite map_map, HlP.
  unfold mtv. apply map_ext_in. intros j Hj. apply in_seq in Hj.
  rewrite rdot_as_dot.
  - rewrite Hx, dot_comm. f_equal.
    rewrite (list_as_map_nth P []) at 1. rewrite map_map, HlP.
    apply map_ext_in. intros i Hi. apply in_seq in Hi.
    apply Hsym; lia.
  - rewrite Hx. unfold cols_lt in Hcols. rewrite Forall_forall in Hcols.
    apply Hcols. apply nth_In. lia.
Qed.

Section Unbounded.
Variable p : probRr.
Hypothesis Hsym : sym_only (r_K p).
Hypothesis HlenA : length (r_A p) = r_m p.
Hypothesis HPsym : smat_sym (r_P p) (r_n p).

(** a recession direction: P x = 0, A x + s = 0, s in K *)
Definition recession (x s : list R) : Prop :=
  length x = r_n p /\ length s = r_m p /\
  mv OpsR (r_P p) x = repeat 0 (r_n p) /\
  vadd OpsR (mv OpsR (r_A p) x) s = repeat 0 (r_m p) /\
  InK (r_K p) s.

Lemma ray_feasible (x s x0 s0 : list R) (t : R) :
  recession x s -> 0 <= t ->
  length x0 = r_n p -> length s0 = r_m p ->
  vadd OpsR (mv OpsR (r_A p) x0) s0 = r_b p -> InK (r_K p) s0 ->
  let x1 := vadd OpsR x0 (vscale OpsR t x) in
  let s1 := vadd OpsR s0 (vscale OpsR t s) in
  length x1 = r_n p /\ length s1 = r_m p /\
  vadd OpsR (mv OpsR (r_A p) x1) s1 = r_b p /\ InK (r_K p) s1.
Proof.
  intros [Hx [Hs [HPx [HAx HsK]]]] Ht Hx0 Hs0 Hb0 Hs0K x1 s1. subst x1 s1.
  split; [ | split; [ | split]].
  - rewrite vadd_length by (rewrite vscale_length; lia). exact Hx0.
  - rewrite vadd_length by (rewrite vscale_length; lia). exact Hs0.
  - rewrite mv_ray by lia.
    rewrite vadd_ray4 by (rewrite ?mv_length; lia).
    rewrite HAx, Hb0.
    assert (Hlb : length (r_b p) = r_m p).
    { rewrite <- Hb0. rewrite vadd_length by (rewrite mv_length; lia).
      rewrite mv_length. exact HlenA. }
    rewrite <- Hlb. apply vadd_scaled_zeros.
  - apply InK_ray; try assumption. lia.
Qed.

Lemma ray_cost (x x0 : list R) (t : R) :
  length x = r_n p -> length x0 = r_n p ->
  mv OpsR (r_P p) x = repeat 0 (r_n p) ->
  cost_p p (vadd OpsR x0 (vscale OpsR t x)) = cost_p p x0 + t * dot OpsR (r_q p) x.
Proof.
  intros Hx Hx0 HPx.
  destruct HPsym as [HlP [HcolsP HsymP]].
  assert (HlPx0 : length (mv OpsR (r_P p) x0) = r_n p) by (rewrite mv_length; exact HlP).
  unfold cost_p, cost_p2, xPx, two. simpl.
  rewrite mv_ray by lia. rewrite HPx.
  rewrite <- HlPx0 at 1. rewrite vadd_scaled_zeros.
  rewrite dot_vadd_l by (rewrite vscale_length; lia).
  rewrite (dot_comm (vscale OpsR t x)), dot_vscale_r.
  rewrite (mv_mtv_adjoint (r_P p) x0 x (r_n p)) by (try assumption; lia).
  rewrite (mtv_sym (r_P p) x (r_n p) HPsym Hx), HPx, dot_repeat0_r.
  rewrite dot_vadd_r by (rewrite vscale_length; lia).
  rewrite dot_vscale_r. field.
Qed.

(** primal feasible + recession direction with q.x < 0  ==>  feasible points of arbitrarily
    low cost: along the ray the cost is  cost(x0) + t q.x . *)
Theorem unbounded_sound (x s x0 s0 : list R) :
  recession x s -> dot OpsR (r_q p) x < 0 ->
  length x0 = r_n p -> length s0 = r_m p ->
  vadd OpsR (mv OpsR (r_A p) x0) s0 = r_b p -> InK (r_K p) s0 ->
  forall t : R, 0 <= t ->
    let x1 := vadd OpsR x0 (vscale OpsR t x) in
    let s1 := vadd OpsR s0 (vscale OpsR t s) in
    (length x1 = r_n p /\ length s1 = r_m p /\
     vadd OpsR (mv OpsR (r_A p) x1) s1 = r_b p /\ InK (r_K p) s1) /\
    cost_p p x1 = cost_p p x0 + t * dot OpsR (r_q p) x.
Proof.
  intros Hrec Hq Hx0 Hs0 Hb0 Hs0K t Ht x1 s1. split.
  - apply ray_feasible; assumption.
  - destruct Hrec as [Hx [_ [HPx _]]]. apply ray_cost; assumption.
Qed.

(** hence no lower bound on the cost over the feasible set *)
Corollary unbounded_below (x s x0 s0 : list R) (c : R) :
  recession x s -> dot OpsR (r_q p) x < 0 ->
  length x0 = r_n p -> length s0 = r_m p ->
  vadd OpsR (mv OpsR (r_A p) x0) s0 = r_b p -> InK (r_K p) s0 ->
  exists x1 s1, length x1 = r_n p /\ length s1 = r_m p /\
    vadd OpsR (mv OpsR (r_A p) x1) s1 = r_b p /\ InK (r_K p) s1 /\ cost_p p x1 < c.
Proof.
  intros Hrec Hq Hx0 Hs0 Hb0 Hs0K.
  set (qx := dot OpsR (r_q p) x) in *.
  set (t := Rmax 0 ((c - 1 - cost_p p x0) / qx)).
  assert (Ht : 0 <= t) by apply Rmax_l.
  destruct (unbounded_sound x s x0 s0 Hrec Hq Hx0 Hs0 Hb0 Hs0K t Ht) as [[H1 [H2 [H3 H4]]] Hc].
  exists (vadd OpsR x0 (vscale OpsR t x)), (vadd OpsR s0 (vscale OpsR t s)).
  repeat (split; [assumption | ]).
  rewrite Hc. fold qx.
  assert (Hge : (c - 1 - cost_p p x0) / qx <= t) by apply Rmax_r.
  assert (Hmul : qx * t <= qx * ((c - 1 - cost_p p x0) / qx)).
  { apply Rmult_le_compat_neg_l; [lra | exact Hge]. }
  assert (E : qx * ((c - 1 - cost_p p x0) / qx) = c - 1 - cost_p p x0) by (field; lra).
  lra.
Qed.
End Unbounded.

(** * Non-vacuity: concrete certificates *)
(** x <= -1 and -x <= -1 :  rows  x + s1 = -1,  -x + s2 = -1,  s >= 0;  z = (1,1). *)
Definition ex_p : probRr :=
  mkProbRr 1 2 [] [0] [[(0%nat, 1)]; [(0%nat, -1)]] [-1; -1] [KNN 2%N] [true; true].
Definition ex_z : list R := [1; 1].

Example ex_hyps :
  sym_only (r_K ex_p) /\ cols_lt (r_A ex_p) (r_n ex_p) /\
  length (r_A ex_p) = r_m ex_p /\ cones_dim (r_K ex_p) = r_m ex_p /\
  length ex_z = r_m ex_p /\ InKdual (r_K ex_p) ex_z /\
  mtv OpsR (r_A ex_p) ex_z (r_n ex_p) = repeat 0 (r_n ex_p) /\
  dot OpsR (r_b ex_p) ex_z < 0.
Proof.
  repeat split.
  - repeat constructor.
  - unfold InKdual, ex_z; simpl.
    apply Forall_cons; [split; [reflexivity | ] | apply Forall_nil].
    unfold in_nn; simpl. repeat (apply Forall_cons; [lra | ]). apply Forall_nil.
  - unfold mtv, dot, vsum, rget, vsum, ex_z; cbn. f_equal. lra.
  - unfold dot, vsum, ex_z; cbn. lra.
Qed.

Example ex_infeasible : ~ primal_feasible ex_p.
Proof.
  destruct ex_hyps as [H1 [H2 [H3 [H4 [H5 [H6 [H7 H8]]]]]]].
  exact (farkas_sound ex_p H1 H2 H3 H4 ex_z H5 H6 H7 H8).
Qed.

(** x = 1 (zero cone), (s1, s2) = (0, 3 - x) in the second-order cone: needs 0 >= |2|.
    z = (1, 1, -1). *)
Definition ex2_p : probRr :=
  mkProbRr 1 3 [] [0] [[(0%nat, 1)]; []; [(0%nat, 1)]] [1; 0; 3] [KZero 1%N; KSOC 2%N]
           [true; true; true].
Definition ex2_z : list R := [1; 1; -1].

Example ex2_hyps :
  sym_only (r_K ex2_p) /\ cols_lt (r_A ex2_p) (r_n ex2_p) /\
  length (r_A ex2_p) = r_m ex2_p /\ cones_dim (r_K ex2_p) = r_m ex2_p /\
  length ex2_z = r_m ex2_p /\ InKdual (r_K ex2_p) ex2_z /\
  mtv OpsR (r_A ex2_p) ex2_z (r_n ex2_p) = repeat 0 (r_n ex2_p) /\
  dot OpsR (r_b ex2_p) ex2_z < 0.
Proof.
  repeat split.
  - repeat constructor.
  - unfold InKdual, ex2_z; simpl.
    apply Forall_cons; [split; [reflexivity | exact I] | ].
    apply Forall_cons; [split; [reflexivity | ] | apply Forall_nil].
    unfold in_soc, sumsq, dot, vsum; simpl. split; lra.
  - unfold mtv, dot, vsum, rget, vsum, ex2_z; cbn. f_equal. lra.
  - unfold dot, vsum, ex2_z; cbn. lra.
Qed.

Example ex2_infeasible : ~ primal_feasible ex2_p.
Proof.
  destruct ex2_hyps as [H1 [H2 [H3 [H4 [H5 [H6 [H7 H8]]]]]]].
  exact (farkas_sound ex2_p H1 H2 H3 H4 ex2_z H5 H6 H7 H8).
Qed.

(** minimise -x subject to x >= 0 (row -x + s = 0, s >= 0): direction x = 1, s = 1. *)
Definition ex3_p : probRr :=
  mkProbRr 1 1 [[]] [-1] [[(0%nat, -1)]] [0] [KNN 1%N] [true].

Example ex3_hyps :
  sym_only (r_K ex3_p) /\ length (r_A ex3_p) = r_m ex3_p /\
  smat_sym (r_P ex3_p) (r_n ex3_p) /\
  recession ex3_p [1] [1] /\ dot OpsR (r_q ex3_p) [1] < 0.
Proof.
  split; [reflexivity | ]. split; [reflexivity | ].
  split; [ | split].
  - split; [reflexivity | ]. split.
    + repeat constructor.
    + intros i j Hi Hj. simpl in Hi, Hj.
      assert (Ei : i = 0%nat) by lia. assert (Ej : j = 0%nat) by lia. subst. reflexivity.
  - unfold recession. split; [reflexivity | ]. split; [reflexivity | ].
    split; [ | split].
    + reflexivity.
    + unfold mv, rdot, vsum, vnth, vadd; simpl. f_equal. lra.
    + unfold InK; simpl.
      apply Forall_cons; [split; [reflexivity | ] | apply Forall_nil].
      unfold in_nn; simpl. apply Forall_cons; [lra | apply Forall_nil].
  - unfold dot, vsum; simpl. lra.
Qed.
