(** Term/LemmasMisc.v — small facts about the model used by Props/C02.v, C03.v (any scalar type). *)
From Coq Require Import List Bool.
Import ListNotations.
Require Import Clarabel.Base.Ops Clarabel.Term.Eval Clarabel.Term.Model.

Section Misc.
Context {T : Type} (O : Ops T).
(** NaN objectives ([None]) exactly for the four infeasible statuses *)
Lemma objectives_nan_iff (d : data) (v : vars) (i : info) (keep : option (list bool)) (infb : T) :
  let sol := solution_post_process O d v i keep infb in
  (obj_val sol = None <-> is_infeasible (st i) = true) /\
  (obj_val_dual sol = None <-> is_infeasible (st i) = true) /\
  sol_status sol = st i /\ sol_iterations sol = iterations i /\
  r_prim sol = res_primal i /\ r_dual sol = res_dual i.
Proof.
  unfold solution_post_process.
  destruct keep as [k|]; destruct (is_infeasible (st i)); cbn;
    repeat split; intros H; try reflexivity; try discriminate.
Qed.
End Misc.
