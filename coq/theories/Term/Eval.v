(** Term/Eval.v — exact evaluation of the quantities the termination test, the infeasibility
    certificates and the solver's report talk about, written ONCE over [Ops T]:
    - at [OpsR] these are the mathematical quantities of Term/Spec.v,
    - at [OpsD] (exact dyadics; every finite f64 is one) they are what the per-run checkers of
      Term/Check.v compute from the user's data and the returned vectors.
    Term/Hom.v proves that [d2R] commutes with every function of this file, which is what makes
    the checkers sound.  No proofs here. *)
From Coq Require Import List ZArith NArith Bool Arith Reals.
Import ListNotations.
Require Import Clarabel.Base.Ops Clarabel.Base.Dyadic.

(** Dyadics as an [Ops] instance ([div], [sqrt] are not available exactly and never used) *)
Definition OpsD : Ops dy := {|
  zero := d0; one := d1; add := dadd; sub := dsub; mul := dmul; div := fun a _ => a;
  neg := dneg; abs := dabs; sqrt := fun a => a;
  ltb := dltb; leb := dleb; eqb := deqb; ofZ := dofZ |}.

Section Generic.
Context {T : Type} (O : Ops T).

Definition srow := list (nat * T).
Definition smat := list srow.

Definition vnth (x : list T) (j : nat) : T := nth j x (zero O).
Definition vsum (l : list T) : T := fold_left (add O) l (zero O).
Definition dot (x y : list T) : T := vsum (map (fun p => mul O (fst p) (snd p)) (combine x y)).
Definition sumsq (x : list T) : T := dot x x.
Definition vabs (x : list T) : list T := map (abs O) x.
Definition norminf (x : list T) : T := fold_left (fun m v => omax O m (abs O v)) x (zero O).
Definition vadd (x y : list T) : list T := map (fun p => add O (fst p) (snd p)) (combine x y).
Definition vsub (x y : list T) : list T := map (fun p => sub O (fst p) (snd p)) (combine x y).
Definition vscale (a : T) (x : list T) : list T := map (mul O a) x.

(** sparse row . dense vector *)
Definition rdot (r : srow) (x : list T) : T :=
  vsum (map (fun e => mul O (snd e) (vnth x (fst e))) r).
Definition rowabs (r : srow) : srow := map (fun e => (fst e, abs O (snd e))) r.
Definition mabs (A : smat) : smat := map rowabs A.
(** entry (row, j) as the sum of the stored entries with that column *)
Definition rget (r : srow) (j : nat) : T :=
  vsum (map (fun e => if Nat.eqb (fst e) j then snd e else zero O) r).
Definition mv (A : smat) (x : list T) : list T := map (fun r => rdot r x) A.
(** A' z for an A with [n] columns *)
Definition mtv (A : smat) (z : list T) (n : nat) : list T :=
  map (fun j => dot (map (fun r => rget r j) A) z) (seq 0 n).

Definition sel {X} (keep : list bool) (v : list X) : list X :=
  map snd (filter (fun p => fst p) (combine keep v)).

(** ** the quantities of the termination test (kept rows [Ak bk sk zk] already selected) *)
Definition res_p (Ak : smat) (bk x sk : list T) : list T := vsub (vadd (mv Ak x) sk) bk.
Definition res_d (P Ak : smat) (q x zk : list T) : list T :=
  vadd (vadd (mv P x) (mtv Ak zk (length q))) q.
Definition xPx (P : smat) (x : list T) : T := dot x (mv P x).
Definition two : T := add O (one O) (one O).
(** twice the primal / dual cost:  x'Px + 2 q'x   and   -2 b'z - x'Px *)
Definition cost_p2 (P : smat) (q x : list T) : T := add O (xPx P x) (mul O two (dot q x)).
Definition cost_d2 (P : smat) (bk x zk : list T) : T :=
  sub O (neg O (mul O two (dot bk zk))) (xPx P x).
(** rounding scales: |A||x| + |s| + |b| ,  |P||x| + |A|'|z| + |q| ,  |x|'|P||x| + 2|q|'|x| + 2|b|'|z| *)
Definition scale_p (Ak : smat) (bk x sk : list T) : list T :=
  vadd (vadd (mv (mabs Ak) (vabs x)) (vabs sk)) (vabs bk).
Definition scale_d (P Ak : smat) (q x zk : list T) : list T :=
  vadd (vadd (mv (mabs P) (vabs x)) (mtv (mabs Ak) (vabs zk) (length q))) (vabs q).
Definition scale_cp (P : smat) (q x : list T) : T :=
  add O (xPx (mabs P) (vabs x)) (mul O two (dot (vabs q) (vabs x))).
Definition scale_cd (P : smat) (bk x zk : list T) : T :=
  add O (xPx (mabs P) (vabs x)) (mul O two (dot (vabs bk) (vabs zk))).

Fixpoint powT (a : T) (k : nat) : T :=
  match k with 0%nat => one O | S k' => mul O a (powT a k') end.
Definition prodpow (xs : list T) (ps : list nat) : T :=
  fold_left (mul O) (map (fun p => powT (fst p) (snd p)) (combine xs ps)) (one O).

End Generic.
Arguments srow T : clear implicits.
Arguments smat T : clear implicits.

(** ** problem data as printed by the harness (exact dyadics, [N] indices) *)
Inductive coneD : Type :=
| KZero (n : N) | KNN (n : N) | KSOC (n : N) | KExp | KPow (a : dy)
| KGenPow (a : list dy) (d2 : N) | KPSD (n : N).

Definition cone_dim (k : coneD) : nat :=
  match k with
  | KZero n | KNN n | KSOC n => N.to_nat n
  | KExp | KPow _ => 3
  | KGenPow a d2 => length a + N.to_nat d2
  | KPSD n => N.to_nat n * (N.to_nat n + 1) / 2
  end.

Definition trip := (N * N * dy)%type.
Definition rows_of (m : nat) (ts : list trip) : smat dy :=
  map (fun i => map (fun t => (N.to_nat (snd (fst t)), snd t))
                    (filter (fun t => Nat.eqb (N.to_nat (fst (fst t))) i) ts)) (seq 0 m).
(** full symmetric rows from the upper triangle *)
Definition sym_trips (ts : list trip) : list trip :=
  ts ++ map (fun t => (snd (fst t), fst (fst t), snd t))
            (filter (fun t => negb (N.eqb (fst (fst t)) (snd (fst t)))) ts).

Record prob := mkProbR {
  p_n : nat; p_m : nat;
  p_P : smat dy;          (* full symmetric rows *)
  p_q : list dy;
  p_A : smat dy;
  p_b : list dy;
  p_K : list coneD;
  p_keep : list bool }.
Definition mkProb (n m : N) (P : list trip) (q : list dy) (A : list trip) (b : list dy)
           (K : list coneD) (keep : list bool) : prob :=
  mkProbR (N.to_nat n) (N.to_nat m) (rows_of (N.to_nat n) (sym_trips P)) q
          (rows_of (N.to_nat m) A) b K keep.

(** split a vector along the cones *)
Fixpoint chunks {X} (K : list coneD) (v : list X) : list (coneD * list X) :=
  match K with
  | [] => []
  | k :: K' => (k, firstn (cone_dim k) v) :: chunks K' (skipn (cone_dim k) v)
  end.

(** dyadic -> real, through the rational meaning of Base/Dyadic.v *)
Definition d2R (a : dy) : R := Q2R (d2Q a).
Definition rowR (r : srow dy) : srow R := map (fun e => (fst e, d2R (snd e))) r.
Definition matR (A : smat dy) : smat R := map rowR A.
Definition vecR (v : list dy) : list R := map d2R v.
