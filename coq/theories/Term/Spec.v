(** Term/Spec.v — the mathematical statements of C01–C03 over the reals, on the user's ORIGINAL
    data (no equilibration, no homogenisation): the documented termination test [TermTest], the
    infeasibility certificates [FarkasP]/[FarkasD] exactly as the code's tests read in user
    coordinates, and the report equalities [Report*].  Statements and spec predicates only.

    Conventions.  [P] is the full symmetric matrix, matrices are lists of sparse rows
    (Term/Eval.v), [keep] marks the rows that are not infinite bounds (all rows when presolve
    is off); residuals, norms and dot products range over the kept rows (the returned [z] is 0
    and the returned [s] is the infinity bound on dropped rows), cone membership over all rows. *)
From Coq Require Import List ZArith NArith Bool Arith Reals Lra.
Import ListNotations.
Require Import Clarabel.Base.Ops Clarabel.Base.Dyadic Clarabel.Term.Eval.
Local Open Scope R_scope.

Definition norm2 (v : list R) : R := R_sqrt.sqrt (sumsq OpsR v).
Definition ninf (v : list R) : R := norminf OpsR v.

(** * Cone membership *)
Definition in_nn (v : list R) : Prop := Forall (fun a => 0 <= a) v.
Definition in_zero (v : list R) : Prop := Forall (fun a => a = 0) v.
Definition in_soc (v : list R) : Prop :=
  match v with [] => True | t :: w => 0 <= t /\ sumsq OpsR w <= t * t end.
(** exponential cone  cl { (x,y,z) : y > 0, y exp(x/y) <= z }  and its dual *)
Definition in_exp (v : list R) : Prop :=
  match v with
  | [x; y; z] => (0 < y /\ y * exp (x / y) <= z) \/ (x <= 0 /\ y = 0 /\ 0 <= z)
  | _ => False end.
Definition in_exp_dual (v : list R) : Prop :=
  match v with
  | [u; v; w] => (u < 0 /\ - u * exp (v / u - 1) <= w) \/ (u = 0 /\ 0 <= v /\ 0 <= w)
  | _ => False end.
(** power cones with rational exponents  alpha_i = p_i / q  (q = sum of the p_i), in the
    algebraic (division- and root-free) form; on x, y >= 0 this is  x^a y^(1-a) >= |z| . *)
Definition in_pow (p q : nat) (v : list R) : Prop :=
  match v with
  | [x; y; z] => 0 <= x /\ 0 <= y /\ (Rabs z) ^ q <= x ^ p * y ^ (q - p)
  | _ => False end.
Definition in_pow_dual (p q : nat) (v : list R) : Prop :=
  match v with
  | [u; v; w] => 0 <= u /\ 0 <= v /\
                 (Rabs w) ^ q * (INR p ^ p * INR (q - p) ^ (q - p)) <= u ^ p * v ^ (q - p) * INR q ^ q
  | _ => False end.
(** power cones with an arbitrary real exponent  al  in (0,1):  |z| <= x^al y^(1-al)  on x, y >= 0
    ([rpow x a] is x^a for x > 0 and 0 at x <= 0), and the dual  |w| <= (u/al)^al (v/(1-al))^(1-al).
    Used for the exponents that are not short dyadics (e.g. the binary64 value of 0.3). *)
Definition rpow (x a : R) : R := if Rle_dec x 0 then 0 else Rpower x a.
Definition in_pow_real (al : R) (v : list R) : Prop :=
  match v with
  | [x; y; z] => 0 < al < 1 /\ 0 <= x /\ 0 <= y /\ Rabs z <= rpow x al * rpow y (1 - al)
  | _ => False end.
Definition in_pow_real_dual (al : R) (v : list R) : Prop :=
  match v with
  | [u; v; w] => 0 < al < 1 /\ 0 <= u /\ 0 <= v /\
                 Rabs w <= rpow (u / al) al * rpow (v / (1 - al)) (1 - al)
  | _ => False end.
Definition prodpowR (xs : list R) (ps : list nat) : R := prodpow OpsR xs ps.
Definition in_genpow (ps : list nat) (q : nat) (v : list R) : Prop :=
  let xs := firstn (length ps) v in let w := skipn (length ps) v in
  Forall (fun a => 0 <= a) xs /\ (sumsq OpsR w) ^ q <= (prodpowR xs ps) ^ 2.
Definition in_genpow_dual (ps : list nat) (q : nat) (v : list R) : Prop :=
  let us := firstn (length ps) v in let w := skipn (length ps) v in
  Forall (fun a => 0 <= a) us /\
  (sumsq OpsR w) ^ q * (prodpowR (map INR ps) ps) ^ 2 <= (prodpowR us ps) ^ 2 * (INR q ^ q) ^ 2.
(** PSD triangle cone: column-major upper triangle, off-diagonal entries carry a factor sqrt 2.
    [svec_quad v y] = y' mat(v) y . *)
Definition tri_idx (i j : nat) : nat := j * (j + 1) / 2 + i.
Definition svec_quad (n : nat) (v y : list R) : R :=
  vsum OpsR (map (fun j =>
     nth (tri_idx j j) v 0 * nth j y 0 * nth j y 0
     + R_sqrt.sqrt 2 * vsum OpsR (map (fun i => nth (tri_idx i j) v 0 * nth i y 0 * nth j y 0) (seq 0 j)))
     (seq 0 n)).
Definition in_psd (n : nat) (v : list R) : Prop :=
  forall y : list R, length y = n -> 0 <= svec_quad n v y.

(** exponents of a dyadic alpha = p / 2^k  (k <= 6) *)
Definition alpha_pq (a : dy) : option (nat * nat) :=
  if ((de a <=? 0) && (-6 <=? de a) && (0 <? dm a) && (dm a <? 2 ^ (- de a)))%Z
  then Some (Z.to_nat (dm a), Z.to_nat (2 ^ (- de a))) else None.
(** common denominator for a list of dyadic exponents *)
Definition alphas_pq (al : list dy) : option (list nat * nat) :=
  let k := fold_left Z.max (map (fun a => (- de a)%Z) al) 0%Z in
  if ((k <=? 6) && forallb (fun a => (0 <? dm a) && (de a <=? 0)) al)%Z
  then let ps := map (fun a => Z.to_nat (dm a * 2 ^ (k + de a))) al in
       if Nat.eqb (fold_left Nat.add ps O) (Z.to_nat (2 ^ k)) then Some (ps, Z.to_nat (2 ^ k)) else None
  else None.

Definition in_cone (k : coneD) (v : list R) : Prop :=
  length v = cone_dim k /\
  match k with
  | KZero _ => in_zero v
  | KNN _ => in_nn v
  | KSOC _ => in_soc v
  | KExp => in_exp v
  | KPow a => match alpha_pq a with Some (p, q) => in_pow p q v | None => in_pow_real (d2R a) v end
  | KGenPow al _ => match alphas_pq al with Some (ps, q) => in_genpow ps q v | None => False end
  | KPSD n => in_psd (N.to_nat n) v
  end.
Definition in_dual (k : coneD) (v : list R) : Prop :=
  length v = cone_dim k /\
  match k with
  | KZero _ => True
  | KNN _ => in_nn v
  | KSOC _ => in_soc v
  | KExp => in_exp_dual v
  | KPow a => match alpha_pq a with Some (p, q) => in_pow_dual p q v | None => in_pow_real_dual (d2R a) v end
  | KGenPow al _ => match alphas_pq al with Some (ps, q) => in_genpow_dual ps q v | None => False end
  | KPSD n => in_psd (N.to_nat n) v
  end.
Definition InK (K : list coneD) (s : list R) : Prop :=
  Forall (fun kc => in_cone (fst kc) (snd kc)) (chunks K s).
Definition InKdual (K : list coneD) (z : list R) : Prop :=
  Forall (fun kc => in_dual (fst kc) (snd kc)) (chunks K z).

(** * The problem over the reals *)
Record probRr := mkProbRr {
  r_n : nat; r_m : nat; r_P : smat R; r_q : list R; r_A : smat R; r_b : list R;
  r_K : list coneD; r_keep : list bool }.
Definition probR_of (p : prob) : probRr :=
  mkProbRr (p_n p) (p_m p) (matR (p_P p)) (vecR (p_q p)) (matR (p_A p)) (vecR (p_b p)) (p_K p) (p_keep p).

Section Spec.
Variable p : probRr.
Let Ak := sel (r_keep p) (r_A p).
Let bk := sel (r_keep p) (r_b p).
Let P := r_P p.
Let q := r_q p.

(** ** C01: the documented termination test *)
Definition cost_p (x : list R) : R := cost_p2 OpsR P q x / 2.          (* x'Px/2 + q'x *)
Definition cost_d (x zk : list R) : R := cost_d2 OpsR P bk x zk / 2.   (* -b'z - x'Px/2 *)
Definition feas_p (tf : R) (x sk : list R) : Prop :=
  norm2 (res_p OpsR Ak bk x sk) < tf * Rmax 1 (ninf bk + norm2 x + norm2 sk).
Definition feas_d (tf : R) (x zk : list R) : Prop :=
  norm2 (res_d OpsR P Ak q x zk) < tf * Rmax 1 (ninf q + norm2 x + norm2 zk).
Definition gap_ok (tga tgr : R) (x zk : list R) : Prop :=
  let cp := cost_p x in let cd := cost_d x zk in
  Rabs (cp - cd) < tga \/ Rabs (cp - cd) < tgr * Rmax 1 (Rmin (Rabs cp) (Rabs cd)).
(** the returned multiplier vanishes on the rows dropped as infinite bounds (so inner products
    and A'z over the kept rows are those of the full original data) *)
Definition dropped_zero (z : list R) : Prop :=
  Forall (fun a => a = 0) (sel (map negb (r_keep p)) z).
Definition lengths_ok (x s z : list R) : Prop :=
  length x = r_n p /\ length s = r_m p /\ length z = r_m p /\ dropped_zero z.

Definition TermTest (tf tga tgr : R) (x s z : list R) : Prop :=
  let sk := sel (r_keep p) s in let zk := sel (r_keep p) z in
  lengths_ok x s z /\ feas_p tf x sk /\ feas_d tf x zk /\ gap_ok tga tgr x zk /\
  InK (r_K p) s /\ InKdual (r_K p) z.

(** ** C02: the code's infeasibility tests read in user coordinates.
    [c] = objective scaling of the equilibration, [kap] = kappa before normalisation; the
    returned vectors are x = D xhat / kap, s = E^-1 shat / kap, z = E zhat / (c kap).
    (Term/LemmasAlg.v derives these forms from the scaled tests of info.rs.) *)
Definition FarkasP (ta tr c kap : R) (z : list R) : Prop :=
  let zk := sel (r_keep p) z in
  InKdual (r_K p) z /\
  c * kap * dot OpsR bk zk < - ta /\
  norm2 (mtv OpsR Ak zk (r_n p)) < tr * c * (- dot OpsR bk zk) * Rmax 1 (kap * norm2 zk).
Definition FarkasD (ta tr c kap : R) (x s : list R) : Prop :=
  let sk := sel (r_keep p) s in
  InK (r_K p) s /\
  c * kap * dot OpsR q x < - ta /\
  norm2 (mv OpsR P x) < tr * (- dot OpsR q x) * Rmax 1 (kap * norm2 x) /\
  norm2 (vadd OpsR (mv OpsR Ak x) sk) < tr * c * (- dot OpsR q x) * Rmax 1 (kap * (norm2 x + norm2 sk)).

(** ** C03: the reported figures.  [rho] relative, [gam] rounding coefficient (see design.d/C03.md).
    [nu / tau] rescales the returned point to the tau-normalised point the figures refer to
    (nu = tau = 1 for every non-infeasible status). *)
Definition ReportObjP (rho : R) (objp : R) (x : list R) : Prop :=
  Rabs (2 * objp - cost_p2 OpsR P q x) <= rho * scale_cp OpsR P q x.
Definition ReportObjD (rho : R) (objd : R) (x zk : list R) : Prop :=
  Rabs (2 * objd - cost_d2 OpsR P bk x zk) <= rho * scale_cd OpsR P bk x zk.
Definition resv_p (nu tau : R) (x sk : list R) : list R :=
  vsub OpsR (vscale OpsR nu (vadd OpsR (mv OpsR Ak x) sk)) (vscale OpsR tau bk).
Definition resv_d (nu tau : R) (x zk : list R) : list R :=
  vadd OpsR (vscale OpsR nu (vadd OpsR (mv OpsR P x) (mtv OpsR Ak zk (length q)))) (vscale OpsR tau q).
Definition scalev_p (nu tau : R) (x sk : list R) : list R :=
  vadd OpsR (vscale OpsR nu (vadd OpsR (mv OpsR (mabs OpsR Ak) (vabs OpsR x)) (vabs OpsR sk))) (vscale OpsR tau (vabs OpsR bk)).
Definition scalev_d (nu tau : R) (x zk : list R) : list R :=
  vadd OpsR (vscale OpsR nu (vadd OpsR (mv OpsR (mabs OpsR P) (vabs OpsR x)) (mtv OpsR (mabs OpsR Ak) (vabs OpsR zk) (length q))))
       (vscale OpsR tau (vabs OpsR q)).
Definition close_to (rho gam : R) (reported M Rn An : R) : Prop :=
  reported * M <= (1 + rho) * Rn + gam * An /\ (1 - rho) * Rn - gam * An <= reported * M.
Definition ReportResP (rho gam nu tau rprim : R) (x sk : list R) : Prop :=
  close_to rho gam rprim (Rmax tau (tau * ninf bk + nu * norm2 x + nu * norm2 sk))
           (norm2 (resv_p nu tau x sk)) (norm2 (scalev_p nu tau x sk)).
Definition ReportResD (rho gam nu tau rdual : R) (x zk : list R) : Prop :=
  close_to rho gam rdual (Rmax tau (tau * ninf q + nu * norm2 x + nu * norm2 zk))
           (norm2 (resv_d nu tau x zk)) (norm2 (scalev_d nu tau x zk)).
End Spec.

(** Farkas: what a certificate refutes.  Stated for problems without dropped rows. *)
Definition primal_feasible (p : probRr) : Prop :=
  exists x s, length x = r_n p /\ length s = r_m p /\
              vadd OpsR (mv OpsR (r_A p) x) s = r_b p /\ InK (r_K p) s.
