(** Term/LemmasAlg.v — algebra behind C01–C03 over the reals:
    - soundness of the decision functions of info.rs (what a returned status implies),
    - structure of [reverse_rows] / [solution_post_process] (C03 lengths),
    - the equilibration identities: residuals, costs and norms of the internal (scaled,
      homogeneous) iterate expressed on the user's data and the returned vectors,
    - the scaled infeasibility tests read in user coordinates (C02),
    - a concrete non-vacuity instance.
    Everything is at [OpsR]. *)
From Coq Require Import List ZArith Bool Arith Reals Lra Lia Psatz.
Import ListNotations.
Require Import Clarabel.Base.Ops Clarabel.Term.Eval Clarabel.Term.Model Clarabel.Term.Spec.
Local Open Scope R_scope.

(** * 0. [OpsR] projections *)
Lemma omax_Rmax (a b : R) : omax OpsR a b = Rmax a b.
Proof.
  unfold omax; cbn [ltb OpsR].
  destruct (Rltb a b) eqn:E.
  - apply Rltb_true in E. rewrite Rmax_right; lra.
  - apply Rltb_false in E. rewrite Rmax_left; lra.
Qed.
Lemma omin_Rmin (a b : R) : omin OpsR a b = Rmin a b.
Proof.
  unfold omin; cbn [ltb OpsR].
  destruct (Rltb b a) eqn:E.
  - apply Rltb_true in E. rewrite Rmin_right; lra.
  - apply Rltb_false in E. rewrite Rmin_left; lra.
Qed.
Lemma recip_R (a : R) : recip OpsR a = 1 / a.
Proof. reflexivity. Qed.

(** * 5. Decision soundness *)
Section Decisions.
Variable i : @info R.

Lemma is_solved_sound tga tgr tf :
  is_solved OpsR i tga tgr tf = true ->
  (gap_abs i < tga \/ gap_rel i < tgr) /\ res_primal i < tf /\ res_dual i < tf.
Proof.
  unfold is_solved; cbn [ltb OpsR]. intros H.
  apply andb_true_iff in H. destruct H as [H Hd].
  apply andb_true_iff in H. destruct H as [Hg Hp].
  apply orb_true_iff in Hg.
  apply Rltb_true in Hd. apply Rltb_true in Hp.
  split; [|split]; auto.
  destruct Hg as [Hg|Hg]; apply Rltb_true in Hg; auto.
Qed.

Lemma is_solved_complete tga tgr tf :
  (gap_abs i < tga \/ gap_rel i < tgr) -> res_primal i < tf -> res_dual i < tf ->
  is_solved OpsR i tga tgr tf = true.
Proof.
  intros Hg Hp Hd. unfold is_solved; cbn [ltb OpsR].
  apply Rltb_true in Hp. apply Rltb_true in Hd. rewrite Hp, Hd.
  destruct Hg as [Hg|Hg]; apply Rltb_true in Hg; rewrite Hg; cbn.
  - reflexivity.
  - rewrite orb_true_r. reflexivity.
Qed.

Lemma is_primal_infeasible_sound bz ta tr :
  is_primal_infeasible OpsR i bz ta tr = true ->
  bz < - ta /\ res_primal_inf i < - tr * bz.
Proof.
  unfold is_primal_infeasible; cbn [ltb OpsR neg mul]. intros H.
  apply andb_true_iff in H. destruct H as [H1 H2].
  apply Rltb_true in H1. apply Rltb_true in H2. auto.
Qed.

Lemma is_dual_infeasible_sound qx ta tr :
  is_dual_infeasible OpsR i qx ta tr = true ->
  qx < - ta /\ res_dual_inf i < - tr * qx.
Proof.
  unfold is_dual_infeasible; cbn [ltb OpsR neg mul]. intros H.
  apply andb_true_iff in H. destruct H as [H1 H2].
  apply Rltb_true in H1. apply Rltb_true in H2. auto.
Qed.

Lemma check_convergence_solved bz qx tga tgr tf ta tr tk solved pinf dinf :
  check_convergence OpsR i bz qx tga tgr tf ta tr tk solved pinf dinf = solved ->
  solved <> st i -> solved <> pinf -> solved <> dinf ->
  ktratio i <= 1 /\
  (gap_abs i < tga \/ gap_rel i < tgr) /\ res_primal i < tf /\ res_dual i < tf.
Proof.
  unfold check_convergence. intros H Hs Hp Hd.
  destruct (leb OpsR (ktratio i) (one OpsR) && is_solved OpsR i tga tgr tf) eqn:E1.
  - apply andb_true_iff in E1. destruct E1 as [Ek Es].
    cbn [leb one OpsR] in Ek. apply Rleb_true in Ek.
    split; [exact Ek|]. apply is_solved_sound; exact Es.
  - exfalso.
    destruct (ltb OpsR (mul OpsR (recip OpsR tk) (ofZ OpsR 1000)) (ktratio i)).
    + destruct (is_primal_infeasible OpsR i bz ta tr).
      * apply Hp; symmetry; exact H.
      * destruct (is_dual_infeasible OpsR i qx ta tr).
        -- apply Hd; symmetry; exact H.
        -- apply Hs; symmetry; exact H.
    + apply Hs; symmetry; exact H.
Qed.

Lemma check_convergence_pinf bz qx tga tgr tf ta tr tk solved pinf dinf :
  check_convergence OpsR i bz qx tga tgr tf ta tr tk solved pinf dinf = pinf ->
  pinf <> st i -> pinf <> solved -> pinf <> dinf ->
  bz < - ta /\ res_primal_inf i < - tr * bz /\ 1 / tk * 1000 < ktratio i.
Proof.
  unfold check_convergence. intros H Hs Hp Hd.
  destruct (leb OpsR (ktratio i) (one OpsR) && is_solved OpsR i tga tgr tf).
  - exfalso. apply Hp; symmetry; exact H.
  - destruct (ltb OpsR (mul OpsR (recip OpsR tk) (ofZ OpsR 1000)) (ktratio i)) eqn:Ek.
    + cbn [ltb mul ofZ OpsR] in Ek. rewrite recip_R in Ek. apply Rltb_true in Ek.
      destruct (is_primal_infeasible OpsR i bz ta tr) eqn:E2.
      * apply is_primal_infeasible_sound in E2. destruct E2 as [E2 E3].
        split; [exact E2|]. split; [exact E3|exact Ek].
      * exfalso. destruct (is_dual_infeasible OpsR i qx ta tr).
        -- apply Hd; symmetry; exact H.
        -- apply Hs; symmetry; exact H.
    + exfalso. apply Hs; symmetry; exact H.
Qed.

Lemma check_convergence_dinf bz qx tga tgr tf ta tr tk solved pinf dinf :
  check_convergence OpsR i bz qx tga tgr tf ta tr tk solved pinf dinf = dinf ->
  dinf <> st i -> dinf <> solved -> dinf <> pinf ->
  qx < - ta /\ res_dual_inf i < - tr * qx /\ 1 / tk * 1000 < ktratio i.
Proof.
  unfold check_convergence. intros H Hs Hp Hd.
  destruct (leb OpsR (ktratio i) (one OpsR) && is_solved OpsR i tga tgr tf).
  - exfalso. apply Hp; symmetry; exact H.
  - destruct (ltb OpsR (mul OpsR (recip OpsR tk) (ofZ OpsR 1000)) (ktratio i)) eqn:Ek.
    + cbn [ltb mul ofZ OpsR] in Ek. rewrite recip_R in Ek. apply Rltb_true in Ek.
      destruct (is_primal_infeasible OpsR i bz ta tr).
      * exfalso. apply Hd; symmetry; exact H.
      * destruct (is_dual_infeasible OpsR i qx ta tr) eqn:E2.
        -- apply is_dual_infeasible_sound in E2. destruct E2 as [E2 E3].
           split; [exact E2|]. split; [exact E3|exact Ek].
        -- exfalso. apply Hs; symmetry; exact H.
    + exfalso. apply Hs; symmetry; exact H.
Qed.

(** the status returned by [check_convergence] is one of the four candidates *)
Lemma check_convergence_cases bz qx tga tgr tf ta tr tk solved pinf dinf :
  let s := check_convergence OpsR i bz qx tga tgr tf ta tr tk solved pinf dinf in
  s = solved \/ s = pinf \/ s = dinf \/ s = st i.
Proof.
  unfold check_convergence.
  destruct (leb OpsR (ktratio i) (one OpsR) && is_solved OpsR i tga tgr tf); auto.
  destruct (ltb OpsR (mul OpsR (recip OpsR tk) (ofZ OpsR 1000)) (ktratio i)); auto.
  destruct (is_primal_infeasible OpsR i bz ta tr); auto.
  destruct (is_dual_infeasible OpsR i qx ta tr); auto.
Qed.

(** ** info.rs post_process: the Almost statuses *)
Lemma set_status_st (j : @info R) s : st (set_status j s) = s.
Proof. reflexivity. Qed.

Lemma info_post_process_cases bz qx se :
  info_post_process OpsR i bz qx se = i \/
  (st i <> St_Solved /\ st i <> St_PrimalInfeasible /\ st i <> St_DualInfeasible /\
   st i <> St_AlmostSolved /\ st i <> St_AlmostPrimalInfeasible /\ st i <> St_AlmostDualInfeasible /\
   st i <> St_Unsolved /\
   info_post_process OpsR i bz qx se = set_status i (check_convergence_almost OpsR i bz qx se)).
Proof.
  unfold info_post_process.
  destruct (st i) eqn:E; cbn [is_errored status_eqb orb]; auto;
    right; repeat (split; [discriminate|]); reflexivity.
Qed.

Lemma post_process_almost_sound bz qx se :
  st (info_post_process OpsR i bz qx se) = St_AlmostSolved ->
  st i <> St_AlmostSolved ->
  ktratio i <= 1 /\
  (gap_abs i < red_gap_abs se \/ gap_rel i < red_gap_rel se) /\
  res_primal i < red_feas se /\ res_dual i < red_feas se.
Proof.
  intros H Hn.
  destruct (info_post_process_cases bz qx se) as [E|(_ & _ & _ & _ & _ & _ & _ & E)];
    rewrite E in H.
  - contradiction.
  - rewrite set_status_st in H. unfold check_convergence_almost in H.
    assert (Hn' : forall a, a = st i -> st i = a) by (intros a Ha; symmetry; exact Ha).
    apply check_convergence_solved in H;
      [exact H | intro Hc; apply Hn; apply Hn'; exact Hc | discriminate | discriminate].
Qed.

Lemma post_process_almost_pinf_sound bz qx se :
  st (info_post_process OpsR i bz qx se) = St_AlmostPrimalInfeasible ->
  st i <> St_AlmostPrimalInfeasible ->
  bz < - red_infeas_abs se /\ res_primal_inf i < - red_infeas_rel se * bz /\
  1 / red_ktratio se * 1000 < ktratio i.
Proof.
  intros H Hn.
  destruct (info_post_process_cases bz qx se) as [E|(_ & _ & _ & _ & _ & _ & _ & E)];
    rewrite E in H.
  - contradiction.
  - rewrite set_status_st in H. unfold check_convergence_almost in H.
    assert (Hn' : forall a, a = st i -> st i = a) by (intros a Ha; symmetry; exact Ha).
    apply check_convergence_pinf in H;
      [exact H | intro Hc; apply Hn; apply Hn'; exact Hc | discriminate | discriminate].
Qed.

Lemma post_process_almost_dinf_sound bz qx se :
  st (info_post_process OpsR i bz qx se) = St_AlmostDualInfeasible ->
  st i <> St_AlmostDualInfeasible ->
  qx < - red_infeas_abs se /\ res_dual_inf i < - red_infeas_rel se * qx /\
  1 / red_ktratio se * 1000 < ktratio i.
Proof.
  intros H Hn.
  destruct (info_post_process_cases bz qx se) as [E|(_ & _ & _ & _ & _ & _ & _ & E)];
    rewrite E in H.
  - contradiction.
  - rewrite set_status_st in H. unfold check_convergence_almost in H.
    assert (Hn' : forall a, a = st i -> st i = a) by (intros a Ha; symmetry; exact Ha).
    apply check_convergence_dinf in H;
      [exact H | intro Hc; apply Hn; apply Hn'; exact Hc | discriminate | discriminate].
Qed.

(** [post_process] never touches a full status (nor Unsolved / an Almost status) *)
Lemma post_process_keeps_full bz qx se :
  st i = St_Solved \/ st i = St_PrimalInfeasible \/ st i = St_DualInfeasible ->
  info_post_process OpsR i bz qx se = i.
Proof.
  intros H. unfold info_post_process.
  destruct H as [H|[H|H]]; rewrite H; reflexivity.
Qed.

(** and conversely a full status after [post_process] was already there before *)
Lemma post_process_full_inv bz qx se s :
  s = St_Solved \/ s = St_PrimalInfeasible \/ s = St_DualInfeasible ->
  st (info_post_process OpsR i bz qx se) = s -> st i = s.
Proof.
  intros Hs H.
  destruct (info_post_process_cases bz qx se) as [E|(N1 & N2 & N3 & _ & _ & _ & _ & E)];
    rewrite E in H; [exact H|].
  rewrite set_status_st in H. unfold check_convergence_almost in H.
  pose proof (check_convergence_cases bz qx (red_gap_abs se) (red_gap_rel se) (red_feas se)
    (red_infeas_abs se) (red_infeas_rel se) (red_ktratio se)
    St_AlmostSolved St_AlmostPrimalInfeasible St_AlmostDualInfeasible) as Hc.
  cbv zeta in Hc. rewrite H in Hc.
  destruct Hc as [Hc|[Hc|[Hc|Hc]]]; [| | |symmetry; exact Hc];
    destruct Hs as [Hs|[Hs|Hs]]; rewrite Hs in Hc; discriminate.
Qed.

(** ** info.rs check_termination *)
Lemma check_termination_st bz qx se iter s :
  st (check_termination OpsR i bz qx se iter) = s ->
  s = St_Solved \/ s = St_PrimalInfeasible \/ s = St_DualInfeasible ->
  check_convergence_full OpsR i bz qx se = s.
Proof.
  unfold check_termination. cbv zeta. rewrite set_status_st.
  set (s1 := check_convergence_full OpsR i bz qx se).
  intros H Hs.
  assert (Hne : s <> St_Unsolved /\ s <> St_InsufficientProgress /\ s <> St_MaxIterations /\ s <> St_MaxTime).
  { destruct Hs as [Hs|[Hs|Hs]]; rewrite Hs; repeat split; discriminate. }
  destruct Hne as (N1 & N2 & N3 & N4).
  match type of H with (if status_eqb ?s2 St_Unsolved then _ else _) = _ => set (S2 := s2) in * end.
  assert (H2 : S2 = s).
  { destruct (status_eqb S2 St_Unsolved) eqn:E2; [|exact H].
    destruct (Nat.eqb (max_iter se) (iterations i)); [exfalso; apply N3; symmetry; exact H|].
    destruct (ltb OpsR (time_limit se) (solve_time i)); [exfalso; apply N4; symmetry; exact H|].
    exact H. }
  clear H. subst S2.
  match type of H2 with (if ?c then _ else _) = _ => destruct c end; [|exact H2].
  match type of H2 with
    (if _ then (if _ then _ else ?sa) else _) = _ => assert (Hsa : sa = s -> s1 = s) end.
  { intros Ha.
    match type of Ha with (if ?c then _ else _) = _ => destruct c end; [|exact Ha].
    exfalso; apply N2; symmetry; exact Ha. }
  match type of H2 with (if ?c then _ else _) = _ => destruct c end.
  - match type of H2 with (if ?c then _ else _) = _ => destruct c end.
    + exfalso; apply N2; symmetry; exact H2.
    + apply Hsa; exact H2.
  - apply Hsa; exact H2.
Qed.

Lemma full_status_solved bz qx se iter :
  st (check_termination OpsR i bz qx se iter) = St_Solved ->
  st i = St_Unsolved ->
  ktratio i <= 1 /\
  (gap_abs i < tol_gap_abs se \/ gap_rel i < tol_gap_rel se) /\
  res_primal i < tol_feas se /\ res_dual i < tol_feas se.
Proof.
  intros H Hu. apply check_termination_st in H; auto.
  unfold check_convergence_full in H.
  apply check_convergence_solved in H; auto; try discriminate.
  rewrite Hu; discriminate.
Qed.

Lemma full_status_pinf bz qx se iter :
  st (check_termination OpsR i bz qx se iter) = St_PrimalInfeasible ->
  st i = St_Unsolved ->
  bz < - tol_infeas_abs se /\ res_primal_inf i < - tol_infeas_rel se * bz /\
  1 / tol_ktratio se * 1000 < ktratio i.
Proof.
  intros H Hu. apply check_termination_st in H; auto.
  unfold check_convergence_full in H.
  apply check_convergence_pinf in H; auto; try discriminate.
  rewrite Hu; discriminate.
Qed.

Lemma full_status_dinf bz qx se iter :
  st (check_termination OpsR i bz qx se iter) = St_DualInfeasible ->
  st i = St_Unsolved ->
  qx < - tol_infeas_abs se /\ res_dual_inf i < - tol_infeas_rel se * qx /\
  1 / tol_ktratio se * 1000 < ktratio i.
Proof.
  intros H Hu. apply check_termination_st in H; auto.
  unfold check_convergence_full in H.
  apply check_convergence_dinf in H; auto; try discriminate.
  rewrite Hu; discriminate.
Qed.

(** [check_termination] only touches the status field, and from Unsolved never produces an
    Almost status *)
Lemma check_termination_fields bz qx se iter :
  check_termination OpsR i bz qx se iter =
  set_status i (st (check_termination OpsR i bz qx se iter)).
Proof. reflexivity. Qed.

Lemma check_termination_not_almost bz qx se iter :
  st i = St_Unsolved ->
  let s := st (check_termination OpsR i bz qx se iter) in
  s <> St_AlmostSolved /\ s <> St_AlmostPrimalInfeasible /\ s <> St_AlmostDualInfeasible.
Proof.
  intros Hu. cbv zeta.
  unfold check_termination. cbv zeta. rewrite set_status_st.
  pose proof (check_convergence_cases bz qx (tol_gap_abs se) (tol_gap_rel se) (tol_feas se)
    (tol_infeas_abs se) (tol_infeas_rel se) (tol_ktratio se)
    St_Solved St_PrimalInfeasible St_DualInfeasible) as Hc.
  cbv zeta in Hc. fold (check_convergence_full OpsR i bz qx se) in Hc.
  rewrite Hu in Hc.
  set (s1 := check_convergence_full OpsR i bz qx se) in *.
  assert (Hs1 : s1 <> St_AlmostSolved /\ s1 <> St_AlmostPrimalInfeasible /\ s1 <> St_AlmostDualInfeasible).
  { destruct Hc as [Hc|[Hc|[Hc|Hc]]]; rewrite Hc; repeat split; discriminate. }
  clearbody s1. clear Hc.
  repeat match goal with
  | |- context [if ?c then _ else _] => destruct c
  end; try exact Hs1; repeat split; discriminate.
Qed.

End Decisions.

(** * 7. C03: [reverse_rows] and the lengths of the returned vectors *)
Section ReverseRows.
Context {X : Type}.

Definition count_true (keep : list bool) : nat := length (filter (fun b : bool => b) keep).

Lemma reverse_rows_length (keep : list bool) (red : list X) (fill : X) :
  length (reverse_rows keep red fill) = length keep.
Proof.
  revert red; induction keep as [|k keep IH]; intros red; cbn [reverse_rows length]; auto.
  destruct k; [destruct red as [|r red]|]; cbn [length]; rewrite IH; reflexivity.
Qed.

Lemma sel_cons_true (keep : list bool) (a : X) (v : list X) :
  sel (true :: keep) (a :: v) = a :: sel keep v.
Proof. reflexivity. Qed.
Lemma sel_cons_false (keep : list bool) (a : X) (v : list X) :
  sel (false :: keep) (a :: v) = sel keep v.
Proof. reflexivity. Qed.

(** the kept rows are restored in place ... *)
Lemma reverse_rows_sel (keep : list bool) (red : list X) (fill : X) :
  count_true keep = length red ->
  sel keep (reverse_rows keep red fill) = red.
Proof.
  unfold count_true.
  revert red; induction keep as [|k keep IH]; intros red Hc.
  - cbn in Hc. destruct red; [reflexivity|discriminate].
  - destruct k; cbn [filter length] in Hc; cbn [reverse_rows].
    + destruct red as [|r red]; [discriminate|].
      rewrite sel_cons_true. f_equal. apply IH. cbn [length] in Hc. lia.
    + rewrite sel_cons_false. apply IH. exact Hc.
Qed.

(** ... and every dropped row holds [fill] *)
Lemma reverse_rows_dropped (keep : list bool) (red : list X) (fill dflt : X) (j : nat) :
  nth j keep true = false ->
  nth j (reverse_rows keep red fill) dflt = fill.
Proof.
  revert red j; induction keep as [|k keep IH]; intros red j Hj.
  - destruct j; discriminate.
  - destruct j as [|j]; cbn [nth] in Hj.
    + subst k. reflexivity.
    + destruct k; [destruct red as [|r red]|]; cbn [reverse_rows nth]; apply IH; exact Hj.
Qed.

(** the dropped rows, selected, are all [fill] *)
Lemma reverse_rows_sel_dropped (keep : list bool) (red : list X) (fill : X) :
  Forall (fun a => a = fill) (sel (map negb keep) (reverse_rows keep red fill)).
Proof.
  revert red; induction keep as [|k keep IH]; intros red; [constructor|].
  destruct k; [destruct red as [|r red]|]; cbn [reverse_rows map negb].
  - rewrite sel_cons_false. apply IH.
  - rewrite sel_cons_false. apply IH.
  - rewrite sel_cons_true. constructor; [reflexivity|apply IH].
Qed.
End ReverseRows.

Lemma hadamard_length (x y : list R) :
  length (hadamard OpsR x y) = Nat.min (length x) (length y).
Proof. unfold hadamard. rewrite map_length, combine_length. reflexivity. Qed.
Lemma vscale_length (a : R) (x : list R) : length (vscale OpsR a x) = length x.
Proof. unfold vscale. apply map_length. Qed.
Lemma vadd_length (x y : list R) : length (vadd OpsR x y) = Nat.min (length x) (length y).
Proof. unfold vadd. rewrite map_length, combine_length. reflexivity. Qed.
Lemma vsub_length (x y : list R) : length (vsub OpsR x y) = Nat.min (length x) (length y).
Proof. unfold vsub. rewrite map_length, combine_length. reflexivity. Qed.
Lemma mv_length (A : smat R) (x : list R) : length (mv OpsR A x) = length A.
Proof. unfold mv. apply map_length. Qed.
Lemma mtv_length (A : smat R) (z : list R) (n : nat) : length (mtv OpsR A z n) = n.
Proof. unfold mtv. rewrite map_length, seq_length. reflexivity. Qed.

Section SolutionLengths.
Variables (d : @data R) (v : @vars R) (i : @info R) (infb : R).

Lemma solution_keep_lengths (keep : list bool) :
  let sol := solution_post_process OpsR d v i (Some keep) infb in
  length (sol_s sol) = length keep /\ length (sol_z sol) = length keep.
Proof.
  cbv zeta. unfold solution_post_process. cbn [sol_s sol_z].
  split; apply reverse_rows_length.
Qed.

Lemma solution_nokeep_lengths :
  length (deinv d) = length (vs v) -> length (de_ d) = length (vz v) ->
  let sol := solution_post_process OpsR d v i None infb in
  length (sol_s sol) = length (vs v) /\ length (sol_z sol) = length (vz v).
Proof.
  intros H1 H2. cbv zeta. unfold solution_post_process, unscale. cbn [sol_s sol_z vs vz].
  rewrite !vscale_length, !hadamard_length, H1, H2. split; apply Nat.min_id.
Qed.

Lemma solution_x_length (keep : option (list bool)) :
  length (dd d) = length (vx v) ->
  length (sol_x (solution_post_process OpsR d v i keep infb)) = length (vx v).
Proof.
  intros H1. unfold solution_post_process, unscale.
  destruct keep; cbn [sol_x vx]; rewrite vscale_length, hadamard_length, H1; apply Nat.min_id.
Qed.

(** with a keep-map, the kept rows of the returned [s], [z] are the unscaled reduced vectors,
    dropped rows are [infb] (for s) and 0 (for z), and the status is the info's *)
Lemma solution_keep_sel (keep : list bool) :
  let u := unscale OpsR v d (is_infeasible (st i)) in
  let sol := solution_post_process OpsR d v i (Some keep) infb in
  count_true keep = length (vs u) -> count_true keep = length (vz u) ->
  sol_x sol = vx u /\ sel keep (sol_s sol) = vs u /\ sel keep (sol_z sol) = vz u /\
  Forall (fun a => a = infb) (sel (map negb keep) (sol_s sol)) /\
  Forall (fun a => a = 0) (sel (map negb keep) (sol_z sol)) /\
  sol_status sol = st i.
Proof.
  cbv zeta. intros H1 H2. unfold solution_post_process. cbn [sol_x sol_s sol_z sol_status].
  split; [reflexivity|].
  split; [apply reverse_rows_sel; exact H1|].
  split; [apply reverse_rows_sel; exact H2|].
  split; [apply reverse_rows_sel_dropped|].
  split; [apply (reverse_rows_sel_dropped keep _ (zero OpsR))|reflexivity].
Qed.
End SolutionLengths.

(** * Sums, dot products, entrywise operations over R *)
Lemma fold_Rplus_acc (l : list R) (a : R) : fold_left Rplus l a = a + fold_left Rplus l 0.
Proof.
  revert a; induction l as [|x l IH]; intros a; cbn [fold_left]; [lra|].
  rewrite (IH (a + x)), (IH (0 + x)). lra.
Qed.
Lemma vsum_nil : vsum OpsR [] = 0.
Proof. reflexivity. Qed.
Lemma vsum_cons (a : R) (l : list R) : vsum OpsR (a :: l) = a + vsum OpsR l.
Proof. unfold vsum; cbn [fold_left add zero OpsR]. rewrite fold_Rplus_acc. lra. Qed.

Lemma vsum_map_scal_ext {X} (f g : X -> R) (a : R) (l : list X) :
  (forall e, f e = a * g e) -> vsum OpsR (map f l) = a * vsum OpsR (map g l).
Proof.
  intros H. induction l as [|e l IH]; cbn [map].
  - rewrite vsum_nil. lra.
  - rewrite !vsum_cons, IH, H. lra.
Qed.
Lemma vsum_map_ext {X} (f g : X -> R) (l : list X) :
  (forall e, f e = g e) -> vsum OpsR (map f l) = vsum OpsR (map g l).
Proof.
  intros H. rewrite (vsum_map_scal_ext f g 1 l); [lra|]. intros e0; rewrite H; lra.
Qed.

Lemma dot_nil_l (y : list R) : dot OpsR [] y = 0.
Proof. reflexivity. Qed.
Lemma dot_nil_r (x : list R) : dot OpsR x [] = 0.
Proof. destruct x; reflexivity. Qed.
Lemma dot_cons (a b : R) (x y : list R) : dot OpsR (a :: x) (b :: y) = a * b + dot OpsR x y.
Proof. unfold dot; cbn [combine map fst snd mul OpsR]. apply vsum_cons. Qed.

Lemma hadamard_nil_l (y : list R) : hadamard OpsR [] y = [].
Proof. reflexivity. Qed.
Lemma hadamard_nil_r (x : list R) : hadamard OpsR x [] = [].
Proof. destruct x; reflexivity. Qed.
Lemma hadamard_cons (a b : R) (x y : list R) :
  hadamard OpsR (a :: x) (b :: y) = a * b :: hadamard OpsR x y.
Proof. reflexivity. Qed.
Lemma vscale_nil (a : R) : vscale OpsR a [] = [].
Proof. reflexivity. Qed.
Lemma vscale_cons (a b : R) (x : list R) : vscale OpsR a (b :: x) = a * b :: vscale OpsR a x.
Proof. reflexivity. Qed.
Lemma vadd_nil_l (y : list R) : vadd OpsR [] y = [].
Proof. reflexivity. Qed.
Lemma vadd_nil_r (x : list R) : vadd OpsR x [] = [].
Proof. destruct x; reflexivity. Qed.
Lemma vadd_cons (a b : R) (x y : list R) : vadd OpsR (a :: x) (b :: y) = a + b :: vadd OpsR x y.
Proof. reflexivity. Qed.
Lemma vsub_nil_l (y : list R) : vsub OpsR [] y = [].
Proof. reflexivity. Qed.
Lemma vsub_nil_r (x : list R) : vsub OpsR x [] = [].
Proof. destruct x; reflexivity. Qed.
Lemma vsub_cons (a b : R) (x y : list R) : vsub OpsR (a :: x) (b :: y) = a - b :: vsub OpsR x y.
Proof. reflexivity. Qed.
Lemma sumsq_nil : sumsq OpsR [] = 0.
Proof. reflexivity. Qed.
Lemma sumsq_cons (a : R) (x : list R) : sumsq OpsR (a :: x) = a * a + sumsq OpsR x.
Proof. unfold sumsq. apply dot_cons. Qed.

Global Hint Rewrite vsum_nil vsum_cons dot_nil_l dot_nil_r dot_cons hadamard_nil_l hadamard_nil_r
  hadamard_cons vscale_nil vscale_cons vadd_nil_l vadd_nil_r vadd_cons vsub_nil_l vsub_nil_r
  vsub_cons sumsq_nil sumsq_cons : vecR.

Lemma hadamard_comm (x y : list R) : hadamard OpsR x y = hadamard OpsR y x.
Proof.
  revert y; induction x as [|a x IH]; intros [|b y]; autorewrite with vecR; auto.
  rewrite IH. f_equal. lra.
Qed.

Lemma nth_hadamard (x y : list R) (j : nat) :
  nth j (hadamard OpsR x y) 0 = nth j x 0 * nth j y 0.
Proof.
  revert y j; induction x as [|a x IH]; intros [|b y] [|j]; autorewrite with vecR;
    cbn [nth]; try lra.
  apply IH.
Qed.
Lemma nth_vscale (a : R) (x : list R) (j : nat) :
  nth j (vscale OpsR a x) 0 = a * nth j x 0.
Proof.
  revert j; induction x as [|b x IH]; intros [|j]; autorewrite with vecR; cbn [nth]; try lra.
  apply IH.
Qed.

Lemma vscale_vscale (a b : R) (x : list R) :
  vscale OpsR a (vscale OpsR b x) = vscale OpsR (a * b) x.
Proof.
  unfold vscale. rewrite map_map. apply map_ext. intros e0. cbn [mul OpsR]. lra.
Qed.
Lemma vscale_1 (x : list R) : vscale OpsR 1 x = x.
Proof.
  unfold vscale. rewrite <- (map_id x) at 2. apply map_ext. intros e0. cbn [mul OpsR]. lra.
Qed.
Lemma vscale_inv (a : R) (x : list R) : a <> 0 -> vscale OpsR a (vscale OpsR (1 / a) x) = x.
Proof.
  intros Ha. rewrite vscale_vscale. replace (a * (1 / a)) with 1 by (field; exact Ha).
  apply vscale_1.
Qed.

Lemma dot_vscale_r (a : R) (x y : list R) : dot OpsR x (vscale OpsR a y) = a * dot OpsR x y.
Proof.
  revert y; induction x as [|u x IH]; intros [|w y]; autorewrite with vecR; try lra.
  rewrite IH. lra.
Qed.
Lemma dot_vscale_l (a : R) (x y : list R) : dot OpsR (vscale OpsR a x) y = a * dot OpsR x y.
Proof.
  revert y; induction x as [|u x IH]; intros [|w y]; autorewrite with vecR; try lra.
  rewrite IH. lra.
Qed.
Lemma dot_comm (x y : list R) : dot OpsR x y = dot OpsR y x.
Proof.
  revert y; induction x as [|u x IH]; intros [|w y]; autorewrite with vecR; try lra.
  rewrite IH. lra.
Qed.

(** * Scaled sparse matrices *)
Definition srow_scale (li : R) (r : list R) (row : srow R) : srow R :=
  map (fun e => (fst e, li * snd e * nth (fst e) r 0)) row.
(** diag(l) A diag(r) *)
Definition scale_rows_cols (l r : list R) (A : smat R) : smat R :=
  map (fun p => srow_scale (fst p) r (snd p)) (combine l A).
(** c A *)
Definition mscale (c : R) (A : smat R) : smat R :=
  map (fun row => map (fun e => (fst e, c * snd e)) row) A.

Lemma rdot_srow_scale (li : R) (r : list R) (row : srow R) (x : list R) :
  rdot OpsR (srow_scale li r row) x = li * rdot OpsR row (hadamard OpsR r x).
Proof.
  unfold rdot, srow_scale, vnth. rewrite map_map. cbn [fst snd mul zero OpsR].
  apply vsum_map_scal_ext. intros e0. rewrite nth_hadamard. lra.
Qed.
Lemma rdot_vscale (a : R) (row : srow R) (x : list R) :
  rdot OpsR row (vscale OpsR a x) = a * rdot OpsR row x.
Proof.
  unfold rdot, vnth. cbn [mul zero OpsR].
  apply vsum_map_scal_ext. intros e0. rewrite nth_vscale. lra.
Qed.
Lemma rdot_mscale (c : R) (row : srow R) (x : list R) :
  rdot OpsR (map (fun e => (fst e, c * snd e)) row) x = c * rdot OpsR row x.
Proof.
  unfold rdot, vnth. rewrite map_map. cbn [fst snd mul zero OpsR].
  apply vsum_map_scal_ext. intros e0. lra.
Qed.

Lemma mv_scale_rows_cols (l r : list R) (A : smat R) (x : list R) :
  mv OpsR (scale_rows_cols l r A) x = hadamard OpsR l (mv OpsR A (hadamard OpsR r x)).
Proof.
  unfold scale_rows_cols.
  revert A; induction l as [|li l IH]; intros [|row A]; try reflexivity.
  cbn [combine map mv fst snd]. rewrite hadamard_cons. f_equal.
  - apply rdot_srow_scale.
  - apply IH.
Qed.
Lemma mv_vscale (a : R) (A : smat R) (x : list R) :
  mv OpsR A (vscale OpsR a x) = vscale OpsR a (mv OpsR A x).
Proof.
  unfold mv, vscale. rewrite map_map. apply map_ext. intros row. apply rdot_vscale.
Qed.
Lemma mv_mscale (c : R) (A : smat R) (x : list R) :
  mv OpsR (mscale c A) x = vscale OpsR c (mv OpsR A x).
Proof.
  unfold mv, mscale, vscale. rewrite !map_map. apply map_ext. intros row. apply rdot_mscale.
Qed.

Lemma rget_srow_scale (li : R) (r : list R) (row : srow R) (j : nat) :
  rget OpsR (srow_scale li r row) j = (li * nth j r 0) * rget OpsR row j.
Proof.
  unfold rget, srow_scale. rewrite map_map. cbn [fst snd zero OpsR].
  apply vsum_map_scal_ext. intros e0.
  destruct (Nat.eqb (fst e0) j) eqn:E.
  - apply Nat.eqb_eq in E. rewrite E. lra.
  - lra.
Qed.

Lemma dot_rget_scale_rows_cols (l r : list R) (A : smat R) (z : list R) (j : nat) :
  dot OpsR (map (fun row => rget OpsR row j) (scale_rows_cols l r A)) z
  = nth j r 0 * dot OpsR (map (fun row => rget OpsR row j) A) (hadamard OpsR l z).
Proof.
  unfold scale_rows_cols.
  revert A z; induction l as [|li l IH]; intros [|row A] [|zi z];
    cbn [combine map fst snd]; autorewrite with vecR; try lra.
  rewrite rget_srow_scale, IH. lra.
Qed.

Lemma map_nth_seq_hadamard (r : list R) (f : nat -> R) (n : nat) :
  (n <= length r)%nat ->
  map (fun j => nth j r 0 * f j) (seq 0 n) = hadamard OpsR r (map f (seq 0 n)).
Proof.
  revert f n; induction r as [|a r IH]; intros f n Hn.
  - cbn [length] in Hn. replace n with 0%nat by lia. reflexivity.
  - destruct n as [|n]; [reflexivity|].
    cbn [seq map]. rewrite hadamard_cons. cbn [nth]. f_equal.
    rewrite <- seq_shift, !map_map. cbn [nth].
    apply (IH (fun j => f (S j))). cbn [length] in Hn. lia.
Qed.

Lemma mtv_scale_rows_cols (l r : list R) (A : smat R) (z : list R) (n : nat) :
  (n <= length r)%nat ->
  mtv OpsR (scale_rows_cols l r A) z n = hadamard OpsR r (mtv OpsR A (hadamard OpsR l z) n).
Proof.
  intros Hn. unfold mtv.
  rewrite <- (map_nth_seq_hadamard r _ n Hn).
  apply map_ext. intros j. apply dot_rget_scale_rows_cols.
Qed.
Lemma mtv_vscale (a : R) (A : smat R) (z : list R) (n : nat) :
  mtv OpsR A (vscale OpsR a z) n = vscale OpsR a (mtv OpsR A z n).
Proof.
  unfold mtv, vscale at 2. rewrite map_map. apply map_ext. intros j. apply dot_vscale_r.
Qed.

Lemma scale_rows_cols_length (l r : list R) (A : smat R) :
  length (scale_rows_cols l r A) = Nat.min (length l) (length A).
Proof. unfold scale_rows_cols. rewrite map_length, combine_length. reflexivity. Qed.
Lemma mscale_length (c : R) (A : smat R) : length (mscale c A) = length A.
Proof. unfold mscale. apply map_length. Qed.

(** * Entrywise cancellation of the equilibration *)
Definition allpos (v : list R) : Prop := Forall (fun a => 0 < a) v.

Lemma hadamard_inv_cancel (d u : list R) :
  allpos d -> length u = length d ->
  hadamard OpsR (hadamard OpsR d u) (map Rinv d) = u.
Proof.
  intros Hd; revert u; induction Hd as [|a d Ha Hd IH]; intros [|b u] Hl;
    cbn [length] in Hl; try discriminate; [reflexivity|].
  cbn [map]. rewrite !hadamard_cons. f_equal.
  - field. lra.
  - apply IH. lia.
Qed.

Lemma primal_entrywise (tau : R) (e w sh b : list R) :
  allpos e -> tau <> 0 ->
  vscale OpsR (1 / tau)
    (hadamard OpsR (map Rinv e)
       (vsub OpsR (vadd OpsR (hadamard OpsR e w) sh) (vscale OpsR tau (hadamard OpsR b e))))
  = vsub OpsR (vadd OpsR (vscale OpsR (1 / tau) w)
                         (vscale OpsR (1 / tau) (hadamard OpsR sh (map Rinv e)))) b.
Proof.
  intros He Ht; revert w sh b; induction He as [|a e Ha He IH]; intros w sh b.
  - cbn [map]. autorewrite with vecR. reflexivity.
  - destruct w as [|wi w]; [cbn [map]; autorewrite with vecR; reflexivity|].
    destruct sh as [|si sh]; [cbn [map]; autorewrite with vecR; reflexivity|].
    destruct b as [|bi b]; [cbn [map]; autorewrite with vecR; reflexivity|].
    cbn [map]. autorewrite with vecR. f_equal.
    + field. split; lra.
    + apply IH.
Qed.

Lemma dual_entrywise (c tau : R) (d w u q : list R) :
  allpos d -> c <> 0 -> tau <> 0 -> length u = length d ->
  vscale OpsR (1 / (c * tau))
    (hadamard OpsR (map Rinv d)
       (vadd OpsR (vadd OpsR (vscale OpsR c (hadamard OpsR d w)) (hadamard OpsR d u))
                  (vscale OpsR tau (vscale OpsR c (hadamard OpsR q d)))))
  = vadd OpsR (vadd OpsR (vscale OpsR (1 / tau) w) (vscale OpsR (1 / (c * tau)) u)) q.
Proof.
  intros Hd Hc Ht; revert w u q; induction Hd as [|a d Ha Hd IH]; intros w u q Hl.
  - destruct u; [|discriminate]. cbn [map]. autorewrite with vecR. reflexivity.
  - destruct u as [|ui u]; [discriminate|].
    destruct w as [|wi w]; [cbn [map]; autorewrite with vecR; reflexivity|].
    destruct q as [|qi q]; [cbn [map]; autorewrite with vecR; reflexivity|].
    cbn [map]. autorewrite with vecR. f_equal.
    + field. repeat split; lra.
    + apply IH. cbn [length] in Hl. lia.
Qed.

Lemma dot_q_entrywise (c nu : R) (q d xh : list R) :
  nu <> 0 ->
  dot OpsR (vscale OpsR c (hadamard OpsR q d)) xh
  = c * nu * dot OpsR q (vscale OpsR (1 / nu) (hadamard OpsR xh d)).
Proof.
  intros Hn; revert d xh; induction q as [|qi q IH]; intros [|di d] [|xi xh];
    autorewrite with vecR; try lra.
  rewrite IH. field. exact Hn.
Qed.

Lemma dot_b_entrywise (c nu : R) (b e zh : list R) :
  c <> 0 -> nu <> 0 ->
  dot OpsR (hadamard OpsR b e) zh
  = c * nu * dot OpsR b (vscale OpsR (1 / (c * nu)) (hadamard OpsR zh e)).
Proof.
  intros Hc Hn; revert e zh; induction b as [|bi b IH]; intros [|ei e] [|zi zh];
    autorewrite with vecR; try lra.
  rewrite IH. field. split; assumption.
Qed.

Lemma xPx_entrywise (c nu : R) (xh d w : list R) :
  nu <> 0 ->
  dot OpsR xh (vscale OpsR c (hadamard OpsR d w))
  = c * (nu * nu) * dot OpsR (vscale OpsR (1 / nu) (hadamard OpsR xh d)) (vscale OpsR (1 / nu) w).
Proof.
  intros Hn; revert d w; induction xh as [|xi xh IH]; intros [|di d] [|wi w];
    autorewrite with vecR; try lra.
  rewrite IH. field. exact Hn.
Qed.

(** * Norms *)
Lemma sumsq_nonneg (v : list R) : 0 <= sumsq OpsR v.
Proof.
  induction v as [|a v IH]; autorewrite with vecR; [lra|]. nra.
Qed.
Lemma sumsq_vscale (a : R) (v : list R) : sumsq OpsR (vscale OpsR a v) = (a * a) * sumsq OpsR v.
Proof. unfold sumsq. rewrite dot_vscale_l, dot_vscale_r. lra. Qed.
Lemma sumsq_opp (v : list R) : sumsq OpsR (map Ropp v) = sumsq OpsR v.
Proof.
  induction v as [|a v IH]; [reflexivity|]. cbn [map]. rewrite !sumsq_cons, IH. lra.
Qed.
Lemma hadamard_opp_l (v w : list R) : hadamard OpsR (map Ropp v) w = map Ropp (hadamard OpsR v w).
Proof.
  revert w; induction v as [|a v IH]; intros [|b w]; try reflexivity.
  cbn [map]. rewrite !hadamard_cons. cbn [map]. rewrite IH. f_equal. lra.
Qed.

Lemma norm2_nonneg (v : list R) : 0 <= norm2 v.
Proof. unfold norm2. apply sqrt_pos. Qed.
Lemma norm2_vscale (a : R) (v : list R) : 0 <= a -> norm2 (vscale OpsR a v) = a * norm2 v.
Proof.
  intros Ha. unfold norm2. rewrite sumsq_vscale.
  rewrite sqrt_mult_alt by nra. rewrite sqrt_square by exact Ha. reflexivity.
Qed.
Lemma norm2_opp (v : list R) : norm2 (map Ropp v) = norm2 v.
Proof. unfold norm2. rewrite sumsq_opp. reflexivity. Qed.
Lemma norm_scaled_norm2 (x v : list R) : norm_scaled OpsR x v = norm2 (hadamard OpsR x v).
Proof. reflexivity. Qed.
(** norm of a vector from the norm of its rescaled copy *)
Lemma norm2_unscale (a : R) (v : list R) : 0 < a -> norm2 v = a * norm2 (vscale OpsR (1 / a) v).
Proof.
  intros Ha. rewrite <- norm2_vscale by lra. rewrite vscale_inv by lra. reflexivity.
Qed.

Lemma hadamard_vscale_r (a : R) (x w : list R) :
  hadamard OpsR x (vscale OpsR a w) = vscale OpsR a (hadamard OpsR x w).
Proof.
  revert w; induction x as [|u x IH]; intros [|b w]; autorewrite with vecR; auto.
  rewrite IH. f_equal. lra.
Qed.
Lemma hadamard_vscale_l (a : R) (x w : list R) :
  hadamard OpsR (vscale OpsR a x) w = vscale OpsR a (hadamard OpsR x w).
Proof.
  revert w; induction x as [|u x IH]; intros [|b w]; autorewrite with vecR; auto.
  rewrite IH. f_equal. lra.
Qed.
Lemma Axs_entrywise (nu : R) (e w sh : list R) :
  allpos e -> nu <> 0 ->
  hadamard OpsR (vadd OpsR (vscale OpsR nu (hadamard OpsR e w)) sh) (map Rinv e)
  = vscale OpsR nu (vadd OpsR w (vscale OpsR (1 / nu) (hadamard OpsR sh (map Rinv e)))).
Proof.
  intros He Hnu; revert w sh; induction He as [|a l Ha Hl IH]; intros [|wi w] [|si s'];
    cbn [map]; autorewrite with vecR; auto.
  rewrite IH. f_equal. field. split; lra.
Qed.
Lemma dot_hadamard_inv (e sh zh : list R) :
  allpos e -> length sh = length e ->
  dot OpsR (hadamard OpsR sh (map Rinv e)) (hadamard OpsR zh e) = dot OpsR sh zh.
Proof.
  intros He; revert sh zh; induction He as [|a l Ha Hl IH]; intros [|si s'] [|zi z'] Hlen;
    cbn [length] in Hlen; try discriminate;
    cbn [map]; autorewrite with vecR; try lra.
  rewrite IH by lia. field. lra.
Qed.

(** * 1–4. The equilibration identities *)
Section Equil.
Variables (d e : list R) (c : R).
Hypothesis Hd : allpos d.
Hypothesis He : allpos e.
Hypothesis Hc : 0 < c.
Variables (P A : smat R) (q b : list R).
Variables (xh sh zh : list R).
(** nu = tau for the normal statuses, kappa for the infeasible ones *)
Variable nu : R.
Hypothesis Hnu : 0 < nu.
Variable n : nat.
Hypothesis Hn : length d = n.

(** internal data *)
Definition eq_P : smat R := mscale c (scale_rows_cols d d P).      (* c D P D *)
Definition eq_A : smat R := scale_rows_cols e d A.                 (* E A D *)
Definition eq_q : list R := vscale OpsR c (hadamard OpsR q d).     (* c D q *)
Definition eq_b : list R := hadamard OpsR b e.                     (* E b *)
(** returned vectors (variables.rs unscale) *)
Definition un_x : list R := vscale OpsR (1 / nu) (hadamard OpsR xh d).
Definition un_s : list R := vscale OpsR (1 / nu) (hadamard OpsR sh (map Rinv e)).
Definition un_z : list R := vscale OpsR (1 / (c * nu)) (hadamard OpsR zh e).

(** the three matrix-vector products of residuals.rs in user coordinates *)
Lemma eq_P_mv : mv OpsR eq_P xh = vscale OpsR (c * nu) (hadamard OpsR d (mv OpsR P un_x)).
Proof.
  unfold eq_P, un_x. rewrite mv_mscale, mv_scale_rows_cols, mv_vscale.
  rewrite (hadamard_comm xh d).
  rewrite hadamard_vscale_r, !vscale_vscale. f_equal. field. lra.
Qed.

Lemma eq_A_mv : mv OpsR eq_A xh = vscale OpsR nu (hadamard OpsR e (mv OpsR A un_x)).
Proof.
  unfold eq_A, un_x. rewrite mv_scale_rows_cols, mv_vscale.
  rewrite (hadamard_comm xh d).
  rewrite hadamard_vscale_r, vscale_vscale.
  replace (nu * (1 / nu)) with 1 by (field; lra).
  rewrite vscale_1. reflexivity.
Qed.

Lemma eq_A_mtv : mtv OpsR eq_A zh n = vscale OpsR (c * nu) (hadamard OpsR d (mtv OpsR A un_z n)).
Proof.
  unfold eq_A, un_z. rewrite mtv_scale_rows_cols by lia. rewrite mtv_vscale.
  rewrite (hadamard_comm zh e).
  rewrite hadamard_vscale_r, vscale_vscale.
  replace (c * nu * (1 / (c * nu))) with 1 by (field; lra).
  rewrite vscale_1. reflexivity.
Qed.

(** 1. primal residual: E^-1 (Ah xh + sh - nu bh) / nu = A x + s - b *)
Theorem unscale_residual_primal :
  vscale OpsR (1 / nu)
    (hadamard OpsR (map Rinv e)
       (vsub OpsR (vadd OpsR (mv OpsR eq_A xh) sh) (vscale OpsR nu eq_b)))
  = vsub OpsR (vadd OpsR (mv OpsR A un_x) un_s) b.
Proof.
  unfold eq_A, eq_b, un_x, un_s.
  rewrite mv_scale_rows_cols, mv_vscale, (hadamard_comm xh d).
  apply primal_entrywise; [exact He|lra].
Qed.

(** 2. dual residual: D^-1 (Ph xh + Ah' zh + nu qh) / (c nu) = P x + A' z + q *)
Theorem unscale_residual_dual :
  vscale OpsR (1 / (c * nu))
    (hadamard OpsR (map Rinv d)
       (vadd OpsR (vadd OpsR (mv OpsR eq_P xh) (mtv OpsR eq_A zh n)) (vscale OpsR nu eq_q)))
  = vadd OpsR (vadd OpsR (mv OpsR P un_x) (mtv OpsR A un_z n)) q.
Proof.
  unfold eq_P, eq_A, eq_q, un_x, un_z.
  rewrite mv_mscale, mv_scale_rows_cols, mtv_scale_rows_cols by lia.
  rewrite mv_vscale, mtv_vscale, (hadamard_comm xh d), (hadamard_comm zh e).
  apply dual_entrywise; [exact Hd|lra|lra|].
  rewrite mtv_length. symmetry; exact Hn.
Qed.

(** 3. cost identities *)
Theorem dot_q_invariance : dot OpsR eq_q xh = c * nu * dot OpsR q un_x.
Proof. unfold eq_q, un_x. apply dot_q_entrywise. lra. Qed.

Theorem dot_b_invariance : dot OpsR eq_b zh = c * nu * dot OpsR b un_z.
Proof. unfold eq_b, un_z. apply dot_b_entrywise; lra. Qed.

Theorem xPx_invariance :
  dot OpsR xh (mv OpsR eq_P xh) = c * (nu * nu) * dot OpsR un_x (mv OpsR P un_x).
Proof.
  unfold eq_P, un_x. rewrite mv_mscale, mv_scale_rows_cols, mv_vscale, (hadamard_comm d xh).
  apply xPx_entrywise. lra.
Qed.

Theorem dot_sz_invariance :
  length sh = length e -> dot OpsR sh zh = c * (nu * nu) * dot OpsR un_s un_z.
Proof.
  intros Hlen. unfold un_s, un_z. rewrite dot_vscale_l, dot_vscale_r.
  rewrite (dot_hadamard_inv e sh zh He Hlen). field. split; lra.
Qed.

(** 4. norm identities of info.rs *)
Theorem sumsq_x_invariance : sumsq OpsR (hadamard OpsR xh d) = (nu * nu) * sumsq OpsR un_x.
Proof. unfold un_x. rewrite sumsq_vscale. field. lra. Qed.
Theorem sumsq_s_invariance :
  sumsq OpsR (hadamard OpsR sh (map Rinv e)) = (nu * nu) * sumsq OpsR un_s.
Proof. unfold un_s. rewrite sumsq_vscale. field. lra. Qed.
Theorem sumsq_z_invariance :
  sumsq OpsR (hadamard OpsR zh e) = (c * nu) * (c * nu) * sumsq OpsR un_z.
Proof. unfold un_z. rewrite sumsq_vscale. field. split; lra. Qed.

Theorem norm_scaled_x : norm_scaled OpsR xh d = nu * norm2 un_x.
Proof. rewrite norm_scaled_norm2. unfold un_x. apply norm2_unscale. exact Hnu. Qed.
Theorem norm_scaled_s : norm_scaled OpsR sh (map Rinv e) = nu * norm2 un_s.
Proof. rewrite norm_scaled_norm2. unfold un_s. apply norm2_unscale. exact Hnu. Qed.
Theorem norm_scaled_z : norm_scaled OpsR zh e = c * nu * norm2 un_z.
Proof. rewrite norm_scaled_norm2. unfold un_z. apply norm2_unscale. nra. Qed.

(** norms of the residual blocks the infeasibility tests read *)
Theorem norm_scaled_Px :
  length P = n ->
  norm_scaled OpsR (mv OpsR eq_P xh) (map Rinv d) = c * nu * norm2 (mv OpsR P un_x).
Proof.
  intros HP. rewrite norm_scaled_norm2, eq_P_mv.
  rewrite hadamard_vscale_l, hadamard_inv_cancel by (auto; rewrite mv_length; lia).
  apply norm2_vscale. nra.
Qed.

Theorem norm_scaled_Atz :
  norm_scaled OpsR (map Ropp (mtv OpsR eq_A zh n)) (map Rinv d)
  = c * nu * norm2 (mtv OpsR A un_z n).
Proof.
  rewrite norm_scaled_norm2, hadamard_opp_l, norm2_opp, eq_A_mtv.
  rewrite hadamard_vscale_l, hadamard_inv_cancel by (auto; rewrite mtv_length; lia).
  apply norm2_vscale. nra.
Qed.

Theorem norm_scaled_Axs :
  norm_scaled OpsR (vadd OpsR (mv OpsR eq_A xh) sh) (map Rinv e)
  = nu * norm2 (vadd OpsR (mv OpsR A un_x) un_s).
Proof.
  rewrite norm_scaled_norm2, eq_A_mv.
  unfold un_s at 1. rewrite Axs_entrywise by (auto; lra).
  fold un_s. apply norm2_vscale. lra.
Qed.

(** residual norms of info.rs (res_primal / res_dual numerators) *)
Theorem norm_scaled_rz :
  norm_scaled OpsR (vsub OpsR (vadd OpsR (mv OpsR eq_A xh) sh) (vscale OpsR nu eq_b)) (map Rinv e)
  = nu * norm2 (vsub OpsR (vadd OpsR (mv OpsR A un_x) un_s) b).
Proof.
  rewrite <- unscale_residual_primal. rewrite norm_scaled_norm2.
  rewrite (hadamard_comm _ (map Rinv e)). apply norm2_unscale. exact Hnu.
Qed.
Theorem norm_scaled_rx :
  norm_scaled OpsR (vadd OpsR (vadd OpsR (mv OpsR eq_P xh) (mtv OpsR eq_A zh n)) (vscale OpsR nu eq_q))
              (map Rinv d)
  = c * nu * norm2 (vadd OpsR (vadd OpsR (mv OpsR P un_x) (mtv OpsR A un_z n)) q).
Proof.
  rewrite <- unscale_residual_dual. rewrite norm_scaled_norm2.
  rewrite (hadamard_comm _ (map Rinv d)). apply norm2_unscale. nra.
Qed.
End Equil.

(** * 6. C02: the scaled infeasibility tests in user coordinates *)
Lemma div_lt_mult (a b M : R) : 0 < M -> a / M < b -> a < b * M.
Proof.
  intros HM H. replace a with (a / M * M) by (field; lra).
  apply Rmult_lt_compat_r; assumption.
Qed.
Lemma mult_lt_div (a b M : R) : 0 < M -> a < b * M -> a / M < b.
Proof.
  intros HM H. replace b with (b * M / M) by (field; lra).
  unfold Rdiv. apply Rmult_lt_compat_r; [apply Rinv_0_lt_compat; exact HM|exact H].
Qed.
Lemma Rmax_1_pos (a : R) : 0 < Rmax 1 a.
Proof. pose proof (Rmax_l 1 a). lra. Qed.

Section C02.
Variables (d e : list R) (c kap : R).
Hypothesis Hd : allpos d.
Hypothesis He : allpos e.
Hypothesis Hc : 0 < c.
Hypothesis Hkap : 0 < kap.
Variables (P A : smat R) (q b : list R) (xh sh zh : list R) (n : nat).
Hypothesis Hn : length d = n.
Variables (ta tr : R).

(** FarkasP's two numeric conjuncts from [is_primal_infeasible] on the internal iterate *)
Theorem C02_primal_cert (rpi : R) :
  let z := un_z e c zh kap in
  let bz := dot OpsR (eq_b e b) zh in
  rpi = (norm_scaled OpsR (map Ropp (mtv OpsR (eq_A d e A) zh n)) (map Rinv d) * (1 / c))
        / Rmax 1 (norm_scaled OpsR zh e * (1 / c)) ->
  bz < - ta /\ rpi < - tr * bz ->
  c * kap * dot OpsR b z < - ta /\
  norm2 (mtv OpsR A z n) < tr * c * (- dot OpsR b z) * Rmax 1 (kap * norm2 z).
Proof.
  cbv zeta. intros Hr [H1 H2].
  rewrite (norm_scaled_Atz d e c Hd Hc A zh kap Hkap n Hn) in Hr.
  rewrite (norm_scaled_z e c Hc zh kap Hkap) in Hr.
  rewrite (dot_b_invariance e c Hc b zh kap Hkap) in H1, H2.
  set (z := un_z e c zh kap) in *.
  set (N := norm2 (mtv OpsR A z n)) in *. set (Z := norm2 z) in *. set (B := dot OpsR b z) in *.
  split; [exact H1|].
  replace (c * kap * N * (1 / c)) with (kap * N) in Hr by (field; lra).
  replace (c * kap * Z * (1 / c)) with (kap * Z) in Hr by (field; lra).
  pose proof (Rmax_1_pos (kap * Z)) as HM. set (M := Rmax 1 (kap * Z)) in *.
  rewrite Hr in H2. apply div_lt_mult in H2; [|exact HM].
  apply (Rmult_lt_reg_l kap); [exact Hkap|]. lra.
Qed.

(** FarkasD's three numeric conjuncts from [is_dual_infeasible] on the internal iterate *)
Theorem C02_dual_cert (rdi : R) :
  let x := un_x d xh kap in
  let s := un_s e sh kap in
  let qx := dot OpsR (eq_q d c q) xh in
  let normx := norm_scaled OpsR xh d in
  let norms := norm_scaled OpsR sh (map Rinv e) in
  length P = n ->
  rdi = Rmax (norm_scaled OpsR (mv OpsR (eq_P d c P) xh) (map Rinv d) / Rmax 1 normx)
             (norm_scaled OpsR (vadd OpsR (mv OpsR (eq_A d e A) xh) sh) (map Rinv e)
              / Rmax 1 (normx + norms)) ->
  qx < - ta /\ rdi < - tr * qx ->
  c * kap * dot OpsR q x < - ta /\
  norm2 (mv OpsR P x) < tr * (- dot OpsR q x) * Rmax 1 (kap * norm2 x) /\
  norm2 (vadd OpsR (mv OpsR A x) s) < tr * c * (- dot OpsR q x) * Rmax 1 (kap * (norm2 x + norm2 s)).
Proof.
  cbv zeta. intros HP Hr [H1 H2].
  rewrite (norm_scaled_Px d c Hd Hc P xh kap Hkap n Hn HP) in Hr.
  rewrite (norm_scaled_Axs d e He A xh sh kap Hkap) in Hr.
  rewrite (norm_scaled_x d xh kap Hkap) in Hr.
  rewrite (norm_scaled_s e sh kap Hkap) in Hr.
  rewrite (dot_q_invariance d c q xh kap Hkap) in H1, H2.
  set (x := un_x d xh kap) in *. set (s := un_s e sh kap) in *.
  set (NP := norm2 (mv OpsR P x)) in *. set (NA := norm2 (vadd OpsR (mv OpsR A x) s)) in *.
  set (X := norm2 x) in *. set (S := norm2 s) in *. set (Q := dot OpsR q x) in *.
  split; [exact H1|].
  replace (kap * X + kap * S) with (kap * (X + S)) in Hr by ring.
  pose proof (Rmax_1_pos (kap * X)) as HM1. set (M1 := Rmax 1 (kap * X)) in *.
  pose proof (Rmax_1_pos (kap * (X + S))) as HM2. set (M2 := Rmax 1 (kap * (X + S))) in *.
  assert (Ha : c * kap * NP / M1 < - tr * (c * kap * Q)).
  { eapply Rle_lt_trans; [apply Rmax_l|]. rewrite <- Hr. exact H2. }
  assert (Hb : kap * NA / M2 < - tr * (c * kap * Q)).
  { eapply Rle_lt_trans; [apply Rmax_r|]. rewrite <- Hr. exact H2. }
  apply div_lt_mult in Ha; [|exact HM1]. apply div_lt_mult in Hb; [|exact HM2].
  split.
  - apply (Rmult_lt_reg_l (c * kap)); [nra|]. lra.
  - apply (Rmult_lt_reg_l kap); [exact Hkap|]. lra.
Qed.
End C02.

(** * Link with the records of Term/Model.v *)
Definition equil_data (d e : list R) (c : R) (P A : smat R) (q b : list R) (normb normq : R)
  : @data R :=
  mkData (eq_P d c P) (eq_q d c q) (eq_A d e A) (eq_b e b) d (map Rinv d) e (map Rinv e) c
         normb normq.

Lemma rx_opp (p tq a : list R) :
  vadd OpsR (vsub OpsR (map Ropp p) tq) (map Ropp a) = map Ropp (vadd OpsR (vadd OpsR p a) tq).
Proof.
  revert tq a; induction p as [|pi p IH]; intros [|ti tq] [|ai a]; try reflexivity.
  cbn [map]. autorewrite with vecR. cbn [map]. rewrite <- IH. cbn [map]. f_equal. lra.
Qed.

Section ModelLink.
Variables (d e : list R) (c : R).
Hypothesis Hd : allpos d.
Hypothesis He : allpos e.
Hypothesis Hc : 0 < c.
Variables (P A : smat R) (q b : list R) (normb normq : R).
Variables (xh sh zh : list R) (tau kap : R).
Variable n : nat.
Hypothesis Hn : length d = n.
Hypothesis Hq : length q = n.

Let dat := equil_data d e c P A q b normb normq.
Let v := mkVars xh sh zh tau kap.
Let r := residuals_update OpsR v dat.

Lemma eq_q_length : length (eq_q d c q) = n.
Proof. unfold eq_q. rewrite vscale_length, hadamard_length, Hq, Hn. apply Nat.min_id. Qed.

(** variables.rs unscale returns exactly [un_x], [un_s], [un_z] *)
Lemma unscale_user (infeas : bool) :
  let nu := if infeas then kap else tau in
  nu <> 0 ->
  unscale OpsR v dat infeas
  = mkVars (un_x d xh nu) (un_s e sh nu) (un_z e c zh nu) (tau * (1 / nu)) (kap * (1 / nu)).
Proof.
  cbv zeta. intros Hnu. unfold unscale, v, dat, equil_data.
  cbn [vx vs vz vtau vkap dd deinv de_ dc]. unfold un_x, un_s, un_z.
  destruct infeas; rewrite !recip_R; cbn [mul OpsR]; f_equal; f_equal; field; split; lra.
Qed.

(** residuals.rs in user coordinates *)
Lemma residuals_rz :
  rz r = vsub OpsR (vadd OpsR (mv OpsR (eq_A d e A) xh) sh) (vscale OpsR tau (eq_b e b)).
Proof. reflexivity. Qed.
Lemma residuals_rx :
  rx r = map Ropp (vadd OpsR (vadd OpsR (mv OpsR (eq_P d c P) xh) (mtv OpsR (eq_A d e A) zh n))
                             (vscale OpsR tau (eq_q d c q))).
Proof.
  unfold r, residuals_update, dat, v, equil_data. cbn [rx vx vs vz vtau vkap dP dq dA db neg OpsR].
  rewrite eq_q_length. apply rx_opp.
Qed.
Lemma residuals_rx_inf : rx_inf r = map Ropp (mtv OpsR (eq_A d e A) zh n).
Proof.
  unfold r, residuals_update, dat, v, equil_data. cbn [rx_inf vx vs vz vtau vkap dP dq dA db neg OpsR].
  rewrite eq_q_length. reflexivity.
Qed.
Lemma residuals_rz_inf : rz_inf r = vadd OpsR (mv OpsR (eq_A d e A) xh) sh.
Proof. reflexivity. Qed.
Lemma residuals_dots :
  dot_qx r = dot OpsR (eq_q d c q) xh /\ dot_bz r = dot OpsR (eq_b e b) zh /\
  dot_sz r = dot OpsR sh zh /\ dot_xPx r = dot OpsR xh (mv OpsR (eq_P d c P) xh) /\
  rPx r = mv OpsR (eq_P d c P) xh.
Proof. repeat split; reflexivity. Qed.

Variables (i0 : @info R) (time : R).
Let i1 := info_update OpsR i0 dat v r time.

(** the infeasibility figures of info.rs are those [C02_primal_cert] / [C02_dual_cert] read *)
Lemma info_res_primal_inf :
  res_primal_inf i1
  = (norm_scaled OpsR (map Ropp (mtv OpsR (eq_A d e A) zh n)) (map Rinv d) * (1 / c))
    / Rmax 1 (norm_scaled OpsR zh e * (1 / c)).
Proof.
  unfold i1, info_update. cbn [res_primal_inf]. rewrite residuals_rx_inf, omax_Rmax. reflexivity.
Qed.
Lemma info_res_dual_inf :
  res_dual_inf i1
  = Rmax (norm_scaled OpsR (mv OpsR (eq_P d c P) xh) (map Rinv d) / Rmax 1 (norm_scaled OpsR xh d))
         (norm_scaled OpsR (vadd OpsR (mv OpsR (eq_A d e A) xh) sh) (map Rinv e)
          / Rmax 1 (norm_scaled OpsR xh d + norm_scaled OpsR sh (map Rinv e))).
Proof.
  unfold i1, info_update. cbn [res_dual_inf]. rewrite !omax_Rmax. reflexivity.
Qed.

Hypothesis Htau : 0 < tau.
Let x := un_x d xh tau.
Let s := un_s e sh tau.
Let z := un_z e c zh tau.

(** info.rs update: the figures of the termination test on the user's data *)
Theorem info_cost_primal : cost_primal i1 = cost_p2 OpsR P q x / 2.
Proof.
  unfold i1, info_update. cbn [cost_primal]. unfold cost_p2, xPx, two.
  destruct residuals_dots as (E1 & _ & _ & E4 & _). rewrite E1, E4.
  rewrite (dot_q_invariance d c q xh tau Htau), (xPx_invariance d c P xh tau Htau).
  fold x. rewrite !recip_R. unfold dat, equil_data, v. cbn [dc vtau add sub mul div one OpsR].
  field. split; lra.
Qed.
Theorem info_cost_dual : cost_dual i1 = cost_d2 OpsR P b x z / 2.
Proof.
  unfold i1, info_update. cbn [cost_dual]. unfold cost_d2, xPx, two.
  destruct residuals_dots as (_ & E2 & _ & E4 & _). rewrite E2, E4.
  rewrite (dot_b_invariance e c Hc b zh tau Htau), (xPx_invariance d c P xh tau Htau).
  fold x z. rewrite !recip_R. unfold dat, equil_data, v. cbn [dc vtau add sub mul div one neg OpsR].
  field. split; lra.
Qed.
Theorem info_res_primal :
  res_primal i1 = norm2 (res_p OpsR A b x s) / Rmax 1 (normb + norm2 x + norm2 s).
Proof.
  unfold i1, info_update. cbn [res_primal]. rewrite residuals_rz, omax_Rmax, !recip_R.
  unfold dat, equil_data, v. cbn [dc vtau vx vs vz dd ddinv de_ deinv dnormb add sub mul div one OpsR].
  rewrite (norm_scaled_rz d e He A b xh sh tau Htau).
  rewrite (norm_scaled_x d xh tau Htau), (norm_scaled_s e sh tau Htau).
  fold x s. unfold res_p.
  replace (tau * norm2 x * (1 / tau)) with (norm2 x) by (field; lra).
  replace (tau * norm2 s * (1 / tau)) with (norm2 s) by (field; lra).
  unfold Rdiv. f_equal. field. lra.
Qed.
Theorem info_res_dual :
  res_dual i1 = norm2 (res_d OpsR P A q x z) / Rmax 1 (normq + norm2 x + norm2 z).
Proof.
  unfold i1, info_update. cbn [res_dual]. rewrite residuals_rx, omax_Rmax, !recip_R.
  unfold dat, equil_data, v. cbn [dc vtau vx vs vz dd ddinv de_ deinv dnormq add sub mul div one OpsR].
  rewrite norm_scaled_norm2, hadamard_opp_l, norm2_opp, <- norm_scaled_norm2.
  rewrite (norm_scaled_rx d e c Hd Hc P A q xh zh tau Htau n Hn).
  rewrite (norm_scaled_x d xh tau Htau), (norm_scaled_z e c Hc zh tau Htau).
  fold x z. unfold res_d. rewrite Hq.
  replace (tau * norm2 x * (1 / tau)) with (norm2 x) by (field; lra).
  replace (c * tau * norm2 z * (1 / c) * (1 / tau)) with (norm2 z) by (field; lra).
  unfold Rdiv. f_equal. field. split; lra.
Qed.
Theorem info_gap :
  gap_abs i1 = Rabs (cost_primal i1 - cost_dual i1) /\
  gap_rel i1 = Rabs (cost_primal i1 - cost_dual i1)
               / Rmax 1 (Rmin (Rabs (cost_primal i1)) (Rabs (cost_dual i1))).
Proof.
  unfold i1, info_update. cbn [gap_abs gap_rel cost_primal cost_dual].
  rewrite omax_Rmax, omin_Rmin. split; reflexivity.
Qed.
Theorem info_ktratio : ktratio i1 = kap * (1 / tau).
Proof. reflexivity. Qed.

(** C01: [is_solved] on the internal figures is the documented test on the user's data.
    (the numeric conjuncts of [Spec.TermTest] for a problem whose kept rows are [A], [b]) *)
Theorem C01_solved_user (p : probRr) (tga tgr tf : R) :
  sel (r_keep p) (r_A p) = A -> sel (r_keep p) (r_b p) = b -> r_P p = P -> r_q p = q ->
  normb = ninf b -> normq = ninf q ->
  is_solved OpsR i1 tga tgr tf = true ->
  feas_p p tf x s /\ feas_d p tf x z /\ gap_ok p tga tgr x z.
Proof.
  intros EA Eb EP Eq Enb Enq H. apply is_solved_sound in H.
  destruct H as (Hg & Hp & Hdl).
  unfold feas_p, feas_d, gap_ok, cost_p, cost_d. rewrite EA, Eb, EP, Eq. cbv zeta.
  rewrite info_res_primal in Hp. rewrite info_res_dual in Hdl.
  destruct info_gap as [Ega Egr]. rewrite Ega, Egr in Hg.
  rewrite info_cost_primal, info_cost_dual in Hg.
  rewrite Enb in Hp. rewrite Enq in Hdl.
  split; [|split].
  - apply div_lt_mult in Hp; [exact Hp|apply Rmax_1_pos].
  - apply div_lt_mult in Hdl; [exact Hdl|apply Rmax_1_pos].
  - destruct Hg as [Hg|Hg]; [left; exact Hg|right].
    apply div_lt_mult in Hg; [exact Hg|apply Rmax_1_pos].
Qed.
(** C02 on the records: what [is_primal_infeasible] / [is_dual_infeasible] on the internal
    figures say about the vectors returned for an infeasible status (normalised by kappa) *)
Theorem C02_primal_user (ta tr : R) :
  0 < kap ->
  is_primal_infeasible OpsR i1 (dot_bz r) ta tr = true ->
  let zu := un_z e c zh kap in
  c * kap * dot OpsR b zu < - ta /\
  norm2 (mtv OpsR A zu n) < tr * c * (- dot OpsR b zu) * Rmax 1 (kap * norm2 zu).
Proof.
  intros Hkap H. apply is_primal_infeasible_sound in H.
  apply (C02_primal_cert d e c kap Hd Hc Hkap A b zh n Hn ta tr (res_primal_inf i1)).
  - apply info_res_primal_inf.
  - exact H.
Qed.
Theorem C02_dual_user (ta tr : R) :
  0 < kap -> length P = n ->
  is_dual_infeasible OpsR i1 (dot_qx r) ta tr = true ->
  let xu := un_x d xh kap in
  let su := un_s e sh kap in
  c * kap * dot OpsR q xu < - ta /\
  norm2 (mv OpsR P xu) < tr * (- dot OpsR q xu) * Rmax 1 (kap * norm2 xu) /\
  norm2 (vadd OpsR (mv OpsR A xu) su)
    < tr * c * (- dot OpsR q xu) * Rmax 1 (kap * (norm2 xu + norm2 su)).
Proof.
  intros Hkap HP H. apply is_dual_infeasible_sound in H.
  apply (C02_dual_cert d e c kap Hd He Hc Hkap P A q xh sh n Hn ta tr (res_dual_inf i1) HP).
  - apply info_res_dual_inf.
  - exact H.
Qed.
End ModelLink.

(** * 8. Non-vacuity: a concrete instance with non-identity equilibration
    minimise x^2/2 - x  s.t. -2 <= x <= 2  (rows  x + s1 = 2, -x + s2 = 2, s >= 0):
    optimum x = 1, s = (1, 3), z = 0.  Equilibration d = [2], e = [1/2; 4], c = 3; the internal
    iterate is the exact optimum scaled by tau = 5. *)
Definition ex_d : list R := [2].
Definition ex_e : list R := [1 / 2; 4].
Definition ex_c : R := 3.
Definition ex_tau : R := 5.
Definition ex_kap : R := 1.
Definition ex_P : smat R := [[(0%nat, 1)]].
Definition ex_A : smat R := [[(0%nat, 1)]; [(0%nat, -1)]].
Definition ex_q : list R := [-1].
Definition ex_b : list R := [2; 2].
Definition ex_xh : list R := [5 / 2].
Definition ex_sh : list R := [5 / 2; 60].
Definition ex_zh : list R := [0; 0].

Ltac ex_eval :=
  cbv beta iota zeta delta
    [ex_d ex_e ex_c ex_tau ex_kap ex_P ex_A ex_q ex_b ex_xh ex_sh ex_zh
     un_x un_s un_z eq_P eq_A eq_q eq_b mscale scale_rows_cols srow_scale
     res_p res_d cost_p2 cost_d2 xPx two dot sumsq mv mtv rdot rget vsum vnth vadd vsub vscale
     hadamard map combine fold_left fst snd nth seq length Nat.eqb
     add sub mul div neg zero one OpsR].


Lemma ex_allpos_d : allpos ex_d.
Proof. unfold allpos, ex_d. repeat constructor; lra. Qed.
Lemma ex_allpos_e : allpos ex_e.
Proof. unfold allpos, ex_e. repeat constructor; lra. Qed.

Lemma ex_res_p : res_p OpsR ex_A ex_b (un_x ex_d ex_xh ex_tau) (un_s ex_e ex_sh ex_tau) = [0; 0].
Proof. ex_eval. f_equal; [field|f_equal; field]. Qed.
Lemma ex_res_d :
  res_d OpsR ex_P ex_A ex_q (un_x ex_d ex_xh ex_tau) (un_z ex_e ex_c ex_zh ex_tau) = [0].
Proof. ex_eval. f_equal; field. Qed.
Lemma ex_cost_p : cost_p2 OpsR ex_P ex_q (un_x ex_d ex_xh ex_tau) = -1.
Proof. ex_eval. field. Qed.
Lemma ex_cost_d :
  cost_d2 OpsR ex_P ex_b (un_x ex_d ex_xh ex_tau) (un_z ex_e ex_c ex_zh ex_tau) = -1.
Proof. ex_eval. field. Qed.
Lemma norm2_zeros2 : norm2 [0; 0] = 0.
Proof. unfold norm2. replace (sumsq OpsR [0; 0]) with 0 by (ex_eval; lra). apply sqrt_0. Qed.
Lemma norm2_zeros1 : norm2 [0] = 0.
Proof. unfold norm2. replace (sumsq OpsR [0]) with 0 by (ex_eval; lra). apply sqrt_0. Qed.

Definition ex_i0 : @info R :=
  mkInfo 0 0 0 0 0 0 0 0 0 0 0 0 0 0 0 0%nat 0 St_Unsolved.
Definition ex_dat : @data R :=
  equil_data ex_d ex_e ex_c ex_P ex_A ex_q ex_b (ninf ex_b) (ninf ex_q).
Definition ex_v : @vars R := mkVars ex_xh ex_sh ex_zh ex_tau ex_kap.
Definition ex_i1 : @info R :=
  info_update OpsR ex_i0 ex_dat ex_v (residuals_update OpsR ex_v ex_dat) 0.

(** the internal iterate of the instance passes [is_solved] with the default full tolerances *)
Example ex_is_solved : is_solved OpsR ex_i1 (1 / 100000000) (1 / 100000000) (1 / 100000000) = true.
Proof.
  assert (Ht : 0 < ex_tau) by (unfold ex_tau; lra).
  assert (Hc : 0 < ex_c) by (unfold ex_c; lra).
  unfold ex_i1, ex_dat, ex_v. apply is_solved_complete.
  - left.
    rewrite (proj1 (info_gap _ _ _ _ _ _ _ _ _ _ _ _ _ _ _ _)).
    rewrite (info_cost_primal ex_d ex_e ex_c Hc ex_P ex_A ex_q ex_b _ _ ex_xh ex_sh ex_zh ex_tau ex_kap
               ex_i0 0 Ht).
    rewrite (info_cost_dual ex_d ex_e ex_c Hc ex_P ex_A ex_q ex_b _ _ ex_xh ex_sh ex_zh ex_tau ex_kap
               ex_i0 0 Ht).
    rewrite ex_cost_p, ex_cost_d.
    replace (-1 / 2 - -1 / 2) with 0 by lra. rewrite Rabs_R0. lra.
  - rewrite (info_res_primal ex_d ex_e ex_c ex_allpos_e ex_P ex_A ex_q ex_b _ _ ex_xh ex_sh ex_zh
               ex_tau ex_kap ex_i0 0 Ht).
    rewrite ex_res_p, norm2_zeros2. unfold Rdiv at 1. rewrite Rmult_0_l. lra.
  - rewrite (info_res_dual ex_d ex_e ex_c ex_allpos_d Hc ex_P ex_A ex_q ex_b _ _ ex_xh ex_sh ex_zh
               ex_tau ex_kap 1%nat eq_refl eq_refl ex_i0 0 Ht).
    rewrite ex_res_d, norm2_zeros1. unfold Rdiv at 1. rewrite Rmult_0_l. lra.
Qed.

(** ... hence the hypotheses of [C01_solved_user] are jointly satisfiable *)
Definition ex_prob : probRr := mkProbRr 1 2 ex_P ex_q ex_A ex_b [KNN 2] [true; true].
Example ex_C01 :
  let x := un_x ex_d ex_xh ex_tau in
  let s := un_s ex_e ex_sh ex_tau in
  let z := un_z ex_e ex_c ex_zh ex_tau in
  feas_p ex_prob (1 / 100000000) x s /\ feas_d ex_prob (1 / 100000000) x z /\
  gap_ok ex_prob (1 / 100000000) (1 / 100000000) x z.
Proof.
  cbv zeta.
  assert (Ht : 0 < ex_tau) by (unfold ex_tau; lra).
  assert (Hc : 0 < ex_c) by (unfold ex_c; lra).
  apply (C01_solved_user ex_d ex_e ex_c ex_allpos_d ex_allpos_e Hc ex_P ex_A ex_q ex_b
           (ninf ex_b) (ninf ex_q) ex_xh ex_sh ex_zh ex_tau ex_kap 1%nat eq_refl eq_refl ex_i0 0 Ht
           ex_prob (1 / 100000000) (1 / 100000000) (1 / 100000000));
    try reflexivity.
  exact ex_is_solved.
Qed.

(** the returned point of the instance is x = 1, s = (1, 3), z = 0 *)
Example ex_unscaled :
  un_x ex_d ex_xh ex_tau = [1] /\ un_s ex_e ex_sh ex_tau = [1; 3] /\ un_z ex_e ex_c ex_zh ex_tau = [0; 0].
Proof.
  ex_eval. split; [|split]; repeat (f_equal; try field).
Qed.

(** a primal infeasible instance:  x + s1 = -1, -x + s2 = -1, s >= 0 ; certificate z = (1,1),
    internal zh = c kap E^-1 z with kap = 5 *)
Definition ex2_b : list R := [-1; -1].
Definition ex2_zh : list R := [30; 15 / 4].
Definition ex2_kap : R := 5.
Definition ex2_dat : @data R :=
  equil_data ex_d ex_e ex_c ex_P ex_A ex_q ex2_b (ninf ex2_b) (ninf ex_q).
Definition ex2_v : @vars R := mkVars [0] [1; 1] ex2_zh (1 / 1000) ex2_kap.
Definition ex2_i1 : @info R :=
  info_update OpsR ex_i0 ex2_dat ex2_v (residuals_update OpsR ex2_v ex2_dat) 0.

Example ex2_is_primal_infeasible :
  is_primal_infeasible OpsR ex2_i1 (dot_bz (residuals_update OpsR ex2_v ex2_dat))
    (1 / 10000) (1 / 10000) = true.
Proof.
  assert (Hk : 0 < ex2_kap) by (unfold ex2_kap; lra).
  assert (Hc : 0 < ex_c) by (unfold ex_c; lra).
  assert (Hbz : dot_bz (residuals_update OpsR ex2_v ex2_dat) = -30).
  { unfold residuals_update, ex2_v, ex2_dat, equil_data. cbn [dot_bz db vz].
    unfold ex2_b, ex2_zh. ex_eval. field. }
  unfold is_primal_infeasible. cbn [ltb neg mul OpsR]. rewrite Hbz.
  apply andb_true_iff. split; apply Rltb_true; [lra|].
  unfold ex2_i1, ex2_dat, ex2_v.
  rewrite (info_res_primal_inf ex_d ex_e ex_c ex_P ex_A ex_q ex2_b _ _ [0] [1; 1] ex2_zh (1 / 1000)
             ex2_kap 1%nat eq_refl eq_refl ex_i0 0).
  rewrite (norm_scaled_Atz ex_d ex_e ex_c ex_allpos_d Hc ex_A ex2_zh ex2_kap Hk 1%nat eq_refl).
  replace (mtv OpsR ex_A (un_z ex_e ex_c ex2_zh ex2_kap) 1) with [0].
  - rewrite norm2_zeros1. unfold Rdiv at 1. rewrite !Rmult_0_r, !Rmult_0_l. lra.
  - unfold ex2_zh, ex2_kap. ex_eval. f_equal. field.
Qed.

Example ex2_C02 :
  let z := un_z ex_e ex_c ex2_zh ex2_kap in
  ex_c * ex2_kap * dot OpsR ex2_b z < - (1 / 10000) /\
  norm2 (mtv OpsR ex_A z 1)
    < 1 / 10000 * ex_c * (- dot OpsR ex2_b z) * Rmax 1 (ex2_kap * norm2 z).
Proof.
  assert (Hk : 0 < ex2_kap) by (unfold ex2_kap; lra).
  assert (Hc : 0 < ex_c) by (unfold ex_c; lra).
  exact (C02_primal_user ex_d ex_e ex_c ex_allpos_d Hc ex_P ex_A ex_q ex2_b (ninf ex2_b) (ninf ex_q)
           [0] [1; 1] ex2_zh (1 / 1000) ex2_kap 1%nat eq_refl eq_refl ex_i0 0 (1 / 10000) (1 / 10000)
           Hk ex2_is_primal_infeasible).
Qed.

Example ex_reverse_rows :
  reverse_rows [true; false; true] [1; 2] 9 = [1; 9; 2] /\
  sel [true; false; true] (reverse_rows [true; false; true] [1; 2] 9) = [1; 2].
Proof. split; reflexivity. Qed.
