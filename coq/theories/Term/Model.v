(** Term/Model.v — executable Gallina transcription (same operation order) of the anchored Rust
    functions, over [Ops T]:
      residuals.rs   DefaultResiduals::update
      info.rs        DefaultInfo::{update, check_termination, check_convergence_full/almost,
                     check_convergence, is_solved, is_primal_infeasible, is_dual_infeasible,
                     save_prev_iterate, reset_to_prev_iterate, post_process}
      variables.rs   DefaultVariables::unscale
      solution.rs    DefaultSolution::post_process
      presolver.rs   Presolver::reverse_presolve
    Mutation through [&mut] becomes a returned record.  No proofs in this file.
    Matrices are lists of sparse rows (Term/Eval.v); [P] is the full symmetric matrix (the Rust
    code stores the upper triangle and multiplies with [symv]: same product). *)
From Coq Require Import List ZArith NArith Bool Arith.
Import ListNotations.
Require Import Clarabel.Base.Ops Clarabel.Term.Eval.

Inductive status : Set :=
| St_Unsolved | St_Solved | St_PrimalInfeasible | St_DualInfeasible
| St_AlmostSolved | St_AlmostPrimalInfeasible | St_AlmostDualInfeasible
| St_MaxIterations | St_MaxTime | St_NumericalError | St_InsufficientProgress.
Definition status_eqb (a b : status) : bool :=
  match a, b with
  | St_Unsolved, St_Unsolved | St_Solved, St_Solved | St_PrimalInfeasible, St_PrimalInfeasible
  | St_DualInfeasible, St_DualInfeasible | St_AlmostSolved, St_AlmostSolved
  | St_AlmostPrimalInfeasible, St_AlmostPrimalInfeasible
  | St_AlmostDualInfeasible, St_AlmostDualInfeasible | St_MaxIterations, St_MaxIterations
  | St_MaxTime, St_MaxTime | St_NumericalError, St_NumericalError
  | St_InsufficientProgress, St_InsufficientProgress => true
  | _, _ => false end.
(** SolverStatus::is_infeasible / is_errored *)
Definition is_infeasible (s : status) : bool :=
  match s with St_PrimalInfeasible | St_DualInfeasible | St_AlmostPrimalInfeasible | St_AlmostDualInfeasible => true | _ => false end.
Definition is_errored (s : status) : bool :=
  match s with St_NumericalError | St_InsufficientProgress => true | _ => false end.

Section Model.
Context {T : Type} (O : Ops T).
Notation "a +. b" := (add O a b) (at level 50, left associativity).
Notation "a -. b" := (sub O a b) (at level 50, left associativity).
Notation "a *. b" := (mul O a b) (at level 40, left associativity).
Notation "a /. b" := (div O a b) (at level 40, left associativity).
Definition recip (a : T) : T := one O /. a.
Definition hadamard (x y : list T) : list T := map (fun p => fst p *. snd p) (combine x y).
(** vecmath.rs norm_scaled: sqrt( sum (x_i v_i)^2 ) *)
Definition norm_scaled (x v : list T) : T := sqrt O (sumsq O (hadamard x v)).
Definition norm2m (x : list T) : T := sqrt O (sumsq O x).

(** ** internal problem data and iterate (scaled, homogeneous) *)
Record data := mkData {
  dP : smat T; dq : list T; dA : smat T; db : list T;
  dd : list T; ddinv : list T; de_ : list T; deinv : list T; dc : T;
  dnormb : T; dnormq : T }.                       (* cached unscaled inf-norms (problemdata.rs) *)
Record vars := mkVars { vx : list T; vs : list T; vz : list T; vtau : T; vkap : T }.
Record resid := mkResid {
  rx : list T; rz : list T; rtau : T; rx_inf : list T; rz_inf : list T;
  dot_qx : T; dot_bz : T; dot_sz : T; dot_xPx : T; rPx : list T }.

(** residuals.rs:69-111 *)
Definition residuals_update (v : vars) (d : data) : resid :=
  let qx := dot O (dq d) (vx v) in
  let bz := dot O (db d) (vz v) in
  let sz := dot O (vs v) (vz v) in
  let Px := mv O (dP d) (vx v) in
  let xPx := dot O (vx v) Px in
  let rxi := map (neg O) (mtv O (dA d) (vz v) (length (dq d))) in        (* -A'z *)
  let rzi := vadd O (mv O (dA d) (vx v)) (vs v) in                        (* A x + s *)
  let rx0 := vsub O (map (neg O) Px) (vscale O (vtau v) (dq d)) in        (* -Px - q tau *)
  let rx' := vadd O rx0 rxi in
  let rz' := vsub O rzi (vscale O (vtau v) (db d)) in
  mkResid rx' rz' (qx +. bz +. vkap v +. xPx /. vtau v) rxi rzi qx bz sz xPx Px.

(** ** info *)
Record info := mkInfo {
  cost_primal : T; cost_dual : T; res_primal : T; res_dual : T;
  res_primal_inf : T; res_dual_inf : T; gap_abs : T; gap_rel : T; ktratio : T;
  prev_cost_primal : T; prev_cost_dual : T; prev_res_primal : T; prev_res_dual : T;
  prev_gap_abs : T; prev_gap_rel : T;
  iterations : nat; solve_time : T; st : status }.
Definition set_status (i : info) (s : status) : info :=
  mkInfo (cost_primal i) (cost_dual i) (res_primal i) (res_dual i) (res_primal_inf i) (res_dual_inf i)
         (gap_abs i) (gap_rel i) (ktratio i) (prev_cost_primal i) (prev_cost_dual i) (prev_res_primal i)
         (prev_res_dual i) (prev_gap_abs i) (prev_gap_rel i) (iterations i) (solve_time i) s.

(** info.rs:107-175 (the clock is an input) *)
Definition info_update (i : info) (d : data) (v : vars) (r : resid) (time : T) : info :=
  let tauinv := recip (vtau v) in
  let normb := dnormb d in
  let normq := dnormq d in
  let cinv := recip (dc d) in
  let xPx_t := dot_xPx r *. tauinv *. tauinv /. two O in
  let cp := (dot_qx r *. tauinv +. xPx_t) *. cinv in
  let cd := (neg O (dot_bz r) *. tauinv -. xPx_t) *. cinv in
  let normx := norm_scaled (vx v) (dd d) in
  let normz := norm_scaled (vz v) (de_ d) *. cinv in
  let norms := norm_scaled (vs v) (deinv d) in
  let rpi := (norm_scaled (rx_inf r) (ddinv d) *. cinv) /. omax O (one O) normz in
  let rdi := omax O (norm_scaled (rPx r) (ddinv d) /. omax O (one O) normx)
                    (norm_scaled (rz_inf r) (deinv d) /. omax O (one O) (normx +. norms)) in
  let normx := normx *. tauinv in
  let normz := normz *. tauinv in
  let norms := norms *. tauinv in
  let rp := norm_scaled (rz r) (deinv d) *. tauinv /. omax O (one O) (normb +. normx +. norms) in
  let rd := norm_scaled (rx r) (ddinv d) *. tauinv *. cinv /. omax O (one O) (normq +. normx +. normz) in
  let ga := abs O (cp -. cd) in
  let gr := ga /. omax O (one O) (omin O (abs O cp) (abs O cd)) in
  mkInfo cp cd rp rd rpi rdi ga gr (vkap v *. tauinv)
         (prev_cost_primal i) (prev_cost_dual i) (prev_res_primal i) (prev_res_dual i)
         (prev_gap_abs i) (prev_gap_rel i) (iterations i) time (st i).

(** the figures the decision functions read *)
Definition is_solved (i : info) (tga tgr tf : T) : bool :=
  (ltb O (gap_abs i) tga || ltb O (gap_rel i) tgr) && ltb O (res_primal i) tf && ltb O (res_dual i) tf.
Definition is_primal_infeasible (i : info) (bz : T) (ta tr : T) : bool :=
  ltb O bz (neg O ta) && ltb O (res_primal_inf i) (neg O tr *. bz).
Definition is_dual_infeasible (i : info) (qx : T) (ta tr : T) : bool :=
  ltb O qx (neg O ta) && ltb O (res_dual_inf i) (neg O tr *. qx).

(** info.rs:335-358 ; returns the new status *)
Definition check_convergence (i : info) (bz qx : T) (tga tgr tf ta tr tk : T)
           (solved pinf dinf : status) : status :=
  if leb O (ktratio i) (one O) && is_solved i tga tgr tf then solved
  else if ltb O (recip tk *. ofZ O 1000) (ktratio i) then
         if is_primal_infeasible i bz ta tr then pinf
         else if is_dual_infeasible i qx ta tr then dinf else st i
       else st i.

Record settings := mkSettings {
  tol_gap_abs : T; tol_gap_rel : T; tol_feas : T; tol_infeas_abs : T; tol_infeas_rel : T; tol_ktratio : T;
  red_gap_abs : T; red_gap_rel : T; red_feas : T; red_infeas_abs : T; red_infeas_rel : T; red_ktratio : T;
  max_iter : nat; time_limit : T; eps100 : T (* T::epsilon() * 100 *) }.

Definition check_convergence_full (i : info) (bz qx : T) (se : settings) : status :=
  check_convergence i bz qx (tol_gap_abs se) (tol_gap_rel se) (tol_feas se) (tol_infeas_abs se)
    (tol_infeas_rel se) (tol_ktratio se) St_Solved St_PrimalInfeasible St_DualInfeasible.
Definition check_convergence_almost (i : info) (bz qx : T) (se : settings) : status :=
  check_convergence i bz qx (red_gap_abs se) (red_gap_rel se) (red_feas se) (red_infeas_abs se)
    (red_infeas_rel se) (red_ktratio se) St_AlmostSolved St_AlmostPrimalInfeasible St_AlmostDualInfeasible.

(** info.rs:177-226 *)
Definition check_termination (i : info) (bz qx : T) (se : settings) (iter : nat) : info :=
  let s1 := check_convergence_full i bz qx se in
  let hundred := ofZ O 100 in
  let s2 :=
    if status_eqb s1 St_Unsolved && Nat.ltb 1 iter
       && (ltb O (prev_res_dual i) (res_dual i) || ltb O (prev_res_primal i) (res_primal i))
    then
      let sa := if ltb O (ktratio i) (eps100 se)
                   && (ltb O (prev_gap_abs i) (tol_gap_abs se) || ltb O (prev_gap_rel i) (tol_gap_rel se))
                then St_InsufficientProgress else s1 in
      if ltb O (ktratio i) (one O)
      then if (ltb O (tol_feas se *. hundred) (res_dual i) && ltb O (prev_res_dual i *. hundred) (res_dual i))
              || (ltb O (tol_feas se *. hundred) (res_primal i) && ltb O (prev_res_primal i *. hundred) (res_primal i))
           then St_InsufficientProgress else sa
      else sa
    else s1 in
  let s3 :=
    if status_eqb s2 St_Unsolved
    then if Nat.eqb (max_iter se) (iterations i) then St_MaxIterations
         else if ltb O (time_limit se) (solve_time i) then St_MaxTime else s2
    else s2 in
  set_status i s3.

(** info.rs:228-248 *)
Definition save_prev_iterate (i : info) : info :=
  mkInfo (cost_primal i) (cost_dual i) (res_primal i) (res_dual i) (res_primal_inf i) (res_dual_inf i)
         (gap_abs i) (gap_rel i) (ktratio i)
         (cost_primal i) (cost_dual i) (res_primal i) (res_dual i) (gap_abs i) (gap_rel i)
         (iterations i) (solve_time i) (st i).
Definition reset_to_prev_iterate (i : info) : info :=
  mkInfo (prev_cost_primal i) (prev_cost_dual i) (prev_res_primal i) (prev_res_dual i)
         (res_primal_inf i) (res_dual_inf i) (prev_gap_abs i) (prev_gap_rel i) (ktratio i)
         (prev_cost_primal i) (prev_cost_dual i) (prev_res_primal i) (prev_res_dual i)
         (prev_gap_abs i) (prev_gap_rel i) (iterations i) (solve_time i) (st i).

(** info.rs:90-100 *)
Definition info_post_process (i : info) (bz qx : T) (se : settings) : info :=
  if is_errored (st i) || status_eqb (st i) St_MaxIterations || status_eqb (st i) St_MaxTime
  then set_status i (check_convergence_almost i bz qx se) else i.

(** variables.rs:261-285 *)
Definition unscale (v : vars) (d : data) (infeas : bool) : vars :=
  let scaleinv := if infeas then recip (vkap v) else recip (vtau v) in
  let cinv := recip (dc d) in
  mkVars (vscale O scaleinv (hadamard (vx v) (dd d)))
         (vscale O scaleinv (hadamard (vs v) (deinv d)))
         (vscale O (scaleinv *. cinv) (hadamard (vz v) (de_ d)))
         (vtau v *. scaleinv) (vkap v *. scaleinv).

(** presolver.rs:131-152 ; [infb] = the infinity bound *)
Fixpoint reverse_rows (keep : list bool) (red : list T) (fill : T) : list T :=
  match keep with
  | [] => []
  | true :: k' => match red with r :: red' => r :: reverse_rows k' red' fill | [] => fill :: reverse_rows k' [] fill end
  | false :: k' => fill :: reverse_rows k' red fill
  end.

Record solution := mkSol {
  sol_x : list T; sol_s : list T; sol_z : list T; sol_status : status;
  obj_val : option T; obj_val_dual : option T;        (* None = NaN *)
  sol_iterations : nat; r_prim : T; r_dual : T }.

(** solution.rs:66-110 (chordal decomposition disabled) *)
Definition solution_post_process (d : data) (v : vars) (i : info) (keep : option (list bool)) (infb : T) : solution :=
  let infeas := is_infeasible (st i) in
  let u := unscale v d infeas in
  let '(x, s, z) := match keep with
                    | Some k => (vx u, reverse_rows k (vs u) infb, reverse_rows k (vz u) (zero O))
                    | None => (vx u, vs u, vz u) end in
  mkSol x s z (st i)
        (if infeas then None else Some (cost_primal i)) (if infeas then None else Some (cost_dual i))
        (iterations i) (res_primal i) (res_dual i).
End Model.
