(** Verdict algebra: a conjunction of verdicts is [Holds] only if every part is. *)
From Coq Require Import List Bool NArith.
Import ListNotations.
Require Import Clarabel.Term.Check.

Lemma vand_holds a b : vand a b = Holds -> a = Holds /\ b = Holds.
Proof. destruct a, b; cbn; intros H; try discriminate; auto. Qed.
Lemma vall_holds l : vall l = Holds -> Forall (fun v => v = Holds) l.
Proof.
  induction l as [|v l IH]; cbn [vall fold_right]; intros H; [constructor|].
  apply vand_holds in H. destruct H as [Hv Hl]. constructor; auto.
Qed.
Lemma tri_holds h b : tri h b = Holds -> h = true.
Proof. unfold tri. destruct h; [reflexivity|]. destruct b; discriminate. Qed.
Lemma ofb_holds b : ofb b = Holds -> b = true.
Proof. destruct b; [reflexivity | discriminate]. Qed.
Lemma vcode_zero v : vcode v = 0%N <-> v = Holds.
Proof. destruct v; cbn; split; intros H; try discriminate; reflexivity. Qed.
