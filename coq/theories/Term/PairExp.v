(** Term/PairExp.v — the exponential cone over the reals: dual pairing  s.z >= 0  for
    s in K_exp, z in K_exp-dual, and closure of K_exp (and of K_exp-dual) under  a + t b  (t >= 0). *)
From Coq Require Import List ZArith Reals Lra Lia Psatz Bool.
Import ListNotations.
Require Import Clarabel.Base.Ops Clarabel.Term.Eval Clarabel.Term.Spec Clarabel.Term.Farkas.
Local Open Scope R_scope.

(** * Scalar facts about [exp] *)
Lemma exp_tangent (a m : R) : exp m * (1 + a - m) <= exp a.
Proof.
  replace a with (m + (a - m)) at 2 by ring.
  rewrite exp_plus.
  pose proof (exp_pos m) as Hm.
  pose proof (exp_ineq1_le (a - m)) as Hi.
  apply Rmult_le_compat_l; lra.
Qed.

(** interior/interior pairing *)
Lemma pair_exp_int (x y z u v w : R) :
  0 < y -> y * exp (x / y) <= z -> u < 0 -> - u * exp (v / u - 1) <= w ->
  0 <= x * u + (y * v + z * w).
Proof.
  intros Hy Hz Hu Hw.
  pose proof (exp_pos (x / y)) as He1.
  pose proof (exp_pos (v / u - 1)) as He2.
  set (A := exp (x / y)) in *. set (B := exp (v / u - 1)) in *.
  assert (HyA : 0 < y * A) by (apply Rmult_lt_0_compat; assumption).
  assert (HuB : 0 < - u * B) by (apply Rmult_lt_0_compat; lra).
  assert (Hzw : (y * A) * (- u * B) <= z * w).
  { apply Rmult_le_compat; lra. }
  assert (HAB : A * B = exp (x / y + v / u - 1)).
  { unfold A, B. rewrite <- exp_plus. f_equal. ring. }
  pose proof (exp_ineq1_le (x / y + v / u - 1)) as Hi.
  rewrite <- HAB in Hi.
  assert (Hyu : 0 < - u * y) by (apply Rmult_lt_0_compat; lra).
  assert (Hm : (- u * y) * (1 + (x / y + v / u - 1)) <= (- u * y) * (A * B)).
  { apply Rmult_le_compat_l; lra. }
  assert (E : (- u * y) * (1 + (x / y + v / u - 1)) = - (x * u) - y * v).
  { field. split; lra. }
  rewrite E in Hm.
  assert (E2 : (y * A) * (- u * B) = (- u * y) * (A * B)) by ring.
  lra.
Qed.

Lemma pair_exp_scalar (x y z u v w : R) :
  in_exp [x; y; z] -> in_exp_dual [u; v; w] -> 0 <= x * u + (y * v + z * w).
Proof.
  intros Hs Hz.
  destruct Hs as [[Hy Hxz] | [Hx [Hy Hz0]]]; destruct Hz as [[Hu Hw] | [Hu [Hv Hw]]].
  - apply pair_exp_int; assumption.
  - subst u.
    pose proof (exp_pos (x / y)) as He.
    assert (Hz0 : 0 <= z).
    { assert (Hp : 0 < y * exp (x / y)) by (apply Rmult_lt_0_compat; assumption). lra. }
    assert (H1 : 0 <= y * v) by (apply Rmult_le_pos; lra).
    assert (H2 : 0 <= z * w) by (apply Rmult_le_pos; lra).
    lra.
  - subst y.
    pose proof (exp_pos (v / u - 1)) as He.
    assert (Hw0 : 0 <= w).
    { assert (Hp : 0 < - u * exp (v / u - 1)) by (apply Rmult_lt_0_compat; lra). lra. }
    assert (H1 : 0 <= x * u) by nra.
    assert (H2 : 0 <= z * w) by (apply Rmult_le_pos; lra).
    lra.
  - subst y u.
    assert (H2 : 0 <= z * w) by (apply Rmult_le_pos; lra).
    lra.
Qed.

(** * 1. Dual pairing *)
Theorem pair_exp : forall s z, in_exp s -> in_exp_dual z -> 0 <= dot OpsR s z.
Proof.
  intros s z Hs Hz.
  destruct s as [|x [|y [|z0 [|k s]]]]; simpl in Hs; try contradiction.
  destruct z as [|u [|v [|w [|k z]]]]; simpl in Hz; try contradiction.
  rewrite !dot_cons, dot_nil_l.
  pose proof (pair_exp_scalar x y z0 u v w Hs Hz) as H.
  lra.
Qed.

(** * 2. Dual pairing, cone-level *)
Theorem pair_cone_exp : forall s z, in_cone KExp s -> in_dual KExp z -> 0 <= dot OpsR s z.
Proof.
  intros s z [_ Hs] [_ Hz]. apply pair_exp; assumption.
Qed.

(** * Closure of the exponential cone under positive combinations *)
Lemma exp_add_int (x1 y1 x2 y2 : R) :
  0 < y1 -> 0 < y2 ->
  (y1 + y2) * exp ((x1 + x2) / (y1 + y2)) <= y1 * exp (x1 / y1) + y2 * exp (x2 / y2).
Proof.
  intros H1 H2.
  set (m := (x1 + x2) / (y1 + y2)).
  pose proof (exp_tangent (x1 / y1) m) as T1.
  pose proof (exp_tangent (x2 / y2) m) as T2.
  pose proof (exp_pos m) as Hm.
  assert (M1 : y1 * (exp m * (1 + x1 / y1 - m)) <= y1 * exp (x1 / y1)).
  { apply Rmult_le_compat_l; lra. }
  assert (M2 : y2 * (exp m * (1 + x2 / y2 - m)) <= y2 * exp (x2 / y2)).
  { apply Rmult_le_compat_l; lra. }
  assert (E : y1 * (exp m * (1 + x1 / y1 - m)) + y2 * (exp m * (1 + x2 / y2 - m))
              = (y1 + y2) * exp m).
  { unfold m. field. repeat split; lra. }
  lra.
Qed.

Lemma exp_add_scalar (x1 y1 z1 x2 y2 z2 : R) :
  in_exp [x1; y1; z1] -> in_exp [x2; y2; z2] -> in_exp [x1 + x2; y1 + y2; z1 + z2].
Proof.
  intros Ha Hb.
  destruct Ha as [[Hy1 Hz1] | [Hx1 [Hy1 Hz1]]]; destruct Hb as [[Hy2 Hz2] | [Hx2 [Hy2 Hz2]]].
  - left. split; [lra|].
    pose proof (exp_add_int x1 y1 x2 y2 Hy1 Hy2) as H. lra.
  - left. subst y2. replace (y1 + 0) with y1 by ring. split; [exact Hy1|].
    assert (Hle : (x1 + x2) / y1 <= x1 / y1).
    { unfold Rdiv. apply Rmult_le_compat_r; [|lra].
      apply Rlt_le, Rinv_0_lt_compat; exact Hy1. }
    assert (He : exp ((x1 + x2) / y1) <= exp (x1 / y1)).
    { destruct Hle as [Hlt | Heq]; [apply Rlt_le, exp_increasing; exact Hlt | rewrite Heq; lra]. }
    assert (Hm : y1 * exp ((x1 + x2) / y1) <= y1 * exp (x1 / y1)).
    { apply Rmult_le_compat_l; lra. }
    lra.
  - left. subst y1. replace (0 + y2) with y2 by ring. split; [exact Hy2|].
    assert (Hle : (x1 + x2) / y2 <= x2 / y2).
    { unfold Rdiv. apply Rmult_le_compat_r; [|lra].
      apply Rlt_le, Rinv_0_lt_compat; exact Hy2. }
    assert (He : exp ((x1 + x2) / y2) <= exp (x2 / y2)).
    { destruct Hle as [Hlt | Heq]; [apply Rlt_le, exp_increasing; exact Hlt | rewrite Heq; lra]. }
    assert (Hm : y2 * exp ((x1 + x2) / y2) <= y2 * exp (x2 / y2)).
    { apply Rmult_le_compat_l; lra. }
    lra.
  - right. subst y1 y2. repeat split; lra.
Qed.

Lemma exp_scale_scalar (t x y z : R) :
  0 <= t -> in_exp [x; y; z] -> in_exp [t * x; t * y; t * z].
Proof.
  intros Ht Ha.
  destruct Ht as [Ht | Ht].
  - destruct Ha as [[Hy Hz] | [Hx [Hy Hz]]].
    + left. split; [apply Rmult_lt_0_compat; assumption|].
      assert (E : t * x / (t * y) = x / y) by (field; split; lra).
      rewrite E.
      assert (Hm : t * (y * exp (x / y)) <= t * z) by (apply Rmult_le_compat_l; lra).
      lra.
    + right. subst y. repeat split; [nra | ring | apply Rmult_le_pos; lra].
  - subst t. right. repeat split; [lra | ring | lra].
Qed.

(** * 3. Closure under  a + t b *)
Theorem exp_ray : forall a b t, 0 <= t -> in_exp a -> in_exp b ->
  in_exp (vadd OpsR a (vscale OpsR t b)).
Proof.
  intros a b t Ht Ha Hb.
  destruct a as [|x1 [|y1 [|z1 [|k a]]]]; simpl in Ha; try contradiction.
  destruct b as [|x2 [|y2 [|z2 [|k b]]]]; simpl in Hb; try contradiction.
  change (in_exp [x1 + t * x2; y1 + t * y2; z1 + t * z2]).
  apply exp_add_scalar; [exact Ha|].
  apply exp_scale_scalar; assumption.
Qed.

(** * 4. Closure, cone-level *)
Theorem ray_cone_exp : forall a b t, 0 <= t -> in_cone KExp a -> in_cone KExp b ->
  in_cone KExp (vadd OpsR a (vscale OpsR t b)).
Proof.
  intros a b t Ht [La Ha] [Lb Hb]. split.
  - rewrite vadd_length by (rewrite vscale_length, La, Lb; reflexivity). exact La.
  - apply exp_ray; assumption.
Qed.

(** * 5. The dual cone: a linear image of the primal cone, hence the same closure *)
Lemma exp_dual_as_exp (u v w : R) :
  in_exp_dual [u; v; w] <-> in_exp [- v; - u; exp 1 * w].
Proof.
  pose proof (exp_pos 1) as He1.
  assert (Hinv : exp 1 * exp (- 1) = 1).
  { rewrite <- exp_plus. replace (1 + - 1) with 0 by ring. apply exp_0. }
  simpl. split.
  - intros [[Hu Hw] | [Hu [Hv Hw]]].
    + left. split; [lra|].
      assert (E : - v / - u = v / u) by (field; lra).
      rewrite E.
      assert (E2 : exp (v / u - 1) = exp (v / u) * exp (- 1)).
      { rewrite <- exp_plus. f_equal. }
      rewrite E2 in Hw.
      assert (Hm : exp 1 * (- u * (exp (v / u) * exp (- 1))) <= exp 1 * w).
      { apply Rmult_le_compat_l; lra. }
      assert (E3 : exp 1 * (- u * (exp (v / u) * exp (- 1)))
                   = (exp 1 * exp (- 1)) * (- u * exp (v / u))) by ring.
      rewrite E3, Hinv in Hm. lra.
    + right. subst u. repeat split; [lra | ring | apply Rmult_le_pos; lra].
  - intros [[Hu Hw] | [Hv [Hu Hw]]].
    + left. split; [lra|].
      assert (E : - v / - u = v / u) by (field; lra).
      rewrite E in Hw.
      assert (E2 : exp (v / u - 1) = exp (v / u) * exp (- 1)).
      { rewrite <- exp_plus. f_equal. }
      rewrite E2.
      pose proof (exp_pos (- 1)) as Hem.
      assert (Hm : exp (- 1) * (- u * exp (v / u)) <= exp (- 1) * (exp 1 * w)).
      { apply Rmult_le_compat_l; lra. }
      assert (E3 : exp (- 1) * (exp 1 * w) = (exp 1 * exp (- 1)) * w) by ring.
      rewrite E3, Hinv in Hm. lra.
    + right. repeat split; [lra | lra |].
      destruct (Rle_dec 0 w) as [Hw0 | Hw0]; [exact Hw0 | exfalso].
      assert (Hneg : exp 1 * w < 0).
      { replace 0 with (exp 1 * 0) by ring. apply Rmult_lt_compat_l; lra. }
      lra.
Qed.

Theorem exp_dual_ray : forall a b t, 0 <= t -> in_exp_dual a -> in_exp_dual b ->
  in_exp_dual (vadd OpsR a (vscale OpsR t b)).
Proof.
  intros a b t Ht Ha Hb.
  destruct a as [|u1 [|v1 [|w1 [|k a]]]]; simpl in Ha; try contradiction.
  destruct b as [|u2 [|v2 [|w2 [|k b]]]]; simpl in Hb; try contradiction.
  change (in_exp_dual [u1 + t * u2; v1 + t * v2; w1 + t * w2]).
  apply exp_dual_as_exp.
  apply (proj1 (exp_dual_as_exp u1 v1 w1)) in Ha.
  apply (proj1 (exp_dual_as_exp u2 v2 w2)) in Hb.
  pose proof (exp_add_scalar _ _ _ _ _ _ Ha (exp_scale_scalar t _ _ _ Ht Hb)) as H.
  replace (- (v1 + t * v2)) with (- v1 + t * - v2) by ring.
  replace (- (u1 + t * u2)) with (- u1 + t * - u2) by ring.
  replace (exp 1 * (w1 + t * w2)) with (exp 1 * w1 + t * (exp 1 * w2)) by ring.
  exact H.
Qed.

Theorem ray_dual_exp : forall a b t, 0 <= t -> in_dual KExp a -> in_dual KExp b ->
  in_dual KExp (vadd OpsR a (vscale OpsR t b)).
Proof.
  intros a b t Ht [La Ha] [Lb Hb]. split.
  - rewrite vadd_length by (rewrite vscale_length, La, Lb; reflexivity). exact La.
  - apply exp_dual_ray; assumption.
Qed.
