(** Term/Check.v — per-run certificate checkers in exact dyadic arithmetic.
      chk_termtest : original data -> tolerances -> returned (x,s,z) -> verdict       (C01)
      chk_farkas_p / chk_farkas_d : ... -> returned z / (x,s) -> verdict             (C02)
      chk_report   : ... -> reported figures -> verdict                               (C03)
      c_decision   : the Rust info figures fed to the decision model on binary64      (tie)
    Verdicts: [Holds] (the exact statement of Term/Spec.v is TRUE — proved in
    Term/LemmasCheck.v), [Borderline] (true only after allowing the stated rounding slack: counted,
    not a violation), [Fails] (violation candidate), [Unchecked] (cone kind outside the exact
    fragment: a generalised power cone whose exponents are not short dyadics; the 3-d power cone
    with a general dyadic exponent is checked through certified logarithm bounds).
    Norms are compared through the certified bounds [dsqrt_lo]/[dsqrt_up].  No proofs here. *)
From Coq Require Import List ZArith NArith QArith Bool Arith Floats.
Import ListNotations.
Require Import Clarabel.Base.Ops Clarabel.Base.Dyadic Clarabel.Term.Eval Clarabel.Term.Model Clarabel.Term.Spec.
Local Open Scope Z_scope.

Inductive verdict : Set := Holds | Borderline | Fails | Unchecked.
Definition vand (a b : verdict) : verdict :=
  match a, b with
  | Fails, _ | _, Fails => Fails
  | Borderline, _ | _, Borderline => Borderline
  | Unchecked, _ | _, Unchecked => Unchecked
  | Holds, Holds => Holds
  end.
Definition vall (l : list verdict) : verdict := fold_right vand Holds l.
Definition vcode (v : verdict) : N := match v with Holds => 0 | Fails => 1 | Unchecked => 2 | Borderline => 3 end%N.
(** [tri holds border] *)
Definition tri (h b : bool) : verdict := if h then Holds else if b then Borderline else Fails.
Definition ofb (b : bool) : verdict := if b then Holds else Fails.

(** ** constants of the rounding slack (design.d/C01.md) *)
Definition rel40 : dy := D (2 ^ 40 + 1) (-40).            (* 1 + 2^-40 *)
Definition rel40m : dy := D (2 ^ 40 - 1) (-40).           (* 1 - 2^-40 *)
Definition gamma (n : nat) : dy := D (Z.of_nat n + 8) (-50).
Definition rho30 : dy := D 1 (-30).
Definition dtwo : dy := D 2 0.
Definition nlo (a2 : dy) : dy := dsqrt_lo a2.
Definition nup (a2 : dy) : dy := dsqrt_up a2.
Notation "a +d b" := (dadd a b) (at level 50, left associativity).
Notation "a -d b" := (dsub a b) (at level 50, left associativity).
Notation "a *d b" := (dmul a b) (at level 40, left associativity).
Definition ssq := sumsq OpsD.
Definition ddotv := dot OpsD.
Definition dninf := norminf OpsD.

(** ** cone membership *)
Definition slack49 (v : list dy) : dy := dshift (dninf v) (-49).
Definition shiftv (d : dy) (v : list dy) : list dy := map (fun a => a +d d) v.

Definition nn_ok (v : list dy) : bool := forallb (fun a => dleb d0 a) v.
Definition zero_ok (v : list dy) : bool := forallb (fun a => deqb a d0) v.
Definition soc_ok (v : list dy) : bool :=
  match v with [] => true | t :: w => dleb d0 t && dleb (ssq w) (t *d t) end.

(** round a positive dyadic up to [p] mantissa bits *)
Definition round_up (p : Z) (a : dy) : dy :=
  let b := Z.log2 (dm a) + 1 in
  if (dm a <=? 0) || (b <=? p) then a else let s := b - p in D (Z.shiftr (dm a) s + 1) (de a + s).
Fixpoint sq_up (k : nat) (a : dy) : dy :=
  match k with O => a | S k' => sq_up k' (round_up 160 (a *d a)) end.
Definition EXPK : nat := 70.
(** an upper bound of  y * exp (x / y)  for y > 0 , or None if x/y >= 2^EXPK:
    exp t <= (1 / (1 - t/N))^N  with N = 2^EXPK, by EXPK roundings-up squarings *)
Definition yexp_up (x0 y : dy) : option dy :=
  (* clamp x/y to [-2048, 2048]: below, exp is replaced by the larger exp(-2048) (monotone);
     above, no finite f64 z can dominate: give up.  Keeps every exponent small. *)
  let x := dmax x0 (dneg (dshift y 11)) in
  let yN := dshift y (Z.of_nat EXPK) in
  let den := yN -d x in
  if dltb d0 den && dleb x (dshift y 11) then
    let e := Z.min (de yN) (de den) in
    let a := dat yN e in let b := dat den e in
    let rho := D (a * 2 ^ 170 / b + 1) (-170) in
    Some (y *d sq_up EXPK rho)
  else None.
Definition exp_ok (v : list dy) : bool :=
  match v with
  | [x; y; z] =>
      if dltb d0 y then match yexp_up x y with Some u => dleb u z | None => false end
      else dleb x d0 && deqb y d0 && dleb d0 z
  | _ => false end.
Definition exp_dual_ok (v : list dy) : bool :=
  match v with [u; v; w] => exp_ok [u -d v; dneg u; w] | _ => false end.

Definition dpow := powT OpsD.
Definition pow_ok (p q : nat) (v : list dy) : bool :=
  match v with
  | [x; y; z] => dleb d0 x && dleb d0 y && dleb (dpow (dabs z) q) (dpow x p *d dpow y (q - p))
  | _ => false end.
Definition dnat (n : nat) : dy := dofZ (Z.of_nat n).
Definition pow_dual_ok (p q : nat) (v : list dy) : bool :=
  match v with
  | [u; v; w] => dleb d0 u && dleb d0 v &&
                 dleb (dpow (dabs w) q *d (dpow (dnat p) p *d dpow (dnat (q - p)) (q - p)))
                      (dpow u p *d dpow v (q - p) *d dpow (dnat q) q)
  | _ => false end.
(** *** power cones whose exponent is a general dyadic alpha in (0,1) (e.g. the binary64 value
    of 0.3): membership through logarithms, every certified step built ONLY from the upper bound
    [yexp_up] of the exponential.
      [ln_lo x] = Some L  ==>  L <= ln x        (guard:  exp_up1 L <= x)
      [ln_up a] = Some L  ==>  ln a <= L        (guard:  a * exp_up1 (-L) <= 1)
    The candidates come from an UNCERTIFIED fixed-point logarithm [ln_approx] (shift-and-square
    binary logarithm, 96 fractional bits, times a 100-bit ln 2) moved by a small margin; only
    the final guard enters the soundness proof (Term/LemmasPowReal.v).  A 55-step bisection on
    [exp_up1] costs 55 evaluations of [yexp_up] per logarithm (seconds under vm_compute); the
    candidate-then-guard form costs one. *)
Definition exp_up1 (t : dy) : option dy := yexp_up t d1.
Definition LN2 : dy := D 878668439483319573618263538048 (-100).     (* floor (ln 2 * 2^100) *)
Definition LNP : Z := 96.
(** [Y] in [2^96, 2^97) is y * 2^96 with y in [1,2); returns floor-ish (log2 y * 2^n) *)
Fixpoint log2_frac (n : nat) (top Y acc : Z) : Z :=
  match n with
  | O => acc
  | S n' =>
      let Y2 := Z.shiftr (Y * Y) LNP in
      if top <=? Y2 then log2_frac n' top (Z.shiftr Y2 1) (2 * acc + 1)
      else log2_frac n' top Y2 (2 * acc)
  end.
(** approximation of ln x for dm x > 0, on the grid 2^-72 (rounded down) *)
Definition ln_approx (x : dy) : dy :=
  let nb := Z.log2 (dm x) in
  let k := nb + de x in
  let Y := Z.shiftl (dm x) (LNP - nb) in
  let fr := log2_frac 96 (2 ^ (LNP + 1)) Y 0 in
  D (Z.shiftr ((k * 2 ^ LNP + fr) * dm LN2) (96 + 100 - 72)) (-72).
(** margin on the grid 2^-72:  (1 + L^2) * 2^-69  covers the excess  t^2 / 2^EXPK  of [yexp_up]
    and the error of [ln_approx] *)
Definition ln_margin (L : dy) : dy := D (Z.shiftr (dm L * dm L) 141 + 8) (-72).
Fixpoint first_ok (g : dy -> bool) (cands : list dy) : option dy :=
  match cands with [] => None | c :: r => if g c then Some c else first_ok g r end.
Definition ln_lo_guard (x L : dy) : bool :=
  match exp_up1 L with Some U => dleb U x | None => false end.
Definition ln_up_guard (a L : dy) : bool :=
  match exp_up1 (dneg L) with Some U => dleb (a *d U) d1 | None => false end.
Definition ln_lo (x : dy) : option dy :=
  if dltb d0 x then
    let L0 := ln_approx x in let m := ln_margin L0 in
    first_ok (ln_lo_guard x) [L0 -d m; L0 -d dshift m 12; L0 -d dshift m 30]
  else None.
Definition ln_up (a : dy) : option dy :=
  if dltb d0 a then
    let L0 := ln_approx a +d D 1 (-72) in let m := ln_margin L0 in
    first_ok (ln_up_guard a) [L0 +d m; L0 +d dshift m 12; L0 +d dshift m 30]
  else None.
(** |z| <= x^a y^(1-a)  from  |z| * exp (- (a L1 + (1-a) L2)) <= 1 , L1 <= ln x, L2 <= ln y *)
Definition pow_real_ok (a : dy) (v : list dy) : bool :=
  match v with
  | [x; y; z] =>
      if dltb d0 a && dltb a d1 && dleb d0 x && dleb d0 y then
        if deqb z d0 then true else
        match ln_lo x with
        | Some L1 =>
            match ln_lo y with
            | Some L2 =>
                match exp_up1 (dneg (a *d L1 +d (d1 -d a) *d L2)) with
                | Some U => dleb (dabs z *d U) d1
                | None => false end
            | None => false end
        | None => false end
      else false
  | _ => false end.
(** [pow_T2 a] >= a ln a + (1-a) ln (1-a)  (depends on the exponent only) *)
Definition pow_T2 (a : dy) : option dy :=
  match ln_up a with
  | Some A1 => match ln_up (d1 -d a) with
               | Some A2 => Some (a *d A1 +d (d1 -d a) *d A2)
               | None => None end
  | None => None end.
(** |w| <= (u/a)^a (v/(1-a))^(1-a)  from  |w| * exp (T2 - T1) <= 1 ,
    T1 = a L1 + (1-a) L2 <= a ln u + (1-a) ln v *)
Definition pow_real_dual_ok_with (a : dy) (T2 : option dy) (v : list dy) : bool :=
  match v with
  | [u; v; w] =>
      if dltb d0 a && dltb a d1 && dleb d0 u && dleb d0 v then
        if deqb w d0 then true else
        match T2 with
        | Some t2 =>
            match ln_lo u with
            | Some L1 =>
                match ln_lo v with
                | Some L2 =>
                    match exp_up1 (t2 -d (a *d L1 +d (d1 -d a) *d L2)) with
                    | Some U => dleb (dabs w *d U) d1
                    | None => false end
                | None => false end
            | None => false end
        | None => false end
      else false
  | _ => false end.
(** the exponent-only part is evaluated once per partial application [pow_real_dual_ok a] *)
Definition pow_real_dual_ok (a : dy) : list dy -> bool :=
  let T2 := if dltb d0 a && dltb a d1 then pow_T2 a else None in
  fun v => pow_real_dual_ok_with a T2 v.
Definition dprodpow := prodpow OpsD.
Definition genpow_ok (ps : list nat) (q : nat) (v : list dy) : bool :=
  let xs := firstn (length ps) v in let w := skipn (length ps) v in
  nn_ok xs && dleb (dpow (ssq w) q) (dpow (dprodpow xs ps) 2).
Definition genpow_dual_ok (ps : list nat) (q : nat) (v : list dy) : bool :=
  let us := firstn (length ps) v in let w := skipn (length ps) v in
  nn_ok us && dleb (dpow (ssq w) q *d dpow (dprodpow (map dnat ps) ps) 2)
                   (dpow (dprodpow us ps) 2 *d dpow (dpow (dnat q) q) 2).

(** PSD: mat(v) = Dg + sqrt2 * H with H symmetric, zero diagonal, H_ij = v_ij / 2.  For dyadics
    r2lo <= sqrt2 <= r2up and hF >= |H|_F:
        y' mat(v) y  >=  y' (Dg - (r2up - r2lo) hF I + r2lo H) y ,
    and the rational matrix on the right is tested positive definite by elimination in Q on its
    UPPER TRIANGLE (row i holds the entries j >= i; all pivots > 0):
        q(M, y) = a (y0 + b'y1/a)^2 + q(M', y1),   M'_ij = C_ij - b_i b_j / a. *)
Local Open Scope Q_scope.
Fixpoint schur_u (a : Q) (b : list Q) (rest : list (list Q)) : list (list Q) :=
  match b, rest with
  | bi :: b', row :: rest' =>
      map (fun pq => Qred (fst pq - bi * snd pq / a)) (combine row (bi :: b')) :: schur_u a b' rest'
  | _, _ => []
  end.
Fixpoint ldl_pos (fuel : nat) (M : list (list Q)) : bool :=
  match fuel with
  | O => false
  | S f =>
    match M with
    | [] => true
    | [] :: _ => false
    | (a :: b) :: rest => if Qle_bool a 0 then false else ldl_pos f (schur_u a b rest)
    end
  end.
Local Close Scope Q_scope.
Definition r2lo : dy := dsqrt_lo dtwo.
Definition r2up : dy := dsqrt_up dtwo.
Definition psd_half (v : list dy) (i j : nat) : dy := dshift (nth (tri_idx i j) v d0) (-1).
Definition psd_shift (n : nat) (v : list dy) : dy :=
  let offs := flat_map (fun j => map (fun i => psd_half v i j) (seq 0 j)) (seq 0 n) in
  (r2up -d r2lo) *d nup (dtwo *d ssq offs).
(** upper-triangular rows of  Dg - (shift - extra) I + r2lo H *)
Definition psd_matrix (n : nat) (v : list dy) (extra : dy) : list (list Q) :=
  let shift := psd_shift n v -d extra in
  map (fun i => map (fun j =>
        if Nat.eqb i j then d2Q (nth (tri_idx i i) v d0 -d shift)
        else d2Q (r2lo *d psd_half v i j)) (seq i (n - i))) (seq 0 n).
Definition psd_ok (n : nat) (v : list dy) : bool := ldl_pos (S n) (psd_matrix n v d0).
Definition psd_ok_slack (n : nat) (v : list dy) : bool := ldl_pos (S n) (psd_matrix n v (slack49 v)).

(** interior direction used for the Borderline band: v + delta * e_K *)
Definition chk_cone (dual : bool) (k : coneD) (v : list dy) : verdict :=
  if negb (Nat.eqb (length v) (cone_dim k)) then Fails else
  let dl := slack49 v in
  match k with
  | KZero _ => if dual then Holds else tri (zero_ok v) (forallb (fun a => dleb (dabs a) (D 1 (-49))) v)
  | KNN _ => tri (nn_ok v) (nn_ok (shiftv dl v))
  | KSOC _ => tri (soc_ok v) (match v with [] => true | t :: w => soc_ok ((t +d dl) :: w) end)
  | KExp =>
      let f := if dual then exp_dual_ok else exp_ok in
      tri (f v) (match v with
                 | [a; b; c] => if dual then f [a -d dl; b +d dl; c +d dl] else f [a -d dl; b; c +d dl]
                 | _ => false end)
  | KPow a =>
      match alpha_pq a with
      | Some (p, q) =>
          let f := if dual then pow_dual_ok p q else pow_ok p q in
          tri (f v) (match v with [a; b; c] => f [a +d dl; b +d dl; c *d rel40m] | _ => false end)
      | None =>
          (* real-exponent branch: a failed logarithm bound gives [false], never a wrong Holds;
             the shifted test is evaluated only when the exact one fails (each costs a few
             evaluations of [yexp_up]) *)
          let f := if dual then pow_real_dual_ok a else pow_real_ok a in
          if f v then Holds
          else tri false (match v with [a; b; c] => f [a +d dl; b +d dl; c *d rel40m] | _ => false end)
      end
  | KGenPow al _ =>
      match alphas_pq al with
      | Some (ps, q) =>
          let f := if dual then genpow_dual_ok ps q else genpow_ok ps q in
          tri (f v) (f (shiftv dl (firstn (length ps) v) ++ map (fun a => a *d rel40m) (skipn (length ps) v)))
      | None => Unchecked end
  | KPSD n => tri (psd_ok (N.to_nat n) v) (psd_ok_slack (N.to_nat n) v)
  end.
Definition chk_InK (dual : bool) (K : list coneD) (v : list dy) : verdict :=
  vall (map (fun kc => chk_cone dual (fst kc) (snd kc)) (chunks K v)).

(** ** C01 *)
Section WithProb.
Variable p : prob.
Let Ak := sel (p_keep p) (p_A p).
Let bk := sel (p_keep p) (p_b p).
Let P := p_P p.
Let q := p_q p.
Let gam := gamma (p_n p).

Definition dropped_zero_ok (z : list dy) : bool :=
  forallb (fun a => deqb a d0) (sel (map negb (p_keep p)) z).
Definition chk_lengths (x s z : list dy) : verdict :=
  ofb (Nat.eqb (length x) (p_n p) && Nat.eqb (length s) (p_m p) && Nat.eqb (length z) (p_m p)
       && dropped_zero_ok z).

(** ||r|| < tol * max(1, nb + ||u|| + ||w||) *)
Definition chk_lt_norm (r2 a2 tol nb u2 w2 : dy) : verdict :=
  let Mlo := dmax d1 (nb +d nlo u2 +d nlo w2) in
  let Mup := dmax d1 (nb +d nup u2 +d nup w2) in
  tri (dltb (nup r2) (tol *d Mlo))
      (dleb (nlo r2) (tol *d rel40 *d Mup +d gam *d nup a2)).
Definition chk_feas_p (tf : dy) (x sk : list dy) : verdict :=
  chk_lt_norm (ssq (res_p OpsD Ak bk x sk)) (ssq (scale_p OpsD Ak bk x sk)) tf (dninf bk) (ssq x) (ssq sk).
Definition chk_feas_d (tf : dy) (x zk : list dy) : verdict :=
  chk_lt_norm (ssq (res_d OpsD P Ak q x zk)) (ssq (scale_d OpsD P Ak q x zk)) tf (dninf q) (ssq x) (ssq zk).
Definition chk_gap (tga tgr : dy) (x zk : list dy) : verdict :=
  let cp2 := cost_p2 OpsD P q x in
  let cd2 := cost_d2 OpsD P bk x zk in
  let g2 := dabs (cp2 -d cd2) in
  let mn := dmax dtwo (dmin (dabs cp2) (dabs cd2)) in
  let sl := gam *d (scale_cp OpsD P q x +d scale_cd OpsD P bk x zk) in
  tri (dltb g2 (dtwo *d tga) || dltb g2 (tgr *d mn))
      (dleb g2 (dtwo *d tga *d rel40 +d sl) || dleb g2 (tgr *d rel40 *d mn +d sl)).

Definition termtest_parts (tf tga tgr : dy) (x s z : list dy) : list verdict :=
  let sk := sel (p_keep p) s in let zk := sel (p_keep p) z in
  [chk_lengths x s z; chk_feas_p tf x sk; chk_feas_d tf x zk; chk_gap tga tgr x zk;
   chk_InK false (p_K p) s; chk_InK true (p_K p) z].
Definition chk_termtest (tf tga tgr : dy) (x s z : list dy) : verdict :=
  vall (termtest_parts tf tga tgr x s z).

(** ** C02 *)
Definition farkas_p_parts (ta tr c kap : dy) (z : list dy) : list verdict :=
  let zk := sel (p_keep p) z in
  let bz := ddotv bk zk in
  let absbz := ddotv (vabs OpsD bk) (vabs OpsD zk) in
  let atz := mtv OpsD Ak zk (p_n p) in
  let atzs := mtv OpsD (mabs OpsD Ak) (vabs OpsD zk) (p_n p) in
  let z2 := ssq zk in
  [ ofb (Nat.eqb (length z) (p_m p) && dropped_zero_ok z && dltb d0 c && dltb d0 kap);
    chk_InK true (p_K p) z;
    tri (dltb (c *d kap *d bz) (dneg ta))
        (dleb (c *d kap *d bz) (dneg (ta *d rel40m) +d gam *d (c *d kap *d absbz)));
    tri (dltb (nup (ssq atz)) (tr *d c *d dneg bz *d dmax d1 (kap *d nlo z2)))
        (dleb (nlo (ssq atz)) (tr *d rel40 *d c *d (dneg bz +d gam *d absbz) *d dmax d1 (kap *d nup z2)
                               +d gam *d nup (ssq atzs))) ].
Definition chk_farkas_p (ta tr c kap : dy) (z : list dy) : verdict := vall (farkas_p_parts ta tr c kap z).

Definition farkas_d_parts (ta tr c kap : dy) (x s : list dy) : list verdict :=
  let sk := sel (p_keep p) s in
  let qx := ddotv q x in
  let absqx := ddotv (vabs OpsD q) (vabs OpsD x) in
  let px := mv OpsD P x in
  let pxs := mv OpsD (mabs OpsD P) (vabs OpsD x) in
  let axs := vadd OpsD (mv OpsD Ak x) sk in
  let axss := vadd OpsD (mv OpsD (mabs OpsD Ak) (vabs OpsD x)) (vabs OpsD sk) in
  let x2 := ssq x in let s2 := ssq sk in
  let mq := dneg qx in let mqs := dneg qx +d gam *d absqx in
  [ ofb (Nat.eqb (length x) (p_n p) && Nat.eqb (length s) (p_m p) && dltb d0 c && dltb d0 kap);
    chk_InK false (p_K p) s;
    tri (dltb (c *d kap *d qx) (dneg ta))
        (dleb (c *d kap *d qx) (dneg (ta *d rel40m) +d gam *d (c *d kap *d absqx)));
    tri (dltb (nup (ssq px)) (tr *d mq *d dmax d1 (kap *d nlo x2)))
        (dleb (nlo (ssq px)) (tr *d rel40 *d mqs *d dmax d1 (kap *d nup x2) +d gam *d nup (ssq pxs)));
    tri (dltb (nup (ssq axs)) (tr *d c *d mq *d dmax d1 (kap *d (nlo x2 +d nlo s2))))
        (dleb (nlo (ssq axs)) (tr *d rel40 *d c *d mqs *d dmax d1 (kap *d (nup x2 +d nup s2)) +d gam *d nup (ssq axss))) ].
Definition chk_farkas_d (ta tr c kap : dy) (x s : list dy) : verdict := vall (farkas_d_parts ta tr c kap x s).

(** dot-product invariance:  the scaled inner product the test used  =  c * kappa * (user-coordinates
    inner product of the returned vector) : the certificate speaks about the user's data *)
Definition chk_dotinv (c kap reported : dy) (u v : list dy) : verdict :=
  let ex := c *d kap *d ddotv u v in
  let sc := c *d kap *d ddotv (vabs OpsD u) (vabs OpsD v) in
  ofb (dleb (dabs (reported -d ex)) (rho30 *d sc)).

(** ** C03 *)
Definition chk_close (nu tau reported Mlo Mup Rlo Rup Alo : dy) : verdict :=
  ofb (dltb d0 nu && dltb d0 tau && dleb d0 reported
       && dleb (reported *d Mup) ((d1 +d rho30) *d Rlo +d gam *d Alo)
       && dleb ((d1 -d rho30) *d Rup -d gam *d Alo) (reported *d Mlo)).
Definition chk_res_p (nu tau rprim : dy) (x sk : list dy) : verdict :=
  let rv := vsub OpsD (vscale OpsD nu (vadd OpsD (mv OpsD Ak x) sk)) (vscale OpsD tau bk) in
  let av := vadd OpsD (vscale OpsD nu (vadd OpsD (mv OpsD (mabs OpsD Ak) (vabs OpsD x)) (vabs OpsD sk))) (vscale OpsD tau (vabs OpsD bk)) in
  let x2 := ssq x in let s2 := ssq sk in
  chk_close nu tau rprim (dmax tau (tau *d dninf bk +d nu *d nlo x2 +d nu *d nlo s2))
                  (dmax tau (tau *d dninf bk +d nu *d nup x2 +d nu *d nup s2))
                  (nlo (ssq rv)) (nup (ssq rv)) (nlo (ssq av)).
Definition chk_res_d (nu tau rdual : dy) (x zk : list dy) : verdict :=
  let n := length q in
  let rv := vadd OpsD (vscale OpsD nu (vadd OpsD (mv OpsD P x) (mtv OpsD Ak zk n))) (vscale OpsD tau q) in
  let av := vadd OpsD (vscale OpsD nu (vadd OpsD (mv OpsD (mabs OpsD P) (vabs OpsD x)) (mtv OpsD (mabs OpsD Ak) (vabs OpsD zk) n))) (vscale OpsD tau (vabs OpsD q)) in
  let x2 := ssq x in let z2 := ssq zk in
  chk_close nu tau rdual (dmax tau (tau *d dninf q +d nu *d nlo x2 +d nu *d nlo z2))
                  (dmax tau (tau *d dninf q +d nu *d nup x2 +d nu *d nup z2))
                  (nlo (ssq rv)) (nup (ssq rv)) (nlo (ssq av)).
Definition chk_obj_p (objp : dy) (x : list dy) : verdict :=
  ofb (dleb (dabs (dtwo *d objp -d cost_p2 OpsD P q x)) (rho30 *d scale_cp OpsD P q x)).
Definition chk_obj_d (objd : dy) (x zk : list dy) : verdict :=
  ofb (dleb (dabs (dtwo *d objd -d cost_d2 OpsD P bk x zk)) (rho30 *d scale_cd OpsD P bk x zk)).
End WithProb.

(** ** the harness's record of one solve *)
Inductive fval : Set := Fin (d : dy) | FNaN | FInf (neg : bool).
Record setD := mkSet {
  s_tga : dy; s_tgr : dy; s_tf : dy; s_tia : dy; s_tir : dy; s_tk : dy;
  s_rga : dy; s_rgr : dy; s_rf : dy; s_ria : dy; s_rir : dy; s_rk : dy; s_maxit : N }.
Record outD := mkOut {
  o_st : status; o_x : list dy; o_s : list dy; o_z : list dy;
  o_objp : fval; o_objd : fval; o_rprim : fval; o_rdual : fval; o_iter : N;
  o_c : fval; o_tau : fval; o_kap : fval; o_rollbacks : N; o_dotqx : fval; o_dotbz : fval; o_hook : bool }.
Definition fin (f : fval) : dy := match f with Fin d => d | _ => d0 end.
Definition is_fin (f : fval) : bool := match f with Fin _ => true | _ => false end.
Definition is_nan (f : fval) : bool := match f with FNaN => true | _ => false end.

(** C01 verdict of a run (meaningful for status Solved) *)
Definition case_term (p : prob) (se : setD) (o : outD) : verdict :=
  chk_termtest p (s_tf se) (s_tga se) (s_tgr se) (o_x o) (o_s o) (o_z o).
(** C02 verdict (meaningful for PrimalInfeasible / DualInfeasible); [full] selects the tolerances *)
Definition case_farkas_parts (p : prob) (se : setD) (o : outD) (full : bool) : list verdict :=
  let ta := if full then s_tia se else s_ria se in
  let tr := if full then s_tir se else s_rir se in
  if negb (o_hook o) then [Unchecked] else
  let c := fin (o_c o) in let kap := fin (o_kap o) in
  match o_st o with
  | St_PrimalInfeasible | St_AlmostPrimalInfeasible =>
      farkas_p_parts p ta tr c kap (o_z o)
      ++ [ofb (is_nan (o_objp o) && is_nan (o_objd o));
          if is_fin (o_dotbz o)
          then chk_dotinv c kap (fin (o_dotbz o)) (sel (p_keep p) (p_b p)) (sel (p_keep p) (o_z o))
          else Fails]
  | St_DualInfeasible | St_AlmostDualInfeasible =>
      farkas_d_parts p ta tr c kap (o_x o) (o_s o)
      ++ [ofb (is_nan (o_objp o) && is_nan (o_objd o));
          if is_fin (o_dotqx o) then chk_dotinv c kap (fin (o_dotqx o)) (p_q p) (o_x o) else Fails]
  | _ => [Holds]
  end.
Definition case_farkas (p : prob) (se : setD) (o : outD) : verdict := vall (case_farkas_parts p se o true).

(** C03 verdict: every status *)
Definition case_report_parts (p : prob) (se : setD) (o : outD) : list verdict :=
  let inf := is_infeasible (o_st o) in
  let sk := sel (p_keep p) (o_s o) in let zk := sel (p_keep p) (o_z o) in
  let nu := if inf then fin (o_kap o) else d1 in
  let tau := if inf then fin (o_tau o) else d1 in
  [ chk_lengths p (o_x o) (o_s o) (o_z o);
    ofb (N.leb (o_iter o) (s_maxit se));
    (* objectives *)
    if inf then ofb (is_nan (o_objp o) && is_nan (o_objd o))
    else vand (if is_fin (o_objp o) then chk_obj_p p (fin (o_objp o)) (o_x o) else Fails)
              (if is_fin (o_objd o) then chk_obj_d p (fin (o_objd o)) (o_x o) zk else Fails);
    (* residual figures *)
    if inf && negb (o_hook o) then Unchecked
    else vand (if is_fin (o_rprim o) then chk_res_p p nu tau (fin (o_rprim o)) (o_x o) sk else Fails)
              (if is_fin (o_rdual o) then chk_res_d p nu tau (fin (o_rdual o)) (o_x o) zk else Fails);
    (* Almost* only when the reduced tolerances hold for the returned vectors *)
    match o_st o with
    | St_AlmostSolved => chk_termtest p (s_rf se) (s_rga se) (s_rgr se) (o_x o) (o_s o) (o_z o)
    | St_AlmostPrimalInfeasible | St_AlmostDualInfeasible => vall (case_farkas_parts p se o false)
    | St_Unsolved => Fails
    | _ => Holds
    end ].
Definition case_report (p : prob) (se : setD) (o : outD) : verdict := vall (case_report_parts p se o).

(** ** decision tie: the Rust info figures through the model's decision functions on binary64 *)
Record setF := mkSetF {
  f_tga : float; f_tgr : float; f_tf : float; f_tia : float; f_tir : float; f_tk : float;
  f_rga : float; f_rgr : float; f_rf : float; f_ria : float; f_rir : float; f_rk : float }.
Record infoF := mkInfoF {
  g_gap_abs : float; g_gap_rel : float; g_res_primal : float; g_res_dual : float;
  g_res_primal_inf : float; g_res_dual_inf : float; g_ktratio : float; g_dot_bz : float; g_dot_qx : float;
  g_cost_primal : float; g_cost_dual : float; g_tau : float; g_kap : float; g_consistent : bool }.
(** float agreement up to a few ulps (a harmless rewrite such as  k/t  for  k*(1/t)  must not
    raise an alarm), with NaN = NaN and inf = inf *)
Definition feq (a b : float) : bool :=
  PrimFloat.eqb a b || (PrimFloat.is_nan a && PrimFloat.is_nan b)
  || PrimFloat.leb (PrimFloat.abs (PrimFloat.sub a b)) (PrimFloat.mul 0x1p-48%float (PrimFloat.abs b)).
(** the scalar tail of info.rs:update re-executed on binary64 from the Rust figures themselves:
    gap_abs = |cp - cd|, gap_rel = gap_abs / max(1, min(|cp|,|cd|)), ktratio = kappa * (1/tau)
    ([g_consistent] = the hook record of (tau, kappa) belongs to the iterate the figures describe,
    i.e. no roll-back happened) *)
Definition c_scalars (g : infoF) : bool :=
  let O := OpsF in
  let ga := abs O (sub O (g_cost_primal g) (g_cost_dual g)) in
  let gr := div O ga (omax O (one O) (omin O (abs O (g_cost_primal g)) (abs O (g_cost_dual g)))) in
  feq ga (g_gap_abs g) && feq gr (g_gap_rel g)
  && (negb (g_consistent g) || feq (mul O (g_kap g) (div O (one O) (g_tau g))) (g_ktratio g)).
Definition info_of (g : infoF) (s : status) : info (T:=float) :=
  mkInfo 0%float 0%float (g_res_primal g) (g_res_dual g) (g_res_primal_inf g) (g_res_dual_inf g)
         (g_gap_abs g) (g_gap_rel g) (g_ktratio g) 0%float 0%float 0%float 0%float 0%float 0%float
         O 0%float s.
Definition settings_of (f : setF) : settings (T:=float) :=
  mkSettings (f_tga f) (f_tgr f) (f_tf f) (f_tia f) (f_tir f) (f_tk f)
             (f_rga f) (f_rgr f) (f_rf f) (f_ria f) (f_rir f) (f_rk f) O 0%float 0%float.
(** final status vs. the model:
    - Solved / PrimalInfeasible / DualInfeasible must be what check_convergence_full returns
      on the final figures;
    - a limit / error status must survive check_convergence_almost unchanged;
    - an Almost* status must be what check_convergence_almost returns.
    After a roll-back the stored figures mix two iterates (DESIGN F7) but the Rust code decides
    on exactly these stored figures as well, so the tie is still exact. *)
Definition c_decision (f : setF) (g : infoF) (s : status) : verdict :=
  let se := settings_of f in
  if negb (c_scalars g) then Fails else
  match s with
  | St_Solved | St_PrimalInfeasible | St_DualInfeasible =>
      ofb (status_eqb (check_convergence_full OpsF (info_of g St_Unsolved) (g_dot_bz g) (g_dot_qx g) se) s)
  | St_AlmostSolved | St_AlmostPrimalInfeasible | St_AlmostDualInfeasible =>
      ofb (status_eqb (check_convergence_almost OpsF (info_of g St_MaxIterations) (g_dot_bz g) (g_dot_qx g) se) s)
  | St_MaxIterations | St_MaxTime | St_NumericalError | St_InsufficientProgress =>
      ofb (status_eqb (check_convergence_almost OpsF (info_of g s) (g_dot_bz g) (g_dot_qx g) se) s)
  | St_Unsolved => Fails
  end.

(** ** synthetic decision states: the Rust [check_termination] / [post_process] driven on figures
    placed at and around every threshold, compared with the model on binary64 (exact).
    Code 0 = same status; otherwise 1 + 2*[Solved involved] + 4*[infeasibility status involved]. *)
Record synthF := mkSynth {
  y_info : infoF; y_prev_res_primal : float; y_prev_res_dual : float; y_prev_gap_abs : float; y_prev_gap_rel : float;
  y_iterations : N; y_solve_time : float; y_max_iter : N; y_time_limit : float; y_iter : N; y_status0 : status }.
Definition synth_info (y : synthF) : info (T:=float) :=
  let g := y_info y in
  mkInfo (g_cost_primal g) (g_cost_dual g) (g_res_primal g) (g_res_dual g) (g_res_primal_inf g) (g_res_dual_inf g)
         (g_gap_abs g) (g_gap_rel g) (g_ktratio g) 0%float 0%float (y_prev_res_primal y) (y_prev_res_dual y)
         (y_prev_gap_abs y) (y_prev_gap_rel y) (N.to_nat (y_iterations y)) (y_solve_time y) (y_status0 y).
Definition synth_settings (f : setF) (y : synthF) : settings (T:=float) :=
  mkSettings (f_tga f) (f_tgr f) (f_tf f) (f_tia f) (f_tir f) (f_tk f)
             (f_rga f) (f_rgr f) (f_rf f) (f_ria f) (f_rir f) (f_rk f)
             (N.to_nat (y_max_iter y)) (y_time_limit y) 0x1.9p-46%float (* f64::EPSILON * 100 *).
Definition solved_like (s : status) : bool := match s with St_Solved | St_AlmostSolved => true | _ => false end.
Definition synth_code (model rust : status) : N :=
  if status_eqb model rust then 0%N
  else (1 + (if solved_like model || solved_like rust then 2 else 0)
          + (if is_infeasible model || is_infeasible rust then 4 else 0))%N.
(** [post = false]: check_termination ; [post = true]: Info::post_process *)
Definition c_synth (post : bool) (f : setF) (y : synthF) (rust : status) : N :=
  let g := y_info y in
  let i := synth_info y in
  let se := synth_settings f y in
  let model := if post then st (info_post_process OpsF i (g_dot_bz g) (g_dot_qx g) se)
               else st (check_termination OpsF i (g_dot_bz g) (g_dot_qx g) se (N.to_nat (y_iter y))) in
  synth_code model rust.

(** ** one case = one solve; the four verdicts packed base 8 *)
Definition pack (a b c d : verdict) : N := (vcode a + 8 * vcode b + 64 * vcode c + 512 * vcode d)%N.
Definition run_case (p : prob) (se : setD) (sf : setF) (o : outD) (g : infoF) : N :=
  pack (match o_st o with St_Solved => case_term p se o | _ => Holds end)
       (match o_st o with St_PrimalInfeasible | St_DualInfeasible => case_farkas p se o | _ => Holds end)
       (case_report p se o)
       (c_decision sf g (o_st o)).
(** returned vectors contain NaN/inf: nothing can be re-evaluated.  For a status that claims a
    solution or a certificate that is a failure of the claim; otherwise it is recorded. *)
Definition nonfinite_case (s : status) : N :=
  match s with
  | St_Solved => pack Fails Holds Unchecked Holds
  | St_PrimalInfeasible | St_DualInfeasible => pack Holds Fails Unchecked Holds
  | St_AlmostSolved | St_AlmostPrimalInfeasible | St_AlmostDualInfeasible => pack Holds Holds Fails Holds
  | _ => pack Holds Holds Unchecked Holds
  end.
(** diagnosis: the individual verdict codes *)
Definition run_case_detail (p : prob) (se : setD) (sf : setF) (o : outD) (g : infoF) : list (list N) :=
  [ map vcode (termtest_parts p (s_tf se) (s_tga se) (s_tgr se) (o_x o) (o_s o) (o_z o));
    map vcode (case_farkas_parts p se o true);
    map vcode (case_report_parts p se o);
    [vcode (c_decision sf g (o_st o))] ].

Fixpoint fails (k : N) (l : list N) : list (N * N) :=
  match l with
  | [] => []
  | c :: r => if N.eqb c 0 then fails (N.succ k) r else (k, c) :: fails (N.succ k) r
  end.
