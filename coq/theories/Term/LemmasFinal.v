(** Term/LemmasFinal.v — the per-run certificate theorems with every cone kind discharged:
    exponential cone by LemmasExp.v, PSD triangle cone by LemmasPsd.v, 3-d power cones with a
    general dyadic exponent (real-exponent spec [in_pow_real]) by LemmasPowReal.v.  The only cones
    left outside are generalised power cones whose exponents are not dyadics p/2^k, k <= 6
    (for those [alphas_pq] returns None, the spec is [False] and the checker answers [Unchecked],
    never [Holds]). *)
From Coq Require Import List Reals Bool NArith.
Import ListNotations.
Require Import Clarabel.Base.Ops Clarabel.Base.Dyadic Clarabel.Term.Eval Clarabel.Term.Model
        Clarabel.Term.Spec Clarabel.Term.Check Clarabel.Term.LemmasVerdict Clarabel.Term.LemmasCheck
        Clarabel.Term.LemmasCheck2 Clarabel.Term.LemmasExp Clarabel.Term.LemmasPsd
        Clarabel.Term.LemmasPowReal.
Local Open Scope R_scope.

Lemma all_kinds_certified K : forallb (certified_kind true true true) K = true.
Proof.
  induction K as [|k K IH]; cbn [forallb]; [reflexivity|]. rewrite IH.
  destruct k as [n|n|n| |a|al d2|n]; try reflexivity. cbn [certified_kind]. destruct (alpha_pq a); reflexivity.
Qed.

Theorem chk_termtest_sound p tf tga tgr x s z :
  chk_termtest p tf tga tgr x s z = Holds ->
  TermTest (probR_of p) (d2R tf) (d2R tga) (d2R tgr) (vecR x) (vecR s) (vecR z).
Proof.
  apply (chk_termtest_sound_gen p true (fun _ => exp_ok_sound) (fun _ => exp_dual_ok_sound)
                                true (fun _ => psd_ok_sound)
         true (fun _ => pow_real_ok_sound) (fun _ => pow_real_dual_ok_sound)).
  apply all_kinds_certified.
Qed.

Theorem chk_farkas_p_sound_all p ta tr c kap z :
  chk_farkas_p p ta tr c kap z = Holds ->
  length z = p_m p /\ dropped_zero (probR_of p) (vecR z) /\ 0 < d2R c /\ 0 < d2R kap /\
  FarkasP (probR_of p) (d2R ta) (d2R tr) (d2R c) (d2R kap) (vecR z).
Proof.
  apply (chk_farkas_p_sound p true (fun _ => exp_ok_sound) (fun _ => exp_dual_ok_sound)
                            true (fun _ => psd_ok_sound)
         true (fun _ => pow_real_ok_sound) (fun _ => pow_real_dual_ok_sound)).
  apply all_kinds_certified.
Qed.

Theorem chk_farkas_d_sound_all p ta tr c kap x s :
  chk_farkas_d p ta tr c kap x s = Holds ->
  length x = p_n p /\ length s = p_m p /\ 0 < d2R c /\ 0 < d2R kap /\
  FarkasD (probR_of p) (d2R ta) (d2R tr) (d2R c) (d2R kap) (vecR x) (vecR s).
Proof.
  apply (chk_farkas_d_sound p true (fun _ => exp_ok_sound) (fun _ => exp_dual_ok_sound)
                            true (fun _ => psd_ok_sound)
         true (fun _ => pow_real_ok_sound) (fun _ => pow_real_dual_ok_sound)).
  apply all_kinds_certified.
Qed.

Theorem case_report_sound p se o :
  is_infeasible (o_st o) = false -> case_report p se o = Holds ->
  ReportNonInf p se o.
Proof.
  apply (case_report_sound_noninf p true (fun _ => exp_ok_sound) (fun _ => exp_dual_ok_sound)
                                  true (fun _ => psd_ok_sound)
         true (fun _ => pow_real_ok_sound) (fun _ => pow_real_dual_ok_sound)).
  apply all_kinds_certified.
Qed.

(** a packed case code of 0 means all four verdicts are [Holds] *)
Lemma pack_zero a b c d : pack a b c d = 0%N -> a = Holds /\ b = Holds /\ c = Holds /\ d = Holds.
Proof. destruct a, b, c, d; cbn; intros H; try discriminate; auto. Qed.

Theorem run_case_solved_certified p se sf o g :
  run_case p se sf o g = 0%N -> o_st o = St_Solved ->
  TermTest (probR_of p) (d2R (s_tf se)) (d2R (s_tga se)) (d2R (s_tgr se))
           (vecR (o_x o)) (vecR (o_s o)) (vecR (o_z o)).
Proof.
  intros H Hs. unfold run_case in H. apply pack_zero in H. destruct H as (H1 & _).
  rewrite Hs in H1. apply chk_termtest_sound. exact H1.
Qed.
