(** Term/LemmasPowReal.v — soundness of the real-exponent power-cone checkers [pow_real_ok] /
    [pow_real_dual_ok] of Term/Check.v with respect to [in_pow_real] / [in_pow_real_dual] of
    Term/Spec.v (the exponent is  d2R a  for an arbitrary dyadic  0 < a < 1, e.g. the binary64
    value of 0.3).
    Everything rests on the certified UPPER bound of the exponential ([yexp_up_sound],
    Term/LemmasExp.v):
      exp_up1 L = Some U, U <= x          ==>  L <= ln x          ([ln_lo])
      exp_up1 (-L) = Some U, a * U <= 1   ==>  ln a <= L          ([ln_up])
      |z| * U <= 1, exp_up1 (-t) = Some U ==>  |z| <= exp t .
    The uncertified candidate search ([ln_approx], [ln_margin], [first_ok] candidates) does not
    enter: only the guards do. *)
From Coq Require Import List ZArith NArith QArith Qreals Reals Lia Lra Bool Arith Psatz.
Import ListNotations.
Require Import Clarabel.Base.Ops Clarabel.Base.Dyadic Clarabel.Term.Eval Clarabel.Term.Spec
  Clarabel.Term.Check Clarabel.Term.Hom Clarabel.Term.LemmasCheck Clarabel.Term.LemmasExp.
Local Open Scope R_scope.

(** * the exponential bound at y = 1 *)
Lemma exp_up1_sound t U : exp_up1 t = Some U -> exp (d2R t) <= d2R U.
Proof.
  unfold exp_up1. intros HU.
  assert (H1 : dltb d0 d1 = true) by (vm_compute; reflexivity).
  pose proof (yexp_up_sound t d1 U H1 HU) as Hb.
  rewrite d2R_1 in Hb. unfold Rdiv in Hb. rewrite Rinv_1, Rmult_1_r, Rmult_1_l in Hb. exact Hb.
Qed.

Lemma le_ln_of_exp_le L x : 0 < x -> exp L <= x -> L <= ln x.
Proof.
  intros Hx Hle. destruct (Rle_lt_dec L (ln x)) as [Hok | Hbad]; [exact Hok|].
  exfalso. pose proof (exp_increasing _ _ Hbad) as Hinc. rewrite (exp_ln x Hx) in Hinc. lra.
Qed.

Lemma ln_le_of_le_exp L x : 0 < x -> x <= exp L -> ln x <= L.
Proof.
  intros Hx Hle. destruct (Rle_lt_dec (ln x) L) as [Hok | Hbad]; [exact Hok|].
  exfalso. pose proof (exp_increasing _ _ Hbad) as Hinc. rewrite (exp_ln x Hx) in Hinc. lra.
Qed.

(** |z| * U <= 1  and  exp (-t) <= U  give  |z| <= exp t *)
Lemma le_exp_of_guard z t U : 0 <= z -> exp (- t) <= U -> z * U <= 1 -> z <= exp t.
Proof.
  intros Hz HU Hg. pose proof (exp_pos t) as Hp. pose proof (exp_pos (- t)) as Hn.
  assert (Hone : exp (- t) * exp t = 1) by (rewrite <- exp_plus, Rplus_opp_l; apply exp_0).
  assert (H1 : z * exp (- t) <= 1).
  { apply Rle_trans with (z * U); [apply Rmult_le_compat_l; assumption | exact Hg]. }
  assert (H2 : z * exp (- t) * exp t <= 1 * exp t) by (apply Rmult_le_compat_r; lra).
  rewrite Rmult_assoc, Hone in H2. lra.
Qed.

(** * the logarithm bounds: only the guards matter *)
Lemma first_ok_sound g cands c : first_ok g cands = Some c -> g c = true.
Proof.
  induction cands as [|c0 r IH]; cbn [first_ok]; [discriminate|].
  destruct (g c0) eqn:E; [|exact IH]. intros H. injection H as H. subst c0. exact E.
Qed.

Lemma ln_lo_guard_sound x L : 0 < d2R x -> ln_lo_guard x L = true -> d2R L <= ln (d2R x).
Proof.
  intros Hx. unfold ln_lo_guard. destruct (exp_up1 L) as [U|] eqn:EU; [|discriminate].
  intros H. apply dleb_R in H. apply exp_up1_sound in EU.
  apply le_ln_of_exp_le; [exact Hx | lra].
Qed.

Lemma ln_up_guard_sound a L : 0 < d2R a -> ln_up_guard a L = true -> ln (d2R a) <= d2R L.
Proof.
  intros Ha. unfold ln_up_guard. destruct (exp_up1 (dneg L)) as [U|] eqn:EU; [|discriminate].
  intros H. apply dleb_R in H. rewrite d2R_mul, d2R_1 in H.
  apply exp_up1_sound in EU. rewrite d2R_neg in EU.
  apply ln_le_of_le_exp; [exact Ha|].
  apply (le_exp_of_guard _ _ (d2R U)); [lra | exact EU | exact H].
Qed.

Lemma ln_lo_sound x L : ln_lo x = Some L -> 0 < d2R x /\ d2R L <= ln (d2R x).
Proof.
  unfold ln_lo. destruct (dltb d0 x) eqn:Ex; [|discriminate].
  apply dltb_R in Ex. rewrite d2R_0 in Ex. intros H. apply first_ok_sound in H.
  split; [exact Ex | apply ln_lo_guard_sound; assumption].
Qed.

Lemma ln_up_sound a L : ln_up a = Some L -> 0 < d2R a /\ ln (d2R a) <= d2R L.
Proof.
  unfold ln_up. destruct (dltb d0 a) eqn:Ea; [|discriminate].
  apply dltb_R in Ea. rewrite d2R_0 in Ea. intros H. apply first_ok_sound in H.
  split; [exact Ea | apply ln_up_guard_sound; assumption].
Qed.

(** * real powers *)
Lemma rpow_nonneg x a : 0 <= rpow x a.
Proof.
  unfold rpow. destruct (Rle_dec x 0) as [Hle|Hgt]; [lra|]. unfold Rpower. left. apply exp_pos.
Qed.
Lemma rpow_pos_eq x a : 0 < x -> rpow x a = exp (a * ln x).
Proof. intros Hx. unfold rpow. destruct (Rle_dec x 0) as [Hle|Hgt]; [lra | reflexivity]. Qed.

Lemma exp_le_mono2 a b : a <= b -> exp a <= exp b.
Proof. apply exp_le_mono. Qed.

Lemma range_guard a :
  dltb d0 a && dltb a d1 = true -> 0 < d2R a < 1.
Proof.
  intros H. apply andb_prop in H. destruct H as [H0 H1].
  apply dltb_R in H0, H1. rewrite d2R_0 in H0. rewrite d2R_1 in H1. split; assumption.
Qed.

(** * primal cone *)
Theorem pow_real_ok_sound : forall a v, pow_real_ok a v = true -> in_pow_real (d2R a) (vecR v).
Proof.
  intros a v H.
  destruct v as [|x [|y [|z [|w v]]]]; try (cbn [pow_real_ok] in H; discriminate H).
  unfold pow_real_ok in H. cbn [vecR map in_pow_real].
  destruct (dltb d0 a && dltb a d1 && dleb d0 x && dleb d0 y) eqn:Hg; [|discriminate H].
  apply andb_prop in Hg. destruct Hg as [Hg Hy]. apply andb_prop in Hg. destruct Hg as [Ha Hx].
  apply range_guard in Ha. apply dleb_R in Hx, Hy. rewrite d2R_0 in Hx, Hy.
  split; [exact Ha|]. split; [exact Hx|]. split; [exact Hy|].
  destruct (deqb z d0) eqn:Ez.
  - apply deqb_R in Ez. rewrite d2R_0 in Ez. rewrite Ez, Rabs_R0.
    apply Rmult_le_pos; apply rpow_nonneg.
  - destruct (ln_lo x) as [L1|] eqn:E1; [|discriminate H].
    destruct (ln_lo y) as [L2|] eqn:E2; [|discriminate H].
    destruct (exp_up1 (dneg (a *d L1 +d (d1 -d a) *d L2))) as [U|] eqn:EU; [|discriminate H].
    apply dleb_R in H. rewrite d2R_mul, d2R_abs, d2R_1 in H.
    apply exp_up1_sound in EU.
    rewrite d2R_neg, d2R_add, !d2R_mul, d2R_sub, d2R_1 in EU.
    apply ln_lo_sound in E1, E2. destruct E1 as [Hxp E1]. destruct E2 as [Hyp E2].
    rewrite !rpow_pos_eq by assumption. rewrite <- exp_plus.
    destruct Ha as [Ha0 Ha1].
    revert H EU E1 E2 Ha0 Ha1.
    generalize (d2R a) as al. generalize (d2R L1) as l1. generalize (d2R L2) as l2.
    generalize (ln (d2R x)) as lx. generalize (ln (d2R y)) as ly.
    generalize (Rabs (d2R z)) (Rabs_pos (d2R z)). generalize (d2R U) as u.
    intros u az Haz ly lx l2 l1 al H EU E1 E2 Ha0 Ha1.
    apply Rle_trans with (exp (al * l1 + (1 - al) * l2)).
    + apply (le_exp_of_guard az _ u); assumption.
    + apply exp_le_mono.
      assert (H1 : al * l1 <= al * lx) by (apply Rmult_le_compat_l; lra).
      assert (H2 : (1 - al) * l2 <= (1 - al) * ly) by (apply Rmult_le_compat_l; lra).
      lra.
Qed.

(** * dual cone *)
Lemma pow_T2_sound a T :
  0 < d2R a < 1 -> pow_T2 a = Some T ->
  d2R a * ln (d2R a) + (1 - d2R a) * ln (1 - d2R a) <= d2R T.
Proof.
  intros [Ha0 Ha1]. unfold pow_T2.
  destruct (ln_up a) as [A1|] eqn:E1; [|discriminate].
  destruct (ln_up (d1 -d a)) as [A2|] eqn:E2; [|discriminate].
  intros H. injection H as H. subst T.
  apply ln_up_sound in E1, E2. destruct E1 as [_ E1]. destruct E2 as [_ E2].
  rewrite d2R_sub, d2R_1 in E2.
  rewrite d2R_add, !d2R_mul, d2R_sub, d2R_1.
  assert (H1 : d2R a * ln (d2R a) <= d2R a * d2R A1) by (apply Rmult_le_compat_l; lra).
  assert (H2 : (1 - d2R a) * ln (1 - d2R a) <= (1 - d2R a) * d2R A2) by (apply Rmult_le_compat_l; lra).
  lra.
Qed.

Lemma ln_div_pos u al : 0 < u -> 0 < al -> ln (u / al) = ln u - ln al.
Proof.
  intros Hu Hal. unfold Rdiv. rewrite ln_mult by (try assumption; apply Rinv_0_lt_compat; exact Hal).
  rewrite ln_Rinv by exact Hal. ring.
Qed.

Theorem pow_real_dual_ok_sound :
  forall a v, pow_real_dual_ok a v = true -> in_pow_real_dual (d2R a) (vecR v).
Proof.
  intros a v H. unfold pow_real_dual_ok in H.
  destruct v as [|u [|v0 [|w [|w' v]]]]; try (cbn [pow_real_dual_ok_with] in H; discriminate H).
  unfold pow_real_dual_ok_with in H. cbn [vecR map in_pow_real_dual].
  destruct (dltb d0 a && dltb a d1) eqn:Ha; cbn [andb] in H; [|discriminate H].
  destruct (dleb d0 u && dleb d0 v0) eqn:Hg; [|discriminate H].
  apply andb_prop in Hg. destruct Hg as [Hu Hv].
  apply range_guard in Ha. apply dleb_R in Hu, Hv. rewrite d2R_0 in Hu, Hv.
  split; [exact Ha|]. split; [exact Hu|]. split; [exact Hv|].
  destruct (deqb w d0) eqn:Ew.
  - apply deqb_R in Ew. rewrite d2R_0 in Ew. rewrite Ew, Rabs_R0.
    apply Rmult_le_pos; apply rpow_nonneg.
  - destruct (pow_T2 a) as [t2|] eqn:ET; [|discriminate H].
    destruct (ln_lo u) as [L1|] eqn:E1; [|discriminate H].
    destruct (ln_lo v0) as [L2|] eqn:E2; [|discriminate H].
    destruct (exp_up1 (t2 -d (a *d L1 +d (d1 -d a) *d L2))) as [U|] eqn:EU; [|discriminate H].
    apply dleb_R in H. rewrite d2R_mul, d2R_abs, d2R_1 in H.
    apply exp_up1_sound in EU.
    rewrite d2R_sub, d2R_add, !d2R_mul, d2R_sub, d2R_1 in EU.
    apply ln_lo_sound in E1, E2. destruct E1 as [Hup E1]. destruct E2 as [Hvp E2].
    pose proof (pow_T2_sound a t2 Ha ET) as HT.
    destruct Ha as [Ha0 Ha1].
    assert (Hua : 0 < d2R u / d2R a).
    { unfold Rdiv. apply Rmult_lt_0_compat; [exact Hup | apply Rinv_0_lt_compat; exact Ha0]. }
    assert (Hva : 0 < d2R v0 / (1 - d2R a)).
    { unfold Rdiv. apply Rmult_lt_0_compat; [exact Hvp | apply Rinv_0_lt_compat; lra]. }
    rewrite !rpow_pos_eq by assumption. rewrite <- exp_plus.
    rewrite !ln_div_pos by (try assumption; lra).
    revert H EU E1 E2 HT Ha0 Ha1.
    generalize (d2R a) as al. generalize (d2R L1) as l1. generalize (d2R L2) as l2.
    generalize (d2R t2) as T2.
    generalize (ln (d2R u)) as lu. generalize (ln (d2R v0)) as lv.
    generalize (Rabs (d2R w)) (Rabs_pos (d2R w)). generalize (d2R U) as uu.
    intros uu aw Haw lv lu T2 l2 l1 al H EU E1 E2 HT Ha0 Ha1.
    generalize dependent (ln al). generalize dependent (ln (1 - al)). intros lb la HT.
    apply Rle_trans with (exp ((al * l1 + (1 - al) * l2) - T2)).
    + apply (le_exp_of_guard aw _ uu); [exact Haw | | exact H].
      replace (- (al * l1 + (1 - al) * l2 - T2)) with (T2 - (al * l1 + (1 - al) * l2)) by ring.
      exact EU.
    + apply exp_le_mono.
      assert (H1 : al * l1 <= al * lu) by (apply Rmult_le_compat_l; lra).
      assert (H2 : (1 - al) * l2 <= (1 - al) * lv) by (apply Rmult_le_compat_l; lra).
      lra.
Qed.
