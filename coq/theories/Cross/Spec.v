(** Statements for C05 (consistency across equivalent formulations and runs), over the
    reals, every dimension.  Vectors / matrices as in Newton/Model.v. *)
From Coq Require Import Reals.
Require Import Clarabel.Newton.Model.
Open Scope R_scope.

Section Defs.
Variables (n m : nat) (P A : mat) (q b : vec).

Definition pobj (x : vec) : R := / 2 * quad n P x x + dot n q x.
Definition dobj (x z : vec) : R := - dot m b z - / 2 * quad n P x x.
(** residual of the primal equation A x + s = b and of the dual equation P x + A' z + q = 0 *)
Definition rprim (x s : vec) : vec := fun i => mv n A x i + s i - b i.
Definition rdual (x z : vec) : vec := fun j => mv n P x j + mv m (transp A) z j + q j.
End Defs.

(** the exact identity behind "weak duality across runs": for ANY two points
    (x1, s1) and (x2, z2) of the same data (symmetric P), *)
Definition stmt_cross_identity : Prop :=
  forall (n m : nat) (P A : mat) (q b x1 s1 x2 z2 : vec),
    (forall i j, (i < n)%nat -> (j < n)%nat -> P i j = P j i) ->
    pobj n P q x1 - dobj n m P b x2 z2 =
    / 2 * quad n P (vadd x1 (vscal (-1) x2)) (vadd x1 (vscal (-1) x2))
    + dot m s1 z2
    + dot n (rdual n m P A q x2 z2) x1
    - dot m (rprim n A b x1 s1) z2.

(** consequence: with P positive semidefinite and s1, z2 in a dual pair of cones
    (s1'z2 >= 0), no run's dual objective exceeds another run's primal objective by more
    than the explicitly computable residual slack *)
Definition stmt_cross_weak_duality : Prop :=
  forall (n m : nat) (P A : mat) (q b x1 s1 x2 z2 : vec),
    (forall i j, (i < n)%nat -> (j < n)%nat -> P i j = P j i) ->
    (forall u, 0 <= quad n P u u) ->
    0 <= dot m s1 z2 ->
    dobj n m P b x2 z2 <=
    pobj n P q x1 + Rabs (dot n (rdual n m P A q x2 z2) x1) + Rabs (dot m (rprim n A b x1 s1) z2).

(** and therefore two runs' primal objectives differ by at most their own gaps plus the
    two cross slacks *)
Definition stmt_objectives_agree : Prop :=
  forall (n m : nat) (P A : mat) (q b x1 s1 z1 x2 s2 z2 : vec),
    (forall i j, (i < n)%nat -> (j < n)%nat -> P i j = P j i) ->
    (forall u, 0 <= quad n P u u) ->
    0 <= dot m s1 z2 -> 0 <= dot m s2 z1 ->
    let slack12 := Rabs (dot n (rdual n m P A q x2 z2) x1) + Rabs (dot m (rprim n A b x1 s1) z2) in
    let slack21 := Rabs (dot n (rdual n m P A q x1 z1) x2) + Rabs (dot m (rprim n A b x2 s2) z1) in
    Rabs (pobj n P q x1 - pobj n P q x2) <=
    Rabs (pobj n P q x1 - dobj n m P b x1 z1) + Rabs (pobj n P q x2 - dobj n m P b x2 z2)
    + slack12 + slack21.

(** scaling the objective by lambda > 0: the same x, s and lambda*z have residuals scaled by
    lambda (dual) / unchanged (primal), and objectives scaled by lambda *)
Definition stmt_scale_objective : Prop :=
  forall (n m : nat) (P A : mat) (q b x s z : vec) (lam : R),
    let P' : mat := fun i j => lam * P i j in
    let q' : vec := vscal lam q in
    let z' : vec := vscal lam z in
    (forall j, rdual n m P' A q' x z' j = lam * rdual n m P A q x z j) /\
    (forall i, rprim n A b x s i = rprim n A b x s i) /\
    pobj n P' q' x = lam * pobj n P q x /\
    dobj n m P' b x z' = lam * dobj n m P b x z.
