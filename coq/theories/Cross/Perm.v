(** C05: permuting the variables or the constraint rows of a problem is a bijection between
    the points of the two formulations that preserves both objectives and maps the primal
    and dual residuals entry to entry.  Permutations are lists [p] with
    [Permutation p (seq 0 n)]; the permuted problem reads the original through [nth _ p]. *)
From Coq Require Import Reals List Permutation Lia Lra.
Import ListNotations.
Require Import Clarabel.Newton.Model Clarabel.Newton.Lemmas Clarabel.Cross.Spec.
Open Scope R_scope.

Fixpoint sumlist (l : list R) : R := match l with [] => 0 | x :: r => x + sumlist r end.

Lemma sumlist_perm l l' : Permutation l l' -> sumlist l = sumlist l'.
Proof.
  induction 1 as [|x l l' _ IH|x y l|l l' l'' _ IH1 _ IH2]; cbn [sumlist].
  - reflexivity.
  - rewrite IH. reflexivity.
  - lra.
  - rewrite IH1. exact IH2.
Qed.

Lemma sumlist_app a b : sumlist (a ++ b) = sumlist a + sumlist b.
Proof. induction a as [|x a IH]; cbn [sumlist app]; [lra|]. rewrite IH. lra. Qed.

Lemma sumn_sumlist n f : sumn n f = sumlist (map f (seq 0 n)).
Proof.
  induction n as [|n IH]; [reflexivity|].
  cbn [sumn]. rewrite seq_S, map_app, sumlist_app, <- IH. cbn. lra.
Qed.

(** reindexing a finite sum by a permutation of the index range *)
Lemma sumn_reindex n p f :
  Permutation p (seq 0 n) ->
  sumn n (fun k => f (nth k p O)) = sumn n f.
Proof.
  intros Hp. rewrite !sumn_sumlist.
  assert (Hl : length p = n) by (rewrite (Permutation_length Hp), seq_length; reflexivity).
  assert (E : map (fun k => f (nth k p O)) (seq 0 n) = map f p).
  { rewrite <- Hl. clear Hp Hl. rewrite <- (map_map (fun k => nth k p O) f). f_equal.
    induction p as [|x p IH] using rev_ind; [reflexivity|].
    rewrite app_length. cbn [length]. rewrite Nat.add_1_r, seq_S, map_app. cbn [map plus].
    rewrite app_nth2 by lia. rewrite Nat.sub_diag. cbn [nth]. f_equal.
    rewrite <- IH at 2. apply map_ext_in. intros k Hk. apply in_seq in Hk.
    rewrite app_nth1 by lia. reflexivity. }
  rewrite E. apply sumlist_perm. apply Permutation_map. exact Hp.
Qed.

Section VarPerm.
(** variables permuted: x'_j = x_{p j}, P'_{ij} = P_{p i, p j}, q'_j = q_{p j}, A'_{ij} = A_{i, p j} *)
Variables (n m : nat) (P A : mat) (q b : vec) (p : list nat).
Hypothesis Hp : Permutation p (seq 0 n).
Let pi (j : nat) : nat := nth j p O.
Definition Pv : mat := fun i j => P (pi i) (pi j).
Definition Av : mat := fun i j => A i (pi j).
Definition qv : vec := fun j => q (pi j).
Definition xv (x : vec) : vec := fun j => x (pi j).

Lemma mv_var M x i : mv n (fun i j => M i (pi j)) (xv x) i = mv n M x i.
Proof. unfold mv, xv. apply (sumn_reindex n p (fun k => M i k * x k) Hp). Qed.

Theorem perm_vars_pobj x : pobj n Pv qv (xv x) = pobj n P q x.
Proof.
  unfold pobj, quad, dot. f_equal.
  - f_equal. unfold Pv, xv.
    rewrite <- (sumn_reindex n p (fun k => x k * mv n P x k) Hp).
    apply sumn_ext. intros i _. f_equal.
    change (mv n (fun i0 j => P (pi i0) (pi j)) (fun j => x (pi j)) i) with (mv n (fun i0 jj => P i0 (pi jj)) (xv x) (pi i)).
    apply (mv_var P x (pi i)).
  - unfold qv, xv. apply (sumn_reindex n p (fun k => q k * x k) Hp).
Qed.

Theorem perm_vars_rprim x s i : rprim n Av b (xv x) s i = rprim n A b x s i.
Proof. unfold rprim, Av. rewrite (mv_var A x i). reflexivity. Qed.

Theorem perm_vars_rdual x z j :
  rdual n m Pv Av qv (xv x) z j = rdual n m P A q x z (pi j).
Proof.
  unfold rdual.
  change (mv n Pv (xv x) j) with (mv n (fun i jj => P i (pi jj)) (xv x) (pi j)).
  rewrite (mv_var P x (pi j)). reflexivity.
Qed.

Theorem perm_vars_dobj x z : dobj n m Pv b (xv x) z = dobj n m P b x z.
Proof.
  unfold dobj. f_equal. f_equal. unfold quad, dot, Pv, xv.
  rewrite <- (sumn_reindex n p (fun k => x k * mv n P x k) Hp).
  apply sumn_ext. intros i _. f_equal.
  change (mv n (fun i0 j => P (pi i0) (pi j)) (fun j => x (pi j)) i) with (mv n (fun i0 jj => P i0 (pi jj)) (xv x) (pi i)).
  apply (mv_var P x (pi i)).
Qed.
End VarPerm.

Section RowPerm.
(** rows permuted: A'_{ij} = A_{r i, j}, b'_i = b_{r i}, s'_i = s_{r i}, z'_i = z_{r i} *)
Variables (n m : nat) (P A : mat) (q b : vec) (r : list nat).
Hypothesis Hr : Permutation r (seq 0 m).
Let rho (i : nat) : nat := nth i r O.
Definition Ar : mat := fun i j => A (rho i) j.
Definition br : vec := fun i => b (rho i).
Definition rowv (s : vec) : vec := fun i => s (rho i).

Theorem perm_rows_rprim x s i : rprim n Ar br x (rowv s) i = rprim n A b x s (rho i).
Proof. unfold rprim, Ar, br, rowv, mv. reflexivity. Qed.

Theorem perm_rows_rdual x z j : rdual n m P Ar q x (rowv z) j = rdual n m P A q x z j.
Proof.
  unfold rdual. f_equal. f_equal. unfold mv, transp, Ar, rowv.
  apply (sumn_reindex m r (fun k => A k j * z k) Hr).
Qed.

Theorem perm_rows_dobj x z : dobj n m P br x (rowv z) = dobj n m P b x z.
Proof.
  unfold dobj. f_equal. f_equal. unfold dot, br, rowv.
  apply (sumn_reindex m r (fun k => b k * z k) Hr).
Qed.

(** the pairing of slack and dual is unchanged, so complementarity transfers *)
Theorem perm_rows_pairing s z : dot m (rowv s) (rowv z) = dot m s z.
Proof. unfold dot, rowv. apply (sumn_reindex m r (fun k => s k * z k) Hr). Qed.
End RowPerm.
