(** Exact (dyadic) evaluation of the cross-run consistency test of C05.  Both runs' returned
    points are given in the coordinates of the same base problem (P upper triangle and A as
    triplets).  Verdict 0 iff
       |p(x1) - p(x2)| <= G1 + G2 + S12 + S21
    where G_i is the gap tolerance that run i's Solved verdict guarantees and
       S_ij = rd_j * |x_i| + rp_i * |z_j|
    is the explicit bound on the residual slack of theorem C05_objectives_agree that the
    documented feasibility test of each run implies (|r_dj' x_i| <= |r_dj| |x_i| etc.;
    2-norms bounded from above by certified dyadic square roots). *)
From Coq Require Import List NArith ZArith Bool.
Import ListNotations.
Require Import Clarabel.Base.Dyadic Clarabel.Newton.Check.

Definition norm2_up (v : list dy) : dy := dsqrt_up (dsumsq v).

Definition pobj_d (n : N) (P : list trip) (q x : list dy) : dy :=
  dadd (dshift (ddot x (spmv n P x)) (-1)) (ddot q x).

(** [rp_i], [rd_i]: the bounds on the 2-norms of run i's primal and dual residuals (in base
    units) that its own Solved verdict guarantees:
      rp_i = tol_feas * max(1, |b|_inf + |x_i| + |s_i|)           (run i's own data and point)
      rd_i = tol_feas * max(1, |q_i|_inf + |x_i| + |z_i|) / lambda_i
    They are computed from run i's own (possibly rescaled) data by the harness. *)
Definition slack_bound (rp_i rd_j : dy) (xi zj : list dy) : dy :=
  dadd (dmul rd_j (norm2_up xi)) (dmul rp_i (norm2_up zj)).

Definition c_cross (n m : N) (Ptriu A : list trip) (q b : list dy)
           (g1 g2 rp1 rd1 rp2 rd2 : dy)
           (o1 o2 : dy)
           (x1 s1 z1 x2 s2 z2 : list dy) : N :=
  let P := symT Ptriu in
  let p1 := pobj_d n P q x1 in
  let p2 := pobj_d n P q x2 in
  let bound := dadd (dadd g1 g2)
                    (dadd (slack_bound rp1 rd2 x1 z2) (slack_bound rp2 rd1 x2 z1)) in
  (* the REPORTED objective values (o1, o2, in base units) must agree within the same bound,
     and each within its own gap tolerance of the objective recomputed from its point *)
  if dleb (dabs (dsub p1 p2)) bound
     && dleb (dabs (dsub o1 o2)) (dadd bound (dshift (dadd (dabs o1) (dabs o2)) (-30)))
     && dleb (dabs (dsub o1 p1)) (dadd g1 (dshift (dadd (dabs o1) d1) (-30)))
     && dleb (dabs (dsub o2 p2)) (dadd g2 (dshift (dadd (dabs o2) d1) (-30)))
  then 0%N else 1%N.

(** same verdict class: 0 solved-like (Solved / AlmostSolved), 1 primal infeasible-like,
    2 dual infeasible-like, 3 anything else *)
Definition vclass (status : N) : N :=
  match status with
  | 1 | 4 => 0 | 2 | 5 => 1 | 3 | 6 => 2 | _ => 3
  end%N.
(** two runs that both reach a verdict must reach the same class; a run that ends without a
    verdict (limits, numerical error, insufficient progress) contradicts nothing - how often
    that happens is a robustness question (C06) and is counted by the check in aggregate *)
Definition c_class (st1 st2 : N) : N :=
  if N.eqb (vclass st1) 3 || N.eqb (vclass st2) 3 then 0%N
  else if N.eqb (vclass st1) (vclass st2) then 0%N else 1%N.
