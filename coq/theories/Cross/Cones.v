(** C05: the cone constraints under the equivalent formulations.

    [Cross/Perm.v] shows that permuting variables / rows maps objectives and residuals entry to
    entry.  This file adds the cone side, over the cone predicates of [Term/Spec.v]:
      - rows permuted inside a nonnegative cone, or inside the tail of a second-order cone;
      - cones reordered (blocks of the product swapped together with their rows);
      - adjacent nonnegative cones split or merged;
      - the objective scaled by [lam > 0]: the dual point [lam * z] stays in K* for EVERY cone
        kind (zero, nonnegative, second-order, exponential, power, generalised power, PSD).
    So a point feasible for one formulation is carried to a point feasible for the other, with
    the objective relations of Cross/Lemmas.v and Cross/Perm.v. *)
From Coq Require Import List Reals Lra Lia Permutation Bool NArith ZArith.
Import ListNotations.
Require Import Clarabel.Base.Ops Clarabel.Base.Dyadic Clarabel.Term.Eval Clarabel.Term.Spec
        Clarabel.Term.Farkas Clarabel.Term.PairPow Clarabel.Term.PairPsd.
Local Open Scope R_scope.

(** * permutations inside a cone *)
Lemma in_nn_perm v w : Permutation v w -> in_nn v -> in_nn w.
Proof.
  unfold in_nn. intros H Hv. apply Forall_forall. intros x Hx.
  rewrite Forall_forall in Hv. apply Hv. apply (Permutation_in x (Permutation_sym H)). exact Hx.
Qed.

Lemma in_zero_perm v w : Permutation v w -> in_zero v -> in_zero w.
Proof.
  unfold in_zero. intros H Hv. apply Forall_forall. intros x Hx.
  rewrite Forall_forall in Hv. apply Hv. apply (Permutation_in x (Permutation_sym H)). exact Hx.
Qed.

Lemma sumsq_perm v w : Permutation v w -> sumsq OpsR v = sumsq OpsR w.
Proof.
  induction 1 as [|x l l' _ IH|x y l|l l' l'' _ IH1 _ IH2].
  - reflexivity.
  - rewrite !sumsq_cons, IH. reflexivity.
  - rewrite !sumsq_cons. lra.
  - rewrite IH1. exact IH2.
Qed.

Lemma in_soc_tail_perm t r r' : Permutation r r' -> in_soc (t :: r) -> in_soc (t :: r').
Proof. cbn [in_soc]. intros H [H1 H2]. rewrite <- (sumsq_perm r r' H). auto. Qed.

Theorem cone_nn_rows_permuted n v w :
  Permutation v w -> in_cone (KNN n) v -> in_cone (KNN n) w.
Proof.
  intros H [Hl Hv]. split.
  - rewrite <- (Permutation_length H). exact Hl.
  - exact (in_nn_perm v w H Hv).
Qed.

Theorem dual_nn_rows_permuted n v w :
  Permutation v w -> in_dual (KNN n) v -> in_dual (KNN n) w.
Proof. exact (cone_nn_rows_permuted n v w). Qed.

Theorem cone_soc_tail_permuted n t r r' :
  Permutation r r' -> in_cone (KSOC n) (t :: r) -> in_cone (KSOC n) (t :: r').
Proof.
  intros H [Hl Hv]. split.
  - cbn [length] in *. rewrite <- (Permutation_length H). exact Hl.
  - exact (in_soc_tail_perm t r r' H Hv).
Qed.

(** * cones reordered *)
Lemma cones_dim_cons k K : cones_dim (k :: K) = (cone_dim k + cones_dim K)%nat.
Proof. reflexivity. Qed.

Lemma chunks_app {X} K1 K2 (v1 v2 : list X) :
  length v1 = cones_dim K1 ->
  chunks (K1 ++ K2) (v1 ++ v2) = chunks K1 v1 ++ chunks K2 v2.
Proof.
  revert v1. induction K1 as [|k K1 IH]; intros v1 Hl.
  - cbn in Hl. destruct v1; [reflexivity|discriminate].
  - rewrite cones_dim_cons in Hl. cbn [app chunks].
    rewrite firstn_app, skipn_app.
    replace (cone_dim k - length v1)%nat with 0%nat by lia.
    cbn [firstn skipn]. rewrite app_nil_r. f_equal.
    apply IH. rewrite skipn_length. lia.
Qed.

Theorem InK_app K1 K2 v1 v2 :
  length v1 = cones_dim K1 ->
  InK (K1 ++ K2) (v1 ++ v2) <-> InK K1 v1 /\ InK K2 v2.
Proof. intros Hl. unfold InK. rewrite (chunks_app K1 K2 v1 v2 Hl). apply Forall_app. Qed.

Theorem InKdual_app K1 K2 v1 v2 :
  length v1 = cones_dim K1 ->
  InKdual (K1 ++ K2) (v1 ++ v2) <-> InKdual K1 v1 /\ InKdual K2 v2.
Proof. intros Hl. unfold InKdual. rewrite (chunks_app K1 K2 v1 v2 Hl). apply Forall_app. Qed.

(** swapping two groups of cones together with their rows *)
Theorem cones_reordered K1 K2 v1 v2 :
  length v1 = cones_dim K1 -> length v2 = cones_dim K2 ->
  (InK (K1 ++ K2) (v1 ++ v2) <-> InK (K2 ++ K1) (v2 ++ v1)) /\
  (InKdual (K1 ++ K2) (v1 ++ v2) <-> InKdual (K2 ++ K1) (v2 ++ v1)).
Proof.
  intros H1 H2. split.
  - rewrite (InK_app K1 K2 v1 v2 H1), (InK_app K2 K1 v2 v1 H2). tauto.
  - rewrite (InKdual_app K1 K2 v1 v2 H1), (InKdual_app K2 K1 v2 v1 H2). tauto.
Qed.

(** the pairing <s,z> does not see the reordering either *)
Theorem reorder_pairing (s1 s2 z1 z2 : list R) :
  length s1 = length z1 -> length s2 = length z2 ->
  dot OpsR (s1 ++ s2) (z1 ++ z2) = dot OpsR (s2 ++ s1) (z2 ++ z1).
Proof. intros H1 H2. rewrite !dot_app by assumption. lra. Qed.

(** * nonnegative cones split or merged *)
Lemma in_nn_app a b : in_nn (a ++ b) <-> in_nn a /\ in_nn b.
Proof. unfold in_nn. apply Forall_app. Qed.

Lemma firstn_add {X} (a b : nat) (v : list X) :
  firstn (a + b) v = firstn a v ++ firstn b (skipn a v).
Proof.
  revert v. induction a as [|a IH]; intros v; [reflexivity|].
  destruct v as [|x v]; [cbn; rewrite firstn_nil; reflexivity|].
  cbn [Nat.add firstn skipn app]. f_equal. apply IH.
Qed.

Lemma skipn_add {X} (a b : nat) (v : list X) : skipn b (skipn a v) = skipn (a + b) v.
Proof.
  revert v. induction a as [|a IH]; intros v; [reflexivity|].
  destruct v as [|x v]; [cbn; rewrite skipn_nil; reflexivity|]. cbn [Nat.add skipn]. apply IH.
Qed.

Theorem nn_cones_merged a b K v :
  (N.to_nat a + N.to_nat b <= length v)%nat ->
  (InK (KNN a :: KNN b :: K) v <-> InK (KNN (a + b) :: K) v) /\
  (InKdual (KNN a :: KNN b :: K) v <-> InKdual (KNN (a + b) :: K) v).
Proof.
  intros Hl.
  assert (E : forall P : list (coneD * list R) -> Prop, True) by auto. clear E.
  assert (main :
    (in_cone (KNN a) (firstn (N.to_nat a) v) /\
     in_cone (KNN b) (firstn (N.to_nat b) (skipn (N.to_nat a) v))) <->
    in_cone (KNN (a + b)) (firstn (N.to_nat (a + b)) v)).
  { unfold in_cone. cbn [cone_dim]. rewrite N2Nat.inj_add, firstn_add, in_nn_app.
    rewrite app_length, !firstn_length, skipn_length. split.
    - intros [[L1 H1] [L2 H2]]. split; [lia|auto].
    - intros [L [H1 H2]]. repeat split; auto; lia. }
  split.
  - unfold InK. cbn [chunks cone_dim]. rewrite !Forall_cons_iff. cbn [fst snd].
    rewrite skipn_add, <- N2Nat.inj_add. rewrite <- main. tauto.
  - unfold InKdual. cbn [chunks cone_dim]. rewrite !Forall_cons_iff. cbn [fst snd].
    rewrite skipn_add, <- N2Nat.inj_add.
    change (in_dual (KNN a)) with (in_cone (KNN a)). change (in_dual (KNN b)) with (in_cone (KNN b)).
    change (in_dual (KNN (a + b))) with (in_cone (KNN (a + b))). rewrite <- main. tauto.
Qed.

(** * objective scaled by lam > 0: the dual point lam * z stays in K* *)
Lemma sumsq_vscale t v : sumsq OpsR (vscale OpsR t v) = t * t * sumsq OpsR v.
Proof.
  induction v as [|a v IH]; [cbn [vscale map]; rewrite sumsq_nil; ring|].
  rewrite vscale_cons, !sumsq_cons, IH. ring.
Qed.

Lemma in_nn_scale t v : 0 <= t -> in_nn v -> in_nn (vscale OpsR t v).
Proof. intros Ht H. apply vscale_nonneg; assumption. Qed.

Lemma in_soc_scale t v : 0 <= t -> in_soc v -> in_soc (vscale OpsR t v).
Proof.
  destruct v as [|a w]; [intros; exact I|].
  rewrite vscale_cons. cbn [in_soc]. intros Ht [H1 H2]. split; [apply Rmult_le_pos; assumption|].
  rewrite sumsq_vscale. replace (t * a * (t * a)) with (t * t * (a * a)) by ring.
  apply Rmult_le_compat_l; [apply Rmult_le_pos; assumption|exact H2].
Qed.

Lemma in_exp_dual_scale t v : 0 < t -> in_exp_dual v -> in_exp_dual (vscale OpsR t v).
Proof.
  destruct v as [|u [|v' [|w [|? ?]]]]; cbn [in_exp_dual vscale map]; try tauto.
  change (mul OpsR t) with (Rmult t).
  intros Ht [[Hu H]|[Hu [Hv Hw]]].
  - left. split; [nra|].
    replace (t * v' / (t * u)) with (v' / u) by (field; split; lra).
    replace (- (t * u) * exp (v' / u - 1)) with (t * (- u * exp (v' / u - 1))) by ring.
    apply Rmult_le_compat_l; [lra|exact H].
  - right. subst u. repeat split; [ring| |]; apply Rmult_le_pos; lra.
Qed.

Lemma in_pow_dual_scale p q t v :
  (p <= q)%nat -> 0 < t -> in_pow_dual p q v -> in_pow_dual p q (vscale OpsR t v).
Proof.
  destruct v as [|u [|v' [|w [|? ?]]]]; cbn [in_pow_dual vscale map]; try tauto.
  change (mul OpsR t) with (Rmult t).
  intros Hpq Ht (Hu & Hv & H). repeat split; try (apply Rmult_le_pos; lra).
  rewrite Rabs_mult, (Rabs_right t) by lra. rewrite !Rpow_mult_distr.
  replace (t ^ q) with (t ^ p * t ^ (q - p)) by (rewrite <- pow_add; f_equal; lia).
  assert (Hp : 0 < t ^ p) by (apply pow_lt; exact Ht).
  assert (Hq : 0 < t ^ (q - p)) by (apply pow_lt; exact Ht).
  set (L := Rabs w ^ q * (INR p ^ p * INR (q - p) ^ (q - p))) in *.
  set (Rr := u ^ p * v' ^ (q - p) * INR q ^ q) in *.
  replace (t ^ p * t ^ (q - p) * Rabs w ^ q * (INR p ^ p * INR (q - p) ^ (q - p)))
    with (t ^ p * t ^ (q - p) * L) by (unfold L; ring).
  replace (t ^ p * u ^ p * (t ^ (q - p) * v' ^ (q - p)) * INR q ^ q)
    with (t ^ p * t ^ (q - p) * Rr) by (unfold Rr; ring).
  apply Rmult_le_compat_l; [apply Rlt_le, Rmult_lt_0_compat; assumption|exact H].
Qed.

Lemma firstn_vscale n t v : firstn n (vscale OpsR t v) = vscale OpsR t (firstn n v).
Proof. unfold vscale. apply firstn_map. Qed.
Lemma skipn_vscale n t v : skipn n (vscale OpsR t v) = vscale OpsR t (skipn n v).
Proof. unfold vscale. apply skipn_map. Qed.

Lemma in_genpow_dual_scale ps q t v :
  list_sum ps = q -> (length ps <= length v)%nat -> 0 < t ->
  in_genpow_dual ps q v -> in_genpow_dual ps q (vscale OpsR t v).
Proof.
  unfold in_genpow_dual. intros Hs Hl Ht [H1 H2].
  rewrite firstn_vscale, skipn_vscale. split; [apply vscale_nonneg; [lra|exact H1]|].
  rewrite sumsq_vscale. rewrite !prodpowR_pprod in *.
  rewrite pprod_vscale by (rewrite firstn_length; lia). rewrite Hs.
  rewrite !Rpow_mult_distr.
  assert (Htq : 0 < t ^ q) by (apply pow_lt; exact Ht).
  set (L := sumsq OpsR (skipn (length ps) v) ^ q * pprod (map INR ps) ps ^ 2) in *.
  set (Rr := pprod (firstn (length ps) v) ps ^ 2 * (INR q ^ q) ^ 2) in *.
  replace (t ^ q * t ^ q * sumsq OpsR (skipn (length ps) v) ^ q * pprod (map INR ps) ps ^ 2)
    with (t ^ q * t ^ q * L) by (unfold L; ring).
  replace ((t ^ q) ^ 2 * pprod (firstn (length ps) v) ps ^ 2 * (INR q ^ q) ^ 2)
    with (t ^ q * t ^ q * Rr) by (unfold Rr; ring).
  apply Rmult_le_compat_l; [apply Rlt_le, Rmult_lt_0_compat; assumption|exact H2].
Qed.

Lemma vzero_add_scale t b :
  vadd OpsR (vadd OpsR b (vscale OpsR (-1) b)) (vscale OpsR t b) = vscale OpsR t b.
Proof.
  induction b as [|a b IH]; [reflexivity|].
  rewrite !vscale_cons, !vadd_cons, IH. f_equal. ring.
Qed.

Lemma svec_quad_vscale n t b y : svec_quad n (vscale OpsR t b) y = t * svec_quad n b y.
Proof.
  rewrite <- (vzero_add_scale t b).
  rewrite svec_quad_ray by (rewrite vadd_length; rewrite ?vscale_length; reflexivity).
  rewrite svec_quad_ray by reflexivity. ring.
Qed.

Lemma in_psd_scale n t v : 0 <= t -> in_psd n v -> in_psd n (vscale OpsR t v).
Proof.
  intros Ht H y Hy. rewrite svec_quad_vscale. apply Rmult_le_pos; [exact Ht|apply H; exact Hy].
Qed.

Theorem dual_cone_scaled (k : coneD) (lam : R) (z : list R) :
  0 < lam -> in_dual k z -> in_dual k (vscale OpsR lam z).
Proof.
  intros Ht [Hl H]. split; [rewrite vscale_length; exact Hl|].
  destruct k as [n|n|n| |a|al d2|n].
  - exact I.
  - apply in_nn_scale; [lra|exact H].
  - apply in_soc_scale; [lra|exact H].
  - apply in_exp_dual_scale; assumption.
  - destruct (alpha_pq a) as [[p q]|] eqn:E; [|apply in_pow_real_dual_scale; assumption].
    apply alpha_pq_spec in E. apply in_pow_dual_scale; [lia|exact Ht|exact H].
  - destruct (alphas_pq al) as [[ps q]|] eqn:E; [|exact H].
    apply alphas_pq_spec in E. destruct E as (E1 & _ & E3 & _).
    apply in_genpow_dual_scale; try assumption. cbn [cone_dim] in Hl. lia.
  - apply in_psd_scale; [lra|exact H].
Qed.

Lemma chunks_vscale K t (z : list R) :
  chunks K (vscale OpsR t z) = map (fun kc => (fst kc, vscale OpsR t (snd kc))) (chunks K z).
Proof.
  revert z. induction K as [|k K IH]; intros z; cbn [chunks map]; [reflexivity|].
  rewrite firstn_vscale, skipn_vscale, IH. reflexivity.
Qed.

Theorem objective_scaled_dual_feasible (K : list coneD) (lam : R) (z : list R) :
  0 < lam -> InKdual K z -> InKdual K (vscale OpsR lam z).
Proof.
  intros Ht H. unfold InKdual in *. rewrite chunks_vscale, Forall_map. cbn [fst snd].
  eapply Forall_impl; [|exact H]. intros kc Hkc. apply dual_cone_scaled; assumption.
Qed.
